#!/usr/bin/env python3
"""shgen -- T-gen for C19: translate bin/newpolicy.sh (and bin/newpolicy, bin/sudo-newpolicy) of the
repository into lean/NA/Gen/NewPolicy.lean.

The shell source is parsed (a real, small parser for the subset of bash the scripts use), every
simple command that bash's DEBUG trap reports in the main shell becomes ONE instruction
`⟨line, cmd, ok, fail, vis⟩`:

  * `cmd`  : the abstract command (NA.C19.Cmd) the normalised command text is classified as.
             The table below lists the exact command texts that are understood; anything else is
             an ERROR (the tie is broken), never skipped.
  * `ok`/`fail`: index of the instruction that runs next when the command ends with status 0 /
             non-zero, computed from the control structure (`&&`, `||`, `;`, `if`, `while`,
             `break`, `continue`, `return n`, functions inlined at their single call site).
  * `vis`  : false for the one construct that runs without a main-shell DEBUG event (the
             subshell body of `uptodate`).

Spellings with the same meaning are mapped to one canonical text before classification (section
"spelling" below): backquotes ≡ $( ), ${X} ≡ $X, quotes around harmless literals / static path
variables / right-hand sides of assignments, `test …` ≡ `[ … ]`, `:` ≡ `true`, `! cmd` (status
negated: ok/fail continuations swapped), `function f {`, `local`/`readonly` in front of an assignment
(status always 0; `local` only when every use of the variable lies inside the function after the
declaration), any wording of an `echo` without redirection and without $( ); comments, blank lines,
`;` and the order of independent assignments never mattered.  The tables are written as in today's
script and are compared through the same canonicalisation.

Also checked while translating (each failure is an error): every static path variable is defined,
with the expected text, before it is used; commands that depend on the working directory are
reached with the expected `cd`; each function is called from exactly one place.

usage: shgen.py -repo /repo -out /verif/lean/NA/Gen/NewPolicy.lean
"""
import argparse
import hashlib
import os
import re
import sys


class ShgenError(Exception):
    pass


# ------------------------------------------------------------------------------- tokens

class Tok:
    def __init__(self, kind, val, line):
        self.kind, self.val, self.line = kind, val, line

    def __repr__(self):
        return "%s(%r)@%d" % (self.kind, self.val, self.line)


OPCHARS = ";|&()"


def skip_quoted(src, i, line):
    """src[i] is a quote or starts $( ... ; return (index after the construct, line)."""
    n = len(src)
    c = src[i]
    if c == "'":
        j = src.find("'", i + 1)
        if j < 0:
            raise ShgenError("line %d: unterminated '" % line)
        return j + 1, line + src.count("\n", i, j)
    if c == '"':
        j = i + 1
        while j < n and src[j] != '"':
            if src[j] == "\\":
                j += 2
                continue
            if src.startswith("$(", j):
                j, line = skip_quoted(src, j, line)
                continue
            if src[j] == "`":
                raise ShgenError("line %d: backquote substitution not understood" % line)
            if src[j] == "\n":
                line += 1
            j += 1
        if j >= n:
            raise ShgenError("line %d: unterminated \"" % line)
        return j + 1, line
    if src.startswith("$((", i):
        raise ShgenError("line %d: arithmetic expansion not understood" % line)
    if src.startswith("$(", i):
        depth = 1
        j = i + 2
        while j < n and depth > 0:
            ch = src[j]
            if ch in "'\"":
                j, line = skip_quoted(src, j, line)
                continue
            if src.startswith("$(", j):
                j, line = skip_quoted(src, j, line)
                continue
            if ch == "\\":
                j += 2
                continue
            if ch == "(":
                depth += 1
            elif ch == ")":
                depth -= 1
            elif ch == "\n":
                line += 1
            j += 1
        if depth:
            raise ShgenError("line %d: unterminated $(" % line)
        return j, line
    raise ShgenError("internal: skip_quoted at %r" % src[i:i + 10])


def debacktick(src):
    """`cmd` means the same as $(cmd): rewrite every backquote substitution (outside single quotes and
    comments) into the $( ) form before tokenising.  Line structure is kept."""
    out = []
    i, n = 0, len(src)
    stack = ["code"]          # code | dq | paren:<depth>
    depth = []
    while i < n:
        c = src[i]
        ctx = stack[-1]
        if c == "\\" and i + 1 < n:
            out.append(src[i:i + 2])
            i += 2
            continue
        if c == "`":
            j = i + 1
            buf = []
            while j < n and src[j] != "`":
                if src[j] == "\\" and j + 1 < n and src[j + 1] in "`\\$":
                    buf.append(src[j + 1])
                    j += 2
                    continue
                buf.append(src[j])
                j += 1
            if j >= n:
                raise ShgenError("unterminated backquote substitution")
            out.append("$(" + debacktick("".join(buf)) + ")")
            i = j + 1
            continue
        if ctx == "dq":
            if c == '"':
                stack.pop()
            elif src.startswith("$(", i) and not src.startswith("$((", i):
                stack.append("paren")
                depth.append(1)
                out.append("$(")
                i += 2
                continue
            out.append(c)
            i += 1
            continue
        # code context
        if c == "'":
            j = src.find("'", i + 1)
            if j < 0:
                raise ShgenError("unterminated '")
            out.append(src[i:j + 1])
            i = j + 1
            continue
        if c == '"':
            stack.append("dq")
        elif c == "#" and (i == 0 or src[i - 1] in " \t\n;|&("):
            j = src.find("\n", i)
            j = n if j < 0 else j
            out.append(src[i:j])
            i = j
            continue
        elif src.startswith("$(", i) and not src.startswith("$((", i):
            stack.append("paren")
            depth.append(1)
            out.append("$(")
            i += 2
            continue
        elif ctx == "paren":
            if c == "(":
                depth[-1] += 1
            elif c == ")":
                depth[-1] -= 1
                if depth[-1] == 0:
                    depth.pop()
                    stack.pop()
        out.append(c)
        i += 1
    return "".join(out)


def read_word(src, i, line):
    """Read one shell word starting at src[i]; returns (text, new index, new line)."""
    n = len(src)
    start = i
    while i < n:
        c = src[i]
        if c in " \t\n" or c in OPCHARS or c in "<>":
            break
        if c == "\\":
            if i + 1 < n and src[i + 1] == "\n":
                break
            i += 2
            continue
        if c in "'\"" or src.startswith("$(", i):
            i, line = skip_quoted(src, i, line)
            continue
        if c == "`":
            raise ShgenError("line %d: backquote substitution not understood" % line)
        if src.startswith("${", i):
            j = src.find("}", i)
            if j < 0:
                raise ShgenError("line %d: unterminated ${" % line)
            i = j + 1
            continue
        i += 1
    return src[start:i], i, line


def tokenize(src):
    src = debacktick(src)
    toks = []
    i, n, line = 0, len(src), 1
    while i < n:
        c = src[i]
        if c == "\n":
            toks.append(Tok("NL", "\n", line))
            line += 1
            i += 1
            continue
        if c in " \t":
            i += 1
            continue
        if c == "\\" and i + 1 < n and src[i + 1] == "\n":
            i += 2
            line += 1
            continue
        if c == "#":
            j = src.find("\n", i)
            i = n if j < 0 else j
            continue
        two = src[i:i + 2]
        if two in ("&&", "||"):
            toks.append(Tok("OP", two, line))
            i += 2
            continue
        if two == ";;":
            raise ShgenError("line %d: case statement not understood" % line)
        if c in OPCHARS:
            toks.append(Tok("OP", c, line))
            i += 1
            continue
        # redirection (optionally with a leading io number)
        m = re.match(r"(\d*)(<>|>>|>&|<&|>\||>|<)", src[i:])
        if m and (m.group(1) == "" or True):
            # a leading number counts as io number only if directly followed by the operator
            fd, op = m.group(1), m.group(2)
            if src[i:i + 2] == "<<" or src[i:i + 3] == "<<<":
                raise ShgenError("line %d: here document not understood" % line)
            j = i + len(m.group(0))
            while j < n and src[j] in " \t":
                j += 1
            target, j2, line2 = read_word(src, j, line)
            if target == "":
                raise ShgenError("line %d: redirection without target" % line)
            toks.append(Tok("REDIR", fd + op + target, line))
            i, line = j2, line2
            continue
        wline = line
        w, i2, line = read_word(src, i, line)
        if w == "":
            raise ShgenError("line %d: cannot read a word at %r" % (line, src[i:i + 20]))
        toks.append(Tok("WORD", w, wline))
        i = i2
    toks.append(Tok("EOF", "", line))
    return toks



# ------------------------------------------------------------------------------- spelling
# Different spellings of the same command are mapped to ONE canonical text before classification
# (the tables below are keyed by canonical text; their keys go through the same function):
#   * `cmd` ≡ $(cmd)                                    (debacktick, before tokenising)
#   * ${NAME} ≡ $NAME where the next character cannot continue the name
#   * the text inside $( ) is parsed and printed canonically (spacing, nested spellings)
#   * 'lit' and "lit" ≡ lit for a non-empty literal of harmless characters
#   * "…" around static path variables, $POLICY and harmless literals ≡ the same without quotes
#     (these values are never empty and the model already assumes that paths contain no blanks or
#     glob characters: the script uses them unquoted today)
#   * on the right-hand side of an assignment "…" ≡ … when only variables, $( ) and harmless literals
#     are inside (no word splitting there)
#   * test … ≡ [ … ]
SAFE_LIT = set("abcdefghijklmnopqrstuvwxyzABCDEFGHIJKLMNOPQRSTUVWXYZ0123456789_./:,@%+-")
IDENT = set("abcdefghijklmnopqrstuvwxyzABCDEFGHIJKLMNOPQRSTUVWXYZ0123456789_")
NEVER_EMPTY_PLAIN = {"BASE", "GIT_URL", "POLICYDB", "CURRENT", "NEXT", "PSRC", "PCODE", "PLOG", "POLICY_FILE",
                     "PREV_CODE", "POLICY"}
ASSIGN_RX = re.compile(r"^([A-Za-z_][A-Za-z0-9_]*)=")


def canon_script(text):
    """canonical one-line text of a piece of shell code (the inside of $( ), a table key)"""
    return render(Parser(tokenize(text)).parse_script())


def _items(w, i, end_dq):
    """split w[i:] into items until the closing double quote (end_dq) or the end of the word.
    items: ('lit', c) ('esc', 2 chars) ('var', NAME) ('sub', canonical inner) ('other', text)
           ('sq', content) ('dq', [items])"""
    n = len(w)
    out = []
    while i < n:
        c = w[i]
        if end_dq and c == '"':
            return out, i + 1
        if c == "\\" and i + 1 < n:
            out.append(("esc", w[i:i + 2]))
            i += 2
            continue
        if c == "'" and not end_dq:
            j = w.find("'", i + 1)
            out.append(("sq", w[i + 1:j]))
            i = j + 1
            continue
        if c == '"' and not end_dq:
            inner, i = _items(w, i + 1, True)
            out.append(("dq", inner))
            continue
        if w.startswith("$(", i) and not w.startswith("$((", i):
            j, _ = skip_quoted(w, i, 0)
            out.append(("sub", canon_script(w[i + 2:j - 1])))
            i = j
            continue
        if w.startswith("${", i):
            j = w.find("}", i)
            name = w[i + 2:j]
            if name and all(ch in IDENT for ch in name) and not name[0].isdigit():
                out.append(("var", name))
            else:
                out.append(("other", w[i:j + 1]))
            i = j + 1
            continue
        if c == "$" and i + 1 < n and (w[i + 1].isalpha() or w[i + 1] == "_"):
            j = i + 1
            while j < n and w[j] in IDENT:
                j += 1
            out.append(("var", w[i + 1:j]))
            i = j
            continue
        if c == "$" and i + 1 < n and w[i + 1] in "@*#?!$-0123456789":
            out.append(("other", w[i:i + 2]))
            i += 2
            continue
        out.append(("lit", c))
        i += 1
    if end_dq:
        raise ShgenError("unterminated \" in word %r" % w)
    return out, i


def _flat(items, assign, out):
    for it in items:
        k = it[0]
        if k == "lit" or k == "esc" or k == "other":
            out.append(("t", it[1]))
        elif k == "var":
            out.append(("v", it[1]))
        elif k == "sub":
            out.append(("t", "$(" + it[1] + ")"))
        elif k == "sq":
            if it[1] and all(ch in SAFE_LIT for ch in it[1]):
                out.append(("t", it[1]))
            else:
                out.append(("t", "'" + it[1] + "'"))
        elif k == "dq":
            inner = it[1]

            def harmless(x):
                if x[0] == "lit":
                    return x[1] in SAFE_LIT
                if x[0] == "var":
                    return assign or x[1] in NEVER_EMPTY_PLAIN
                if x[0] == "sub":
                    return assign
                return False
            if inner and all(harmless(x) for x in inner):
                _flat(inner, assign, out)
            else:
                out.append(("t", '"'))
                _flat(inner, assign, out)
                out.append(("t", '"'))


def norm_word(w, assign=False):
    m = ASSIGN_RX.match(w) if assign else None
    head = ""
    if m:
        head, w = m.group(0), w[m.end():]
    items, _ = _items(w, 0, False)
    flat = []
    _flat(items, bool(m), flat)
    res = []
    for idx, (k, t) in enumerate(flat):
        if k == "t":
            res.append(t)
        else:
            nxt = ""
            for k2, t2 in flat[idx + 1:]:
                if k2 == "v":
                    nxt = "$"
                    break
                if t2:
                    nxt = t2[0]
                    break
            res.append("${%s}" % t if nxt in IDENT and nxt != "" else "$" + t)
    r = head + "".join(res)
    if r in RESERVED or r == "":
        return head + w
    return r


def norm_redir(r):
    m = re.match(r"(\d*)(<>|>>|>&|<&|>\||>|<)(.*)$", r, re.S)
    return m.group(1) + m.group(2) + norm_word(m.group(3))


# ------------------------------------------------------------------------------- AST

class Simple:
    def __init__(self, words, redirs, line):
        self.raw = " ".join(words + redirs)
        self.decl = None             # 'local' | 'readonly': declaration in front of ONE assignment / name
        if words and words[0] in ("local", "readonly") and len(words) == 2:
            self.decl, words = words[0], words[1:]
        elif words and words[0] in ("declare", "typeset") and len(words) == 3 and words[1] == "-r":
            self.decl, words = "readonly", words[2:]
        out, prefix = [], True
        for w in words:
            a = prefix and ASSIGN_RX.match(w) is not None
            prefix = a
            out.append(norm_word(w, assign=a))
        if out and out[0] == "test":
            out = ["["] + out[1:] + ["]"]
        if out == [":"]:
            out = ["true"]
        self.words, self.redirs, self.line = out, [norm_redir(r) for r in redirs], line

    def text(self):
        """normalised text; the redirection `9>&-` (do not hand the lock descriptor to the child) is
        not part of it, see nofd()"""
        return " ".join(self.words + [r for r in self.redirs if r != "9>&-"])

    def shown(self):
        return (self.decl + " " if self.decl else "") + self.text() + (" 9>&-" if self.nofd() else "")

    def nofd(self):
        return "9>&-" in self.redirs


class Pipeline:
    def __init__(self, cmds, neg=False):
        self.cmds, self.neg = cmds, neg          # neg: `! pipeline`


class AndOr:
    def __init__(self, first, rest):
        self.first, self.rest = first, rest      # rest: [(op, pipeline)]


class Lst:
    def __init__(self, items):
        self.items = items                       # [(andor, background?)]


class If:
    def __init__(self, cond, then, els):
        self.cond, self.then, self.els = cond, then, els


class While:
    def __init__(self, cond, body):
        self.cond, self.body = cond, body


class Group:
    def __init__(self, body, redirs):
        self.body, self.redirs = body, redirs


class Subshell:
    def __init__(self, body, redirs, line):
        self.body, self.redirs, self.line = body, redirs, line


class FuncDef:
    def __init__(self, name, body, line):
        self.name, self.body, self.line = name, body, line


RESERVED = {"if", "then", "else", "elif", "fi", "while", "do", "done", "{", "}", "for", "case", "esac",
            "until", "select", "function", "[[", "!", "in", "time", "coproc"}
UNSUPPORTED = {"for", "case", "esac", "until", "select", "[[", "time", "coproc"}


class Parser:
    def __init__(self, toks):
        self.toks, self.i = toks, 0

    def peek(self, k=0):
        return self.toks[min(self.i + k, len(self.toks) - 1)]

    def next(self):
        t = self.toks[self.i]
        self.i += 1
        return t

    def skip_nl(self):
        while self.peek().kind == "NL":
            self.i += 1

    def is_word(self, val):
        t = self.peek()
        return t.kind == "WORD" and t.val == val

    def expect_word(self, val):
        t = self.next()
        if t.kind != "WORD" or t.val != val:
            raise ShgenError("line %d: expected %r, found %r" % (t.line, val, t.val))

    def expect_op(self, val):
        t = self.next()
        if t.kind != "OP" or t.val != val:
            raise ShgenError("line %d: expected %r, found %r" % (t.line, val, t.val))

    def parse_script(self):
        l = self.parse_list(set())
        if self.peek().kind != "EOF":
            t = self.peek()
            raise ShgenError("line %d: unexpected %r" % (t.line, t.val))
        return l

    def at_terminator(self, stop):
        t = self.peek()
        if t.kind == "EOF":
            return True
        if t.kind == "WORD" and t.val in stop:
            return True
        if t.kind == "OP" and t.val in stop:
            return True
        return False

    def parse_list(self, stop):
        items = []
        self.skip_nl()
        while not self.at_terminator(stop):
            ao = self.parse_andor()
            bg = False
            t = self.peek()
            if t.kind == "OP" and t.val == "&":
                bg = True
                self.next()
            elif t.kind == "OP" and t.val == ";":
                self.next()
            elif t.kind == "NL":
                pass
            elif not self.at_terminator(stop):
                raise ShgenError("line %d: unexpected %r after command" % (t.line, t.val))
            items.append((ao, bg))
            self.skip_nl()
        return Lst(items)

    def parse_andor(self):
        first = self.parse_pipeline()
        rest = []
        while self.peek().kind == "OP" and self.peek().val in ("&&", "||"):
            op = self.next().val
            self.skip_nl()
            rest.append((op, self.parse_pipeline()))
        return AndOr(first, rest)

    def parse_pipeline(self):
        neg = False
        while self.is_word("!"):
            self.next()
            neg = not neg
        cmds = [self.parse_command()]
        while self.peek().kind == "OP" and self.peek().val == "|":
            self.next()
            self.skip_nl()
            cmds.append(self.parse_command())
        return Pipeline(cmds, neg)

    def parse_redirs(self):
        r = []
        while self.peek().kind == "REDIR":
            r.append(self.next().val)
        return r

    def parse_command(self):
        t = self.peek()
        if t.kind == "OP" and t.val == "(":
            self.next()
            body = self.parse_list({")"})
            self.expect_op(")")
            return Subshell(body, self.parse_redirs(), t.line)
        if t.kind == "WORD" and t.val in UNSUPPORTED:
            raise ShgenError("line %d: construct %r not understood" % (t.line, t.val))
        if t.kind == "WORD" and t.val == "{":
            self.next()
            body = self.parse_list({"}"})
            self.expect_word("}")
            return Group(body, self.parse_redirs())
        if t.kind == "WORD" and t.val == "if":
            self.next()
            return self.parse_if_rest()
        if t.kind == "WORD" and t.val == "while":
            self.next()
            cond = self.parse_list({"do"})
            self.expect_word("do")
            body = self.parse_list({"done"})
            self.expect_word("done")
            if self.peek().kind == "REDIR":
                raise ShgenError("line %d: redirected loop not understood" % t.line)
            return While(cond, body)
        if t.kind == "WORD" and t.val == "function" and self.peek(1).kind == "WORD":
            self.next()
            name = self.next().val
            if self.peek().kind == "OP" and self.peek().val == "(":
                self.next()
                self.expect_op(")")
            self.skip_nl()
            body = self.parse_command()
            if not isinstance(body, Group) or body.redirs:
                raise ShgenError("line %d: function body of %s must be a plain { } group" % (t.line, name))
            return FuncDef(name, body.body, t.line)
        if t.kind == "WORD" and self.peek(1).kind == "OP" and self.peek(1).val == "(" \
                and self.peek(2).kind == "OP" and self.peek(2).val == ")":
            name = self.next().val
            self.next()
            self.next()
            self.skip_nl()
            body = self.parse_command()
            if not isinstance(body, Group) or body.redirs:
                raise ShgenError("line %d: function body of %s must be a plain { } group" % (t.line, name))
            return FuncDef(name, body.body, t.line)
        if t.kind not in ("WORD", "REDIR"):
            raise ShgenError("line %d: unexpected %r" % (t.line, t.val))
        if t.kind == "WORD" and t.val in RESERVED:
            raise ShgenError("line %d: unexpected reserved word %r" % (t.line, t.val))
        words, redirs = [], []
        line = t.line
        while self.peek().kind in ("WORD", "REDIR"):
            x = self.next()
            (words if x.kind == "WORD" else redirs).append(x.val)
        return Simple(words, redirs, line)

    def parse_if_rest(self):
        cond = self.parse_list({"then"})
        self.expect_word("then")
        then = self.parse_list({"else", "elif", "fi"})
        els = None
        if self.is_word("elif"):
            self.next()
            els = Lst([(AndOr(Pipeline([self.parse_if_rest()]), []), False)])
            return If(cond, then, els)       # the nested parse consumed the closing fi
        if self.is_word("else"):
            self.next()
            els = self.parse_list({"fi"})
        self.expect_word("fi")
        if self.peek().kind == "REDIR":
            raise ShgenError("redirected if not understood")
        return If(cond, then, els)


def render(node):
    """Canonical one-line text of a construct (used as classification key)."""
    if isinstance(node, Simple):
        return (node.decl + " " if node.decl else "") + node.text()
    if isinstance(node, Pipeline):
        return ("! " if node.neg else "") + " | ".join(render(c) for c in node.cmds)
    if isinstance(node, AndOr):
        s = render(node.first)
        for op, p in node.rest:
            s += " %s %s" % (op, render(p))
        return s
    if isinstance(node, Lst):
        return "; ".join(render(a) + (" &" if bg else "") for a, bg in node.items)
    if isinstance(node, Group):
        return "{ " + render(node.body) + "; }" + "".join(" " + r for r in node.redirs)
    if isinstance(node, Subshell):
        return "( " + render(node.body) + " )" + "".join(" " + r for r in node.redirs)
    if isinstance(node, If):
        s = "if " + render(node.cond) + "; then " + render(node.then)
        if node.els is not None:
            s += "; else " + render(node.els)
        return s + "; fi"
    if isinstance(node, While):
        return "while " + render(node.cond) + "; do " + render(node.body) + "; done"
    if isinstance(node, FuncDef):
        return node.name + "() { " + render(node.body) + "; }"
    raise ShgenError("internal: render %r" % node)


# ------------------------------------------------------------------------------- classification

# Static variables: name -> the only definition text that is understood.
STATIC_DEFS = {
    "BASE": "BASE=$(get-netspoc-approve-conf basedir)",
    "GIT_URL": "GIT_URL=$(get-netspoc-approve-conf netspoc_git)",
    "POLICYDB": "POLICYDB=$BASE/policies",
    "CURRENT": "CURRENT=$POLICYDB/current",
    "NEXT": "NEXT=$POLICYDB/next",
    "PSRC": "PSRC=$NEXT/src",
    "PCODE": "PCODE=$NEXT/code",
    "PLOG": "PLOG=$NEXT/compile.log",
    "POLICY_FILE": "POLICY_FILE=$PSRC/POLICY",
    "PREV_CODE": "PREV_CODE=$PREV_POLICY/code",
    "ADMIN_EMAILS": "ADMIN_EMAILS=$(get-netspoc-approve-conf admin_emails)",
}
# Variables the model keeps as registers of the process.
DYNAMIC = {"FCOUNT", "LCOUNT", "COUNT", "POLICY", "PREV_POLICY", "HASH", "EMAIL"}

# text -> (Lean Cmd term, required cwd or None, new cwd or None)
EXACT = {
    "exec 9<>$POLICYDB/LOCK": (".openLock", None, None),
    "flock -n 9": (".flockNB", None, None),
    "true": ('.nop "true"', None, None),
    "break": ('.nop "break"', None, None),
    "continue": ('.nop "continue"', None, None),
    "cd $POLICYDB": ('.nop "cd $POLICYDB"', None, "POLICYDB"),
    "cd $NEXT": ('.nop "cd $NEXT"', None, "NEXT"),
    "cd $PSRC": ('.nop "cd $PSRC"', None, "PSRC"),
    "rm -rf $NEXT": (".rmrfNext", None, None),
    "mkdir $NEXT": (".mkdirNext", None, None),
    # not in the script today; understood so that the model follows such an edit and the theorems decide
    "rm -rf $NEXT/src": (".rmrfNextSrc", None, None),
    "mkdir -p $NEXT": (".mkdirNextP", None, None),
    "mkdir -p $PCODE": (".mkdirCode", None, None),
    "ln -sfn ../../$PREV_POLICY/code $PCODE/.prev": (".mkPrevLink", None, None),
    "exec >$PLOG 2>&1": (".logToFile", None, None),
    "git clone --quiet --depth 2 $GIT_URL src": (".gitClone", "NEXT", None),
    "[ -e $POLICY_FILE ]": (".testPolicyFile", None, None),
    "FCOUNT=$(cat $POLICY_FILE | grep -Po '\\d+' | head -n 1)": (".readPolicyFile", None, None),
    '[ "$FCOUNT" ]': (".testReg .fcount", None, None),
    '[ "$LCOUNT" ]': (".testReg .lcount", None, None),
    "PREV_POLICY=$(readlink $CURRENT)": (".readLink", None, None),
    '[ "$PREV_POLICY" ]': (".testPrev", None, None),
    "LCOUNT=$(echo $PREV_POLICY | grep -Po '\\d+' | head -n 1)": (".linkCount", None, None),
    "mkdir $PCODE": (".mkdirCode", None, None),
    "ln -s ../../$PREV_POLICY/code $PCODE/.prev": (".mkPrevLink", None, None),
    "POLICY=p$COUNT": (".policyFromCount", None, None),
    "netspoc $PSRC $PCODE": (".compile", None, None),
    "echo Newest changeset failed to compile": ('.nop "echo failed to compile"', None, None),
    "touch $POLICYDB/failed": (".touchFailed", None, None),
    "echo \"Left current policy as '$PREV_POLICY'\"": ('.nop "echo left current"', None, None),
    "echo \"# $POLICY # Current policy, don't edit manually!\" >POLICY": (".writePolicyFile", "PSRC", None),
    "git add POLICY": (".gitAdd", "PSRC", None),
    "git commit -m $POLICY": (".gitCommitPolicy", "PSRC", None),
    "HASH=$(git log -n 1 --format='format:%H')": (".saveHash", "PSRC", None),
    "git pull --no-rebase --quiet": (".gitPullMerge", "PSRC", None),
    "git push --quiet": (".gitPush", "PSRC", None),
    "git reset --hard $HASH": (".gitResetHash", "PSRC", None),
    "mv next $POLICY": (".mvNextTo", "POLICYDB", None),
    "rm -f $CURRENT": (".rmCurrent", None, None),
    "ln -s $POLICY $CURRENT": (".lnCurrent", "POLICYDB", None),
    "echo \"Updated current policy to '$POLICY'\"": ('.nop "echo updated"', None, None),
    "rm -f failed": (".rmFailed", "POLICYDB", None),
    "EMAIL=$(git log -n 1 --format='format:%ae')": (".readEmail", "PSRC", None),
    '[ -n "$EMAIL" ]': (".testEmail", None, None),
    "[ -z $(git config user.email) ]": (".testSysEmailEmpty", "PSRC", None),
    "git revert --no-edit $HASH": (".gitRevert", "PSRC", None),
    "git pull --quiet": (".gitPullPlain", "PSRC", None),
    "touch $POLICYDB/LOCK": (".touchLock", None, None),
}
for _v, _t in STATIC_DEFS.items():
    EXACT[_t] = ('.nop "%s=…"' % _v, ("POLICYDB" if _v == "PREV_CODE" else ("PSRC" if _v == "ADMIN_EMAILS" else None)), None)
# ADMIN_EMAILS does not depend on the directory; PREV_CODE is a path relative to $POLICYDB
EXACT[STATIC_DEFS["ADMIN_EMAILS"]] = ('.nop "ADMIN_EMAILS=…"', None, None)

REGEX = [
    (re.compile(r"^exit (\d+)$"), lambda m: (".exit %s" % m.group(1), None, None)),
    (re.compile(r"^return (\d+)$"), lambda m: (".ret %s" % m.group(1), None, None)),
    (re.compile(r"^(FCOUNT|LCOUNT)=(\d+)$"),
     lambda m: (".setReg .%s %s" % (m.group(1).lower(), m.group(2)), None, None)),
    (re.compile(r"^COUNT=\$\(expr \$COUNT \+ (\d+)\)$"), lambda m: (".countAdd %s" % m.group(1), None, None)),
    (re.compile(r"^COUNT=\$\( ?\[ \$FCOUNT -(gt|ge|lt|le) \$LCOUNT \] && echo \$FCOUNT \|\| echo \$LCOUNT\)$"),
     lambda m: (".countPick %s" % ("true" if m.group(1) in ("gt", "ge") else "false"), None, None)),
]

# Pipelines: canonical text -> one entry per main-shell DEBUG event (= per simple-command element)
PIPELINES = {
    "find $PREV_CODE \\( -name '*.config' -o -name '*.rules' \\) | xargs rm":
        [(".cleanupFind", "POLICYDB"), (".cleanupRm", "POLICYDB")],
    "{ git log -n 1 --pretty=short; echo ---; cat $PLOG; } | mail -s \"Newpolicy failed!\" \"$EMAIL,$ADMIN_EMAILS\"":
        [('.mail "Newpolicy failed!"', "PSRC")],
    "git log -n 1 --pretty=short $HASH | mail -s \"Your commit has been reverted\" \"$EMAIL,$ADMIN_EMAILS\"":
        [('.nop "git log --pretty=short $HASH"', "PSRC"), ('.mail "Your commit has been reverted"', "PSRC")],
}

# The one subshell that is understood: the body of uptodate().
SUBSHELLS = {
    "( set -e; DIR=$CURRENT; [ -d $NEXT ] && DIR=$NEXT; [ -f \"$DIR/src/.git/refs/heads/master\" ] || return 1; "
    "cd $DIR/src; rev1=$(git rev-parse HEAD); orig=$(git rev-parse --abbrev-ref @{u} | sed 's/\\// /g'); "
    "rev2=$(git ls-remote $orig | cut -f1); [ \"$rev1\" == \"$rev2\" ] )": ".uptodateCheck",
}
SUBSHELL_LOCALS = {"DIR", "rev1", "rev2", "orig"}

VARREF = re.compile(r"\$\{?([A-Za-z_][A-Za-z0-9_]*)")


def _canon_keys(table):
    out = {}
    for k, v in table.items():
        ck = canon_script(k)
        if ck in out:
            raise ShgenError("internal: two table entries with the canonical text %r" % ck)
        out[ck] = v
    return out


def canon_tables():
    """the table keys are written as in today's script; they are compared in canonical spelling"""
    global EXACT, PIPELINES, SUBSHELLS, STATIC_DEFS
    STATIC_DEFS = {v: canon_script(t) for v, t in STATIC_DEFS.items()}
    EXACT = _canon_keys(EXACT)
    PIPELINES = _canon_keys(PIPELINES)
    SUBSHELLS = _canon_keys(SUBSHELLS)
    for name in WRAPPER_OK:
        WRAPPER_OK[name] = _canon_keys(WRAPPER_OK[name])


def lean_str(s):
    return '"' + s.replace("\\", "\\\\").replace('"', '\\"') + '"'


class Compiler:
    @staticmethod
    def _only_nofd(lst):
        try:
            (ao, bg), = lst.items
            c, = ao.first.cmds
            return not bg and not ao.rest and isinstance(c, Simple) and c.redirs == ["9>&-"]
        except ValueError:
            return False

    def __init__(self, ast, fname):
        self.fname = fname
        self.git_wrapper = None   # line of `git() { command git "$@" 9>&-; }` if the script defines it
        self.funcs = {}
        self.calls = {}
        self.top = []
        for ao, bg in ast.items:
            node = ao.first.cmds[0] if not ao.rest and len(ao.first.cmds) == 1 else None
            if isinstance(node, FuncDef):
                if node.name in self.funcs:
                    raise ShgenError("function %s defined twice" % node.name)
                if node.name == "git":
                    # the one wrapper that is understood: every git command of the main shell runs
                    # without the lock descriptor
                    body = render(node.body)
                    if body != 'command git "$@"' or not self._only_nofd(node.body):
                        raise ShgenError("%s line %d: function git() not understood: %r" % (fname, node.line, body))
                    self.git_wrapper = node.line
                    continue
                self.funcs[node.name] = node
            else:
                if bg:
                    raise ShgenError("background command in %s not understood" % fname)
                self.top.append((ao, bg))
        self.instrs = []          # dicts: line, cmd, ok, fail, vis, inh, text, fn
        self.static_env = {}      # var -> scope chain (tuple of block ids) of its definition
        self.scope = []           # chain of enclosing command lists (function bodies continue the chain of their call site)
        self.fn_base = [0]        # len(scope) at entry of the function being inlined
        self.cwd = None
        self.fn_lists = {}        # function name -> [cmd terms]
        self.inlining = []
        self.mentions = []        # (position = number of instructions emitted before, variable)
        self.locals = []          # (variable, function, position of the `local` statement, line)
        self.fn_extent = {}       # function -> (first, one past last) instruction of its inlined body
        self.readonly = {}        # variable -> line of its readonly declaration

    # ---- pass A: allocate instruction slots in execution order ------------------------------
    def err(self, line, msg):
        raise ShgenError("%s line %d: %s" % (self.fname, line, msg))

    def check_vars(self, text, line, extra=()):
        for v in VARREF.findall(text):
            self.mentions.append((len(self.instrs), v))
            if v in DYNAMIC or v in extra:
                continue
            if v in STATIC_DEFS:
                if v not in self.static_env:
                    self.err(line, "variable $%s used before its definition" % v)
                d = self.static_env[v]
                if tuple(self.scope[:len(d)]) != d:
                    self.err(line, "variable $%s is defined only conditionally before this use" % v)
                continue
            self.err(line, "unknown variable $%s in %r" % (v, text))

    def depth0(self):
        """directly in the body of the current function (or of the script), not under if/while/&&/||"""
        return len(self.scope) == self.fn_base[-1]

    def classify_simple(self, s):
        text = s.text()
        am = ASSIGN_RX.match(text)
        if s.decl is not None and am is None:
            # `readonly NAME` after its definition: nothing happens
            if s.decl == "readonly" and len(s.words) == 1 and s.words[0] in STATIC_DEFS and not s.redirs \
                    and s.words[0] in self.static_env and not self.inlining and self.depth0():
                self.readonly[s.words[0]] = s.line
                return '.nop "readonly %s"' % s.words[0]
            self.err(s.line, "declaration not understood: %r" % s.shown())
        if am is not None:
            v = am.group(1)
            self.mentions.append((len(self.instrs), v))
            if v in self.readonly:
                self.err(s.line, "assignment to $%s, which line %d declares readonly" % (v, self.readonly[v]))
            if s.decl == "readonly":
                if self.inlining or not self.depth0():
                    self.err(s.line, "readonly inside a function or conditional is not understood: %r" % s.shown())
                self.readonly[v] = s.line
            if s.decl == "local":
                if not self.inlining:
                    self.err(s.line, "local outside a function")
                self.locals.append((v, self.inlining[-1], len(self.instrs), s.line))
        ent = EXACT.get(text)
        if ent is None:
            for rx, f in REGEX:
                m = rx.match(text)
                if m:
                    ent = f(m)
                    break
        if ent is None and s.words[0] == "echo" and not s.redirs and "$(" not in text and s.decl is None:
            # a message to stdout (the terminal or compile.log): its wording has no meaning for the model
            ent = ('.nop "echo"', None, None)
        if ent is None:
            self.err(s.line, "command not understood: %r" % text)
        cmd, need, new = ent
        # definition of a static variable
        for v, t in STATIC_DEFS.items():
            if t == text:
                # the right-hand side may only use already defined variables
                self.check_vars(text.split("=", 1)[1], s.line)
                self.static_env[v] = tuple(self.scope)
                break
        else:
            self.check_vars(text, s.line)
        if need is not None and self.cwd != need:
            self.err(s.line, "%r needs working directory $%s, but it is %s here" % (text, need, self.cwd or "unknown"))
        if new is not None:
            if not self.depth0():
                self.err(s.line, "cd inside a conditional is not understood")
            self.cwd = new
        return cmd

    def emit(self, line, cmd, text, vis=True, inh=True):
        self.instrs.append({"line": line, "cmd": cmd, "ok": None, "fail": None, "vis": vis, "inh": inh, "text": text,
                            "fn": self.inlining[-1] if self.inlining else "<top>"})
        if self.inlining:
            self.fn_lists.setdefault(self.inlining[-1], []).append(cmd)
        else:
            self.fn_lists.setdefault("<top>", []).append(cmd)
        return len(self.instrs) - 1

    def alloc_list(self, lst, push=True):
        # the body of a function (push=False) is as unconditional as its call site
        if push:
            self.scope.append(id(lst))
        for ao, bg in lst.items:
            if bg:
                raise ShgenError("%s: background command not understood" % self.fname)
            self.alloc_andor(ao)
        if push:
            self.scope.pop()

    def alloc_andor(self, ao):
        self.alloc_pipeline(ao.first)
        for _, p in ao.rest:
            self.scope.append(id(p))          # what follows && or || is conditional
            self.alloc_pipeline(p)
            self.scope.pop()

    def alloc_pipeline(self, p):
        if len(p.cmds) == 1:
            self.alloc_command(p.cmds[0])
            return
        text = render(p)
        ent = PIPELINES.get(text)
        if ent is None:
            line = next((c.line for c in p.cmds if isinstance(c, Simple)), 0)
            self.err(line, "pipeline not understood: %r" % text)
        simples = [c for c in p.cmds if isinstance(c, Simple)]
        if len(simples) != len(ent):
            raise ShgenError("internal: pipeline table entry for %r" % text)
        self.check_vars(text, simples[0].line)
        p.slots = []
        for s, (cmd, need) in zip(simples, ent):
            if need is not None and self.cwd != need:
                self.err(s.line, "%r needs working directory $%s" % (text, need))
            p.slots.append(self.emit(s.line, cmd, s.text()))

    def alloc_command(self, c):
        if isinstance(c, Simple):
            if not c.words:
                self.err(c.line, "redirection without command not understood")
            name = c.words[0]
            if name in self.funcs:
                if len(c.words) > 1 or c.redirs:
                    self.err(c.line, "function call with arguments not understood")
                if name in self.calls:
                    self.err(c.line, "function %s is called from more than one place" % name)
                if name in self.inlining:
                    self.err(c.line, "recursive function %s" % name)
                self.calls[name] = c
                f = self.funcs[name]
                c.call_slot = self.emit(c.line, ".nop %s" % lean_str("call " + name), name)
                self.inlining.append(name)
                c.enter_slot = self.emit(f.line, ".nop %s" % lean_str("enter " + name), name)
                self.cwd = None                 # unknown at function entry
                self.fn_base.append(len(self.scope))
                self.alloc_list(f.body, push=False)
                self.fn_base.pop()
                self.inlining.pop()
                self.fn_extent[name] = (c.enter_slot, len(self.instrs))
                self.cwd = None                 # conservatively unknown after a call
                return
            cmd = self.classify_simple(c)
            if name == "git" and self.git_wrapper is not None:
                # bash reports three main-shell commands: the call, the function entry, `command git "$@" 9>&-`
                c.slot = self.emit(c.line, ".nop %s" % lean_str("call git"), c.text())
                mid = self.emit(self.git_wrapper, ".nop %s" % lean_str("enter git"), c.text())
                c.last = self.emit(self.git_wrapper, cmd, 'command ' + c.text() + ' 9>&-', inh=False)
                c.pre = [c.slot, mid, c.last]
                return
            c.slot = self.emit(c.line, cmd, c.raw, inh=not c.nofd())
            return
        if isinstance(c, Subshell):
            text = render(c)
            cmd = SUBSHELLS.get(text)
            if cmd is None:
                self.err(c.line, "subshell not understood: %r" % text)
            self.check_vars(text, c.line, extra=SUBSHELL_LOCALS | {"u"})
            c.slot = self.emit(c.line, cmd, "( … )", vis=False)
            return
        if isinstance(c, Group):
            if c.redirs:
                raise ShgenError("%s: redirected group not understood" % self.fname)
            self.scope.append(id(c))
            self.alloc_list(c.body)
            self.scope.pop()
            return
        if isinstance(c, If):
            self.alloc_list(c.cond)
            self.scope.append(id(c))
            self.alloc_list(c.then)
            if c.els is not None:
                self.alloc_list(c.els)
            self.scope.pop()
            return
        if isinstance(c, While):
            self.scope.append(id(c))
            self.alloc_list(c.cond)
            self.alloc_list(c.body)
            self.scope.pop()
            return
        if isinstance(c, FuncDef):
            raise ShgenError("%s line %d: nested function definition not understood" % (self.fname, c.line))
        raise ShgenError("internal: alloc %r" % c)

    # ---- pass B: continuations -------------------------------------------------------------
    def entry(self, node):
        if isinstance(node, Simple):
            return node.call_slot if hasattr(node, "call_slot") else node.slot
        if isinstance(node, Subshell):
            return node.slot
        if isinstance(node, Pipeline):
            return node.slots[0] if len(node.cmds) > 1 else self.entry(node.cmds[0])
        if isinstance(node, AndOr):
            return self.entry(node.first)
        if isinstance(node, Lst):
            if not node.items:
                raise ShgenError("%s: empty command list not understood" % self.fname)
            return self.entry(node.items[0][0])
        if isinstance(node, Group):
            return self.entry(node.body)
        if isinstance(node, If):
            return self.entry(node.cond)
        if isinstance(node, While):
            return self.entry(node.cond)
        raise ShgenError("internal: entry %r" % node)

    def set_k(self, slot, ok, fail):
        self.instrs[slot]["ok"], self.instrs[slot]["fail"] = ok, fail

    def comp_list(self, lst, k_ok, k_fail, ctx):
        for idx, (ao, _) in enumerate(lst.items):
            if idx + 1 < len(lst.items):
                nxt = self.entry(lst.items[idx + 1][0])
                self.comp_andor(ao, nxt, nxt, ctx)
            else:
                self.comp_andor(ao, k_ok, k_fail, ctx)

    def comp_andor(self, ao, k_ok, k_fail, ctx):
        # left associative: ((a op b) op c); compile from the left with the continuation of the
        # partial result: after `x && rest`, success of x goes on to rest, failure skips to the
        # next `||` element (or fails as a whole)
        parts = [ao.first] + [p for _, p in ao.rest]
        ops = [op for op, _ in ao.rest]
        for i, part in enumerate(parts):
            # where does control go if the value so far (after part i) is ok / fail?
            ok_t, fail_t = k_ok, k_fail
            for j in range(i, len(ops)):
                if ops[j] == "&&":
                    ok_t = self.entry(parts[j + 1])
                    break
            else:
                ok_t = k_ok
            for j in range(i, len(ops)):
                if ops[j] == "||":
                    fail_t = self.entry(parts[j + 1])
                    break
            else:
                fail_t = k_fail
            self.comp_pipeline(part, ok_t, fail_t, ctx)

    def comp_pipeline(self, p, k_ok, k_fail, ctx):
        if p.neg:
            k_ok, k_fail = k_fail, k_ok
        if len(p.cmds) == 1:
            self.comp_command(p.cmds[0], k_ok, k_fail, ctx)
            return
        for i, slot in enumerate(p.slots):
            if i + 1 < len(p.slots):
                self.set_k(slot, p.slots[i + 1], p.slots[i + 1])
            else:
                self.set_k(slot, k_ok, k_fail)

    def comp_command(self, c, k_ok, k_fail, ctx):
        if isinstance(c, Simple):
            if hasattr(c, "call_slot"):
                f = self.funcs[c.words[0]]
                self.set_k(c.call_slot, c.enter_slot, c.enter_slot)
                body_entry = self.entry(f.body)
                self.set_k(c.enter_slot, body_entry, body_entry)
                self.comp_list(f.body, k_ok, k_fail, dict(ctx, ret=(k_ok, k_fail)))
                return
            text = c.text()
            slot = c.slot
            if hasattr(c, "pre"):
                self.set_k(c.pre[0], c.pre[1], c.pre[1])
                self.set_k(c.pre[1], c.pre[2], c.pre[2])
                slot = c.last
            if text == "break":
                if not ctx.get("loop"):
                    self.err(c.line, "break outside a loop")
                t = ctx["loop"][1]
                self.set_k(slot, t, t)
            elif text == "continue":
                if not ctx.get("loop"):
                    self.err(c.line, "continue outside a loop")
                t = ctx["loop"][0]
                self.set_k(slot, t, t)
            elif text.startswith("return "):
                if "ret" not in ctx:
                    self.err(c.line, "return outside a function")
                self.set_k(slot, ctx["ret"][0], ctx["ret"][1])
            elif text.startswith("exit "):
                self.set_k(slot, slot, slot)      # terminal
            elif c.decl is not None:
                self.set_k(slot, k_ok, k_ok)      # the status of `local`/`readonly` hides that of $( )
            else:
                self.set_k(slot, k_ok, k_fail)
            return
        if isinstance(c, Subshell):
            self.set_k(c.slot, k_ok, k_fail)
            return
        if isinstance(c, Group):
            self.comp_list(c.body, k_ok, k_fail, ctx)
            return
        if isinstance(c, If):
            then_e = self.entry(c.then)
            else_e = self.entry(c.els) if c.els is not None else k_ok     # `if` without taken branch: status 0
            self.comp_list(c.cond, then_e, else_e, ctx)
            self.comp_list(c.then, k_ok, k_fail, ctx)
            if c.els is not None:
                self.comp_list(c.els, k_ok, k_fail, ctx)
            return
        if isinstance(c, While):
            cond_e = self.entry(c.cond)
            body_e = self.entry(c.body)
            self.comp_list(c.cond, body_e, k_ok, ctx)
            self.comp_list(c.body, cond_e, cond_e, dict(ctx, loop=(cond_e, k_ok)))
            return
        raise ShgenError("internal: comp %r" % c)

    def compile(self):
        top = Lst(self.top)
        self.alloc_list(top, push=False)
        for name in self.funcs:
            if name not in self.calls:
                raise ShgenError("%s: function %s is never called (not understood)" % (self.fname, name))
        for v, fn, pos, line in self.locals:
            first, last = self.fn_extent[fn]
            for mpos, mv in self.mentions:
                if mv == v and not (pos <= mpos < last):
                    where = self.instrs[min(mpos, len(self.instrs) - 1)]["line"]
                    self.err(line, "local %s in %s(), but line %d uses $%s outside the function or before this "
                                   "declaration (not the same meaning as a global)" % (v, fn, where, v))
        end = len(self.instrs)          # falling off the end of the script
        self.comp_list(top, end, end, {})
        for n, ins in enumerate(self.instrs):
            if ins["ok"] is None or ins["fail"] is None:
                raise ShgenError("internal: instruction %d (%s) without continuation" % (n, ins["text"]))
        return self.instrs


# ------------------------------------------------------------------------------- the wrappers

# bin/newpolicy and bin/sudo-newpolicy: every simple command must be one of these read-only /
# delegating commands (text after normalisation); they are emitted as a list of names.
WRAPPER_OK = {
    "newpolicy": {
        "BASE=$(get-netspoc-approve-conf basedir)": "conf",
        "POLICYDB=$BASE/policies": "assign",
        "CURRENT=$POLICYDB/current": "assign",
        "LOCK=$POLICYDB/LOCK": "assign",
        "echo $@ >&2": "echo",
        "START=$(date +%s%4N)": "assign",
        'msg "Processing scheduled"': "echo",
        "sudo-newpolicy": "startWorker",
        "wait $!": "wait",
        'msg "Process is already running"': "echo",
        "flock -s $LOCK -c true": "flockShared",
        "[ $(date -r $LOCK +%s%4N) -le $START ]": "test",
        'msg "Nothing changed"': "echo",
        "[ -f $POLICYDB/failed ]": "test",
        "cat $POLICYDB/next/compile.log >&2": "cat",
        'msg "Current policy is $(basename $(readlink $CURRENT))"': "echo",
    },
    "sudo-newpolicy": {
        "USER=$(get-netspoc-approve-conf systemuser)": "conf",
        "CMD=$(which newpolicy.sh)": "assign",
        '[ -z "$USER" ]': "test",
        "[ $(id -un) = $USER ]": "test",
        'CMD="sudo -u $USER $CMD"': "assign",
        "exec $CMD $@": "execWorker",
    },
}


def wrapper_cmds(path, name):
    src = open(path).read()
    ast = Parser(tokenize(src)).parse_script()
    out = []

    def walk(node):
        if isinstance(node, Simple):
            t = node.text()
            k = WRAPPER_OK[name].get(t)
            if k is None and node.words and node.words[0] in ("msg", "echo") and "$(" not in t \
                    and all(r == ">&2" for r in node.redirs):
                k = "echo"
            if k is None:
                raise ShgenError("%s line %d: command not understood: %r" % (name, node.line, t))
            out.append((node.line, k))
        elif isinstance(node, Pipeline):
            for c in node.cmds:
                walk(c)
        elif isinstance(node, AndOr):
            walk(node.first)
            for _, p in node.rest:
                walk(p)
        elif isinstance(node, Lst):
            for a, _ in node.items:
                walk(a)
        elif isinstance(node, (Group, Subshell)):
            walk(node.body)
        elif isinstance(node, If):
            walk(node.cond)
            walk(node.then)
            if node.els is not None:
                walk(node.els)
        elif isinstance(node, While):
            walk(node.cond)
            walk(node.body)
        elif isinstance(node, FuncDef):
            walk(node.body)
        else:
            raise ShgenError("internal: walk %r" % node)
    walk(ast)
    return out


# ------------------------------------------------------------------------------- output

EMPTY_GEN = """/- GENERATED by translate/shgen/shgen.py: nothing understood and no earlier program available. -/
import NA.Model.NewPolicy
namespace NA.Gen.NewPolicy
open NA.C19
def sourceSha256 : String := ""
def understood : Bool := true
def problem : String := ""
def prog : Prog := []
def funs : List (String × List Cmd) := []
def wrapper : List (Nat × String) := []
def sudoWrapper : List (Nat × String) := []
end NA.Gen.NewPolicy
"""


def main():
    canon_tables()
    ap = argparse.ArgumentParser()
    ap.add_argument("-repo", default="/repo")
    ap.add_argument("-out", required=True)
    ap.add_argument("-dump", action="store_true", help="print the instruction list")
    args = ap.parse_args()
    path = os.path.join(args.repo, "bin", "newpolicy.sh")
    try:
        src = open(path).read()
        ast = Parser(tokenize(src)).parse_script()
        comp = Compiler(ast, "newpolicy.sh")
        instrs = comp.compile()
        wrap = wrapper_cmds(os.path.join(args.repo, "bin", "newpolicy"), "newpolicy")
        sudo = wrapper_cmds(os.path.join(args.repo, "bin", "sudo-newpolicy"), "sudo-newpolicy")
    except ShgenError as e:
        # The script is not understood.  The tie is broken (`understood := false` makes the theorem
        # `script_understood` of NA/Props/C19.lean false), but the driver still builds with the last
        # program that was understood, so that the harness can go on and search the REAL tree for a
        # failing schedule with its model-independent oracle.
        sys.stderr.write("shgen: %s\n" % e)
        last = args.out + ".lastgood"
        if os.path.exists(last):
            text = open(last).read()
        else:
            text = EMPTY_GEN
        text = text.replace("def understood : Bool := true", "def understood : Bool := false")
        text = text.replace('def problem : String := ""', "def problem : String := %s" % lean_str(str(e)))
        os.makedirs(os.path.dirname(args.out), exist_ok=True)
        with open(args.out, "w") as fh:
            fh.write(text)
        print("shgen: NOT UNDERSTOOD (%s); emitted the last understood program with understood := false" % e)
        return 0
    digest = hashlib.sha256(src.encode()).hexdigest()
    o = []
    o.append("/- GENERATED by translate/shgen/shgen.py from bin/newpolicy.sh, bin/newpolicy, bin/sudo-newpolicy — do not edit. -/")
    o.append("import NA.Model.NewPolicy")
    o.append("namespace NA.Gen.NewPolicy")
    o.append("open NA.C19")
    o.append("")
    o.append("def sourceSha256 : String := %s" % lean_str(digest))
    o.append("/-- false: shgen did not understand the script; `prog` is then the last program it understood. -/")
    o.append("def understood : Bool := true")
    o.append('def problem : String := ""')
    o.append("")
    o.append("/-- bin/newpolicy.sh: one instruction per main-shell simple command. -/")
    o.append("def prog : Prog := [")
    for n, ins in enumerate(instrs):
        o.append("  /- %3d %-16s -/ ⟨%d, %s, %d, %d, %s, %s⟩%s   -- %s" % (
            n, ins["fn"], ins["line"], ins["cmd"], ins["ok"], ins["fail"], "true" if ins["vis"] else "false",
            "true" if ins["inh"] else "false",
            "," if n + 1 < len(instrs) else "", ins["text"].replace("\n", " ")))
    o.append("]")
    o.append("")
    o.append("/-- The same commands per shell function, in source order. -/")
    o.append("def funs : List (String × List Cmd) := [")
    names = list(comp.fn_lists)
    for i, name in enumerate(names):
        o.append("  (%s, [%s])%s" % (lean_str(name), ", ".join(comp.fn_lists[name]), "," if i + 1 < len(names) else ""))
    o.append("]")
    o.append("")
    o.append("/-- bin/newpolicy (the wrapper users call): kinds of its commands, all read-only or delegating. -/")
    o.append("def wrapper : List (Nat × String) := [%s]" % ", ".join("(%d, %s)" % (l, lean_str(k)) for l, k in wrap))
    o.append("/-- bin/sudo-newpolicy. -/")
    o.append("def sudoWrapper : List (Nat × String) := [%s]" % ", ".join("(%d, %s)" % (l, lean_str(k)) for l, k in sudo))
    o.append("")
    o.append("end NA.Gen.NewPolicy")
    text = "\n".join(o) + "\n"
    os.makedirs(os.path.dirname(args.out), exist_ok=True)
    old = open(args.out).read() if os.path.exists(args.out) else None
    if old != text:
        with open(args.out, "w") as fh:
            fh.write(text)
    if os.path.realpath(args.repo) == "/repo":
        # remember what the unchanged tree translates to (fallback model for trees that are not understood)
        lg = args.out + ".lastgood"
        if not os.path.exists(lg) or open(lg).read() != text:
            with open(lg, "w") as fh:
                fh.write(text)
    if args.dump:
        for n, ins in enumerate(instrs):
            print("%3d L%-3d %-28s ok=%-3d fail=%-3d %s %s" % (n, ins["line"], ins["cmd"], ins["ok"], ins["fail"],
                                                              "" if ins["vis"] else "(silent)", ins["text"]))
    print("shgen: %d instructions, %d functions, wrapper %d + %d commands, sha256 %s" % (
        len(instrs), len(comp.funcs), len(wrap), len(sudo), digest[:12]))
    return 0


if __name__ == "__main__":
    sys.exit(main())
