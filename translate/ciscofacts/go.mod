module ciscofacts

go 1.23.1
