module sinks

go 1.23
