#!/usr/bin/env python3
"""Helper (not run by ./check): proposes the hand-maintained table `cover` of lean/NA/Proofs/C17Cover.lean
from the current lean/NA/Gen/Sinks.lean.  Review every line whose class is not `clean`/`wrapper` before pasting."""
import re, sys
rows = []
for line in open(sys.argv[1] if len(sys.argv) > 1 else '/verif/lean/NA/Gen/Sinks.lean'):
    m = re.match(r'\s*\{ id := (\d+), taintCode := (\d), kindCode := (\d), kind := "([^"]*)", pkg := "([a-z]+)", fn := "([^"]+)", sink := "([^"]+)", arg := (".*"), taint := "([^"]+)" \},?', line)
    if m:
        rows.append(m.groups())
out = []
for id_, code, kc, kind, pkg, fn, sink, arg, taint in rows:
    if taint == 'wrapper': c = 'wrapper'
    elif code == '9': c = 'fc17'
    elif 'M:passRE@' in taint: c = 'maskError'
    elif 'M:passRE' in taint: c = 'maskUri'
    elif 'M:keyRE' in taint: c = 'maskBody'
    elif 'M:apiRE' in taint: c = 'maskApi'
    elif pkg == 'console': c = 'deviceOutput'
    elif pkg == 'doapprove' and 'line' in arg and sink in ('fmt.Println', 'fmt.Printf', 'doapprove.logHistory'): c = 'copyOfRunLog'
    elif fn == 'nsx.State.LoadDevice$lit1': c = 'nsxLogin'
    else: c = 'clean'
    a = eval(arg)[:64].replace('\n', '\\n')
    out.append(f"  ({id_}, .{c}),  -- {kind}: {fn}: {sink}({a})")
out[-1] = out[-1].replace("),  --", ")   --", 1)
print("def cover : List (Nat × Cover) := [\n" + "\n".join(out) + "\n]")
