#!/usr/bin/env python3
"""Helper (not run by ./check): lists the sink sites of lean/NA/Gen/Sinks.lean that need an entry in the
hand-maintained table `cover` of lean/NA/Proofs/C17Cover.lean — those into which a secret flows, raw
(taintCode 9) or through a redaction step (taintCode 1).  Sites with taintCode 0 need no entry.
The id of a site hashes (package, sink kind, secret class of the taint, ordinal among the sites of the
package with the same kind and class)."""
import re, sys
for line in open(sys.argv[1] if len(sys.argv) > 1 else '/verif/lean/NA/Gen/Sinks.lean'):
    m = re.match(r'\s*\{ id := (\d+), taintCode := (\d), kindCode := (\d), kind := "([^"]*)", pkg := "([a-z]+)", fn := "([^"]+)", sink := "([^"]+)", arg := (".*"), taint := "([^"]+)" \},?', line)
    if m and m.group(2) != '0':
        id_, code, kc, kind, pkg, fn, sink, arg, taint = m.groups()
        c = 'fc17?' if code == '9' else {'M:passRE': 'maskUri', 'M:keyRE': 'maskBody', 'M:apiRE': 'maskApi'}.get(
            next((t.split('@')[0] for t in taint.split('+') if t.startswith('M:')), ''), '?')
        if code == '1' and 'M:passRE@' in taint: c = 'maskError'
        print(f"  ({id_}, .{c}),  -- {pkg}, {kind}, {taint}  ({fn}: {sink})")
