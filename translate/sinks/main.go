// sinks: T-gen for property C17 (secrets never reach logs).
//
// Reads the working tree of the repository (go/pkg/..., files without the `verif` build tag,
// no tests), runs a small interprocedural taint analysis on the syntax trees (go/ast only) and
// emits lean/NA/Gen/Sinks.lean: every call that writes to a sink (errlog.DoLog / Info / Warning /
// Abort / PrintWithMarker, fmt.Fprint*, fmt.Print*, logHistory, warn, abort, *.Write, logString)
// inside a function in which a secret is in scope, with the text of its arguments and the taint
// class of what it writes.
//
// Secrets (seeds): result 1 of GetUserPass / getSystemPassword, result 0 of askPassword and
// term.ReadPassword, the field Password (label pass); result 0 of parseAPIKey and whatever is
// passed to parseAPIKey (label key); Header.Get("x-xsrf-token") (label token); cookiejar.New
// (label cookie).
//
// Propagation: assignments (strong update of plain identifiers, join after branches), struct
// fields by name, string building (any call or operator over a tainted operand is tainted),
// parameters of module functions and closures (fixpoint), returned values (fixpoint).
// Network boundary (Get, Do, PostForm, Expect): data results are device output (clean); the error
// result carries the labels of the URL argument (Go's *url.Error embeds the URL), not those of
// headers or form values.  `X.Header.Set` taints nothing.
// Sanitisers: passRE.ReplaceAllString turns label pass into M:passRE, keyRE / apiRE turn label key
// into M:keyRE / M:apiRE.
//
// taintCode of a site: 0 = no label, 1 = only masked labels, 9 = at least one raw label.
package main

import (
	"bytes"
	"flag"
	"fmt"
	"go/ast"
	"go/parser"
	"go/printer"
	"go/token"
	"hash/fnv"
	"os"
	"path/filepath"
	"sort"
	"strings"
)

type labels map[string]bool

func (l labels) add(o labels) bool {
	ch := false
	for k := range o {
		if !l[k] {
			l[k] = true
			ch = true
		}
	}
	return ch
}
func (l labels) clone() labels {
	c := labels{}
	for k := range l {
		c[k] = true
	}
	return c
}
func (l labels) String() string {
	if len(l) == 0 {
		return "clean"
	}
	ks := make([]string, 0, len(l))
	for k := range l {
		ks = append(ks, k)
	}
	sort.Strings(ks)
	return strings.Join(ks, "+")
}
func (l labels) code() int {
	if len(l) == 0 {
		return 0
	}
	for k := range l {
		if strings.HasPrefix(k, "T:") {
			return 9
		}
	}
	return 1
}
func union(ls ...labels) labels {
	r := labels{}
	for _, l := range ls {
		r.add(l)
	}
	return r
}
func lab(s string) labels { return labels{s: true} }

type fn struct {
	key    string // pkg.Recv.Name or pkg.Name, closures: parent$name
	pkg    string
	name   string // bare name
	params []string
	body   *ast.BlockStmt
	nres   int
	top    *fn // enclosing top-level function
	file   *ast.File
}

type site struct {
	pkg, fn, sink, arg string
	lbl                labels
}

var (
	fset       = token.NewFileSet()
	funcs      = map[string]*fn{}
	byName     = map[string][]*fn{}
	paramTaint = map[string][]labels{} // fn key -> per parameter
	retTaint   = map[string][]labels{} // fn key -> per result
	fieldTaint = map[string]labels{}
	litTargets = map[string][]*fn{} // "fnkey#paramname" -> closures passed for that parameter
	changed    bool
	symbolic   bool // pass that computes return summaries over parameter markers P:<fn>:<i>
	recording  bool
	sites      []site
	touched    = map[string]bool{} // top-level fn key -> a secret is in scope
	problems   []string
)

var sinkNames = map[string]bool{
	"errlog.DoLog": true, "errlog.Info": true, "errlog.Warning": true, "errlog.Abort": true, "errlog.PrintWithMarker": true,
	"DoLog": true, "Info": true, "Warning": true, "Abort": true, "PrintWithMarker": true,
	"fmt.Fprint": true, "fmt.Fprintf": true, "fmt.Fprintln": true, "fmt.Print": true, "fmt.Printf": true, "fmt.Println": true,
	"logHistory": true, "warn": true, "abort": true, "logString": true,
	"log.Printf": true, "log.Print": true, "log.Println": true, "os.WriteFile": true,
}

var seedCalls = map[string]map[int]string{
	"GetUserPass": {1: "T:pass"}, "getSystemPassword": {1: "T:pass"}, "askPassword": {0: "T:pass"},
	"ReadPassword": {0: "T:pass"}, "parseAPIKey": {0: "T:key"}, "New#cookiejar": {0: "T:cookie"},
}

var sanitizers = map[string]map[string]string{
	"passRE": {"T:pass": "M:passRE"},
	"keyRE":  {"T:key": "M:keyRE"},
	"apiRE":  {"T:key": "M:apiRE"},
}

var cleanCalls = map[string]bool{
	"len": true, "cap": true, "make": true, "new": true, "strings.HasPrefix": true, "strings.HasSuffix": true,
	"strings.Contains": true, "strings.ContainsAny": true, "strings.Index": true, "strings.LastIndex": true,
	"strings.EqualFold": true, "strings.Count": true, "errors.Is": true, "errors.As": true,
	"xml.Unmarshal": true, "json.Unmarshal": true,
	"os.Getenv": true, "time.Duration": true, "time.Sleep": true, "recover": true,
}

func exprText(e ast.Node) string {
	var b bytes.Buffer
	printer.Fprint(&b, fset, e)
	return strings.Join(strings.Fields(b.String()), " ")
}

func setLabels(m map[string][]labels, key string, i int, l labels) {
	for len(m[key]) <= i {
		m[key] = append(m[key], labels{})
	}
	if m[key][i].add(l) {
		changed = true
	}
}
func getLabels(m map[string][]labels, key string, i int) labels {
	if i < len(m[key]) {
		return m[key][i]
	}
	return labels{}
}

func marker(key string, i int) string { return fmt.Sprintf("P:%s:%d", key, i) }

// paramLabels: what a parameter holds — its marker in the symbolic pass, the joined labels of all
// call sites in the concrete pass.
func paramLabels(key string, i int) labels {
	if symbolic {
		return lab(marker(key, i))
	}
	return getLabels(paramTaint, key, i).clone()
}

// sanitize applies the conversion of one sanitiser to a set of labels; parameter markers are
// wrapped ("S:<re>|<marker>") so that the conversion happens when the marker is substituted.
func sanitize(re string, l labels) labels {
	conv := sanitizers[re]
	r := labels{}
	for k := range l {
		switch {
		case strings.HasPrefix(k, "P:") || strings.HasPrefix(k, "S:"):
			r["S:"+re+"|"+k] = true
		default:
			if m, ok := conv[k]; ok {
				r[m] = true
			} else {
				r[k] = true
			}
		}
	}
	return r
}

// subst replaces parameter markers through lookup (which may decline).
func subst(k string, lookup func(key string, i int) (labels, bool)) labels {
	switch {
	case strings.HasPrefix(k, "S:"):
		bar := strings.Index(k, "|")
		return sanitize(k[2:bar], subst(k[bar+1:], lookup))
	case strings.HasPrefix(k, "P:"):
		j := strings.LastIndex(k, ":")
		var i int
		fmt.Sscanf(k[j+1:], "%d", &i)
		if l, ok := lookup(k[2:j], i); ok {
			return l.clone()
		}
	}
	return lab(k)
}

// resolve replaces markers that cannot be substituted at this call site: in the concrete pass by
// the joined labels of that parameter.
func resolve(l labels) labels {
	if symbolic {
		return l
	}
	r := labels{}
	for k := range l {
		r.add(subst(k, func(key string, i int) (labels, bool) { return getLabels(paramTaint, key, i), true }))
	}
	return r
}

func concreteOnly(l labels) labels {
	r := labels{}
	for k := range l {
		if !strings.HasPrefix(k, "P:") && !strings.HasPrefix(k, "S:") {
			r[k] = true
		}
	}
	return r
}

// ---------------------------------------------------------------- per function analysis

type analysis struct {
	f       *fn
	env     map[string]labels
	isParam map[string]bool // receiver and parameters of the top-level function and of enclosing closures
	local   map[string]*fn  // closures bound to local names
	imports map[string]bool
	sticky  map[string]labels
	litNo   int
	sinkOrd map[string]int
}

func (a *analysis) touch(l labels) labels {
	if len(concreteOnly(l)) > 0 {
		touched[a.f.top.key] = true
	}
	return l
}

func (a *analysis) lookup(name string) labels {
	return union(a.env[name], a.sticky[name])
}

func rootIdent(e ast.Expr) *ast.Ident {
	for {
		switch x := e.(type) {
		case *ast.Ident:
			return x
		case *ast.SelectorExpr:
			e = x.X
		case *ast.IndexExpr:
			e = x.X
		case *ast.StarExpr:
			e = x.X
		case *ast.ParenExpr:
			e = x.X
		case *ast.SliceExpr:
			e = x.X
		case *ast.UnaryExpr:
			e = x.X
		default:
			return nil
		}
	}
}

func (a *analysis) eval(e ast.Expr) labels {
	if e == nil {
		return labels{}
	}
	switch x := e.(type) {
	case *ast.Ident:
		return a.touch(a.lookup(x.Name))
	case *ast.BasicLit:
		return labels{}
	case *ast.SelectorExpr:
		if id, ok := x.X.(*ast.Ident); ok && a.imports[id.Name] {
			return labels{}
		}
		return a.touch(union(a.eval(x.X), fieldTaint[x.Sel.Name]))
	case *ast.CallExpr:
		return union(a.evalCall(x)...)
	case *ast.BinaryExpr:
		l, r := a.eval(x.X), a.eval(x.Y)
		switch x.Op {
		case token.EQL, token.NEQ, token.LSS, token.GTR, token.LEQ, token.GEQ, token.LAND, token.LOR:
			return labels{}
		}
		return union(l, r)
	case *ast.UnaryExpr:
		if x.Op == token.NOT {
			a.eval(x.X)
			return labels{}
		}
		return a.eval(x.X)
	case *ast.ParenExpr:
		return a.eval(x.X)
	case *ast.StarExpr:
		return a.eval(x.X)
	case *ast.IndexExpr:
		a.eval(x.Index)
		return a.eval(x.X)
	case *ast.SliceExpr:
		return a.eval(x.X)
	case *ast.TypeAssertExpr:
		return a.eval(x.X)
	case *ast.KeyValueExpr:
		return a.eval(x.Value)
	case *ast.CompositeLit:
		r := labels{}
		for _, el := range x.Elts {
			r.add(a.eval(el))
		}
		return r
	case *ast.FuncLit:
		a.closure(x, "")
		return labels{}
	case *ast.ArrayType, *ast.MapType, *ast.StructType, *ast.InterfaceType, *ast.FuncType, *ast.ChanType, *ast.Ellipsis:
		return labels{}
	}
	problems = append(problems, fmt.Sprintf("%s: expression not understood: %T %s", a.f.key, e, exprText(e)))
	return labels{}
}

// closure registers (once per position) and analyses a function literal in the current environment.
func (a *analysis) closure(lit *ast.FuncLit, name string) *fn {
	a.litNo++
	if name == "" {
		name = fmt.Sprintf("lit%d", a.litNo)
	}
	key := a.f.key + "$" + name
	c := funcs[key]
	if c == nil {
		c = &fn{key: key, pkg: a.f.pkg, name: name, body: lit.Body, top: a.f.top, file: a.f.file}
		for _, p := range lit.Type.Params.List {
			for _, n := range p.Names {
				c.params = append(c.params, n.Name)
			}
		}
		if lit.Type.Results != nil {
			for _, r := range lit.Type.Results.List {
				k := len(r.Names)
				if k == 0 {
					k = 1
				}
				c.nres += k
			}
		}
		funcs[key] = c
	}
	sub := &analysis{f: c, env: a.env, isParam: a.isParam, local: a.local, imports: a.imports, sticky: a.sticky,
		sinkOrd: a.sinkOrd}
	saved := map[string]labels{}
	for i, p := range c.params {
		saved[p] = a.env[p]
		a.env[p] = paramLabels(key, i)
		a.touch(a.env[p])
	}
	sub.block(c.body)
	a.litNo += sub.litNo
	for p, l := range saved {
		if l == nil {
			delete(a.env, p)
		} else {
			a.env[p] = l
		}
	}
	return c
}

func calleeText(c *ast.CallExpr) (text, sel string, recv ast.Expr) {
	switch f := c.Fun.(type) {
	case *ast.Ident:
		return f.Name, f.Name, nil
	case *ast.SelectorExpr:
		return exprText(f), f.Sel.Name, f.X
	}
	return exprText(c.Fun), "", nil
}

// evalCall returns the labels of every result of the call.
func (a *analysis) evalCall(c *ast.CallExpr) []labels {
	text, sel, recv := calleeText(c)
	argL := make([]labels, len(c.Args))
	for i, arg := range c.Args {
		if lit, ok := arg.(*ast.FuncLit); ok {
			// closure passed to a function: a possible target of that function's parameter
			cl := a.closure(lit, "")
			for _, t := range a.targets(text, sel, recv) {
				if i < len(t.params) {
					k := t.key + "#" + t.params[i]
					found := false
					for _, x := range litTargets[k] {
						if x == cl {
							found = true
						}
					}
					if !found {
						litTargets[k] = append(litTargets[k], cl)
						changed = true
					}
				}
			}
			argL[i] = labels{}
			continue
		}
		argL[i] = a.eval(arg)
	}
	all := union(argL...)
	recvPkg := false
	if id, ok := recv.(*ast.Ident); ok && a.imports[id.Name] {
		recvPkg = true
	}
	var recvL labels
	if recv != nil && !recvPkg {
		recvL = a.eval(recv)
	} else {
		recvL = labels{}
	}

	if recording && sinkNames[text] || recording && recv != nil && !recvPkg && (sel == "Write" || sel == "WriteString") {
		a.record(text, c, all)
	}

	// conversions and builtins
	switch f := c.Fun.(type) {
	case *ast.ArrayType, *ast.MapType, *ast.InterfaceType:
		return []labels{all}
	case *ast.ParenExpr:
		_ = f
		return []labels{all}
	case *ast.Ident:
		switch f.Name {
		case "string", "byte", "rune", "int", "int64", "uint64", "float64", "error", "any", "append", "panic", "print", "println", "copy", "min", "max":
			return []labels{all}
		}
	case *ast.FuncLit:
		cl := a.closure(f, "")
		return a.results(cl)
	}
	if cleanCalls[text] {
		return []labels{{}}
	}
	// sanitisers
	if sel == "ReplaceAllString" || sel == "ReplaceAll" {
		if id, ok := recv.(*ast.Ident); ok {
			if _, ok := sanitizers[id.Name]; ok {
				if len(argL) > 0 {
					return []labels{sanitize(id.Name, argL[0])}
				}
				return []labels{{}}
			}
		}
	}
	// network boundary
	switch sel {
	case "Get", "PostForm", "Do":
		if recv != nil && !recvPkg && (strings.Contains(exprText(recv), "client") || strings.Contains(exprText(recv), "Client")) {
			l := labels{}
			if len(argL) > 0 {
				l = argL[0]
			}
			return []labels{{}, l}
		}
		if sel == "Get" && len(c.Args) == 1 {
			// Header.Get(name): the session token
			if bl, ok := c.Args[0].(*ast.BasicLit); ok && strings.EqualFold(strings.Trim(bl.Value, "\"`"), "x-xsrf-token") {
				return []labels{a.touch(lab("T:token"))}
			}
		}
	case "Expect":
		l := labels{}
		if len(argL) > 0 {
			l = argL[0]
		}
		return []labels{{}, {}, l}
	case "Set", "Add":
		if recv != nil && strings.HasSuffix(exprText(recv), ".Header") {
			return []labels{{}}
		}
	}
	// seeds
	seedKey := sel
	if text == "cookiejar.New" {
		seedKey = "New#cookiejar"
	}
	var seeded []labels
	if sd, ok := seedCalls[seedKey]; ok {
		n := 1
		for i := range sd {
			if i+1 > n {
				n = i + 1
			}
		}
		if seedKey == "GetUserPass" || seedKey == "getSystemPassword" {
			n = 3
		} else if seedKey != "New#cookiejar" {
			n = 2
		} else {
			n = 2
		}
		seeded = make([]labels, n)
		for i := range seeded {
			seeded[i] = labels{}
			if s, ok := sd[i]; ok {
				seeded[i] = a.touch(lab(s))
			}
		}
	}
	// module functions, local closures, function-typed parameters
	ts := a.targets(text, sel, recv)
	if len(ts) > 0 {
		var res []labels
		for _, t := range ts {
			for i := range argL {
				j := i
				if j >= len(t.params) {
					j = len(t.params) - 1 // variadic tail
				}
				if j >= 0 && !symbolic {
					setLabels(paramTaint, t.key, j, argL[i])
				}
			}
			r := a.resultsAt(t, argL)
			for i := range r {
				for len(res) <= i {
					res = append(res, labels{})
				}
				res[i].add(r[i])
			}
		}
		for i := range seeded {
			for len(res) <= i {
				res = append(res, labels{})
			}
			res[i].add(seeded[i])
		}
		if len(res) == 0 {
			res = []labels{{}}
		}
		for _, r := range res {
			a.touch(r)
		}
		return res
	}
	if seeded != nil {
		return seeded
	}
	// external default: every result carries the labels of receiver and arguments
	r := union(all, recvL)
	return []labels{r, r, r}
}

// resultsAt: the return summary of t with its parameter markers replaced by the labels of the
// arguments at this call site.
func (a *analysis) resultsAt(t *fn, argL []labels) []labels {
	r := make([]labels, t.nres)
	for j := range r {
		r[j] = labels{}
		for k := range getLabels(retTaint, t.key, j) {
			r[j].add(subst(k, func(key string, i int) (labels, bool) {
				if key != t.key {
					return nil, false
				}
				l := labels{}
				for ai := range argL {
					pi := ai
					if pi >= len(t.params) {
						pi = len(t.params) - 1
					}
					if pi == i {
						l.add(argL[ai])
					}
				}
				return l, true
			}))
		}
		r[j] = resolve(r[j])
	}
	return r
}

func (a *analysis) results(t *fn) []labels {
	n := t.nres
	r := make([]labels, n)
	for i := range r {
		r[i] = resolve(getLabels(retTaint, t.key, i).clone())
	}
	return r
}

// targets resolves a call to module functions / closures (by bare name).
func (a *analysis) targets(text, sel string, recv ast.Expr) []*fn {
	if recv == nil {
		if c := a.local[text]; c != nil {
			return []*fn{c}
		}
		// function-typed parameter of an enclosing function
		for f := a.f; f != nil; f = parentOf(f) {
			for _, p := range f.params {
				if p == text {
					return litTargets[f.key+"#"+p]
				}
			}
		}
		var r []*fn
		for _, f := range byName[text] {
			if f.pkg == a.f.pkg {
				r = append(r, f)
			}
		}
		return r
	}
	if id, ok := recv.(*ast.Ident); ok && a.imports[id.Name] {
		// pkg.Func: a module package?
		var r []*fn
		for _, f := range byName[sel] {
			if f.pkg == id.Name {
				r = append(r, f)
			}
		}
		return r
	}
	switch sel {
	case "String", "Error", "Close", "Set", "Get", "Write", "Run", "Len":
		return nil
	}
	return byName[sel]
}

func parentOf(f *fn) *fn {
	i := strings.LastIndex(f.key, "$")
	if i < 0 {
		return nil
	}
	return funcs[f.key[:i]]
}

func (a *analysis) record(sink string, c *ast.CallExpr, l labels) {
	if symbolic || a.f.pkg == "errlog" {
		return
	}
	var parts []string
	for _, arg := range c.Args {
		parts = append(parts, exprText(arg))
	}
	sites = append(sites, site{pkg: a.f.pkg, fn: a.f.key, sink: sink, arg: strings.Join(parts, ", "), lbl: l.clone()})
}

func (a *analysis) assign(lhs ast.Expr, l labels, define, augment bool) {
	switch x := lhs.(type) {
	case *ast.Ident:
		if x.Name == "_" {
			return
		}
		if augment {
			a.env[x.Name] = union(a.env[x.Name], l)
		} else {
			a.env[x.Name] = l.clone()
		}
		a.touch(l)
	default:
		root := rootIdent(lhs)
		if sel, ok := lhs.(*ast.SelectorExpr); ok {
			if fieldTaint[sel.Sel.Name] == nil {
				fieldTaint[sel.Sel.Name] = labels{}
			}
			if !symbolic && fieldTaint[sel.Sel.Name].add(l) {
				changed = true
			}
		}
		if root != nil && !a.isParam[root.Name] {
			a.env[root.Name] = union(a.env[root.Name], l)
		}
		a.touch(l)
	}
}

func (a *analysis) snapshot() map[string]labels {
	s := map[string]labels{}
	for k, v := range a.env {
		s[k] = v.clone()
	}
	return s
}

func (a *analysis) join(pre map[string]labels) {
	for k, v := range pre {
		a.env[k] = union(a.env[k], v)
	}
}

func (a *analysis) block(b *ast.BlockStmt) {
	if b == nil {
		return
	}
	for _, s := range b.List {
		a.stmt(s)
	}
}

func (a *analysis) branch(f func()) {
	pre := a.snapshot()
	f()
	a.join(pre)
}

func (a *analysis) stmt(s ast.Stmt) {
	switch x := s.(type) {
	case nil:
	case *ast.BlockStmt:
		a.block(x)
	case *ast.ExprStmt:
		if c, ok := x.X.(*ast.CallExpr); ok {
			a.evalCall(c)
			// mutator: external method call with tainted arguments taints the receiver variable
			text, sel, recv := calleeText(c)
			if recv != nil && len(a.targets(text, sel, recv)) == 0 && !strings.Contains(exprText(recv), ".Header") {
				if root := rootIdent(recv); root != nil && !a.imports[root.Name] && !a.isParam[root.Name] {
					l := labels{}
					for _, arg := range c.Args {
						if _, ok := arg.(*ast.FuncLit); !ok {
							l.add(a.eval(arg))
						}
					}
					if len(l) > 0 && !sinkNames[text] {
						a.env[root.Name] = union(a.env[root.Name], l)
					}
				}
			}
		} else {
			a.eval(x.X)
		}
	case *ast.AssignStmt:
		augment := x.Tok != token.ASSIGN && x.Tok != token.DEFINE
		if len(x.Rhs) == 1 && len(x.Lhs) > 1 {
			var res []labels
			switch r := x.Rhs[0].(type) {
			case *ast.CallExpr:
				res = a.evalCall(r)
			default:
				l := a.eval(r)
				res = []labels{l, {}}
			}
			for i, lhs := range x.Lhs {
				l := labels{}
				if i < len(res) {
					l = res[i]
				}
				a.assign(lhs, l, x.Tok == token.DEFINE, augment)
			}
			return
		}
		for i, lhs := range x.Lhs {
			if i >= len(x.Rhs) {
				break
			}
			if lit, ok := x.Rhs[i].(*ast.FuncLit); ok {
				if id, ok := lhs.(*ast.Ident); ok {
					// name := func(...) {...}: register first (recursive closures), analyse now
					key := a.f.key + "$" + id.Name
					if funcs[key] != nil {
						a.local[id.Name] = funcs[key]
					}
					a.local[id.Name] = a.closure(lit, id.Name)
					continue
				}
			}
			a.assign(lhs, a.eval(x.Rhs[i]), x.Tok == token.DEFINE, augment)
		}
	case *ast.DeclStmt:
		if gd, ok := x.Decl.(*ast.GenDecl); ok {
			for _, sp := range gd.Specs {
				if vs, ok := sp.(*ast.ValueSpec); ok {
					for i, n := range vs.Names {
						l := labels{}
						if i < len(vs.Values) {
							l = a.eval(vs.Values[i])
						}
						a.assign(n, l, true, false)
					}
				}
			}
		}
	case *ast.ReturnStmt:
		if len(x.Results) == 1 && a.f.nres > 1 {
			if c, ok := x.Results[0].(*ast.CallExpr); ok {
				for i, l := range a.evalCall(c) {
					if i < a.f.nres && symbolic {
						setLabels(retTaint, a.f.key, i, l)
					}
				}
				return
			}
		}
		for i, r := range x.Results {
			l := a.eval(r)
			if symbolic {
				setLabels(retTaint, a.f.key, i, l)
			}
		}
	case *ast.IfStmt:
		a.stmt(x.Init)
		a.eval(x.Cond)
		a.branch(func() { a.block(x.Body) })
		if x.Else != nil {
			a.branch(func() { a.stmt(x.Else) })
		}
	case *ast.ForStmt:
		a.stmt(x.Init)
		a.eval(x.Cond)
		a.branch(func() {
			a.block(x.Body)
			a.stmt(x.Post)
			rec := recording
			recording = false
			a.block(x.Body)
			recording = rec
		})
	case *ast.RangeStmt:
		l := a.eval(x.X)
		if x.Key != nil {
			a.assign(x.Key, labels{}, true, false)
		}
		if x.Value != nil {
			a.assign(x.Value, l, true, false)
		}
		a.branch(func() {
			a.block(x.Body)
			rec := recording
			recording = false
			a.block(x.Body)
			recording = rec
		})
	case *ast.SwitchStmt:
		a.stmt(x.Init)
		a.eval(x.Tag)
		for _, cc := range x.Body.List {
			cl := cc.(*ast.CaseClause)
			for _, e := range cl.List {
				a.eval(e)
			}
			a.branch(func() {
				for _, s := range cl.Body {
					a.stmt(s)
				}
			})
		}
	case *ast.TypeSwitchStmt:
		a.stmt(x.Init)
		a.stmt(x.Assign)
		for _, cc := range x.Body.List {
			cl := cc.(*ast.CaseClause)
			a.branch(func() {
				for _, s := range cl.Body {
					a.stmt(s)
				}
			})
		}
	case *ast.DeferStmt:
		a.evalCall(x.Call)
	case *ast.GoStmt:
		a.evalCall(x.Call)
	case *ast.IncDecStmt, *ast.BranchStmt, *ast.EmptyStmt:
	case *ast.LabeledStmt:
		a.stmt(x.Stmt)
	case *ast.SendStmt:
		a.eval(x.Value)
	case *ast.SelectStmt:
		for _, cc := range x.Body.List {
			cl := cc.(*ast.CommClause)
			a.stmt(cl.Comm)
			for _, s := range cl.Body {
				a.stmt(s)
			}
		}
	default:
		problems = append(problems, fmt.Sprintf("%s: statement not understood: %T", a.f.key, s))
	}
}

// ---------------------------------------------------------------- main

func isVerifFile(f *ast.File, name string) bool {
	if strings.HasPrefix(filepath.Base(name), "verif_") {
		return true
	}
	for _, cg := range f.Comments {
		if cg.Pos() > f.Package {
			break
		}
		for _, c := range cg.List {
			if strings.HasPrefix(c.Text, "//go:build") && strings.Contains(c.Text, "verif") {
				return true
			}
		}
	}
	return false
}

func leanStr(s string) string {
	var b strings.Builder
	b.WriteByte('"')
	for _, r := range s {
		switch {
		case r == '"':
			b.WriteString("\\\"")
		case r == '\\':
			b.WriteString("\\\\")
		case r == '\n':
			b.WriteString("\\n")
		case r == '\t':
			b.WriteString("\\t")
		case r < 0x20:
			fmt.Fprintf(&b, "\\x%02x", r)
		default:
			b.WriteRune(r)
		}
	}
	b.WriteByte('"')
	return b.String()
}

func main() {
	repo := flag.String("repo", "/repo", "repository root")
	out := flag.String("out", "", "Lean file to write (default stdout)")
	flag.Parse()
	pkgRoot := filepath.Join(*repo, "go", "pkg")
	dirs, err := os.ReadDir(pkgRoot)
	if err != nil {
		fmt.Fprintln(os.Stderr, err)
		os.Exit(1)
	}
	var order []*fn
	for _, d := range dirs {
		if !d.IsDir() {
			continue
		}
		files, _ := filepath.Glob(filepath.Join(pkgRoot, d.Name(), "*.go"))
		sort.Strings(files)
		for _, file := range files {
			if strings.HasSuffix(file, "_test.go") {
				continue
			}
			af, err := parser.ParseFile(fset, file, nil, parser.ParseComments)
			if err != nil {
				fmt.Fprintln(os.Stderr, err)
				os.Exit(1)
			}
			if isVerifFile(af, file) {
				continue
			}
			for _, decl := range af.Decls {
				fd, ok := decl.(*ast.FuncDecl)
				if !ok || fd.Body == nil {
					continue
				}
				f := &fn{pkg: d.Name(), name: fd.Name.Name, body: fd.Body, file: af}
				f.key = d.Name() + "." + fd.Name.Name
				if fd.Recv != nil && len(fd.Recv.List) > 0 {
					t := exprText(fd.Recv.List[0].Type)
					f.key = d.Name() + "." + strings.TrimPrefix(t, "*") + "." + fd.Name.Name
				}
				for _, p := range fd.Type.Params.List {
					if len(p.Names) == 0 {
						f.params = append(f.params, "_")
					}
					for _, n := range p.Names {
						f.params = append(f.params, n.Name)
					}
				}
				if fd.Type.Results != nil {
					for _, r := range fd.Type.Results.List {
						k := len(r.Names)
						if k == 0 {
							k = 1
						}
						f.nres += k
					}
				}
				f.top = f
				funcs[f.key] = f
				byName[f.name] = append(byName[f.name], f)
				order = append(order, f)
			}
		}
	}
	// Phase A: fixpoint of everything.  Phase B: labels only ever grow, so values of parameters and
	// fields that were computed from not yet complete return summaries may be too large; keep the
	// summaries, reset parameters and fields, and iterate again until the summaries are stable too.
	fixpoint := func() {
		for round := 0; round < 60; round++ {
			changed = false
			for _, f := range order {
				analyseWithRecv(f)
			}
			if !changed {
				return
			}
		}
		problems = append(problems, "no fixpoint after 60 rounds")
	}
	retSize := func() int {
		n := 0
		for _, v := range retTaint {
			for _, l := range v {
				n += len(l)
			}
		}
		for _, v := range litTargets {
			n += len(v)
		}
		return n
	}
	for phase := 0; phase < 10; phase++ {
		paramTaint = map[string][]labels{}
		// the field that holds the password given on the command line
		fieldTaint = map[string]labels{"Password": lab("T:pass")}
		touched = map[string]bool{}
		before := retSize()
		fixpoint()
		if phase > 0 && retSize() == before {
			break
		}
	}
	recording = true
	sites = nil
	for _, f := range order {
		analyseWithRecv(f)
	}
	if len(problems) > 0 {
		sort.Strings(problems)
		for _, p := range problems {
			fmt.Fprintln(os.Stderr, "sinks:", p)
		}
		os.Exit(1)
	}

	// output
	var b strings.Builder
	b.WriteString("/-! GENERATED by translate/sinks from the working tree of the repository — do not edit.\n")
	b.WriteString("Every call that writes to a sink inside a function in which a secret is in scope. -/\n")
	b.WriteString("namespace NA.Gen.Sinks\n\n")
	b.WriteString("structure Site where\n  id : Nat\n  taintCode : Nat\n  pkg : String\n  fn : String\n  sink : String\n  arg : String\n  taint : String\n\n")
	b.WriteString("def sites : List Site := [\n")
	ord := map[string]int{}
	n := 0
	var kept []site
	for _, s := range sites {
		top := s.fn
		if i := strings.Index(top, "$"); i >= 0 {
			top = top[:i]
		}
		// console.Conn carries the session over which the password is sent; doapprove copies run-log
		// lines into history and stdout: their sinks are always listed
		if !touched[top] && s.lbl.code() == 0 && s.pkg != "console" && s.pkg != "doapprove" {
			continue
		}
		kept = append(kept, s)
	}
	for i, s := range kept {
		base := s.pkg + "|" + s.fn + "|" + s.sink + "|" + s.arg + "|" + s.lbl.String()
		ord[base]++
		h := fnv.New32a()
		h.Write([]byte(fmt.Sprintf("%s|%d", base, ord[base])))
		sep := ","
		if i == len(kept)-1 {
			sep = ""
		}
		fmt.Fprintf(&b, "  { id := %d, taintCode := %d, pkg := %s, fn := %s, sink := %s, arg := %s, taint := %s }%s\n",
			h.Sum32(), s.lbl.code(), leanStr(s.pkg), leanStr(s.fn), leanStr(s.sink), leanStr(s.arg), leanStr(s.lbl.String()), sep)
		n++
	}
	b.WriteString("]\n\n")
	// summary of the fixpoint: which functions return / receive labelled values
	var keys []string
	for k, v := range retTaint {
		for i, l := range v {
			if len(l) > 0 {
				keys = append(keys, fmt.Sprintf("%s result %d: %s", k, i, l))
			}
		}
	}
	for k, v := range paramTaint {
		for i, l := range v {
			if len(l) > 0 {
				keys = append(keys, fmt.Sprintf("%s param %d: %s", k, i, l))
			}
		}
	}
	for k, l := range fieldTaint {
		if len(l) > 0 {
			keys = append(keys, fmt.Sprintf("field %s: %s", k, l))
		}
	}
	{
		var ks []string
		for _, k := range keys {
			if strings.Contains(k, "T:") || strings.Contains(k, "M:") {
				ks = append(ks, k)
			}
		}
		keys = ks
	}
	sort.Strings(keys)
	b.WriteString("/-- Flow summary of the fixpoint (documentation). -/\ndef flows : List String := [\n")
	for i, k := range keys {
		sep := ","
		if i == len(keys)-1 {
			sep = ""
		}
		fmt.Fprintf(&b, "  %s%s\n", leanStr(k), sep)
	}
	b.WriteString("]\n\nend NA.Gen.Sinks\n")
	if *out == "" {
		fmt.Print(b.String())
	} else {
		os.MkdirAll(filepath.Dir(*out), 0755)
		if err := os.WriteFile(*out, []byte(b.String()), 0644); err != nil {
			fmt.Fprintln(os.Stderr, err)
			os.Exit(1)
		}
		fmt.Printf("sinks: %d sites in %d functions with a secret in scope\n", n, len(touched))
	}
}

func analyseWithRecv(f *fn) {
	symbolic = true
	analyseRecv(f)
	symbolic = false
	analyseRecv(f)
}

func analyseRecv(f *fn) {
	recv := ""
	for _, decl := range f.file.Decls {
		if fd, ok := decl.(*ast.FuncDecl); ok && fd.Body == f.body && fd.Recv != nil && len(fd.Recv.List) > 0 &&
			len(fd.Recv.List[0].Names) > 0 {
			recv = fd.Recv.List[0].Names[0].Name
		}
	}
	if recv != "" {
		saved := f.params
		f.params = append([]string{}, f.params...)
		// the receiver is registered as a parameter name only for field assignments; it is not indexed
		defer func() { f.params = saved }()
		analyseNamed(f, recv)
		return
	}
	analyseNamed(f, "")
}

func analyseNamed(f *fn, recv string) {
	a := &analysis{f: f, env: map[string]labels{}, isParam: map[string]bool{}, local: map[string]*fn{},
		imports: map[string]bool{}, sticky: map[string]labels{}, sinkOrd: map[string]int{}}
	if recv != "" {
		a.isParam[recv] = true
	}
	for _, im := range f.file.Imports {
		p := strings.Trim(im.Path.Value, "\"")
		n := filepath.Base(p)
		if im.Name != nil {
			n = im.Name.Name
		}
		if n == "goexpect" {
			n = "expect"
		}
		a.imports[n] = true
	}
	for i, p := range f.params {
		a.isParam[p] = true
		a.env[p] = paramLabels(f.key, i)
		a.touch(a.env[p])
	}
	ast.Inspect(f.body, func(n ast.Node) bool {
		if c, ok := n.(*ast.CallExpr); ok {
			if _, sel, _ := calleeText(c); sel == "parseAPIKey" {
				for _, arg := range c.Args {
					if r := rootIdent(arg); r != nil {
						a.sticky[r.Name] = lab("T:key")
						touched[f.top.key] = true
					}
				}
			}
		}
		return true
	})
	a.block(f.body)
}
