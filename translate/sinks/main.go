// sinks: T-gen for property C17 (secrets never reach logs).
//
// Reads the working tree of the repository (go/pkg/..., files without the `verif` build tag, no
// tests), type-checks all packages of the module in dependency order (go/types; dependencies from
// export data of `go list -export`, else from source) and runs an interprocedural taint analysis.
// It emits lean/NA/Gen/Sinks.lean:
//
//   - sites      EVERY call in the module that writes to a sink, with the sink kind
//     (session log .login/.config/.change/.cmp, run log, history file, status file, stdout,
//     stderr, temporary file), the text of its arguments and the taint class of what it writes;
//   - errSources every call that can return an error whose text embeds a request URL
//     ((*http.Client).Get/Do/PostForm, http.NewRequest, url.Parse) — the failure kinds — with the
//     secrets that URL carries;
//   - errFlows   for every failure kind and every sink site its error text reaches: whether it is
//     still raw there and which redaction steps it passed.
//
// Calls are resolved through go/types: static calls to their *types.Func, interface method calls to
// the methods of every module type that implements the interface, calls of closure variables and of
// function-typed parameters to the function literals bound / passed.
//
// Secrets (seeds): result 1 of Config.GetUserPass / getSystemPassword, result 0 of askPassword and
// term.ReadPassword, the field Config.Password (label pass); result 0 of panos.parseAPIKey and
// whatever is passed to it (label key); Header.Get("x-xsrf-token") (label token); cookiejar.New
// (label cookie).
// Propagation: assignments (strong update of plain variables, join after branches), struct fields
// (by field object), string building (any call or operator over a labelled operand is labelled),
// parameters of module functions and closures (fixpoint), returned values as summaries over
// parameter markers (context-sensitive, sanitiser-aware).
// Boundary: data results of Get/Do/PostForm/Expect are device output (clean); their error result,
// and that of http.NewRequest / url.Parse, embeds the URL: it carries the labels of the URL argument
// tagged with the id of the call (`T:key@<id>`) plus the neutral label `U@<id>`.  Header.Set/Add
// taint nothing; errors of xml/json.Unmarshal are clean.
// Sanitisers — the ONLY ones: passRE.ReplaceAllString turns pass into M:passRE, keyRE / apiRE turn
// key into M:keyRE / M:apiRE.
//
// taintCode of a site: 0 = no secret label, 1 = only masked labels, 9 = at least one raw label.
// A construct the translator does not understand is an error (exit 1), never skipped.
package main

import (
	"bytes"
	"flag"
	"fmt"
	"go/ast"
	"go/importer"
	"go/parser"
	"go/printer"
	"go/token"
	"go/types"
	"hash/fnv"
	"io"
	"os"
	"os/exec"
	"path/filepath"
	"sort"
	"strconv"
	"strings"
)

const modPrefix = "github.com/hknutzen/Netspoc-Approve/go/pkg/"

// ---------------------------------------------------------------- labels

type labels map[string]bool

func (l labels) add(o labels) bool {
	ch := false
	for k := range o {
		if !l[k] {
			l[k] = true
			ch = true
		}
	}
	return ch
}
func (l labels) clone() labels {
	c := labels{}
	for k := range l {
		c[k] = true
	}
	return c
}
func (l labels) String() string {
	if len(l) == 0 {
		return "clean"
	}
	ks := make([]string, 0, len(l))
	for k := range l {
		ks = append(ks, k)
	}
	sort.Strings(ks)
	return strings.Join(ks, "+")
}
func (l labels) code() int {
	c := 0
	for k := range l {
		switch {
		case strings.HasPrefix(k, "T:"):
			return 9
		case strings.HasPrefix(k, "M:"):
			c = 1
		}
	}
	return c
}
func union(ls ...labels) labels {
	r := labels{}
	for _, l := range ls {
		r.add(l)
	}
	return r
}
func lab(s string) labels { return labels{s: true} }

// ---------------------------------------------------------------- program

type fn struct {
	key     string // pkg.Recv.Name / pkg.Name, closures: parent$name or parent$litN
	pkg     string
	params  []*types.Var
	recv    *types.Var
	body    *ast.BlockStmt
	nres    int
	top     *fn
	parent  *fn
	wrapper string // this function is itself a sink: kind of what it writes
}

type site struct {
	pkg, fn, sink, kind, arg string
	lbl                      labels
	pos                      token.Pos
}

// A closure bound to a variable is analysed where it is defined AND again at every call of the variable,
// with the environment of that call (captured variables may hold a secret by then).  The sites and
// events of the body exist once: a repeated analysis joins its labels into them (by source position).
var (
	reanalysing int
	sitePos     = map[token.Pos]int{}
	eventPos    = map[token.Pos]int{}
	inClosure   = map[*fn]bool{}
	litOf       = map[*fn]*ast.FuncLit{}
)

type source struct {
	id, fn, call, url string
	urlL              labels
}

// event: a step of a function in source order — a write to a sink or a transmission to the device
type event struct {
	fn, what string
	sink     bool
	siteIdx  int
	lbl      labels
}

var events []event

// input: a place where data enters the program from outside (file, environment, terminal, command line)
type input struct {
	pkg, fn, api, lit string
	seeded            bool
}

var inputs []input

var inputAPIs = map[string]bool{
	"os.ReadFile": true, "os.Getenv": true, "os.LookupEnv": true, "os.Environ": true, "golang.org/x/term.ReadPassword": true,
	"os.Open": true, "(*bufio.Reader).ReadString": true, "(*bufio.Scanner).Scan": true, "fmt.Scan": true, "fmt.Scanln": true, "fmt.Scanf": true,
	"io.ReadAll": false,
}

func isFlagDef(full string) bool {
	return strings.HasPrefix(full, "(*github.com/spf13/pflag.FlagSet).") &&
		(strings.Contains(full, ").String") || strings.Contains(full, ").Bool") || strings.Contains(full, ").Int") || strings.Contains(full, ").Var"))
}

var (
	fset       = token.NewFileSet()
	info       *types.Info
	fnByObj    = map[*types.Func]*fn{}
	fnByLit    = map[*ast.FuncLit]*fn{}
	litVar     = map[*types.Var]*fn{}   // name := func …
	litTargets = map[*types.Var][]*fn{} // function-typed parameter -> closures passed for it
	named      []*types.Named           // every named type declared in the module
	paramTaint = map[*fn][]labels{}
	retTaint   = map[*fn][]labels{}
	fieldTaint = map[*types.Var]labels{}
	passwordF  *types.Var // program.Config.Password
	changed    bool
	symbolic   bool // pass that computes return summaries over parameter markers P:<fn>:<i>
	recording  bool
	sites      []site
	sources    = map[string]source{}
	touched    = map[*fn]bool{}
	problems   []string
	order      []*fn
	fnByKey    = map[string]*fn{}
)

// sink wrappers of the module: calls to them are sink sites; the primitive writes inside them are
// listed with class "wrapper"
var wrappers = map[string]string{
	modPrefix + "errlog.DoLog": "session", modPrefix + "errlog.Info": "runlog", modPrefix + "errlog.Warning": "runlog",
	modPrefix + "errlog.Abort": "runlog", modPrefix + "errlog.PrintWithMarker": "runlog",
	modPrefix + "doapprove.logHistory": "history", modPrefix + "doapprove.abort": "stderr", modPrefix + "drc.abort": "stderr",
	modPrefix + "program.warn": "stderr", "(*" + modPrefix + "console.Conn).logString": "session",
}

var seedCalls = map[string]map[int]string{
	"(*" + modPrefix + "program.Config).GetUserPass":       {1: "T:pass"},
	"(*" + modPrefix + "program.Config).getSystemPassword": {1: "T:pass"},
	"(*" + modPrefix + "program.Config).askPassword":       {0: "T:pass"},
	"golang.org/x/term.ReadPassword":                       {0: "T:pass"},
	modPrefix + "panos.parseAPIKey":                        {0: "T:key"},
	"net/http/cookiejar.New":                               {0: "T:cookie"},
}

var sanitizers = map[string]map[string]string{
	"passRE": {"T:pass": "M:passRE"},
	"keyRE":  {"T:key": "M:keyRE"},
	"apiRE":  {"T:key": "M:apiRE"},
}

// a sanitiser is recognised by the PATTERN its regexp was compiled from (the Lean matchers model
// exactly these patterns), whatever the variable is called
var sanitizerPatterns = map[string]string{
	`(password=).*?(&|$)`: "passRE",
	`(?s)<key>.*</key>`:   "keyRE",
	`(?s)<(?:[^\s<>/:]+:)?key(?:\s[^>]*)?>(?:.*</(?:[^\s<>/:]+:)?key\s*>|.*$)`: "keyRE",
}

// regexpOf: variable object -> pattern literal of `regexp.MustCompile(<literal>)` it is defined with
var regexpOf = map[types.Object]string{}

func collectRegexps(files []*ast.File) {
	pat := func(e ast.Expr) (string, bool) {
		c, ok := e.(*ast.CallExpr)
		if !ok || len(c.Args) != 1 {
			return "", false
		}
		se, ok := c.Fun.(*ast.SelectorExpr)
		if !ok || se.Sel.Name != "MustCompile" && se.Sel.Name != "Compile" {
			return "", false
		}
		bl, ok := c.Args[0].(*ast.BasicLit)
		if !ok || bl.Kind != token.STRING {
			return "", false
		}
		v := bl.Value
		if strings.HasPrefix(v, "`") {
			return strings.Trim(v, "`"), true
		}
		if u, err := strconv.Unquote(v); err == nil {
			return u, true
		}
		return "", false
	}
	for _, f := range files {
		ast.Inspect(f, func(n ast.Node) bool {
			switch x := n.(type) {
			case *ast.ValueSpec:
				for i, name := range x.Names {
					if i < len(x.Values) {
						if p, ok := pat(x.Values[i]); ok {
							regexpOf[info.Defs[name]] = p
						}
					}
				}
			case *ast.AssignStmt:
				for i, lhs := range x.Lhs {
					if id, ok := lhs.(*ast.Ident); ok && i < len(x.Rhs) {
						if p, ok := pat(x.Rhs[i]); ok {
							if o := objOf(id); o != nil {
								regexpOf[o] = p
							}
						}
					}
				}
			}
			return true
		})
	}
}

var cleanCalls = map[string]bool{
	"strings.HasPrefix": true, "strings.HasSuffix": true, "strings.Contains": true, "strings.ContainsAny": true,
	"strings.Index": true, "strings.LastIndex": true, "strings.EqualFold": true, "strings.Count": true,
	"errors.Is": true, "errors.As": true, "encoding/xml.Unmarshal": true, "encoding/json.Unmarshal": true,
	"os.Getenv": true, "time.Sleep": true, "regexp.MustCompile": true,
}

func exprText(e ast.Node) string {
	var b bytes.Buffer
	printer.Fprint(&b, fset, e)
	return strings.Join(strings.Fields(b.String()), " ")
}

// alphaText prints an expression with the function's parameters and locals renamed to $1, $2 … in
// order of first occurrence: the text is documentation and must not depend on local names.
func alphaText(a *analysis, e ast.Node) string {
	names := map[types.Object]string{}
	var touchedIds []*ast.Ident
	var orig []string
	ast.Inspect(e, func(n ast.Node) bool {
		id, ok := n.(*ast.Ident)
		if !ok {
			return true
		}
		o := objOf(id)
		v, isVar := o.(*types.Var)
		if !isVar || v.IsField() || v.Pkg() == nil || v.Parent() == v.Pkg().Scope() {
			return true
		}
		if names[o] == "" {
			names[o] = fmt.Sprintf("$%d", len(names)+1)
		}
		touchedIds = append(touchedIds, id)
		orig = append(orig, id.Name)
		id.Name = names[o]
		return true
	})
	t := exprText(e)
	for i, id := range touchedIds {
		id.Name = orig[i]
	}
	return t
}

func hash32(s string) uint32 {
	h := fnv.New32a()
	h.Write([]byte(s))
	return h.Sum32()
}

func setLabels(m map[*fn][]labels, f *fn, i int, l labels) {
	for len(m[f]) <= i {
		m[f] = append(m[f], labels{})
	}
	if m[f][i].add(l) {
		changed = true
	}
}
func getLabels(m map[*fn][]labels, f *fn, i int) labels {
	if i < len(m[f]) {
		return m[f][i]
	}
	return labels{}
}

func marker(f *fn, i int) string { return fmt.Sprintf("P:%s:%d", f.key, i) }

func paramLabels(f *fn, i int) labels {
	if symbolic {
		return lab(marker(f, i))
	}
	return getLabels(paramTaint, f, i).clone()
}

// sanitize applies one sanitiser; parameter markers are wrapped so that the conversion happens when
// the marker is substituted.  Provenance (`@id`) is kept.
func sanitize(re string, l labels) labels {
	conv := sanitizers[re]
	r := labels{}
	for k := range l {
		switch {
		case strings.HasPrefix(k, "P:") || strings.HasPrefix(k, "S:") || strings.HasPrefix(k, "B:"):
			r["S:"+re+"|"+k] = true
		default:
			base, at, _ := strings.Cut(k, "@")
			if m, ok := conv[base]; ok {
				if at != "" {
					m += "@" + at
				}
				r[m] = true
			} else {
				r[k] = true
			}
		}
	}
	return r
}

func subst(k string, lookup func(key string, i int) (labels, bool)) labels {
	switch {
	case strings.HasPrefix(k, "S:"):
		bar := strings.Index(k, "|")
		return sanitize(k[2:bar], subst(k[bar+1:], lookup))
	case strings.HasPrefix(k, "B:"):
		// error of a boundary call whose URL is a parameter: B:<id>|<marker>
		bar := strings.Index(k, "|")
		return atSource(k[2:bar], subst(k[bar+1:], lookup))
	case strings.HasPrefix(k, "P:"):
		j := strings.LastIndex(k, ":")
		var i int
		fmt.Sscanf(k[j+1:], "%d", &i)
		if l, ok := lookup(k[2:j], i); ok {
			return l.clone()
		}
	}
	return lab(k)
}

// atSource tags the labels of a URL with the id of the call whose error embeds that URL.
func atSource(id string, l labels) labels {
	r := labels{}
	for k := range l {
		switch {
		case strings.HasPrefix(k, "P:") || strings.HasPrefix(k, "S:") || strings.HasPrefix(k, "B:"):
			r["B:"+id+"|"+k] = true
		case strings.Contains(k, "@"):
			r[k] = true // already attributed to an earlier call (http.NewRequest before Do)
		case strings.HasPrefix(k, "U") || k == "D":
		default:
			r[k+"@"+id] = true
		}
	}
	r["U@"+id] = true
	return r
}

func resolve(l labels) labels {
	if symbolic {
		return l
	}
	r := labels{}
	for k := range l {
		r.add(subst(k, func(key string, i int) (labels, bool) {
			if f := fnByKey[key]; f != nil {
				return getLabels(paramTaint, f, i), true
			}
			return labels{}, true
		}))
	}
	return r
}

func concreteOnly(l labels) labels {
	r := labels{}
	for k := range l {
		if strings.HasPrefix(k, "T:") || strings.HasPrefix(k, "M:") {
			r[k] = true
		}
	}
	return r
}

// ---------------------------------------------------------------- per function analysis

type analysis struct {
	f       *fn
	env     map[types.Object]labels
	isParam map[types.Object]bool
	sticky  map[types.Object]labels
}

func (a *analysis) touch(l labels) labels {
	if len(concreteOnly(l)) > 0 {
		touched[a.f.top] = true
	}
	return l
}

func objOf(id *ast.Ident) types.Object {
	if o := info.Uses[id]; o != nil {
		return o
	}
	return info.Defs[id]
}

func isPkgName(e ast.Expr) bool {
	if id, ok := e.(*ast.Ident); ok {
		_, ok := objOf(id).(*types.PkgName)
		return ok
	}
	return false
}

func rootIdent(e ast.Expr) *ast.Ident {
	for {
		switch x := e.(type) {
		case *ast.Ident:
			return x
		case *ast.SelectorExpr:
			e = x.X
		case *ast.IndexExpr:
			e = x.X
		case *ast.StarExpr:
			e = x.X
		case *ast.ParenExpr:
			e = x.X
		case *ast.SliceExpr:
			e = x.X
		case *ast.UnaryExpr:
			e = x.X
		case *ast.CallExpr:
			return nil
		default:
			return nil
		}
	}
}

func (a *analysis) eval(e ast.Expr) labels {
	if e == nil {
		return labels{}
	}
	switch x := e.(type) {
	case *ast.Ident:
		o := objOf(x)
		if o == nil {
			return labels{}
		}
		return a.touch(union(a.env[o], a.sticky[o]))
	case *ast.BasicLit:
		return labels{}
	case *ast.SelectorExpr:
		if isPkgName(x.X) {
			if id, _ := x.X.(*ast.Ident); id != nil && id.Name == "os" && (x.Sel.Name == "Stdin" || x.Sel.Name == "Args") && recording && !symbolic {
				inputs = append(inputs, input{pkg: a.f.pkg, fn: a.f.key, api: "os." + x.Sel.Name})
			}
			return labels{}
		}
		r := a.eval(x.X)
		if sel := info.Selections[x]; sel != nil && sel.Kind() == types.FieldVal {
			if v, ok := sel.Obj().(*types.Var); ok {
				r = union(r, fieldTaint[v])
			}
		}
		return a.touch(r)
	case *ast.CallExpr:
		return union(a.evalCall(x)...)
	case *ast.BinaryExpr:
		l, r := a.eval(x.X), a.eval(x.Y)
		switch x.Op {
		case token.EQL, token.NEQ, token.LSS, token.GTR, token.LEQ, token.GEQ, token.LAND, token.LOR:
			return labels{}
		}
		return union(l, r)
	case *ast.UnaryExpr:
		if x.Op == token.NOT {
			a.eval(x.X)
			return labels{}
		}
		return a.eval(x.X)
	case *ast.ParenExpr:
		return a.eval(x.X)
	case *ast.StarExpr:
		return a.eval(x.X)
	case *ast.IndexExpr:
		a.eval(x.Index)
		return a.eval(x.X)
	case *ast.SliceExpr:
		return a.eval(x.X)
	case *ast.TypeAssertExpr:
		return a.eval(x.X)
	case *ast.KeyValueExpr:
		return a.eval(x.Value)
	case *ast.CompositeLit:
		r := labels{}
		for _, el := range x.Elts {
			r.add(a.eval(el))
		}
		return r
	case *ast.FuncLit:
		a.closure(x)
		return labels{}
	case *ast.ArrayType, *ast.MapType, *ast.StructType, *ast.InterfaceType, *ast.FuncType, *ast.ChanType, *ast.Ellipsis:
		return labels{}
	}
	problems = append(problems, fmt.Sprintf("%s: expression not understood: %T %s", a.f.key, e, exprText(e)))
	return labels{}
}

// closure analyses a function literal in the current environment.
func unparen(e ast.Expr) ast.Expr {
	for {
		p, ok := e.(*ast.ParenExpr)
		if !ok {
			return e
		}
		e = p.X
	}
}

func (a *analysis) closure(lit *ast.FuncLit) *fn {
	c := fnByLit[lit]
	if c == nil {
		problems = append(problems, fmt.Sprintf("%s: function literal not registered", a.f.key))
		return nil
	}
	sub := &analysis{f: c, env: a.env, isParam: a.isParam, sticky: a.sticky}
	saved := map[types.Object]labels{}
	for i, p := range c.params {
		saved[p] = a.env[p]
		a.env[p] = paramLabels(c, i)
		a.touch(a.env[p])
	}
	sub.block(c.body)
	for p, l := range saved {
		if l == nil {
			delete(a.env, p)
		} else {
			a.env[p] = l
		}
	}
	return c
}

// callee: full name of the called function (external: types.Func.FullName), the module
// functions / closures it may resolve to, and the receiver expression of a method call.
func (a *analysis) callee(c *ast.CallExpr) (full string, ts []*fn, recv ast.Expr, obj types.Object) {
	fun := c.Fun
	for {
		if p, ok := fun.(*ast.ParenExpr); ok {
			fun = p.X
		} else {
			break
		}
	}
	switch f := fun.(type) {
	case *ast.Ident:
		obj = objOf(f)
		switch o := obj.(type) {
		case *types.Func:
			full = o.FullName()
			if t := fnByObj[o]; t != nil {
				ts = []*fn{t}
			}
		case *types.Var:
			if t := litVar[o]; t != nil {
				ts = []*fn{t}
			} else {
				ts = litTargets[o]
			}
			full = "var " + o.Name()
		case *types.Builtin:
			full = "builtin " + o.Name()
		}
	case *ast.SelectorExpr:
		if sel := info.Selections[f]; sel != nil {
			recv = f.X
			obj = sel.Obj()
			if m, ok := obj.(*types.Func); ok {
				full = m.FullName()
				if t := fnByObj[m]; t != nil {
					ts = []*fn{t}
				} else if types.IsInterface(sel.Recv()) || isInterfaceMethod(m) {
					ts = implementations(m)
				}
			} else if v, ok := obj.(*types.Var); ok {
				full = "field " + v.Name()
			}
		} else if o, ok := objOf(f.Sel).(*types.Func); ok {
			obj = o
			full = o.FullName()
			if t := fnByObj[o]; t != nil {
				ts = []*fn{t}
			}
		}
	case *ast.FuncLit:
		if t := fnByLit[f]; t != nil {
			ts = []*fn{t}
		}
		full = "funclit"
	}
	return
}

func isInterfaceMethod(m *types.Func) bool {
	sig, _ := m.Type().(*types.Signature)
	return sig != nil && sig.Recv() != nil && types.IsInterface(sig.Recv().Type())
}

// implementations: the methods of every module type that implements the interface declaring m.
func implementations(m *types.Func) []*fn {
	sig, _ := m.Type().(*types.Signature)
	if sig == nil || sig.Recv() == nil {
		return nil
	}
	iface, _ := sig.Recv().Type().Underlying().(*types.Interface)
	if iface == nil {
		return nil
	}
	var r []*fn
	for _, n := range named {
		for _, t := range []types.Type{n, types.NewPointer(n)} {
			if _, isI := n.Underlying().(*types.Interface); isI {
				continue
			}
			if types.Implements(t, iface) {
				o, _, _ := types.LookupFieldOrMethod(t, true, m.Pkg(), m.Name())
				if mf, ok := o.(*types.Func); ok {
					if f := fnByObj[mf]; f != nil {
						dup := false
						for _, x := range r {
							dup = dup || x == f
						}
						if !dup {
							r = append(r, f)
						}
					}
				}
			}
		}
	}
	return r
}

func isBuilderWriter(e ast.Expr) bool {
	t := info.TypeOf(e)
	if t == nil {
		return false
	}
	s := t.String()
	return strings.Contains(s, "strings.Builder") || strings.Contains(s, "bytes.Buffer")
}

// sinkOf: is this call a write to a sink?  Returns the short sink name and the sink kind.
func (a *analysis) sinkOf(full string, c *ast.CallExpr, recv ast.Expr) (sink, kind string, args []ast.Expr, ok bool) {
	if k, isW := wrappers[full]; isW {
		name := strings.TrimPrefix(full, modPrefix)
		name = strings.TrimPrefix(name, "(*"+modPrefix)
		name = strings.Replace(name, ").", ".", 1)
		args = c.Args
		if k == "session" && len(args) > 1 {
			args = args[1:] // the file handle
		}
		return name, k, args, true
	}
	writerKind := func(w ast.Expr) string {
		switch x := w.(type) {
		case *ast.SelectorExpr:
			if isPkgName(x.X) && x.Sel.Name == "Stderr" {
				return "stderr"
			}
			if isPkgName(x.X) && x.Sel.Name == "Stdout" {
				return "stdout"
			}
		case *ast.Ident:
			if x.Name == "stderrLog" {
				return "runlog"
			}
		}
		switch {
		case a.f.top.wrapper != "":
			return a.f.top.wrapper
		case a.f.pkg == "device":
			return "session" // <device>.cmp
		case a.f.pkg == "linux":
			return "tempfile" // scp source
		case a.f.pkg == "status":
			return "status"
		}
		return "file"
	}
	switch full {
	case "fmt.Fprint", "fmt.Fprintf", "fmt.Fprintln":
		if len(c.Args) == 0 || isBuilderWriter(c.Args[0]) {
			return "", "", nil, false
		}
		return full, writerKind(c.Args[0]), c.Args[1:], true
	case "fmt.Print", "fmt.Printf", "fmt.Println":
		return full, "stdout", c.Args, true
	case "(*os.File).Write", "(*os.File).WriteString":
		return full, writerKind(recv), c.Args, true
	case "io.WriteString":
		if len(c.Args) == 2 && !isBuilderWriter(c.Args[0]) {
			return full, writerKind(c.Args[0]), c.Args[1:], true
		}
	case "os.WriteFile":
		return full, writerKind(nil), c.Args[1:2], true
	case "log.Print", "log.Printf", "log.Println", "log.Fatal", "log.Fatalf":
		return full, "stderr", c.Args, true
	}
	return "", "", nil, false
}

// sourceID: a failure kind is identified by the API whose error embeds the URL; the URL's taint class
// is added when the kinds are printed (it is not known while markers are unresolved).
func (a *analysis) sourceID(api string) string {
	api = strings.NewReplacer("(*net/http.Client).", "http.Client.", "net/http.", "http.", "net/url.", "url.").Replace(api)
	return api
}

// evalCall returns the labels of every result of the call.
func (a *analysis) evalCall(c *ast.CallExpr) []labels {
	full, ts, recv, _ := a.callee(c)
	argL := make([]labels, len(c.Args))
	for i, arg := range c.Args {
		if lit, ok := arg.(*ast.FuncLit); ok {
			cl := a.closure(lit)
			for _, t := range ts {
				if i < len(t.params) && cl != nil {
					p := t.params[i]
					found := false
					for _, x := range litTargets[p] {
						found = found || x == cl
					}
					if !found {
						litTargets[p] = append(litTargets[p], cl)
						changed = true
					}
				}
			}
			argL[i] = labels{}
			continue
		}
		argL[i] = a.eval(arg)
	}
	all := union(argL...)
	recvL := labels{}
	if recv != nil {
		recvL = a.eval(recv)
	}

	if sink, kind, sargs, ok := a.sinkOf(full, c, recv); ok && recording && !symbolic {
		l := labels{}
		for _, sa := range sargs {
			l.add(a.eval(sa))
		}
		a.record(sink, kind, sargs, l, c.Pos())
	}

	if recording && !symbolic && reanalysing == 0 && (inputAPIs[full] || isFlagDef(full)) {
		lit := ""
		for _, arg := range c.Args {
			if bl, ok := arg.(*ast.BasicLit); ok && bl.Kind == token.STRING {
				lit = strings.Trim(bl.Value, "\"`")
				break
			}
		}
		// seeded: the value read is a taint seed — the call itself, or the result of the enclosing function
		_, seededCall := seedCalls[full]
		seededFn := false
		for o, f := range fnByObj {
			if f == a.f.top {
				_, seededFn = seedCalls[o.FullName()]
			}
		}
		inputs = append(inputs, input{pkg: a.f.pkg, fn: a.f.key, api: full, lit: lit, seeded: seededCall || seededFn})
	}
	// conversions and builtins
	if tv, ok := info.Types[c.Fun]; ok && tv.IsType() {
		return []labels{all}
	}
	if strings.HasPrefix(full, "builtin ") {
		switch full {
		case "builtin len", "builtin cap", "builtin make", "builtin new", "builtin recover", "builtin delete", "builtin close":
			return []labels{{}}
		}
		return []labels{all}
	}
	if cleanCalls[full] {
		return []labels{{}, {}}
	}
	// sanitisers: the only ones
	if full == "(*regexp.Regexp).ReplaceAllString" {
		if id, ok := recv.(*ast.Ident); ok {
			if name, ok := sanitizerPatterns[regexpOf[objOf(id)]]; ok {
				if len(argL) > 0 {
					return []labels{sanitize(name, argL[0])}
				}
				return []labels{{}}
			}
		}
	}
	// network boundary / failure kinds
	boundary := func(urlL labels, nData int) []labels {
		id := a.sourceID(full)
		if recording && !symbolic {
			old := sources[id]
			u := union(old.urlL, concreteOnly(resolve(urlL)))
			fns := old.fn
			if !strings.Contains(" "+fns+" ", " "+a.f.key+" ") {
				fns = strings.TrimSpace(fns + " " + a.f.key)
			}
			sources[id] = source{id: id, fn: fns, call: alphaText(a, c), url: u.String(), urlL: u}
		}
		r := make([]labels, nData+1)
		for i := range r {
			r[i] = lab("D") // device output
		}
		r[nData] = a.touch(atSource(id, urlL))
		return r
	}
	first := func() labels {
		if len(argL) > 0 {
			return argL[0]
		}
		return labels{}
	}
	switch full {
	case "(*net/http.Client).Get", "(*net/http.Client).PostForm", "(*net/http.Client).Do", "(*net/http.Client).Post",
		"(*net/http.Client).Head":
		a.transmit(full, c, all)
		return boundary(first(), 1)
	case "net/http.NewRequest":
		r := boundary(union(argL[0], argL[1]), 1)
		r[0] = union(argL[0], argL[1], atSourceKeep(r[1]))
		return r
	case "net/url.Parse":
		r := boundary(first(), 1)
		r[0] = first()
		return r
	case "(*github.com/tailscale/goexpect.GExpect).Expect":
		return []labels{lab("D"), lab("D"), first()}
	case "(*github.com/tailscale/goexpect.GExpect).Send":
		a.transmit(full, c, all)
		return []labels{{}}
	case "(net/http.Header).Set", "(net/http.Header).Add", "(net/http.Header).Del":
		a.transmit(full, c, all)
		return []labels{{}}
	case "(net/http.Header).Get":
		if len(c.Args) == 1 {
			if bl, ok := c.Args[0].(*ast.BasicLit); ok && strings.EqualFold(strings.Trim(bl.Value, "\"`"), "x-xsrf-token") {
				return []labels{a.touch(lab("T:token"))}
			}
		}
		return []labels{recvL}
	}
	// seeds
	var seeded []labels
	if sd, ok := seedCalls[full]; ok {
		n := 2
		if sig, ok := info.TypeOf(c.Fun).(*types.Signature); ok {
			n = sig.Results().Len()
		}
		seeded = make([]labels, n)
		for i := range seeded {
			seeded[i] = labels{}
			if s, ok := sd[i]; ok {
				seeded[i] = a.touch(lab(s))
			}
		}
	}
	// a call of a variable bound to a function literal: the body again, with the environment of this call
	if id, ok := unparen(c.Fun).(*ast.Ident); ok && recording && !symbolic {
		if v, ok := objOf(id).(*types.Var); ok {
			if t := litVar[v]; t != nil && litOf[t] != nil && !inClosure[t] {
				inClosure[t] = true
				reanalysing++
				a.closure(litOf[t])
				reanalysing--
				inClosure[t] = false
			}
		}
	}
	// module functions, closures, function-typed parameters, interface methods
	if len(ts) > 0 {
		var res []labels
		for _, t := range ts {
			for i := range argL {
				j := i
				if j >= len(t.params) {
					j = len(t.params) - 1 // variadic tail
				}
				if j >= 0 && !symbolic {
					setLabels(paramTaint, t, j, argL[i])
				}
			}
			r := a.resultsAt(t, argL)
			for i := range r {
				for len(res) <= i {
					res = append(res, labels{})
				}
				res[i].add(r[i])
			}
		}
		for i := range seeded {
			for len(res) <= i {
				res = append(res, labels{})
			}
			res[i].add(seeded[i])
		}
		if len(res) == 0 {
			res = []labels{{}}
		}
		for _, r := range res {
			a.touch(r)
		}
		return res
	}
	if seeded != nil {
		return seeded
	}
	// external default: every result carries the labels of receiver and arguments
	r := union(all, recvL)
	return []labels{r, r, r}
}

// the request built by http.NewRequest carries the URL labels, attributed to that call
func atSourceKeep(l labels) labels {
	r := labels{}
	for k := range l {
		if !strings.HasPrefix(k, "U") {
			r[k] = true
		}
	}
	return r
}

func (a *analysis) resultsAt(t *fn, argL []labels) []labels {
	r := make([]labels, t.nres)
	for j := range r {
		r[j] = labels{}
		for k := range getLabels(retTaint, t, j) {
			r[j].add(subst(k, func(key string, i int) (labels, bool) {
				if key != t.key {
					return nil, false
				}
				l := labels{}
				for ai := range argL {
					pi := ai
					if pi >= len(t.params) {
						pi = len(t.params) - 1
					}
					if pi == i {
						l.add(argL[ai])
					}
				}
				return l, true
			}))
		}
		r[j] = resolve(r[j])
	}
	return r
}

func (a *analysis) transmit(full string, c *ast.CallExpr, l labels) {
	if recording && !symbolic && reanalysing > 0 {
		if j, ok := eventPos[c.Pos()]; ok {
			events[j].lbl = union(events[j].lbl, concreteKeepProv(resolve(l)))
			return
		}
	}
	if recording && !symbolic {
		eventPos[c.Pos()] = len(events)
		events = append(events, event{fn: a.f.key, what: alphaText(a, c), lbl: concreteKeepProv(resolve(l))})
	}
}

func (a *analysis) record(sink, kind string, args []ast.Expr, l labels, pos token.Pos) {
	var parts []string
	for _, arg := range args {
		parts = append(parts, alphaText(a, arg))
	}
	l = concreteKeepProv(l)
	if a.f.top.wrapper != "" {
		// a primitive write inside a sink wrapper: its arguments are the wrapper's parameters,
		// which are accounted for at every call of the wrapper
		l = lab("wrapper")
	}
	if reanalysing > 0 {
		if i, ok := sitePos[pos]; ok {
			sites[i].lbl = union(sites[i].lbl, l)
			if j, ok := eventPos[pos]; ok {
				events[j].lbl = union(events[j].lbl, l)
			}
			return
		}
	}
	sites = append(sites, site{pkg: a.f.pkg, fn: a.f.key, sink: sink, kind: kind, arg: strings.Join(parts, ", "), lbl: l, pos: pos})
	sitePos[pos] = len(sites) - 1
	events = append(events, event{fn: a.f.key, what: sink + "(" + strings.Join(parts, ", ") + ")", sink: true, siteIdx: len(sites) - 1, lbl: l})
	eventPos[pos] = len(events) - 1
}

// secretOnly: what of a taint matters for the identity of a site — raw and masked secrets with the
// failure kind they came through; not device output, not the clean failure kinds that happen to flow by
func secretOnly(l labels) labels {
	r := labels{}
	for k := range l {
		if strings.HasPrefix(k, "T:") || strings.HasPrefix(k, "M:") || k == "wrapper" {
			r[k] = true
		}
	}
	return r
}

func concreteKeepProv(l labels) labels {
	r := labels{}
	for k := range l {
		if strings.HasPrefix(k, "T:") || strings.HasPrefix(k, "M:") || strings.HasPrefix(k, "U@") || k == "D" {
			r[k] = true
		}
	}
	return r
}

func (a *analysis) assign(lhs ast.Expr, l labels, augment bool) {
	switch x := lhs.(type) {
	case *ast.Ident:
		if x.Name == "_" {
			return
		}
		o := objOf(x)
		if o == nil {
			return
		}
		if augment {
			a.env[o] = union(a.env[o], l)
		} else {
			a.env[o] = l.clone()
		}
		a.touch(l)
	default:
		if se, ok := lhs.(*ast.SelectorExpr); ok {
			if sel := info.Selections[se]; sel != nil && sel.Kind() == types.FieldVal {
				if v, ok := sel.Obj().(*types.Var); ok && !symbolic {
					if fieldTaint[v] == nil {
						fieldTaint[v] = labels{}
					}
					if fieldTaint[v].add(concreteKeepProv(l)) {
						changed = true
					}
				}
			}
		}
		if root := rootIdent(lhs); root != nil {
			if o := objOf(root); o != nil && !a.isParam[o] {
				if _, isPkg := o.(*types.PkgName); !isPkg {
					a.env[o] = union(a.env[o], l)
				}
			}
		}
		a.touch(l)
	}
}

func (a *analysis) snapshot() map[types.Object]labels {
	s := map[types.Object]labels{}
	for k, v := range a.env {
		s[k] = v.clone()
	}
	return s
}

func (a *analysis) join(pre map[types.Object]labels) {
	for k, v := range pre {
		a.env[k] = union(a.env[k], v)
	}
}

func (a *analysis) block(b *ast.BlockStmt) {
	if b == nil {
		return
	}
	for _, s := range b.List {
		a.stmt(s)
	}
}

func (a *analysis) branch(f func()) {
	pre := a.snapshot()
	f()
	a.join(pre)
}

// twice: a loop.  The body is iterated WITHOUT recording until the environment at the loop head is
// stable (join over the back edge: what a later statement of the body assigns is visible to an earlier
// one in the next iteration); then one recorded pass with that loop-invariant environment — so a sink
// that stands BEFORE the assignment of a secret in the body is recorded with the secret.
func (a *analysis) twice(f func()) {
	a.branch(func() {
		rec := recording
		recording = false
		for i := 0; i < 16; i++ {
			head := a.snapshot()
			f()
			a.join(head)
			if a.sameEnv(head) {
				break
			}
		}
		recording = rec
		f()
	})
}

func (a *analysis) sameEnv(o map[types.Object]labels) bool {
	for k, v := range a.env {
		w := o[k]
		if len(v) != len(w) {
			return false
		}
		for x := range v {
			if _, ok := w[x]; !ok {
				return false
			}
		}
	}
	return true
}

func (a *analysis) stmt(s ast.Stmt) {
	switch x := s.(type) {
	case nil:
	case *ast.BlockStmt:
		a.block(x)
	case *ast.ExprStmt:
		if c, ok := x.X.(*ast.CallExpr); ok {
			a.evalCall(c)
			// mutator: external method call with labelled arguments labels the receiver variable
			full, ts, recv, _ := a.callee(c)
			_, _, _, isSink := a.sinkOf(full, c, recv)
			if recv != nil && len(ts) == 0 && !isSink && !strings.HasPrefix(full, "(net/http.Header)") {
				if root := rootIdent(recv); root != nil {
					if o := objOf(root); o != nil && !a.isParam[o] {
						if _, isPkg := o.(*types.PkgName); !isPkg {
							l := labels{}
							for _, arg := range c.Args {
								if _, ok := arg.(*ast.FuncLit); !ok {
									l.add(a.eval(arg))
								}
							}
							if len(l) > 0 {
								a.env[o] = union(a.env[o], l)
							}
						}
					}
				}
			}
			// fmt.Fprint* into a strings.Builder labels the builder
			if (full == "fmt.Fprint" || full == "fmt.Fprintf" || full == "fmt.Fprintln") && len(c.Args) > 0 && isBuilderWriter(c.Args[0]) {
				if root := rootIdent(c.Args[0]); root != nil {
					if o := objOf(root); o != nil {
						l := labels{}
						for _, arg := range c.Args[1:] {
							l.add(a.eval(arg))
						}
						a.env[o] = union(a.env[o], l)
					}
				}
			}
		} else {
			a.eval(x.X)
		}
	case *ast.AssignStmt:
		augment := x.Tok != token.ASSIGN && x.Tok != token.DEFINE
		if len(x.Rhs) == 1 && len(x.Lhs) > 1 {
			var res []labels
			switch r := x.Rhs[0].(type) {
			case *ast.CallExpr:
				res = a.evalCall(r)
			default:
				res = []labels{a.eval(r), {}}
			}
			for i, lhs := range x.Lhs {
				l := labels{}
				if i < len(res) {
					l = res[i]
				}
				a.assign(lhs, l, augment)
			}
			return
		}
		for i, lhs := range x.Lhs {
			if i >= len(x.Rhs) {
				break
			}
			if lit, ok := x.Rhs[i].(*ast.FuncLit); ok {
				if id, ok := lhs.(*ast.Ident); ok {
					if v, ok := objOf(id).(*types.Var); ok {
						litVar[v] = fnByLit[lit]
					}
					a.closure(lit)
					continue
				}
			}
			a.assign(lhs, a.eval(x.Rhs[i]), augment)
		}
	case *ast.DeclStmt:
		if gd, ok := x.Decl.(*ast.GenDecl); ok {
			for _, sp := range gd.Specs {
				if vs, ok := sp.(*ast.ValueSpec); ok {
					for i, n := range vs.Names {
						l := labels{}
						if i < len(vs.Values) {
							l = a.eval(vs.Values[i])
						}
						a.assign(n, l, false)
					}
				}
			}
		}
	case *ast.ReturnStmt:
		if len(x.Results) == 1 && a.f.nres > 1 {
			if c, ok := x.Results[0].(*ast.CallExpr); ok {
				for i, l := range a.evalCall(c) {
					if i < a.f.nres && symbolic {
						setLabels(retTaint, a.f, i, l)
					}
				}
				return
			}
		}
		for i, r := range x.Results {
			l := a.eval(r)
			if symbolic {
				setLabels(retTaint, a.f, i, l)
			}
		}
	case *ast.IfStmt:
		a.stmt(x.Init)
		a.eval(x.Cond)
		a.branch(func() { a.block(x.Body) })
		if x.Else != nil {
			a.branch(func() { a.stmt(x.Else) })
		}
	case *ast.ForStmt:
		a.stmt(x.Init)
		a.eval(x.Cond)
		a.twice(func() {
			a.block(x.Body)
			a.stmt(x.Post)
		})
	case *ast.RangeStmt:
		l := a.eval(x.X)
		if x.Key != nil {
			a.assign(x.Key, labels{}, false)
		}
		if x.Value != nil {
			a.assign(x.Value, l, false)
		}
		a.twice(func() { a.block(x.Body) })
	case *ast.SwitchStmt:
		a.stmt(x.Init)
		a.eval(x.Tag)
		for _, cc := range x.Body.List {
			cl := cc.(*ast.CaseClause)
			for _, e := range cl.List {
				a.eval(e)
			}
			a.branch(func() {
				for _, s := range cl.Body {
					a.stmt(s)
				}
			})
		}
	case *ast.TypeSwitchStmt:
		a.stmt(x.Init)
		a.stmt(x.Assign)
		for _, cc := range x.Body.List {
			cl := cc.(*ast.CaseClause)
			a.branch(func() {
				for _, s := range cl.Body {
					a.stmt(s)
				}
			})
		}
	case *ast.DeferStmt:
		a.evalCall(x.Call)
	case *ast.GoStmt:
		a.evalCall(x.Call)
	case *ast.IncDecStmt, *ast.BranchStmt, *ast.EmptyStmt:
	case *ast.LabeledStmt:
		a.stmt(x.Stmt)
	case *ast.SendStmt:
		a.eval(x.Value)
	case *ast.SelectStmt:
		for _, cc := range x.Body.List {
			cl := cc.(*ast.CommClause)
			a.stmt(cl.Comm)
			for _, s := range cl.Body {
				a.stmt(s)
			}
		}
	default:
		problems = append(problems, fmt.Sprintf("%s: statement not understood: %T", a.f.key, s))
	}
}

func analyse(f *fn) {
	a := &analysis{f: f, env: map[types.Object]labels{}, isParam: map[types.Object]bool{}, sticky: map[types.Object]labels{}}
	if f.recv != nil {
		a.isParam[f.recv] = true
	}
	for i, p := range f.params {
		a.isParam[p] = true
		a.env[p] = paramLabels(f, i)
		a.touch(a.env[p])
	}
	// sticky seed: whatever is handed to parseAPIKey holds the key (the device's keygen response)
	ast.Inspect(f.body, func(n ast.Node) bool {
		if c, ok := n.(*ast.CallExpr); ok {
			if full, _, _, _ := a.callee(c); full == modPrefix+"panos.parseAPIKey" {
				for _, arg := range c.Args {
					if r := rootIdent(arg); r != nil {
						if o := objOf(r); o != nil {
							a.sticky[o] = lab("T:key")
							touched[f.top] = true
						}
					}
				}
			}
		}
		return true
	})
	a.block(f.body)
}

func analyseBoth(f *fn) {
	symbolic = true
	analyse(f)
	symbolic = false
	analyse(f)
}

// ---------------------------------------------------------------- loading

type pkgSrc struct {
	name, path string
	files      []*ast.File
	imports    map[string]bool
}

type modImporter struct {
	done     map[string]*types.Package
	fallback types.Importer
}

func (m *modImporter) Import(path string) (*types.Package, error) {
	if p, ok := m.done[path]; ok {
		return p, nil
	}
	if strings.HasPrefix(path, modPrefix) {
		return nil, fmt.Errorf("module package %s not yet checked (import cycle?)", path)
	}
	return m.fallback.Import(path)
}

type fallbackImporter struct{ gc, src types.Importer }

func (f fallbackImporter) Import(path string) (*types.Package, error) {
	if p, err := f.gc.Import(path); err == nil {
		return p, nil
	}
	return f.src.Import(path)
}

func newFallback() types.Importer {
	src := importer.ForCompiler(fset, "source", nil)
	out, err := exec.Command("go", "list", "-e", "-export", "-deps", "-f", "{{.ImportPath}} {{.Export}}", "./pkg/...").Output()
	if err != nil {
		return src
	}
	exports := map[string]string{}
	for _, line := range strings.Split(string(out), "\n") {
		if f := strings.Fields(line); len(f) == 2 {
			exports[f[0]] = f[1]
		}
	}
	lookup := func(path string) (io.ReadCloser, error) {
		if e, ok := exports[path]; ok {
			return os.Open(e)
		}
		return nil, fmt.Errorf("no export data for %s", path)
	}
	return fallbackImporter{importer.ForCompiler(fset, "gc", lookup), src}
}

func isVerifFile(f *ast.File, name string) bool {
	if strings.HasPrefix(filepath.Base(name), "verif_") {
		return true
	}
	for _, cg := range f.Comments {
		if cg.Pos() > f.Package {
			break
		}
		for _, c := range cg.List {
			if strings.HasPrefix(c.Text, "//go:build") && strings.Contains(c.Text, "verif") {
				return true
			}
		}
	}
	return false
}

func nres(ft *ast.FuncType) int {
	n := 0
	if ft.Results != nil {
		for _, r := range ft.Results.List {
			k := len(r.Names)
			if k == 0 {
				k = 1
			}
			n += k
		}
	}
	return n
}

func paramVars(ft *ast.FuncType) []*types.Var {
	var r []*types.Var
	for _, p := range ft.Params.List {
		if len(p.Names) == 0 {
			r = append(r, nil)
		}
		for _, n := range p.Names {
			v, _ := info.Defs[n].(*types.Var)
			r = append(r, v)
		}
	}
	return r
}

// registerLits gives every function literal below a declaration its key (source order).
func registerLits(top *fn, parent *fn, body ast.Node, counter *int) {
	ast.Inspect(body, func(n ast.Node) bool {
		switch x := n.(type) {
		case *ast.AssignStmt:
			for i, rhs := range x.Rhs {
				if lit, ok := rhs.(*ast.FuncLit); ok && i < len(x.Lhs) {
					if id, ok := x.Lhs[i].(*ast.Ident); ok {
						mkLit(top, parent, lit, id.Name, counter)
					}
				}
			}
		case *ast.FuncLit:
			if fnByLit[x] == nil {
				mkLit(top, parent, x, "", counter)
			}
			return false
		}
		return true
	})
}

func mkLit(top, parent *fn, lit *ast.FuncLit, name string, counter *int) {
	if fnByLit[lit] != nil {
		return
	}
	*counter++
	if name == "" {
		name = fmt.Sprintf("lit%d", *counter)
	}
	c := &fn{key: parent.key + "$" + name, pkg: top.pkg, body: lit.Body, nres: nres(lit.Type), top: top, parent: parent,
		params: paramVars(lit.Type)}
	fnByLit[lit] = c
	litOf[c] = lit
	fnByKey[c.key] = c
	registerLits(top, c, lit.Body, counter)
}

func leanStr(s string) string {
	var b strings.Builder
	b.WriteByte('"')
	for _, r := range s {
		switch {
		case r == '"':
			b.WriteString("\\\"")
		case r == '\\':
			b.WriteString("\\\\")
		case r == '\n':
			b.WriteString("\\n")
		case r == '\t':
			b.WriteString("\\t")
		case r < 0x20:
			fmt.Fprintf(&b, "\\x%02x", r)
		default:
			b.WriteRune(r)
		}
	}
	b.WriteByte('"')
	return b.String()
}

func main() {
	repo := flag.String("repo", "/repo", "repository root")
	out := flag.String("out", "", "Lean file to write (default stdout)")
	flag.Parse()
	root := filepath.Join(*repo, "go")
	if err := os.Chdir(root); err != nil {
		fmt.Fprintln(os.Stderr, "sinks:", err)
		os.Exit(1)
	}
	dirs, _ := filepath.Glob(filepath.Join(root, "pkg", "*"))
	sort.Strings(dirs)
	pkgs := map[string]*pkgSrc{}
	for _, dir := range dirs {
		if fi, err := os.Stat(dir); err != nil || !fi.IsDir() {
			continue
		}
		name := filepath.Base(dir)
		p := &pkgSrc{name: name, path: modPrefix + name, imports: map[string]bool{}}
		files, _ := filepath.Glob(filepath.Join(dir, "*.go"))
		sort.Strings(files)
		for _, file := range files {
			if strings.HasSuffix(file, "_test.go") {
				continue
			}
			af, err := parser.ParseFile(fset, file, nil, parser.ParseComments)
			if err != nil {
				fmt.Fprintln(os.Stderr, "sinks:", err)
				os.Exit(1)
			}
			if isVerifFile(af, file) {
				continue
			}
			p.files = append(p.files, af)
			for _, im := range af.Imports {
				ip := strings.Trim(im.Path.Value, "\"")
				if strings.HasPrefix(ip, modPrefix) {
					p.imports[ip] = true
				}
			}
		}
		if len(p.files) > 0 {
			pkgs[p.path] = p
		}
	}
	info = &types.Info{
		Types:      map[ast.Expr]types.TypeAndValue{},
		Uses:       map[*ast.Ident]types.Object{},
		Defs:       map[*ast.Ident]types.Object{},
		Selections: map[*ast.SelectorExpr]*types.Selection{},
	}
	imp := &modImporter{done: map[string]*types.Package{}, fallback: newFallback()}
	var sorted []*pkgSrc
	for len(sorted) < len(pkgs) {
		progress := false
		var paths []string
		for p := range pkgs {
			paths = append(paths, p)
		}
		sort.Strings(paths)
		for _, path := range paths {
			p := pkgs[path]
			if imp.done[path] != nil {
				continue
			}
			ready := true
			for d := range p.imports {
				if imp.done[d] == nil && pkgs[d] != nil {
					ready = false
				}
			}
			if !ready {
				continue
			}
			conf := types.Config{Importer: imp, Error: func(err error) { problems = append(problems, fmt.Sprintf("type error: %v", err)) }}
			tp, _ := conf.Check(path, fset, p.files, info)
			collectRegexps(p.files)
			imp.done[path] = tp
			sorted = append(sorted, p)
			progress = true
		}
		if !progress {
			problems = append(problems, "import cycle among module packages")
			break
		}
	}
	// declarations
	for _, p := range sorted {
		tp := imp.done[p.path]
		if tp == nil {
			continue
		}
		for _, n := range tp.Scope().Names() {
			if tn, ok := tp.Scope().Lookup(n).(*types.TypeName); ok {
				if nt, ok := tn.Type().(*types.Named); ok {
					named = append(named, nt)
				}
			}
		}
		if p.name == "program" {
			if tn, ok := tp.Scope().Lookup("Config").(*types.TypeName); ok {
				if st, ok := tn.Type().Underlying().(*types.Struct); ok {
					for i := 0; i < st.NumFields(); i++ {
						if st.Field(i).Name() == "Password" {
							passwordF = st.Field(i)
						}
					}
				}
			}
		}
		for _, af := range p.files {
			for _, decl := range af.Decls {
				fd, ok := decl.(*ast.FuncDecl)
				if !ok || fd.Body == nil {
					continue
				}
				obj, _ := info.Defs[fd.Name].(*types.Func)
				f := &fn{pkg: p.name, body: fd.Body, nres: nres(fd.Type), params: paramVars(fd.Type)}
				f.key = p.name + "." + fd.Name.Name
				if fd.Recv != nil && len(fd.Recv.List) > 0 {
					t := exprText(fd.Recv.List[0].Type)
					f.key = p.name + "." + strings.TrimPrefix(t, "*") + "." + fd.Name.Name
					if len(fd.Recv.List[0].Names) > 0 {
						f.recv, _ = info.Defs[fd.Recv.List[0].Names[0]].(*types.Var)
					}
				}
				f.top = f
				if obj != nil {
					fnByObj[obj] = f
					f.wrapper = wrappers[obj.FullName()]
				}
				fnByKey[f.key] = f
				order = append(order, f)
				n := 0
				registerLits(f, f, fd.Body, &n)
			}
		}
	}
	if passwordF == nil {
		problems = append(problems, "field program.Config.Password not found")
	}
	for w := range wrappers {
		found := false
		for o := range fnByObj {
			found = found || o.FullName() == w
		}
		if !found {
			problems = append(problems, "sink wrapper not found in the source: "+w)
		}
	}

	fixpoint := func() {
		for round := 0; round < 60; round++ {
			changed = false
			for _, f := range order {
				analyseBoth(f)
			}
			if !changed {
				return
			}
		}
		problems = append(problems, "no fixpoint after 60 rounds")
	}
	retSize := func() int {
		n := 0
		for _, v := range retTaint {
			for _, l := range v {
				n += len(l)
			}
		}
		for _, v := range litTargets {
			n += len(v)
		}
		return n
	}
	// Phase A: fixpoint of everything.  Phase B: labels only grow, so parameters and fields computed
	// from incomplete summaries may be too large: keep the summaries, reset the rest, iterate again.
	for phase := 0; phase < 10; phase++ {
		paramTaint = map[*fn][]labels{}
		fieldTaint = map[*types.Var]labels{}
		if passwordF != nil {
			fieldTaint[passwordF] = lab("T:pass")
		}
		touched = map[*fn]bool{}
		before := retSize()
		fixpoint()
		if phase > 0 && retSize() == before {
			break
		}
	}
	recording = true
	sites = nil
	events = nil
	inputs = nil
	sitePos = map[token.Pos]int{}
	eventPos = map[token.Pos]int{}
	for _, f := range order {
		analyseBoth(f)
	}
	if len(problems) > 0 {
		sort.Strings(problems)
		for _, p := range problems {
			fmt.Fprintln(os.Stderr, "sinks:", p)
		}
		os.Exit(1)
	}

	// ---------------------------------------------------------------- output
	var b strings.Builder
	b.WriteString("/-! GENERATED by translate/sinks from the working tree of the repository — do not edit.\n")
	b.WriteString("Every call of the module that writes to a sink; the failure kinds whose error text embeds a request\nURL; where those texts flow. -/\n")
	b.WriteString("namespace NA.Gen.Sinks\n\n")
	b.WriteString("/-- kindCode: 1 session log, 2 run log, 3 history, 4 status file, 5 stdout, 6 stderr, 7 temporary file, 8 other file -/\n")
	b.WriteString("structure Site where\n  id : Nat\n  taintCode : Nat\n  kindCode : Nat\n  kind : String\n  pkg : String\n  fn : String\n  sink : String\n  arg : String\n  taint : String\n\n")
	b.WriteString("def sites : List Site := [\n")
	// failure kinds: API + taint class of the URL (not the enclosing function, not the position)
	srcClass := func(api string) string {
		u := "clean"
		if sc, ok := sources[api]; ok {
			u = sc.url
		}
		return api + "[" + u + "]"
	}
	// taint CLASS of a site: provenance `@<api>` becomes `@<api>[<url class>]`
	classOf := func(l labels) string {
		var ks []string
		seen := map[string]bool{}
		for k := range l {
			if base, at, ok := strings.Cut(k, "@"); ok {
				k = base + "@" + srcClass(at)
			}
			if !seen[k] {
				seen[k] = true
				ks = append(ks, k)
			}
		}
		if len(ks) == 0 {
			return "clean"
		}
		sort.Strings(ks)
		return strings.Join(ks, "+")
	}
	// id of a site: package, sink kind, taint class, ordinal among the sites of that package with the
	// same kind and class (such sites are interchangeable) — no function name, no argument text, no
	// local names, no positions
	ord := map[string]int{}
	siteID := make([]uint32, len(sites))
	for i, s := range sites {
		base := s.pkg + "|" + s.kind + "|" + classOf(secretOnly(s.lbl))
		ord[base]++
		siteID[i] = hash32(fmt.Sprintf("%s|%d", base, ord[base]))
		sep := ","
		if i == len(sites)-1 {
			sep = ""
		}
		kc := map[string]int{"session": 1, "runlog": 2, "history": 3, "status": 4, "stdout": 5, "stderr": 6, "tempfile": 7}[s.kind]
		if kc == 0 {
			kc = 8
		}
		fmt.Fprintf(&b, "  { id := %d, taintCode := %d, kindCode := %d, kind := %s, pkg := %s, fn := %s, sink := %s, arg := %s, taint := %s }%s\n",
			siteID[i], s.lbl.code(), kc, leanStr(s.kind), leanStr(s.pkg), leanStr(s.fn), leanStr(s.sink), leanStr(s.arg), leanStr(classOf(s.lbl)), sep)
	}
	b.WriteString("]\n\n")

	b.WriteString("/-- A failure kind: an API whose error text embeds the request URL, with the taint class of that URL.\n`id` hashes API and class only. -/\n")
	b.WriteString("structure ErrSource where\n  id : Nat\n  urlCode : Nat\n  api : String\n  url : String\n  fns : String\n  call : String\n\n")
	var sids []string
	for id := range sources {
		sids = append(sids, id)
	}
	sort.Strings(sids)
	b.WriteString("def errSources : List ErrSource := [\n")
	for i, id := range sids {
		s := sources[id]
		code := 0
		if s.url != "clean" {
			code = 9
			if !strings.Contains(s.url, "T:") {
				code = 1
			}
		}
		sep := ","
		if i == len(sids)-1 {
			sep = ""
		}
		fmt.Fprintf(&b, "  { id := %d, urlCode := %d, api := %s, url := %s, fns := %s, call := %s }%s\n", hash32(srcClass(id)), code, leanStr(id), leanStr(s.url), leanStr(s.fn), leanStr(s.call), sep)
	}
	b.WriteString("]\n\n")

	b.WriteString("/-- The error text of failure kind `source` reaches sink site `site`; `raw`: a secret of the URL is\nstill unmasked there; `masked`: it passed a redaction step. -/\n")
	b.WriteString("structure ErrFlow where\n  source : Nat\n  site : Nat\n  raw : Bool\n  masked : Bool\n  labels : String\n\n")
	b.WriteString("def errFlows : List ErrFlow := [\n")
	var flows []string
	for i, s := range sites {
		bySrc := map[string][]string{}
		for k := range s.lbl {
			if base, at, ok := strings.Cut(k, "@"); ok {
				bySrc[at] = append(bySrc[at], base)
			}
		}
		var srcs []string
		for at := range bySrc {
			srcs = append(srcs, at)
		}
		sort.Strings(srcs)
		for _, at := range srcs {
			ls := bySrc[at]
			sort.Strings(ls)
			raw, masked := false, false
			for _, l := range ls {
				raw = raw || strings.HasPrefix(l, "T:")
				masked = masked || strings.HasPrefix(l, "M:")
			}
			flows = append(flows, fmt.Sprintf("  { source := %d, site := %d, raw := %v, masked := %v, labels := %s }", hash32(srcClass(at)), siteID[i], raw, masked, leanStr(strings.Join(ls, "+"))))
		}
	}
	b.WriteString(strings.Join(flows, ",\n"))
	b.WriteString("\n]\n\n")

	b.WriteString("/-- A step of a function, in source order: kind 0 = write to sink `site`, 1 = transmission to the device.\n")
	b.WriteString("`secrets`: raw secrets the written / sent value depends on (1 pass, 2 key, 3 token, 4 cookie); `masked`: secrets\n")
	b.WriteString("it depends on through a redaction step; `dev`: it depends on device output.  grp: 1 nsx, 2 ssh back ends and\n")
	b.WriteString("console, 3 panos, 4 the rest. -/\n")
	b.WriteString("structure Event where\n  fnId : Nat\n  grp : Nat\n  kind : Nat\n  site : Nat\n  secrets : List Nat\n  masked : List Nat\n  dev : Bool\n  fn : String\n  what : String\n\n")
	b.WriteString("def events : List Event := [\n")
	secCode := map[string]int{"pass": 1, "key": 2, "token": 3, "cookie": 4}
	maskOf := map[string]int{"passRE": 1, "keyRE": 2, "apiRE": 2}
	for i, ev := range events {
		var sec, msk []string
		seenS, seenM := map[int]bool{}, map[int]bool{}
		dev := false
		var ks []string
		for k := range ev.lbl {
			ks = append(ks, k)
		}
		sort.Strings(ks)
		for _, k := range ks {
			base, _, _ := strings.Cut(k, "@")
			switch {
			case base == "D":
				dev = true
			case strings.HasPrefix(base, "T:"):
				if c := secCode[base[2:]]; c != 0 && !seenS[c] {
					seenS[c] = true
					sec = append(sec, fmt.Sprint(c))
				}
			case strings.HasPrefix(base, "M:"):
				if c := maskOf[base[2:]]; c != 0 && !seenM[c] {
					seenM[c] = true
					msk = append(msk, fmt.Sprint(c))
				}
			}
		}
		pk, _, _ := strings.Cut(ev.fn, ".")
		grp := 4
		switch pk {
		case "nsx":
			grp = 1
		case "console", "cisco", "asa", "ios", "linux":
			grp = 2
		case "panos":
			grp = 3
		}
		kind, sid := 1, uint32(0)
		if ev.sink {
			kind, sid = 0, siteID[ev.siteIdx]
			if ev.lbl["wrapper"] {
				continue
			}
		}
		sep := ","
		if i == len(events)-1 {
			sep = ""
		}
		fmt.Fprintf(&b, "  { fnId := %d, grp := %d, kind := %d, site := %d, secrets := [%s], masked := [%s], dev := %v, fn := %s, what := %s }%s\n",
			hash32(ev.fn), grp, kind, sid, strings.Join(sec, ", "), strings.Join(msk, ", "), dev, leanStr(ev.fn), leanStr(ev.what), sep)
	}
	b.WriteString("]\n\n")

	b.WriteString("/-- A place where data enters from outside: file, environment, terminal, command line (flag definitions).\n`id` hashes package, API, the literal argument (file / variable / flag name), whether it is a seed, and the\nordinal among these; `seeded`: the value\nread is a taint seed (label pass). -/\n")
	b.WriteString("structure Input where\n  id : Nat\n  seeded : Bool\n  pkg : String\n  fn : String\n  api : String\n  lit : String\n\n")
	b.WriteString("def inputs : List Input := [\n")
	{
		seenIn := map[string]bool{}
		var rows []string
		iord := map[string]int{}
		for _, in := range inputs {
			api := strings.NewReplacer("(*github.com/spf13/pflag.FlagSet).", "flag.", "golang.org/x/term.", "term.").Replace(in.api)
			base := fmt.Sprintf("%s|%s|%s|%v", in.pkg, api, in.lit, in.seeded)
			k := base + "|" + in.fn
			if seenIn[k] && (api == "os.Args" || api == "os.Stdin") {
				continue // mentioned several times in one function
			}
			seenIn[k] = true
			iord[base]++
			rows = append(rows, fmt.Sprintf("  { id := %d, seeded := %v, pkg := %s, fn := %s, api := %s, lit := %s }", hash32(fmt.Sprintf("%s|%d", base, iord[base])), in.seeded, leanStr(in.pkg), leanStr(in.fn), leanStr(api), leanStr(in.lit)))
		}
		b.WriteString(strings.Join(rows, ",\n"))
	}
	b.WriteString("\n]\n\n")

	// summary of the fixpoint (documentation)
	var keys []string
	add := func(s string) {
		if strings.Contains(s, "T:") || strings.Contains(s, "M:") {
			keys = append(keys, s)
		}
	}
	for f, v := range retTaint {
		for i, l := range v {
			if len(l) > 0 {
				add(fmt.Sprintf("%s result %d: %s", f.key, i, l))
			}
		}
	}
	for f, v := range paramTaint {
		for i, l := range v {
			if len(l) > 0 {
				add(fmt.Sprintf("%s param %d: %s", f.key, i, l))
			}
		}
	}
	for v, l := range fieldTaint {
		if len(l) > 0 {
			pk := ""
			if v.Pkg() != nil {
				pk = v.Pkg().Name() + "."
			}
			add(fmt.Sprintf("field %s%s: %s", pk, v.Name(), l))
		}
	}
	sort.Strings(keys)
	b.WriteString("/-- Flow summary of the fixpoint (documentation). -/\ndef flows : List String := [\n")
	for i, k := range keys {
		sep := ","
		if i == len(keys)-1 {
			sep = ""
		}
		fmt.Fprintf(&b, "  %s%s\n", leanStr(k), sep)
	}
	b.WriteString("]\n\nend NA.Gen.Sinks\n")
	if *out == "" {
		fmt.Print(b.String())
		return
	}
	os.MkdirAll(filepath.Dir(*out), 0755)
	if old, err := os.ReadFile(*out); err == nil && string(old) == b.String() {
		fmt.Printf("sinks: %d sites, %d failure kinds, %d flows (unchanged)\n", len(sites), len(sids), len(flows))
		return
	}
	if err := os.WriteFile(*out, []byte(b.String()), 0644); err != nil {
		fmt.Fprintln(os.Stderr, "sinks:", err)
		os.Exit(1)
	}
	fmt.Printf("sinks: %d sites, %d failure kinds, %d flows\n", len(sites), len(sids), len(flows))
}
