// skeleton: T-gen for C09.  Reads chosen functions of /repo/go with go/ast and writes, per
// function, the ordered list of call sites (callee, literal string arguments, enclosing
// constructs: "defer", "loop", "func", "if:<cond>", "else:<cond>") as Lean data
// (lean/NA/Gen/Skel.lean).  The Lean session programs of NA/Model/Apply*.lean must have
// exactly these skeletons (theorems by `decide` in NA/Props/C09.lean).
//
// A construct the translator does not understand is an error (exit 1), never skipped.
//
// Normal form (so that behaviour-preserving rewrites give the same skeleton):
//   - a condition is printed with every local variable / parameter of the enclosing function
//     replaced: a variable with exactly one assignment `x := e` and one use by (the normal form
//     of) e; a variable that holds the error result of a call by `err`; any other by a
//     description of where its value comes from ($r receiver, $p2 second parameter, $SetLock.1
//     first result of the recorded callee that defines it, $v.2 second result of a pure helper,
//     ...; see describe).  Names of locals never occur; constant strings are folded.
//   - tail position: at the end of a function / loop body every branch leaves; a bare return
//     resp. continue there is not a site; statements after a leaving statement are dropped.
//   - polarity: `!c` and `a == b` are stored as `c` resp. `a != b` with the branches swapped.
//   - guard clauses: if the positive branch always leaves (return / continue / break / Abort /
//     panic) the negative branch is recorded as if it stood after the statement, and vice versa;
//     `if c {A; return} else {B}`, `if c {A; return}; B` and `if !c {B} else {A; return}` coincide.
//   - an argument that is a local variable holding an error is recorded as "err" whatever its name.
//   - only the callees of the whitelist are recorded: a pure helper that is not listed is
//     transparent (extracting, inlining or renaming it changes nothing).
package main

import (
	"bytes"
	"flag"
	"fmt"
	"go/ast"
	"go/parser"
	"go/printer"
	"go/token"
	"os"
	"path/filepath"
	"sort"
	"strconv"
	"strings"
)

type site struct {
	callee string
	lits   []string
	ctx    []string
}

// functions of interest: file -> names ("recv.name" is not needed: names are unique per file;
// "outer$closure" names a function literal assigned to a variable inside outer).
var wanted = []struct {
	file  string
	pkg   string
	funcs []string
}{
	{"pkg/console/console.go", "console", []string{"Send", "SendCmd", "IssueCmd", "GetCmdOutput", "GetOutput",
		"waitPrompt", "WaitShort", "WaitLogin", "expectLog", "StripEcho", "StripStdPrompt", "Close"}},
	{"pkg/errlog/abort.go", "errlog", []string{"HandleAbort", "Abort"}},
	{"pkg/cisco/device.go", "cisco", []string{"LoginEnable", "LoginEnable$waitPrompt"}},
	{"pkg/httpdevice/device.go", "httpdevice", []string{"TryReachableHTTPLogin"}},
	{"pkg/asa/device.go", "asa", []string{"ApplyCommands", "cmd", "CloseConnection",
		"LoadDevice", "setTerminal", "logVersion", "checkDeviceName"}},
	{"pkg/ios/device.go", "ios", []string{"ApplyCommands", "cmd", "writeMem", "prepareDevice",
		"sendReloadCmd", "cancelReload", "CloseConnection",
		"LoadDevice", "setTerminal", "logVersion", "checkDeviceName"}},
	{"pkg/linux/device.go", "linux", []string{"ApplyCommands", "cmd", "writeStartupRouting",
		"writeStartupIPTables", "findIPTablesRestoreCmd", "writeStartup", "putScp", "CloseConnection",
		"LoadDevice", "loginEnable", "logVersion", "checkDeviceName", "checkBanner", "getDeviceRoutes", "getDeviceIPTables"}},
	{"pkg/panos/device.go", "panos", []string{"ApplyCommands", "ApplyCommands$doCmd", "ApplyCommands$commit",
		"httpPrefixGetLog", "httpGet", "CloseConnection", "LoadDevice", "getAPIKey", "checkHA"}},
	{"pkg/nsx/device.go", "nsx", []string{"ApplyCommands", "sendRequest", "CloseConnection", "LoadDevice", "getRawJSON"}},
	{"pkg/device/main.go", "device", []string{"ApproveOrCompare", "approve", "compare", "compareDevice", "applyCommands", "showCompareInfo"}},
	{"pkg/doapprove/main.go", "doapprove", []string{"Main"}},
	{"pkg/status/status.go", "status", []string{"SetApprove", "SetCompare"}},
}

// callees that are recorded (by the last name of the called expression)
var interesting = map[string]bool{}

func init() {
	for _, n := range strings.Fields(`
	Send SendCmd IssueCmd GetCmdOutput GetOutput waitPrompt WaitShort WaitLogin TryPrompt expectLog StripEcho StripStdPrompt Close
	Expect Abort Warning HandleAbort PrintWithMarker
	cmd writeMem prepareDevice sendReloadCmd cancelReload stripReloadBanner
	writeStartupRouting writeStartupIPTables findIPTablesRestoreCmd writeStartup putScp Run
	doCmd commit httpPrefixGetLog httpGet sendRequest parseResponse Unmarshal Get Do PostForm ReadAll NewRequest
	approve compare compareDevice loadDevice getCompare applyCommands ApplyCommands GetErrUnmanaged HasChanges
	CloseConnection showCompareInfo ApproveOrCompare getRealDevice SetStderrLog getLogFH
	SetApprove SetCompare logHistory abort ReadFile SetLock openHistoryLog LoadConfig EvalSymlinks fileExists Read
	recover panic
	LoginEnable loginEnable setTerminal logVersion checkDeviceName checkBanner getDeviceRoutes getDeviceIPTables
	TryReachableHTTPLogin login getAPIKey parseAPIKey checkHA parseResponseConfig getRawJSON ParseConfig
	GetSSHConn GetUserPass parseIPTables parseRoutes
	`) {
		interesting[n] = true
	}
}

var fset = token.NewFileSet()

func fail(format string, args ...any) {
	fmt.Fprintf(os.Stderr, "skeleton: "+format+"\n", args...)
	os.Exit(1)
}

func src(n ast.Node) string {
	var b bytes.Buffer
	printer.Fprint(&b, fset, n)
	s := b.String()
	s = strings.Join(strings.Fields(s), " ")
	return s
}

type walker struct {
	sites       []site
	closures    map[string]*ast.FuncLit // named closures found (name -> literal)
	noCondSites map[*ast.IfStmt]bool    // synthesised from a switch: the tag was walked once
	ftype       *ast.FuncType           // type of the function whose body is walked
	skipReturn  *ast.ReturnStmt         // final return of an inlined helper whose caller propagates the error
}

// ---- module-local helpers outside the vocabulary of the Lean programs are inlined ----

// pkgDecls: the functions and methods of the package being translated (all its files), by name;
// a name declared twice is not resolved.
var pkgDecls map[string]*ast.FuncDecl

// constBind: parameters of a helper that is being inlined and receive a constant string
var constBind = map[*ast.Object]string{}

var inlineStack []string

// deviceIO: sites that are an exchange with the device (the primitives, the API of package
// console, and the units of the vocabulary that contain one)
var deviceIO = map[string]bool{}

func init() {
	for _, n := range strings.Fields(`<send> <recv> Send SendCmd IssueCmd GetCmdOutput GetOutput WaitShort WaitLogin TryPrompt
	waitPrompt expectLog cmd writeMem prepareDevice sendReloadCmd cancelReload writeStartupRouting writeStartupIPTables
	writeStartup putScp findIPTablesRestoreCmd Run doCmd commit httpPrefixGetLog httpGet sendRequest getRawJSON getAPIKey
	checkHA login LoginEnable loginEnable setTerminal logVersion checkDeviceName checkBanner getDeviceRoutes
	getDeviceIPTables TryReachableHTTPLogin`) {
		deviceIO[n] = true
	}
}

func unexported(name string) bool {
	return name != "" && name[0] >= 'a' && name[0] <= 'z'
}

// inlinable resolves a call to a helper that is to be inlined: a named closure of the function
// being walked or an unexported function / method of the package, whose name is not part of the
// vocabulary (interesting) -- by what the callee IS, not by its spelling.
func (w *walker) inlinable(call *ast.CallExpr) (*ast.FuncType, *ast.BlockStmt, *ast.FuncDecl, string) {
	name, prim := calleeName(call.Fun)
	if prim || name == "" || interesting[name] || !unexported(name) {
		return nil, nil, nil, ""
	}
	for _, n := range inlineStack {
		if n == name {
			return nil, nil, nil, "" // recursion
		}
	}
	if id, ok := call.Fun.(*ast.Ident); ok {
		if fl := w.closures[id.Name]; fl != nil {
			return fl.Type, fl.Body, nil, name
		}
		if fd := pkgDecls[name]; fd != nil && fd.Recv == nil && fd.Body != nil {
			return fd.Type, fd.Body, fd, name
		}
		return nil, nil, nil, ""
	}
	if sel, ok := call.Fun.(*ast.SelectorExpr); ok {
		if x, ok := sel.X.(*ast.Ident); ok && x.Obj == nil {
			return nil, nil, nil, "" // pkg.f of another package
		}
		if fd := pkgDecls[name]; fd != nil && fd.Recv != nil && fd.Body != nil {
			return fd.Type, fd.Body, fd, name
		}
	}
	return nil, nil, nil, ""
}

// inline walks the body of the helper in place of the call.  Constant string arguments are
// bound to the parameters (so that a literal assembled from a parameter folds again).
func (w *walker) inline(ft *ast.FuncType, body *ast.BlockStmt, fd *ast.FuncDecl, name string, args []ast.Expr, ctx []string, skipTail bool) bool {
	var bound []*ast.Object
	i := 0
	if ft.Params != nil {
		for _, f := range ft.Params.List {
			for _, n := range f.Names {
				if i < len(args) && n.Obj != nil {
					if s, ok := constString(args[i]); ok {
						constBind[n.Obj] = s
						bound = append(bound, n.Obj)
					}
				}
				i++
			}
		}
	}
	savedCur, savedFt, savedSkip := cur, w.ftype, w.skipReturn
	if fd != nil {
		cur = analyse(fd)
	}
	w.ftype = ft
	w.skipReturn = nil
	if skipTail && len(body.List) > 0 {
		if r, ok := body.List[len(body.List)-1].(*ast.ReturnStmt); ok {
			w.skipReturn = r
		}
	}
	inlineStack = append(inlineStack, name)
	mark := len(w.sites)
	w.list(body.List, ctx, tFunc)
	inlineStack = inlineStack[:len(inlineStack)-1]
	// a helper that does not talk to the device is transparent (as it was when only listed
	// callees were recorded): none of its sites count
	talks := false
	for _, st := range w.sites[mark:] {
		if deviceIO[st.callee] {
			talks = true
		}
	}
	if !talks {
		w.sites = w.sites[:mark]
	}
	cur, w.ftype, w.skipReturn = savedCur, savedFt, savedSkip
	for _, o := range bound {
		delete(constBind, o)
	}
	return talks
}

// propagation: `if err != nil { return ..., err }` for the variable err
func isPropagation(st ast.Stmt, errName string) bool {
	is, ok := st.(*ast.IfStmt)
	if !ok || is.Init != nil || is.Else != nil || len(is.Body.List) != 1 {
		return false
	}
	b, ok := is.Cond.(*ast.BinaryExpr)
	if !ok || b.Op != token.NEQ || !isNil(b.Y) {
		return false
	}
	id, ok := b.X.(*ast.Ident)
	if !ok || id.Name != errName {
		return false
	}
	r, ok := is.Body.List[0].(*ast.ReturnStmt)
	if !ok || len(r.Results) == 0 {
		return false
	}
	last, ok := r.Results[len(r.Results)-1].(*ast.Ident)
	return ok && last.Name == errName
}

// funcBody walks the body of a function literal.
func (w *walker) funcBody(fl *ast.FuncLit, ctx []string) {
	saved := w.ftype
	w.ftype = fl.Type
	w.block(fl.Body, ctx, tFunc)
	w.ftype = saved
}

// returnsError: the last result of the function being walked has type error.
func (w *walker) returnsError() bool {
	if w.ftype == nil || w.ftype.Results == nil || len(w.ftype.Results.List) == 0 {
		return false
	}
	l := w.ftype.Results.List
	id, ok := l[len(l)-1].Type.(*ast.Ident)
	return ok && id.Name == "error"
}

func (w *walker) add(callee string, lits []string, ctx []string) {
	w.sites = append(w.sites, site{callee, lits, append([]string(nil), ctx...)})
}

// constString folds a constant string expression ("a" + "b", parentheses).
func constString(e ast.Expr) (string, bool) {
	switch v := e.(type) {
	case *ast.BasicLit:
		if v.Kind == token.STRING {
			s, err := strconv.Unquote(v.Value)
			return s, err == nil
		}
	case *ast.ParenExpr:
		return constString(v.X)
	case *ast.Ident:
		if v.Obj != nil {
			if s, ok := constBind[v.Obj]; ok {
				return s, true
			}
			if vs, ok := v.Obj.Decl.(*ast.ValueSpec); ok && v.Obj.Kind == ast.Con {
				for i, n := range vs.Names {
					if n.Name == v.Name && i < len(vs.Values) {
						return constString(vs.Values[i]) // a named constant
					}
				}
			}
		}
	case *ast.BinaryExpr:
		if v.Op == token.ADD {
			a, ok1 := constString(v.X)
			b, ok2 := constString(v.Y)
			return a + b, ok1 && ok2
		}
	}
	return "", false
}

func litOf(e ast.Expr) string {
	if b, ok := e.(*ast.BinaryExpr); ok {
		if s, ok := constString(b); ok {
			return s
		}
	}
	if p, ok := e.(*ast.ParenExpr); ok {
		return litOf(p.X)
	}
	if id, ok := e.(*ast.Ident); ok {
		if s, ok := constString(id); ok {
			return s
		}
	}
	switch v := e.(type) {
	case *ast.BasicLit:
		if v.Kind == token.STRING {
			s, err := strconv.Unquote(v.Value)
			if err != nil {
				fail("cannot unquote %s", v.Value)
			}
			return s
		}
		return v.Value
	case *ast.Ident:
		if obj := cur.local(v); obj != nil {
			if d := cur.expandable(obj); d != nil && !cur.errorLike(obj) {
				return litOf(d) // a temporary stands for its definition
			}
			if cur.errorLike(obj) {
				return "err"
			}
			return "_"
		}
		if v.Name == "nil" || v.Name == "true" || v.Name == "false" {
			return v.Name
		}
	}
	return "_"
}

// ---- per-function facts about local variables ----

type fnInfo struct {
	fd         *ast.FuncDecl
	assigns    map[*ast.Object]int      // number of assignments (2 = "many": ++, range, &x)
	def        map[*ast.Object]ast.Expr // right-hand side of the defining `x := e` (1:1)
	nilcmp     map[*ast.Object]bool     // compared with nil somewhere
	lastOfCall map[*ast.Object]bool     // last left-hand side of an assignment from a call
	multiLast  map[*ast.Object]bool     // ... of a call with several results
	errType    map[*ast.Object]bool     // declared with type error
	closure    map[*ast.Object]bool     // bound to a function literal
	uses       map[*ast.Object]int      // occurrences other than as assignment target
	deref      map[*ast.Object]bool     // indexed, sliced, dereferenced, type-asserted or a field/method other than Error selected
	boolUse    map[*ast.Object]bool     // used as a condition or as operand of ! && ||
}

var cur *fnInfo

func (fi *fnInfo) local(id *ast.Ident) *ast.Object {
	if fi == nil || id.Obj == nil || id.Obj.Kind != ast.Var {
		return nil
	}
	p := id.Obj.Pos()
	if p < fi.fd.Pos() || p >= fi.fd.End() {
		return nil
	}
	return id.Obj
}

// errorLike: the variable holds the error result of a call (decided without type information:
// declared `error`, or last result of a call, compared with nil, and never used as anything but
// a value).
func (fi *fnInfo) errorLike(obj *ast.Object) bool {
	return fi.errType[obj] || fi.lastOfCall[obj] && !fi.deref[obj] && !fi.boolUse[obj] && fi.nilcmp[obj]
}

// expandable: a temporary in the sense of "inline temp": one assignment `x := e`, one use.
func (fi *fnInfo) expandable(obj *ast.Object) ast.Expr {
	if fi.assigns[obj] != 1 || fi.uses[obj] != 1 || fi.closure[obj] || fi.errType[obj] || fi.multiLast[obj] {
		return nil
	}
	return fi.def[obj]
}

func isNil(e ast.Expr) bool {
	id, ok := e.(*ast.Ident)
	return ok && id.Name == "nil" && id.Obj == nil
}

// ---- normal form of conditionals, applied to the syntax tree before it is walked ----

// canonChain: an if / else-if chain (also the one a tag switch is turned into) whose tests are
// `x == c` with one x and pairwise distinct constants c is a dispatch over exclusive cases: the
// order of the cases does not matter.  They are put in descending order of the constant.
func canonChain(head *ast.IfStmt) {
	var nodes []*ast.IfStmt
	for n := head; n != nil; {
		nodes = append(nodes, n)
		next, _ := n.Else.(*ast.IfStmt)
		n = next
	}
	if len(nodes) < 2 {
		return
	}
	subject := ""
	seen := map[string]bool{}
	for _, n := range nodes {
		b, ok := n.Cond.(*ast.BinaryExpr)
		if n.Init != nil || !ok || b.Op != token.EQL {
			return
		}
		lit, ok := b.Y.(*ast.BasicLit)
		if !ok || seen[lit.Value] {
			return
		}
		seen[lit.Value] = true
		x := src(b.X)
		if subject != "" && x != subject {
			return
		}
		subject = x
	}
	type arm struct {
		cond ast.Expr
		body *ast.BlockStmt
	}
	arms := make([]arm, len(nodes))
	for i, n := range nodes {
		arms[i] = arm{n.Cond, n.Body}
	}
	sort.SliceStable(arms, func(i, j int) bool {
		return arms[i].cond.(*ast.BinaryExpr).Y.(*ast.BasicLit).Value > arms[j].cond.(*ast.BinaryExpr).Y.(*ast.BasicLit).Value
	})
	for i, n := range nodes {
		n.Cond, n.Body = arms[i].cond, arms[i].body
	}
}

// normalizeIfs: exclusive chains in canonical order; `if a && b {T}` (no else) as
// `if a { if b {T} }`.
func normalizeIfs(body *ast.BlockStmt) {
	if body == nil {
		return
	}
	ast.Inspect(body, func(n ast.Node) bool {
		is, ok := n.(*ast.IfStmt)
		if !ok {
			return true
		}
		canonChain(is)
		for is.Else == nil {
			c := is.Cond
			for {
				if p, ok := c.(*ast.ParenExpr); ok {
					c = p.X
					continue
				}
				break
			}
			b, ok := c.(*ast.BinaryExpr)
			if !ok || b.Op != token.LAND {
				break
			}
			is.Cond = b.X
			is.Body = &ast.BlockStmt{List: []ast.Stmt{&ast.IfStmt{Cond: b.Y, Body: is.Body}}}
		}
		return true
	})
}

func analyse(fd *ast.FuncDecl) *fnInfo {
	normalizeIfs(fd.Body)
	fi := &fnInfo{fd: fd, assigns: map[*ast.Object]int{}, def: map[*ast.Object]ast.Expr{},
		nilcmp: map[*ast.Object]bool{}, lastOfCall: map[*ast.Object]bool{}, multiLast: map[*ast.Object]bool{},
		errType: map[*ast.Object]bool{}, closure: map[*ast.Object]bool{}, uses: map[*ast.Object]int{}, deref: map[*ast.Object]bool{}, boolUse: map[*ast.Object]bool{}}
	boolOf := func(e ast.Expr) {
		if id, ok := e.(*ast.Ident); ok {
			if obj := fi.local(id); obj != nil {
				fi.boolUse[obj] = true
			}
		}
	}
	target := map[*ast.Ident]bool{}
	derefOf := func(e ast.Expr) {
		if id, ok := e.(*ast.Ident); ok {
			if obj := fi.local(id); obj != nil {
				fi.deref[obj] = true
			}
		}
	}
	isErrorType := func(t ast.Expr) bool {
		id, ok := t.(*ast.Ident)
		return ok && id.Name == "error"
	}
	fields := func(fl *ast.FieldList) {
		if fl == nil {
			return
		}
		for _, f := range fl.List {
			for _, n := range f.Names {
				if n.Obj != nil && isErrorType(f.Type) {
					fi.errType[n.Obj] = true
				}
			}
		}
	}
	many := func(e ast.Expr) {
		if id, ok := e.(*ast.Ident); ok {
			if obj := fi.local(id); obj != nil {
				fi.assigns[obj] += 2
			}
		}
	}
	ast.Inspect(fd, func(n ast.Node) bool {
		switch v := n.(type) {
		case *ast.FuncType:
			fields(v.Params)
			fields(v.Results)
		case *ast.AssignStmt:
			for i, l := range v.Lhs {
				id, ok := l.(*ast.Ident)
				if !ok {
					continue
				}
				obj := fi.local(id)
				if obj == nil {
					continue
				}
				target[id] = true
				fi.assigns[obj]++
				if v.Tok != token.DEFINE && v.Tok != token.ASSIGN {
					fi.assigns[obj]++ // op=
				}
				if v.Tok == token.DEFINE && obj.Decl == ast.Node(v) && len(v.Lhs) == len(v.Rhs) {
					fi.def[obj] = v.Rhs[i]
					if _, ok := v.Rhs[i].(*ast.FuncLit); ok {
						fi.closure[obj] = true
					}
				}
				if len(v.Rhs) == 1 && i == len(v.Lhs)-1 {
					if _, ok := v.Rhs[0].(*ast.CallExpr); ok {
						fi.lastOfCall[obj] = true
						if len(v.Lhs) > 1 {
							fi.multiLast[obj] = true
						}
					}
				}
			}
		case *ast.ValueSpec:
			for i, id := range v.Names {
				obj := fi.local(id)
				if obj == nil {
					continue
				}
				target[id] = true
				if v.Type != nil && isErrorType(v.Type) {
					fi.errType[obj] = true
				}
				if len(v.Values) == len(v.Names) {
					fi.assigns[obj]++
					fi.def[obj] = v.Values[i]
					if _, ok := v.Values[i].(*ast.FuncLit); ok {
						fi.closure[obj] = true
					}
				} else if len(v.Values) != 0 {
					fi.assigns[obj] += 2
				}
			}
		case *ast.Field:
			for _, id := range v.Names {
				target[id] = true
			}
		case *ast.Ident:
			if !target[v] {
				if obj := fi.local(v); obj != nil {
					fi.uses[obj]++
				}
			}
		case *ast.IndexExpr:
			derefOf(v.X)
		case *ast.SliceExpr:
			derefOf(v.X)
		case *ast.StarExpr:
			derefOf(v.X)
		case *ast.TypeAssertExpr:
			derefOf(v.X)
		case *ast.SelectorExpr:
			if v.Sel.Name != "Error" {
				derefOf(v.X)
			}
		case *ast.IncDecStmt:
			many(v.X)
		case *ast.RangeStmt:
			many(v.Key)
			many(v.Value)
		case *ast.IfStmt:
			boolOf(v.Cond)
		case *ast.ForStmt:
			boolOf(v.Cond)
		case *ast.UnaryExpr:
			if v.Op == token.AND {
				many(v.X)
			}
			if v.Op == token.NOT {
				boolOf(v.X)
			}
		case *ast.BinaryExpr:
			if v.Op == token.LAND || v.Op == token.LOR {
				boolOf(v.X)
				boolOf(v.Y)
			}
			if v.Op == token.EQL || v.Op == token.NEQ {
				for _, pair := range [][2]ast.Expr{{v.X, v.Y}, {v.Y, v.X}} {
					if id, ok := pair[0].(*ast.Ident); ok && isNil(pair[1]) {
						if obj := fi.local(id); obj != nil {
							fi.nilcmp[obj] = true
						}
					}
				}
			}
		}
		return true
	})
	// `var x T` followed by assignments: never expandable
	return fi
}

// describe names a local variable by where its value comes from, never by its identifier:
// receiver $r, parameter $p<i>, named result $res<i>, parameter of a function literal $c<i>,
// `x, y := f(..)` $f / $f.2 for a recorded callee f (last name), `v, ok := e.(T)` $assert.2,
// `v, ok := m[k]` $index.2, range variables $range.1 / $range.2, anything else $v / $v.2
// (pure helpers, constants, zero values: how a value is put together does not matter).
// For a variable assigned several times the first definition counts.
func (fi *fnInfo) describe(obj *ast.Object) string {
	flat := func(fl *ast.FieldList, f *ast.Field, id string) int {
		if fl == nil {
			return -1
		}
		i := 0
		for _, g := range fl.List {
			if len(g.Names) == 0 {
				i++
				continue
			}
			for _, n := range g.Names {
				i++
				if g == f && n.Name == id {
					return i
				}
			}
		}
		return -1
	}
	rhs := func(lhs int, nl int, r []ast.Expr) string {
		if len(r) == 0 {
			return "$v"
		}
		e, k := r[0], lhs+1
		if len(r) == nl {
			e, k = r[lhs], 0
		}
		for {
			if p, ok := e.(*ast.ParenExpr); ok {
				e = p.X
				continue
			}
			break
		}
		// only callees of the whitelist (device I/O, the module's own functions) give their name:
		// how a value is put together by pure helpers (Sprintf or +, Itoa, TrimSpace, a constant
		// or a zero value) is not part of the normal form
		name := "$v"
		switch v := e.(type) {
		case *ast.CallExpr:
			if n, prim := calleeName(v.Fun); n != "" && (interesting[n] || prim) {
				name = "$" + n
			}
		case *ast.TypeAssertExpr:
			name = "$assert"
		case *ast.IndexExpr:
			if nl > 1 && len(r) == 1 {
				name = "$index"
			}
		case *ast.UnaryExpr:
			if v.Op == token.RANGE {
				name = "$range"
				k = lhs + 1
			}
		}
		if k > 0 && (nl > 1 || name == "$range") {
			name += "." + strconv.Itoa(k)
		}
		return name
	}
	switch d := obj.Decl.(type) {
	case *ast.Field:
		if i := flat(fi.fd.Recv, d, obj.Name); i > 0 {
			return "$r"
		}
		if i := flat(fi.fd.Type.Params, d, obj.Name); i > 0 {
			return "$p" + strconv.Itoa(i)
		}
		if i := flat(fi.fd.Type.Results, d, obj.Name); i > 0 {
			return "$res" + strconv.Itoa(i)
		}
		name := "$c"
		ast.Inspect(fi.fd, func(n ast.Node) bool {
			if fl, ok := n.(*ast.FuncLit); ok {
				if i := flat(fl.Type.Params, d, obj.Name); i > 0 {
					name = "$c" + strconv.Itoa(i)
				}
				if i := flat(fl.Type.Results, d, obj.Name); i > 0 {
					name = "$cres" + strconv.Itoa(i)
				}
			}
			return true
		})
		return name
	case *ast.AssignStmt:
		for i, l := range d.Lhs {
			if id, ok := l.(*ast.Ident); ok && id.Obj == obj {
				return rhs(i, len(d.Lhs), d.Rhs)
			}
		}
	case *ast.ValueSpec:
		for i, id := range d.Names {
			if id.Obj == obj {
				return rhs(i, len(d.Names), d.Values)
			}
		}
	}
	return "$v"
}

// ---- normal form of a condition ----

type normer struct {
	fi    *fnInfo
	depth int
}

func (n *normer) list(l []ast.Expr) []ast.Expr {
	if l == nil {
		return nil
	}
	r := make([]ast.Expr, len(l))
	for i, e := range l {
		r[i] = n.rw(e)
	}
	return r
}

func (n *normer) rw(e ast.Expr) ast.Expr {
	switch v := e.(type) {
	case nil:
		return nil
	case *ast.Ident:
		obj := n.fi.local(v)
		if obj == nil || n.fi.closure[obj] {
			return &ast.Ident{Name: v.Name}
		}
		if n.fi.errorLike(obj) {
			return &ast.Ident{Name: "err"}
		}
		if d := n.fi.expandable(obj); d != nil && n.depth < 8 {
			n.depth++
			r := n.rw(d)
			n.depth--
			switch r.(type) {
			case *ast.BinaryExpr, *ast.UnaryExpr, *ast.StarExpr:
				r = &ast.ParenExpr{X: r}
			}
			return r
		}
		return &ast.Ident{Name: n.fi.describe(obj)}
	case *ast.BasicLit:
		if s, ok := constString(v); ok {
			return &ast.BasicLit{Kind: token.STRING, Value: strconv.Quote(s)} // one spelling for `..` and ".."
		}
		return &ast.BasicLit{Kind: v.Kind, Value: v.Value}
	case *ast.BinaryExpr:
		x := n.rw(v.X)
		y := n.rw(v.Y)
		if v.Op == token.ADD {
			if a, ok := constString(x); ok {
				if b, ok := constString(y); ok {
					return &ast.BasicLit{Kind: token.STRING, Value: strconv.Quote(a + b)}
				}
			}
		}
		return &ast.BinaryExpr{X: x, Op: v.Op, Y: y}
	case *ast.UnaryExpr:
		return &ast.UnaryExpr{Op: v.Op, X: n.rw(v.X)}
	case *ast.ParenExpr:
		x := n.rw(v.X)
		if _, ok := x.(*ast.ParenExpr); ok {
			return x
		}
		return &ast.ParenExpr{X: x}
	case *ast.SelectorExpr:
		return &ast.SelectorExpr{X: n.rw(v.X), Sel: &ast.Ident{Name: v.Sel.Name}}
	case *ast.IndexExpr:
		x := n.rw(v.X)
		return &ast.IndexExpr{X: x, Index: n.rw(v.Index)}
	case *ast.SliceExpr:
		x := n.rw(v.X)
		lo := n.rw(v.Low)
		hi := n.rw(v.High)
		return &ast.SliceExpr{X: x, Low: lo, High: hi, Max: n.rw(v.Max), Slice3: v.Slice3}
	case *ast.StarExpr:
		return &ast.StarExpr{X: n.rw(v.X)}
	case *ast.TypeAssertExpr:
		return &ast.TypeAssertExpr{X: n.rw(v.X), Type: v.Type}
	case *ast.CallExpr:
		f := n.rw(v.Fun)
		return &ast.CallExpr{Fun: f, Args: n.list(v.Args), Ellipsis: v.Ellipsis}
	case *ast.KeyValueExpr:
		return &ast.KeyValueExpr{Key: v.Key, Value: n.rw(v.Value)}
	case *ast.CompositeLit:
		return &ast.CompositeLit{Type: v.Type, Elts: n.list(v.Elts)}
	case *ast.FuncLit:
		return &ast.Ident{Name: "func"}
	case *ast.ArrayType, *ast.MapType, *ast.StructType, *ast.FuncType, *ast.InterfaceType:
		return v
	}
	fail("condition: expression %T not understood at %s", e, fset.Position(e.Pos()))
	return nil
}

// cond gives the normal form of a condition and whether the source tests its negation.
func cond(e ast.Expr) (label string, neg bool) {
	n := &normer{fi: cur}
	// polarity first (so that numbering follows the printed text), then substitution,
	// then polarity again (a substituted definition may itself be a negation)
	strip := func(e ast.Expr) ast.Expr {
		for {
			switch v := e.(type) {
			case *ast.ParenExpr:
				e = v.X
				continue
			case *ast.UnaryExpr:
				if v.Op == token.NOT {
					neg = !neg
					e = v.X
					continue
				}
			case *ast.BinaryExpr:
				if v.Op == token.EQL {
					neg = !neg
					return &ast.BinaryExpr{X: v.X, Op: token.NEQ, Y: v.Y}
				}
			}
			return e
		}
	}
	e = strip(n.rw(strip(e)))
	return src(e), neg
}

var explain = flag.Bool("explain", false, "print source condition -> normal form on stderr")

func calleeName(fun ast.Expr) (name string, prim bool) {
	switch f := fun.(type) {
	case *ast.Ident:
		return f.Name, false
	case *ast.SelectorExpr:
		// c.con.Send / c.con.Expect : primitives of the expect library
		if inner, ok := f.X.(*ast.SelectorExpr); ok && inner.Sel.Name == "con" {
			return f.Sel.Name, true
		}
		if inner, ok := f.X.(*ast.SelectorExpr); ok && inner.Sel.Name == "client" {
			return f.Sel.Name, true
		}
		return f.Sel.Name, false
	case *ast.ParenExpr:
		return calleeName(f.X)
	case *ast.IndexExpr:
		return calleeName(f.X)
	}
	return "", false
}

// expr records the interesting calls inside an expression, arguments first.
func (w *walker) expr(e ast.Expr, ctx []string) {
	if e == nil {
		return
	}
	switch v := e.(type) {
	case *ast.CallExpr:
		if fl, ok := v.Fun.(*ast.FuncLit); ok {
			// immediately invoked function literal: inline
			for _, a := range v.Args {
				w.expr(a, ctx)
			}
			w.funcBody(fl, ctx)
			return
		}
		var funcArgs []*ast.FuncLit
		for _, a := range v.Args {
			if fl, ok := a.(*ast.FuncLit); ok {
				funcArgs = append(funcArgs, fl)
				continue
			}
			w.expr(a, ctx)
		}
		if sel, ok := v.Fun.(*ast.SelectorExpr); ok {
			w.expr(sel.X, ctx)
		}
		name, prim := calleeName(v.Fun)
		if prim {
			switch name {
			case "Send":
				w.add("<send>", argLits(v.Args), ctx)
			case "Expect":
				w.add("<recv>", nil, ctx)
			case "Get", "Do", "PostForm":
				w.add("<send>", []string{"_"}, ctx)
				w.add("<recv>", nil, ctx)
			default:
				fail("unknown primitive %s at %s", name, fset.Position(v.Pos()))
			}
		} else if interesting[name] {
			w.add(name, argLits(v.Args), ctx)
		} else if ft, body, fd, n := w.inlinable(v); body != nil {
			w.inline(ft, body, fd, n, v.Args, ctx, false)
		}
		for _, fl := range funcArgs {
			w.funcBody(fl, append(ctx, "func"))
		}
	case *ast.FuncLit:
		// a function literal in value position that is not bound to a name: inline under "func"
		w.funcBody(v, append(ctx, "func"))
	case *ast.BinaryExpr:
		w.expr(v.X, ctx)
		w.expr(v.Y, ctx)
	case *ast.UnaryExpr:
		w.expr(v.X, ctx)
	case *ast.ParenExpr:
		w.expr(v.X, ctx)
	case *ast.SelectorExpr:
		w.expr(v.X, ctx)
	case *ast.IndexExpr:
		w.expr(v.X, ctx)
		w.expr(v.Index, ctx)
	case *ast.SliceExpr:
		w.expr(v.X, ctx)
		w.expr(v.Low, ctx)
		w.expr(v.High, ctx)
	case *ast.StarExpr:
		w.expr(v.X, ctx)
	case *ast.TypeAssertExpr:
		w.expr(v.X, ctx)
	case *ast.KeyValueExpr:
		w.expr(v.Value, ctx)
	case *ast.CompositeLit:
		for _, el := range v.Elts {
			w.expr(el, ctx)
		}
	case *ast.Ident, *ast.BasicLit, *ast.ArrayType, *ast.MapType, *ast.StructType, *ast.FuncType, *ast.InterfaceType:
	default:
		fail("expression %T not understood at %s", e, fset.Position(e.Pos()))
	}
}

func argLits(args []ast.Expr) []string {
	var l []string
	for _, a := range args {
		if _, ok := a.(*ast.FuncLit); ok {
			continue
		}
		l = append(l, litOf(a))
	}
	return l
}

// tail position: the statement is the last one of a function body (falling through returns)
// or of a loop body (falling through continues).
type tail int

const (
	tNone tail = iota
	tFunc
	tLoop
)

func (w *walker) block(b *ast.BlockStmt, ctx []string, tl tail) {
	if b == nil {
		return
	}
	w.list(b.List, ctx, tl)
}

// emptyBranch: the branch is absent, or records no site and does not leave.
func (w *walker) emptyBranch(st ast.Stmt) bool {
	switch v := st.(type) {
	case nil:
		return true
	case *ast.BlockStmt:
		if v == nil || len(v.List) == 0 {
			return true
		}
	case *ast.IfStmt:
		if v == nil {
			return true
		}
	}
	if terminates(st) {
		return false
	}
	cl := map[string]*ast.FuncLit{}
	for k, v := range w.closures {
		cl[k] = v
	}
	probe := &walker{closures: cl, noCondSites: w.noCondSites, ftype: w.ftype}
	ex := *explain
	*explain = false
	probe.branch(st, nil, tNone)
	*explain = ex
	return len(probe.sites) == 0 && len(probe.closures) == len(w.closures)
}

// switchToIf: the cases of a switch as an if / else-if chain (default last), exclusive constant
// cases in canonical order; nil if there is nothing to walk.  The tag has been walked.
func (w *walker) switchToIf(v *ast.SwitchStmt) ast.Stmt {
	var def *ast.CaseClause
	var chain, last *ast.IfStmt
	for _, cc := range v.Body.List {
		c := cc.(*ast.CaseClause)
		if c.List == nil {
			def = c
			continue
		}
		var label ast.Expr
		for _, e := range c.List {
			alt := e
			if v.Tag != nil {
				alt = &ast.BinaryExpr{X: v.Tag, Op: token.EQL, Y: e}
			}
			if label == nil {
				label = alt
			} else {
				label = &ast.BinaryExpr{X: label, Op: token.LOR, Y: alt}
			}
		}
		is := &ast.IfStmt{Cond: label, Body: &ast.BlockStmt{List: c.Body}}
		if w.noCondSites == nil {
			w.noCondSites = map[*ast.IfStmt]bool{}
		}
		w.noCondSites[is] = true
		if chain == nil {
			chain = is
		} else {
			last.Else = is
		}
		last = is
	}
	if chain == nil {
		if def != nil {
			return &ast.BlockStmt{List: def.Body}
		}
		return nil
	}
	if def != nil {
		last.Else = &ast.BlockStmt{List: def.Body}
	}
	canonChain(chain)
	return chain
}

// list walks a statement list.  `if c {T}; K...` where T always leaves is `if c {T} else {K...}`.
func (w *walker) list(l []ast.Stmt, ctx []string, tl tail) {
	for len(l) > 0 {
		if _, ok := l[len(l)-1].(*ast.EmptyStmt); !ok {
			break
		}
		l = l[:len(l)-1]
	}
	for i, st := range l {
		last := i == len(l)-1
		if sw, ok := st.(*ast.SwitchStmt); ok && sw.Init == nil {
			// a switch is its if / else-if chain (so that what follows it is treated alike)
			if sw.Tag != nil {
				w.expr(sw.Tag, ctx)
			}
			st = w.switchToIf(sw)
			if st == nil {
				continue
			}
		}
		if is, ok := st.(*ast.IfStmt); ok && !last {
			rest := &ast.BlockStmt{List: l[i+1:]}
			if w.emptyBranch(is.Else) && terminates(is.Body) {
				w.ifStmt(is, is.Body, rest, ctx, tl)
				return
			}
			if w.emptyBranch(is.Body) && terminates(is.Else) {
				w.ifStmt(is, rest, is.Else, ctx, tl)
				return
			}
			// one branch leaves, the other does not: what follows belongs to the other branch
			// (`switch … {case a: return x}; return y` = the if chain with `return y` as its else)
			if terminates(is.Body) && !terminates(is.Else) {
				w.ifStmt(is, is.Body, &ast.BlockStmt{List: append([]ast.Stmt{is.Else}, l[i+1:]...)}, ctx, tl)
				return
			}
			if terminates(is.Else) && !terminates(is.Body) {
				w.ifStmt(is, &ast.BlockStmt{List: append([]ast.Stmt{is.Body}, l[i+1:]...)}, is.Else, ctx, tl)
				return
			}
		}
		// `x, err := helper(..); if err != nil { return .., err }`: the error returns of the
		// inlined helper are this function's, its final return and the propagation are not sites
		if as, ok := st.(*ast.AssignStmt); ok && !last && len(as.Rhs) == 1 && len(as.Lhs) >= 1 {
			if call, ok := as.Rhs[0].(*ast.CallExpr); ok {
				if id, ok := as.Lhs[len(as.Lhs)-1].(*ast.Ident); ok && isPropagation(l[i+1], id.Name) {
					if ft, body, fd, n := w.inlinable(call); body != nil {
						mark := len(w.sites)
						for _, a := range call.Args {
							w.expr(a, ctx)
						}
						if w.inline(ft, body, fd, n, call.Args, ctx, true) {
							w.list(l[i+2:], ctx, tl)
							return
						}
						w.sites = w.sites[:mark]
					}
				}
			}
		}
		t := tNone
		if last {
			t = tl
		}
		w.stmt(st, ctx, t)
		if terminates(st) {
			return // what follows is unreachable
		}
	}
}

// terminates: the statement always leaves the enclosing statement list.
func terminates(st ast.Stmt) bool {
	switch v := st.(type) {
	case nil:
		return false
	case *ast.BlockStmt:
		if v == nil {
			return false
		}
		for _, st := range v.List {
			if terminates(st) {
				return true // (what follows is unreachable)
			}
		}
		return false
	case *ast.ReturnStmt:
		return true
	case *ast.BranchStmt:
		return v.Tok == token.CONTINUE || v.Tok == token.BREAK
	case *ast.ExprStmt:
		if c, ok := v.X.(*ast.CallExpr); ok {
			name, prim := calleeName(c.Fun)
			return !prim && (name == "Abort" || name == "panic")
		}
	case *ast.IfStmt:
		if v == nil {
			return false
		}
		return v.Else != nil && terminates(v.Body) && terminates(v.Else)
	case *ast.LabeledStmt:
		return terminates(v.Stmt)
	}
	return false
}

func (w *walker) branch(st ast.Stmt, ctx []string, tl tail) {
	switch e := st.(type) {
	case nil:
	case *ast.BlockStmt:
		if e != nil {
			w.list(e.List, ctx, tl)
		}
	case *ast.IfStmt:
		if e != nil {
			w.ifStmt(e, e.Body, e.Else, ctx, tl)
		}
	default:
		fail("else %T", e)
	}
}

// ifStmt records `if v.Cond then else els` in normal form: the branch taken when the positive
// condition holds under "if:", the other under "else:"; if the positive branch always leaves
// (in tail position every branch does) the negative branch is recorded flat after it; if only
// the negative branch leaves, it comes first and the positive branch is flat.
func (w *walker) ifStmt(v *ast.IfStmt, then, els ast.Stmt, ctx []string, tl tail) {
	if v.Init != nil {
		w.stmt(v.Init, ctx, tNone)
	}
	if !w.noCondSites[v] {
		w.expr(v.Cond, ctx)
	}
	c, neg := cond(v.Cond)
	if *explain {
		fmt.Fprintf(os.Stderr, "%s: %s  =>  neg=%v %s\n", cur.fd.Name.Name, src(v.Cond), neg, c)
	}
	pos, negative := then, els
	if neg {
		pos, negative = negative, pos
	}
	if w.emptyBranch(pos) {
		pos = nil
	}
	if w.emptyBranch(negative) {
		negative = nil
	}
	lp := terminates(pos) || tl != tNone
	ln := terminates(negative) || tl != tNone
	ifc := append(ctx[:len(ctx):len(ctx)], "if:"+c)
	elc := append(ctx[:len(ctx):len(ctx)], "else:"+c)
	switch {
	case lp:
		w.branch(pos, ifc, tl)
		w.branch(negative, ctx, tl)
	case ln:
		w.branch(negative, elc, tl)
		w.branch(pos, ctx, tl)
	default:
		w.branch(pos, ifc, tl)
		w.branch(negative, elc, tl)
	}
}

func (w *walker) stmt(st ast.Stmt, ctx []string, tl tail) {
	switch v := st.(type) {
	case *ast.ExprStmt:
		w.expr(v.X, ctx)
	case *ast.AssignStmt:
		if len(v.Rhs) == 1 && len(v.Lhs) == 1 {
			if fl, ok := v.Rhs[0].(*ast.FuncLit); ok {
				if id, ok := v.Lhs[0].(*ast.Ident); ok {
					w.closures[id.Name] = fl
					return
				}
			}
		}
		for _, r := range v.Rhs {
			w.expr(r, ctx)
		}
	case *ast.DeclStmt:
		gd, ok := v.Decl.(*ast.GenDecl)
		if !ok {
			fail("decl %T", v.Decl)
		}
		for _, sp := range gd.Specs {
			if vs, ok := sp.(*ast.ValueSpec); ok {
				for _, val := range vs.Values {
					w.expr(val, ctx)
				}
			}
		}
	case *ast.IfStmt:
		w.ifStmt(v, v.Body, v.Else, ctx, tl)
	case *ast.ForStmt:
		if v.Init != nil {
			w.stmt(v.Init, ctx, tNone)
		}
		lc := append(ctx, "loop")
		w.expr(v.Cond, lc)
		w.block(v.Body, lc, tLoop)
		if v.Post != nil {
			w.stmt(v.Post, lc, tNone)
		}
	case *ast.RangeStmt:
		w.expr(v.X, ctx)
		w.block(v.Body, append(ctx, "loop"), tLoop)
	case *ast.ReturnStmt:
		if len(v.Results) == 0 && tl == tFunc {
			return // falling off the end of the function: the same
		}
		if v == w.skipReturn {
			return // final return of an inlined helper whose caller propagates the error
		}
		if len(v.Results) == 1 {
			if call, ok := v.Results[0].(*ast.CallExpr); ok {
				if ft, body, fd, n := w.inlinable(call); body != nil {
					// `return helper(..)`: the helper's returns are this function's
					mark := len(w.sites)
					for _, a := range call.Args {
						w.expr(a, ctx)
					}
					if w.inline(ft, body, fd, n, call.Args, ctx, false) {
						return
					}
					w.sites = w.sites[:mark] // a helper that does not talk to the device: an ordinary return
				}
			}
		}
		var lits []string
		for i, r := range v.Results {
			w.expr(r, ctx)
			l := litOf(r)
			if id, ok := r.(*ast.Ident); ok && i == len(v.Results)-1 && cur.local(id) != nil && w.returnsError() {
				if obj := cur.local(id); cur.expandable(obj) == nil || cur.errorLike(obj) {
					l = "err" // a local variable returned as the error result, whatever its name
				}
			}
			lits = append(lits, l)
		}
		w.add("return", lits, ctx)
	case *ast.DeferStmt:
		w.expr(v.Call, append(ctx, "defer"))
	case *ast.BranchStmt:
		switch v.Tok {
		case token.CONTINUE:
			if tl != tLoop { // at the end of a loop body: the same as falling through
				w.add("continue", nil, ctx)
			}
		case token.BREAK:
			w.add("break", nil, ctx)
		default:
			fail("branch %s at %s", v.Tok, fset.Position(v.Pos()))
		}
	case *ast.SwitchStmt:
		if v.Init != nil {
			w.stmt(v.Init, ctx, tNone)
		}
		if v.Tag != nil {
			w.expr(v.Tag, ctx)
		}
		st2 := w.switchToIf(v)
		if st2 != nil {
			w.stmt(st2, ctx, tl)
		}
	case *ast.BlockStmt:
		w.block(v, ctx, tl)
	case *ast.IncDecStmt:
		w.expr(v.X, ctx)
	case *ast.LabeledStmt:
		w.stmt(v.Stmt, ctx, tl)
	case *ast.EmptyStmt:
	default:
		fail("statement %T not understood at %s", st, fset.Position(st.Pos()))
	}
}

func leanStr(s string) string {
	var b strings.Builder
	b.WriteByte('"')
	for _, r := range s {
		switch {
		case r == '"':
			b.WriteString("\\\"")
		case r == '\\':
			b.WriteString("\\\\")
		case r == '\n':
			b.WriteString("\\n")
		case r == '\t':
			b.WriteString("\\t")
		case r == '\r':
			b.WriteString("\\r")
		case r < 0x20 || r == 0x7f:
			fmt.Fprintf(&b, "\\x%02x", r)
		default:
			b.WriteRune(r)
		}
	}
	b.WriteByte('"')
	return b.String()
}

func leanList(l []string) string {
	q := make([]string, len(l))
	for i, s := range l {
		q[i] = leanStr(s)
	}
	return "[" + strings.Join(q, ", ") + "]"
}

func main() {
	repo := flag.String("repo", "/repo", "repository root")
	out := flag.String("out", "", "Lean output file")
	flag.Parse()
	var b strings.Builder
	b.WriteString("/- GENERATED by translate/skeleton from the working tree of the repository; do not edit. -/\n")
	b.WriteString("import NA.Model.Sess\nnamespace NA.Gen.Skel\nopen NA.Sess\n\n")
	var names []string
	for _, wf := range wanted {
		path := filepath.Join(*repo, "go", wf.file)
		f, err := parser.ParseFile(fset, path, nil, 0)
		if err != nil {
			fail("%v", err)
		}
		// every function of the package (all its files): a function may move to another file
		decls := map[string]*ast.FuncDecl{}
		dup := map[string]bool{}
		files, _ := filepath.Glob(filepath.Join(filepath.Dir(path), "*.go"))
		sort.Strings(files)
		for _, fn := range files {
			if strings.HasSuffix(fn, "_test.go") {
				continue
			}
			pf := f
			if fn != path {
				var err error
				if pf, err = parser.ParseFile(fset, fn, nil, 0); err != nil {
					fail("%v", err)
				}
			}
			for _, d := range pf.Decls {
				if fd, ok := d.(*ast.FuncDecl); ok {
					if _, twice := decls[fd.Name.Name]; twice {
						dup[fd.Name.Name] = true
					}
					decls[fd.Name.Name] = fd
				}
			}
		}
		for n := range dup {
			delete(decls, n) // two methods of one name: not resolved by name
		}
		pkgDecls = decls
		done := map[string][]site{}
		var get func(name string) []site
		get = func(name string) []site {
			if s, ok := done[name]; ok {
				return s
			}
			outer, inner, isClosure := strings.Cut(name, "$")
			fd := decls[outer]
			if fd == nil || fd.Body == nil {
				// not there (renamed, merged into its callers, ...): no fact under this name; what
				// it did shows in the skeletons of its callers
				done[outer] = nil
				return nil
			}
			cur = analyse(fd)
			w := &walker{closures: map[string]*ast.FuncLit{}, ftype: fd.Type}
			w.block(fd.Body, nil, tFunc)
			done[outer] = w.sites
			if w.sites == nil {
				done[outer] = []site{}
			}
			var cn []string
			for n := range w.closures {
				cn = append(cn, n)
			}
			sort.Strings(cn)
			for _, n := range cn {
				cw := &walker{closures: map[string]*ast.FuncLit{}, ftype: w.closures[n].Type}
				cw.block(w.closures[n].Body, nil, tFunc)
				done[outer+"$"+n] = cw.sites
				if cw.sites == nil {
					done[outer+"$"+n] = []site{}
				}
			}
			_, _ = inner, isClosure
			return done[name]
		}
		for _, fn := range wf.funcs {
			sites := get(fn)
			if sites == nil {
				continue
			}
			lname := wf.pkg + "_" + strings.ReplaceAll(fn, "$", "_")
			names = append(names, lname)
			fmt.Fprintf(&b, "def %s : List Site := [\n", lname)
			for i, s := range sites {
				sep := ","
				if i == len(sites)-1 {
					sep = ""
				}
				fmt.Fprintf(&b, "  ⟨%s, %s, %s⟩%s\n", leanStr(s.callee), leanList(s.lits), leanList(s.ctx), sep)
			}
			b.WriteString("]\n\n")
		}
	}
	fmt.Fprintf(&b, "def allNames : List String := %s\n\n", leanList(names))
	b.WriteString("/-- every generated skeleton with its name -/\ndef all : List (String × List Site) := [\n")
	for i, n := range names {
		sep := ","
		if i == len(names)-1 {
			sep = ""
		}
		fmt.Fprintf(&b, "  (%s, %s)%s\n", leanStr(n), n, sep)
	}
	b.WriteString("]\n\nend NA.Gen.Skel\n")
	if *out == "" {
		fmt.Print(b.String())
		return
	}
	os.MkdirAll(filepath.Dir(*out), 0755)
	// write only when changed, so that lake does not rebuild needlessly
	if old, err := os.ReadFile(*out); err == nil && string(old) == b.String() {
		return
	}
	if err := os.WriteFile(*out, []byte(b.String()), 0644); err != nil {
		fail("%v", err)
	}
}

func contains(l []string, s string) bool {
	for _, x := range l {
		if x == s {
			return true
		}
	}
	return false
}
