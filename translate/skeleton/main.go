// skeleton: T-gen for C09.  Reads chosen functions of /repo/go with go/ast and writes, per
// function, the ordered list of call sites (callee, literal string arguments, enclosing
// constructs: "defer", "loop", "func", "if:<cond>", "else:<cond>") as Lean data
// (lean/NA/Gen/Skel.lean).  The Lean session programs of NA/Model/Apply*.lean must have
// exactly these skeletons (theorems by `decide` in NA/Props/C09.lean).
//
// A construct the translator does not understand is an error (exit 1), never skipped.
package main

import (
	"bytes"
	"flag"
	"fmt"
	"go/ast"
	"go/parser"
	"go/printer"
	"go/token"
	"os"
	"path/filepath"
	"sort"
	"strconv"
	"strings"
)

type site struct {
	callee string
	lits   []string
	ctx    []string
}

// functions of interest: file -> names ("recv.name" is not needed: names are unique per file;
// "outer$closure" names a function literal assigned to a variable inside outer).
var wanted = []struct {
	file  string
	pkg   string
	funcs []string
}{
	{"pkg/console/console.go", "console", []string{"Send", "SendCmd", "IssueCmd", "GetCmdOutput", "GetOutput",
		"waitPrompt", "WaitShort", "WaitLogin", "expectLog", "StripEcho", "StripStdPrompt", "Close"}},
	{"pkg/errlog/abort.go", "errlog", []string{"HandleAbort", "Abort"}},
	{"pkg/cisco/device.go", "cisco", []string{"LoginEnable", "LoginEnable$waitPrompt"}},
	{"pkg/httpdevice/device.go", "httpdevice", []string{"TryReachableHTTPLogin"}},
	{"pkg/asa/device.go", "asa", []string{"ApplyCommands", "cmd", "cmd$check", "CloseConnection",
		"LoadDevice", "setTerminal", "logVersion", "checkDeviceName"}},
	{"pkg/ios/device.go", "ios", []string{"ApplyCommands", "cmd", "cmd$check", "writeMem", "prepareDevice",
		"scheduleReload", "extendReload", "sendReloadCmd", "cancelReload", "CloseConnection",
		"LoadDevice", "setTerminal", "logVersion", "checkDeviceName"}},
	{"pkg/linux/device.go", "linux", []string{"ApplyCommands", "cmd", "cmd$check", "writeStartupRouting",
		"writeStartupIPTables", "findIPTablesRestoreCmd", "writeStartup", "putScp", "CloseConnection",
		"LoadDevice", "loginEnable", "logVersion", "checkDeviceName", "checkBanner", "getDeviceRoutes", "getDeviceIPTables"}},
	{"pkg/panos/device.go", "panos", []string{"ApplyCommands", "ApplyCommands$doCmd", "ApplyCommands$commit",
		"httpPrefixGetLog", "httpGet", "CloseConnection", "LoadDevice", "getAPIKey", "checkHA"}},
	{"pkg/nsx/device.go", "nsx", []string{"ApplyCommands", "sendRequest", "CloseConnection", "LoadDevice", "getRawJSON"}},
	{"pkg/device/main.go", "device", []string{"ApproveOrCompare", "approve", "compare", "compareDevice", "applyCommands", "showCompareInfo"}},
	{"pkg/doapprove/main.go", "doapprove", []string{"Main"}},
	{"pkg/status/status.go", "status", []string{"SetApprove", "SetCompare"}},
}

// callees that are recorded (by the last name of the called expression)
var interesting = map[string]bool{}

func init() {
	for _, n := range strings.Fields(`
	Send SendCmd IssueCmd GetCmdOutput GetOutput waitPrompt WaitShort WaitLogin TryPrompt expectLog StripEcho StripStdPrompt Close
	Expect Abort Warning HandleAbort PrintWithMarker
	cmd check writeMem prepareDevice scheduleReload extendReload sendReloadCmd cancelReload stripReloadBanner
	writeStartupRouting writeStartupIPTables findIPTablesRestoreCmd writeStartup putScp Run
	doCmd commit httpPrefixGetLog httpGet sendRequest parseResponse Unmarshal Get Do PostForm ReadAll NewRequest
	approve compare compareDevice loadDevice getCompare applyCommands ApplyCommands GetErrUnmanaged HasChanges
	CloseConnection showCompareInfo ApproveOrCompare getRealDevice SetStderrLog getLogFH
	SetApprove SetCompare logHistory abort ReadFile SetLock openHistoryLog LoadConfig EvalSymlinks fileExists Read write
	recover panic
	LoginEnable loginEnable setTerminal logVersion checkDeviceName checkBanner getDeviceRoutes getDeviceIPTables
	TryReachableHTTPLogin login getAPIKey parseAPIKey checkHA parseResponseConfig getRawJSON ParseConfig
	GetSSHConn GetUserPass parseIPTables parseRoutes
	`) {
		interesting[n] = true
	}
}

var fset = token.NewFileSet()

func fail(format string, args ...any) {
	fmt.Fprintf(os.Stderr, "skeleton: "+format+"\n", args...)
	os.Exit(1)
}

func src(n ast.Node) string {
	var b bytes.Buffer
	printer.Fprint(&b, fset, n)
	s := b.String()
	s = strings.Join(strings.Fields(s), " ")
	return s
}

type walker struct {
	sites    []site
	closures map[string]*ast.FuncLit // named closures found (name -> literal)
}

func (w *walker) add(callee string, lits []string, ctx []string) {
	w.sites = append(w.sites, site{callee, lits, append([]string(nil), ctx...)})
}

func litOf(e ast.Expr) string {
	switch v := e.(type) {
	case *ast.BasicLit:
		if v.Kind == token.STRING {
			s, err := strconv.Unquote(v.Value)
			if err != nil {
				fail("cannot unquote %s", v.Value)
			}
			return s
		}
		return v.Value
	case *ast.Ident:
		if v.Name == "nil" || v.Name == "err" || v.Name == "true" || v.Name == "false" {
			return v.Name
		}
	}
	return "_"
}

func calleeName(fun ast.Expr) (name string, prim bool) {
	switch f := fun.(type) {
	case *ast.Ident:
		return f.Name, false
	case *ast.SelectorExpr:
		// c.con.Send / c.con.Expect : primitives of the expect library
		if inner, ok := f.X.(*ast.SelectorExpr); ok && inner.Sel.Name == "con" {
			return f.Sel.Name, true
		}
		if inner, ok := f.X.(*ast.SelectorExpr); ok && inner.Sel.Name == "client" {
			return f.Sel.Name, true
		}
		return f.Sel.Name, false
	case *ast.ParenExpr:
		return calleeName(f.X)
	case *ast.IndexExpr:
		return calleeName(f.X)
	}
	return "", false
}

// expr records the interesting calls inside an expression, arguments first.
func (w *walker) expr(e ast.Expr, ctx []string) {
	if e == nil {
		return
	}
	switch v := e.(type) {
	case *ast.CallExpr:
		if fl, ok := v.Fun.(*ast.FuncLit); ok {
			// immediately invoked function literal: inline
			for _, a := range v.Args {
				w.expr(a, ctx)
			}
			w.block(fl.Body, ctx)
			return
		}
		var funcArgs []*ast.FuncLit
		for _, a := range v.Args {
			if fl, ok := a.(*ast.FuncLit); ok {
				funcArgs = append(funcArgs, fl)
				continue
			}
			w.expr(a, ctx)
		}
		if sel, ok := v.Fun.(*ast.SelectorExpr); ok {
			w.expr(sel.X, ctx)
		}
		name, prim := calleeName(v.Fun)
		if prim {
			switch name {
			case "Send":
				w.add("<send>", argLits(v.Args), ctx)
			case "Expect":
				w.add("<recv>", nil, ctx)
			case "Get", "Do", "PostForm":
				w.add("<send>", []string{"_"}, ctx)
				w.add("<recv>", nil, ctx)
			default:
				fail("unknown primitive %s at %s", name, fset.Position(v.Pos()))
			}
		} else if interesting[name] {
			w.add(name, argLits(v.Args), ctx)
		}
		for _, fl := range funcArgs {
			w.block(fl.Body, append(ctx, "func"))
		}
	case *ast.FuncLit:
		// a function literal in value position that is not bound to a name: inline under "func"
		w.block(v.Body, append(ctx, "func"))
	case *ast.BinaryExpr:
		w.expr(v.X, ctx)
		w.expr(v.Y, ctx)
	case *ast.UnaryExpr:
		w.expr(v.X, ctx)
	case *ast.ParenExpr:
		w.expr(v.X, ctx)
	case *ast.SelectorExpr:
		w.expr(v.X, ctx)
	case *ast.IndexExpr:
		w.expr(v.X, ctx)
		w.expr(v.Index, ctx)
	case *ast.SliceExpr:
		w.expr(v.X, ctx)
		w.expr(v.Low, ctx)
		w.expr(v.High, ctx)
	case *ast.StarExpr:
		w.expr(v.X, ctx)
	case *ast.TypeAssertExpr:
		w.expr(v.X, ctx)
	case *ast.KeyValueExpr:
		w.expr(v.Value, ctx)
	case *ast.CompositeLit:
		for _, el := range v.Elts {
			w.expr(el, ctx)
		}
	case *ast.Ident, *ast.BasicLit, *ast.ArrayType, *ast.MapType, *ast.StructType, *ast.FuncType, *ast.InterfaceType:
	default:
		fail("expression %T not understood at %s", e, fset.Position(e.Pos()))
	}
}

func argLits(args []ast.Expr) []string {
	var l []string
	for _, a := range args {
		if _, ok := a.(*ast.FuncLit); ok {
			continue
		}
		l = append(l, litOf(a))
	}
	return l
}

func (w *walker) block(b *ast.BlockStmt, ctx []string) {
	if b == nil {
		return
	}
	for _, st := range b.List {
		w.stmt(st, ctx)
	}
}

func (w *walker) ifStmt(v *ast.IfStmt, ctx []string) {
	if v.Init != nil {
		w.stmt(v.Init, ctx)
	}
	w.expr(v.Cond, ctx)
	c := src(v.Cond)
	w.block(v.Body, append(ctx, "if:"+c))
	switch e := v.Else.(type) {
	case nil:
	case *ast.BlockStmt:
		w.block(e, append(ctx, "else:"+c))
	case *ast.IfStmt:
		w.ifStmt(e, append(ctx, "else:"+c))
	default:
		fail("else %T", e)
	}
}

func (w *walker) stmt(st ast.Stmt, ctx []string) {
	switch v := st.(type) {
	case *ast.ExprStmt:
		w.expr(v.X, ctx)
	case *ast.AssignStmt:
		if len(v.Rhs) == 1 && len(v.Lhs) == 1 {
			if fl, ok := v.Rhs[0].(*ast.FuncLit); ok {
				if id, ok := v.Lhs[0].(*ast.Ident); ok {
					w.closures[id.Name] = fl
					return
				}
			}
		}
		for _, r := range v.Rhs {
			w.expr(r, ctx)
		}
	case *ast.DeclStmt:
		gd, ok := v.Decl.(*ast.GenDecl)
		if !ok {
			fail("decl %T", v.Decl)
		}
		for _, sp := range gd.Specs {
			if vs, ok := sp.(*ast.ValueSpec); ok {
				for _, val := range vs.Values {
					w.expr(val, ctx)
				}
			}
		}
	case *ast.IfStmt:
		w.ifStmt(v, ctx)
	case *ast.ForStmt:
		if v.Init != nil {
			w.stmt(v.Init, ctx)
		}
		lc := append(ctx, "loop")
		w.expr(v.Cond, lc)
		w.block(v.Body, lc)
		if v.Post != nil {
			w.stmt(v.Post, lc)
		}
	case *ast.RangeStmt:
		w.expr(v.X, ctx)
		w.block(v.Body, append(ctx, "loop"))
	case *ast.ReturnStmt:
		var lits []string
		for _, r := range v.Results {
			w.expr(r, ctx)
			lits = append(lits, litOf(r))
		}
		w.add("return", lits, ctx)
	case *ast.DeferStmt:
		w.expr(v.Call, append(ctx, "defer"))
	case *ast.BranchStmt:
		switch v.Tok {
		case token.CONTINUE:
			w.add("continue", nil, ctx)
		case token.BREAK:
			w.add("break", nil, ctx)
		default:
			fail("branch %s at %s", v.Tok, fset.Position(v.Pos()))
		}
	case *ast.SwitchStmt:
		if v.Init != nil {
			w.stmt(v.Init, ctx)
		}
		tag := ""
		if v.Tag != nil {
			w.expr(v.Tag, ctx)
			tag = src(v.Tag)
		}
		// cases as an if / else-if chain; default last
		cur := append([]string(nil), ctx...)
		var def *ast.CaseClause
		for _, cc := range v.Body.List {
			c := cc.(*ast.CaseClause)
			if c.List == nil {
				def = c
				continue
			}
			var alts []string
			for _, e := range c.List {
				if tag != "" {
					alts = append(alts, tag+" == "+src(e))
				} else {
					alts = append(alts, src(e))
				}
			}
			label := strings.Join(alts, " || ")
			for _, s := range c.Body {
				w.stmt(s, append(cur, "if:"+label))
			}
			cur = append(cur, "else:"+label)
		}
		if def != nil {
			for _, s := range def.Body {
				w.stmt(s, cur)
			}
		}
	case *ast.BlockStmt:
		w.block(v, ctx)
	case *ast.IncDecStmt:
		w.expr(v.X, ctx)
	case *ast.LabeledStmt:
		w.stmt(v.Stmt, ctx)
	case *ast.EmptyStmt:
	default:
		fail("statement %T not understood at %s", st, fset.Position(st.Pos()))
	}
}

func leanStr(s string) string {
	var b strings.Builder
	b.WriteByte('"')
	for _, r := range s {
		switch {
		case r == '"':
			b.WriteString("\\\"")
		case r == '\\':
			b.WriteString("\\\\")
		case r == '\n':
			b.WriteString("\\n")
		case r == '\t':
			b.WriteString("\\t")
		case r == '\r':
			b.WriteString("\\r")
		case r < 0x20 || r == 0x7f:
			fmt.Fprintf(&b, "\\x%02x", r)
		default:
			b.WriteRune(r)
		}
	}
	b.WriteByte('"')
	return b.String()
}

func leanList(l []string) string {
	q := make([]string, len(l))
	for i, s := range l {
		q[i] = leanStr(s)
	}
	return "[" + strings.Join(q, ", ") + "]"
}

func main() {
	repo := flag.String("repo", "/repo", "repository root")
	out := flag.String("out", "", "Lean output file")
	flag.Parse()
	var b strings.Builder
	b.WriteString("/- GENERATED by translate/skeleton from the working tree of the repository; do not edit. -/\n")
	b.WriteString("import NA.Model.Sess\nnamespace NA.Gen.Skel\nopen NA.Sess\n\n")
	var names []string
	for _, wf := range wanted {
		path := filepath.Join(*repo, "go", wf.file)
		f, err := parser.ParseFile(fset, path, nil, 0)
		if err != nil {
			fail("%v", err)
		}
		decls := map[string]*ast.FuncDecl{}
		for _, d := range f.Decls {
			if fd, ok := d.(*ast.FuncDecl); ok {
				if _, dup := decls[fd.Name.Name]; dup {
					fail("%s: function name %s is not unique", wf.file, fd.Name.Name)
				}
				decls[fd.Name.Name] = fd
			}
		}
		done := map[string][]site{}
		var get func(name string) []site
		get = func(name string) []site {
			if s, ok := done[name]; ok {
				return s
			}
			outer, inner, isClosure := strings.Cut(name, "$")
			fd := decls[outer]
			if fd == nil || fd.Body == nil {
				fail("%s: function %s not found", wf.file, outer)
			}
			w := &walker{closures: map[string]*ast.FuncLit{}}
			w.block(fd.Body, nil)
			done[outer] = w.sites
			if w.sites == nil {
				done[outer] = []site{}
			}
			var cn []string
			for n := range w.closures {
				cn = append(cn, n)
			}
			sort.Strings(cn)
			for _, n := range cn {
				cw := &walker{closures: map[string]*ast.FuncLit{}}
				cw.block(w.closures[n].Body, nil)
				if len(cw.closures) != 0 {
					fail("%s: nested named closures in %s$%s", wf.file, outer, n)
				}
				done[outer+"$"+n] = cw.sites
			}
			if isClosure {
				if _, ok := done[name]; !ok {
					fail("%s: closure %s not found in %s", wf.file, inner, outer)
				}
			}
			return done[name]
		}
		for _, fn := range wf.funcs {
			sites := get(fn)
			lname := wf.pkg + "_" + strings.ReplaceAll(fn, "$", "_")
			names = append(names, lname)
			fmt.Fprintf(&b, "def %s : List Site := [\n", lname)
			for i, s := range sites {
				sep := ","
				if i == len(sites)-1 {
					sep = ""
				}
				fmt.Fprintf(&b, "  ⟨%s, %s, %s⟩%s\n", leanStr(s.callee), leanList(s.lits), leanList(s.ctx), sep)
			}
			b.WriteString("]\n\n")
		}
		// closures that exist in the source but are not modelled would escape the tie: list them
		var all []string
		for n := range done {
			all = append(all, n)
		}
		sort.Strings(all)
		for _, fn := range wf.funcs {
			outer, _, _ := strings.Cut(fn, "$")
			for _, n := range all {
				if strings.HasPrefix(n, outer+"$") && !contains(wf.funcs, n) {
					fail("%s: closure %s is not in the list of functions of interest", wf.file, n)
				}
			}
		}
	}
	fmt.Fprintf(&b, "def allNames : List String := %s\n\n", leanList(names))
	b.WriteString("/-- every generated skeleton with its name -/\ndef all : List (String × List Site) := [\n")
	for i, n := range names {
		sep := ","
		if i == len(names)-1 {
			sep = ""
		}
		fmt.Fprintf(&b, "  (%s, %s)%s\n", leanStr(n), n, sep)
	}
	b.WriteString("]\n\nend NA.Gen.Skel\n")
	if *out == "" {
		fmt.Print(b.String())
		return
	}
	os.MkdirAll(filepath.Dir(*out), 0755)
	// write only when changed, so that lake does not rebuild needlessly
	if old, err := os.ReadFile(*out); err == nil && string(old) == b.String() {
		return
	}
	if err := os.WriteFile(*out, []byte(b.String()), 0644); err != nil {
		fail("%v", err)
	}
}

func contains(l []string, s string) bool {
	for _, x := range l {
		if x == s {
			return true
		}
	}
	return false
}
