module skeleton

go 1.23
