// callgraph: T-gen for property C11 (compare never changes the device).
//
//  1. runs the pre-installed `callgraph -algo=vta` on ./cmd/drc ./cmd/do-approve of the
//     repository (whole program, ~60k edges);
//  2. keeps the nodes of the module (github.com/hknutzen/Netspoc-Approve/go/...) and a few
//     boundary sinks (goexpect Send, net/http client, os/exec) and CONTRACTS everything else:
//     an edge u → v is emitted iff v is reachable from u through nodes that are not kept.
//     Reachability between kept nodes is preserved exactly (nothing is dropped);
//  3. numbers the nodes so that the set reachable from the compare roots
//     ((*device.state).compare and the body closure of device.CompareFiles) is {0..n-1}: the
//     closedness certificate that Lean checks is then "every edge that starts below n ends
//     below n" — linear in the number of edges;
//  4. lists every send site (calls of console.Conn.Send/IssueCmd/SendCmd/GetCmdOutput, the
//     HTTP client and its wrappers) of the module with the node of the enclosing function and
//     its argument: a string literal (also through a local variable assigned exactly once
//     from a literal) or the expression text;
//  5. (writers.go) finds every device-I/O call by TYPE and every call of a function that hands
//     one of its parameters on to such a call (carriers), with one row per data argument.
//
// Output: lean/NA/Gen/CallGraph.lean.  Anything unexpected (a root or an ApplyCommands
// implementation missing from the graph, a send site in a function the graph does not know,
// reflection or unsafe in the module) is an error: exit 1.
package main

import (
	"bufio"
	"bytes"
	"flag"
	"fmt"
	"go/ast"
	"go/build"
	"go/parser"
	"go/printer"
	"go/token"
	"os"
	"os/exec"
	"path/filepath"
	"sort"
	"strconv"
	"strings"
)

const mod = "github.com/hknutzen/Netspoc-Approve/go/"

var sinks = []string{
	"(*github.com/tailscale/goexpect.GExpect).Send",
	"(*net/http.Client).Get", "(*net/http.Client).Do", "(*net/http.Client).PostForm",
	"(*os/exec.Cmd).Run", "(*os/exec.Cmd).Start",
}

var targetMarks = []string{").ApplyCommands", ").applyCommands", ").writeMem", ").cmd", ").prepareDevice",
	").scheduleReload", ").cancelReload", ").extendReload", ").sendReloadCmd", ").writeStartup", ").putScp"}

var problems []string

func problem(f string, a ...any) { problems = append(problems, fmt.Sprintf(f, a...)) }

func leanStr(s string) string {
	var b strings.Builder
	b.WriteByte('"')
	for _, r := range s {
		switch r {
		case '"':
			b.WriteString("\\\"")
		case '\\':
			b.WriteString("\\\\")
		case '\n':
			b.WriteString("\\n")
		case '\t':
			b.WriteString("\\t")
		default:
			b.WriteRune(r)
		}
	}
	b.WriteByte('"')
	return b.String()
}

func leanList(l []string) string {
	var parts []string
	for _, s := range l {
		parts = append(parts, leanStr(short(s)))
	}
	return "[" + strings.Join(parts, ", ") + "]"
}

// short name: strip the module path
func short(n string) string { return strings.ReplaceAll(n, mod+"pkg/", "") }

var fset = token.NewFileSet()

func text(n ast.Node) string {
	var buf bytes.Buffer
	printer.Fprint(&buf, fset, n)
	return strings.Join(strings.Fields(buf.String()), " ")
}

type site struct {
	fn    string // SSA-style name of the enclosing function
	pkg   string
	prim  string
	isLit bool
	arg   string
}

// which argument of which primitive is the request
var prims = map[string]int{"Send": 0, "IssueCmd": 0, "SendCmd": 0, "GetCmdOutput": 0, "cmd": 0,
	"Get": 0, "Do": 0, "PostForm": 0, "httpGet": 0, "httpPrefixGetLog": 0, "sendRequest": 0}

func isPrimCall(c *ast.CallExpr) (string, bool) {
	sel, ok := c.Fun.(*ast.SelectorExpr)
	if !ok {
		return "", false
	}
	name := sel.Sel.Name
	if _, ok := prims[name]; !ok {
		return "", false
	}
	recv := text(sel.X)
	switch name {
	case "Get", "Do", "PostForm":
		if !strings.HasSuffix(recv, "client") {
			return "", false
		}
	case "Send":
		if !(strings.HasSuffix(recv, "Conn") || strings.HasSuffix(recv, "conn") || strings.HasSuffix(recv, "con") || recv == "c") {
			return "", false
		}
	case "cmd", "httpGet", "httpPrefixGetLog", "sendRequest":
		if recv != "s" {
			return "", false
		}
	}
	return name, true
}

// collectSites walks one function body; closures get SSA-style names parent$k.
func collectSites(pkg, name string, body *ast.BlockStmt, out *[]site) {
	// local variables assigned exactly once from a string literal
	assigns := map[string]int{}
	litVal := map[string]string{}
	ast.Inspect(body, func(n ast.Node) bool {
		switch v := n.(type) {
		case *ast.FuncLit:
			return false
		case *ast.AssignStmt:
			for i, l := range v.Lhs {
				if id, ok := l.(*ast.Ident); ok {
					assigns[id.Name]++
					if i < len(v.Rhs) && len(v.Lhs) == len(v.Rhs) {
						if bl, ok := v.Rhs[i].(*ast.BasicLit); ok && bl.Kind == token.STRING {
							if s, err := strconv.Unquote(bl.Value); err == nil {
								litVal[id.Name] = s
							}
						}
					}
				}
			}
		case *ast.IncDecStmt:
			if id, ok := v.X.(*ast.Ident); ok {
				assigns[id.Name]++
			}
		}
		return true
	})
	anon := 0
	var walk func(n ast.Node) bool
	walk = func(n ast.Node) bool {
		switch v := n.(type) {
		case *ast.FuncLit:
			anon++
			collectSites(pkg, fmt.Sprintf("%s$%d", name, anon), v.Body, out)
			return false
		case *ast.CallExpr:
			if prim, ok := isPrimCall(v); ok && len(v.Args) > prims[prim] {
				a := v.Args[prims[prim]]
				s := site{fn: name, pkg: pkg, prim: prim}
				if bl, ok := a.(*ast.BasicLit); ok && bl.Kind == token.STRING {
					s.isLit = true
					s.arg, _ = strconv.Unquote(bl.Value)
				} else if id, ok := a.(*ast.Ident); ok && assigns[id.Name] == 1 && litVal[id.Name] != "" {
					s.isLit = true
					s.arg = litVal[id.Name]
				} else {
					s.arg = text(a)
				}
				*out = append(*out, s)
			}
		}
		return true
	}
	ast.Inspect(body, walk)
}

func main() {
	repo := flag.String("repo", "/repo", "repository root")
	out := flag.String("out", "", "Lean file to write")
	flag.Parse()
	goDir := filepath.Join(*repo, "go")

	pkgsCh := loadPackages(goDir)
	cmd := exec.Command("callgraph", "-algo=vta", "-format={{.Caller}} -> {{.Callee}}", "./cmd/drc", "./cmd/do-approve")
	cmd.Dir = goDir
	cmd.Stderr = os.Stderr
	data, err := cmd.Output()
	if err != nil {
		fmt.Fprintln(os.Stderr, "callgraph:", err)
		os.Exit(1)
	}
	adj := map[string]map[string]bool{}
	nodes := map[string]bool{}
	sc := bufio.NewScanner(bytes.NewReader(data))
	sc.Buffer(make([]byte, 1<<20), 1<<24)
	edges := 0
	for sc.Scan() {
		a, b, ok := strings.Cut(sc.Text(), " -> ")
		if !ok {
			continue
		}
		if adj[a] == nil {
			adj[a] = map[string]bool{}
		}
		if !adj[a][b] {
			adj[a][b] = true
			edges++
		}
		nodes[a], nodes[b] = true, true
	}
	if edges < 1000 {
		problem("call graph suspiciously small: %d edges", edges)
	}
	isSink := map[string]bool{}
	for _, s := range sinks {
		isSink[s] = true
	}
	kept := map[string]bool{}
	for n := range nodes {
		if strings.Contains(n, mod) || isSink[n] {
			kept[n] = true
		}
	}
	// contraction
	cadj := map[string][]string{}
	for u := range kept {
		seen := map[string]bool{}
		var res []string
		stack := []string{}
		for v := range adj[u] {
			stack = append(stack, v)
		}
		for len(stack) > 0 {
			v := stack[len(stack)-1]
			stack = stack[:len(stack)-1]
			if seen[v] {
				continue
			}
			seen[v] = true
			if kept[v] {
				res = append(res, v)
				continue
			}
			for w := range adj[v] {
				if !seen[w] {
					stack = append(stack, w)
				}
			}
		}
		sort.Strings(res)
		cadj[u] = res
	}
	// roots, reachable set
	// A root that the program no longer has is not an error of the translator: the list of roots is
	// a fact, `roots_and_targets_named` states what it has to be — the tie breaks there.
	wanted := []string{"(*" + mod + "pkg/device.state).compare", mod + "pkg/device.CompareFiles$1"}
	var roots []string
	isRoot := map[string]bool{}
	for _, r := range wanted {
		if kept[r] {
			roots = append(roots, r)
			isRoot[r] = true
		} else {
			fmt.Fprintf(os.Stderr, "callgraph: note: %s is not a node of the call graph (root omitted)\n", r)
		}
	}
	// A compare RUN is the body of device.ApproveOrCompare with isCompare = true: besides
	// (*state).compare everything else that body calls — set-up, the CloseConnection of every
	// backend, Abort — except (*state).approve (the skeleton theorems pin that approve stands in
	// the else branch of `if isCompare`).  These callees are roots as well.
	runBody := mod + "pkg/device.ApproveOrCompare$1"
	if !kept[runBody] {
		fmt.Fprintf(os.Stderr, "callgraph: note: %s is not a node of the call graph (no run roots)\n", runBody)
	}
	var runRoots []string
	for _, v := range cadj[runBody] {
		if strings.Contains(v, mod) && !strings.HasSuffix(v, ").approve") && !isRoot[v] {
			runRoots = append(runRoots, v)
		}
	}
	sort.Strings(runRoots)
	reach := map[string]bool{}
	stack := append(append([]string{}, roots...), runRoots...)
	for len(stack) > 0 {
		v := stack[len(stack)-1]
		stack = stack[:len(stack)-1]
		if reach[v] {
			continue
		}
		reach[v] = true
		stack = append(stack, cadj[v]...)
	}
	var in, outside []string
	for n := range kept {
		if reach[n] {
			in = append(in, n)
		} else {
			outside = append(outside, n)
		}
	}
	sort.Strings(in)
	sort.Strings(outside)
	idx := map[string]int{}
	all := append(append([]string{}, in...), outside...)
	for i, n := range all {
		idx[n] = i
	}
	nReach := len(in)

	// targets
	var targets []string
	for _, n := range all {
		if !strings.Contains(n, mod) {
			continue
		}
		for _, m := range targetMarks {
			if strings.Contains(n, m) {
				targets = append(targets, n)
				break
			}
		}
	}
	var applyImpls []string
	for _, n := range targets {
		if strings.HasSuffix(n, ").ApplyCommands") {
			applyImpls = append(applyImpls, n)
		}
	}
	if len(applyImpls) == 0 {
		problem("no ApplyCommands implementation found in the call graph")
	}

	// reflection / unsafe in the module would make VTA unsound
	pkgRoot := filepath.Join(goDir, "pkg")
	var sites []site
	filepath.Walk(pkgRoot, func(p string, info os.FileInfo, err error) error {
		if err != nil || info.IsDir() || !strings.HasSuffix(p, ".go") || strings.HasSuffix(p, "_test.go") {
			return nil
		}
		// files excluded by build constraints (the add-only `verif` hooks) are not part of the program
		if ok, err := build.Default.MatchFile(filepath.Dir(p), filepath.Base(p)); err != nil || !ok {
			return nil
		}
		f, err := parser.ParseFile(fset, p, nil, parser.SkipObjectResolution)
		if err != nil {
			problem("parse %s: %v", p, err)
			return nil
		}
		for _, im := range f.Imports {
			if im.Path.Value == `"reflect"` || im.Path.Value == `"unsafe"` {
				problem("%s imports %s: VTA call graph not trustworthy", p, im.Path.Value)
			}
		}
		rel, _ := filepath.Rel(pkgRoot, p)
		pkg := filepath.Dir(rel)
		for _, d := range f.Decls {
			fd, ok := d.(*ast.FuncDecl)
			if !ok || fd.Body == nil {
				continue
			}
			name := mod + "pkg/" + pkg + "." + fd.Name.Name
			if fd.Recv != nil && len(fd.Recv.List) > 0 {
				t := fd.Recv.List[0].Type
				star := ""
				if st, ok := t.(*ast.StarExpr); ok {
					t = st.X
					star = "*"
				}
				name = "(" + star + mod + "pkg/" + pkg + "." + text(t) + ")." + fd.Name.Name
			}
			collectSites(pkg, name, fd.Body, &sites)
		}
		return nil
	})
	sort.SliceStable(sites, func(i, j int) bool {
		if sites[i].fn != sites[j].fn {
			return sites[i].fn < sites[j].fn
		}
		return false
	})
	for _, s := range sites {
		if _, ok := idx[s.fn]; !ok {
			problem("send site %s %q in %s: function is not a node of the call graph", s.prim, s.arg, s.fn)
		}
	}

	// writer sites by type (writers.go)
	rawMod := map[string]map[string]bool{}
	for u, vs := range adj {
		if !strings.Contains(u, mod) {
			continue
		}
		for v := range vs {
			if strings.Contains(v, mod) {
				if rawMod[u] == nil {
					rawMod[u] = map[string]bool{}
				}
				rawMod[u][v] = true
			}
		}
	}
	wrows, carriers, iocalls := analyseWriters(<-pkgsCh, rawMod, reach)
	for _, r := range wrows {
		if _, ok := idx[r.fn]; !ok {
			problem("writer site %s (%s %q) in %s: function is not a node of the call graph", r.callee, r.kind, r.text, r.fn)
		}
	}
	var carrierNames []string
	for c := range carriers {
		if _, ok := idx[c]; ok {
			carrierNames = append(carrierNames, c)
		}
	}
	sort.Strings(carrierNames)
	if len(wrows) < 10 {
		problem("only %d writer sites found: type information incomplete?", len(wrows))
	}

	if len(problems) > 0 {
		for _, p := range problems {
			fmt.Fprintln(os.Stderr, "callgraph:", p)
		}
		os.Exit(1)
	}

	var b strings.Builder
	b.WriteString("/- GENERATED by translate/callgraph (callgraph -algo=vta, contracted to module nodes and boundary sinks) — do not edit, not committed. -/\n")
	b.WriteString("namespace NA.Gen.CallGraph\n\n")
	fmt.Fprintf(&b, "/-- edges of the VTA call graph before contraction -/\ndef rawEdges : Nat := %d\n", edges)
	fmt.Fprintf(&b, "def numNodes : Nat := %d\n", len(all))
	fmt.Fprintf(&b, "/-- nodes 0 … n-1 are exactly the nodes reachable from the compare roots (certificate checked in Lean) -/\ndef n : Nat := %d\n\n", nReach)
	b.WriteString("/-- adjacency list (caller, callees) over node numbers -/\ndef graph : List (Nat × List Nat) := [\n")
	first := true
	total := 0
	for i, nm := range all {
		succ := cadj[nm]
		if len(succ) == 0 {
			continue
		}
		if !first {
			b.WriteString(",\n")
		}
		first = false
		fmt.Fprintf(&b, "  (%d, [", i)
		for j, s := range succ {
			if j > 0 {
				b.WriteString(",")
			}
			fmt.Fprintf(&b, "%d", idx[s])
			total++
		}
		b.WriteString("])")
	}
	b.WriteString("]\n\n")
	fmt.Fprintf(&b, "def numEdges : Nat := %d\n\n", total)
	list := func(name string, l []string) {
		fmt.Fprintf(&b, "def %s : List (Nat × String) := [", name)
		for i, s := range l {
			if i > 0 {
				b.WriteString(",")
			}
			fmt.Fprintf(&b, "\n  (%d, %s)", idx[s], leanStr(short(s)))
		}
		b.WriteString("]\n\n")
	}
	list("roots", roots)
	b.WriteString("/-- what else the body of device.ApproveOrCompare calls in a compare run (everything but (*state).approve) -/\n")
	list("runRoots", runRoots)
	list("targets", targets)
	list("applyImpls", applyImpls)
	var sinkList []string
	for _, s := range sinks {
		if kept[s] {
			sinkList = append(sinkList, s)
		}
	}
	list("sinkNodes", sinkList)
	// positive control: approve does reach ApplyCommands (a path as certificate)
	approve := "(*" + mod + "pkg/device.state).approve"
	goal := "(*" + mod + "pkg/asa.State).ApplyCommands"
	prev := map[string]string{approve: ""}
	queue := []string{approve}
	for len(queue) > 0 && prev[goal] == "" {
		v := queue[0]
		queue = queue[1:]
		for _, w := range cadj[v] {
			if _, ok := prev[w]; !ok {
				prev[w] = v
				queue = append(queue, w)
			}
		}
	}
	var path []string
	if _, ok := prev[goal]; ok && kept[approve] {
		for v := goal; v != ""; v = prev[v] {
			path = append([]string{v}, path...)
		}
	}
	list("approvePath", path)
	b.WriteString("/-- (node of the enclosing function, its name, package, primitive, argument is a literal, argument) -/\n")
	b.WriteString("def sendSites : List (Nat × String × String × String × Bool × String) := [")
	for i, s := range sites {
		if i > 0 {
			b.WriteString(",")
		}
		fmt.Fprintf(&b, "\n  (%d, %s, %s, %s, %v, %s)", idx[s.fn], leanStr(short(s.fn)), leanStr(s.pkg), leanStr(s.prim), s.isLit, leanStr(s.arg))
	}
	b.WriteString("]\n\n")
	b.WriteString("/-- One data argument of one call that can hand data to the device connection (found by type, see\ntranslate/callgraph/writers.go): `node`/`fn` the enclosing function, `callee` the device-I/O function or\nthe carrier called, `cls` send | connect | exec | assemble | carrier | carrier-dyn | method-value |\nunclassified, `arg` the index of the argument (0 for a receiver), `kind` lit | param | flow; `sinks` the foreign\ndevice-I/O functions (#argument) the data finally reaches; `leaves` (kind flow) what the data is made of —\nconstants, parameters, foreign calls, device replies, source packages of the module (translate/callgraph/leaves.go);\n`text` of a flow row is the source expression, as documentation only. -/\n")
	b.WriteString("structure WSite where\n  node : Nat\n  fn : String\n  pkg : String\n  callee : String\n  cls : String\n  arg : Nat\n  kind : String\n  text : String\n  owner : String\n  pidx : Nat\n  sinks : List String\n  leaves : List String\n  deriving DecidableEq, Repr\n\n")
	b.WriteString("def writerSites : List WSite := [")
	for i, r := range wrows {
		if i > 0 {
			b.WriteString(",")
		}
		arg := r.arg
		if arg < 0 {
			arg = 0
		}
		fmt.Fprintf(&b, "\n  ⟨%d, %s, %s, %s, %s, %d, %s, %s, %s, %d, %s, %s⟩", idx[r.fn], leanStr(short(r.fn)), leanStr(r.pkg), leanStr(short(r.callee)),
			leanStr(r.class), arg, leanStr(r.kind), leanStr(r.text), leanStr(short(r.owner)), r.pidx, leanList(r.sinks), leanList(r.leaves))
	}
	b.WriteString("]\n\n")
	b.WriteString("/-- One entry per CALL that touches the connection itself (not through a carrier): (node, package, foreign function, class). -/\n")
	b.WriteString("def ioCalls : List (Nat × String × String × String) := [")
	for i, c := range iocalls {
		if i > 0 {
			b.WriteString(",")
		}
		fmt.Fprintf(&b, "\n  (%d, %s, %s, %s)", idx[c.fn], leanStr(c.pkg), leanStr(short(c.callee)), leanStr(c.class))
	}
	b.WriteString("]\n\n")
	b.WriteString("/-- (node, function, parameter index): the parameter flows into a data argument of a device-I/O call -/\n")
	b.WriteString("def carriers : List (Nat × String × Nat) := [")
	first = true
	for _, c := range carrierNames {
		var is []int
		for i := range carriers[c] {
			is = append(is, i)
		}
		sort.Ints(is)
		for _, i := range is {
			if !first {
				b.WriteString(",")
			}
			first = false
			fmt.Fprintf(&b, "\n  (%d, %s, %d)", idx[c], leanStr(short(c)), i)
		}
	}
	b.WriteString("]\n\n")
	b.WriteString("/-- node names (documentation; the theorems use numbers) -/\ndef reachableNames : List String := [")
	for i, s := range in {
		if i > 0 {
			b.WriteString(",")
		}
		fmt.Fprintf(&b, "\n  %s", leanStr(short(s)))
	}
	b.WriteString("]\n\nend NA.Gen.CallGraph\n")

	if *out == "" {
		fmt.Print(b.String())
		return
	}
	os.MkdirAll(filepath.Dir(*out), 0755)
	if old, err := os.ReadFile(*out); err == nil && string(old) == b.String() {
		return
	}
	tmp := *out + ".tmp"
	if err := os.WriteFile(tmp, []byte(b.String()), 0644); err != nil {
		fmt.Fprintln(os.Stderr, err)
		os.Exit(1)
	}
	if err := os.Rename(tmp, *out); err != nil {
		fmt.Fprintln(os.Stderr, err)
		os.Exit(1)
	}
}
