// leaves.go: what a non-constant data argument is MADE OF, independent of how the source spells it.
//
// A writer-site row of kind "flow" carries the set of LEAVES of the data flow into the argument
// instead of the expression text (the text is kept as documentation only, nothing compares it):
//
//	const "…"     a string constant that can become part of the value (constants next to each other
//	              in a concatenation / in a constant Sprintf format are merged first: "a"+"b" ≡ "ab")
//	param         a data parameter of the enclosing function (the carrier fixpoint makes every caller a
//	              writer site of its own, so the position does not matter here)
//	call F        the result of the foreign function F (net/url.Parse, (net/url.Values).Set, os.Getenv …)
//	              computed from leaves listed as well
//	reply F       the result of a device-I/O call: data the device answered (its arguments are rows of
//	              their own and are not followed)
//	src P         data from package P of the module that has no device I/O at all (program = settings and
//	              credentials, codefiles = what Netspoc generated): a call of one of its functions, a
//	              field of one of its types, a parameter of one of its types
//	set f         a field f of a value of a foreign type was written (base.Path, base.RawQuery)
//	global V, dyn, opaque …   package-level variable, unknown function value, analysis gave up (the
//	              Lean side accepts none of the last two)
//
// Reading a field of a foreign or local struct value adds nothing of its own (the value is followed),
// and the functions of `transparent` (decoding / wrapping: io.ReadAll, json / xml Unmarshal and
// Marshal, Header.Get, strings.NewReader …) stand for their arguments: how a reply is decoded is
// not what this layer is about.
//
// Locals are followed through every statement that defines or may modify them (assignment, op=,
// field assignment, method call with arguments, address taken as an argument, range), so their
// names never show.  Calls of functions of the module's device packages are TRANSPARENT: the
// leaves of the callee's return expressions with the parameters bound to the actual arguments —
// extracting or inlining a helper does not change the set.  Fields of the module's own struct types
// (s.prefix, s.urlPrefix, s.token) are followed to every assignment anywhere in the module.
package main

import (
	"go/ast"
	"go/constant"
	"go/token"
	"go/types"
	"sort"
	"strconv"
	"strings"
)

// foreign functions that stand for their arguments
var transparent = map[string]bool{
	"io.ReadAll": true, "encoding/json.Unmarshal": true, "encoding/json.Marshal": true, "encoding/xml.Unmarshal": true,
	"encoding/xml.Marshal": true, "(net/http.Header).Get": true, "strings.NewReader": true, "bytes.NewReader": true,
	"bytes.NewBuffer": true, "bytes.NewBufferString": true, "(*bytes.Buffer).String": true, "(*bytes.Buffer).Bytes": true,
}

// one frame of the expansion: the body of fn, its parameters bound to expressions of the parent frame
type lenv struct {
	fn     *wfunc
	bind   map[types.Object]ast.Expr
	parent *lenv
	depth  int
}

type fieldAssign struct {
	fn  *wfunc
	rhs ast.Expr
	idx int
}

type seenKey struct {
	env *lenv
	obj types.Object
}

type leafer struct {
	a         *wana
	out       map[string]bool
	seen      map[seenKey]bool
	seenField map[types.Object]bool
	seenParam map[types.Object]bool
	inReach   bool // the row stands in a function reachable from the compare roots
	inField   int  // > 0 while the assignments of a struct field are followed
	steps     int
}

const leafBudget = 20000

func (a *wana) leavesOf(f *wfunc, e ast.Expr) []string {
	l := &leafer{a: a, out: map[string]bool{}, seen: map[seenKey]bool{}, seenField: map[types.Object]bool{}, seenParam: map[types.Object]bool{}}
	l.inReach = a.reach[f.name] || (f.root != nil && a.reach[f.root.name])
	l.expr(&lenv{fn: f}, e, -1)
	var res []string
	for s := range l.out {
		res = append(res, s)
	}
	sort.Strings(res)
	return res
}

func isErrorType(t types.Type) bool {
	if t == nil {
		return false
	}
	n, ok := t.(*types.Named)
	return ok && n.Obj().Pkg() == nil && n.Obj().Name() == "error"
}

func (a *wana) modulePkg(p *types.Package) bool { return p != nil && strings.HasPrefix(p.Path(), mod) }

// a package of the module without any device I/O and without carriers: a SOURCE of data
func (a *wana) sourcePkg(p *types.Package) bool {
	return a.modulePkg(p) && !a.devPkgs[p.Path()]
}

func (l *leafer) add(s string) { l.out[s] = true }

func (l *leafer) constLeaf(s string) {
	if s != "" {
		l.add("const " + strconv.Quote(s))
	}
}

// typeSource: a value of a named type of a source package stands for that package
func (l *leafer) typeSource(t types.Type) {
	for {
		switch x := t.(type) {
		case *types.Pointer:
			t = x.Elem()
			continue
		case *types.Slice:
			t = x.Elem()
			continue
		case *types.Named:
			if l.a.sourcePkg(x.Obj().Pkg()) {
				l.add("src " + shortPkg(x.Obj().Pkg().Path()))
			}
		}
		return
	}
}

// ownerEnv: the frame in which obj is a parameter (searching the lexically enclosing functions of
// every frame of the chain)
func ownerEnv(env *lenv, obj types.Object) (*lenv, bool) {
	for ev := env; ev != nil; ev = ev.parent {
		if _, ok := ev.fn.params[obj]; ok {
			return ev, true
		}
	}
	return nil, isParamOf(env.fn, obj)
}

func (l *leafer) expr(env *lenv, e ast.Expr, want int) {
	if e == nil {
		return
	}
	l.steps++
	if l.steps > leafBudget {
		l.add("opaque budget")
		return
	}
	info := env.fn.info
	if tv, ok := info.Types[e]; ok {
		if tv.IsNil() || tv.IsType() {
			return
		}
		if tv.Value != nil {
			if tv.Value.Kind() == constant.String {
				l.constLeaf(constant.StringVal(tv.Value))
			}
			return
		}
		if isErrorType(tv.Type) {
			return
		}
	}
	switch x := e.(type) {
	case *ast.Ident:
		l.ident(env, x, want)
	case *ast.ParenExpr:
		l.expr(env, x.X, want)
	case *ast.StarExpr:
		l.expr(env, x.X, want)
	case *ast.UnaryExpr:
		l.expr(env, x.X, want)
	case *ast.BinaryExpr:
		if x.Op == token.ADD {
			l.concat(env, x)
			return
		}
		l.expr(env, x.X, -1)
		l.expr(env, x.Y, -1)
	case *ast.IndexExpr:
		l.expr(env, x.X, -1)
	case *ast.SliceExpr:
		l.expr(env, x.X, -1)
	case *ast.TypeAssertExpr:
		l.expr(env, x.X, -1)
	case *ast.KeyValueExpr:
		l.expr(env, x.Value, -1)
	case *ast.CompositeLit:
		for _, el := range x.Elts {
			l.expr(env, el, -1)
		}
	case *ast.SelectorExpr:
		l.selector(env, x, want)
	case *ast.CallExpr:
		l.call(env, x, want)
	case *ast.FuncLit:
	default:
		l.add("opaque " + strings.TrimPrefix(strings.TrimPrefix(typeName(e), "*"), "ast."))
	}
}

func typeName(e ast.Expr) string {
	switch e.(type) {
	case *ast.Ellipsis:
		return "Ellipsis"
	}
	return "expr"
}

func (l *leafer) ident(env *lenv, id *ast.Ident, want int) {
	info := env.fn.info
	obj := info.Uses[id]
	if obj == nil {
		obj = info.Defs[id]
	}
	v, ok := obj.(*types.Var)
	if !ok || v.IsField() {
		return
	}
	if ev, isParam := ownerEnv(env, v); isParam {
		if ev != nil && ev.bind != nil {
			if arg, ok := ev.bind[v]; ok {
				if arg != nil {
					l.expr(ev.parent, arg, -1)
				}
				// a data parameter that is also assigned inside the callee
				if isDataType(v.Type()) && len(ev.fn.root.stmts[v]) > 0 {
					l.local(ev, v, want)
				}
				return
			}
		}
		var fr *lenv = env
		if ev != nil {
			fr = ev
		}
		if isDataType(v.Type()) {
			if !l.paramAtCallSites(fr, v) {
				l.add("param")
			}
		} else {
			l.typeSource(v.Type())
		}
		if isDataType(v.Type()) && len(fr.fn.root.stmts[v]) > 0 {
			l.local(fr, v, want)
		}
		return
	}
	if v.Parent() != nil && v.Pkg() != nil && v.Parent() == v.Pkg().Scope() {
		l.add("global " + shortPkg(v.Pkg().Path()) + "." + v.Name())
		return
	}
	// a local of the frame whose root declares it
	for ev := env; ev != nil; ev = ev.parent {
		if _, ok := ev.fn.root.stmts[v]; ok {
			l.local(ev, v, want)
			return
		}
	}
	l.typeSource(v.Type())
}

// paramAtCallSites: a parameter stands for the arguments at the call sites of its function
//
//   - while a struct field is followed (s.urlPrefix = f(addr, key) inside a helper setAPIKey(addr, key)):
//     the static call sites of the assigning function in its own package;
//   - in the row itself, if the function is a MODULE-LOCAL HELPER: unexported, not a closure, every use
//     a static call from its own package.  Such a helper is looked through: extracting a piece of
//     a function into a helper, or inlining the helper, gives the same leaves (the helper's name
//     and its parameter list are no part of the fact).  For a row on the compare side only the
//     call sites on the compare side count (a caller that compare cannot reach never runs in a
//     compare run).
//
// Everything else keeps `param`: an exported function or method (the API of a package:
// Conn.Send, IssueCmd … — the carrier fixpoint makes each of their callers a row of its own), a
// closure, a function whose call sites are not known statically.
func (l *leafer) paramAtCallSites(fr *lenv, v types.Object) bool {
	if fr.bind != nil {
		return false
	}
	g := fr.fn
	idx, ok := g.params[v]
	if !ok || idx == 99 {
		return false
	}
	sites := l.a.callSites[g.name]
	if l.inField == 0 {
		if g.obj == nil || g.obj.Exported() || l.a.usedAsValue[g.obj] {
			return false
		}
		if l.inReach {
			var in []callSite
			for _, st := range sites {
				if l.a.reach[st.in.name] || l.a.reach[st.in.root.name] {
					in = append(in, st)
				}
			}
			sites = in
		}
	}
	if len(sites) == 0 {
		return false
	}
	if l.seenParam[v] {
		return true
	}
	l.seenParam[v] = true
	for _, st := range sites {
		if idx < len(st.call.Args) {
			l.expr(&lenv{fn: st.in}, st.call.Args[idx], -1)
		}
	}
	return true
}

// local: every statement that defines or may modify the variable
func (l *leafer) local(env *lenv, v types.Object, want int) {
	k := seenKey{env, v}
	if l.seen[k] {
		return
	}
	l.seen[k] = true
	info := env.fn.info
	is := func(e ast.Expr) bool {
		id := baseIdent(e)
		if id == nil {
			return false
		}
		o := info.Defs[id]
		if o == nil {
			o = info.Uses[id]
		}
		return o == v
	}
	for _, st := range env.fn.root.stmts[v] {
		switch s := st.(type) {
		case *ast.AssignStmt:
			for i, lhs := range s.Lhs {
				if !is(lhs) {
					continue
				}
				if sel, ok := ast.Unparen(lhs).(*ast.SelectorExpr); ok {
					l.add("set " + sel.Sel.Name)
				}
				if len(s.Lhs) == len(s.Rhs) {
					l.expr(env, s.Rhs[i], -1)
				} else if len(s.Rhs) == 1 {
					l.expr(env, s.Rhs[0], i)
				}
			}
		case *ast.ValueSpec:
			for i, id := range s.Names {
				if info.Defs[id] != v {
					continue
				}
				if len(s.Values) == len(s.Names) {
					l.expr(env, s.Values[i], -1)
				} else if len(s.Values) == 1 {
					l.expr(env, s.Values[0], i)
				}
			}
		case *ast.RangeStmt:
			l.expr(env, s.X, -1)
		case *ast.CallExpr:
			// v.M(args) or F(&v, args): the other arguments may end up in v
			l.callName(env, s)
			for _, arg := range s.Args {
				if !is(ast.Unparen(stripAddr(arg))) {
					l.expr(env, arg, -1)
				}
			}
		}
	}
}

func stripAddr(e ast.Expr) ast.Expr {
	if u, ok := ast.Unparen(e).(*ast.UnaryExpr); ok && u.Op == token.AND {
		return u.X
	}
	return e
}

// callName: the leaf for "some foreign function computed this"
func (l *leafer) callName(env *lenv, c *ast.CallExpr) {
	fobj := calleeFunc(env.fn.info, c)
	if fobj == nil {
		return
	}
	fobj = fobj.Origin()
	if l.a.modulePkg(fobj.Pkg()) {
		if l.a.sourcePkg(fobj.Pkg()) {
			l.add("src " + shortPkg(fobj.Pkg().Path()))
		}
		return
	}
	if fobj.Pkg() != nil && !transparent[fobj.FullName()] {
		l.add("call " + fobj.FullName())
	}
}

func calleeFunc(info *types.Info, c *ast.CallExpr) *types.Func {
	switch x := ast.Unparen(c.Fun).(type) {
	case *ast.Ident:
		f, _ := info.Uses[x].(*types.Func)
		return f
	case *ast.SelectorExpr:
		if sel := info.Selections[x]; sel != nil {
			f, _ := sel.Obj().(*types.Func)
			return f
		}
		f, _ := info.Uses[x.Sel].(*types.Func)
		return f
	case *ast.IndexExpr: // generic instantiation
		if id, ok := x.X.(*ast.Ident); ok {
			f, _ := info.Uses[id].(*types.Func)
			return f
		}
	}
	return nil
}

// piece of a concatenation: a constant or an expression
type piece struct {
	isConst bool
	s       string
	e       ast.Expr
	env     *lenv
}

// singleDef: the one expression a never-modified local was defined with
func singleDef(env *lenv, id *ast.Ident) (ast.Expr, bool) {
	info := env.fn.info
	v, ok := info.Uses[id].(*types.Var)
	if !ok || v.IsField() {
		return nil, false
	}
	if _, isP := ownerEnv(env, v); isP {
		return nil, false
	}
	root := env.fn.root
	rhs := root.assigns[v]
	if root.nassign[v] != 1 || len(rhs) != 1 || len(root.stmts[v]) != 1 {
		return nil, false
	}
	switch st := root.stmts[v][0].(type) {
	case *ast.AssignStmt:
		if len(st.Lhs) != len(st.Rhs) {
			return nil, false
		}
	case *ast.ValueSpec:
		if len(st.Names) != len(st.Values) {
			return nil, false
		}
	default:
		return nil, false
	}
	if _, isLit := rhs[0].(*ast.FuncLit); isLit {
		return nil, false
	}
	return rhs[0], true
}

// sprintfPieces: fmt.Sprintf with a constant format using only %s %v %d → the pieces in order
func (l *leafer) sprintfPieces(env *lenv, c *ast.CallExpr) ([]piece, bool) {
	f := calleeFunc(env.fn.info, c)
	if f == nil || f.FullName() != "fmt.Sprintf" || len(c.Args) == 0 || c.Ellipsis.IsValid() {
		return nil, false
	}
	tv := env.fn.info.Types[c.Args[0]]
	if tv.Value == nil || tv.Value.Kind() != constant.String {
		return nil, false
	}
	format := constant.StringVal(tv.Value)
	var res []piece
	var cur strings.Builder
	argi := 1
	for i := 0; i < len(format); i++ {
		ch := format[i]
		if ch != '%' {
			cur.WriteByte(ch)
			continue
		}
		if i+1 >= len(format) {
			return nil, false
		}
		i++
		switch format[i] {
		case '%':
			cur.WriteByte('%')
		case 's', 'v', 'd':
			if argi >= len(c.Args) {
				return nil, false
			}
			if cur.Len() > 0 {
				res = append(res, piece{isConst: true, s: cur.String()})
				cur.Reset()
			}
			res = append(res, piece{e: c.Args[argi], env: env})
			argi++
		default:
			return nil, false
		}
	}
	if argi != len(c.Args) {
		return nil, false
	}
	if cur.Len() > 0 {
		res = append(res, piece{isConst: true, s: cur.String()})
	}
	return res, true
}

func (l *leafer) flatten(env *lenv, e ast.Expr, depth int, out *[]piece) {
	e = ast.Unparen(e)
	if tv, ok := env.fn.info.Types[e]; ok && tv.Value != nil {
		switch tv.Value.Kind() {
		case constant.String:
			*out = append(*out, piece{isConst: true, s: constant.StringVal(tv.Value)})
			return
		case constant.Int:
			// only reached as an operand of Sprintf / Itoa: the decimal text
			*out = append(*out, piece{isConst: true, s: tv.Value.ExactString()})
			return
		}
	}
	if depth < 6 {
		switch x := e.(type) {
		case *ast.BinaryExpr:
			if x.Op == token.ADD {
				l.flatten(env, x.X, depth+1, out)
				l.flatten(env, x.Y, depth+1, out)
				return
			}
		case *ast.Ident:
			if def, ok := singleDef(env, x); ok {
				l.flatten(env, def, depth+1, out)
				return
			}
		case *ast.CallExpr:
			if f := calleeFunc(env.fn.info, x); f != nil && f.FullName() == "strconv.Itoa" && len(x.Args) == 1 {
				if tv, ok := env.fn.info.Types[x.Args[0]]; ok && tv.Value != nil && tv.Value.Kind() == constant.Int {
					*out = append(*out, piece{isConst: true, s: tv.Value.ExactString()})
					return
				}
			}
			if ps, ok := l.sprintfPieces(env, x); ok {
				for _, p := range ps {
					if p.isConst {
						*out = append(*out, p)
					} else {
						l.flatten(p.env, p.e, depth+1, out)
					}
				}
				return
			}
		}
	}
	*out = append(*out, piece{e: e, env: env})
}

// concat: adjacent constants merged, everything else followed
func (l *leafer) concat(env *lenv, e ast.Expr) {
	var ps []piece
	l.flatten(env, e, 0, &ps)
	var cur strings.Builder
	flush := func() {
		l.constLeaf(cur.String())
		cur.Reset()
	}
	for _, p := range ps {
		if p.isConst {
			cur.WriteString(p.s)
			continue
		}
		flush()
		if b, ok := ast.Unparen(p.e).(*ast.BinaryExpr); ok && b.Op == token.ADD {
			l.expr(p.env, b.X, -1)
			l.expr(p.env, b.Y, -1)
		} else if c, ok := p.e.(*ast.CallExpr); ok {
			l.call(p.env, c, -1)
		} else if id, ok := p.e.(*ast.Ident); ok {
			l.ident(p.env, id, -1)
		} else {
			l.expr(p.env, p.e, -1)
		}
	}
	flush()
}

func (l *leafer) selector(env *lenv, x *ast.SelectorExpr, want int) {
	info := env.fn.info
	sel := info.Selections[x]
	if sel == nil {
		// pkg.Name
		if v, ok := info.Uses[x.Sel].(*types.Var); ok && v.Pkg() != nil {
			if l.a.sourcePkg(v.Pkg()) {
				l.add("src " + shortPkg(v.Pkg().Path()))
			} else {
				l.add("global " + shortPkg(v.Pkg().Path()) + "." + v.Name())
			}
		}
		return
	}
	if sel.Kind() != types.FieldVal {
		return
	}
	field, _ := sel.Obj().(*types.Var)
	if field == nil {
		return
	}
	switch {
	case l.a.sourcePkg(field.Pkg()):
		l.add("src " + shortPkg(field.Pkg().Path()))
	case l.a.modulePkg(field.Pkg()) && len(l.a.fieldAssigns[field]) > 0:
		l.field(field)
	default:
		l.expr(env, x.X, -1)
	}
}

// field of a struct type of the module: every assignment anywhere in the module
func (l *leafer) field(field *types.Var) {
	if l.seenField[field] {
		return
	}
	l.seenField[field] = true
	l.inField++
	for _, fa := range l.a.fieldAssigns[field] {
		l.expr(&lenv{fn: fa.fn}, fa.rhs, fa.idx)
	}
	l.inField--
}

func (l *leafer) call(env *lenv, c *ast.CallExpr, want int) {
	info := env.fn.info
	fun := ast.Unparen(c.Fun)
	if tv, ok := info.Types[fun]; ok && tv.IsType() {
		for _, a := range c.Args {
			l.expr(env, a, -1)
		}
		return
	}
	args := func() {
		for _, a := range c.Args {
			l.expr(env, a, -1)
		}
	}
	if id, ok := fun.(*ast.Ident); ok {
		if _, isB := info.Uses[id].(*types.Builtin); isB {
			args()
			return
		}
		if v, ok := info.Uses[id].(*types.Var); ok {
			for ev := env; ev != nil; ev = ev.parent {
				if cl := ev.fn.root.closureOf[v]; cl != nil {
					l.expand(env, cl, c, nil, want)
					return
				}
			}
			l.add("dyn")
			args()
			return
		}
	}
	if fl, ok := fun.(*ast.FuncLit); ok {
		if g := l.a.byLit[fl]; g != nil {
			l.expand(env, g, c, nil, want)
			return
		}
	}
	fobj := calleeFunc(info, c)
	if fobj == nil {
		l.add("dyn")
		args()
		return
	}
	fobj = fobj.Origin()
	var recv ast.Expr
	if se, ok := fun.(*ast.SelectorExpr); ok && info.Selections[se] != nil {
		recv = se.X
	}
	if l.a.modulePkg(fobj.Pkg()) {
		if l.a.sourcePkg(fobj.Pkg()) {
			l.add("src " + shortPkg(fobj.Pkg().Path()))
			l.expr(env, recv, -1)
			args()
			return
		}
		if g := l.a.byObj[fobj]; g != nil {
			l.expand(env, g, c, recv, want)
			return
		}
		impls := l.a.implementations(fobj)
		if len(impls) == 0 {
			l.add("dyn")
			args()
			return
		}
		for _, n := range impls {
			l.expand(env, l.a.funcs[n], c, recv, want)
		}
		return
	}
	if fobj.Pkg() == nil {
		// error.Error and the like
		l.expr(env, recv, -1)
		args()
		return
	}
	if _, touches := classifyExt(info, fobj, c, recv); touches {
		l.add("reply " + fobj.FullName())
		return
	}
	if _, ok := l.sprintfPieces(env, c); ok {
		l.concat(env, c)
		return
	}
	if fobj.FullName() == "strconv.Itoa" && len(c.Args) == 1 {
		if tv, ok := info.Types[c.Args[0]]; ok && tv.Value != nil {
			l.concat(env, c)
			return
		}
	}
	if !transparent[fobj.FullName()] {
		l.add("call " + fobj.FullName())
	}
	l.expr(env, recv, -1)
	args()
}

// expand: the leaves of what g returns (result `want`, all if < 0), parameters bound to the arguments
func (l *leafer) expand(env *lenv, g *wfunc, c *ast.CallExpr, recv ast.Expr, want int) {
	if g == nil || g.body == nil {
		return
	}
	if env.depth >= 10 {
		l.add("opaque depth")
		return
	}
	for ev := env; ev != nil; ev = ev.parent {
		if ev.fn == g && ev.bind != nil {
			l.add("opaque recursion")
			return
		}
	}
	ne := &lenv{fn: g, bind: map[types.Object]ast.Expr{}, parent: env, depth: env.depth + 1}
	if g.sig != nil {
		np := g.sig.Params().Len()
		for i := 0; i < np; i++ {
			p := g.sig.Params().At(i)
			if g.sig.Variadic() && i == np-1 {
				ne.bind[p] = nil
				for j := i; j < len(c.Args); j++ {
					l.expr(env, c.Args[j], -1)
				}
				continue
			}
			if i < len(c.Args) {
				ne.bind[p] = c.Args[i]
			} else {
				ne.bind[p] = nil
			}
		}
		if r := g.sig.Recv(); r != nil {
			ne.bind[r] = nil // the receiver object itself is not data; its fields are followed module-wide
		}
	}
	nres := 0
	if g.sig != nil {
		nres = g.sig.Results().Len()
	}
	ast.Inspect(g.body, func(n ast.Node) bool {
		switch r := n.(type) {
		case *ast.FuncLit:
			return false
		case *ast.ReturnStmt:
			switch {
			case len(r.Results) == 0:
				for i := 0; i < nres; i++ {
					if want < 0 || want == i || nres == 1 {
						rv := g.sig.Results().At(i)
						if rv.Name() != "" && !isErrorType(rv.Type()) {
							l.local(ne, rv, -1)
						}
					}
				}
			case len(r.Results) == nres:
				for i, e := range r.Results {
					if want < 0 || want == i || nres == 1 {
						l.expr(ne, e, -1)
					}
				}
			case len(r.Results) == 1:
				l.expr(ne, r.Results[0], want)
			}
		}
		return true
	})
}

// constValues: the finite set of complete constant strings the expression can evaluate to
func (a *wana) constValues(env *lenv, e ast.Expr, want, depth int) ([]string, bool) {
	if e == nil || depth > 6 {
		return nil, false
	}
	info := env.fn.info
	e = ast.Unparen(e)
	if tv, ok := info.Types[e]; ok {
		if s, ok := constText(tv); ok {
			return []string{s}, true
		}
	}
	union := func(sets ...[]string) []string {
		seen := map[string]bool{}
		var res []string
		for _, s := range sets {
			for _, x := range s {
				if !seen[x] {
					seen[x] = true
					res = append(res, x)
				}
			}
		}
		return res
	}
	switch x := e.(type) {
	case *ast.Ident:
		v, ok := info.Uses[x].(*types.Var)
		if !ok || v.IsField() {
			return nil, false
		}
		if ev, isP := ownerEnv(env, v); isP {
			if ev != nil && ev.bind != nil && ev.bind[v] != nil && len(ev.fn.root.stmts[v]) == 0 {
				return a.constValues(ev.parent, ev.bind[v], -1, depth+1)
			}
			return nil, false
		}
		var fr *lenv
		for ev := env; ev != nil; ev = ev.parent {
			if _, ok := ev.fn.root.stmts[v]; ok {
				fr = ev
				break
			}
		}
		if fr == nil {
			return nil, false
		}
		root := fr.fn.root
		rhs := root.assigns[v]
		if len(rhs) == 0 || len(rhs) != root.nassign[v] || len(root.stmts[v]) != len(rhs) {
			return nil, false
		}
		var res []string
		for i, st := range root.stmts[v] {
			idx := -1
			switch s := st.(type) {
			case *ast.AssignStmt:
				if s.Tok != token.ASSIGN && s.Tok != token.DEFINE {
					return nil, false
				}
				if len(s.Lhs) != len(s.Rhs) {
					for j, lh := range s.Lhs {
						if id, ok := lh.(*ast.Ident); ok && (info.Defs[id] == v || info.Uses[id] == v) {
							idx = j
						}
					}
				}
			case *ast.ValueSpec:
			default:
				return nil, false
			}
			vs, ok := a.constValues(fr, rhs[i], idx, depth+1)
			if !ok {
				return nil, false
			}
			res = union(res, vs)
		}
		return res, true
	case *ast.BinaryExpr:
		if x.Op != token.ADD {
			return nil, false
		}
		l1, ok1 := a.constValues(env, x.X, -1, depth+1)
		l2, ok2 := a.constValues(env, x.Y, -1, depth+1)
		if !ok1 || !ok2 || len(l1)*len(l2) > 8 {
			return nil, false
		}
		var res []string
		for _, p := range l1 {
			for _, q := range l2 {
				res = append(res, p+q)
			}
		}
		return union(res), true
	case *ast.CallExpr:
		fobj := calleeFunc(info, x)
		if fobj == nil {
			return nil, false
		}
		fobj = fobj.Origin()
		g := a.byObj[fobj]
		if g == nil || g.body == nil || a.sourcePkg(fobj.Pkg()) || g.sig == nil || env.depth > 6 {
			return nil, false
		}
		for ev := env; ev != nil; ev = ev.parent {
			if ev.fn == g && ev.bind != nil {
				return nil, false
			}
		}
		ne := &lenv{fn: g, bind: map[types.Object]ast.Expr{}, parent: env, depth: env.depth + 1}
		if g.sig.Variadic() {
			return nil, false
		}
		for i := 0; i < g.sig.Params().Len() && i < len(x.Args); i++ {
			ne.bind[g.sig.Params().At(i)] = x.Args[i]
		}
		nres := g.sig.Results().Len()
		okAll, any := true, false
		var res []string
		ast.Inspect(g.body, func(n ast.Node) bool {
			switch r := n.(type) {
			case *ast.FuncLit:
				return false
			case *ast.ReturnStmt:
				if len(r.Results) != nres {
					okAll = false
					return false
				}
				i := want
				if nres == 1 {
					i = 0
				}
				if i < 0 || i >= nres {
					okAll = false
					return false
				}
				vs, ok := a.constValues(ne, r.Results[i], -1, depth+1)
				if !ok {
					okAll = false
					return false
				}
				any = true
				res = union(res, vs)
			}
			return true
		})
		if !okAll || !any {
			return nil, false
		}
		return res, true
	}
	return nil, false
}
