module callgraphgen

go 1.23
