// writers.go: layer 2 of C11 by TYPE instead of by name.
//
// The two programs are type-checked (go/packages); every call in a function of the module is
// looked at:
//
//   - a call of a function OUTSIDE the module that gets a value of a connection / client type
//     (goexpect.GExpect, http.Client / Transport / RoundTripper / Request, exec.Cmd, net.Conn,
//     net.Dialer, tls.Conn — as receiver or argument), or that is one of the constructors that
//     open a connection or assemble a request (expect.Spawn*, exec.Command*, http.NewRequest*,
//     http.Get/Post/…, net/tls Dial*), is a DEVICE-I/O call.  The table `ioTable` says for the
//     ones known which of its arguments is the data that goes to the device (class send /
//     connect / exec / assemble) or that it only reads (class read — not emitted).  A device-I/O
//     call that is not in the table is emitted with class "unclassified": nothing the Lean side
//     accepts, so a new kind of writer reachable under compare fails the tie.
//     A method value of such a function (`f := c.Send`) and a use of http.DefaultClient /
//     http.DefaultTransport count as unclassified as well.
//   - CARRIERS (fixpoint): a function of the module is a carrier for its parameter i if the
//     parameter (of a data type: string, []string, []byte, io.Reader, url.Values, *url.URL,
//     *http.Request, *exec.Cmd) flows — through local assignments, flow-insensitively, also into
//     closures defined inside it — into a data argument of a device-I/O call or of a call of
//     another carrier.  Every call of a carrier is a writer site too: this is how a request that
//     is assembled in a helper is classified at the place where its content is decided.  Calls
//     through interfaces are resolved to all implementations in the module, calls of local closure
//     variables to the closure; any other call of a function value is matched against the VTA call
//     graph (a carrier the caller may call according to VTA and that no static call explains).
//
// For every data argument of every writer site one row is emitted: the constant value if the
// type checker knows it (kind "lit": literals, constants, constant concatenations; a local
// variable whose every assignment is a constant gives one row per value), the parameter it is
// if the argument is exactly a carrier parameter that is never assigned in the function (kind
// "param"), or the set of LEAVES of its data flow (kind "flow", see leaves.go: constants,
// parameters, foreign API calls, device replies, data of the module's source packages — no local
// names, helpers of the module are transparent).  Every row also carries its SINKS: the foreign
// device-I/O functions (with argument index) the data finally reaches, so that the Lean side can key
// its tables by (package, sinks) instead of by the names of functions of the module.
package main

import (
	"bytes"
	"fmt"
	"go/ast"
	"go/constant"
	"go/printer"
	"go/token"
	"go/types"
	"sort"
	"strings"

	"golang.org/x/tools/go/packages"
)

type wrow struct {
	fn, pkg, callee, class string
	arg                    int
	kind, text             string
	owner                  string // kind == "param": the function whose parameter it is
	pidx                   int
	sinks                  []string // foreign device-I/O functions (#argument) the data finally reaches
	leaves                 []string // kind == "flow"
}

// one device-I/O call (not per argument): the inventory of what touches the connection
type iocall struct{ fn, pkg, callee, class string }

type ioSpec struct {
	class string // send | connect | exec | assemble | read
	data  []int  // indices of the data arguments; -1 = the receiver; nil with variadic=true: all
	all   bool   // every argument is data
}

const gx = "github.com/tailscale/goexpect"

var ioTable = map[string]ioSpec{
	"(*" + gx + ".GExpect).Send":             {class: "send", data: []int{0}},
	"(*" + gx + ".GExpect).SendSignal":       {class: "send", data: []int{0}},
	"(*" + gx + ".GExpect).ExpectBatch":      {class: "send", data: []int{0}},
	"(*" + gx + ".GExpect).Expect":           {class: "read"},
	"(*" + gx + ".GExpect).ExpectSwitchCase": {class: "read"},
	"(*" + gx + ".GExpect).String":           {class: "read"},
	gx + ".Spawn":                            {class: "connect", all: true},
	gx + ".SpawnWithArgs":                    {class: "connect", data: []int{0}},
	gx + ".PartialMatch":                     {class: "read"},
	gx + ".Verbose":                          {class: "read"},
	gx + ".CheckDuration":                    {class: "read"},
	"(*net/http.Client).Get":                 {class: "send", data: []int{0}},
	"(*net/http.Client).Head":                {class: "send", data: []int{0}},
	"(*net/http.Client).Post":                {class: "send", data: []int{0, 1, 2}},
	"(*net/http.Client).PostForm":            {class: "send", data: []int{0, 1}},
	"(*net/http.Client).Do":                  {class: "send", data: []int{0}},
	"net/http.Get":                           {class: "send", data: []int{0}},
	"net/http.Head":                          {class: "send", data: []int{0}},
	"net/http.Post":                          {class: "send", data: []int{0, 1, 2}},
	"net/http.PostForm":                      {class: "send", data: []int{0, 1}},
	"net/http.NewRequest":                    {class: "assemble", data: []int{0, 1, 2}},
	"net/http.NewRequestWithContext":         {class: "assemble", data: []int{1, 2, 3}},
	"(*net/http.Transport).RoundTrip":        {class: "send", data: []int{0}},
	"(net/http.RoundTripper).RoundTrip":      {class: "send", data: []int{0}},
	"os/exec.Command":                        {class: "exec", all: true},
	"(*os/exec.Cmd).Run":                     {class: "exec", data: []int{-1}},
	"(*os/exec.Cmd).Start":                   {class: "exec", data: []int{-1}},
	"(*os/exec.Cmd).Output":                  {class: "exec", data: []int{-1}},
	"(*os/exec.Cmd).CombinedOutput":          {class: "exec", data: []int{-1}},
	"(*os/exec.Cmd).String":                  {class: "read"},
	"(*net.Dialer).Dial":                     {class: "connect", all: true},
}

// named types whose values ARE the connection to the device (or the request about to be sent)
var connTypes = map[string]bool{
	gx + ".GExpect": true, gx + ".Expecter": true,
	"net/http.Client": true, "net/http.Transport": true, "net/http.RoundTripper": true, "net/http.Request": true,
	"os/exec.Cmd": true, "net.Conn": true, "net.TCPConn": true, "net.Dialer": true,
	"crypto/tls.Conn": true, "crypto/tls.Dialer": true,
}

// packages of which every function is device I/O unless the table says otherwise
var ioPkgs = map[string]bool{gx: true, "os/exec": true, "golang.org/x/crypto/ssh": true}

func namedOf(t types.Type) string {
	for {
		switch x := t.(type) {
		case *types.Pointer:
			t = x.Elem()
			continue
		case *types.Named:
			if x.Obj().Pkg() == nil {
				return x.Obj().Name()
			}
			return x.Obj().Pkg().Path() + "." + x.Obj().Name()
		case *types.Alias:
			t = types.Unalias(x)
			continue
		}
		return ""
	}
}

func isConnType(t types.Type) bool { return t != nil && connTypes[namedOf(t)] }

func isDataType(t types.Type) bool {
	if t == nil {
		return false
	}
	switch namedOf(t) {
	case "net/url.Values", "net/url.URL", "net/http.Request", "os/exec.Cmd", "io.Reader", "bytes.Reader", "bytes.Buffer", "strings.Reader":
		return true
	}
	switch u := t.Underlying().(type) {
	case *types.Basic:
		return u.Info()&types.IsString != 0
	case *types.Slice:
		if b, ok := u.Elem().Underlying().(*types.Basic); ok {
			return b.Info()&types.IsString != 0 || b.Kind() == types.Byte || b.Kind() == types.Uint8
		}
	}
	return false
}

// one function body of the module (declaration or literal)
type wfunc struct {
	name    string // SSA-style
	pkg     string // short package
	pkgPath string
	info    *types.Info
	body    *ast.BlockStmt
	sig     *types.Signature
	outer   *wfunc // lexically enclosing function
	root    *wfunc // outermost declaration
	obj     *types.Func
	lit     *ast.FuncLit
	params  map[types.Object]int
	// of the root only: flow-insensitive dependencies between variables, assignments
	deps    map[types.Object]map[types.Object]bool
	assigns map[types.Object][]ast.Expr
	nassign map[types.Object]int
	// closures assigned once to a local variable
	closureOf map[types.Object]*wfunc
	// statements that define or may modify a local variable (assignments to it or to its fields,
	// method calls on it with arguments), for the text of a non-literal argument
	stmts map[types.Object][]ast.Node
}

type wcall struct {
	in     *wfunc
	call   *ast.CallExpr
	ext    string   // external callee (full name) or ""
	spec   ioSpec   // for ext
	mods   []string // module callees (SSA names): static, interface implementations or closure
	dyn    bool     // call of a function value that is not a known closure
	recv   ast.Expr // receiver expression of a method call
	mvalue bool     // not a call: method value / variable use
}

type wana struct {
	fset     *token.FileSet
	funcs    map[string]*wfunc
	byObj    map[*types.Func]*wfunc
	calls    []*wcall
	carriers map[string]map[int]bool
	named    []*types.Named // module named types (for interface resolution)
	raw      map[string]map[string]bool
	// sinks[f][i]: foreign device-I/O functions parameter i of carrier f finally reaches
	sinks map[string]map[int]map[string]bool
	// packages of the module with a device-I/O call or a carrier; the others are SOURCES of data
	devPkgs      map[string]bool
	fieldAssigns map[*types.Var][]fieldAssign
	byLit        map[*ast.FuncLit]*wfunc
	// static calls of a function of the module from its own package
	callSites map[string][]callSite
	// functions of the module used otherwise than as the callee of a static call (method value,
	// function value handed on): their call sites are not all known
	usedAsValue map[*types.Func]bool
	// nodes reachable from the compare roots (call graph of main.go)
	reach map[string]bool
}

type callSite struct {
	in   *wfunc
	call *ast.CallExpr
}

func (a *wana) txt(n ast.Node) string {
	var buf bytes.Buffer
	printer.Fprint(&buf, a.fset, n)
	return strings.Join(strings.Fields(buf.String()), " ")
}

func shortPkg(path string) string {
	p := strings.TrimPrefix(path, mod+"pkg/")
	return strings.TrimPrefix(p, mod)
}

func (a *wana) addFunc(f *wfunc) {
	f.params = map[types.Object]int{}
	if f.sig != nil {
		for i := 0; i < f.sig.Params().Len(); i++ {
			f.params[f.sig.Params().At(i)] = i
		}
		if r := f.sig.Recv(); r != nil {
			f.params[r] = 99 // never a data type; listed so that it is not described as a local
		}
	}
	a.funcs[f.name] = f
	if f.obj != nil {
		a.byObj[f.obj] = f
	}
	if f.lit != nil {
		a.byLit[f.lit] = f
	}
}

// walk registers f's closures (SSA numbering: literals in source order, nested ones under their parent)
func (a *wana) walk(f *wfunc) {
	anon := 0
	ast.Inspect(f.body, func(n ast.Node) bool {
		if fl, ok := n.(*ast.FuncLit); ok {
			anon++
			sig, _ := f.info.TypeOf(fl).(*types.Signature)
			c := &wfunc{name: fmt.Sprintf("%s$%d", f.name, anon), pkg: f.pkg, pkgPath: f.pkgPath, info: f.info, body: fl.Body, sig: sig,
				outer: f, root: f.root, lit: fl}
			a.addFunc(c)
			a.walk(c)
			return false
		}
		return true
	})
}

func varsOf(info *types.Info, e ast.Node, out map[types.Object]bool) {
	ast.Inspect(e, func(n ast.Node) bool {
		if id, ok := n.(*ast.Ident); ok {
			if v, ok := info.Uses[id].(*types.Var); ok && !v.IsField() {
				out[v] = true
			}
			if v, ok := info.Defs[id].(*types.Var); ok && !v.IsField() {
				out[v] = true
			}
		}
		return true
	})
}

func baseIdent(e ast.Expr) *ast.Ident {
	for {
		switch x := e.(type) {
		case *ast.Ident:
			return x
		case *ast.SelectorExpr:
			e = x.X
		case *ast.IndexExpr:
			e = x.X
		case *ast.StarExpr:
			e = x.X
		case *ast.ParenExpr:
			e = x.X
		default:
			return nil
		}
	}
}

// flows of one declaration (all its closures included)
func (a *wana) flows(root *wfunc) {
	root.deps = map[types.Object]map[types.Object]bool{}
	root.assigns = map[types.Object][]ast.Expr{}
	root.nassign = map[types.Object]int{}
	root.closureOf = map[types.Object]*wfunc{}
	root.stmts = map[types.Object][]ast.Node{}
	info := root.info
	obj := func(id *ast.Ident) types.Object {
		if o := info.Defs[id]; o != nil {
			return o
		}
		return info.Uses[id]
	}
	add := func(l types.Object, rhs ...ast.Node) {
		if l == nil {
			return
		}
		if root.deps[l] == nil {
			root.deps[l] = map[types.Object]bool{}
		}
		for _, r := range rhs {
			if r != nil {
				varsOf(info, r, root.deps[l])
			}
		}
	}
	ast.Inspect(root.body, func(n ast.Node) bool {
		switch v := n.(type) {
		case *ast.AssignStmt:
			for i, l := range v.Lhs {
				id := baseIdent(l)
				if id == nil {
					continue
				}
				o := obj(id)
				root.stmts[o] = append(root.stmts[o], v)
				if _, plain := l.(*ast.Ident); plain {
					root.nassign[o]++
					if len(v.Lhs) == len(v.Rhs) {
						root.assigns[o] = append(root.assigns[o], v.Rhs[i])
					} else if len(v.Rhs) == 1 {
						root.assigns[o] = append(root.assigns[o], v.Rhs[0])
					}
					if v.Tok != token.ASSIGN && v.Tok != token.DEFINE {
						root.nassign[o]++ // x += …: depends on itself
					}
				}
				if len(v.Lhs) == len(v.Rhs) {
					add(o, v.Rhs[i])
				} else {
					for _, r := range v.Rhs {
						add(o, r)
					}
				}
			}
		case *ast.ValueSpec:
			for i, id := range v.Names {
				o := obj(id)
				root.nassign[o]++
				root.stmts[o] = append(root.stmts[o], v)
				if i < len(v.Values) {
					root.assigns[o] = append(root.assigns[o], v.Values[i])
					add(o, v.Values[i])
				} else if len(v.Values) == 1 {
					root.assigns[o] = append(root.assigns[o], v.Values[0])
					add(o, v.Values[0])
				}
			}
		case *ast.RangeStmt:
			for _, l := range []ast.Expr{v.Key, v.Value} {
				if l == nil {
					continue
				}
				if id := baseIdent(l); id != nil {
					o := obj(id)
					root.nassign[o] += 2 // a loop variable has many values
					root.stmts[o] = append(root.stmts[o], v)
					add(o, v.X)
				}
			}
		case *ast.IncDecStmt:
			if id := baseIdent(v.X); id != nil {
				root.nassign[obj(id)] += 2
			}
		case *ast.CallExpr:
			// x.M(args) may store the arguments in x (params.Set("password", pass)); a device-I/O call
			// (s.client.Do(req), c.con.Send(line)) hands them to the device instead — that is a sink
			isIO := false
			if fo := calleeFunc(info, v); fo != nil && fo.Pkg() != nil && !strings.HasPrefix(fo.Pkg().Path(), mod) {
				var recv ast.Expr
				if se, ok := ast.Unparen(v.Fun).(*ast.SelectorExpr); ok && info.Selections[se] != nil {
					recv = se.X
				}
				_, isIO = classifyExt(info, fo.Origin(), v, recv)
			}
			if sel, ok := v.Fun.(*ast.SelectorExpr); ok && !isIO {
				if id := baseIdent(sel.X); id != nil {
					if o, ok := obj(id).(*types.Var); ok && !o.IsField() {
						for _, arg := range v.Args {
							add(o, arg)
						}
						if len(v.Args) > 0 {
							root.stmts[o] = append(root.stmts[o], v)
						}
					}
				}
			}
			// F(&x, args) / F(p, args) with a local pointer p: the other arguments may end up in x
			// (json.Unmarshal(data, &x); k := new(T); xml.Unmarshal(data, k))
			foreign := false
			if fo := calleeFunc(info, v); fo != nil && fo.Pkg() != nil && !strings.HasPrefix(fo.Pkg().Path(), mod) {
				foreign = true
			}
			for _, arg := range v.Args {
				if !foreign {
					break
				}
				target := ast.Expr(nil)
				if u, ok := ast.Unparen(arg).(*ast.UnaryExpr); ok && u.Op == token.AND {
					target = u.X
				} else if id, ok := ast.Unparen(arg).(*ast.Ident); ok {
					if _, isPtr := info.TypeOf(id).(*types.Pointer); isPtr && len(v.Args) > 1 {
						target = id
					}
				}
				if target != nil {
					if id := baseIdent(target); id != nil {
						if o, ok := obj(id).(*types.Var); ok && !o.IsField() {
							for _, other := range v.Args {
								if other != arg {
									add(o, other)
								}
							}
							root.stmts[o] = append(root.stmts[o], v)
						}
					}
				}
			}
		}
		return true
	})
	// closures assigned exactly once to a local variable
	for name, f := range a.funcs {
		_ = name
		if f.root != root || f.lit == nil {
			continue
		}
		for o, rhs := range root.assigns {
			if root.nassign[o] == 1 && len(rhs) == 1 && rhs[0] == ast.Expr(f.lit) {
				root.closureOf[o] = f
			}
		}
	}
}

// paramsOf: the data parameters (of f or of a lexically enclosing function) the expression may depend on
func (a *wana) paramsOf(f *wfunc, e ast.Expr) map[*wfunc]map[int]bool {
	seen := map[types.Object]bool{}
	start := map[types.Object]bool{}
	varsOf(f.info, e, start)
	var todo []types.Object
	for o := range start {
		todo = append(todo, o)
	}
	res := map[*wfunc]map[int]bool{}
	for len(todo) > 0 {
		o := todo[len(todo)-1]
		todo = todo[:len(todo)-1]
		if seen[o] {
			continue
		}
		seen[o] = true
		for g := f; g != nil; g = g.outer {
			if i, ok := g.params[o]; ok && isDataType(o.Type()) {
				if res[g] == nil {
					res[g] = map[int]bool{}
				}
				res[g][i] = true
			}
		}
		for d := range f.root.deps[o] {
			todo = append(todo, d)
		}
	}
	return res
}

// isParamOf: o is a parameter of f or of a function around it
func isParamOf(f *wfunc, o types.Object) bool {
	for g := f; g != nil; g = g.outer {
		if _, ok := g.params[o]; ok {
			return true
		}
	}
	return false
}

func constText(tv types.TypeAndValue) (string, bool) {
	if tv.IsNil() {
		return "nil", true
	}
	if tv.Value == nil {
		return "", false
	}
	if tv.Value.Kind() == constant.String {
		return constant.StringVal(tv.Value), true
	}
	return tv.Value.ExactString(), true
}

// rowsFor: one row per data argument
func (a *wana) rowsFor(f *wfunc, callee, class string, idx int, e ast.Expr, sinks []string) []wrow {
	base := wrow{fn: f.name, pkg: f.pkg, callee: callee, class: class, arg: idx, sinks: sinks}
	if e == nil {
		r := base
		r.kind, r.text, r.leaves = "flow", "<missing>", []string{"opaque missing"}
		return []wrow{r}
	}
	// a finite set of complete constants (through never-modified locals, concatenation of
	// constants, helpers of the module that return constants)
	if vals, ok := a.constValues(&lenv{fn: f}, e, -1, 0); ok && len(vals) > 0 {
		var rows []wrow
		for _, s := range vals {
			r := base
			r.kind, r.text = "lit", s
			rows = append(rows, r)
		}
		return rows
	}
	if id, ok := ast.Unparen(e).(*ast.Ident); ok {
		if o, ok := f.info.Uses[id].(*types.Var); ok {
			for g := f; g != nil; g = g.outer {
				// exactly a parameter that the function never assigns: checked at every caller
				if i, ok := g.params[o]; ok && isDataType(o.Type()) && f.root.nassign[o] == 0 && len(f.root.stmts[o]) == 0 {
					r := base
					r.kind, r.text, r.owner, r.pidx = "param", "", g.name, i
					return []wrow{r}
				}
			}
		}
	}
	r := base
	r.kind, r.text, r.leaves = "flow", a.txt(e), a.leavesOf(f, e)
	if len(r.text) > 300 {
		r.text = r.text[:300] + "…"
	}
	return []wrow{r}
}

func (a *wana) implementations(m *types.Func) []string {
	sig := m.Type().(*types.Signature)
	if sig.Recv() == nil {
		return nil
	}
	iface, ok := sig.Recv().Type().Underlying().(*types.Interface)
	if !ok {
		return nil
	}
	var res []string
	for _, n := range a.named {
		for _, t := range []types.Type{n, types.NewPointer(n)} {
			if _, isI := n.Underlying().(*types.Interface); isI {
				continue
			}
			if !types.Implements(t, iface) {
				continue
			}
			obj, _, _ := types.LookupFieldOrMethod(t, true, m.Pkg(), m.Name())
			if fn, ok := obj.(*types.Func); ok {
				if f := a.byObj[fn]; f != nil {
					res = append(res, f.name)
				}
			}
		}
	}
	sort.Strings(res)
	return dedup(res)
}

func dedup(l []string) []string {
	var out []string
	for i, s := range l {
		if i == 0 || s != l[i-1] {
			out = append(out, s)
		}
	}
	return out
}

func (a *wana) collectCalls(f *wfunc) {
	info := f.info
	isCallFun := map[ast.Expr]bool{}
	ast.Inspect(f.body, func(n ast.Node) bool {
		if _, ok := n.(*ast.FuncLit); ok {
			return false // belongs to the closure
		}
		switch v := n.(type) {
		case *ast.CallExpr:
			fun := ast.Unparen(v.Fun)
			isCallFun[fun] = true
			c := &wcall{in: f, call: v}
			var fobj *types.Func
			switch x := fun.(type) {
			case *ast.Ident:
				switch o := info.Uses[x].(type) {
				case *types.Func:
					fobj = o
				case *types.Var:
					if cl := f.root.closureOf[o]; cl != nil {
						c.mods = []string{cl.name}
					} else if _, isSig := o.Type().Underlying().(*types.Signature); isSig {
						c.dyn = true
					}
				}
			case *ast.SelectorExpr:
				if sel := info.Selections[x]; sel != nil {
					if o, ok := sel.Obj().(*types.Func); ok {
						fobj = o
						c.recv = x.X
					} else if _, isSig := sel.Type().Underlying().(*types.Signature); isSig {
						c.dyn = true // a field of function type
					}
				} else if o, ok := info.Uses[x.Sel].(*types.Func); ok {
					fobj = o // pkg.Func
				} else if o, ok := info.Uses[x.Sel].(*types.Var); ok {
					if _, isSig := o.Type().Underlying().(*types.Signature); isSig {
						c.dyn = true
					}
				}
			case *ast.FuncLit:
				// immediately called literal: its body is a closure of its own; calls inside are found there
			default:
				if tv, ok := info.Types[fun]; ok && !tv.IsType() {
					if _, isSig := tv.Type.Underlying().(*types.Signature); isSig {
						c.dyn = true
					}
				}
			}
			if fobj != nil {
				fobj = fobj.Origin()
				if fobj.Pkg() != nil && strings.HasPrefix(fobj.Pkg().Path(), mod) {
					if g := a.byObj[fobj]; g != nil {
						c.mods = []string{g.name}
					} else {
						c.mods = a.implementations(fobj) // interface method of the module
					}
				} else if fobj.Pkg() != nil {
					if spec, touches := classifyExt(info, fobj, v, c.recv); touches {
						c.ext = fobj.FullName()
						c.spec = spec
					}
				}
			}
			if c.ext != "" || len(c.mods) > 0 || c.dyn {
				a.calls = append(a.calls, c)
			}
		case *ast.SelectorExpr:
			// method value of a device-I/O function, not called
			if isCallFun[ast.Expr(v)] {
				return true
			}
			if sel := info.Selections[v]; sel != nil && sel.Kind() == types.MethodVal {
				if o, ok := sel.Obj().(*types.Func); ok && o.Pkg() != nil && !strings.HasPrefix(o.Pkg().Path(), mod) {
					full := o.Origin().FullName()
					spec, known := ioTable[full]
					if (known && spec.class != "read") || (!known && isConnType(info.TypeOf(v.X))) {
						a.calls = append(a.calls, &wcall{in: f, ext: full, recv: v.X, mvalue: true,
							spec: ioSpec{class: "method-value"}})
					}
				}
			}
			if o, ok := info.Uses[v.Sel].(*types.Var); ok && o.Pkg() != nil && o.Pkg().Path() == "net/http" &&
				(o.Name() == "DefaultClient" || o.Name() == "DefaultTransport") {
				a.calls = append(a.calls, &wcall{in: f, ext: "net/http." + o.Name(), mvalue: true, spec: ioSpec{class: "unclassified"}})
			}
		}
		return true
	})
}

// classifyExt: is the call of the foreign function device I/O, and of which class
func classifyExt(info *types.Info, fobj *types.Func, call *ast.CallExpr, recv ast.Expr) (ioSpec, bool) {
	if fobj == nil || fobj.Pkg() == nil {
		return ioSpec{}, false
	}
	full := fobj.FullName()
	spec, known := ioTable[full]
	touches := known || ioPkgs[fobj.Pkg().Path()]
	if recv != nil && isConnType(info.TypeOf(recv)) {
		touches = true
	}
	for _, arg := range call.Args {
		if isConnType(info.TypeOf(arg)) {
			touches = true
		}
	}
	if p := fobj.Pkg().Path(); (p == "net" || p == "crypto/tls") && (strings.HasPrefix(fobj.Name(), "Dial") || strings.HasPrefix(fobj.Name(), "Listen")) {
		touches = true
	}
	if !touches {
		return ioSpec{}, false
	}
	if known {
		return spec, true
	}
	return ioSpec{class: "unclassified", all: true}, true
}

func (c *wcall) argExpr(i int) ast.Expr {
	if i == -1 {
		return c.recv
	}
	if c.call == nil || len(c.call.Args) == 0 {
		return nil
	}
	if i < len(c.call.Args) {
		return c.call.Args[i]
	}
	return nil
}

// data arguments of a call given what is known about the callee now
func (a *wana) dataArgs(c *wcall, callee string) []int {
	if c.ext != "" {
		if c.spec.all && c.call != nil {
			var l []int
			for i := range c.call.Args {
				l = append(l, i)
			}
			return l
		}
		return c.spec.data
	}
	var l []int
	for i := range a.carriers[callee] {
		l = append(l, i)
	}
	sort.Ints(l)
	return l
}

// candidates of a dynamic call: carriers the caller may call according to VTA that no static call explains
func (a *wana) dynCallees(c *wcall, static map[string]map[string]bool) []string {
	var res []string
	for callee := range a.raw[c.in.name] {
		if len(a.carriers[callee]) == 0 || static[c.in.name][callee] {
			continue
		}
		if g := a.funcs[callee]; g != nil && g.sig != nil && c.call != nil && g.sig.Params().Len() == len(c.call.Args) {
			res = append(res, callee)
		}
	}
	sort.Strings(res)
	return res
}

// analyseWriters: rows + carriers.  raw = edges of the VTA call graph between functions of the module.
type loaded struct {
	pkgs []*packages.Package
	err  error
}

// loadPackages type-checks the two programs (started before the call graph is built: both take seconds)
func loadPackages(goDir string) chan loaded {
	ch := make(chan loaded, 1)
	go func() {
		cfg := &packages.Config{Mode: packages.NeedName | packages.NeedFiles | packages.NeedSyntax | packages.NeedTypes |
			packages.NeedTypesInfo | packages.NeedImports | packages.NeedDeps, Dir: goDir}
		pkgs, err := packages.Load(cfg, "./cmd/drc", "./cmd/do-approve")
		ch <- loaded{pkgs, err}
	}()
	return ch
}

func analyseWriters(ld loaded, raw map[string]map[string]bool, reach map[string]bool) ([]wrow, map[string]map[int]bool, []iocall) {
	pkgs, err := ld.pkgs, ld.err
	if err != nil {
		problem("go/packages: %v", err)
		return nil, nil, nil
	}
	a := &wana{funcs: map[string]*wfunc{}, byObj: map[*types.Func]*wfunc{}, carriers: map[string]map[int]bool{}, raw: raw,
		sinks: map[string]map[int]map[string]bool{}, devPkgs: map[string]bool{}, fieldAssigns: map[*types.Var][]fieldAssign{},
		byLit: map[*ast.FuncLit]*wfunc{}, callSites: map[string][]callSite{}, usedAsValue: map[*types.Func]bool{}, reach: reach}
	var roots []*wfunc
	packages.Visit(pkgs, nil, func(p *packages.Package) {
		if !strings.HasPrefix(p.PkgPath, mod) {
			return
		}
		for _, e := range p.Errors {
			problem("type check %s: %v", p.PkgPath, e)
		}
		a.fset = p.Fset
		for _, n := range p.Types.Scope().Names() {
			if tn, ok := p.Types.Scope().Lookup(n).(*types.TypeName); ok {
				if nt, ok := tn.Type().(*types.Named); ok {
					a.named = append(a.named, nt)
				}
			}
		}
		for _, file := range p.Syntax {
			for _, d := range file.Decls {
				fd, ok := d.(*ast.FuncDecl)
				if !ok || fd.Body == nil {
					continue
				}
				obj, _ := p.TypesInfo.Defs[fd.Name].(*types.Func)
				if obj == nil {
					continue
				}
				f := &wfunc{name: obj.FullName(), pkg: shortPkg(p.PkgPath), pkgPath: p.PkgPath, info: p.TypesInfo, body: fd.Body,
					sig: obj.Type().(*types.Signature), obj: obj}
				f.root = f
				a.addFunc(f)
				roots = append(roots, f)
			}
		}
	})
	sort.Slice(roots, func(i, j int) bool { return roots[i].name < roots[j].name })
	for _, f := range roots {
		a.walk(f)
	}
	for _, f := range roots {
		a.flows(f)
	}
	var names []string
	for n := range a.funcs {
		names = append(names, n)
	}
	sort.Strings(names)
	for _, n := range names {
		a.collectCalls(a.funcs[n])
	}
	static := map[string]map[string]bool{}
	for _, n := range names {
		a.collectCallSites(a.funcs[n])
	}
	for _, c := range a.calls {
		for _, m := range c.mods {
			if static[c.in.name] == nil {
				static[c.in.name] = map[string]bool{}
			}
			static[c.in.name][m] = true
		}
	}
	for _, n := range names {
		a.collectFieldAssigns(a.funcs[n])
	}
	// carriers and their sinks: fixpoint
	sinkSet := func(c *wcall, callee string, i int) map[string]bool {
		if c.ext != "" {
			return map[string]bool{sinkName(c.ext, i): true}
		}
		return a.sinks[callee][i]
	}
	for changed := true; changed; {
		changed = false
		for _, c := range a.calls {
			if c.mvalue {
				continue
			}
			callees := c.mods
			if c.ext != "" {
				callees = []string{c.ext}
			} else if c.dyn {
				callees = a.dynCallees(c, static)
			}
			for _, callee := range callees {
				if c.ext != "" && c.spec.class == "read" {
					continue
				}
				for _, i := range a.dataArgs(c, callee) {
					e := c.argExpr(i)
					if e == nil {
						continue
					}
					ss := sinkSet(c, callee, i)
					for g, idxs := range a.paramsOf(c.in, e) {
						for j := range idxs {
							if a.carriers[g.name] == nil {
								a.carriers[g.name] = map[int]bool{}
								a.sinks[g.name] = map[int]map[string]bool{}
							}
							if !a.carriers[g.name][j] {
								a.carriers[g.name][j] = true
								a.sinks[g.name][j] = map[string]bool{}
								changed = true
							}
							for k := range ss {
								if !a.sinks[g.name][j][k] {
									a.sinks[g.name][j][k] = true
									changed = true
								}
							}
						}
					}
				}
			}
		}
	}
	// device packages: a device-I/O call or a carrier in them; every other package of the module is a source
	for _, c := range a.calls {
		if c.ext != "" {
			a.devPkgs[c.in.pkgPath] = true
		}
	}
	for n := range a.carriers {
		if f := a.funcs[n]; f != nil {
			a.devPkgs[f.pkgPath] = true
		}
	}
	sorted := func(m map[string]bool) []string {
		var l []string
		for k := range m {
			l = append(l, k)
		}
		sort.Strings(l)
		return l
	}
	var ios []iocall
	// rows
	var rows []wrow
	for _, c := range a.calls {
		if c.mvalue {
			t := "method value"
			if c.recv != nil {
				t = "method value of " + a.txt(c.recv)
			}
			rows = append(rows, wrow{fn: c.in.name, pkg: c.in.pkg, callee: c.ext, class: c.spec.class, kind: "flow", text: t,
				sinks: []string{sinkName(c.ext, 0)}, leaves: []string{"method-value"}})
			ios = append(ios, iocall{c.in.name, c.in.pkg, c.ext, c.spec.class})
			continue
		}
		if c.ext != "" {
			if c.spec.class == "read" {
				continue
			}
			ios = append(ios, iocall{c.in.name, c.in.pkg, c.ext, c.spec.class})
			idxs := a.dataArgs(c, c.ext)
			if len(idxs) == 0 {
				rows = append(rows, wrow{fn: c.in.name, pkg: c.in.pkg, callee: c.ext, class: c.spec.class, kind: "flow", text: a.txt(c.call),
					sinks: []string{sinkName(c.ext, 0)}, leaves: []string{"opaque no-data-argument"}})
			}
			for _, i := range idxs {
				rows = append(rows, a.rowsFor(c.in, c.ext, c.spec.class, i, c.argExpr(i), []string{sinkName(c.ext, i)})...)
			}
			continue
		}
		callees := c.mods
		class := "carrier"
		if c.dyn {
			callees = a.dynCallees(c, static)
			class = "carrier-dyn"
		}
		for _, callee := range callees {
			for _, i := range a.dataArgs(c, callee) {
				rows = append(rows, a.rowsFor(c.in, callee, class, i, c.argExpr(i), sorted(a.sinks[callee][i]))...)
			}
		}
	}
	sort.SliceStable(rows, func(i, j int) bool {
		if rows[i].fn != rows[j].fn {
			return rows[i].fn < rows[j].fn
		}
		return false
	})
	return rows, a.carriers, ios
}

func sinkName(ext string, i int) string {
	if i < 0 {
		return ext + "#recv"
	}
	return fmt.Sprintf("%s#%d", ext, i)
}

// collectCallSites: static calls of functions / methods of the same package (not of closures), and
// which functions of the module are used as values
func (a *wana) collectCallSites(f *wfunc) {
	callee := map[*ast.Ident]bool{}
	ast.Inspect(f.body, func(n ast.Node) bool {
		switch v := n.(type) {
		case *ast.FuncLit:
			return false
		case *ast.CallExpr:
			switch x := ast.Unparen(v.Fun).(type) {
			case *ast.Ident:
				callee[x] = true
			case *ast.SelectorExpr:
				callee[x.Sel] = true
			}
			if fo := calleeFunc(f.info, v); fo != nil {
				if g := a.byObj[fo.Origin()]; g != nil && g.pkgPath == f.pkgPath {
					a.callSites[g.name] = append(a.callSites[g.name], callSite{f, v})
				}
			}
		}
		return true
	})
	ast.Inspect(f.body, func(n ast.Node) bool {
		switch v := n.(type) {
		case *ast.FuncLit:
			return false
		case *ast.Ident:
			if fo, ok := f.info.Uses[v].(*types.Func); ok && !callee[v] {
				a.usedAsValue[fo.Origin()] = true
			}
		}
		return true
	})
}

// collectFieldAssigns: every assignment to a field of a struct (x.f = e, x.f += e, T{f: e}, T{e0, e1})
func (a *wana) collectFieldAssigns(f *wfunc) {
	info := f.info
	ast.Inspect(f.body, func(n ast.Node) bool {
		switch v := n.(type) {
		case *ast.FuncLit:
			return false
		case *ast.AssignStmt:
			for i, l := range v.Lhs {
				se, ok := ast.Unparen(l).(*ast.SelectorExpr)
				if !ok {
					continue
				}
				sel := info.Selections[se]
				if sel == nil || sel.Kind() != types.FieldVal {
					continue
				}
				fv, _ := sel.Obj().(*types.Var)
				if fv == nil {
					continue
				}
				if len(v.Lhs) == len(v.Rhs) {
					a.fieldAssigns[fv] = append(a.fieldAssigns[fv], fieldAssign{f, v.Rhs[i], -1})
				} else if len(v.Rhs) == 1 {
					a.fieldAssigns[fv] = append(a.fieldAssigns[fv], fieldAssign{f, v.Rhs[0], i})
				}
			}
		case *ast.CompositeLit:
			tv, ok := info.Types[v]
			if !ok {
				return true
			}
			t := tv.Type
			if p, ok := t.Underlying().(*types.Pointer); ok {
				t = p.Elem()
			}
			st, ok := t.Underlying().(*types.Struct)
			if !ok {
				return true
			}
			for i, el := range v.Elts {
				if kv, ok := el.(*ast.KeyValueExpr); ok {
					if id, ok := kv.Key.(*ast.Ident); ok {
						if fv, ok := info.Uses[id].(*types.Var); ok && fv.IsField() {
							a.fieldAssigns[fv] = append(a.fieldAssigns[fv], fieldAssign{f, kv.Value, -1})
						}
					}
				} else if i < st.NumFields() {
					a.fieldAssigns[st.Field(i)] = append(a.fieldAssigns[st.Field(i)], fieldAssign{f, el, -1})
				}
			}
		}
		return true
	})
}
