package main

// Whole-program pass of panicsites: every index, slice, type assertion (without ", ok"),
// write into a possibly nil map, integer division / modulo and explicit panic( in ALL functions
// of the module packages that the three mains (cmd/drc, cmd/do-approve, cmd/missing-approve)
// import transitively (`go list -deps`; package-level reachability, a superset of the functions
// a VTA call graph reaches).  Every site gets exactly one class:
//
//   theorem    its key `pkg.func|kind|expr` is in the hand-maintained Lean table
//              lean/NA/Proofs/C20Sites.lean (a lemma discharges it)
//   syntactic  a recognised guard pattern in the source makes it safe (rule name recorded)
//   oracle     listed in translate/panicsites/oracle_sites.txt: no theorem, no recognised
//              pattern; covered by the enumerated family + timeouts of the oracle only
//
// A site with none of the three is UNCLASSIFIED: it is emitted in `unclassified`, and the Lean
// obligation `all_sites_classified` fails.

import (
	"bufio"
	"encoding/json"
	"fmt"
	"go/ast"
	"go/parser"
	"go/token"
	"go/types"
	"os"
	"os/exec"
	"path/filepath"
	"regexp"
	"sort"
	"strconv"
	"strings"
)

type allSite struct {
	Key   string `json:"key"`
	Pkg   string `json:"pkg"`
	Fn    string `json:"fn"`
	Kind  string `json:"kind"`
	Expr  string `json:"expr"`
	Raw   string `json:"raw"`
	Class string `json:"class"`
	Rule  string `json:"rule,omitempty"`
	Count int    `json:"count"`
}

const modPath = "github.com/hknutzen/Netspoc-Approve/go/"

func reachablePackages(repo string) ([]string, error) {
	cmd := exec.Command("go", "list", "-deps", "./cmd/drc", "./cmd/do-approve", "./cmd/missing-approve")
	cmd.Dir = filepath.Join(repo, "go")
	cmd.Env = append(os.Environ(), "GOFLAGS=-mod=mod", "GOPROXY=off", "GOSUMDB=off", "GOTOOLCHAIN=local")
	out, err := cmd.Output()
	if err != nil {
		return nil, fmt.Errorf("go list -deps: %v", err)
	}
	var dirs []string
	for _, l := range strings.Split(string(out), "\n") {
		if strings.HasPrefix(l, modPath) {
			dirs = append(dirs, strings.TrimPrefix(l, modPath))
		}
	}
	sort.Strings(dirs)
	return dirs, nil
}

var intLit = regexp.MustCompile(`^[0-9]+$`)

// lenFacts: does the condition text establish len(X) > c ?
func condGivesLen(cond, x string, c int) bool {
	lx := regexp.QuoteMeta("len(" + x + ")")
	for _, m := range regexp.MustCompile(lx+` (==|>|>=|!=) ([0-9]+)`).FindAllStringSubmatch(cond, -1) {
		k, _ := strconv.Atoi(m[2])
		switch m[1] {
		case "==":
			if k > c {
				return true
			}
		case ">":
			if k >= c {
				return true
			}
		case ">=":
			if k > c {
				return true
			}
		case "!=":
			if k == 0 && c == 0 {
				return true
			}
		}
	}
	return false
}

// condExcludesShort: `if cond { return/continue/… }` before the site: cond true when len(X) <= c ?
func condExcludesShort(cond, x string, c int) bool {
	lx := regexp.QuoteMeta("len(" + x + ")")
	if strings.Contains(cond, "&&") {
		return false
	}
	for _, part := range strings.Split(cond, "||") {
		part = strings.TrimSpace(part)
		if m := regexp.MustCompile(`^` + lx + ` (==|<|<=|!=) ([0-9]+)$`).FindStringSubmatch(part); m != nil {
			k, _ := strconv.Atoi(m[2])
			switch m[1] {
			case "<":
				if k > c {
					return true
				}
			case "<=":
				if k >= c {
					return true
				}
			case "==":
				if k == 0 && c == 0 {
					return true
				}
			case "!=":
				if k > c {
					return true
				}
			}
		}
		if m := regexp.MustCompile(`^!\(` + lx + ` (>=|>|==) ([0-9]+) &&`).FindStringSubmatch(part); m != nil {
			k, _ := strconv.Atoi(m[2])
			if m[1] == ">=" && k > c || m[1] == ">" && k >= c || m[1] == "==" && k > c {
				return true
			}
		}
	}
	return false
}

func terminates(b *ast.BlockStmt, fset *token.FileSet) bool {
	if b == nil || len(b.List) == 0 {
		return false
	}
	switch s := b.List[len(b.List)-1].(type) {
	case *ast.ReturnStmt:
		return true
	case *ast.BranchStmt:
		return s.Tok == token.CONTINUE || s.Tok == token.BREAK
	case *ast.ExprStmt:
		t := exprText(fset, s.X)
		return strings.HasPrefix(t, "panic(") || strings.Contains(t, "Abort(") || strings.HasPrefix(t, "os.Exit(") || strings.HasPrefix(t, "log.Fatal")
	}
	return false
}

type walker struct {
	fset  *token.FileSet
	info  *types.Info
	stack []ast.Node
	local map[string]bool // identifiers bound to make(...) / composite literal in this function
}

// syntacticRule returns the name of the guard pattern that protects site n, or "".
func (w *walker) syntacticRule(kind string, n ast.Node) string {
	fset := w.fset
	switch kind {
	case "div":
		be, _ := n.(*ast.BinaryExpr)
		if be != nil {
			if t := exprText(fset, be.Y); intLit.MatchString(t) && t != "0" {
				return "nonzero-constant-divisor"
			}
			if tv, ok := w.info.Types[be.Y]; ok && tv.Value != nil && tv.Value.String() != "0" {
				return "nonzero-constant-divisor"
			}
		}
		return ""
	case "mapwrite":
		ie := n.(*ast.IndexExpr)
		if id, ok := ie.X.(*ast.Ident); ok && w.local[id.Name] {
			return "map-made-in-function"
		}
		return ""
	case "slice":
		se := n.(*ast.SliceExpr)
		x := exprText(fset, se.X)
		lo, hi := "", ""
		if se.Low != nil {
			lo = exprText(fset, se.Low)
		}
		if se.High != nil {
			hi = exprText(fset, se.High)
		}
		if (lo == "" || lo == "0") && (hi == "" || hi == "len("+x+")") && se.Max == nil {
			return "full-slice"
		}
		if hi == "" && lo == "len("+x+")" {
			return "full-slice"
		}
		// index variable of a range loop over the same operand
		for _, v := range []string{lo, hi} {
			if v == "" {
				continue
			}
			base := strings.TrimSuffix(v, "+1")
			base = strings.TrimSuffix(base, " + 1")
			if !w.isRangeKey(base, x) {
				goto consts
			}
		}
		return "range-index"
	consts:
		// constant bounds under a length guard
		if (lo == "" || intLit.MatchString(lo)) && (hi == "" || intLit.MatchString(hi)) {
			c := 0
			if lo != "" {
				c, _ = strconv.Atoi(lo)
			}
			if hi != "" {
				h, _ := strconv.Atoi(hi)
				if h > c {
					c = h
				}
			}
			if c == 0 || w.lenGuard(x, c-1, n) {
				return "length-guard"
			}
		}
		return ""
	case "index":
		ie := n.(*ast.IndexExpr)
		x := exprText(fset, ie.X)
		i := exprText(fset, ie.Index)
		if w.isRangeKey(i, x) {
			return "loop-index"
		}
		if intLit.MatchString(i) {
			c, _ := strconv.Atoi(i)
			if w.lenGuard(x, c, n) {
				return "length-guard"
			}
		}
		if i == "len("+x+")-1" || i == "len("+x+") - 1" {
			if w.lenGuard(x, 0, n) {
				return "length-guard"
			}
		}
		return ""
	}
	return ""
}

func (w *walker) isRangeKey(v, x string) bool {
	for i := len(w.stack) - 1; i >= 0; i-- {
		if rs, ok := w.stack[i].(*ast.RangeStmt); ok && rs.Key != nil {
			if exprText(w.fset, rs.Key) == v && exprText(w.fset, rs.X) == x {
				return true
			}
		}
		// for i := c; i < len(X); i++ { … X[i] … }   with c >= 0, body assigns neither i nor X
		if fs, ok := w.stack[i].(*ast.ForStmt); ok && w.isIndexLoop(fs, v, x) {
			return true
		}
	}
	return false
}

func (w *walker) isIndexLoop(fs *ast.ForStmt, v, x string) bool {
	as, ok := fs.Init.(*ast.AssignStmt)
	if !ok || as.Tok != token.DEFINE || len(as.Lhs) != 1 || len(as.Rhs) != 1 {
		return false
	}
	if exprText(w.fset, as.Lhs[0]) != v || !intLit.MatchString(exprText(w.fset, as.Rhs[0])) {
		return false
	}
	if fs.Cond == nil || exprText(w.fset, fs.Cond) != v+" < len("+x+")" {
		return false
	}
	inc, ok := fs.Post.(*ast.IncDecStmt)
	if !ok || inc.Tok != token.INC || exprText(w.fset, inc.X) != v {
		return false
	}
	clean := true
	ast.Inspect(fs.Body, func(n ast.Node) bool {
		switch s := n.(type) {
		case *ast.AssignStmt:
			for _, l := range s.Lhs {
				if t := exprText(w.fset, l); t == v || t == x {
					clean = false
				}
			}
		case *ast.IncDecStmt:
			if exprText(w.fset, s.X) == v {
				clean = false
			}
		}
		return clean
	})
	return clean
}

// lenGuard: is len(x) > c established on the path to node n?
func (w *walker) lenGuard(x string, c int, n ast.Node) bool {
	fset := w.fset
	var child ast.Node = n
	for i := len(w.stack) - 1; i >= 0; i-- {
		switch p := w.stack[i].(type) {
		case *ast.IfStmt:
			cond := exprText(fset, p.Cond)
			if child == ast.Node(p.Body) && condGivesLen(cond, x, c) {
				return true
			}
			if p.Else != nil && child == p.Else && condExcludesShort(cond, x, c) {
				return true
			}
		case *ast.ForStmt:
			if p.Cond != nil && child == ast.Node(p.Body) && condGivesLen(exprText(fset, p.Cond), x, c) {
				return true
			}
		case *ast.BinaryExpr:
			// a && b : inside b, a holds
			if p.Op == token.LAND && child == ast.Node(p.Y) && condGivesLen(exprText(fset, p.X), x, c) {
				return true
			}
			if p.Op == token.LOR && child == ast.Node(p.Y) && condExcludesShort(exprText(fset, p.X), x, c) {
				return true
			}
		case *ast.BlockStmt:
			// an earlier statement of the block leaves when the list is too short
			for _, st := range p.List {
				if st == child {
					break
				}
				if is, ok := st.(*ast.IfStmt); ok && is.Else == nil && terminates(is.Body, fset) &&
					condExcludesShort(exprText(fset, is.Cond), x, c) {
					return true
				}
			}
		case *ast.CaseClause:
			for _, st := range p.Body {
				if st == child {
					break
				}
				if is, ok := st.(*ast.IfStmt); ok && is.Else == nil && terminates(is.Body, fset) &&
					condExcludesShort(exprText(fset, is.Cond), x, c) {
					return true
				}
			}
		case *ast.FuncLit, *ast.FuncDecl:
			return false
		}
		child = w.stack[i]
	}
	return false
}

func isMapType(info *types.Info, e ast.Expr) (isMap, known bool) {
	if tv, ok := info.Types[e]; ok && tv.Type != nil {
		switch tv.Type.Underlying().(type) {
		case *types.Map:
			return true, true
		case *types.Slice, *types.Array, *types.Basic, *types.Pointer:
			return false, true
		}
	}
	return false, false
}

func isFloat(info *types.Info, e ast.Expr) bool {
	if tv, ok := info.Types[e]; ok && tv.Type != nil {
		if b, ok := tv.Type.Underlying().(*types.Basic); ok {
			return b.Info()&types.IsFloat != 0 || b.Info()&types.IsString != 0
		}
	}
	return false
}

func collectAll(repo string) ([]allSite, []string, error) {
	dirs, err := reachablePackages(repo)
	if err != nil {
		return nil, nil, err
	}
	counts := map[string]*allSite{}
	var order []string
	for _, d := range dirs {
		dir := filepath.Join(repo, "go", d)
		fset := token.NewFileSet()
		pkgs, err := parser.ParseDir(fset, dir, func(fi os.FileInfo) bool {
			return !strings.HasSuffix(fi.Name(), "_test.go") && !strings.HasPrefix(fi.Name(), "verif_")
		}, 0)
		if err != nil {
			return nil, nil, err
		}
		pkgName := filepath.Base(d)
		if strings.HasPrefix(d, "cmd/") {
			pkgName = "cmd-" + pkgName
		}
		for _, pkg := range pkgs {
			var files []*ast.File
			var names []string
			for n := range pkg.Files {
				names = append(names, n)
			}
			sort.Strings(names)
			for _, n := range names {
				files = append(files, pkg.Files[n])
			}
			info := &types.Info{Types: map[ast.Expr]types.TypeAndValue{}, Defs: map[*ast.Ident]types.Object{}, Uses: map[*ast.Ident]types.Object{}}
			conf := types.Config{Importer: &fakeImporter{map[string]*types.Package{}}, Error: func(error) {}}
			tpkg, _ := conf.Check(pkg.Name, fset, files, info)
			for _, file := range files {
				for _, decl := range file.Decls {
					fd, ok := decl.(*ast.FuncDecl)
					if !ok || fd.Body == nil {
						continue
					}
					fn := recvName(fd)
					w := &walker{fset: fset, info: info, local: map[string]bool{}}
					// locals bound to make / composite literal
					ast.Inspect(fd.Body, func(n ast.Node) bool {
						if as, ok := n.(*ast.AssignStmt); ok && len(as.Lhs) == len(as.Rhs) {
							for i, l := range as.Lhs {
								if id, ok := l.(*ast.Ident); ok {
									t := exprText(fset, as.Rhs[i])
									if strings.HasPrefix(t, "make(") || strings.HasPrefix(t, "map[") {
										w.local[id.Name] = true
									}
								}
							}
						}
						return true
					})
					nz := newNormalizer(fset, info, tpkg, fd)
					add := func(kind string, n ast.Node, text ast.Node) {
						t := nz.text(text)
						key := fmt.Sprintf("%s.%s|%s|%s", pkgName, fn, kind, t)
						rule := w.syntacticRule(kind, n)
						s := counts[key]
						if s == nil {
							s = &allSite{Key: key, Pkg: pkgName, Fn: fn, Kind: kind, Expr: t, Raw: exprText(fset, text), Rule: rule}
							counts[key] = s
							order = append(order, key)
						} else if rule == "" {
							s.Rule = "" // one unguarded occurrence makes the key unguarded
						}
						s.Count++
					}
					okForm := map[ast.Node]bool{}
					mapWrites := map[ast.Node]bool{}
					var visit func(n ast.Node) bool
					visit = func(n ast.Node) bool {
						if n == nil {
							w.stack = w.stack[:len(w.stack)-1]
							return true
						}
						switch x := n.(type) {
						case *ast.AssignStmt:
							if len(x.Lhs) == 2 && len(x.Rhs) == 1 {
								if ta, ok := x.Rhs[0].(*ast.TypeAssertExpr); ok {
									okForm[ta] = true
								}
							}
							for _, l := range x.Lhs {
								if ie, ok := l.(*ast.IndexExpr); ok {
									if m, known := isMapType(info, ie.X); m || !known && !strings.Contains(exprText(fset, ie.Index), "") {
										_ = m
									}
									if m, _ := isMapType(info, ie.X); m {
										mapWrites[ie] = true
									}
								}
							}
							if x.Tok == token.QUO_ASSIGN || x.Tok == token.REM_ASSIGN {
								if !isFloat(info, x.Lhs[0]) {
									be := &ast.BinaryExpr{X: x.Lhs[0], Op: token.QUO, Y: x.Rhs[0]}
									add("div", be, x)
								}
							}
						case *ast.ValueSpec:
							if len(x.Names) == 2 && len(x.Values) == 1 {
								if ta, ok := x.Values[0].(*ast.TypeAssertExpr); ok {
									okForm[ta] = true
								}
							}
						case *ast.IndexExpr:
							if mapWrites[x] {
								add("mapwrite", x, x)
							} else if m, _ := isMapType(info, x.X); !m {
								if tv, ok := info.Types[x.X]; ok && tv.Type != nil {
									if _, isSig := tv.Type.Underlying().(*types.Signature); isSig {
										break
									}
								}
								add("index", x, x)
							}
						case *ast.SliceExpr:
							add("slice", x, x)
						case *ast.TypeAssertExpr:
							if x.Type != nil && !okForm[x] {
								add("typeassert", x, x)
							}
						case *ast.BinaryExpr:
							if (x.Op == token.QUO || x.Op == token.REM) && !isFloat(info, x.X) && !isFloat(info, x.Y) {
								add("div", x, x)
							}
						case *ast.CallExpr:
							if exprText(fset, x.Fun) == "panic" {
								add("panic", x, x)
							}
						}
						w.stack = append(w.stack, n)
						return true
					}
					w.stack = []ast.Node{fd}
					ast.Inspect(fd.Body, visit)
				}
			}
		}
	}
	var res []allSite
	for _, k := range order {
		res = append(res, *counts[k])
	}
	sort.Slice(res, func(i, j int) bool { return res[i].Key < res[j].Key })
	return res, dirs, nil
}

var tableKeyRe = regexp.MustCompile(`(?m)^  \(("(?:[^"\\]|\\.)*"), `)

// readMainTable returns the keys of `def siteTable` (without `siteTableExtra`).
func readMainTable(path string) (map[string]bool, error) {
	data, err := os.ReadFile(path)
	if err != nil {
		return nil, err
	}
	s := string(data)
	a := strings.Index(s, "def siteTable ")
	if a < 0 {
		return nil, fmt.Errorf("def siteTable not found in %s", path)
	}
	b := strings.Index(s[a:], "\n]\n")
	if b < 0 {
		return nil, fmt.Errorf("end of siteTable not found")
	}
	keys := map[string]bool{}
	for _, m := range tableKeyRe.FindAllStringSubmatch(s[a:a+b], -1) {
		k, err := strconv.Unquote(m[1])
		if err != nil {
			return nil, fmt.Errorf("site table: cannot unquote %s", m[1])
		}
		keys[k] = true
	}
	return keys, nil
}

var extraRe = regexp.MustCompile(`(?m)^  \(("(?:[^"\\]|\\.)*"), ([0-9]+), `)

// readExtra returns `siteTableExtra`: (package|kind|normalised expression) -> occurrences covered by an invariant.
func readExtra(path string) (map[string]int, error) {
	data, err := os.ReadFile(path)
	if err != nil {
		return nil, err
	}
	keys := map[string]int{}
	for _, m := range extraRe.FindAllStringSubmatch(string(data), -1) {
		k, err := strconv.Unquote(m[1])
		if err != nil {
			return nil, fmt.Errorf("extra table: cannot unquote %s", m[1])
		}
		n, _ := strconv.Atoi(m[2])
		keys[k] += n
	}
	return keys, nil
}

func readTheoremKeys(path string) (map[string]bool, error) {
	data, err := os.ReadFile(path)
	if err != nil {
		return nil, err
	}
	keys := map[string]bool{}
	for _, m := range tableKeyRe.FindAllStringSubmatch(string(data), -1) {
		k, err := strconv.Unquote(m[1])
		if err != nil {
			return nil, fmt.Errorf("site table: cannot unquote %s", m[1])
		}
		keys[k] = true
	}
	return keys, nil
}

// readOracle reads translate/panicsites/oracle_sites.txt: one line per (package, kind, normalised
// expression) with the number of occurrences that are accepted as oracle-only:
//
//	pkg|kind|expr<TAB>count
func readOracle(path string) (map[string]int, error) {
	keys := map[string]int{}
	f, err := os.Open(path)
	if err != nil {
		return keys, err
	}
	defer f.Close()
	sc := bufio.NewScanner(f)
	sc.Buffer(make([]byte, 1<<20), 1<<20)
	for sc.Scan() {
		l := strings.TrimRight(sc.Text(), "\r")
		if l == "" || strings.HasPrefix(l, "#") {
			continue
		}
		n := 1
		if i := strings.LastIndex(l, "\t"); i >= 0 {
			if v, err := strconv.Atoi(strings.TrimSpace(l[i+1:])); err == nil {
				n = v
				l = l[:i]
			}
		}
		keys[l] += n
	}
	return keys, nil
}

type allResult struct {
	Packages     []string            `json:"packages"`
	Counts       map[string]int      `json:"counts"`
	Occurrences  map[string]int      `json:"occurrences"`
	Rules        map[string]int      `json:"syntactic_rules"`
	Unclassified []string            `json:"unclassified"`
	Residual     map[string]int      `json:"residual"`
	StaleOracle  []string            `json:"stale_oracle"`
	Sites        []allSite           `json:"sites"`
	Pass1        []map[string]string `json:"pass1"`
}

// classifyAll runs the whole-program pass.
func classifyAll(repo, verif string) (*allResult, error) {
	sites, dirs, err := collectAll(repo)
	if err != nil {
		return nil, err
	}
	thm, err := readMainTable(filepath.Join(verif, "lean", "NA", "Proofs", "C20Sites.lean"))
	if err != nil {
		return nil, err
	}
	extra, err := readExtra(filepath.Join(verif, "lean", "NA", "Proofs", "C20Sites.lean"))
	if err != nil {
		return nil, err
	}
	here := filepath.Join(verif, "translate", "panicsites")
	orc, _ := readOracle(filepath.Join(here, "oracle_sites.txt"))
	r := &allResult{Packages: dirs, Counts: map[string]int{}, Occurrences: map[string]int{}, Rules: map[string]int{}}
	// oracle-class entries carry no proof: they are matched by (package, kind, normalised expression)
	// as a multiset, the function name is only a hint
	gkey := func(s *allSite) string { return s.Pkg + "|" + s.Kind + "|" + s.Expr }
	rest := map[string]int{}
	fns := map[string][]string{}
	for i := range sites {
		s := &sites[i]
		switch {
		case thm[s.Key]:
			s.Class = "theorem"
		case s.Rule != "":
			s.Class = "syntactic"
			r.Rules[s.Rule]++
		default:
			rest[gkey(s)] += s.Count
			fns[gkey(s)] = append(fns[gkey(s)], s.Fn)
		}
	}
	r.Residual = rest
	usedExtra := map[string]int{}
	for i := range sites {
		s := &sites[i]
		if s.Class == "" {
			k := gkey(s)
			switch {
			case rest[k] > orc[k]+extra[k]:
				s.Class = "unclassified"
			case usedExtra[k]+s.Count <= extra[k]:
				usedExtra[k] += s.Count
				s.Class = "theorem" // covered by an invariant (siteTableExtra)
			default:
				s.Class = "oracle"
			}
		}
		r.Counts[s.Class]++
		r.Occurrences[s.Class] += s.Count
	}
	var gks []string
	for k := range rest {
		gks = append(gks, k)
	}
	sort.Strings(gks)
	for _, k := range gks {
		if rest[k] > orc[k]+extra[k] {
			r.Unclassified = append(r.Unclassified,
				fmt.Sprintf("%s (%d occurrences, %d covered by an invariant, %d listed as oracle-only; in %s)", k, rest[k], extra[k], orc[k], strings.Join(fns[k], ", ")))
		}
	}
	for k, n := range orc {
		if rest[k] < n+extra[k] {
			r.StaleOracle = append(r.StaleOracle, fmt.Sprintf("%s (%d listed, %d found)", k, n+extra[k], rest[k]))
		}
	}
	sort.Strings(r.StaleOracle)
	r.Sites = sites
	return r, nil
}

func writeJSON(path string, v any) error {
	b, err := json.MarshalIndent(v, "", " ")
	if err != nil {
		return err
	}
	return os.WriteFile(path, b, 0644)
}
