// panicsites: T-gen for property C20.
//
// Reads the anchored Go files of /repo and emits lean/NA/Gen/PanicSites.lean:
//   - every index expression on a slice/array/string, every slice expression, every type
//     assertion without ", ok", every explicit panic( call and every call of strings.Repeat in
//     the token-cursor functions listed below, with function name, kind, expression text, an
//     occurrence number and a hash;  (map index expressions cannot panic and are left out;
//     typing comes from go/types on the package sources, standard library and dependencies are
//     replaced by a permissive fake importer, expressions whose type is unknown are KEPT)
//   - the name tables used by postprocessACLParts (protoNames, tcpNames, …) and the cmdInfo
//     texts of asa and ios, so that the Lean driver runs on the tables the code has now.
//
// A function of the list that is missing in the source is an error (the tie is broken).
package main

import (
	"crypto/sha256"
	"encoding/hex"
	"flag"
	"fmt"
	"go/ast"
	"go/parser"
	"go/printer"
	"go/token"
	"go/types"
	"os"
	"path/filepath"
	"sort"
	"strconv"
	"strings"
)

type target struct {
	dir   string   // below go/pkg
	files []string // restricted to these files ("" = all non-test files)
	funcs []string // function or Recv.method names
}

var targets = []target{
	{"cisco", nil, []string{"parser.ParseConfig", "parser.lookupCmd", "matchCmd", "postprocessParsed",
		"postprocessIOSACL", "postprocessASAACL", "postprocessACLParts", "dstOfRoute", "State.alignVRFs",
		"State.checkASAInterfaces", "State.checkIOSInterfaces", "parser.checkReferences", "mergeASAACLs", "mergeIOSACLs"}},
	{"ios", nil, []string{"removeBanner"}},
	{"linux", nil, []string{"State.ParseConfig", "parseRoutes", "State.parseIPTables", "config.MergeSpoc"}},
	{"nsx", nil, []string{"State.ParseConfig", "checkNoNull", "checkRaw", "checkConfigValidity", "removeHeader",
		"sortGroups", "sortRules", "findGroupOnDevice", "groupPair.LenA", "groupPair.LenB", "groupPair.Equal",
		"rulesPair.Equal", "rulesPair.adaptGroup", "rulesPair.equalizeGroups"}},
	{"panos", nil, []string{"State.ParseConfig", "checkRaw", "parseResponseConfig", "PanConfig.MergeSpoc",
		"processVsysPairs", "PanConfig.getDevName", "State.GetChanges", "diffConfig", "vsysInfo.checkGroupCycle",
		"getObjListType", "rulesPair.markAddresses"}},
	{"codefiles", nil, []string{"LoadInfoFile", "GetIPPDP"}},
	{"status", nil, []string{"Read"}},
}

type site struct {
	pkg, fn, kind, expr string
	occ                 int
	raw                 string // source text of the expression (evidence only)
}

// key identifies a site by function, kind and expression text. Occurrences of the same
// expression in the same function share one key (their number is emitted as `count`), so that
// moved or repeated code does not change the key list; a new, changed or removed expression does.
func (s site) key() string {
	return fmt.Sprintf("%s.%s|%s|%s", s.pkg, s.fn, s.kind, s.expr)
}

type fakeImporter struct{ pkgs map[string]*types.Package }

func (f *fakeImporter) Import(path string) (*types.Package, error) {
	if p, ok := f.pkgs[path]; ok {
		return p, nil
	}
	name := filepath.Base(path)
	p := types.NewPackage(path, name)
	p.MarkComplete()
	f.pkgs[path] = p
	return p, nil
}

func exprText(fset *token.FileSet, e ast.Node) string {
	var b strings.Builder
	printer.Fprint(&b, fset, e)
	return strings.Join(strings.Fields(b.String()), " ")
}

func recvName(fd *ast.FuncDecl) string {
	if fd.Recv == nil || len(fd.Recv.List) == 0 {
		return fd.Name.Name
	}
	t := fd.Recv.List[0].Type
	if st, ok := t.(*ast.StarExpr); ok {
		t = st.X
	}
	if id, ok := t.(*ast.Ident); ok {
		return id.Name + "." + fd.Name.Name
	}
	return fd.Name.Name
}

// isGuard: conditions that protect an index, slice or dereference.
// endsLoop: the block leaves the loop for good (its last statement is a return or an unlabelled break).
func endsLoop(b *ast.BlockStmt) bool {
	if b == nil || len(b.List) == 0 {
		return false
	}
	switch s := b.List[len(b.List)-1].(type) {
	case *ast.ReturnStmt:
		return true
	case *ast.BranchStmt:
		return s.Tok == token.BREAK && s.Label == nil
	}
	return false
}

// loopCondOf recognises a condition-less `for` whose first statement decides whether the loop goes on and
// returns the condition of the equivalent `for c {…}` together with that if statement:
// `for { if c {B} else {return/break} }`, `for { if !c {return/break}; B }`.
func loopCondOf(f *ast.ForStmt) (ast.Expr, *ast.IfStmt) {
	if f.Cond != nil || f.Init != nil || f.Post != nil || f.Body == nil || len(f.Body.List) == 0 {
		return nil, nil
	}
	ifs, ok := f.Body.List[0].(*ast.IfStmt)
	if !ok || ifs.Init != nil {
		return nil, nil
	}
	if els, ok := ifs.Else.(*ast.BlockStmt); ok && endsLoop(els) && !endsLoop(ifs.Body) && len(f.Body.List) == 1 {
		return ifs.Cond, ifs
	}
	if ifs.Else == nil && endsLoop(ifs.Body) {
		return negate(ifs.Cond), ifs
	}
	return nil, nil
}

func negate(e ast.Expr) ast.Expr {
	switch x := e.(type) {
	case *ast.ParenExpr:
		return negate(x.X)
	case *ast.UnaryExpr:
		if x.Op == token.NOT {
			if p, ok := x.X.(*ast.ParenExpr); ok {
				return p.X
			}
			return x.X
		}
	case *ast.BinaryExpr:
		flip := map[token.Token]token.Token{token.LSS: token.GEQ, token.GEQ: token.LSS, token.GTR: token.LEQ, token.LEQ: token.GTR,
			token.EQL: token.NEQ, token.NEQ: token.EQL}
		if op, ok := flip[x.Op]; ok {
			return &ast.BinaryExpr{X: x.X, Op: op, Y: x.Y, OpPos: x.OpPos}
		}
	}
	return &ast.UnaryExpr{Op: token.NOT, X: &ast.ParenExpr{X: e}}
}

func isGuard(cond string) bool {
	return strings.Contains(cond, "len(") || strings.Contains(cond, "nil") || strings.Contains(cond, "== -1") ||
		strings.Contains(cond, "> 0") || strings.Contains(cond, ">= 0")
}

type descr struct {
	prefix   string
	template []string
	ignore   bool
	refs     []string // referenced prefixes, one per $REF of the template
	sub      []*descr
}

// parseCmdInfo mirrors cisco.setupCmdDescr (section headers are irrelevant here).
func parseCmdInfo(info string) ([]*descr, error) {
	var top []*descr
	for _, line := range strings.Split(info, "\n") {
		line = strings.TrimRight(line, " \t\r")
		if line == "" {
			continue
		}
		store := &top
		isSub := false
		ignore := false
		switch line[0] {
		case '#', '[':
			continue
		case ' ':
			line = line[1:]
			if len(top) == 0 || line == "" || line[0] == ' ' {
				return nil, fmt.Errorf("bad indentation in cmdInfo: %q", line)
			}
			// (an indented "# …" line is NOT a comment for setupCmdDescr: it becomes a sub template)
			store = &top[len(top)-1].sub
			isSub = true
		}
		if line[0] == '!' {
			line = line[1:]
			ignore = true
			if line == "" {
				return nil, fmt.Errorf("line with only '!' in cmdInfo")
			}
		}
		parts := strings.Fields(line)
		prefix := ""
		if !isSub {
			prefix = strings.ReplaceAll(parts[0], "_", " ")
			parts = parts[1:]
		}
		var refs []string
		for i, val := range parts {
			if val[0] == '$' && len(val) > 1 && val != "$NAME" && val != "$SEQ" {
				refs = append(refs, strings.ReplaceAll(val[1:], "_", " "))
				parts[i] = "$REF"
			}
		}
		*store = append(*store, &descr{prefix: prefix, template: parts, ignore: ignore, refs: refs})
	}
	return top, nil
}

func leanStrList(l []string) string {
	q := make([]string, len(l))
	for i, s := range l {
		q[i] = leanStr(s)
	}
	return "[" + strings.Join(q, ", ") + "]"
}

func leanStr(s string) string {
	var b strings.Builder
	b.WriteByte('"')
	for _, r := range s {
		switch {
		case r == '"':
			b.WriteString("\\\"")
		case r == '\\':
			b.WriteString("\\\\")
		case r == '\n':
			b.WriteString("\\n")
		case r == '\t':
			b.WriteString("\\t")
		case r < 32 || r == 127:
			fmt.Fprintf(&b, "\\x%02x", r)
		default:
			b.WriteRune(r)
		}
	}
	b.WriteByte('"')
	return b.String()
}

func main() {
	repo := flag.String("repo", "/repo", "repository root")
	out := flag.String("out", "", "output Lean file")
	verif := flag.String("verif", "/verif", "verif root (site table, oracle list)")
	initOracle := flag.Bool("init-oracle", false, "rewrite oracle_sites.txt from the sites that are neither theorem nor syntactic")
	flag.Parse()
	var sites []site
	var problems []string
	tables := map[string][][2]string{}
	cmdInfo := map[string]string{}

	for _, tg := range targets {
		dir := filepath.Join(*repo, "go", "pkg", tg.dir)
		fset := token.NewFileSet()
		pkgs, err := parser.ParseDir(fset, dir, func(fi os.FileInfo) bool {
			return !strings.HasSuffix(fi.Name(), "_test.go") && !strings.HasPrefix(fi.Name(), "verif_")
		}, parser.ParseComments)
		if err != nil {
			fmt.Fprintln(os.Stderr, "panicsites:", err)
			os.Exit(1)
		}
		for _, pkg := range pkgs {
			var files []*ast.File
			var names []string
			for n := range pkg.Files {
				names = append(names, n)
			}
			sort.Strings(names)
			for _, n := range names {
				files = append(files, pkg.Files[n])
			}
			info := &types.Info{Types: map[ast.Expr]types.TypeAndValue{}, Defs: map[*ast.Ident]types.Object{}, Uses: map[*ast.Ident]types.Object{}}
			conf := types.Config{Importer: &fakeImporter{map[string]*types.Package{}}, Error: func(error) {}}
			tpkg, _ := conf.Check(pkg.Name, fset, files, info)

			want := map[string]bool{}
			for _, f := range tg.funcs {
				want[f] = false
			}
			for _, file := range files {
				for _, d := range file.Decls {
					// name tables of cisco/parse.go
					if gd, ok := d.(*ast.GenDecl); ok && tg.dir == "cisco" {
						for _, sp := range gd.Specs {
							vs, ok := sp.(*ast.ValueSpec)
							if !ok || len(vs.Names) != 1 || len(vs.Values) != 1 {
								continue
							}
							name := vs.Names[0].Name
							switch name {
							case "protoNames", "protoNonNumeric", "tcpNames", "udpNames", "icmpTypeCodes", "icmp6Types", "logNames":
								cl, ok := vs.Values[0].(*ast.CompositeLit)
								if !ok {
									problems = append(problems, "table "+name+" is not a composite literal")
									continue
								}
								for _, el := range cl.Elts {
									kv, ok := el.(*ast.KeyValueExpr)
									if !ok {
										problems = append(problems, "table "+name+": element without key")
										continue
									}
									k, err1 := strconv.Unquote(exprText(fset, kv.Key))
									v := exprText(fset, kv.Value)
									if u, err := strconv.Unquote(v); err == nil {
										v = u
									}
									if err1 != nil {
										problems = append(problems, "table "+name+": key is not a string literal")
										continue
									}
									tables[name] = append(tables[name], [2]string{k, v})
								}
							}
						}
					}
					fd, ok := d.(*ast.FuncDecl)
					if !ok || fd.Body == nil {
						continue
					}
					fn := recvName(fd)
					if _, ok := want[fn]; !ok {
						continue
					}
					want[fn] = true
					occ := map[string]int{}
					nz := newNormalizer(fset, info, tpkg, fd)
					add := func(kind string, e ast.Node) {
						t := nz.text(e)
						k := kind + "|" + t
						sites = append(sites, site{tg.dir, fn, kind, t, occ[k], exprText(fset, e)})
						occ[k]++
					}
					consumed := map[*ast.IfStmt]bool{}
					ast.Inspect(fd.Body, func(n ast.Node) bool {
						switch x := n.(type) {
						case *ast.IndexExpr:
							if tv, ok := info.Types[x.X]; ok && tv.Type != nil {
								switch u := tv.Type.Underlying().(type) {
								case *types.Map:
									return true // a map index cannot panic
								case *types.Signature:
									return true // generic instantiation
								default:
									_ = u
								}
							}
							add("index", x)
						case *ast.SliceExpr:
							add("slice", x)
						case *ast.TypeAssertExpr:
							// type assertions are not listed here: they are classified by the
							// whole-program pass (oracle-only: no model of the producers of the operand)
						case *ast.CallExpr:
							switch exprText(fset, x.Fun) {
							case "panic":
								add("panic", x)
							case "strings.Repeat":
								add("repeat", x)
							case "need":
								add("guard", x)
							default:
								// calls of validity checks (checkNoNull, checkRaw, checkGroupCycle, …) are guards:
								// dropping one is a changed site
								f := exprText(fset, x.Fun)
								if i := strings.LastIndex(f, "."); i >= 0 {
									f = f[i+1:]
								}
								if strings.HasPrefix(f, "check") && len(f) > 5 && f[5] >= 'A' && f[5] <= 'Z' {
									add("guard", x)
								}
							}
						case *ast.IfStmt:
							if t := exprText(fset, x.Cond); isGuard(t) && !consumed[x] {
								add("guard", x.Cond)
							}
						case *ast.ForStmt:
							if x.Cond != nil { // every loop bound is a guard
								add("guard", x.Cond)
							} else if c, ifs := loopCondOf(x); c != nil {
								// normal form: `for { if c {B} else {return} }` and `for { if !c {break}; B }` are `for c {B}`
								consumed[ifs] = true
								add("guard", c)
							}
						}
						return true
					})
				}
			}
			for f, seen := range want {
				if !seen {
					problems = append(problems, fmt.Sprintf("function %s.%s not found", tg.dir, f))
				}
			}
		}
	}
	// cmdInfo texts
	for _, m := range []string{"asa", "ios"} {
		fset := token.NewFileSet()
		f, err := parser.ParseFile(fset, filepath.Join(*repo, "go", "pkg", m, "cmd-info.go"), nil, 0)
		if err != nil {
			problems = append(problems, err.Error())
			continue
		}
		ast.Inspect(f, func(n ast.Node) bool {
			if vs, ok := n.(*ast.ValueSpec); ok && len(vs.Names) == 1 && vs.Names[0].Name == "cmdInfo" && len(vs.Values) == 1 {
				if bl, ok := vs.Values[0].(*ast.BasicLit); ok {
					if s, err := strconv.Unquote(bl.Value); err == nil {
						cmdInfo[m] = s
					}
				}
			}
			return true
		})
		if cmdInfo[m] == "" {
			problems = append(problems, "cmdInfo of "+m+" not found")
		}
	}
	// two validatable accessors that are not single expressions are noted as problems, never skipped
	sort.SliceStable(sites, func(i, j int) bool { return sites[i].key() < sites[j].key() })
	rawSites := append([]site{}, sites...)
	counts := map[string]int{}
	var uniq []site
	for _, s := range sites {
		if counts[s.key()] == 0 {
			uniq = append(uniq, s)
		}
		counts[s.key()]++
	}
	nAll := len(sites)
	sites = uniq

	var b strings.Builder
	b.WriteString("/- GENERATED by translate/panicsites from /repo — do not edit, not committed. -/\n")
	b.WriteString("namespace NA.Gen.PanicSites\n\n")
	b.WriteString("structure Site where\n  key : String\n  pkg : String\n  fn : String\n  kind : String\n  expr : String\n  hash : String\n  count : Nat\n  deriving Repr\n\n")
	b.WriteString("def sites : List Site := [\n")
	for i, s := range sites {
		h := sha256.Sum256([]byte(s.key()))
		sep := ","
		if i == len(sites)-1 {
			sep = ""
		}
		fmt.Fprintf(&b, "  ⟨%s, %s, %s, %s, %s, %s, %d⟩%s\n", leanStr(s.key()), leanStr(s.pkg), leanStr(s.fn), leanStr(s.kind),
			leanStr(s.expr), leanStr(hex.EncodeToString(h[:6])), counts[s.key()], sep)
	}
	b.WriteString("]\n\n")
	// comparison of the regenerated keys with the hand-maintained table `siteTable` (done here: a
	// kernel `decide` over 238 long strings takes minutes); Lean proves `tableMismatch = []`
	var mismatch []string
	if tk, err := readMainTable(filepath.Join(*verif, "lean", "NA", "Proofs", "C20Sites.lean")); err != nil {
		mismatch = append(mismatch, "cannot read site table: "+err.Error())
	} else {
		gen := map[string]bool{}
		for _, s := range sites {
			gen[s.key()] = true
			if !tk[s.key()] {
				mismatch = append(mismatch, "not in siteTable: "+s.key())
			}
		}
		var extra []string
		for k := range tk {
			if !gen[k] {
				extra = append(extra, "in siteTable but not in the source: "+k)
			}
		}
		sort.Strings(extra)
		mismatch = append(mismatch, extra...)
	}
	fmt.Fprintf(&b, "def tableMismatch : List String := %s\n\n", leanStrList(mismatch))
	b.WriteString("def problems : List String := [")
	for i, p := range problems {
		if i > 0 {
			b.WriteString(", ")
		}
		b.WriteString(leanStr(p))
	}
	b.WriteString("]\n\n")
	var tn []string
	for n := range tables {
		tn = append(tn, n)
	}
	sort.Strings(tn)
	for _, n := range tn {
		fmt.Fprintf(&b, "def %s : List (String × String) := [\n", n)
		l := tables[n]
		sort.Slice(l, func(i, j int) bool { return l[i][0] < l[j][0] })
		for i, kv := range l {
			sep := ","
			if i == len(l)-1 {
				sep = ""
			}
			fmt.Fprintf(&b, "  (%s, %s)%s\n", leanStr(kv[0]), leanStr(kv[1]), sep)
		}
		b.WriteString("]\n\n")
	}
	for _, m := range []string{"asa", "ios"} {
		fmt.Fprintf(&b, "def %sCmdInfo : String := %s\n\n", m, leanStr(cmdInfo[m]))
	}
	b.WriteString("structure RawDescr where\n  pre : String\n  template : List String\n  ignore : Bool\n  sub : List (List String × Bool)\n  refs : List String\n  subRefs : List (List String)\n  deriving Repr\n\n")
	for _, m := range []string{"asa", "ios"} {
		ds, err := parseCmdInfo(cmdInfo[m])
		if err != nil {
			problems = append(problems, err.Error())
			fmt.Fprintln(os.Stderr, "panicsites:", err)
			os.Exit(1)
		}
		fmt.Fprintf(&b, "def %sDescr : List RawDescr := [\n", m)
		for i, d := range ds {
			var subs []string
			for _, sd := range d.sub {
				subs = append(subs, fmt.Sprintf("(%s, %v)", leanStrList(sd.template), sd.ignore))
			}
			sep := ","
			if i == len(ds)-1 {
				sep = ""
			}
			var subRefs []string
			for _, sd := range d.sub {
				subRefs = append(subRefs, leanStrList(sd.refs))
			}
			fmt.Fprintf(&b, "  ⟨%s, %s, %v, [%s], %s, [%s]⟩%s\n", leanStr(d.prefix), leanStrList(d.template), d.ignore, strings.Join(subs, ", "),
				leanStrList(d.refs), strings.Join(subRefs, ", "), sep)
		}
		b.WriteString("]\n\n")
	}
	// whole-program classification
	all, err := classifyAll(*repo, *verif)
	if err != nil {
		fmt.Fprintln(os.Stderr, "panicsites:", err)
		os.Exit(1)
	}
	b.WriteString("/-- whole-program pass: distinct site keys per class (theorem / syntactic / oracle / unclassified). -/\n")
	fmt.Fprintf(&b, "def allSiteKeys : Nat := %d\n", len(all.Sites))
	for _, c := range []string{"theorem", "syntactic", "oracle", "unclassified"} {
		fmt.Fprintf(&b, "def allSites_%s : Nat := %d\n", c, all.Counts[c])
	}
	fmt.Fprintf(&b, "def unclassified : List String := %s\n\n", leanStrList(all.Unclassified))
	fmt.Fprintf(&b, "def reachablePackages : List String := %s\n\n", leanStrList(all.Packages))
	b.WriteString("end NA.Gen.PanicSites\n")
	if *initOracle {
		// (re)write the oracle-only list from what is neither theorem nor syntactic now
		var ks []string
		for k := range all.Residual {
			ks = append(ks, k)
		}
		sort.Strings(ks)
		var ob strings.Builder
		ob.WriteString("# Sites of the whole-program pass of translate/panicsites that are covered by the ORACLE ONLY:\n")
		ob.WriteString("# no lemma of lean/NA/Proofs/C20Sites.lean and no syntactic guard pattern recognised by the translator.\n")
		ob.WriteString("# One line per (package | kind | normalised expression) <TAB> number of occurrences accepted.\n")
		ob.WriteString("# Locals are printed as ‹type›, single-assignment locals are expanded; the function name is not part of the key.\n")
		ob.WriteString("# More occurrences than listed make obligation all_sites_classified fail.\n\n")
		for _, k := range ks {
			fmt.Fprintf(&ob, "%s\t%d\n", k, all.Residual[k])
		}
		os.WriteFile(filepath.Join(*verif, "translate", "panicsites", "oracle_sites.txt"), []byte(ob.String()), 0644)
		fmt.Fprintln(os.Stderr, "panicsites: oracle_sites.txt rewritten:", len(ks), "entries")
	}
	if *out != "" {
		var p1 []map[string]string
		for _, s := range rawSites {
			p1 = append(p1, map[string]string{"key": s.key(), "rawkey": fmt.Sprintf("%s.%s|%s|%s", s.pkg, s.fn, s.kind, s.raw)})
		}
		all.Pass1 = p1
		if err := writeJSON(strings.TrimSuffix(*out, ".lean")+"All.json", all); err != nil {
			fmt.Fprintln(os.Stderr, err)
			os.Exit(1)
		}
	}
	fmt.Fprintf(os.Stderr, "panicsites: whole program: %d keys in %d packages: %v, unclassified %d, stale oracle entries %d\n",
		len(all.Sites), len(all.Packages), all.Counts, len(all.Unclassified), len(all.StaleOracle))
	if *out == "" {
		fmt.Print(b.String())
	} else {
		os.MkdirAll(filepath.Dir(*out), 0755)
		if err := os.WriteFile(*out, []byte(b.String()), 0644); err != nil {
			fmt.Fprintln(os.Stderr, err)
			os.Exit(1)
		}
	}
	if len(problems) > 0 {
		fmt.Fprintln(os.Stderr, "panicsites: problems:", strings.Join(problems, "; "))
	}
	fmt.Fprintf(os.Stderr, "panicsites: %d sites (%d distinct keys), %d tables\n", nAll, len(sites), len(tables))
}
