module panicsites

go 1.23.1
