package main

// Normalised printing of expressions, so that the site keys compare MEANING-relevant structure
// and not identifier spelling:
//   * every function-local variable or parameter is printed as its type in angle quotes
//     (`loc[0]` and `m[0]` are both `‹[]int›[0]`; `panic(e)` and `panic(r)` are `panic(‹any›)`);
//     unknown types (objects of packages the fake importer does not know) print as `‹?›`;
//   * a local that is assigned exactly once, by `x := e` / `var x = e`, and never re-assigned,
//     incremented, ranged over or address-taken, is replaced by (the normal form of) `e`
//     (`i := loc[0]; s[:i+1]` and `s[:m[0]+1]` are both `‹string›[:‹[]int›[0] + 1]`);
//   * package-level names, field names, method names, literals and operators are kept.

import (
	"go/ast"
	"go/constant"
	"go/token"
	"go/types"
	"strings"
)

type normalizer struct {
	fset   *token.FileSet
	info   *types.Info
	pkg    *types.Package
	defOf  map[types.Object]ast.Expr // single-assignment locals
	depth  int
	inline map[types.Object]bool // guard against cycles
}

// newNormalizer analyses one function body.
func newNormalizer(fset *token.FileSet, info *types.Info, pkg *types.Package, fn *ast.FuncDecl) *normalizer {
	n := &normalizer{fset: fset, info: info, pkg: pkg, defOf: map[types.Object]ast.Expr{}, inline: map[types.Object]bool{}}
	count := map[types.Object]int{}
	def := map[types.Object]ast.Expr{}
	objOf := func(e ast.Expr) types.Object {
		id, ok := e.(*ast.Ident)
		if !ok {
			return nil
		}
		if o := info.Defs[id]; o != nil {
			return o
		}
		return info.Uses[id]
	}
	ast.Inspect(fn.Body, func(x ast.Node) bool {
		switch s := x.(type) {
		case *ast.AssignStmt:
			for i, l := range s.Lhs {
				o := objOf(l)
				if o == nil {
					continue
				}
				count[o]++
				if len(s.Lhs) == len(s.Rhs) && (s.Tok == token.DEFINE || s.Tok == token.ASSIGN) {
					def[o] = s.Rhs[i]
				} else {
					count[o]++ // multi-value or op-assignment: never expanded
				}
			}
		case *ast.ValueSpec:
			for i, id := range s.Names {
				o := info.Defs[id]
				if o == nil {
					continue
				}
				count[o]++
				if len(s.Values) == len(s.Names) {
					def[o] = s.Values[i]
				} else {
					count[o]++ // zero value, assigned later
				}
			}
		case *ast.IncDecStmt:
			if o := objOf(s.X); o != nil {
				count[o] += 2
			}
		case *ast.RangeStmt:
			for _, e := range []ast.Expr{s.Key, s.Value} {
				if e != nil {
					if o := objOf(e); o != nil {
						count[o] += 2
					}
				}
			}
		case *ast.UnaryExpr:
			if s.Op == token.AND {
				if o := objOf(s.X); o != nil {
					count[o] += 2
				}
			}
		}
		return true
	})
	for o, c := range count {
		if c == 1 && def[o] != nil {
			if _, isFunc := def[o].(*ast.FuncLit); !isFunc {
				n.defOf[o] = def[o]
			}
		}
	}
	return n
}

func (n *normalizer) isLocal(o types.Object) bool {
	if o == nil || o.Pkg() == nil || o.Parent() == nil {
		return false
	}
	if _, ok := o.(*types.Var); !ok {
		return false
	}
	return o.Parent() != o.Pkg().Scope() && o.Parent() != types.Universe
}

func (n *normalizer) typeStr(t types.Type) string {
	if t == nil {
		return "?"
	}
	switch u := t.(type) {
	case *types.Basic:
		if u.Kind() == types.Invalid {
			return "?"
		}
		return u.Name()
	case *types.Signature:
		var ps, rs []string
		for i := 0; i < u.Params().Len(); i++ {
			ps = append(ps, n.typeStr(u.Params().At(i).Type()))
		}
		for i := 0; i < u.Results().Len(); i++ {
			rs = append(rs, n.typeStr(u.Results().At(i).Type()))
		}
		s := "func(" + strings.Join(ps, ",") + ")"
		if len(rs) > 0 {
			s += "(" + strings.Join(rs, ",") + ")"
		}
		return s
	case *types.Slice:
		return "[]" + n.typeStr(u.Elem())
	case *types.Pointer:
		return "*" + n.typeStr(u.Elem())
	case *types.Map:
		return "map[" + n.typeStr(u.Key()) + "]" + n.typeStr(u.Elem())
	case *types.Named:
		if u.Obj() != nil {
			if u.Obj().Pkg() != nil && u.Obj().Pkg() != n.pkg {
				return u.Obj().Pkg().Name() + "." + u.Obj().Name()
			}
			return u.Obj().Name()
		}
	}
	s := types.TypeString(t, func(p *types.Package) string {
		if p == n.pkg {
			return ""
		}
		return p.Name()
	})
	if strings.Contains(s, "invalid type") {
		return "?"
	}
	return s
}

func (n *normalizer) text(e ast.Node) string {
	switch x := e.(type) {
	case nil:
		return ""
	case *ast.Ident:
		o := n.info.Uses[x]
		if o == nil {
			o = n.info.Defs[x]
		}
		if v, ok := n.moduleConst(o); ok {
			return v
		}
		if n.isLocal(o) {
			if d := n.defOf[o]; d != nil && !n.inline[o] && n.depth < 4 {
				n.inline[o] = true
				n.depth++
				s := n.text(d)
				n.depth--
				delete(n.inline, o)
				if _, bin := d.(*ast.BinaryExpr); bin {
					s = "(" + s + ")"
				}
				return s
			}
			return "<" + n.typeStr(o.Type()) + ">"
		}
		return x.Name
	case *ast.BasicLit:
		return x.Value
	case *ast.ParenExpr:
		return "(" + n.text(x.X) + ")"
	case *ast.SelectorExpr:
		if v, ok := n.moduleConst(n.info.Uses[x.Sel]); ok {
			return v
		}
		return n.text(x.X) + "." + x.Sel.Name
	case *ast.IndexExpr:
		return n.text(x.X) + "[" + n.text(x.Index) + "]"
	case *ast.SliceExpr:
		s := n.text(x.X) + "[" + n.text(x.Low) + ":" + n.text(x.High)
		if x.Max != nil {
			s += ":" + n.text(x.Max)
		}
		return s + "]"
	case *ast.StarExpr:
		return "*" + n.text(x.X)
	case *ast.UnaryExpr:
		return x.Op.String() + n.text(x.X)
	case *ast.BinaryExpr:
		return n.text(x.X) + " " + x.Op.String() + " " + n.text(x.Y)
	case *ast.CallExpr:
		var as []string
		for _, a := range x.Args {
			as = append(as, n.text(a))
		}
		s := n.text(x.Fun) + "(" + strings.Join(as, ", ")
		if x.Ellipsis.IsValid() {
			s += "..."
		}
		return s + ")"
	case *ast.TypeAssertExpr:
		if x.Type == nil {
			return n.text(x.X) + ".(type)"
		}
		return n.text(x.X) + ".(" + exprText(n.fset, x.Type) + ")"
	case *ast.KeyValueExpr:
		return n.text(x.Key) + ": " + n.text(x.Value)
	case *ast.CompositeLit:
		var es []string
		for _, el := range x.Elts {
			es = append(es, n.text(el))
		}
		t := ""
		if x.Type != nil {
			t = exprText(n.fset, x.Type)
		}
		return t + "{" + strings.Join(es, ", ") + "}"
	case *ast.FuncLit:
		return "func{…}"
	}
	return exprText(n.fset, e)
}

// moduleConst: a named constant of the module (package level or local) is printed by VALUE, so that
// `"status"` and `const statusSubdir = "status"` give the same key.  The packages are checked one by one with
// an importer that knows no members of other packages, so every constant that resolves (and is not one of
// the universe: true, false, iota) belongs to the package under translation; constants of other packages
// (`os.O_APPEND`, `pflag.ContinueOnError`) do not resolve and keep their names.
func (n *normalizer) moduleConst(o types.Object) (string, bool) {
	c, ok := o.(*types.Const)
	if !ok || c.Pkg() == nil || c.Val() == nil || c.Val().Kind() == constant.Unknown {
		return "", false
	}
	return c.Val().ExactString(), true
}
