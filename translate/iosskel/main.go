// iosskel — T-gen for C15: the interaction skeleton of the IOS apply path (go/pkg/ios/device.go)
// in a NORMAL FORM that does not depend on how the code is spelled:
//
//   - only INTERACTION steps are kept: calls of `s.Conn.*` (Send, SendCmd, IssueCmd, GetOutput,
//     WaitShort, TryPrompt, StripStdPrompt, StripEcho, …), calls of impure functions of the package
//     (those that transitively contain an interaction, an abort, a warning or a watched assignment),
//     calls of local closures, `errlog.Abort` (ends the path), and assignments to the WATCHED
//     variables `needReload` and `s.reloadActive`; pure string building (fmt.Sprintf, strings.Cut, `+`),
//     logging (errlog.Info), sleeping and pure helpers are transparent;
//   - string arguments are constant-folded (raw/interpreted literals, `"a" + "b"`) and re-quoted; every
//     other argument (locals, parameters, expressions) is `_` (alpha-renaming);
//   - control flow is compared as the SET of acyclic paths of interaction steps through the function:
//     if/else polarity, guard clauses vs. nesting, early returns, temporaries do not matter; a condition
//     contributes a token only if it reads a watched variable (`?needReload=T/F`, polarity canonical);
//     `defer X` contributes `defer:X` at the end of every path of its scope that passed the
//     registration (LIFO), an immediately invoked closure is spliced in with its own defer scope,
//     `range` is one composite step `range{<paths of the body>}`, `for {}` paths end in `loop`;
//     a path that ends in errlog.Abort is marked `!`.
//
// INLINING (robustness round 2): the fact is computed for the ENTRY POINTS only (`ApplyCommands` of
// package ios, `LoginEnable` of package cisco — exported API, named by the property's anchors).  Every call
// of a function or method of the same package (any file of the package directory) or of a local closure that
// contains an interaction is replaced by the callee's own paths (product), deferred calls included
// (their steps become `defer:` atoms at the end of the scope).  So a helper that is inlined, extracted,
// wrapped or moved to another file gives the same fact; no list of helper names exists.  The constant
// arguments of an inlined call (`sendReloadCmd(false)`, `waitPrompt(pass, ">")`) are kept as the atom
// `args(false)` / `args(_,">")` in front of the callee's steps — positional, not by name — so no
// information is dropped.  A loop nested in a `range` body is one atom `range{…}`.
//
// Output: lean/NA/Gen/IosSkel.lean with `paths : List (String × List SkelPath)` (entry point ↦ sorted,
// de-duplicated paths) and `rangeBody<n>` (the bodies of `range` loops, emitted once).  The Lean side
// computes the same normal form from the annotated programs of NA/Model/IosSessionProg.lean
// (`Prog.paths`, sub-programs inlined the same way) and proves the two sets equal.
package main

import (
	"flag"
	"fmt"
	"go/ast"
	"go/parser"
	"go/token"
	"os"
	"path/filepath"
	"sort"
	"strconv"
	"strings"
)

// entry points: (package directory, function)
var entries = [][2]string{{"ios", "ApplyCommands"}, {"cisco", "LoginEnable"}}

var watched = map[string]string{"needReload": "needReload", "s.reloadActive": "reloadActive"}

var fset = token.NewFileSet()

// ---------------------------------------------------------------- expressions

func exprText(e ast.Expr) string {
	switch x := e.(type) {
	case *ast.Ident:
		return x.Name
	case *ast.SelectorExpr:
		return exprText(x.X) + "." + x.Sel.Name
	case *ast.ParenExpr:
		return exprText(x.X)
	}
	return "?"
}

// local string constants of the function being walked: `name := <constant>` with no other
// assignment to `name` anywhere in the function
var localConst = map[string]string{}

// aliases of the connection (`conn := s.Conn`)
var connAlias = map[string]bool{}

func collectLocals(body *ast.BlockStmt) {
	localConst = map[string]string{}
	connAlias = map[string]bool{}
	defs := map[string]int{}
	ast.Inspect(body, func(n ast.Node) bool {
		switch x := n.(type) {
		case *ast.AssignStmt:
			for _, l := range x.Lhs {
				if id, ok := l.(*ast.Ident); ok {
					defs[id.Name]++
				}
			}
		case *ast.IncDecStmt:
			if id, ok := x.X.(*ast.Ident); ok {
				defs[id.Name] += 2
			}
		}
		return true
	})
	ast.Inspect(body, func(n ast.Node) bool {
		if x, ok := n.(*ast.AssignStmt); ok && x.Tok == token.DEFINE && len(x.Lhs) == 1 && len(x.Rhs) == 1 {
			if id, ok := x.Lhs[0].(*ast.Ident); ok && defs[id.Name] == 1 {
				if v, ok := constStr(x.Rhs[0]); ok {
					localConst[id.Name] = v
				}
				if exprText(x.Rhs[0]) == "s.Conn" {
					connAlias[id.Name] = true
				}
			}
		}
		return true
	})
}

// constant string value of an expression, if it has one
func constStr(e ast.Expr) (string, bool) {
	switch x := e.(type) {
	case *ast.Ident:
		v, ok := localConst[x.Name]
		return v, ok
	case *ast.BasicLit:
		if x.Kind == token.STRING {
			v, err := strconv.Unquote(x.Value)
			return v, err == nil
		}
	case *ast.ParenExpr:
		return constStr(x.X)
	case *ast.BinaryExpr:
		if x.Op == token.ADD {
			a, ok1 := constStr(x.X)
			b, ok2 := constStr(x.Y)
			if ok1 && ok2 {
				return a + b, true
			}
		}
	}
	return "", false
}

func argText(e ast.Expr) string {
	if v, ok := constStr(e); ok {
		return strconv.Quote(v)
	}
	if id, ok := e.(*ast.Ident); ok && (id.Name == "true" || id.Name == "false") {
		return id.Name
	}
	return "_"
}

// ---------------------------------------------------------------- the package

// a function or method of the package (object identity: receiver type + name, any file)
type fn struct {
	key  string
	decl *ast.FuncDecl
}

type world struct {
	fns     map[string]*fn // "State.cmd", "isValidOutput"
	impure  map[*fn]bool
	memo    map[*fn][]path
	active  map[*fn]bool            // inlining in progress (recursion guard)
	recv    string                  // name of the receiver variable of the function being walked
	recvT   string                  // its type
	closure map[string]*ast.FuncLit // local closures in scope
	consts  map[string]string       // package-level string constants
	bodies  []string                // rendered bodies of range loops, emitted once
	tag     string
}

func recvOf(fd *ast.FuncDecl) (name, typ string) {
	if fd.Recv == nil || len(fd.Recv.List) == 0 {
		return "", ""
	}
	f := fd.Recv.List[0]
	if len(f.Names) > 0 {
		name = f.Names[0].Name
	}
	t := f.Type
	if st, ok := t.(*ast.StarExpr); ok {
		t = st.X
	}
	return name, exprText(t)
}

// resolve a call to a function of the package or a local closure
func (w *world) callee(c *ast.CallExpr) (*fn, *ast.FuncLit) {
	switch f := c.Fun.(type) {
	case *ast.Ident:
		if cl, ok := w.closure[f.Name]; ok {
			return nil, cl
		}
		return w.fns[f.Name], nil
	case *ast.SelectorExpr:
		if id, ok := f.X.(*ast.Ident); ok && w.recv != "" && id.Name == w.recv {
			return w.fns[w.recvT+"."+f.Sel.Name], nil
		}
	}
	return nil, nil
}

// primitive interactions: the connection, abort, warning
func (w *world) primitive(c *ast.CallExpr) (string, bool, bool) { // token name, primitive?, abort?
	name := exprText(c.Fun)
	if i := strings.Index(name, "."); i > 0 && connAlias[name[:i]] {
		name = w.recv + ".Conn." + name[i+1:]
	}
	switch {
	case w.recv != "" && strings.HasPrefix(name, w.recv+".Conn."):
		return strings.TrimPrefix(name, w.recv+".Conn."), true, false
	case name == "errlog.Abort":
		return "Abort", true, true
	case name == "errlog.Warning":
		return "Warning", true, false
	}
	return "", false, false
}

// a function is impure if it (transitively) contains a primitive or assigns a watched variable
func (w *world) computeImpure() {
	w.impure = map[*fn]bool{}
	for changed := true; changed; {
		changed = false
		for _, f := range w.fns {
			if w.impure[f] || f.decl.Body == nil {
				continue
			}
			w.recv, w.recvT = recvOf(f.decl)
			collectLocals(f.decl.Body)
			imp := false
			ast.Inspect(f.decl.Body, func(x ast.Node) bool {
				switch y := x.(type) {
				case *ast.CallExpr:
					if _, ok, _ := w.primitive(y); ok {
						imp = true
					}
					if g, _ := w.callee(y); g != nil && w.impure[g] {
						imp = true
					}
				case *ast.AssignStmt:
					for _, l := range y.Lhs {
						if _, ok := watched[w.canon(exprText(l))]; ok {
							imp = true
						}
					}
				}
				return !imp
			})
			if imp {
				w.impure[f] = true
				changed = true
			}
		}
	}
}

// the receiver variable is alpha-renamed to `s`
func (w *world) canon(name string) string {
	if w.recv != "" && strings.HasPrefix(name, w.recv+".") {
		return "s." + strings.TrimPrefix(name, w.recv+".")
	}
	return name
}

// the paths of a package function, computed once
func (w *world) fnPaths(f *fn) []path {
	if ps, ok := w.memo[f]; ok {
		return ps
	}
	if w.active[f] {
		return []path{{toks: []string{"recursion()"}}}
	}
	w.active[f] = true
	sr, st, sc, sl, sa := w.recv, w.recvT, w.closure, localConst, connAlias
	w.recv, w.recvT = recvOf(f.decl)
	w.closure = map[string]*ast.FuncLit{}
	collectLocals(f.decl.Body)
	for k, v := range w.consts {
		if _, ok := localConst[k]; !ok {
			localConst[k] = v
		}
	}
	ps := endScope(w.block(f.decl.Body.List, []path{{}}), 0)
	w.recv, w.recvT, w.closure, localConst, connAlias = sr, st, sc, sl, sa
	delete(w.active, f)
	w.memo[f] = ps
	return ps
}

// splice the paths of a callee behind p
func splice(p path, callee []path, args string) []path {
	var out []path
	for _, c := range callee {
		q := p.ext()
		if args != "" {
			q.toks = append(q.toks, args)
		}
		q.toks = append(q.toks, c.toks...)
		if c.status == stAbort {
			q.status = stAbort
		}
		out = append(out, q)
	}
	return out
}

// `args(false)`, `args(_,">")`: the constant arguments of an inlined call, by position
func constArgs(c *ast.CallExpr) string {
	var as []string
	any := false
	for _, a := range c.Args {
		t := argText(a)
		if t != "_" {
			any = true
		}
		as = append(as, t)
	}
	if !any {
		return ""
	}
	return "args(" + strings.Join(as, ",") + ")"
}

// eval: the interactions of an expression in evaluation order (arguments before the call); calls of
// impure package functions and of local closures are replaced by the callee's paths
func (w *world) eval(e ast.Node, in []path) []path {
	ps := in
	if e == nil {
		return ps
	}
	var visit func(n ast.Node)
	visit = func(n ast.Node) {
		switch x := n.(type) {
		case nil:
			return
		case *ast.FuncLit:
			return // handled by the statement walker
		case *ast.CallExpr:
			for _, a := range x.Args {
				visit(a)
			}
			visit(x.Fun)
			if name, ok, ab := w.primitive(x); ok {
				var args []string
				if name != "Abort" && name != "Warning" { // the message text is not part of the skeleton
					for _, a := range x.Args {
						args = append(args, argText(a))
					}
				}
				tok := name + "(" + strings.Join(args, ",") + ")"
				for i := range ps {
					if ps[i].status == stOpen {
						ps[i] = ps[i].ext(tok)
						if ab {
							ps[i].status = stAbort
						}
					}
				}
				return
			}
			f, cl := w.callee(x)
			var callee []path
			switch {
			case cl != nil:
				sc := w.closure
				callee = endScope(w.block(cl.Body.List, []path{{}}), 0)
				w.closure = sc
			case f != nil && w.impure[f] && f.decl.Body != nil:
				callee = w.fnPaths(f)
			default:
				return
			}
			args := constArgs(x)
			var next []path
			for _, p := range ps {
				if p.status != stOpen {
					next = append(next, p)
					continue
				}
				next = append(next, splice(p, callee, args)...)
			}
			ps = next
			return
		}
		ast.Inspect(n, func(c ast.Node) bool {
			if c == n || c == nil {
				return true
			}
			visit(c)
			return false
		})
	}
	visit(e)
	return ps
}

func (w *world) hasInteraction(e ast.Node) bool {
	for _, p := range w.eval(e, []path{{}}) {
		if len(p.toks) > 0 || p.status != stOpen {
			return true
		}
	}
	return false
}

// ---------------------------------------------------------------- paths

const (
	stOpen = iota
	stRet
	stAbort
	stLoop
	stBreak
	stContinue
)

type path struct {
	toks   []string
	defers [][][]string // per deferred call: the alternative step sequences of the callee
	status int
}

func (p path) ext(toks ...string) path {
	n := path{toks: append(append([]string{}, p.toks...), toks...), defers: append([][][]string{}, p.defers...), status: p.status}
	return n
}

func (w *world) mentionsWatched(e ast.Expr) (string, bool, bool) { // name, found, negated
	neg := false
	for {
		switch x := e.(type) {
		case *ast.ParenExpr:
			e = x.X
			continue
		case *ast.UnaryExpr:
			if x.Op == token.NOT {
				neg = !neg
				e = x.X
				continue
			}
		}
		break
	}
	if n, ok := watched[w.canon(exprText(e))]; ok {
		return n, true, neg
	}
	return "", false, false
}

// endScope: the deferred calls of a scope run at its end, in reverse order, on every path
func endScope(ps []path, base int) []path {
	var out []path
	for _, p := range ps {
		cur := []path{p.ext()}
		for i := len(p.defers) - 1; i >= base; i-- {
			var next []path
			for _, c := range cur {
				for _, alt := range p.defers[i] {
					n := c.ext()
					for _, t := range alt {
						if strings.HasPrefix(t, "?") {
							n.toks = append(n.toks, t)
						} else {
							n.toks = append(n.toks, "defer:"+t)
						}
					}
					next = append(next, n)
				}
			}
			cur = next
		}
		for _, n := range cur {
			n.defers = n.defers[:base]
			out = append(out, n)
		}
	}
	return out
}

func (w *world) block(stmts []ast.Stmt, in []path) []path {
	ps := in
	for _, s := range stmts {
		var next []path
		for _, p := range ps {
			if p.status != stOpen {
				next = append(next, p)
				continue
			}
			next = append(next, w.stmt(s, p)...)
		}
		ps = next
	}
	return ps
}

// cond: the paths on which the condition is true / false.  `a || b`, `a && b`, `!a` whose RIGHT
// operand contains an interaction are evaluated with Go's short circuit (the interaction happens
// only on the paths that reach it); every other condition is one evaluation.
func (w *world) cond(c ast.Expr, q path) (ts, es []path) {
	switch x := c.(type) {
	case *ast.ParenExpr:
		return w.cond(x.X, q)
	case *ast.UnaryExpr:
		if x.Op == token.NOT {
			if w.hasInteraction(x.X) {
				es, ts = w.cond(x.X, q)
				return
			}
		}
	case *ast.BinaryExpr:
		if x.Op == token.LOR || x.Op == token.LAND {
			if w.hasInteraction(x.Y) {
				ta, ea := w.cond(x.X, q)
				if x.Op == token.LOR {
					ts = append(ts, ta...)
					for _, e := range ea {
						if e.status != stOpen {
							continue
						}
						tb, eb := w.cond(x.Y, e)
						ts = append(ts, tb...)
						es = append(es, eb...)
					}
				} else {
					es = append(es, ea...)
					for _, t := range ta {
						if t.status != stOpen {
							ts = append(ts, t)
							continue
						}
						tb, eb := w.cond(x.Y, t)
						ts = append(ts, tb...)
						es = append(es, eb...)
					}
				}
				return
			}
		}
	}
	for _, q := range w.eval(c, []path{q}) {
		if q.status != stOpen {
			ts = append(ts, q)
			continue
		}
		t, e := q, q
		if n, ok, neg := w.mentionsWatched(c); ok {
			tv, ev := "T", "F"
			if neg {
				tv, ev = "F", "T"
			}
			t = q.ext("?" + n + "=" + tv)
			e = q.ext("?" + n + "=" + ev)
		}
		ts = append(ts, t)
		es = append(es, e)
	}
	return
}

func (w *world) stmt(s ast.Stmt, p path) []path {
	switch s := s.(type) {
	case *ast.ExprStmt:
		if c, ok := s.X.(*ast.CallExpr); ok {
			if f, ok := c.Fun.(*ast.FuncLit); ok {
				// immediately invoked closure: own defer scope, `return` ends the closure only
				base := len(p.defers)
				inner := endScope(w.block(f.Body.List, []path{p}), base)
				for i := range inner {
					if inner[i].status == stRet {
						inner[i].status = stOpen
					}
				}
				return inner
			}
		}
		return w.eval(s, []path{p})
	case *ast.AssignStmt:
		if len(s.Rhs) == 1 {
			if f, ok := s.Rhs[0].(*ast.FuncLit); ok {
				// local closure: inlined where it is called
				w.closure[exprText(s.Lhs[0])] = f
				return []path{p}
			}
		}
		var out []path
		for _, q := range w.eval(s, []path{p}) {
			if q.status == stOpen {
				for i, l := range s.Lhs {
					if n, ok := watched[w.canon(exprText(l))]; ok {
						q = q.ext(n + assignClass(n, l, s, i))
					}
				}
			}
			out = append(out, q)
		}
		return out
	case *ast.DeclStmt, *ast.IncDecStmt, *ast.EmptyStmt:
		return []path{p}
	case *ast.DeferStmt:
		var alts [][]string
		for _, a := range w.eval(s.Call, []path{{}}) {
			alts = append(alts, a.toks)
		}
		q := p.ext()
		nonEmpty := false
		for _, a := range alts {
			if len(a) > 0 {
				nonEmpty = true
			}
		}
		if nonEmpty {
			q.defers = append(q.defers, alts)
		}
		return []path{q}
	case *ast.ReturnStmt:
		var out []path
		for _, q := range w.eval(s, []path{p}) {
			if q.status == stOpen {
				q.status = stRet
			}
			out = append(out, q)
		}
		return out
	case *ast.BranchStmt:
		q := p.ext()
		switch s.Tok {
		case token.CONTINUE:
			q.status = stContinue
		case token.BREAK:
			q.status = stBreak
		}
		return []path{q}
	case *ast.BlockStmt:
		return w.block(s.List, []path{p})
	case *ast.IfStmt:
		ps := []path{p}
		if s.Init != nil {
			ps = w.block([]ast.Stmt{s.Init}, ps)
		}
		var out []path
		for _, q := range ps {
			if q.status != stOpen {
				out = append(out, q)
				continue
			}
			ts, es := w.cond(s.Cond, q)
			for _, t := range ts {
				if t.status != stOpen {
					out = append(out, t)
					continue
				}
				out = append(out, w.block(s.Body.List, []path{t})...)
			}
			for _, e := range es {
				if e.status != stOpen {
					continue // the aborted evaluation is already among ts
				}
				switch el := s.Else.(type) {
				case nil:
					out = append(out, e)
				case *ast.BlockStmt:
					out = append(out, w.block(el.List, []path{e})...)
				case *ast.IfStmt:
					out = append(out, w.stmt(el, e)...)
				}
			}
		}
		return out
	case *ast.ForStmt:
		body := w.block(s.Body.List, []path{p})
		var out []path
		for _, q := range body {
			switch q.status {
			case stOpen, stContinue:
				q = q.ext("loop")
				q.status = stLoop
			case stBreak:
				q.status = stOpen
			}
			out = append(out, q)
		}
		if s.Cond != nil {
			out = append(out, p) // the loop may not be entered
		}
		return out
	case *ast.RangeStmt:
		sub := w.block(s.Body.List, []path{{}})
		tok := "range{" + strings.Join(leanBody(sub), ", ") + "}"
		compactOf[tok] = "loop{" + strings.Join(renderAllOld(sub), "|") + "}"
		return []path{p.ext(tok)}
	}
	return []path{p.ext(fmt.Sprintf("?%T", s))}
}

func assignClass(n string, l ast.Expr, s *ast.AssignStmt, i int) string {
	if len(s.Rhs) == len(s.Lhs) {
		r := s.Rhs[i]
		if id, ok := r.(*ast.Ident); ok && (id.Name == "true" || id.Name == "false") {
			return ":=" + id.Name
		}
		// accumulate: the right-hand side reads the variable itself
		self := false
		ast.Inspect(r, func(x ast.Node) bool {
			if e, ok := x.(ast.Expr); ok {
				if exprText(e) == exprText(l) {
					self = true
				}
			}
			return !self
		})
		if self {
			return "|=_"
		}
	}
	return ":=_"
}

// compact rendering of a range token, for loops nested in a range body
var compactOf = map[string]string{}

func render(p path) string {
	s := strings.Join(p.toks, ";")
	if p.status == stAbort {
		s += "!"
	}
	return s
}

func renderAllOld(ps []path) []string {
	set := map[string]bool{}
	for _, p := range ps {
		set[render(p)] = true
	}
	var l []string
	for s := range set {
		l = append(l, s)
	}
	sort.Strings(l)
	return l
}

// the atoms are emitted once, in a table; paths refer to them by index (the Lean kernel compares
// numbers, not strings, when it decides the equality of the path sets)
var atomIndex = map[string]int{}
var atomTable []string

func atomCode(t string) string {
	a := leanAtom(t)
	k, ok := atomIndex[a]
	if !ok {
		k = len(atomTable)
		atomIndex[a] = k
		atomTable = append(atomTable, a)
	}
	return strconv.Itoa(k)
}

// Lean syntax of one atom token
func leanAtom(t string) string {
	switch {
	case strings.HasPrefix(t, "?") && (strings.HasSuffix(t, "=T") || strings.HasSuffix(t, "=F")):
		b := "false"
		if strings.HasSuffix(t, "=T") {
			b = "true"
		}
		return ".cond " + strconv.QuoteToASCII(t[1:len(t)-2]) + " " + b
	case strings.HasPrefix(t, "defer:"):
		return ".deferred " + strconv.QuoteToASCII(strings.TrimPrefix(t, "defer:"))
	}
	if c, ok := compactOf[t]; ok {
		// a loop nested in a range body is ONE atom carrying the canonical rendering of its paths
		return ".step " + strconv.QuoteToASCII(c)
	}
	return ".step " + strconv.QuoteToASCII(t)
}

// the paths of a range body as Lean terms `([atoms], aborted)`
func leanBody(ps []path) []string {
	set := map[string]bool{}
	for _, p := range ps {
		var as []string
		for _, t := range p.toks {
			as = append(as, atomCode(t))
		}
		ab := "false"
		if p.status == stAbort {
			ab = "true"
		}
		set["(["+strings.Join(as, ", ")+"], "+ab+")"] = true
	}
	var l []string
	for s := range set {
		l = append(l, s)
	}
	sort.Strings(l)
	return l
}

// Lean term of one path `([toks], aborted)`; the bodies of range loops are emitted once (`rangeBody<n>`)
func (w *world) leanPath(p path) string {
	var ts []string
	for _, t := range p.toks {
		if strings.HasPrefix(t, "range{") {
			body := strings.TrimSuffix(strings.TrimPrefix(t, "range{"), "}")
			k := -1
			for i, b := range w.bodies {
				if b == body {
					k = i
				}
			}
			if k < 0 {
				k = len(w.bodies)
				w.bodies = append(w.bodies, body)
			}
			ts = append(ts, fmt.Sprintf(".range rangeBody%s%d", w.tag, k))
		} else {
			ts = append(ts, ".atom "+atomCode(t))
		}
	}
	ab := "false"
	if p.status == stAbort {
		ab = "true"
	}
	return "([" + strings.Join(ts, ", ") + "], " + ab + ")"
}

func (w *world) renderAll(ps []path) []string {
	set := map[string]bool{}
	for _, p := range ps {
		set[w.leanPath(p)] = true
	}
	var l []string
	for s := range set {
		l = append(l, s)
	}
	sort.Strings(l)
	return l
}

func loadPackage(dir string) *world {
	w := &world{fns: map[string]*fn{}, memo: map[*fn][]path{}, active: map[*fn]bool{}, closure: map[string]*ast.FuncLit{},
		consts: map[string]string{}}
	pkgs, err := parser.ParseDir(fset, dir, func(fi os.FileInfo) bool { return !strings.HasSuffix(fi.Name(), "_test.go") }, 0)
	if err != nil {
		fmt.Fprintln(os.Stderr, err)
		os.Exit(1)
	}
	for _, pk := range pkgs {
		for _, f := range pk.Files {
			for _, d := range f.Decls {
				switch x := d.(type) {
				case *ast.FuncDecl:
					key := x.Name.Name
					if _, t := recvOf(x); t != "" {
						key = t + "." + key
					}
					w.fns[key] = &fn{key: key, decl: x}
				case *ast.GenDecl:
					if x.Tok != token.CONST {
						continue
					}
					for _, sp := range x.Specs {
						vs, ok := sp.(*ast.ValueSpec)
						if !ok {
							continue
						}
						for i, n := range vs.Names {
							if i < len(vs.Values) {
								if v, ok := constStr(vs.Values[i]); ok {
									w.consts[n.Name] = v
								}
							}
						}
					}
				}
			}
		}
	}
	w.computeImpure()
	return w
}

func main() {
	repo := flag.String("repo", "/repo", "repository root")
	out := flag.String("out", "", "Lean file to write")
	flag.Parse()
	var b strings.Builder
	var ents []string
	for _, e := range entries {
		w := loadPackage(filepath.Join(*repo, "go", "pkg", e[0]))
		w.tag = e[1]
		var ps []string
		found := false
		for _, f := range w.fns {
			if f.decl.Name.Name == e[1] && f.decl.Body != nil {
				ps = w.renderAll(w.fnPaths(f))
				found = true
			}
		}
		if !found {
			// the entry point is gone: a changed fact, not an abort of the translator
			ps = []string{"([.atom " + atomCode("?missing") + "], false)"}
		}
		for i, body := range w.bodies {
			b.WriteString(fmt.Sprintf("def rangeBody%s%d : List (List Nat × Bool) := [\n  %s\n]\n\n", w.tag, i,
				strings.ReplaceAll(body, "), (", "),\n  (")))
		}
		ents = append(ents, "  ("+strconv.QuoteToASCII(e[1])+", [\n    "+strings.Join(ps, ",\n    ")+"\n  ])")
	}
	var h strings.Builder
	h.WriteString("import NA.Model.IosSkelTypes\n")
	h.WriteString("/-! GENERATED by translate/iosskel from go/pkg/ios, go/pkg/cisco — do not edit, not committed.\n")
	h.WriteString("Normal form: sets of acyclic paths of interaction steps of the entry points, package helpers inlined\n(see translate/iosskel/main.go).  The atoms are listed once (`atomTable`), the paths refer to them by index. -/\n")
	h.WriteString("namespace NA.Gen.IosSkel\nopen NA.Ios\n\n")
	h.WriteString("def atomTable : List Atom := [\n")
	for i, a := range atomTable {
		sep := ","
		if i+1 == len(atomTable) {
			sep = ""
		}
		h.WriteString(fmt.Sprintf("  /- %d -/ %s%s\n", i, a, sep))
	}
	h.WriteString("]\n\n")
	b.WriteString("def paths : List (String × List CPath) := [\n" + strings.Join(ents, ",\n") + "\n]\n\nend NA.Gen.IosSkel\n")
	b2 := h.String() + b.String()
	b.Reset()
	b.WriteString(b2)
	if *out == "" {
		fmt.Print(b.String())
		return
	}
	if err := os.WriteFile(*out, []byte(b.String()), 0644); err != nil {
		fmt.Fprintln(os.Stderr, err)
		os.Exit(1)
	}
}
