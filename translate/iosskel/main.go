// iosskel — T-gen for C15: the interaction skeleton of the IOS apply path (go/pkg/ios/device.go)
// in a NORMAL FORM that does not depend on how the code is spelled:
//
//   * only INTERACTION steps are kept: calls of `s.Conn.*` (Send, SendCmd, IssueCmd, GetOutput,
//     WaitShort, TryPrompt, StripStdPrompt, StripEcho, …), calls of impure functions of the package
//     (those that transitively contain an interaction, an abort, a warning or a watched assignment),
//     calls of local closures, `errlog.Abort` (ends the path), and assignments to the WATCHED
//     variables `needReload` and `s.reloadActive`; pure string building (fmt.Sprintf, strings.Cut, `+`),
//     logging (errlog.Info), sleeping and pure helpers are transparent;
//   * string arguments are constant-folded (raw/interpreted literals, `"a" + "b"`) and re-quoted; every
//     other argument (locals, parameters, expressions) is `_` (alpha-renaming);
//   * control flow is compared as the SET of acyclic paths of interaction steps through the function:
//     if/else polarity, guard clauses vs. nesting, early returns, temporaries do not matter; a condition
//     contributes a token only if it reads a watched variable (`?needReload=T/F`, polarity canonical);
//     `defer X` contributes `defer:X` at the end of every path of its scope that passed the
//     registration (LIFO), an immediately invoked closure is spliced in with its own defer scope,
//     `range` is one composite step `range{<paths of the body>}`, `for {}` paths end in `loop`;
//     a path that ends in errlog.Abort is marked `!`.
//
// Output: lean/NA/Gen/IosSkel.lean with `paths : List (String × List String)` (function ↦ sorted,
// de-duplicated rendered paths).  The Lean side computes the same normal form from the annotated
// programs of NA/Model/IosSessionProg.lean (`Prog.paths`) and proves the two sets equal.
package main

import (
	"flag"
	"fmt"
	"go/ast"
	"go/parser"
	"go/token"
	"os"
	"path/filepath"
	"sort"
	"strconv"
	"strings"
)

var funcs = []string{"ApplyCommands", "cmd", "cmd.check", "scheduleReload", "extendReload", "sendReloadCmd",
	"cancelReload", "writeMem", "stripReloadBanner", "prepareDevice", "LoginEnable", "LoginEnable.waitPrompt"}

var watched = map[string]string{"needReload": "needReload", "s.reloadActive": "reloadActive"}

var fset = token.NewFileSet()

// ---------------------------------------------------------------- expressions

func exprText(e ast.Expr) string {
	switch x := e.(type) {
	case *ast.Ident:
		return x.Name
	case *ast.SelectorExpr:
		return exprText(x.X) + "." + x.Sel.Name
	case *ast.ParenExpr:
		return exprText(x.X)
	}
	return "?"
}

// local string constants of the function being walked: `name := <constant>` with no other
// assignment to `name` anywhere in the function
var localConst = map[string]string{}

// aliases of the connection (`conn := s.Conn`)
var connAlias = map[string]bool{}

func collectLocals(body *ast.BlockStmt) {
	localConst = map[string]string{}
	connAlias = map[string]bool{}
	defs := map[string]int{}
	ast.Inspect(body, func(n ast.Node) bool {
		switch x := n.(type) {
		case *ast.AssignStmt:
			for _, l := range x.Lhs {
				if id, ok := l.(*ast.Ident); ok {
					defs[id.Name]++
				}
			}
		case *ast.IncDecStmt:
			if id, ok := x.X.(*ast.Ident); ok {
				defs[id.Name] += 2
			}
		}
		return true
	})
	ast.Inspect(body, func(n ast.Node) bool {
		if x, ok := n.(*ast.AssignStmt); ok && x.Tok == token.DEFINE && len(x.Lhs) == 1 && len(x.Rhs) == 1 {
			if id, ok := x.Lhs[0].(*ast.Ident); ok && defs[id.Name] == 1 {
				if v, ok := constStr(x.Rhs[0]); ok {
					localConst[id.Name] = v
				}
				if exprText(x.Rhs[0]) == "s.Conn" {
					connAlias[id.Name] = true
				}
			}
		}
		return true
	})
}

// constant string value of an expression, if it has one
func constStr(e ast.Expr) (string, bool) {
	switch x := e.(type) {
	case *ast.Ident:
		v, ok := localConst[x.Name]
		return v, ok
	case *ast.BasicLit:
		if x.Kind == token.STRING {
			v, err := strconv.Unquote(x.Value)
			return v, err == nil
		}
	case *ast.ParenExpr:
		return constStr(x.X)
	case *ast.BinaryExpr:
		if x.Op == token.ADD {
			a, ok1 := constStr(x.X)
			b, ok2 := constStr(x.Y)
			if ok1 && ok2 {
				return a + b, true
			}
		}
	}
	return "", false
}

func argText(e ast.Expr) string {
	if v, ok := constStr(e); ok {
		return strconv.Quote(v)
	}
	if id, ok := e.(*ast.Ident); ok && (id.Name == "true" || id.Name == "false") {
		return id.Name
	}
	return "_"
}

// ---------------------------------------------------------------- impurity of package functions

type world struct {
	decls   map[string]*ast.FuncDecl // functions and methods of the file by name
	impure  map[string]bool
	closure map[string]bool // local closures of the function being walked
	extra   map[string][]string
	cur     string
}

func (w *world) isInteractionCall(c *ast.CallExpr) (string, bool, bool) { // token name, interaction?, abort?
	name := exprText(c.Fun)
	if i := strings.Index(name, "."); i > 0 && connAlias[name[:i]] {
		name = "s.Conn." + name[i+1:]
	}
	switch {
	case strings.HasPrefix(name, "s.Conn."):
		return strings.TrimPrefix(name, "s.Conn."), true, false
	case name == "errlog.Abort":
		return "Abort", true, true
	case name == "errlog.Warning":
		return "Warning", true, false
	case strings.HasPrefix(name, "s.") && !strings.Contains(name[2:], "."):
		if w.impure[name[2:]] {
			return name[2:], true, false
		}
	case !strings.Contains(name, "."):
		if w.closure[name] || w.impure[name] {
			return name, true, false
		}
	}
	return "", false, false
}

func (w *world) computeImpure() {
	w.impure = map[string]bool{}
	for changed := true; changed; {
		changed = false
		for n, d := range w.decls {
			if w.impure[n] || d.Body == nil {
				continue
			}
			imp := false
			ast.Inspect(d.Body, func(x ast.Node) bool {
				switch y := x.(type) {
				case *ast.CallExpr:
					if _, ok, _ := w.isInteractionCall(y); ok {
						imp = true
					}
				case *ast.AssignStmt:
					for _, l := range y.Lhs {
						if _, ok := watched[exprText(l)]; ok {
							imp = true
						}
					}
				}
				return !imp
			})
			if imp {
				w.impure[n] = true
				changed = true
			}
		}
	}
}

// interaction tokens of an expression in evaluation order (arguments before the call)
func (w *world) exprToks(e ast.Node) (toks []string, abort bool) {
	if e == nil {
		return nil, false
	}
	var visit func(n ast.Node)
	visit = func(n ast.Node) {
		switch x := n.(type) {
		case nil:
			return
		case *ast.FuncLit:
			return // handled by the statement walker
		case *ast.CallExpr:
			for _, a := range x.Args {
				visit(a)
			}
			visit(x.Fun)
			if name, ok, ab := w.isInteractionCall(x); ok {
				var args []string
				if name == "Abort" || name == "Warning" {
					// the message text is not part of the skeleton
				} else {
					for _, a := range x.Args {
						args = append(args, argText(a))
					}
				}
				toks = append(toks, name+"("+strings.Join(args, ",")+")")
				if ab {
					abort = true
				}
			}
			return
		}
		ast.Inspect(n, func(c ast.Node) bool {
			if c == n || c == nil {
				return true
			}
			visit(c)
			return false
		})
	}
	visit(e)
	return
}

// ---------------------------------------------------------------- paths

const (
	stOpen = iota
	stRet
	stAbort
	stLoop
	stBreak
	stContinue
)

type path struct {
	toks   []string
	defers []string
	status int
}

func (p path) ext(toks ...string) path {
	n := path{toks: append(append([]string{}, p.toks...), toks...), defers: append([]string{}, p.defers...), status: p.status}
	return n
}

func render(p path) string {
	s := strings.Join(p.toks, ";")
	if p.status == stAbort {
		s += "!"
	}
	return s
}

func mentionsWatched(e ast.Expr) (string, bool, bool) { // name, found, negated
	neg := false
	for {
		switch x := e.(type) {
		case *ast.ParenExpr:
			e = x.X
			continue
		case *ast.UnaryExpr:
			if x.Op == token.NOT {
				neg = !neg
				e = x.X
				continue
			}
		}
		break
	}
	if n, ok := watched[exprText(e)]; ok {
		return n, true, neg
	}
	return "", false, false
}

// endScope: the deferred calls of a scope run at its end, in reverse order, on every path
func endScope(ps []path, base int) []path {
	var out []path
	for _, p := range ps {
		n := p.ext()
		for i := len(p.defers) - 1; i >= base; i-- {
			n.toks = append(n.toks, "defer:"+p.defers[i])
		}
		n.defers = n.defers[:base]
		out = append(out, n)
	}
	return out
}

func (w *world) block(stmts []ast.Stmt, in []path) []path {
	ps := in
	for _, s := range stmts {
		var next []path
		for _, p := range ps {
			if p.status != stOpen {
				next = append(next, p)
				continue
			}
			next = append(next, w.stmt(s, p)...)
		}
		ps = next
	}
	return ps
}

func (w *world) simple(n ast.Node, p path) path {
	toks, ab := w.exprToks(n)
	q := p.ext(toks...)
	if ab {
		q.status = stAbort
	}
	return q
}

// cond: the paths on which the condition is true / false.  `a || b`, `a && b`, `!a` whose RIGHT
// operand contains an interaction are evaluated with Go's short circuit (the interaction happens
// only on the paths that reach it); every other condition is one evaluation.
func (w *world) cond(c ast.Expr, q path) (ts, es []path) {
	switch x := c.(type) {
	case *ast.ParenExpr:
		return w.cond(x.X, q)
	case *ast.UnaryExpr:
		if x.Op == token.NOT {
			if toks, _ := w.exprToks(x.X); len(toks) > 0 {
				es, ts = w.cond(x.X, q)
				return
			}
		}
	case *ast.BinaryExpr:
		if x.Op == token.LOR || x.Op == token.LAND {
			if toks, _ := w.exprToks(x.Y); len(toks) > 0 {
				ta, ea := w.cond(x.X, q)
				if x.Op == token.LOR {
					ts = append(ts, ta...)
					for _, e := range ea {
						if e.status != stOpen {
							continue
						}
						tb, eb := w.cond(x.Y, e)
						ts = append(ts, tb...)
						es = append(es, eb...)
					}
				} else {
					es = append(es, ea...)
					for _, t := range ta {
						if t.status != stOpen {
							ts = append(ts, t)
							continue
						}
						tb, eb := w.cond(x.Y, t)
						ts = append(ts, tb...)
						es = append(es, eb...)
					}
				}
				return
			}
		}
	}
	q = w.simple(c, q)
	if q.status != stOpen {
		return []path{q}, nil
	}
	t, e := q, q
	if n, ok, neg := mentionsWatched(c); ok {
		tv, ev := "T", "F"
		if neg {
			tv, ev = "F", "T"
		}
		t = q.ext("?" + n + "=" + tv)
		e = q.ext("?" + n + "=" + ev)
	}
	return []path{t}, []path{e}
}

func (w *world) stmt(s ast.Stmt, p path) []path {
	switch s := s.(type) {
	case *ast.ExprStmt:
		if c, ok := s.X.(*ast.CallExpr); ok {
			if f, ok := c.Fun.(*ast.FuncLit); ok {
				// immediately invoked closure: own defer scope, `return` ends the closure only
				base := len(p.defers)
				inner := endScope(w.block(f.Body.List, []path{p}), base)
				for i := range inner {
					if inner[i].status == stRet {
						inner[i].status = stOpen
					}
				}
				return inner
			}
		}
		return []path{w.simple(s, p)}
	case *ast.AssignStmt:
		if len(s.Rhs) == 1 {
			if f, ok := s.Rhs[0].(*ast.FuncLit); ok {
				// local closure: a function of its own
				name := exprText(s.Lhs[0])
				w.closure[name] = true
				sub := endScope(w.block(f.Body.List, []path{{}}), 0)
				w.extra[w.cur+"."+name] = renderAll(sub)
				return []path{p}
			}
		}
		q := w.simple(s, p)
		if q.status == stOpen {
			for i, l := range s.Lhs {
				if n, ok := watched[exprText(l)]; ok {
					q = q.ext(n + assignClass(n, l, s, i))
				}
			}
		}
		return []path{q}
	case *ast.DeclStmt, *ast.IncDecStmt, *ast.EmptyStmt:
		return []path{p}
	case *ast.DeferStmt:
		toks, _ := w.exprToks(s.Call)
		q := p.ext()
		if len(toks) > 0 {
			q.defers = append(q.defers, strings.Join(toks, ";"))
		}
		return []path{q}
	case *ast.ReturnStmt:
		q := w.simple(s, p)
		if q.status == stOpen {
			q.status = stRet
		}
		return []path{q}
	case *ast.BranchStmt:
		q := p.ext()
		switch s.Tok {
		case token.CONTINUE:
			q.status = stContinue
		case token.BREAK:
			q.status = stBreak
		}
		return []path{q}
	case *ast.BlockStmt:
		return w.block(s.List, []path{p})
	case *ast.IfStmt:
		ps := []path{p}
		if s.Init != nil {
			ps = w.block([]ast.Stmt{s.Init}, ps)
		}
		var out []path
		for _, q := range ps {
			if q.status != stOpen {
				out = append(out, q)
				continue
			}
			ts, es := w.cond(s.Cond, q)
			for _, t := range ts {
				if t.status != stOpen {
					out = append(out, t)
					continue
				}
				out = append(out, w.block(s.Body.List, []path{t})...)
			}
			for _, e := range es {
				if e.status != stOpen {
					continue // the aborted evaluation is already among ts
				}
				switch el := s.Else.(type) {
				case nil:
					out = append(out, e)
				case *ast.BlockStmt:
					out = append(out, w.block(el.List, []path{e})...)
				case *ast.IfStmt:
					out = append(out, w.stmt(el, e)...)
				}
			}
		}
		return out
	case *ast.ForStmt:
		body := w.block(s.Body.List, []path{p})
		var out []path
		for _, q := range body {
			switch q.status {
			case stOpen, stContinue:
				q = q.ext("loop")
				q.status = stLoop
			case stBreak:
				q.status = stOpen
			}
			out = append(out, q)
		}
		if s.Cond != nil {
			out = append(out, p) // the loop may not be entered
		}
		return out
	case *ast.RangeStmt:
		sub := w.block(s.Body.List, []path{{}})
		return []path{p.ext("range{" + strings.Join(leanBody(sub), ", ") + "}")}
	}
	return []path{p.ext(fmt.Sprintf("?%T", s))}
}

func assignClass(n string, l ast.Expr, s *ast.AssignStmt, i int) string {
	if len(s.Rhs) == len(s.Lhs) {
		r := s.Rhs[i]
		if id, ok := r.(*ast.Ident); ok && (id.Name == "true" || id.Name == "false") {
			return ":=" + id.Name
		}
		// accumulate: the right-hand side reads the variable itself
		self := false
		ast.Inspect(r, func(x ast.Node) bool {
			if e, ok := x.(ast.Expr); ok {
				if exprText(e) == exprText(l) {
					self = true
				}
			}
			return !self
		})
		if self {
			return "|=_"
		}
	}
	return ":=_"
}

// Lean syntax of one atom token
func leanAtom(t string) string {
	switch {
	case strings.HasPrefix(t, "?") && (strings.HasSuffix(t, "=T") || strings.HasSuffix(t, "=F")):
		b := "false"
		if strings.HasSuffix(t, "=T") {
			b = "true"
		}
		return ".cond " + strconv.QuoteToASCII(t[1:len(t)-2]) + " " + b
	case strings.HasPrefix(t, "defer:"):
		return ".deferred " + strconv.QuoteToASCII(strings.TrimPrefix(t, "defer:"))
	case strings.HasPrefix(t, "range{"):
		return ".step \"?nested-range\""
	}
	return ".step " + strconv.QuoteToASCII(t)
}

// the paths of a range body as Lean terms `([atoms], aborted)`
func leanBody(ps []path) []string {
	set := map[string]bool{}
	for _, p := range ps {
		var as []string
		for _, t := range p.toks {
			as = append(as, leanAtom(t))
		}
		ab := "false"
		if p.status == stAbort {
			ab = "true"
		}
		set["(["+strings.Join(as, ", ")+"], "+ab+")"] = true
	}
	var l []string
	for s := range set {
		l = append(l, s)
	}
	sort.Strings(l)
	return l
}

// Lean term of one path `([toks], aborted)`
func leanPath(p path) string {
	var ts []string
	for _, t := range p.toks {
		if strings.HasPrefix(t, "range{") {
			ts = append(ts, ".range ["+strings.TrimSuffix(strings.TrimPrefix(t, "range{"), "}")+"]")
		} else {
			ts = append(ts, ".atom ("+leanAtom(t)+")")
		}
	}
	ab := "false"
	if p.status == stAbort {
		ab = "true"
	}
	return "([" + strings.Join(ts, ", ") + "], " + ab + ")"
}

func renderAll(ps []path) []string {
	set := map[string]bool{}
	for _, p := range ps {
		set[leanPath(p)] = true
	}
	var l []string
	for s := range set {
		l = append(l, s)
	}
	sort.Strings(l)
	return l
}

func renderAllOld(ps []path) []string {
	set := map[string]bool{}
	for _, p := range ps {
		set[render(p)] = true
	}
	var l []string
	for s := range set {
		l = append(l, s)
	}
	sort.Strings(l)
	return l
}

func main() {
	repo := flag.String("repo", "/repo", "repository root")
	out := flag.String("out", "", "Lean file to write")
	flag.Parse()
	found := map[string][]string{}
	// go/pkg/ios/device.go: the apply path; go/pkg/cisco/device.go: the login / enable dialogue
	for _, pkg := range []string{"cisco", "ios"} {
		file := filepath.Join(*repo, "go", "pkg", pkg, "device.go")
		f, err := parser.ParseFile(fset, file, nil, 0)
		if err != nil {
			fmt.Fprintln(os.Stderr, err)
			os.Exit(1)
		}
		w := &world{decls: map[string]*ast.FuncDecl{}, extra: map[string][]string{}}
		for _, d := range f.Decls {
			if fd, ok := d.(*ast.FuncDecl); ok {
				w.decls[fd.Name.Name] = fd
			}
		}
		w.closure = map[string]bool{}
		// aliases of the connection must be known while impurity is computed
		for name, fd := range w.decls {
			if fd.Body != nil && name == "LoginEnable" {
				collectLocals(fd.Body)
			}
		}
		w.computeImpure()
		for name, fd := range w.decls {
			if fd.Body == nil {
				continue
			}
			collectLocals(fd.Body)
			w.cur = name
			w.closure = map[string]bool{}
			ps := endScope(w.block(fd.Body.List, []path{{}}), 0)
			found[name] = renderAll(ps)
		}
		for k, v := range w.extra {
			found[k] = v
		}
	}
	var b strings.Builder
	b.WriteString("import NA.Model.IosSkelTypes\n")
	b.WriteString("/-! GENERATED by translate/iosskel from go/pkg/ios/device.go — do not edit, not committed.\n")
	b.WriteString("Normal form: sets of acyclic paths of interaction steps (see translate/iosskel/main.go). -/\n")
	b.WriteString("namespace NA.Gen.IosSkel\nopen NA.Ios\n\n")
	b.WriteString("def paths : List (String × List SkelPath) := [\n")
	for i, name := range funcs {
		ps, ok := found[name]
		if !ok {
			ps = []string{"([.atom (.step \"?missing\")], false)"}
		}
		b.WriteString("  (" + strconv.QuoteToASCII(name) + ", [\n")
		for j, t := range ps {
			b.WriteString("    " + t)
			if j+1 < len(ps) {
				b.WriteString(",")
			}
			b.WriteString("\n")
		}
		b.WriteString("  ])")
		if i+1 < len(funcs) {
			b.WriteString(",")
		}
		b.WriteString("\n")
	}
	b.WriteString("]\n\nend NA.Gen.IosSkel\n")
	if *out == "" {
		fmt.Print(b.String())
		return
	}
	if err := os.WriteFile(*out, []byte(b.String()), 0644); err != nil {
		fmt.Fprintln(os.Stderr, err)
		os.Exit(1)
	}
}
