module iosskel

go 1.23.1
