// mapranges: T-gen for property C16 (deterministic output).
//
// Reads the working tree of the repository (go/pkg/...), type-checks every package with
// go/types (source importer, standard library only) and emits lean/NA/Gen/MapRanges.lean:
//
//   - sites          every `range` over a map-typed expression: file, enclosing function
//     (closures as fn/closure), map expression text, ordinal, SHA-256 prefix
//     of the comment-free gofmt-normalised loop text, and a syntactic class
//     computed from the loop body (see classify);
//   - sortedRanges   every `range slices.Sorted(maps.Keys(X))` / `slices.SortedFunc(maps.Keys(X), …)`
//     (not a map range: listed so that the Lean side can demand that a repaired
//     site stays repaired);
//   - looseIters     every use of maps.Keys / maps.Values / maps.All that is NOT directly
//     wrapped in slices.Sorted / slices.SortedFunc (an unordered iterator);
//   - anchorTable    per device (asa, ios) and effective prefix the `anchor` flags of all
//     non-ignored command types of cmd-info.go (fact behind the anchor probe
//     of cisco/diff.go diffConfig);
//   - defaultVals    the literal program.defaultVals (fact behind program/config.go LoadConfig).
//
// A construct the translator does not understand is an error (exit 1), never skipped.
package main

import (
	"bytes"
	"crypto/sha256"
	"encoding/hex"
	"flag"
	"fmt"
	"go/ast"
	"go/importer"
	"go/parser"
	"go/printer"
	"go/token"
	"go/types"
	"io"
	"os"
	"os/exec"
	"path/filepath"
	"sort"
	"strconv"
	"strings"
)

type site struct {
	file, fn, mapExpr string
	ord               int
	hash, cls         string
	feats             []string
	line              int
	// for the deep pass
	rs   *ast.RangeStmt
	decl *ast.FuncDecl
	pk   *lpkg
}

type sortedRange struct {
	file, fn, expr string
	// for the deep pass (nil for loose iterators)
	rs   *ast.RangeStmt
	decl *ast.FuncDecl
	pk   *lpkg
}

// lpkg is one type-checked package of the module.
type lpkg struct {
	rel   string // "cisco", "cmd/drc"
	path  string // import path
	files []*ast.File
	names []string
	info  *types.Info
	pkg   *types.Package
}

const modPath = "github.com/hknutzen/Netspoc-Approve/go"

var problems []string

func problem(format string, a ...any) { problems = append(problems, fmt.Sprintf(format, a...)) }

func main() {
	repo := flag.String("repo", "/repo", "repository root")
	out := flag.String("out", "", "Lean file to write (default stdout)")
	deepOut := flag.String("deep", "", "second Lean file: transitive effects, sorted loops, third-party sites, other sources of nondeterminism")
	descrOut := flag.String("descr", "", "third Lean file: descriptors of the loop bodies (needs -deep)")
	flag.Parse()
	root := filepath.Join(*repo, "go")
	if err := os.Chdir(root); err != nil {
		fmt.Fprintln(os.Stderr, "mapranges:", err)
		os.Exit(1)
	}
	dirs, _ := filepath.Glob(filepath.Join(root, "pkg", "*"))
	sort.Strings(dirs)
	cmdDirs, _ := filepath.Glob(filepath.Join(root, "cmd", "*"))
	sort.Strings(cmdDirs)
	dirs = append(dirs, cmdDirs...)
	var pkgs []*lpkg
	fset := token.NewFileSet()
	imp := newImporter(fset)

	var sites []site
	var sorted []sortedRange
	var loose []sortedRange
	var anchorRows []string
	var defaultVals [][2]string
	haveDefaults := false

	for _, dir := range dirs {
		if fi, err := os.Stat(dir); err != nil || !fi.IsDir() {
			continue
		}
		pkgName := filepath.Base(dir)
		relPkg := pkgName
		if filepath.Base(filepath.Dir(dir)) == "cmd" {
			relPkg = "cmd/" + pkgName
		}
		// No comments: the hash must not depend on them.
		m, err := parser.ParseDir(fset, dir, func(fi os.FileInfo) bool {
			n := fi.Name()
			return !strings.HasSuffix(n, "_test.go") && !strings.HasPrefix(n, "verif_")
		}, 0)
		if err != nil {
			problem("parse %s: %v", dir, err)
			continue
		}
		for _, p := range m {
			var names []string
			for n := range p.Files {
				names = append(names, n)
			}
			sort.Strings(names)
			var files []*ast.File
			for _, n := range names {
				files = append(files, p.Files[n])
			}
			info := &types.Info{
				Types:      map[ast.Expr]types.TypeAndValue{},
				Uses:       map[*ast.Ident]types.Object{},
				Defs:       map[*ast.Ident]types.Object{},
				Selections: map[*ast.SelectorExpr]*types.Selection{},
			}
			conf := types.Config{Importer: imp, Error: func(err error) { problem("type error: %v", err) }}
			ipath := modPath + "/pkg/" + pkgName
			if relPkg != pkgName {
				ipath = modPath + "/" + relPkg
			}
			tpkg, _ := conf.Check(ipath, fset, files, info)
			pk := &lpkg{rel: relPkg, path: ipath, files: files, names: names, info: info, pkg: tpkg}
			pkgs = append(pkgs, pk)
			for i, f := range files {
				rel := relPkg + "/" + filepath.Base(names[i])
				w := &walker{fset: fset, info: info, file: rel, counts: map[string]int{}, pk: pk}
				w.walkFile(f)
				sites = append(sites, w.sites...)
				sorted = append(sorted, w.sorted...)
				loose = append(loose, w.loose...)
				// table facts
				if filepath.Base(names[i]) == "cmd-info.go" && (pkgName == "asa" || pkgName == "ios") {
					rows, ok := anchorTable(pkgName, f)
					if !ok {
						problem("cannot find string literal cmdInfo in %s", rel)
					}
					anchorRows = append(anchorRows, rows...)
				}
				if rel == "program/config.go" {
					if dv, ok := mapLiteral(f, "defaultVals"); ok {
						defaultVals = dv
						haveDefaults = true
					}
				}
			}
		}
	}
	// The program/config.go fact is needed only while LoadConfig ranges over defaultVals.
	for _, s := range sites {
		if s.file == "program/config.go" && s.mapExpr == "defaultVals" && !haveDefaults {
			problem("cannot read the literal defaultVals in program/config.go")
		}
	}
	var deepText, descrText string
	if *deepOut != "" {
		deepText, descrText = deep(fset, imp, pkgs, sites, sorted)
	}
	if len(problems) > 0 {
		for _, p := range problems {
			fmt.Fprintln(os.Stderr, "mapranges:", p)
		}
		os.Exit(1)
	}
	if *deepOut != "" {
		writeIfChanged(*deepOut, deepText)
		if *descrOut != "" {
			writeIfChanged(*descrOut, descrText)
		}
	}

	var b strings.Builder
	b.WriteString("/- GENERATED by translate/mapranges from the working tree of the repository. Do not edit. -/\n")
	b.WriteString("namespace NA.Gen.MapRanges\n\n")
	b.WriteString("structure Site where\n  file : String\n  fn : String\n  mapExpr : String\n  ord : Nat\n  hash : String\n  cls : String\n  deriving DecidableEq, Repr\n\n")
	b.WriteString("/-- Every `range` over a map-typed expression in go/pkg/... -/\n")
	b.WriteString("def sites : List Site := [\n")
	for i, s := range sites {
		sep := ","
		if i == len(sites)-1 {
			sep = ""
		}
		fmt.Fprintf(&b, "  -- line %d; features: %s\n", s.line, strings.Join(s.feats, " "))
		fmt.Fprintf(&b, "  ⟨%s, %s, %s, %d, %s, %s⟩%s\n", q(s.file), q(s.fn), q(s.mapExpr), s.ord, q(s.hash), q(s.cls), sep)
	}
	b.WriteString("]\n\n")
	writeTriples := func(name, doc string, l []sortedRange) {
		fmt.Fprintf(&b, "/-- %s -/\ndef %s : List (String × String × String) := [\n", doc, name)
		for i, s := range l {
			sep := ","
			if i == len(l)-1 {
				sep = ""
			}
			fmt.Fprintf(&b, "  (%s, %s, %s)%s\n", q(s.file), q(s.fn), q(s.expr), sep)
		}
		b.WriteString("]\n\n")
	}
	writeTriples("sortedRanges", "`range slices.Sorted(maps.Keys(X))` and `range slices.SortedFunc(maps.Keys(X), …)`: (file, function, X).", sorted)
	writeTriples("looseIters", "maps.Keys / maps.Values / maps.All not directly wrapped in slices.Sorted / slices.SortedFunc.", loose)
	b.WriteString("/-- (device, effective prefix, anchor flag) of every non-ignored toplevel command type of cmd-info.go.\n")
	b.WriteString("Effective prefix: `crypto map` types without `$NAME` are stored under `crypto map interface` (postprocessParsed). -/\n")
	b.WriteString("def anchorTable : List (String × String × Bool) := [\n")
	b.WriteString(strings.Join(anchorRows, ",\n"))
	b.WriteString("\n]\n\n")
	b.WriteString("/-- The literal `defaultVals` of program/config.go. -/\n")
	b.WriteString("def defaultVals : List (String × String) := [\n")
	for i, kv := range defaultVals {
		sep := ","
		if i == len(defaultVals)-1 {
			sep = ""
		}
		fmt.Fprintf(&b, "  (%s, %s)%s\n", q(kv[0]), q(kv[1]), sep)
	}
	b.WriteString("]\n\nend NA.Gen.MapRanges\n")

	if *out == "" {
		fmt.Print(b.String())
		return
	}
	writeIfChanged(*out, b.String())
}

// writeIfChanged does not touch the file if nothing changed (keeps lake's cache valid).
func writeIfChanged(path, text string) {
	os.MkdirAll(filepath.Dir(path), 0755)
	if old, err := os.ReadFile(path); err == nil && string(old) == text {
		return
	}
	if err := os.WriteFile(path, []byte(text), 0644); err != nil {
		fmt.Fprintln(os.Stderr, "mapranges:", err)
		os.Exit(1)
	}
}

// newImporter: export data of the dependencies as produced by `go list -export` (fast, uses
// the build cache); anything not found there is type-checked from source.
type fallbackImporter struct {
	gc, src types.Importer
}

func (f fallbackImporter) Import(path string) (*types.Package, error) {
	if p, err := f.gc.Import(path); err == nil {
		return p, nil
	}
	return f.src.Import(path)
}

func newImporter(fset *token.FileSet) types.Importer {
	src := importer.ForCompiler(fset, "source", nil)
	out, err := exec.Command("go", "list", "-e", "-export", "-deps", "-f", "{{.ImportPath}} {{.Export}}", "./pkg/...", "./cmd/...").Output()
	if err != nil {
		return src
	}
	exports := map[string]string{}
	for _, line := range strings.Split(string(out), "\n") {
		if f := strings.Fields(line); len(f) == 2 {
			exports[f[0]] = f[1]
		}
	}
	lookup := func(path string) (io.ReadCloser, error) {
		if e, ok := exports[path]; ok {
			return os.Open(e)
		}
		return nil, fmt.Errorf("no export data for %s", path)
	}
	return fallbackImporter{importer.ForCompiler(fset, "gc", lookup), src}
}

// q renders a Go string as a Lean string literal.
func q(s string) string {
	var b strings.Builder
	b.WriteByte('"')
	for _, r := range s {
		switch r {
		case '"':
			b.WriteString("\\\"")
		case '\\':
			b.WriteString("\\\\")
		case '\n':
			b.WriteString("\\n")
		case '\t':
			b.WriteString("\\t")
		default:
			b.WriteRune(r)
		}
	}
	b.WriteByte('"')
	return b.String()
}

// ---------------------------------------------------------------- walking

type walker struct {
	fset   *token.FileSet
	info   *types.Info
	file   string
	fnPath []string
	counts map[string]int
	sites  []site
	sorted []sortedRange
	loose  []sortedRange
	// label of the statement currently being entered (for labeled range statements)
	wrapped map[*ast.CallExpr]bool
	pk      *lpkg
	decl    *ast.FuncDecl
}

func (w *walker) text(n ast.Node) string {
	var b bytes.Buffer
	printer.Fprint(&b, w.fset, n)
	return b.String()
}

func (w *walker) fn() string { return strings.Join(w.fnPath, "/") }

func (w *walker) walkFile(f *ast.File) {
	w.wrapped = map[*ast.CallExpr]bool{}
	for _, d := range f.Decls {
		switch d := d.(type) {
		case *ast.FuncDecl:
			name := d.Name.Name
			if d.Recv != nil && len(d.Recv.List) == 1 {
				name = strings.TrimPrefix(w.text(d.Recv.List[0].Type), "*") + "." + name
			}
			w.fnPath = []string{name}
			w.decl = d
			if d.Body != nil {
				w.walkStmts(d.Body.List)
			}
		case *ast.GenDecl:
			w.fnPath = []string{"<toplevel>"}
			w.decl = nil
			w.walkNode(d, nil)
		}
	}
}

// walkStmts walks a statement list; it needs the list to see what follows a range loop.
func (w *walker) walkStmts(l []ast.Stmt) {
	for i, s := range l {
		w.walkStmt(s, l[i+1:], "")
	}
}

func (w *walker) walkStmt(s ast.Stmt, following []ast.Stmt, label string) {
	switch s := s.(type) {
	case *ast.LabeledStmt:
		w.walkStmt(s.Stmt, following, s.Label.Name)
	case *ast.RangeStmt:
		w.rangeStmt(s, following, label)
		w.walkNode(s.X, nil)
		w.walkStmts(s.Body.List)
	case *ast.BlockStmt:
		w.walkStmts(s.List)
	case *ast.IfStmt:
		if s.Init != nil {
			w.walkStmt(s.Init, nil, "")
		}
		w.walkNode(s.Cond, nil)
		w.walkStmts(s.Body.List)
		if s.Else != nil {
			w.walkStmt(s.Else, nil, "")
		}
	case *ast.ForStmt:
		if s.Init != nil {
			w.walkStmt(s.Init, nil, "")
		}
		if s.Cond != nil {
			w.walkNode(s.Cond, nil)
		}
		if s.Post != nil {
			w.walkStmt(s.Post, nil, "")
		}
		w.walkStmts(s.Body.List)
	case *ast.SwitchStmt:
		if s.Init != nil {
			w.walkStmt(s.Init, nil, "")
		}
		if s.Tag != nil {
			w.walkNode(s.Tag, nil)
		}
		for _, c := range s.Body.List {
			cc := c.(*ast.CaseClause)
			for _, e := range cc.List {
				w.walkNode(e, nil)
			}
			w.walkStmts(cc.Body)
		}
	case *ast.TypeSwitchStmt:
		if s.Init != nil {
			w.walkStmt(s.Init, nil, "")
		}
		w.walkStmt(s.Assign, nil, "")
		for _, c := range s.Body.List {
			w.walkStmts(c.(*ast.CaseClause).Body)
		}
	case *ast.SelectStmt:
		for _, c := range s.Body.List {
			cc := c.(*ast.CommClause)
			if cc.Comm != nil {
				w.walkStmt(cc.Comm, nil, "")
			}
			w.walkStmts(cc.Body)
		}
	case *ast.AssignStmt:
		// name closures after the variable they are assigned to
		if len(s.Lhs) == 1 && len(s.Rhs) == 1 {
			if fl, ok := s.Rhs[0].(*ast.FuncLit); ok {
				if id, ok := s.Lhs[0].(*ast.Ident); ok {
					w.funcLit(fl, id.Name)
					return
				}
			}
		}
		for _, e := range s.Lhs {
			w.walkNode(e, nil)
		}
		for _, e := range s.Rhs {
			w.walkNode(e, nil)
		}
	case *ast.DeclStmt:
		w.walkNode(s, nil)
	default:
		if s != nil {
			w.walkNode(s, nil)
		}
	}
}

func (w *walker) funcLit(fl *ast.FuncLit, name string) {
	w.fnPath = append(w.fnPath, name)
	w.walkStmts(fl.Body.List)
	w.fnPath = w.fnPath[:len(w.fnPath)-1]
}

// walkNode walks expressions (and simple statements); function literals found here are
// anonymous closures.
func (w *walker) walkNode(n ast.Node, _ any) {
	ast.Inspect(n, func(n ast.Node) bool {
		switch n := n.(type) {
		case *ast.FuncLit:
			w.funcLit(n, "func")
			return false
		case *ast.CallExpr:
			w.callExpr(n)
		}
		return true
	})
}

func selName(e ast.Expr) string {
	if s, ok := e.(*ast.SelectorExpr); ok {
		if id, ok := s.X.(*ast.Ident); ok {
			return id.Name + "." + s.Sel.Name
		}
	}
	return ""
}

// callExpr records unordered iterators.
func (w *walker) callExpr(c *ast.CallExpr) {
	switch selName(c.Fun) {
	case "slices.Sorted", "slices.SortedFunc", "slices.SortedStableFunc":
		if len(c.Args) >= 1 {
			if in, ok := c.Args[0].(*ast.CallExpr); ok {
				w.wrapped[in] = true
			}
		}
	case "maps.Keys", "maps.Values", "maps.All":
		if !w.wrapped[c] {
			w.loose = append(w.loose, sortedRange{file: w.file, fn: w.fn(), expr: w.text(c)})
		}
	}
}

func (w *walker) rangeStmt(rs *ast.RangeStmt, following []ast.Stmt, label string) {
	// sorted iteration over the keys of a map
	if c, ok := rs.X.(*ast.CallExpr); ok {
		switch selName(c.Fun) {
		case "slices.Sorted", "slices.SortedFunc", "slices.SortedStableFunc":
			if in, ok := c.Args[0].(*ast.CallExpr); ok && selName(in.Fun) == "maps.Keys" && len(in.Args) == 1 {
				w.sorted = append(w.sorted, sortedRange{file: w.file, fn: w.fn(), expr: w.text(in.Args[0]), rs: rs, decl: w.decl, pk: w.pk})
			}
		}
	}
	tv, ok := w.info.Types[rs.X]
	if !ok || tv.Type == nil {
		problem("%s: range expression %s has no type", w.fset.Position(rs.Pos()), w.text(rs.X))
		return
	}
	if _, isMap := tv.Type.Underlying().(*types.Map); !isMap {
		if _, isSig := tv.Type.Underlying().(*types.Signature); isSig {
			// range over an iterator function: only sorted key iterators are understood
			if c, ok := rs.X.(*ast.CallExpr); ok {
				switch selName(c.Fun) {
				case "maps.Keys", "maps.Values", "maps.All":
					return // recorded as loose iterator by callExpr
				}
			}
			problem("%s: range over function value %s not understood", w.fset.Position(rs.Pos()), w.text(rs.X))
		}
		return
	}
	mapExpr := w.text(rs.X)
	key := w.fn() + "|" + mapExpr
	ord := w.counts[key]
	w.counts[key]++
	txt := normPrint(w.fset, w.info, rs, scopeOf(w.decl, rs), nil)
	h := sha256.Sum256([]byte(txt))
	cls, feats := w.classify(rs, following, label)
	if cls == "collect-then-sort" && len(rs.Body.List) == 1 {
		// `for k := range m { keys = append(keys, k) }; sort(keys)`: the other spelling of
		// slices.Sorted(maps.Keys(m)) — also recorded as a sorted iteration
		if as, ok := rs.Body.List[0].(*ast.AssignStmt); ok && len(as.Rhs) == 1 {
			if c, ok := as.Rhs[0].(*ast.CallExpr); ok && len(c.Args) == 2 {
				if k, ok := rs.Key.(*ast.Ident); ok && w.text(c.Args[1]) == k.Name && (rs.Value == nil || w.text(rs.Value) == "_") {
					w.sorted = append(w.sorted, sortedRange{file: w.file, fn: w.fn(), expr: mapExpr})
				}
			}
		}
	}
	w.sites = append(w.sites, site{
		file: w.file, fn: w.fn(), mapExpr: mapExpr, ord: ord,
		hash: hex.EncodeToString(h[:8]), cls: cls, feats: feats,
		line: w.fset.Position(rs.Pos()).Line,
		rs:   rs, decl: w.decl, pk: w.pk,
	})
}

// ---------------------------------------------------------------- syntactic classification

var pureCalls = map[string]bool{
	"len": true, "make": true, "new": true, "cap": true, "string": true, "copy": false,
	"strings.HasPrefix": true, "strings.HasSuffix": true, "strings.Contains": true, "strings.Cut": true,
	"strings.CutPrefix": true, "strings.CutSuffix": true, "strings.Fields": true, "strings.Split": true,
	"strings.Join": true, "strings.Repeat": true, "strings.TrimSuffix": true, "strings.TrimLeft": true,
	"strings.ToLower": true, "strings.EqualFold": true, "strconv.Itoa": true, "strconv.ParseInt": true,
	"strconv.FormatInt": true, "fmt.Sprintf": true, "fmt.Errorf": true, "netip.ParseAddr": true,
}

// classify computes the features of a loop body and a class:
//
//	collect-then-sort  body only appends (guarded by conditions) to one outer slice, and the
//	                   statement right after the loop sorts that slice
//	delete-only        the only effect is delete(m, key)
//	own-key-write      the only effects are assignments X[key] = …, key = the loop's key variable
//	early-exit         body can leave the loop early (break / return / continue|break to an outer label / goto)
//	effects            anything else (calls, field writes, writes to outer variables)
func (w *walker) classify(rs *ast.RangeStmt, following []ast.Stmt, label string) (string, []string) {
	feat := map[string]bool{}
	keyName := ""
	if id, ok := rs.Key.(*ast.Ident); ok && id.Name != "_" {
		keyName = id.Name
	}
	// variables declared inside the body (including closures' parameters)
	local := map[types.Object]bool{}
	for _, e := range []ast.Expr{rs.Key, rs.Value} {
		if id, ok := e.(*ast.Ident); ok {
			if o := w.info.Defs[id]; o != nil {
				local[o] = true
			}
		}
	}
	ast.Inspect(rs.Body, func(n ast.Node) bool {
		if id, ok := n.(*ast.Ident); ok {
			if o := w.info.Defs[id]; o != nil {
				local[o] = true
			}
		}
		return true
	})
	isLocal := func(e ast.Expr) bool {
		id, ok := e.(*ast.Ident)
		if !ok {
			return false
		}
		if id.Name == "_" {
			return true
		}
		if o := w.info.Uses[id]; o != nil {
			return local[o]
		}
		if o := w.info.Defs[id]; o != nil {
			return local[o]
		}
		return false
	}
	appendTarget := ""
	otherWrite := false
	// locals defined in the body as `x := strings.Split(…)` / `strings.Fields(…)`: fresh slices
	splitLocal := map[string]bool{}
	ast.Inspect(rs.Body, func(n ast.Node) bool {
		if as, ok := n.(*ast.AssignStmt); ok && as.Tok == token.DEFINE && len(as.Lhs) == 1 && len(as.Rhs) == 1 {
			if c, ok := as.Rhs[0].(*ast.CallExpr); ok {
				switch selName(c.Fun) {
				case "strings.Split", "strings.Fields":
					splitLocal[w.text(as.Lhs[0])] = true
				}
			}
		}
		return true
	})
	var visit func(n ast.Node, depth int, inFuncLit bool)
	// depth = number of enclosing for/range/switch/select statements inside the body that an
	// unlabeled break would target instead of our loop.
	visit = func(n ast.Node, depth int, inFuncLit bool) {
		if n == nil {
			return
		}
		switch n := n.(type) {
		case *ast.BranchStmt:
			switch n.Tok {
			case token.BREAK:
				if n.Label == nil {
					if depth == 0 && !inFuncLit {
						feat["exit:break"] = true
					}
				} else if n.Label.Name == label {
					feat["exit:break"] = true
				} else if !w.labelInside(rs.Body, n.Label.Name) {
					feat["exit:break-outer"] = true
				}
			case token.CONTINUE:
				if n.Label != nil && n.Label.Name != label && !w.labelInside(rs.Body, n.Label.Name) {
					feat["exit:continue-outer"] = true
				}
			case token.GOTO:
				feat["exit:goto"] = true
			}
			return
		case *ast.ReturnStmt:
			if !inFuncLit {
				feat["exit:return"] = true
			}
		case *ast.FuncLit:
			visit(n.Body, 0, true)
			return
		case *ast.ForStmt:
			visit(n.Init, depth, inFuncLit)
			visit(n.Cond, depth, inFuncLit)
			visit(n.Post, depth, inFuncLit)
			visit(n.Body, depth+1, inFuncLit)
			return
		case *ast.RangeStmt:
			visit(n.X, depth, inFuncLit)
			visit(n.Body, depth+1, inFuncLit)
			return
		case *ast.SwitchStmt:
			visit(n.Init, depth, inFuncLit)
			visit(n.Tag, depth, inFuncLit)
			visit(n.Body, depth+1, inFuncLit)
			return
		case *ast.TypeSwitchStmt, *ast.SelectStmt:
			feat["stmt:select-or-typeswitch"] = true
		case *ast.GoStmt:
			feat["stmt:go"] = true
		case *ast.DeferStmt:
			feat["stmt:defer"] = true
		case *ast.IncDecStmt:
			if !isLocal(n.X) {
				feat["write:incdec:"+w.text(n.X)] = true
				otherWrite = true
			}
		case *ast.AssignStmt:
			for i, lhs := range n.Lhs {
				if n.Tok == token.DEFINE || isLocal(lhs) {
					continue
				}
				switch l := lhs.(type) {
				case *ast.IndexExpr:
					if id, ok := l.Index.(*ast.Ident); ok && keyName != "" && id.Name == keyName && w.isMap(l.X) {
						feat["write:ownkey:"+w.text(l.X)] = true
						continue
					}
					feat["write:index:"+w.text(l)] = true
					otherWrite = true
				case *ast.Ident:
					// x = append(x, …) ?
					if i < len(n.Rhs) && len(n.Lhs) == len(n.Rhs) {
						if c, ok := n.Rhs[i].(*ast.CallExpr); ok {
							if f, ok := c.Fun.(*ast.Ident); ok && f.Name == "append" && len(c.Args) >= 1 && w.text(c.Args[0]) == l.Name {
								feat["write:append:"+l.Name] = true
								if appendTarget == "" || appendTarget == l.Name {
									appendTarget = l.Name
								} else {
									otherWrite = true
								}
								continue
							}
						}
					}
					feat["write:outer:"+l.Name] = true
					otherWrite = true
				default:
					feat["write:field:"+w.text(lhs)] = true
					otherWrite = true
				}
			}
		case *ast.CallExpr:
			name := ""
			switch f := n.Fun.(type) {
			case *ast.Ident:
				name = f.Name
			case *ast.SelectorExpr:
				name = w.text(f)
			default:
				name = "<expr>"
			}
			switch {
			case name == "sort.Strings" && len(n.Args) == 1 && splitLocal[w.text(n.Args[0])]:
				// sorting a fresh local slice made by strings.Split / strings.Fields
			case name == "delete":
				if len(n.Args) == 2 {
					if id, ok := n.Args[1].(*ast.Ident); ok && id.Name == keyName {
						feat["write:delete-ownkey:"+w.text(n.Args[0])] = true
						break
					}
				}
				feat["write:delete:"+w.text(n.Args[0])] = true
				otherWrite = true
			case name == "append":
			case pureCalls[name]:
			default:
				if tv, ok := w.info.Types[n.Fun]; ok && tv.IsType() {
					break // conversion
				}
				feat["call:"+name] = true
			}
		}
		// generic descent
		children(n, func(c ast.Node) { visit(c, depth, inFuncLit) })
	}
	visit(rs.Body, 0, false)

	var feats []string
	hasExit, hasCall, hasOwn, hasDelOwn, hasAppend := false, false, false, false, false
	for f := range feat {
		feats = append(feats, f)
		switch {
		case strings.HasPrefix(f, "exit:"):
			hasExit = true
		case strings.HasPrefix(f, "call:"), strings.HasPrefix(f, "stmt:"):
			hasCall = true
		case strings.HasPrefix(f, "write:ownkey:"):
			hasOwn = true
		case strings.HasPrefix(f, "write:delete-ownkey:"):
			hasDelOwn = true
		case strings.HasPrefix(f, "write:append:"):
			hasAppend = true
		}
	}
	sort.Strings(feats)
	sortedAfter := false
	if hasAppend && appendTarget != "" && len(following) > 0 {
		if es, ok := following[0].(*ast.ExprStmt); ok {
			if c, ok := es.X.(*ast.CallExpr); ok {
				switch selName(c.Fun) {
				case "sort.Strings", "slices.Sort":
					if len(c.Args) == 1 && w.text(c.Args[0]) == appendTarget {
						sortedAfter = true
						feats = append(feats, "then:"+selName(c.Fun)+"("+appendTarget+")")
					}
				}
			}
		}
	}
	switch {
	case hasExit:
		return "early-exit", feats
	case hasCall || otherWrite:
		return "effects", feats
	case hasAppend && !hasOwn && !hasDelOwn && sortedAfter:
		return "collect-then-sort", feats
	case hasAppend:
		return "effects", feats
	case hasDelOwn && !hasOwn:
		return "delete-only", feats
	case hasOwn && !hasDelOwn:
		return "own-key-write", feats
	case !hasOwn && !hasDelOwn:
		return "no-effect", feats
	}
	return "effects", feats
}

func (w *walker) isMap(e ast.Expr) bool {
	tv, ok := w.info.Types[e]
	if !ok || tv.Type == nil {
		return false
	}
	_, isMap := tv.Type.Underlying().(*types.Map)
	return isMap
}

func (w *walker) labelInside(body *ast.BlockStmt, name string) bool {
	found := false
	ast.Inspect(body, func(n ast.Node) bool {
		if l, ok := n.(*ast.LabeledStmt); ok && l.Label.Name == name {
			found = true
		}
		return true
	})
	return found
}

// children calls f for every direct child node of n.
func children(n ast.Node, f func(ast.Node)) {
	first := true
	ast.Inspect(n, func(c ast.Node) bool {
		if first {
			first = false
			return true
		}
		if c != nil {
			f(c)
		}
		return false
	})
}

// ---------------------------------------------------------------- table facts

func stringLiteral(f *ast.File, name string) (string, bool) {
	for _, d := range f.Decls {
		gd, ok := d.(*ast.GenDecl)
		if !ok || gd.Tok != token.VAR {
			continue
		}
		for _, sp := range gd.Specs {
			vs := sp.(*ast.ValueSpec)
			for i, id := range vs.Names {
				if id.Name == name && i < len(vs.Values) {
					if bl, ok := vs.Values[i].(*ast.BasicLit); ok && bl.Kind == token.STRING {
						s, err := strconv.Unquote(bl.Value)
						return s, err == nil
					}
				}
			}
		}
	}
	return "", false
}

func mapLiteral(f *ast.File, name string) ([][2]string, bool) {
	for _, d := range f.Decls {
		gd, ok := d.(*ast.GenDecl)
		if !ok || gd.Tok != token.VAR {
			continue
		}
		for _, sp := range gd.Specs {
			vs := sp.(*ast.ValueSpec)
			for i, id := range vs.Names {
				if id.Name != name || i >= len(vs.Values) {
					continue
				}
				cl, ok := vs.Values[i].(*ast.CompositeLit)
				if !ok {
					return nil, false
				}
				var out [][2]string
				for _, e := range cl.Elts {
					kv, ok := e.(*ast.KeyValueExpr)
					if !ok {
						return nil, false
					}
					k, ok1 := kv.Key.(*ast.BasicLit)
					v, ok2 := kv.Value.(*ast.BasicLit)
					if !ok1 || !ok2 || k.Kind != token.STRING || v.Kind != token.STRING {
						return nil, false
					}
					ks, _ := strconv.Unquote(k.Value)
					vs, _ := strconv.Unquote(v.Value)
					out = append(out, [2]string{ks, vs})
				}
				sort.Slice(out, func(i, j int) bool { return out[i][0] < out[j][0] })
				return out, true
			}
		}
	}
	return nil, false
}

// anchorTable mirrors parser.setupCmdDescr for toplevel lines: section headers, blank line
// resets the header, '#' comments, ' ' sub-commands (skipped), '!' ignored commands (skipped:
// matchCmd returns nil for them, they never reach a lookup table).
func anchorTable(dev string, f *ast.File) ([]string, bool) {
	info, ok := stringLiteral(f, "cmdInfo")
	if !ok {
		return nil, false
	}
	var rows []string
	anchor := false
	for _, line := range strings.Split(info, "\n") {
		line = strings.TrimRight(line, " \t\r")
		if line == "" {
			anchor = false
			continue
		}
		switch line[0] {
		case '#', ' ':
			continue
		case '[':
			anchor = false
			for _, w := range strings.Split(strings.Trim(line, "[]"), ",") {
				if strings.TrimSpace(w) == "ANCHOR" {
					anchor = true
				}
			}
			continue
		case '!':
			continue
		}
		parts := strings.Fields(line)
		prefix := strings.ReplaceAll(parts[0], "_", " ")
		hasName := false
		for _, p := range parts[1:] {
			if p == "$NAME" {
				hasName = true
			}
		}
		if prefix == "crypto map" && !hasName {
			prefix = "crypto map interface"
		}
		rows = append(rows, fmt.Sprintf("  (%s, %s, %v)", q(dev), q(prefix), anchor))
	}
	return rows, true
}
