// seedgen: one-off extractor of the seed corpus of the C16 oracle.
//
// Reads go/testdata/*.t of the repository with the repository's own test-file parser
// (github.com/hknutzen/testtxt, from the module cache) and writes, for every test that compares two
// files (no =SCENARIO=, no =SETUP=, not =TODO=), the device file and the Netspoc files (including
// raw and ipv6 parts) as one JSON list, gzip compressed:
//
//	cd translate/mapranges/seedgen && cp /repo/go/go.sum . && \
//	  GOFLAGS=-mod=mod GOPROXY=off go run . -repo /repo -out ../../../harness/c16/seeds.json.gz
//
// The result is committed (harness/c16/seeds.json.gz): the seeds are inputs only, the expected
// outputs of the tests are not used.
package main

import (
	"bytes"
	"compress/gzip"
	"encoding/json"
	"flag"
	"fmt"
	"os"
	"path"
	"path/filepath"
	"regexp"
	"strings"

	"github.com/hknutzen/testtxt"
)

type descr struct {
	Title     string
	Device    string
	Scenario  string
	Netspoc   string
	Options   string
	Params    string
	Setup     string
	Output    string
	Warning   string
	Error     string
	DoApprove bool
	Todo      bool
}

type seed struct {
	Src   string            `json:"src"`
	Model string            `json:"model"`
	Files map[string]string `json:"files"`
	Opts  []string          `json:"opts,omitempty"`
}

func main() {
	repo := flag.String("repo", "/repo", "repository root")
	out := flag.String("out", "seeds.json.gz", "output file")
	flag.Parse()
	files, _ := filepath.Glob(filepath.Join(*repo, "go/testdata/*.t"))
	var seeds []seed
	re := regexp.MustCompile(`(?ms)^-+[ ]*\S+[ ]*\n`)
	for _, file := range files {
		base := path.Base(file)
		prefix, _, _ := strings.Cut(strings.TrimSuffix(base, ".t"), "_")
		prefix = strings.ToUpper(prefix)
		if prefix == "LINUX" {
			prefix = "Linux"
		}
		if prefix == "DRC" || prefix == "DO-APPROVE" {
			continue
		}
		var l []descr
		if err := testtxt.ParseFile(file, &l); err != nil {
			fmt.Fprintln(os.Stderr, file, err)
			os.Exit(1)
		}
		for _, d := range l {
			if d.Scenario != "" || d.Todo || d.Setup != "" || d.Netspoc == "" {
				continue
			}
			fs := map[string]string{}
			dev := d.Device
			if dev == "NONE" {
				dev = ""
			}
			fs["device"] = dev
			in := d.Netspoc
			if in == "NONE" {
				in = ""
			}
			il := re.FindAllStringIndex(in, -1)
			if il == nil {
				fs["code/router"] = in
			} else {
				if il[0][0] != 0 {
					continue
				}
				for i, p := range il {
					name := strings.Trim(in[p[0]:p[1]-1], "- ")
					end := len(in)
					if i+1 < len(il) {
						end = il[i+1][0]
					}
					fs["code/"+name] = in[p[1]:end]
				}
			}
			if _, ok := fs["code/router.info"]; !ok {
				if _, ok := fs["code/ipv6/router.info"]; !ok {
					fs["code/router.info"] = fmt.Sprintf("{\"model\":\"%s\",\"name_list\":[\"router\"],\"ip_list\":[\"10.1.13.33\"]}\n", prefix)
				}
			}
			size := 0
			for _, v := range fs {
				size += len(v)
			}
			if size > 30000 {
				continue
			}
			var opts []string
			if d.Options != "" {
				opts = strings.Fields(d.Options)
			}
			seeds = append(seeds, seed{Src: base + ": " + d.Title, Model: prefix, Files: fs, Opts: opts})
		}
	}
	data, _ := json.Marshal(seeds)
	var buf bytes.Buffer
	zw, _ := gzip.NewWriterLevel(&buf, gzip.BestCompression)
	zw.Write(data)
	zw.Close()
	if err := os.WriteFile(*out, buf.Bytes(), 0644); err != nil {
		fmt.Fprintln(os.Stderr, err)
		os.Exit(1)
	}
	fmt.Printf("%d seeds, %d bytes\n", len(seeds), buf.Len())
}
