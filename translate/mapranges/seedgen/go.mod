module seedgen

go 1.23

require github.com/hknutzen/testtxt v0.0.0-20240408182449-0168fe18ebfb

require gopkg.in/yaml.v3 v3.0.1 // indirect
