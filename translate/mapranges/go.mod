module mapranges

go 1.23
