// Deep pass of the C16 translator (round 3): makes the tie transitive and enumerates the other
// possible sources of nondeterminism.
//
// Emits lean/NA/Gen/MapRangesDeep.lean:
//
//   - deepSites     for every `range` over a map of the module (same order and identity as
//     NA.Gen.MapRanges.sites): `chash` = hash of the loop text PLUS the text of every module
//     function / bound closure transitively referenced from the body (so an edit of `follow`,
//     `setName`, `addDefaultObject`, `postprocessASAACL` … changes it), the transitive effect
//     summary `fx` (abort, output sinks, writes to package variables / receiver fields /
//     captured variables, dynamic calls, other sources, map ranges inside callees), the
//     order-relevant `kinds` among them, the callees, and `reach` (VTA from the planning roots);
//   - sortedSites   every `range slices.Sorted(maps.Keys(X))`: the unsorted map ranges and the
//     effect kinds transitively inside its body (shape instead of hash);
//   - extSites      every `range` over a map in the third-party packages the binaries link;
//   - sources       every other possible source of nondeterminism in the module: goroutines,
//     select, channels, time, environment, random numbers, directory listings, temp files,
//     pointer formatting, reflection over maps, comparator sorts; with `reach`;
//   - naturalSorts  sorts by the natural order of strings / integers (element type listed).
//
// Reachability: `callgraph -algo=vta ./cmd/drc ./cmd/do-approve` (pre-installed), roots =
// device.CompareFiles, (*device.state).getCompare, program.LoadConfig and every method the
// encoding packages call by reflection (MarshalJSON, UnmarshalJSON, MarshalXML, UnmarshalXML,
// String, Error); closures count with their enclosing function, instantiations with their
// generic function.
package main

import (
	"bufio"
	"bytes"
	"crypto/sha256"
	"encoding/hex"
	"fmt"
	"go/ast"
	"go/parser"
	"go/printer"
	"go/token"
	"go/types"
	"os/exec"
	"path/filepath"
	"regexp"
	"sort"
	"strings"
)

type unit struct {
	key  string // FullName of a FuncDecl, or FullName + "$" + closure variable
	node ast.Node
	body *ast.BlockStmt
	lit  *ast.FuncLit  // nil for a FuncDecl
	decl *ast.FuncDecl // enclosing declaration
	pk   *lpkg
}

type deepCtx struct {
	fset    *token.FileSet
	funcs   map[string]*unit                // FullName → FuncDecl unit
	bound   map[types.Object][]*unit        // local func variable → closures assigned to it
	siteOf  map[*ast.RangeStmt]*site        // map ranges of the module
	reach   map[string]bool                 // FullName (closures / instantiations stripped) reachable from the planning roots
	declKey map[*ast.FuncDecl]string        // FullName of a declaration
	sumMemo map[string]*summary             // per unit key
	colSort map[*lpkg]map[types.Object]bool // slices appended to inside a map range (collect-then-sort targets)
}

type summary struct {
	feats   map[string]bool
	order   []*unit // callees in discovery order
	callees map[string]bool
	texts   map[string]string // unit key → text (for the closure hash)
	inner   []*site           // map ranges inside callees (not syntactically inside the own body)
}

func nodeText(fset *token.FileSet, n ast.Node) string {
	var b bytes.Buffer
	printer.Fprint(&b, fset, n)
	return b.String()
}

func short(s string) string {
	s = strings.ReplaceAll(s, modPath+"/pkg/", "")
	return strings.ReplaceAll(s, modPath+"/", "")
}

// ---------------------------------------------------------------- tables of sinks and sources

var outSinks = map[string]bool{
	"fmt.Print": true, "fmt.Printf": true, "fmt.Println": true, "fmt.Fprint": true, "fmt.Fprintf": true,
	"fmt.Fprintln": true, "(*os.File).Write": true, "(*os.File).WriteString": true, "io.WriteString": true,
	"log.Print": true, "log.Printf": true, "log.Println": true,
}

var abortSinks = map[string]bool{
	"os.Exit": true, "log.Fatal": true, "log.Fatalf": true, "log.Fatalln": true, "log.Panic": true,
	"log.Panicf": true, "log.Panicln": true, "runtime.Goexit": true,
}

// external function → kind of source
var srcFuncs = map[string]string{
	"time.Now": "time", "time.Since": "time", "time.Until": "time", "time.After": "time", "time.Sleep": "time",
	"time.Tick": "time", "time.NewTimer": "time", "time.NewTicker": "time", "time.AfterFunc": "time",
	"os.Getenv": "env", "os.LookupEnv": "env", "os.Environ": "env", "os.ExpandEnv": "env",
	"os.UserHomeDir": "env", "os.UserCacheDir": "env", "os.UserConfigDir": "env", "os.Getwd": "env",
	"os.Hostname": "env", "os.Getpid": "env", "os.Getppid": "env", "os.Getuid": "env", "os.Geteuid": "env",
	"os.Getgid": "env", "os.Executable": "env", "os/user.Current": "env", "os/user.Lookup": "env",
	"os.ReadDir": "dirlist", "(*os.File).ReadDir": "dirlist", "(*os.File).Readdir": "dirlist",
	"(*os.File).Readdirnames": "dirlist", "path/filepath.Glob": "dirlist", "path/filepath.Walk": "dirlist",
	"path/filepath.WalkDir": "dirlist", "io/fs.WalkDir": "dirlist", "io/fs.ReadDir": "dirlist",
	"io/fs.Glob": "dirlist", "io/ioutil.ReadDir": "dirlist",
	"os.CreateTemp": "tempname", "os.MkdirTemp": "tempname", "os.TempDir": "env", "io/ioutil.TempFile": "tempname",
	"io/ioutil.TempDir":       "tempname",
	"(reflect.Value).MapKeys": "reflectmap", "(reflect.Value).MapRange": "reflectmap",
	"runtime.NumGoroutine": "runtime", "runtime.NumCPU": "runtime", "runtime.GOMAXPROCS": "runtime",
}

var srcPkgs = map[string]string{
	"math/rand": "rand", "math/rand/v2": "rand", "crypto/rand": "rand", "sync": "sync", "sync/atomic": "sync",
}

var cmpSorts = map[string]string{
	"sort.Slice": "sort-unstable-cmp", "sort.Sort": "sort-unstable-cmp", "slices.SortFunc": "sort-unstable-cmp",
	"sort.SliceStable": "sort-stable-cmp", "sort.Stable": "sort-stable-cmp", "slices.SortStableFunc": "sort-stable-cmp",
	"slices.SortedFunc": "sort-unstable-cmp", "slices.SortedStableFunc": "sort-stable-cmp",
}

var natSorts = map[string]bool{
	"sort.Strings": true, "sort.Ints": true, "sort.Float64s": true, "slices.Sort": true, "slices.Sorted": true,
}

var reflectRoots = map[string]bool{
	"MarshalJSON": true, "UnmarshalJSON": true, "MarshalXML": true, "UnmarshalXML": true,
	"MarshalText": true, "UnmarshalText": true, "String": true, "Error": true,
}

// ---------------------------------------------------------------- helpers on types

func funcFullName(f *types.Func) string {
	if o := f.Origin(); o != nil {
		f = o
	}
	return f.FullName()
}

func isInterfaceMethod(f *types.Func) bool {
	sig, ok := f.Type().(*types.Signature)
	if !ok || sig.Recv() == nil {
		return false
	}
	return types.IsInterface(sig.Recv().Type())
}

// rootOf strips selectors, indexes, stars, parens and slices: root identifier, the first field
// selected on it ("" if none), and whether anything was stripped.
func rootOf(e ast.Expr) (root *ast.Ident, field string, path bool) {
	for {
		switch x := e.(type) {
		case *ast.Ident:
			return x, field, path
		case *ast.SelectorExpr:
			field = x.Sel.Name
			e, path = x.X, true
		case *ast.IndexExpr:
			e, path = x.X, true
		case *ast.StarExpr:
			e, path = x.X, true
		case *ast.ParenExpr:
			e = x.X
		case *ast.SliceExpr:
			e, path = x.X, true
		default:
			return nil, "", path
		}
	}
}

func recvOf(decl *ast.FuncDecl, pk *lpkg) (types.Object, string) {
	if decl == nil || decl.Recv == nil || len(decl.Recv.List) != 1 || len(decl.Recv.List[0].Names) != 1 {
		return nil, ""
	}
	id := decl.Recv.List[0].Names[0]
	t := strings.TrimPrefix(nodeText(token.NewFileSet(), decl.Recv.List[0].Type), "*")
	return pk.info.Defs[id], t
}

// ---------------------------------------------------------------- effects of one unit

// scan adds the features of one body and returns the units it references.
func (d *deepCtx) scan(body ast.Node, scope ast.Node, u *unit, own *ast.RangeStmt, sum *summary) []*unit {
	info := u.pk.info
	var refs []*unit
	seenRef := map[string]bool{}
	addRef := func(r *unit) {
		if r != nil && !seenRef[r.key] {
			seenRef[r.key] = true
			refs = append(refs, r)
		}
	}
	recvObj, recvType := recvOf(u.decl, u.pk)
	write := func(lhs ast.Expr) {
		root, field, path := rootOf(lhs)
		if root == nil || root.Name == "_" {
			return
		}
		obj := info.Uses[root]
		if obj == nil {
			obj = info.Defs[root]
		}
		if obj == nil {
			return
		}
		if pn, ok := obj.(*types.PkgName); ok {
			// pkg.Var = …
			if se, ok := firstSelector(lhs); ok {
				if v, ok := info.Uses[se.Sel].(*types.Var); ok {
					sum.feats["glob:"+pn.Imported().Name()+"."+v.Name()] = true
				}
			}
			return
		}
		v, ok := obj.(*types.Var)
		if !ok {
			return
		}
		switch {
		case v.Parent() == u.pk.pkg.Scope():
			sum.feats["glob:"+u.pk.pkg.Name()+"."+v.Name()] = true
		case recvObj != nil && obj == recvObj && path:
			sum.feats["recv:"+recvType+"."+field] = true
		case v.Pos() < scope.Pos() || v.Pos() > scope.End():
			// declared outside this closure / loop: captured variable (parameters of a
			// declaration lie inside its range and are skipped: per-object writes)
			if u.lit != nil || own != nil {
				sum.feats["cap:"+v.Name()] = true
			}
		}
	}
	ast.Inspect(body, func(n ast.Node) bool {
		switch n := n.(type) {
		case *ast.GoStmt:
			sum.feats["src:go"] = true
		case *ast.SelectStmt:
			sum.feats["src:select"] = true
		case *ast.SendStmt:
			sum.feats["src:chan"] = true
		case *ast.UnaryExpr:
			if n.Op == token.ARROW {
				sum.feats["src:chan"] = true
			}
		case *ast.BasicLit:
			if n.Kind == token.STRING && strings.Contains(n.Value, "%p") && !strings.Contains(n.Value, "%h:%p") {
				sum.feats["src:ptrfmt"] = true
			}
		case *ast.RangeStmt:
			if s := d.siteOf[n]; s != nil && n != own {
				// a map range inside a callee or nested in the own body
				if own == nil || n.Pos() < own.Pos() || n.End() > own.End() {
					sum.inner = append(sum.inner, s)
				}
			}
		case *ast.AssignStmt:
			if n.Tok != token.DEFINE {
				for _, l := range n.Lhs {
					write(l)
				}
			}
		case *ast.IncDecStmt:
			write(n.X)
		case *ast.CallExpr:
			var id *ast.Ident
			switch f := n.Fun.(type) {
			case *ast.Ident:
				id = f
			case *ast.SelectorExpr:
				id = f.Sel
			}
			if id != nil {
				switch o := info.Uses[id].(type) {
				case *types.Builtin:
					switch o.Name() {
					case "panic":
						sum.feats["abort:panic"] = true
					case "delete":
						if len(n.Args) == 2 {
							write(n.Args[0])
						}
					}
				case *types.Var:
					if len(d.bound[o]) == 0 {
						sum.feats["dyn:"+o.Name()] = true
					}
				case *types.Func:
					if isInterfaceMethod(o) {
						sum.feats["dyn:"+o.Name()] = true
					}
				}
			} else {
				sum.feats["dyn:<expr>"] = true
			}
		case *ast.Ident:
			switch o := info.Uses[n].(type) {
			case *types.Func:
				full := funcFullName(o)
				if fu := d.funcs[full]; fu != nil {
					addRef(fu)
					break
				}
				switch {
				case outSinks[full]:
					sum.feats["out:"+full] = true
				case abortSinks[full]:
					sum.feats["abort:"+full] = true
				case srcFuncs[full] != "":
					sum.feats["src:"+srcFuncs[full]] = true
				default:
					if o.Pkg() != nil {
						if k := srcPkgs[o.Pkg().Path()]; k != "" {
							sum.feats["src:"+k] = true
						}
					}
				}
			case *types.Var:
				for _, b := range d.bound[o] {
					addRef(b)
				}
			}
		}
		return true
	})
	return refs
}

func firstSelector(e ast.Expr) (*ast.SelectorExpr, bool) {
	for {
		switch x := e.(type) {
		case *ast.SelectorExpr:
			if _, ok := x.X.(*ast.Ident); ok {
				return x, true
			}
			e = x.X
		case *ast.IndexExpr:
			e = x.X
		case *ast.StarExpr:
			e = x.X
		case *ast.ParenExpr:
			e = x.X
		default:
			return nil, false
		}
	}
}

// closure computes the transitive summary of a body.
func (d *deepCtx) closure(body ast.Node, u *unit, own *ast.RangeStmt) *summary {
	sum := &summary{feats: map[string]bool{}, callees: map[string]bool{}, texts: map[string]string{}}
	var scope ast.Node = body
	if own != nil {
		scope = own
	}
	todo := d.scan(body, scope, u, own, sum)
	for len(todo) > 0 {
		r := todo[0]
		todo = todo[1:]
		if sum.callees[r.key] {
			continue
		}
		// a closure defined inside the own body is part of its text already, but its effects count
		sum.callees[r.key] = true
		sum.order = append(sum.order, r)
		if own == nil || r.node.Pos() < own.Pos() || r.node.End() > own.End() {
			sum.texts[r.key] = nodeText(d.fset, r.node)
		}
		var sc ast.Node = r.node
		todo = append(todo, d.scan(r.body, sc, r, nil, sum)...)
	}
	return sum
}

func sortedKeys(m map[string]bool) []string {
	var l []string
	for k := range m {
		l = append(l, k)
	}
	sort.Strings(l)
	return l
}

// kindsOf: the order-relevant kinds of a feature set.
func kindsOf(feats map[string]bool) []string {
	k := map[string]bool{}
	for f := range feats {
		switch {
		case strings.HasPrefix(f, "abort:"):
			k["abort"] = true
		case strings.HasPrefix(f, "out:"):
			k["out"] = true
		case strings.HasPrefix(f, "dyn:"):
			k["dyn"] = true
		case strings.HasPrefix(f, "src:"):
			k["src"] = true
		case strings.HasPrefix(f, "recv:") && strings.HasSuffix(f, ".Changes"):
			k["chg"] = true
		case strings.HasPrefix(f, "glob:"):
			k["glob"] = true
		}
	}
	return sortedKeys(k)
}

// ---------------------------------------------------------------- reachability

var instRe = regexp.MustCompile(`\[[^\]]*\]`)

func normNode(n string) string {
	// strip instantiation brackets (may nest: remove repeatedly) and closure suffixes
	for {
		m := instRe.ReplaceAllString(n, "")
		if m == n {
			break
		}
		n = m
	}
	return n
}

// declOf strips the closure suffix: the declaration a call graph node belongs to.
func declOf(n string) string {
	if i := strings.Index(n, "$"); i >= 0 {
		n = n[:i]
	}
	return n
}

func nodeKind(n string) string {
	s := strings.TrimLeft(n, "(*")
	if strings.HasPrefix(s, modPath+"/") {
		return "mod"
	}
	head, _, _ := strings.Cut(s, "/")
	if strings.Contains(s, "/") && strings.Contains(head, ".") {
		return "ext"
	}
	return "std"
}

// vtaReach runs the pre-installed callgraph tool. cut=true: edges from the standard library
// into third-party packages are ignored (io.Writer & co. make VTA link everything to everything).
func vtaReach(funcs map[string]*unit) (plain, cut map[string]bool, err error) {
	cmd := exec.Command("callgraph", "-algo=vta", "-format={{.Caller}}\t{{.Callee}}", "./cmd/drc", "./cmd/do-approve")
	out, e := cmd.Output()
	if e != nil {
		return nil, nil, fmt.Errorf("callgraph -algo=vta: %v", e)
	}
	adj := map[string][]string{}
	sc := bufio.NewScanner(bytes.NewReader(out))
	sc.Buffer(make([]byte, 1<<20), 1<<26)
	for sc.Scan() {
		a, b, ok := strings.Cut(sc.Text(), "\t")
		if !ok {
			continue
		}
		a, b = normNode(a), normNode(b)
		adj[a] = append(adj[a], b)
	}
	var roots []string
	// device.CompareFiles$1 is the body closure of CompareFiles; CompareFiles itself only hands it
	// to errlog.HandleAbort, which VTA (context-insensitive) would link to every func() int.
	for _, r := range []string{modPath + "/pkg/device.CompareFiles$1", "(*" + modPath + "/pkg/device.state).getCompare", modPath + "/pkg/program.LoadConfig"} {
		if _, ok := adj[r]; !ok {
			return nil, nil, fmt.Errorf("planning root %s is not in the call graph", r)
		}
		roots = append(roots, r)
	}
	for k := range funcs {
		name := k[strings.LastIndex(k, ".")+1:]
		if reflectRoots[name] && strings.HasPrefix(k, "(") {
			roots = append(roots, k)
		}
	}
	walk := func(cutStd bool) map[string]bool {
		seen := map[string]bool{}
		st := append([]string(nil), roots...)
		for _, r := range roots {
			seen[r] = true
		}
		for len(st) > 0 {
			n := st[len(st)-1]
			st = st[:len(st)-1]
			for _, m := range adj[n] {
				if cutStd && nodeKind(n) == "std" && nodeKind(m) == "ext" {
					continue
				}
				if !seen[m] {
					seen[m] = true
					st = append(st, m)
				}
			}
		}
		// a declaration is reachable if it or one of its closures is
		res := map[string]bool{}
		for n := range seen {
			res[declOf(n)] = true
		}
		return res
	}
	return walk(false), walk(true), nil
}

// ---------------------------------------------------------------- third-party packages

type extPkg struct {
	path, dir string
	files     []string
}

func listExt() ([]extPkg, error) {
	out, err := exec.Command("go", "list", "-deps", "-f", "{{if not .Standard}}{{.ImportPath}}|{{.Dir}}|{{join .GoFiles \",\"}}{{end}}", "./cmd/drc", "./cmd/do-approve").Output()
	if err != nil {
		return nil, fmt.Errorf("go list -deps: %v", err)
	}
	var l []extPkg
	for _, line := range strings.Split(string(out), "\n") {
		p := strings.Split(line, "|")
		if len(p) != 3 || strings.HasPrefix(p[0], modPath) {
			continue
		}
		l = append(l, extPkg{p[0], p[1], strings.Split(p[2], ",")})
	}
	sort.Slice(l, func(i, j int) bool { return l[i].path < l[j].path })
	return l, nil
}

// ---------------------------------------------------------------- main of the deep pass

func deep(fset *token.FileSet, imp types.Importer, pkgs []*lpkg, sites []site, sorted []sortedRange) (string, string) {
	d := &deepCtx{fset: fset, funcs: map[string]*unit{}, bound: map[types.Object][]*unit{},
		siteOf: map[*ast.RangeStmt]*site{}, declKey: map[*ast.FuncDecl]string{}}
	for i := range sites {
		d.siteOf[sites[i].rs] = &sites[i]
	}
	// index of declarations and bound closures
	for _, pk := range pkgs {
		for _, f := range pk.files {
			for _, dcl := range f.Decls {
				fd, ok := dcl.(*ast.FuncDecl)
				if !ok || fd.Body == nil {
					continue
				}
				fo, ok := pk.info.Defs[fd.Name].(*types.Func)
				if !ok {
					continue
				}
				key := funcFullName(fo)
				d.funcs[key] = &unit{key: key, node: fd, body: fd.Body, decl: fd, pk: pk}
				d.declKey[fd] = key
				bind := func(id *ast.Ident, fl *ast.FuncLit) {
					obj := pk.info.Defs[id]
					if obj == nil {
						obj = pk.info.Uses[id]
					}
					if obj != nil {
						d.bound[obj] = append(d.bound[obj], &unit{key: key + "$" + id.Name, node: fl, body: fl.Body, lit: fl, decl: fd, pk: pk})
					}
				}
				ast.Inspect(fd.Body, func(n ast.Node) bool {
					switch n := n.(type) {
					case *ast.AssignStmt:
						if len(n.Lhs) == len(n.Rhs) {
							for i, r := range n.Rhs {
								if fl, ok := r.(*ast.FuncLit); ok {
									if id, ok := n.Lhs[i].(*ast.Ident); ok {
										bind(id, fl)
									}
								}
							}
						}
					case *ast.ValueSpec:
						if len(n.Names) == len(n.Values) {
							for i, r := range n.Values {
								if fl, ok := r.(*ast.FuncLit); ok {
									bind(n.Names[i], fl)
								}
							}
						}
					}
					return true
				})
			}
		}
	}
	plain, cut, err := vtaReach(d.funcs)
	if err != nil {
		problem("%v", err)
		return "", ""
	}
	reachOf := func(decl *ast.FuncDecl) bool { return decl != nil && plain[d.declKey[decl]] }

	var b strings.Builder
	b.WriteString("/- GENERATED by translate/mapranges (deep pass) from the working tree of the repository. Do not edit. -/\n")
	b.WriteString("namespace NA.Gen.MapRangesDeep\n\n")
	b.WriteString("structure DeepSite where\n  file : String\n  fn : String\n  mapExpr : String\n  ord : Nat\n  chash : String\n  kinds : List String\n  fx : String\n  callees : List String\n  reach : Bool\n  deriving DecidableEq, Repr\n\n")
	lst := func(l []string) string {
		q2 := make([]string, len(l))
		for i, s := range l {
			q2[i] = q(s)
		}
		return "[" + strings.Join(q2, ", ") + "]"
	}
	var db strings.Builder
	db.WriteString("import NA.Model.MapSiteDescr\n/- GENERATED by translate/mapranges (descriptor pass) from the working tree of the repository. Do not edit. -/\nnamespace NA.Gen.MapRangesDescr\nopen NA.C16.D\n\n")
	db.WriteString("/-- What the body of every unsorted `range` over a map does, read off the source (go/ast + go/types,\ntransitively through the module functions it calls); `opaque` = the translator cannot describe it. -/\ndef descrs : List SiteDescr := [\n")
	b.WriteString("/-- Transitive view of every `range` over a map of the module. -/\ndef deepSites : List DeepSite := [\n")
	for i := range sites {
		s := &sites[i]
		u := &unit{key: "site", node: s.rs, body: s.rs.Body, decl: s.decl, pk: s.pk}
		sum := d.closure(s.rs.Body, u, s.rs)
		// closure hash over alpha-normalised text: locals positional, module callees `@k` in discovery order
		fnIdx := map[string]string{}
		for _, cu := range sum.order {
			if cu.lit == nil {
				fnIdx[cu.key] = fmt.Sprintf("@%d", len(fnIdx)+1)
			}
		}
		fnName := func(f *types.Func) (string, bool) {
			nm, ok := fnIdx[funcFullName(f)]
			return nm, ok
		}
		h := sha256.New()
		h.Write([]byte(normPrint(fset, s.pk.info, s.rs, scopeOf(s.decl, s.rs), fnName)))
		for _, cu := range sum.order {
			if _, ok := sum.texts[cu.key]; ok {
				h.Write([]byte("\x00" + normPrint(fset, cu.pk.info, cu.node, scopeOf(cu.decl, cu.node), fnName)))
			}
		}
		feats := sum.feats
		if len(sum.inner) > 0 {
			feats[fmt.Sprintf("ranges:%d", len(sum.inner))] = true
		}
		var cs []string
		for _, k := range sortedKeys(sum.callees) {
			cs = append(cs, short(k))
		}
		sep := ","
		if i == len(sites)-1 {
			sep = ""
		}
		term, note := d.describe(s, sum)
		if note != "" {
			fmt.Fprintf(&db, "  -- %s\n", note)
		}
		fmt.Fprintf(&db, "  ⟨%s, %s, %s, %d, %s⟩%s\n", q(s.file), q(s.fn), q(s.mapExpr), s.ord, term, sep)
		fmt.Fprintf(&b, "  ⟨%s, %s, %s, %d, %s, %s, %s, %s, %v⟩%s\n", q(s.file), q(s.fn), q(s.mapExpr), s.ord,
			q(hex.EncodeToString(h.Sum(nil)[:8])), lst(kindsOf(feats)), q(strings.Join(sortedKeys(feats), " ")), lst(cs), reachOf(s.decl), sep)
	}
	b.WriteString("]\n\n")

	// sorted loops
	b.WriteString("structure SortedSite where\n  file : String\n  fn : String\n  mapExpr : String\n  kinds : List String\n  fx : String\n  inner : List (String × String × String × Nat)\n  reach : Bool\n  deriving DecidableEq, Repr\n\n")
	b.WriteString("/-- Every `range slices.Sorted(maps.Keys(X))` / `slices.SortedFunc(maps.Keys(X), …)`: what its body does,\ntransitively; `inner` = the unsorted map ranges executed inside (file, function, map expression, ordinal). -/\ndef sortedSites : List SortedSite := [\n")
	var sortedLoops []sortedRange
	for _, s := range sorted {
		if s.rs != nil { // "collect keys, sort, range" has no loop body of its own here
			sortedLoops = append(sortedLoops, s)
		}
	}
	for i, s := range sortedLoops {
		u := &unit{key: "sorted", node: s.rs, body: s.rs.Body, decl: s.decl, pk: s.pk}
		sum := d.closure(s.rs.Body, u, s.rs)
		// nested map ranges inside the own body count as inner too
		ast.Inspect(s.rs.Body, func(n ast.Node) bool {
			if r, ok := n.(*ast.RangeStmt); ok {
				if in := d.siteOf[r]; in != nil {
					sum.inner = append(sum.inner, in)
				}
			}
			return true
		})
		seen := map[string]bool{}
		var inner []string
		for _, in := range sum.inner {
			t := fmt.Sprintf("(%s, %s, %s, %d)", q(in.file), q(in.fn), q(in.mapExpr), in.ord)
			if !seen[t] {
				seen[t] = true
				inner = append(inner, t)
			}
		}
		sort.Strings(inner)
		sep := ","
		if i == len(sortedLoops)-1 {
			sep = ""
		}
		fmt.Fprintf(&b, "  ⟨%s, %s, %s, %s, %s, [%s], %v⟩%s\n", q(s.file), q(s.fn), q(s.expr), lst(kindsOf(sum.feats)),
			q(strings.Join(sortedKeys(sum.feats), " ")), strings.Join(inner, ", "), reachOf(s.decl), sep)
	}
	b.WriteString("]\n\n")

	// third-party packages
	exts, err := listExt()
	if err != nil {
		problem("%v", err)
		return "", ""
	}
	b.WriteString("structure ExtSite where\n  pkg : String\n  file : String\n  fn : String\n  mapExpr : String\n  ord : Nat\n  hash : String\n  cls : String\n  reach : Bool\n  deriving DecidableEq, Repr\n\n")
	b.WriteString("/-- Third-party packages linked into drc / do-approve. -/\ndef extPackages : List String := " + func() string {
		var l []string
		for _, e := range exts {
			l = append(l, e.path)
		}
		return lst(l)
	}() + "\n\n")
	var extRows []string
	for _, e := range exts {
		var files []*ast.File
		for _, fn := range e.files {
			f, err := parser.ParseFile(fset, filepath.Join(e.dir, fn), nil, 0)
			if err != nil {
				problem("parse %s/%s: %v", e.path, fn, err)
				continue
			}
			files = append(files, f)
		}
		info := &types.Info{Types: map[ast.Expr]types.TypeAndValue{}, Uses: map[*ast.Ident]types.Object{},
			Defs: map[*ast.Ident]types.Object{}, Selections: map[*ast.SelectorExpr]*types.Selection{}}
		conf := types.Config{Importer: imp, FakeImportC: true, Error: func(err error) {}}
		tp, _ := conf.Check(e.path, fset, files, info)
		pk := &lpkg{rel: "ext:" + e.path, path: e.path, files: files, names: e.files, info: info, pkg: tp}
		for i, f := range files {
			saved := problems
			w := &walker{fset: fset, info: info, file: e.files[i], counts: map[string]int{}, pk: pk}
			w.walkFile(f)
			problems = saved // untyped expressions in third-party code are not our problem …
			for _, s := range w.sites {
				key := ""
				if s.decl != nil {
					if fo, ok := info.Defs[s.decl.Name].(*types.Func); ok {
						key = funcFullName(fo)
					}
				}
				extRows = append(extRows, fmt.Sprintf("  ⟨%s, %s, %s, %s, %d, %s, %s, %v⟩", q(e.path), q(s.file), q(s.fn), q(s.mapExpr), s.ord, q(s.hash), q(s.cls), cut[key]))
			}
			// … but a range whose type is unknown would hide a map range: count them
			for _, pr := range problems[len(saved):] {
				_ = pr
			}
		}
	}
	b.WriteString("/-- Every `range` over a map in these packages; `reach`: VTA from the planning roots, edges from the\nstandard library into third-party code ignored. -/\ndef extSites : List ExtSite := [\n" + strings.Join(extRows, ",\n") + "\n]\n\n")

	// other sources of nondeterminism in the module
	type srcRow struct {
		file, fn, kind, text, norm string
		reach                      bool
	}
	var rows []srcRow
	var nat []string
	colTargets := map[*ast.RangeStmt]string{}
	for i := range sites {
		for _, f := range sites[i].feats {
			if t, ok := strings.CutPrefix(f, "write:append:"); ok {
				colTargets[sites[i].rs] = t
			}
		}
	}
	for _, pk := range pkgs {
		for fi, f := range pk.files {
			file := pk.rel + "/" + filepath.Base(pk.names[fi])
			for _, dcl := range f.Decls {
				fd, ok := dcl.(*ast.FuncDecl)
				var body ast.Node = dcl
				fn := "<toplevel>"
				reach := true
				if ok {
					if fd.Body == nil {
						continue
					}
					body = fd.Body
					fn = short(d.declKey[fd])
					reach = reachOf(fd)
				}
				// slices collected inside a map range of this declaration
				fromMapVars := map[string]bool{}
				ast.Inspect(body, func(n ast.Node) bool {
					if r, ok := n.(*ast.RangeStmt); ok {
						if t, ok := colTargets[r]; ok {
							fromMapVars[t] = true
						}
					}
					return true
				})
				add := func(kind string, n ast.Node) {
					var sc ast.Node = n
					if fd != nil {
						sc = fd
					}
					rows = append(rows, srcRow{file, fn, kind, nodeText(fset, n), normPrint(fset, pk.info, n, sc, nil), reach})
				}
				ast.Inspect(body, func(n ast.Node) bool {
					switch n := n.(type) {
					case *ast.GoStmt:
						add("go", n.Call.Fun)
					case *ast.SelectStmt:
						rows = append(rows, srcRow{file, fn, "select", "select", "select", reach})
					case *ast.SendStmt:
						add("chan", n)
					case *ast.UnaryExpr:
						if n.Op == token.ARROW {
							add("chan", n)
						}
					case *ast.BasicLit:
						if n.Kind == token.STRING && strings.Contains(n.Value, "%p") && !strings.Contains(n.Value, "%h:%p") {
							add("ptrfmt", n)
						}
					case *ast.CallExpr:
						var id *ast.Ident
						switch f := n.Fun.(type) {
						case *ast.Ident:
							id = f
						case *ast.SelectorExpr:
							id = f.Sel
						case *ast.IndexExpr: // explicit instantiation
							if se, ok := f.X.(*ast.SelectorExpr); ok {
								id = se.Sel
							}
						}
						if id == nil {
							return true
						}
						fo, ok := pk.info.Uses[id].(*types.Func)
						if !ok {
							return true
						}
						full := funcFullName(fo)
						if k := srcFuncs[full]; k != "" {
							add(k, n)
							return true
						}
						if fo.Pkg() != nil {
							if k := srcPkgs[fo.Pkg().Path()]; k != "" {
								add(k, n)
								return true
							}
						}
						argFromMap := func() bool {
							if len(n.Args) == 0 {
								return false
							}
							if c, ok := n.Args[0].(*ast.CallExpr); ok {
								switch selName(c.Fun) {
								case "maps.Keys", "maps.Values":
									return true
								}
							}
							if a, ok := n.Args[0].(*ast.Ident); ok && fromMapVars[a.Name] {
								return true
							}
							return false
						}
						if k := cmpSorts[full]; k != "" {
							kind := k
							if argFromMap() {
								kind += "-frommap"
							}
							add(kind, n)
							return true
						}
						if natSorts[full] && len(n.Args) >= 1 {
							elem := "?"
							if tv, ok := pk.info.Types[n.Args[0]]; ok && tv.Type != nil {
								switch t := tv.Type.Underlying().(type) {
								case *types.Slice:
									elem = t.Elem().Underlying().String()
								case *types.Signature: // iter.Seq[K]
									if t.Params().Len() == 1 {
										if y, ok := t.Params().At(0).Type().Underlying().(*types.Signature); ok && y.Params().Len() >= 1 {
											elem = y.Params().At(0).Type().Underlying().String()
										}
									}
								}
							}
							nat = append(nat, fmt.Sprintf("  (%s, %s, %s, %s)", q(file), q(fn), q(nodeText(fset, n)), q(elem)))
						}
					}
					return true
				})
			}
		}
	}
	b.WriteString("structure Source where\n  file : String\n  fn : String\n  kind : String\n  hash : String\n  text : String\n  reach : Bool\n  deriving DecidableEq, Repr\n\n")
	b.WriteString("/-- Every other possible source of nondeterminism in the module (go/pkg, go/cmd): goroutines, select,\nchannel operations, time, environment, random numbers, directory listings, temporary names, `%p`,\nreflection over maps, package sync, and every sort with a comparator (`-frommap`: the sorted\nslice was collected from a map). -/\ndef sources : List Source := [\n")
	for i, r := range rows {
		sep := ","
		if i == len(rows)-1 {
			sep = ""
		}
		hs := sha256.Sum256([]byte(r.norm))
		fmt.Fprintf(&b, "  ⟨%s, %s, %s, %s, %s, %v⟩%s\n", q(r.file), q(r.fn), q(r.kind), q(hex.EncodeToString(hs[:8])), q(r.text), r.reach, sep)
	}
	b.WriteString("]\n\n")
	b.WriteString("/-- Sorts by the natural order of the element type: (file, function, call, element type). -/\ndef naturalSorts : List (String × String × String × String) := [\n" + strings.Join(nat, ",\n") + "\n]\n\n")
	// facts behind the two admitted exceptions (see NA/Model/MapSitesDeep.lean)
	var quotePrefixes, defObjPrefixes, configKeys []string
	for _, pk := range pkgs {
		for fi, f := range pk.files {
			base := filepath.Base(pk.names[fi])
			if base == "cmd-info.go" && (pk.rel == "asa" || pk.rel == "ios") {
				if info, ok := stringLiteral(f, "cmdInfo"); ok {
					for _, line := range strings.Split(info, "\n") {
						line = strings.TrimRight(line, " \t\r")
						if line == "" || line[0] == '#' || line[0] == ' ' || line[0] == '[' {
							continue
						}
						parts := strings.Fields(strings.TrimPrefix(line, "!"))
						for _, t := range parts[1:] {
							if t == "\"" {
								quotePrefixes = append(quotePrefixes, fmt.Sprintf("(%s, %s)", q(pk.rel), q(strings.ReplaceAll(parts[0], "_", " "))))
							}
						}
					}
				}
			}
			if pk.rel == "cisco" && base == "parse.go" {
				ast.Inspect(f, func(n ast.Node) bool {
					vs, ok := n.(*ast.ValueSpec)
					if !ok || len(vs.Names) != 1 || vs.Names[0].Name != "defaultObjects" || len(vs.Values) != 1 {
						return true
					}
					if cl, ok := vs.Values[0].(*ast.CompositeLit); ok {
						for _, e := range cl.Elts {
							if kv, ok := e.(*ast.KeyValueExpr); ok {
								if k, ok := kv.Key.(*ast.CompositeLit); ok && len(k.Elts) == 2 {
									if bl, ok := k.Elts[0].(*ast.BasicLit); ok {
										defObjPrefixes = append(defObjPrefixes, bl.Value)
									}
								}
							}
						}
					}
					return false
				})
			}
			if pk.rel == "program" && base == "config.go" {
				ast.Inspect(f, func(n ast.Node) bool {
					sw, ok := n.(*ast.SwitchStmt)
					if !ok {
						return true
					}
					if id, ok := sw.Tag.(*ast.Ident); !ok || id.Name != "key" {
						return true
					}
					for _, c := range sw.Body.List {
						for _, e := range c.(*ast.CaseClause).List {
							if bl, ok := e.(*ast.BasicLit); ok && bl.Kind == token.STRING {
								configKeys = append(configKeys, bl.Value)
							}
						}
					}
					return true
				})
			}
		}
	}
	b.WriteString("/-- (device, prefix) of the toplevel command types whose template contains the token `\"` (the only\nplace where matchCmd can panic with 'Incomplete string'). -/\ndef quoteTemplatePrefixes : List (String × String) := [" + strings.Join(quotePrefixes, ", ") + "]\n\n")
	b.WriteString("/-- Prefixes of the keys of the literal cisco.defaultObjects. -/\ndef defaultObjectPrefixes : List String := [" + strings.Join(defObjPrefixes, ", ") + "]\n\n")
	b.WriteString("/-- String cases of the `switch key` statements of program.LoadConfig (keys that `insert` knows). -/\ndef configKeys : List String := [" + strings.Join(configKeys, ", ") + "]\n\n")
	nReach, nMod := 0, 0
	for k := range d.funcs {
		nMod++
		if plain[k] {
			nReach++
		}
	}
	fmt.Fprintf(&b, "/-- Declarations of the module with a body / of these reachable from the planning roots (VTA). -/\ndef moduleFunctions : Nat := %d\ndef reachableFunctions : Nat := %d\n\n", nMod, nReach)
	b.WriteString("end NA.Gen.MapRangesDeep\n")
	db.WriteString("]\n\nend NA.Gen.MapRangesDescr\n")
	return b.String(), db.String()
}
