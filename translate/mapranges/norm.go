// Alpha-normalised printing (robustness task): the hashes of the C16 translator must not change when
// a behaviour-preserving rewrite renames local variables, parameters, labels or helper functions.
package main

import (
	"bytes"
	"fmt"
	"go/ast"
	"go/printer"
	"go/token"
	"go/types"
	"strings"
)

// normPrint prints n (comment-free, gofmt layout) with
//   - every variable, constant, type name defined inside `scope` (locals, parameters, results,
//     receiver, loop variables, closure parameters) and every label renamed positionally `$1, $2, …`
//     in order of first occurrence in n;
//   - every function or method of the module renamed `@1, @2, …`: by fnName if given (the deep pass
//     numbers the callees of a closure in discovery order), else in order of first occurrence in n;
//
// everything else — package level names, fields, methods, imported names, literals, operators,
// control structure — verbatim. The AST is changed only for the duration of the call.
func normPrint(fset *token.FileSet, info *types.Info, n ast.Node, scope ast.Node, fnName func(*types.Func) (string, bool)) string {
	names := map[types.Object]string{}
	type saved struct {
		id  *ast.Ident
		old string
	}
	var undo []saved
	nfun, nvar := 0, 0
	ast.Inspect(n, func(x ast.Node) bool {
		id, ok := x.(*ast.Ident)
		if !ok || id.Name == "_" {
			return true
		}
		o := info.Uses[id]
		if o == nil {
			o = info.Defs[id]
		}
		if o == nil {
			return true
		}
		rename := false
		switch v := o.(type) {
		case *types.Label:
			rename = true
		case *types.Var:
			rename = !v.IsField() && scope != nil && v.Pos() >= scope.Pos() && v.Pos() <= scope.End()
		case *types.Const, *types.TypeName:
			rename = scope != nil && o.Pos().IsValid() && o.Pos() >= scope.Pos() && o.Pos() <= scope.End()
		case *types.Func:
			if fnName != nil {
				if nm, ok := fnName(v); ok {
					undo = append(undo, saved{id, id.Name})
					id.Name = nm
				}
			} else if v.Pkg() != nil && strings.HasPrefix(v.Pkg().Path(), modPath) {
				// no numbering given: functions and methods of the module positional, too
				nm, ok := names[o]
				if !ok {
					nfun++
					nm = fmt.Sprintf("@%d", nfun)
					names[o] = nm
				}
				undo = append(undo, saved{id, id.Name})
				id.Name = nm
			}
			return true
		}
		if rename {
			nm, ok := names[o]
			if !ok {
				nvar++
				nm = fmt.Sprintf("$%d", nvar)
				names[o] = nm
			}
			undo = append(undo, saved{id, id.Name})
			id.Name = nm
		}
		return true
	})
	var b bytes.Buffer
	printer.Fprint(&b, fset, n)
	for _, s := range undo {
		s.id.Name = s.old
	}
	return b.String()
}

// scopeOf: the declaration enclosing a node, or the node itself at package level.
func scopeOf(decl *ast.FuncDecl, n ast.Node) ast.Node {
	if decl != nil {
		return decl
	}
	return n
}
