// Descriptor pass of the C16 translator (round 3, audit follow-up).
//
// For every unsorted `range` over a map of the module it reads the loop body AND everything the body
// transitively calls in the module and tries to describe all effects in the small language of
// lean/NA/Model/MapSiteDescr.lean:
//
//	ownKey X       X[k] = … / delete(X, k) / X[T{…k…}] = …   (k = the loop's key variable); X occurs
//	               nowhere else in the closure except under such an index (and as the ranged map)
//	ownField f     o.f = … / o.f[i] = … / sort of o.f, with o reached from the loop's key or value
//	               (own objects: key, value, locals defined from them, elements of their slices,
//	               fresh values; NOT through a field whose type is a pointer to another struct type);
//	               `.f` is selected on own objects only, everywhere in the closure
//	setInsert S    S[x] = true; S occurs nowhere else in the closure
//	collectSorted  the only effect is `out = append(out, …)`, the statement after the loop sorts out
//	anyHit         no effect at all; the body leaves to an outer label
//
// Anything else (early exit with a result, abort/output/dynamic call/other source in the closure,
// assignment to a captured variable, write into an object that is not owned, read of a written map
// at another key, …) makes the body `opaque "reason"`: the site stays tied by its hashes only.
//
// Output: lean/NA/Gen/MapRangesDescr.lean (`descrs : List SiteDescr`).
package main

import (
	"fmt"
	"go/ast"
	"go/token"
	"go/types"
	"sort"
	"strings"
)

type descrCtx struct {
	d        *deepCtx
	s        *site
	keyObj   types.Object
	valObj   types.Object
	effs     map[string]bool
	bad      map[string]bool
	selReads []selRead // every selector seen: field name, own?
	visited  map[string]bool
	// writes `v.F = …` to a captured struct v inside `switch key { case "…": … }`: v.F → the case clauses
	keyed      map[string]map[ast.Node]bool
	keyedLHS   map[string]int // text "v.F" → number of such writes
	outNotDflt bool           // an output-capable module function is called outside a `default:` clause
	curStmt    ast.Node
}

// caseInfo: one branch of a mutually exclusive dispatch on an identifier — the NORMAL FORM of
// `switch x { case a, b: … default: … }`, `switch { case x == a: … }`, `if x == a || b == x { … } else if … else { … }`
// and `if slices.Contains([]string{a, b}, x) { … }`: the tag, the constants this branch tests positively
// (go/types constant values, so named constants are folded), or `dflt` for the default / final else.
type caseInfo struct {
	tag    *ast.Ident
	consts []string
	dflt   bool
	branch ast.Node // identity of the branch (its body)
}

// keyTest reads `x == c`, `c == x`, `a || b` of such tests, `slices.Contains([]T{…}, x)`: tag and constants.
func keyTest(info *types.Info, e ast.Expr) (tag *ast.Ident, consts []string, ok bool) {
	constOf := func(x ast.Expr) (string, bool) {
		if tv, ok := info.Types[x]; ok && tv.Value != nil {
			return tv.Value.ExactString(), true
		}
		return "", false
	}
	switch x := stripParens(e).(type) {
	case *ast.BinaryExpr:
		switch x.Op {
		case token.EQL:
			if id, ok := stripParens(x.X).(*ast.Ident); ok {
				if v, ok := constOf(x.Y); ok {
					if _, isConst := constOf(id); !isConst {
						return id, []string{v}, true
					}
				}
			}
			if id, ok := stripParens(x.Y).(*ast.Ident); ok {
				if v, ok := constOf(x.X); ok {
					return id, []string{v}, true
				}
			}
		case token.LOR:
			t1, c1, ok1 := keyTest(info, x.X)
			t2, c2, ok2 := keyTest(info, x.Y)
			if ok1 && ok2 && info.Uses[t1] == info.Uses[t2] && info.Uses[t1] != nil {
				return t1, append(c1, c2...), true
			}
		}
	case *ast.CallExpr:
		if selName(x.Fun) == "slices.Contains" && len(x.Args) == 2 {
			if cl, ok := x.Args[0].(*ast.CompositeLit); ok {
				if id, ok := stripParens(x.Args[1]).(*ast.Ident); ok {
					var cs []string
					for _, el := range cl.Elts {
						v, ok := constOf(el)
						if !ok {
							return nil, nil, false
						}
						cs = append(cs, v)
					}
					return id, cs, true
				}
			}
		}
	}
	return nil, nil, false
}

// dispatchBranches marks every node inside a branch of a dispatch with that branch (innermost wins).
func dispatchBranches(info *types.Info, body ast.Node, out map[ast.Node]caseInfo) {
	mark := func(b ast.Node, ci caseInfo) {
		ci.branch = b
		ast.Inspect(b, func(m ast.Node) bool {
			if m != nil {
				out[m] = ci
			}
			return true
		})
	}
	isChainElse := map[*ast.IfStmt]bool{}
	ast.Inspect(body, func(n ast.Node) bool {
		switch st := n.(type) {
		case *ast.SwitchStmt:
			tagID, _ := st.Tag.(*ast.Ident)
			for _, cl := range st.Body.List {
				cc := cl.(*ast.CaseClause)
				blk := &ast.BlockStmt{List: cc.Body, Lbrace: cc.Colon, Rbrace: cc.End()}
				if cc.List == nil {
					if tagID != nil {
						mark(blk, caseInfo{tag: tagID, dflt: true})
					}
					continue
				}
				var tag *ast.Ident
				var cs []string
				ok := true
				for _, e := range cc.List {
					if tagID != nil { // switch x { case c: }
						if tv, has := info.Types[e]; has && tv.Value != nil {
							tag, cs = tagID, append(cs, tv.Value.ExactString())
						} else {
							ok = false
						}
					} else { // switch { case x == c: }
						t, c1, isTest := keyTest(info, e)
						if !isTest || tag != nil && info.Uses[tag] != info.Uses[t] {
							ok = false
						} else {
							tag, cs = t, append(cs, c1...)
						}
					}
				}
				if ok && tag != nil {
					mark(blk, caseInfo{tag: tag, consts: cs})
				}
			}
		case *ast.IfStmt:
			if isChainElse[st] {
				return true // handled with the head of its chain
			}
			// walk the chain
			var tag *ast.Ident
			cur := st
			for cur != nil {
				t, cs, ok := keyTest(info, cur.Cond)
				if !ok || cur.Init != nil || tag != nil && info.Uses[tag] != info.Uses[t] {
					break
				}
				tag = t
				mark(cur.Body, caseInfo{tag: t, consts: cs})
				switch e := cur.Else.(type) {
				case *ast.IfStmt:
					isChainElse[e] = true
					cur = e
				case *ast.BlockStmt:
					mark(e, caseInfo{tag: t, dflt: true})
					cur = nil
				default:
					cur = nil
				}
			}
		}
		return true
	})
}

type selRead struct {
	field string
	own   bool
	text  string
}

// unitEnv: how to judge ownership inside one unit.
type unitEnv struct {
	u      *unit
	node   ast.Node              // range of the unit (loop statement / function literal / declaration)
	params map[types.Object]bool // parameter → argument was own at the call site
	defs   map[types.Object][]ast.Expr
	elems  map[types.Object]ast.Expr // range variable → ranged expression
	busy   map[types.Object]bool
	// parameters that ARE the loop's key (the argument at the call site is the key variable)
	keyParams map[types.Object]bool
	// locals / parameters that are component i of an array-typed key (`prefix, name := k[0], k[1]`)
	keyComp map[types.Object]int
	inCase  map[ast.Node]caseInfo // statement / call → innermost `switch <ident>` case clause around it
}

func (c *descrCtx) fail(format string, a ...any) { c.bad[fmt.Sprintf(format, a...)] = true }

func (c *descrCtx) text(n ast.Node) string { return nodeText(c.d.fset, n) }

func objOf(info *types.Info, id *ast.Ident) types.Object {
	if o := info.Uses[id]; o != nil {
		return o
	}
	return info.Defs[id]
}

// collectDefs records what is assigned to the local variables of a unit.
func collectDefs(env *unitEnv, body ast.Node) {
	info := env.u.pk.info
	ast.Inspect(body, func(n ast.Node) bool {
		switch n := n.(type) {
		case *ast.AssignStmt:
			if len(n.Lhs) == len(n.Rhs) {
				for i, l := range n.Lhs {
					if id, ok := l.(*ast.Ident); ok {
						if o := objOf(info, id); o != nil {
							env.defs[o] = append(env.defs[o], n.Rhs[i])
						}
					}
				}
			} else if len(n.Rhs) == 1 {
				// v, ok := m[k] / x, y := f(): every variable is defined from the one expression
				for _, l := range n.Lhs {
					if id, ok := l.(*ast.Ident); ok {
						if o := objOf(info, id); o != nil {
							env.defs[o] = append(env.defs[o], n.Rhs[0])
						}
					}
				}
			}
		case *ast.ValueSpec:
			for i, id := range n.Names {
				if o := info.Defs[id]; o != nil && i < len(n.Values) {
					env.defs[o] = append(env.defs[o], n.Values[i])
				}
			}
		case *ast.RangeStmt:
			for _, e := range []ast.Expr{n.Key, n.Value} {
				if id, ok := e.(*ast.Ident); ok && id.Name != "_" {
					if o := objOf(info, id); o != nil {
						env.elems[o] = n.X
					}
				}
			}
		}
		return true
	})
}

func (c *descrCtx) inside(env *unitEnv, o types.Object) bool {
	return o.Pos() >= env.node.Pos() && o.Pos() <= env.node.End()
}

// keyDetermining: the index expression names the own key (the key itself or a composite built from it).
func (c *descrCtx) keyDetermining(env *unitEnv, idx ast.Expr) bool {
	info := env.u.pk.info
	switch x := idx.(type) {
	case *ast.Ident:
		o := objOf(info, x)
		return o != nil && (o == c.keyObj || env.keyParams[o])
	case *ast.CompositeLit:
		for _, e := range x.Elts {
			if id, ok := e.(*ast.Ident); ok {
				if o := objOf(info, id); o != nil && o == c.keyObj {
					return true
				}
			}
		}
	case *ast.ParenExpr:
		return c.keyDetermining(env, x.X)
	}
	return false
}

// compOf: the expression is component i of the loop's array-typed key (k[i], or a variable / parameter
// holding it); n = number of components of the key type.
func (c *descrCtx) compOf(env *unitEnv, e ast.Expr) (i, n int, ok bool) {
	info := env.u.pk.info
	keyLen := func() int {
		if c.keyObj == nil {
			return 0
		}
		if a, ok := c.keyObj.Type().Underlying().(*types.Array); ok {
			return int(a.Len())
		}
		return 0
	}
	switch x := stripParens(e).(type) {
	case *ast.IndexExpr:
		if id, ok := x.X.(*ast.Ident); ok && objOf(info, id) == c.keyObj && c.keyObj != nil {
			if bl, ok := x.Index.(*ast.BasicLit); ok && bl.Kind == token.INT {
				var v int
				fmt.Sscanf(bl.Value, "%d", &v)
				return v, keyLen(), keyLen() > 0
			}
		}
	case *ast.Ident:
		o := objOf(info, x)
		if o == nil {
			return 0, 0, false
		}
		if v, ok := env.keyComp[o]; ok {
			return v, keyLen(), keyLen() > 0
		}
		if _, isVar := o.(*types.Var); isVar && c.inside(env, o) && !env.busy[o] {
			ds := env.defs[o]
			if len(ds) == 1 {
				env.busy[o] = true
				defer delete(env.busy, o)
				return c.compOf(env, ds[0])
			}
		}
	}
	return 0, 0, false
}

// twoLevelOwn: e is `m[b]` where m is a local alias of `X[a]` (X a map of maps that is not own) and a, b
// are the two components of a two-component key: the slot of the own key in the two-level map X.
// Returns the text of X.
func (c *descrCtx) twoLevelOwn(env *unitEnv, e ast.Expr) (string, bool) {
	info := env.u.pk.info
	ie, ok := stripParens(e).(*ast.IndexExpr)
	if !ok {
		return "", false
	}
	ib, nb, okb := c.compOf(env, ie.Index)
	if !okb || nb != 2 {
		return "", false
	}
	// the inner map: X[a] directly, or a local defined (only) from X[a] and make(…)
	var outer *ast.IndexExpr
	switch x := stripParens(ie.X).(type) {
	case *ast.IndexExpr:
		outer = x
	case *ast.Ident:
		o := objOf(info, x)
		if o == nil || !c.inside(env, o) {
			return "", false
		}
		for _, d := range env.defs[o] {
			switch dx := stripParens(d).(type) {
			case *ast.IndexExpr:
				if outer != nil && c.text(outer) != c.text(dx) {
					return "", false
				}
				outer = dx
			case *ast.CallExpr:
				if id, ok := dx.Fun.(*ast.Ident); !ok || id.Name != "make" {
					return "", false
				}
			default:
				return "", false
			}
		}
	}
	if outer == nil {
		return "", false
	}
	ia, na, oka := c.compOf(env, outer.Index)
	if !oka || na != 2 || ia == ib {
		return "", false
	}
	return c.text(outer.X), true
}

// returnsFresh: every result the function returns is nil, the address of a composite literal, a local
// holding such an address, or the result of a function with the same property.
func (c *descrCtx) returnsFresh(u *unit, busy map[string]bool) bool {
	if busy[u.key] {
		return true
	}
	busy[u.key] = true
	info := u.pk.info
	defs := map[types.Object][]ast.Expr{}
	ast.Inspect(u.body, func(n ast.Node) bool {
		if as, ok := n.(*ast.AssignStmt); ok && len(as.Lhs) == len(as.Rhs) {
			for i, l := range as.Lhs {
				if id, ok := l.(*ast.Ident); ok {
					if o := objOf(info, id); o != nil {
						defs[o] = append(defs[o], as.Rhs[i])
					}
				}
			}
		}
		return true
	})
	var fresh func(e ast.Expr, depth int) bool
	fresh = func(e ast.Expr, depth int) bool {
		switch x := stripParens(e).(type) {
		case *ast.Ident:
			if x.Name == "nil" {
				return true
			}
			o := objOf(info, x)
			if o == nil || depth > 3 || len(defs[o]) == 0 {
				return false
			}
			for _, d := range defs[o] {
				if !fresh(d, depth+1) {
					return false
				}
			}
			return true
		case *ast.UnaryExpr:
			_, isLit := x.X.(*ast.CompositeLit)
			return x.Op == token.AND && isLit
		case *ast.CallExpr:
			var id *ast.Ident
			switch f := x.Fun.(type) {
			case *ast.Ident:
				id = f
			case *ast.SelectorExpr:
				id = f.Sel
			}
			if id != nil {
				if fo, ok := objOf(info, id).(*types.Func); ok {
					if fu := c.d.funcs[funcFullName(fo)]; fu != nil {
						return c.returnsFresh(fu, busy)
					}
				}
			}
		}
		return false
	}
	ok := true
	ast.Inspect(u.body, func(n ast.Node) bool {
		if _, isLit := n.(*ast.FuncLit); isLit {
			return false
		}
		if rs, isRet := n.(*ast.ReturnStmt); isRet {
			for _, r := range rs.Results {
				if !fresh(r, 0) {
					ok = false
				}
			}
		}
		return true
	})
	return ok
}

// own: the expression denotes (part of) an object owned by the current entry, or a fresh value.
func (c *descrCtx) own(env *unitEnv, e ast.Expr) bool {
	info := env.u.pk.info
	switch x := e.(type) {
	case nil:
		return true
	case *ast.Ident:
		if x.Name == "_" || x.Name == "nil" || x.Name == "true" || x.Name == "false" {
			return true
		}
		o := objOf(info, x)
		if o == nil {
			return false
		}
		if o == c.keyObj || o == c.valObj {
			return true
		}
		if b, ok := env.params[o]; ok {
			return b
		}
		switch o.(type) {
		case *types.Const, *types.Nil, *types.Builtin, *types.TypeName, *types.Func:
			return true
		}
		v, ok := o.(*types.Var)
		if !ok || !c.inside(env, o) {
			return false // captured variable, package variable, receiver
		}
		if env.busy[o] {
			return true // cycle (x = append(x, …)): decided by the other definitions
		}
		env.busy[o] = true
		defer delete(env.busy, o)
		if r, ok := env.elems[o]; ok {
			// range variable: the key of a slice range is a fresh int, the element is part of the slice
			if tv, ok := info.Types[r]; ok {
				if _, isMap := tv.Type.Underlying().(*types.Map); isMap && r != c.s.rs.X {
					return c.own(env, r)
				}
			}
			if _, isBasic := v.Type().Underlying().(*types.Basic); isBasic {
				return true
			}
			return c.own(env, r)
		}
		for _, d := range env.defs[o] {
			if !c.own(env, d) {
				return false
			}
		}
		return true // declared without value, or all definitions own
	case *ast.SelectorExpr:
		if id, ok := x.X.(*ast.Ident); ok {
			if _, isPkg := objOf(info, id).(*types.PkgName); isPkg {
				return false // package level variable
			}
		}
		if !c.own(env, x.X) {
			return false
		}
		// ownership does not pass through a pointer to another struct type (c.typ: shared command type)
		if tv, ok := info.Types[x]; ok {
			if p, ok := tv.Type.Underlying().(*types.Pointer); ok {
				if btv, ok := info.Types[x.X]; ok {
					bt := btv.Type
					if bp, ok := bt.Underlying().(*types.Pointer); ok {
						bt = bp.Elem()
					}
					if !types.Identical(p.Elem(), bt) {
						return false
					}
				}
			}
		}
		return true
	case *ast.IndexExpr:
		if c.own(env, x.X) {
			return true
		}
		if tv, ok := info.Types[x.X]; ok {
			if _, isMap := tv.Type.Underlying().(*types.Map); isMap && c.keyDetermining(env, x.Index) {
				return true // the own slot of another map
			}
		}
		if _, ok := c.twoLevelOwn(env, x); ok {
			return true // the own slot of a two-level map
		}
		return false
	case *ast.StarExpr:
		return c.own(env, x.X)
	case *ast.ParenExpr:
		return c.own(env, x.X)
	case *ast.SliceExpr:
		return c.own(env, x.X)
	case *ast.UnaryExpr:
		if x.Op == token.AND {
			return c.own(env, x.X)
		}
		return true
	case *ast.BinaryExpr, *ast.BasicLit, *ast.CompositeLit, *ast.FuncLit, *ast.TypeAssertExpr, *ast.KeyValueExpr:
		return true
	case *ast.CallExpr:
		var id *ast.Ident
		switch f := x.Fun.(type) {
		case *ast.Ident:
			id = f
		case *ast.SelectorExpr:
			id = f.Sel
		}
		if id == nil {
			return false
		}
		switch o := objOf(info, id).(type) {
		case *types.Builtin:
			if o.Name() == "append" {
				for _, a := range x.Args {
					if !c.own(env, a) {
						return false
					}
				}
			}
			return true
		case *types.TypeName:
			return len(x.Args) == 1 && c.own(env, x.Args[0])
		case *types.Func:
			if fu := c.d.funcs[funcFullName(o)]; fu != nil {
				return c.returnsFresh(fu, map[string]bool{}) // a freshly built object, or unknown
			}
			return true // standard library: fresh value (strings.Split, strconv.Itoa, fmt.Sprintf, …)
		}
		return false
	}
	return false
}

// ensureGuard: the assignment `X[a] = m` stores a map that was just made because X[a] was nil:
// the statement sits in `if m == nil { m = make(…); X[a] = m }` with m defined from X[a].
func (c *descrCtx) ensureGuard(env *unitEnv, lhs *ast.IndexExpr, rhs ast.Expr) bool {
	info := env.u.pk.info
	id, ok := stripParens(rhs).(*ast.Ident)
	if !ok {
		return false
	}
	o := objOf(info, id)
	if o == nil || !c.inside(env, o) {
		return false
	}
	fromSlot, made := false, false
	for _, d := range env.defs[o] {
		switch dx := stripParens(d).(type) {
		case *ast.IndexExpr:
			if c.text(dx) == c.text(lhs) {
				fromSlot = true
			} else {
				return false
			}
		case *ast.CallExpr:
			if f, ok := dx.Fun.(*ast.Ident); ok && f.Name == "make" {
				made = true
			} else {
				return false
			}
		default:
			return false
		}
	}
	return fromSlot && made
}

func stripParens(e ast.Expr) ast.Expr {
	for {
		p, ok := e.(*ast.ParenExpr)
		if !ok {
			return e
		}
		e = p.X
	}
}

// write classifies one assignment target.
func (c *descrCtx) write(env *unitEnv, lhs, rhs ast.Expr, isDelete bool) {
	info := env.u.pk.info
	lhs = stripParens(lhs)
	root, _, path := rootOf(lhs)
	if root == nil {
		c.fail("write to an lvalue the translator does not understand: %s", c.text(lhs))
		return
	}
	if root.Name == "_" {
		return
	}
	if !path {
		o := objOf(info, root)
		if o == nil {
			return
		}
		if _, isParam := env.params[o]; isParam || c.inside(env, o) {
			return // local variable or parameter itself
		}
		c.effs["outer:"+root.Name] = true
		return
	}
	if ie, ok := lhs.(*ast.IndexExpr); ok {
		if tv, ok := info.Types[ie.X]; ok {
			if _, isMap := tv.Type.Underlying().(*types.Map); isMap {
				x := c.text(ie.X)
				if X, ok := c.twoLevelOwn(env, ie); ok {
					c.effs["ownKey:"+X+"[·][·]"] = true
					return
				}
				if _, n, ok := c.compOf(env, ie.Index); ok && n == 2 && !isDelete && rhs != nil && c.ensureGuard(env, ie, rhs) {
					// `m := X[a]; if m == nil { m = make(…); X[a] = m }`: the inner map of a two-level map is
					// created if absent — idempotent, like a set insertion
					c.effs["setInsert:"+x+"[·] exists"] = true
					return
				}
				switch {
				case c.keyDetermining(env, ie.Index) && env.u.key == "site":
					c.effs["ownKey:"+x] = true
				case !isDelete && rhs != nil && c.text(rhs) == "true":
					c.effs["setInsert:"+x] = true
				case c.own(env, ie.X):
					c.effs["ownField:[]"] = true
				default:
					c.fail("writes %s at an index that is not the own key", c.text(lhs))
				}
				return
			}
		}
	}
	// field or element of an object
	var base ast.Expr
	field := "[]"
	switch x := lhs.(type) {
	case *ast.SelectorExpr:
		base, field = x.X, x.Sel.Name
	case *ast.IndexExpr:
		base = x.X
	case *ast.StarExpr:
		base = x.X
	case *ast.SliceExpr:
		base = x.X
	}
	if se, ok := lhs.(*ast.SelectorExpr); ok {
		if id, ok := se.X.(*ast.Ident); ok && !c.own(env, id) {
			if ci, ok := env.inCase[c.curStmt]; ok && !ci.dflt {
				if tag := ci.tag; c.keyDetermining(env, tag) {
					// exactly one constant: a branch for two keys ("a", "b" or a == "a" || a == "b")
					// would let two map entries write the same field — the later one wins.
					if len(ci.consts) == 1 {
						t := id.Name + "." + se.Sel.Name
						if c.keyed[t] == nil {
							c.keyed[t] = map[ast.Node]bool{}
						}
						c.keyed[t][ci.branch] = true
						c.keyedLHS[t]++
						c.effs["ownKey:"+id.Name+".<field selected by the key>"] = true
						return
					}
				}
			}
		}
	}
	if base != nil && c.own(env, base) {
		// a write into a fresh local (words[3] = "x") is not visible outside: still harmless as ownField
		c.effs["ownField:"+field] = true
		return
	}
	c.fail("writes %s: not an object owned by the entry", c.text(lhs))
}

// scan walks one unit.
func (c *descrCtx) scan(env *unitEnv, body ast.Node) {
	info := env.u.pk.info
	collectDefs(env, body)
	if env.inCase == nil {
		env.inCase = map[ast.Node]caseInfo{}
	}
	dispatchBranches(info, body, env.inCase)
	ast.Inspect(body, func(n ast.Node) bool {
		if st, ok := n.(ast.Stmt); ok {
			if _, isBlock := st.(*ast.BlockStmt); !isBlock {
				switch st.(type) {
				case *ast.AssignStmt, *ast.IncDecStmt, *ast.ExprStmt:
					c.curStmt = st
				}
			}
		}
		switch n := n.(type) {
		case *ast.FuncLit:
			// closures bound to a variable are analysed where they are called
			for _, us := range c.d.bound {
				for _, bu := range us {
					if bu.lit == n {
						return false
					}
				}
			}
		case *ast.AssignStmt:
			if n.Tok == token.DEFINE {
				break
			}
			for i, l := range n.Lhs {
				var r ast.Expr
				if len(n.Lhs) == len(n.Rhs) {
					r = n.Rhs[i]
				}
				// x = append(x, …) of a captured slice: collect pattern, judged at the end
				c.write(env, l, r, false)
			}
		case *ast.IncDecStmt:
			c.write(env, n.X, nil, false)
		case *ast.SelectorExpr:
			if sel := info.Selections[n]; sel != nil && sel.Kind() == types.FieldVal {
				c.selReads = append(c.selReads, selRead{n.Sel.Name, c.own(env, n.X), c.text(n)})
			}
		case *ast.CallExpr:
			var id *ast.Ident
			switch f := n.Fun.(type) {
			case *ast.Ident:
				id = f
			case *ast.SelectorExpr:
				id = f.Sel
			}
			if id == nil {
				break
			}
			switch o := objOf(info, id).(type) {
			case *types.Builtin:
				switch o.Name() {
				case "delete":
					if len(n.Args) == 2 {
						c.write(env, &ast.IndexExpr{X: n.Args[0], Index: n.Args[1]}, nil, true)
					}
				case "copy":
					if len(n.Args) == 2 {
						c.write(env, &ast.SliceExpr{X: n.Args[0]}, nil, false)
					}
				}
			case *types.Func:
				full := funcFullName(o)
				switch full {
				case "sort.Slice", "sort.SliceStable", "sort.Strings", "sort.Ints", "slices.Sort", "slices.SortFunc", "slices.SortStableFunc", "slices.Reverse":
					if len(n.Args) >= 1 {
						c.write(env, &ast.SliceExpr{X: n.Args[0]}, nil, false)
					}
				}
				if fu := c.d.funcs[full]; fu != nil {
					c.descend(env, fu, n, fu.decl.Type.Params, fu.decl.Recv)
				}
			case *types.Var:
				for _, bu := range c.d.bound[o] {
					c.descend(env, bu, n, bu.lit.Type.Params, nil)
				}
			}
		}
		return true
	})
}

// descend analyses a called unit with the ownership of its arguments.
func (c *descrCtx) descend(env *unitEnv, callee *unit, call *ast.CallExpr, params *ast.FieldList, recv *ast.FieldList) {
	info := callee.pk.info
	penv := &unitEnv{u: callee, node: callee.node, params: map[types.Object]bool{}, defs: map[types.Object][]ast.Expr{},
		elems: map[types.Object]ast.Expr{}, busy: map[types.Object]bool{}, keyParams: map[types.Object]bool{}, keyComp: map[types.Object]int{}}
	sig := ""
	i := 0
	if params != nil {
		for _, f := range params.List {
			for _, id := range f.Names {
				ownArg := false
				if i < len(call.Args) {
					ownArg = c.own(env, call.Args[i])
				}
				if o := info.Defs[id]; o != nil {
					penv.params[o] = ownArg
					if i < len(call.Args) {
						if aid, ok := call.Args[i].(*ast.Ident); ok && c.keyDetermining(env, aid) {
							penv.keyParams[o] = true
						}
						if ci, _, ok := c.compOf(env, call.Args[i]); ok {
							penv.keyComp[o] = ci
						}
					}
				}
				if ownArg {
					sig += "1"
				} else {
					sig += "0"
				}
				i++
			}
		}
	}
	if recv != nil && len(recv.List) == 1 && len(recv.List[0].Names) == 1 {
		ownRecv := false
		if se, ok := call.Fun.(*ast.SelectorExpr); ok {
			ownRecv = c.own(env, se.X)
		}
		if o := info.Defs[recv.List[0].Names[0]]; o != nil {
			penv.params[o] = ownRecv
		}
	}
	// does the callee (transitively) print? then the call must sit in a `default:` clause
	if cs := c.d.closure(callee.body, callee, nil); len(kindsOf(cs.feats)) > 0 {
		for f := range cs.feats {
			if strings.HasPrefix(f, "out:") {
				if ci, ok := env.inCase[call]; !ok || !ci.dflt {
					own := c.d.closure(callee.body, &unit{key: callee.key, node: callee.node, body: callee.body, lit: callee.lit, decl: callee.decl, pk: callee.pk}, nil)
					_ = own
					c.outNotDflt = c.outNotDflt || !c.calleeOnlyForwards(callee)
				}
			}
		}
	}
	k := callee.key + "/" + sig
	if c.visited[k] {
		return
	}
	c.visited[k] = true
	c.scan(penv, callee.body)
}

// calleeOnlyForwards: the callee prints only through calls that are themselves checked when it is
// scanned (it contains no direct output sink of its own).
func (c *descrCtx) calleeOnlyForwards(callee *unit) bool {
	direct := false
	info := callee.pk.info
	ast.Inspect(callee.body, func(n ast.Node) bool {
		if id, ok := n.(*ast.Ident); ok {
			if f, ok := info.Uses[id].(*types.Func); ok && outSinks[funcFullName(f)] {
				direct = true
			}
		}
		return true
	})
	return !direct
}

// occurrences of an expression text in the closure, with the way it is used
func (c *descrCtx) checkReads(units []*unit) {
	var maps, sets []string
	fields := map[string]bool{}
	for e := range c.effs {
		switch {
		case strings.HasPrefix(e, "ownKey:"):
			maps = append(maps, strings.TrimPrefix(e, "ownKey:"))
		case strings.HasPrefix(e, "setInsert:"):
			sets = append(sets, strings.TrimPrefix(e, "setInsert:"))
		case strings.HasPrefix(e, "ownField:"):
			fields[strings.TrimPrefix(e, "ownField:")] = true
		}
	}
	for _, r := range c.selReads {
		if fields[r.field] && !r.own {
			c.fail("selects .%s (a field the loop writes) on an object not owned by the entry: %s", r.field, r.text)
		}
	}
	if len(maps)+len(sets) == 0 {
		return
	}
	isMapName := func(t string, l []string) bool {
		for _, m := range l {
			if m == t {
				return true
			}
		}
		return false
	}
	for _, u := range units {
		env := &unitEnv{u: u, node: u.node, params: map[types.Object]bool{}, defs: map[types.Object][]ast.Expr{},
			elems: map[types.Object]ast.Expr{}, busy: map[types.Object]bool{}, keyParams: map[types.Object]bool{}, keyComp: map[types.Object]int{}}
		okUse := map[ast.Expr]bool{}
		ast.Inspect(u.body, func(n ast.Node) bool {
			switch n := n.(type) {
			case *ast.IndexExpr:
				t := c.text(n.X)
				if isMapName(t, maps) && c.keyDetermining(env, n.Index) {
					okUse[n.X] = true
				}
			case *ast.AssignStmt:
				for i, l := range n.Lhs {
					if ie, ok := stripParens(l).(*ast.IndexExpr); ok && len(n.Lhs) == len(n.Rhs) {
						if isMapName(c.text(ie.X), sets) && c.text(n.Rhs[i]) == "true" {
							okUse[ie.X] = true
						}
					}
				}
			case *ast.CallExpr:
				if id, ok := n.Fun.(*ast.Ident); ok && id.Name == "delete" && len(n.Args) == 2 {
					if isMapName(c.text(n.Args[0]), maps) && c.keyDetermining(env, n.Args[1]) {
						okUse[n.Args[0]] = true
					}
				}
			}
			return true
		})
		var walk func(n ast.Node) bool
		walk = func(n ast.Node) bool {
			e, ok := n.(ast.Expr)
			if !ok {
				return true
			}
			t := c.text(e)
			if (isMapName(t, maps) || isMapName(t, sets)) && !okUse[e] {
				switch e.(type) {
				case *ast.Ident, *ast.SelectorExpr, *ast.IndexExpr:
					c.fail("uses %s (written by the loop) other than at the own key / as a set insertion", t)
				}
				return false
			}
			if se, ok := e.(*ast.SelectorExpr); ok {
				ast.Inspect(se.X, walk) // the selected name itself is not a use of a variable
				return false
			}
			return true
		}
		ast.Inspect(u.body, walk)
	}
}

// describe returns the Lean term of the body of a site and a comment.
func (d *deepCtx) describe(s *site, sum *summary) (string, string) {
	c := &descrCtx{d: d, s: s, effs: map[string]bool{}, bad: map[string]bool{}, visited: map[string]bool{},
		keyed: map[string]map[ast.Node]bool{}, keyedLHS: map[string]int{}}
	info := s.pk.info
	if id, ok := s.rs.Key.(*ast.Ident); ok && id.Name != "_" {
		c.keyObj = objOf(info, id)
	}
	if id, ok := s.rs.Value.(*ast.Ident); ok && id.Name != "_" {
		c.valObj = objOf(info, id)
	}
	ks := kindsOf(sum.feats)
	outOnly := len(ks) == 1 && ks[0] == "out"
	abortOnly := len(ks) == 1 && ks[0] == "abort"
	if len(ks) > 0 && !outOnly && !abortOnly {
		c.fail("the closure can: %s", strings.Join(ks, ", "))
	}
	u := &unit{key: "site", node: s.rs, body: s.rs.Body, decl: s.decl, pk: s.pk}
	env := &unitEnv{u: u, node: s.rs, params: map[types.Object]bool{}, defs: map[types.Object][]ast.Expr{},
		elems: map[types.Object]ast.Expr{}, busy: map[types.Object]bool{}, keyParams: map[types.Object]bool{}, keyComp: map[types.Object]int{}}
	c.scan(env, s.rs.Body)
	// units of the closure, for the read check
	units := []*unit{u}
	for k := range sum.callees {
		if fu := d.funcs[k]; fu != nil {
			units = append(units, fu)
			continue
		}
		for _, us := range d.bound {
			for _, bu := range us {
				if bu.key == k {
					units = append(units, bu)
				}
			}
		}
	}
	c.checkReads(units)
	for t, ccs := range c.keyed {
		if len(ccs) > 1 {
			c.fail("field %s is written under several cases of the switch over the key", t)
		}
		n := 0
		for _, r := range c.selReads {
			if r.text == t {
				n++
			}
		}
		if n != c.keyedLHS[t] {
			c.fail("field %s (written per key) is also read in the closure", t)
		}
	}

	exits := false
	onlyContinueOuter := true
	for _, f := range s.feats {
		if strings.HasPrefix(f, "exit:") {
			exits = true
			if f != "exit:continue-outer" {
				onlyContinueOuter = false
			}
		}
	}
	var effs []string
	for e := range c.effs {
		effs = append(effs, e)
	}
	sort.Strings(effs)
	why := func() string {
		var l []string
		for b := range c.bad {
			l = append(l, b)
		}
		sort.Strings(l)
		return strings.Join(l, "; ")
	}
	// `x = payload; break`: the payload of whichever entry comes first
	if len(s.rs.Body.List) == 2 && len(c.bad) == 0 {
		as, ok1 := s.rs.Body.List[0].(*ast.AssignStmt)
		br, ok2 := s.rs.Body.List[1].(*ast.BranchStmt)
		if ok1 && ok2 && br.Tok == token.BREAK && br.Label == nil && as.Tok == token.ASSIGN && len(as.Lhs) == 1 && len(as.Rhs) == 1 {
			if id, ok := as.Lhs[0].(*ast.Ident); ok && len(effs) == 1 && effs[0] == "outer:"+id.Name {
				return ".firstPayload " + q(id.Name), "takes " + c.text(as.Rhs[0]) + " of whichever entry comes first: needs equal payloads"
			}
		}
	}
	onlyReturn := exits
	for _, f := range s.feats {
		if strings.HasPrefix(f, "exit:") && f != "exit:return" {
			onlyReturn = false
		}
	}
	if (onlyReturn || abortOnly && !exits) && len(c.bad) == 0 && len(effs) > 0 && !(outOnly && c.outNotDflt) {
		okEffs := true
		var terms []string
		for _, e := range effs {
			k, v, _ := strings.Cut(e, ":")
			switch k {
			case "ownKey", "ownField", "setInsert":
				terms = append(terms, "."+k+" "+q(v))
			default:
				okEffs = false
			}
		}
		if okEffs {
			return ".guarded [" + strings.Join(terms, ", ") + "]", "per entry: returns an error (or warns in a default: clause) or " + strings.Join(effs, " ") + ": needs NoComplaint"
		}
	}
	if outOnly || abortOnly {
		c.fail("the closure can: %s", strings.Join(ks, ", "))
	}
	switch {
	case exits && onlyContinueOuter && len(effs) == 0 && len(c.bad) == 0:
		return ".anyHit", "no effect; leaves to an outer label on a hit"
	case exits:
		c.fail("leaves the loop early (%s)", strings.Join(s.feats, " "))
		return ".opaque " + q(why()), ""
	case s.cls == "collect-then-sort" && len(c.bad) == 0:
		only := true
		target := ""
		for _, e := range effs {
			if t, ok := strings.CutPrefix(e, "outer:"); ok && target == "" {
				target = t
			} else {
				only = false
			}
		}
		if only && target != "" {
			return ".collectSorted " + q(target), "appends to " + target + ", sorted right after the loop"
		}
		c.fail("collects into a slice but has other effects: %s", strings.Join(effs, " "))
	}
	for _, e := range effs {
		if t, ok := strings.CutPrefix(e, "outer:"); ok {
			c.fail("assigns the captured variable %s", t)
		}
	}
	if len(c.bad) > 0 {
		return ".opaque " + q(why()), ""
	}
	var terms []string
	for _, e := range effs {
		k, v, _ := strings.Cut(e, ":")
		terms = append(terms, "."+k+" "+q(v))
	}
	return ".effects [" + strings.Join(terms, ", ") + "]", strings.Join(effs, " ")
}
