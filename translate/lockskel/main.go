// lockskel — T-gen for C12.
//
// Reads (go/ast, no type information needed) the functions that decide whether a run of drc or
// do-approve holds the per-device lock before it touches anything:
//
//	pkg/drc        Main
//	pkg/doapprove  Main, openHistoryLog, logHistory
//	pkg/device     SetLock, ApproveOrCompare
//
// and writes, per function, EVERY call site, assignment and return in source (= evaluation) order
// as Lean data `List NA.LockSkel.Site` into lean/NA/Gen/LockSkel.lean.  Nothing is filtered here:
// which calls are pure, which are effects and which are unknown is decided by Lean functions in
// NA/Model/LockSkelT.lean, and theorems in NA/Props/C12.lean are proved about this data.
//
// Round 3: graph.go adds the VTA call graph: `writers` per call site, all sink sites, the boundary.
//
// A site is (fn, args, lhs, ctx, writers):
//
//	fn   callee as written (`device.SetLock`, `syscall.Flock`); pseudo callees `return`,
//	     `=`/`:=`/`+=` (assignment without a call on the right), `fallthrough`, `<stmt:T>` for a
//	     statement kind this translator does not understand (breaks the obligations on purpose)
//	args source text of the arguments (results for `return`, right-hand sides for assignments)
//	lhs  source text of the assigned variables (empty for expression statements / nested calls)
//	ctx  enclosing control context, outermost first: `if COND`, `else COND`, `switch TAG`,
//	     `case LIST`, `default`, `for`, `defer`, `go`, `funclit`
//	writers  the writer functions (module functions that create/write/rename/remove a file, start a
//	     process, talk to the device) reachable from the callees of this call in the VTA call graph,
//	     and the sink API itself if this call is one; [] = nothing below this call writes or talks
package main

import (
	"flag"
	"fmt"
	"go/ast"
	"go/parser"
	"go/token"
	"go/types"
	"os"
	"path/filepath"
	"sort"
	"strings"
)

type site struct {
	fn        string
	args, lhs []string
	ctx       []string
	writers   []string
}

type walker struct {
	sites []site
	a     *analysis
	kwPos token.Pos // keyword of the defer/go statement whose call is being walked
}

// consts: the named constants (with a literal value) of the package being walked; they are printed
// by VALUE, so that `path.Join(dir, "lock")` and `path.Join(dir, lockSubdir)` give the same fact.
var consts = map[string]string{}

// collectConsts gathers `const name = literal` declarations of all files of a package directory,
// at package level and inside functions.
func collectConsts(files []*ast.File) map[string]string {
	m := map[string]string{}
	for _, f := range files {
		ast.Inspect(f, func(n ast.Node) bool {
			gd, ok := n.(*ast.GenDecl)
			if !ok || gd.Tok != token.CONST {
				return true
			}
			for _, sp := range gd.Specs {
				vs, ok := sp.(*ast.ValueSpec)
				if !ok || len(vs.Values) != len(vs.Names) {
					continue
				}
				for i, n := range vs.Names {
					if bl, ok := vs.Values[i].(*ast.BasicLit); ok {
						m[n.Name] = bl.Value
					}
				}
			}
			return true
		})
	}
	return m
}

// fold returns e with every identifier that names a constant of the package replaced by its value
// (identifiers in selector position are left alone).
func fold(e ast.Expr) ast.Expr {
	switch x := e.(type) {
	case *ast.Ident:
		if v, ok := consts[x.Name]; ok && x.Name != "_" {
			return &ast.BasicLit{Kind: token.STRING, Value: v}
		}
	case *ast.ParenExpr:
		return &ast.ParenExpr{X: fold(x.X)}
	case *ast.BinaryExpr:
		return &ast.BinaryExpr{X: fold(x.X), Op: x.Op, Y: fold(x.Y)}
	case *ast.UnaryExpr:
		return &ast.UnaryExpr{Op: x.Op, X: fold(x.X)}
	case *ast.StarExpr:
		return &ast.StarExpr{X: fold(x.X)}
	case *ast.CallExpr:
		c := &ast.CallExpr{Fun: x.Fun, Ellipsis: x.Ellipsis}
		if _, isIdent := x.Fun.(*ast.Ident); !isIdent {
			c.Fun = fold(x.Fun)
		}
		for _, a := range x.Args {
			c.Args = append(c.Args, fold(a))
		}
		return c
	case *ast.SelectorExpr:
		return &ast.SelectorExpr{X: fold(x.X), Sel: x.Sel}
	case *ast.IndexExpr:
		return &ast.IndexExpr{X: fold(x.X), Index: fold(x.Index)}
	case *ast.SliceExpr:
		r := &ast.SliceExpr{X: fold(x.X), Slice3: x.Slice3}
		if x.Low != nil {
			r.Low = fold(x.Low)
		}
		if x.High != nil {
			r.High = fold(x.High)
		}
		if x.Max != nil {
			r.Max = fold(x.Max)
		}
		return r
	case *ast.KeyValueExpr:
		return &ast.KeyValueExpr{Key: x.Key, Value: fold(x.Value)}
	case *ast.CompositeLit:
		r := &ast.CompositeLit{Type: x.Type}
		for _, el := range x.Elts {
			r.Elts = append(r.Elts, fold(el))
		}
		return r
	}
	return e
}

func text(e ast.Expr) string { return types.ExprString(fold(e)) }

func texts(l []ast.Expr) []string {
	r := make([]string, len(l))
	for i, e := range l {
		r[i] = text(e)
	}
	return r
}

func (w *walker) emit(fn string, args, lhs, ctx []string) {
	w.sites = append(w.sites, site{fn, args, lhs, append([]string{}, ctx...), nil})
}

func (w *walker) emitCall(x *ast.CallExpr, lhs, ctx []string) {
	w.sites = append(w.sites, site{text(x.Fun), texts(x.Args), lhs, append([]string{}, ctx...),
		w.a.writersAt(x.Lparen, w.kwPos)})
}

// exprCalls emits every call inside e in evaluation order (arguments before the call).
// The outermost call, if e itself is a call, gets lhs.
func (w *walker) exprCalls(e ast.Expr, lhs []string, ctx []string) {
	if e == nil {
		return
	}
	switch x := e.(type) {
	case *ast.CallExpr:
		// callee expression may itself contain calls (method chains)
		w.innerCalls(x.Fun, ctx)
		for _, a := range x.Args {
			w.exprCalls(a, nil, ctx)
		}
		w.emitCall(x, lhs, ctx)
	case *ast.FuncLit:
		w.block(x.Body, append(append([]string{}, ctx...), "funclit"))
	default:
		w.innerCalls(e, ctx)
	}
}

// innerCalls walks a non-call expression and emits the calls below it.
func (w *walker) innerCalls(e ast.Expr, ctx []string) {
	switch x := e.(type) {
	case nil:
	case *ast.CallExpr, *ast.FuncLit:
		w.exprCalls(x, nil, ctx)
	case *ast.ParenExpr:
		w.exprCalls(x.X, nil, ctx)
	case *ast.SelectorExpr:
		w.exprCalls(x.X, nil, ctx)
	case *ast.StarExpr:
		w.exprCalls(x.X, nil, ctx)
	case *ast.UnaryExpr:
		w.exprCalls(x.X, nil, ctx)
	case *ast.BinaryExpr:
		w.exprCalls(x.X, nil, ctx)
		w.exprCalls(x.Y, nil, ctx)
	case *ast.IndexExpr:
		w.exprCalls(x.X, nil, ctx)
		w.exprCalls(x.Index, nil, ctx)
	case *ast.SliceExpr:
		w.exprCalls(x.X, nil, ctx)
		w.exprCalls(x.Low, nil, ctx)
		w.exprCalls(x.High, nil, ctx)
		w.exprCalls(x.Max, nil, ctx)
	case *ast.TypeAssertExpr:
		w.exprCalls(x.X, nil, ctx)
	case *ast.KeyValueExpr:
		w.exprCalls(x.Key, nil, ctx)
		w.exprCalls(x.Value, nil, ctx)
	case *ast.CompositeLit:
		for _, el := range x.Elts {
			w.exprCalls(el, nil, ctx)
		}
	case *ast.Ident, *ast.BasicLit, *ast.ArrayType, *ast.MapType, *ast.StructType, *ast.FuncType,
		*ast.InterfaceType, *ast.ChanType, *ast.Ellipsis:
	default:
		w.emit(fmt.Sprintf("<expr:%T>", e), []string{text(e)}, nil, ctx)
	}
}

func with(ctx []string, more ...string) []string {
	return append(append([]string{}, ctx...), more...)
}

func (w *walker) block(b *ast.BlockStmt, ctx []string) {
	if b == nil {
		return
	}
	for _, s := range b.List {
		w.stmt(s, ctx)
	}
}

func (w *walker) stmt(s ast.Stmt, ctx []string) {
	switch x := s.(type) {
	case nil:
	case *ast.ExprStmt:
		w.exprCalls(x.X, nil, ctx)
	case *ast.AssignStmt:
		lhs := texts(x.Lhs)
		for _, l := range x.Lhs {
			w.innerCalls(l, ctx)
		}
		if len(x.Rhs) == 1 {
			if _, ok := x.Rhs[0].(*ast.CallExpr); ok {
				w.exprCalls(x.Rhs[0], lhs, ctx)
				return
			}
		}
		for _, r := range x.Rhs {
			w.exprCalls(r, nil, ctx)
		}
		w.emit(x.Tok.String(), texts(x.Rhs), lhs, ctx)
	case *ast.DeclStmt:
		gd, ok := x.Decl.(*ast.GenDecl)
		if !ok {
			w.emit("<stmt:decl>", nil, nil, ctx)
			return
		}
		for _, sp := range gd.Specs {
			if vs, ok := sp.(*ast.ValueSpec); ok && len(vs.Values) > 0 {
				names := []string{}
				for _, n := range vs.Names {
					names = append(names, n.Name)
				}
				if len(vs.Values) == 1 {
					if _, ok := vs.Values[0].(*ast.CallExpr); ok {
						w.exprCalls(vs.Values[0], names, ctx)
						continue
					}
				}
				for _, v := range vs.Values {
					w.exprCalls(v, nil, ctx)
				}
				w.emit(":=", texts(vs.Values), names, ctx)
			}
		}
	case *ast.ReturnStmt:
		for _, r := range x.Results {
			w.exprCalls(r, nil, ctx)
		}
		w.emit("return", texts(x.Results), nil, ctx)
	case *ast.IfStmt:
		w.stmt(x.Init, ctx)
		w.exprCalls(x.Cond, nil, ctx)
		cond := text(x.Cond)
		w.block(x.Body, with(ctx, "if "+cond))
		// normal form: after an `if` whose body ends in `return`, an `else` is the fall-through:
		// `if c {…; return a} else {B}` and `if c {…; return a}; B` give the same sites
		ectx := with(ctx, "else "+cond)
		if endsInReturn(x.Body) {
			ectx = ctx
		}
		switch e := x.Else.(type) {
		case nil:
		case *ast.BlockStmt:
			w.block(e, ectx)
		default:
			w.stmt(e, ectx)
		}
	case *ast.SwitchStmt:
		w.stmt(x.Init, ctx)
		if x.Tag == nil {
			// `switch { case c1: A; case c2: B; default: C }` is the chain `if c1 {A} else if c2 {B} else {C}`:
			// same contexts as the chain gives
			cur := ctx
			var deflt *ast.CaseClause
			for _, c := range x.Body.List {
				cc := c.(*ast.CaseClause)
				if cc.List == nil {
					deflt = cc
					continue
				}
				var conds []string
				for _, e := range cc.List {
					w.exprCalls(e, nil, cur)
					conds = append(conds, text(e))
				}
				cond := strings.Join(conds, " || ")
				for _, st := range cc.Body {
					w.stmt(st, with(cur, "if "+cond))
				}
				cur = with(cur, "else "+cond)
			}
			if deflt != nil {
				for _, st := range deflt.Body {
					w.stmt(st, cur)
				}
			}
			return
		}
		w.exprCalls(x.Tag, nil, ctx)
		tag := text(x.Tag)
		// normal form of a dispatch over constants: a clause that only falls through is merged into
		// the next one; a clause that contains `default` is called `default`; `default` first, the others
		// sorted by their (sorted) labels — the order of disjoint constant cases means nothing
		type clause struct {
			labels []string
			deflt  bool
			body   []ast.Stmt
			exprs  []ast.Expr
		}
		var cls []clause
		var pend clause
		constant := true
		for _, c := range x.Body.List {
			cc := c.(*ast.CaseClause)
			if cc.List == nil {
				pend.deflt = true
			}
			for _, e := range cc.List {
				pend.labels = append(pend.labels, text(e))
				pend.exprs = append(pend.exprs, e)
				if _, ok := fold(e).(*ast.BasicLit); !ok {
					constant = false
				}
			}
			if len(cc.Body) == 1 {
				if br, ok := cc.Body[0].(*ast.BranchStmt); ok && br.Tok == token.FALLTHROUGH {
					continue // merged into the next clause
				}
			}
			pend.body = cc.Body
			cls = append(cls, pend)
			pend = clause{}
		}
		for i := range cls {
			sort.Strings(cls[i].labels)
		}
		if constant {
			sort.SliceStable(cls, func(i, j int) bool {
				if cls[i].deflt != cls[j].deflt {
					return cls[i].deflt
				}
				return strings.Join(cls[i].labels, ", ") < strings.Join(cls[j].labels, ", ")
			})
		}
		for _, cl := range cls {
			label := "default"
			if !cl.deflt {
				label = "case " + strings.Join(cl.labels, ", ")
			}
			for _, e := range cl.exprs {
				w.exprCalls(e, nil, with(ctx, "switch "+tag))
			}
			for _, st := range cl.body {
				w.stmt(st, with(ctx, "switch "+tag, label))
			}
		}
	case *ast.ForStmt:
		w.stmt(x.Init, ctx)
		w.exprCalls(x.Cond, nil, with(ctx, "for"))
		w.block(x.Body, with(ctx, "for"))
		w.stmt(x.Post, with(ctx, "for"))
	case *ast.RangeStmt:
		w.exprCalls(x.X, nil, ctx)
		w.block(x.Body, with(ctx, "for"))
	case *ast.DeferStmt:
		w.deferred(x.Call, x.Pos(), with(ctx, "defer"))
	case *ast.GoStmt:
		w.deferred(x.Call, x.Pos(), with(ctx, "go"))
	case *ast.BlockStmt:
		w.block(x, ctx)
	case *ast.BranchStmt:
		if x.Tok == token.FALLTHROUGH {
			w.emit("fallthrough", nil, nil, ctx)
		} else if x.Tok == token.GOTO {
			w.emit("<stmt:goto>", nil, nil, ctx)
		}
	case *ast.IncDecStmt:
		w.innerCalls(x.X, ctx)
	case *ast.EmptyStmt:
	default:
		w.emit(fmt.Sprintf("<stmt:%T>", s), nil, nil, ctx)
	}
}

// deferred: the arguments of a deferred / go call are evaluated now, the call itself is attributed
// by the call graph to the position of the keyword.
func (w *walker) deferred(c *ast.CallExpr, kw token.Pos, ctx []string) {
	w.innerCalls(c.Fun, ctx)
	for _, a := range c.Args {
		w.exprCalls(a, nil, ctx)
	}
	w.kwPos = kw
	w.emitCall(c, nil, ctx)
	w.kwPos = token.NoPos
}

func endsInReturn(b *ast.BlockStmt) bool {
	if b == nil || len(b.List) == 0 {
		return false
	}
	_, ok := b.List[len(b.List)-1].(*ast.ReturnStmt)
	return ok
}

func leanStr(s string) string {
	var b strings.Builder
	b.WriteByte('"')
	for _, r := range s {
		switch {
		case r == '"':
			b.WriteString("\\\"")
		case r == '\\':
			b.WriteString("\\\\")
		case r == '\n':
			b.WriteString("\\n")
		case r == '\t':
			b.WriteString("\\t")
		case r < 0x20 || r == 0x7f:
			fmt.Fprintf(&b, "\\x%02x", r)
		default:
			b.WriteRune(r)
		}
	}
	b.WriteByte('"')
	return b.String()
}

func leanList(l []string) string {
	q := make([]string, len(l))
	for i, s := range l {
		q[i] = leanStr(s)
	}
	return "[" + strings.Join(q, ", ") + "]"
}

type target struct{ pkgDir, fn, leanName string }

var fset = token.NewFileSet()

func findFunc(dir, name string) (*ast.FuncDecl, string, error) {
	files, _ := filepath.Glob(filepath.Join(dir, "*.go"))
	sort.Strings(files)
	var found *ast.FuncDecl
	var where string
	var parsed []*ast.File
	defer func() { consts = collectConsts(parsed) }()
	for _, f := range files {
		if strings.HasSuffix(f, "_test.go") {
			continue
		}
		af, err := parser.ParseFile(fset, f, nil, parser.SkipObjectResolution)
		if err != nil {
			return nil, "", err
		}
		// files guarded by the verif build tag are hooks, never part of the product
		guarded := false
		for _, cg := range af.Comments {
			if cg.Pos() < af.Package && strings.Contains(cg.Text(), "go:build verif") {
				guarded = true
			}
		}
		if guarded {
			continue
		}
		parsed = append(parsed, af)
		for _, d := range af.Decls {
			if fd, ok := d.(*ast.FuncDecl); ok && fd.Recv == nil && fd.Name.Name == name {
				if found != nil {
					return nil, "", fmt.Errorf("function %s declared twice in %s", name, dir)
				}
				found, where = fd, f
			}
		}
	}
	if found == nil {
		// not an error of the translator: the fact for this function is empty, and whatever theorem
		// needs the behaviour it stood for says so
		fmt.Fprintf(os.Stderr, "lockskel: note: no function %s in %s, its site list is empty\n", name, dir)
		return &ast.FuncDecl{Name: ast.NewIdent(name), Type: &ast.FuncType{}, Body: &ast.BlockStmt{}}, "", nil
	}
	return found, where, nil
}

func main() {
	repo := flag.String("repo", "/repo", "checkout of Netspoc-Approve")
	out := flag.String("out", "", "Lean file to write")
	flag.Parse()
	if abs, err := filepath.Abs(*repo); err == nil {
		if r, err := filepath.EvalSymlinks(abs); err == nil {
			*repo = r
		}
	}
	an, err := analyse(*repo, fset)
	if err != nil {
		fmt.Fprintln(os.Stderr, "lockskel:", err)
		os.Exit(1)
	}
	targets := []target{
		{"go/cmd/drc", "main", "cmdDrcMain"},
		{"go/cmd/do-approve", "main", "cmdDoApproveMain"},
		{"go/pkg/drc", "Main", "drcMain"},
		{"go/pkg/doapprove", "Main", "doapproveMain"},
		{"go/pkg/drc", "abort", "drcAbort"},
		{"go/pkg/doapprove", "abort", "doapproveAbort"},
		{"go/pkg/doapprove", "openHistoryLog", "openHistoryLog"},
		{"go/pkg/doapprove", "logHistory", "logHistory"},
		{"go/pkg/device", "SetLock", "setLock"},
		{"go/pkg/device", "ApproveOrCompare", "approveOrCompare"},
	}
	var b strings.Builder
	b.WriteString("import NA.Model.LockSkelT\n")
	b.WriteString("/-! GENERATED by translate/lockskel from the working tree of the repository — do not edit.\n")
	b.WriteString("Every call site, assignment and return of the listed functions in source order. -/\n")
	b.WriteString("namespace NA.Gen.LockSkel\nopen NA.LockSkel\n\n")
	for _, t := range targets {
		fd, _, err := findFunc(filepath.Join(*repo, t.pkgDir), t.fn)
		if err != nil {
			fmt.Fprintln(os.Stderr, "lockskel:", err)
			os.Exit(1)
		}
		w := &walker{a: an}
		w.block(fd.Body, nil)
		params := []string{}
		if fd.Type.Params != nil {
			for _, f := range fd.Type.Params.List {
				for _, n := range f.Names {
					params = append(params, n.Name)
				}
			}
		}
		fmt.Fprintf(&b, "/-- parameters of `%s.%s` -/\ndef %sParams : List String := %s\n\n",
			filepath.Base(t.pkgDir), t.fn, t.leanName, leanList(params))
		fmt.Fprintf(&b, "/-- `%s.%s` -/\ndef %s : List Site := [\n", filepath.Base(t.pkgDir), t.fn, t.leanName)
		for i, s := range w.sites {
			sep := ","
			if i == len(w.sites)-1 {
				sep = ""
			}
			fmt.Fprintf(&b, "  ⟨%s, %s, %s, %s, %s⟩%s\n", leanStr(s.fn), leanList(s.args), leanList(s.lhs), leanList(s.ctx), leanList(s.writers), sep)
		}
		b.WriteString("]\n\n")
	}
	pairs := func(l [][2]string) string {
		q := make([]string, len(l))
		for i, p := range l {
			q[i] = "(" + leanStr(p[0]) + ", " + leanStr(p[1]) + ")"
		}
		return "[\n  " + strings.Join(q, ",\n  ") + "]"
	}
	fmt.Fprintf(&b, "/-- every function outside the module that is called directly from a module function reachable\nfrom `main` of drc or do-approve (VTA call graph): (package or receiver type, name) -/\ndef boundary : List (String × String) := %s\n\n", pairs(an.boundary))
	fmt.Fprintf(&b, "/-- the functions the translator treats as sinks (file creation / write / rename / removal, process\nstart, pty and HTTP dialogue, flock) -/\ndef sinkApis : List (String × String) := %s\n\n", pairs(sinkAPIs))
	b.WriteString("/-- every call of a sink API in a reachable module function: enclosing function, sink, first argument -/\ndef sinkSites : List SinkSite := [\n")
	for i, s := range an.sinks {
		sep := ","
		if i == len(an.sinks)-1 {
			sep = ""
		}
		fmt.Fprintf(&b, "  ⟨%s, %s, %s, %s, %s⟩%s\n", leanStr(s.fn), leanStr(s.owner), leanStr(s.name), leanStr(s.arg0), leanStr(s.cat), sep)
	}
	b.WriteString("]\n\n")
	fmt.Fprintf(&b, "/-- module functions with a loud sink site -/\ndef writerFns : List String := %s\n\n", leanList(an.writerFns()))
	fmt.Fprintf(&b, "/-- writer functions reachable from package initialisers -/\ndef initWriters : List String := %s\n\n", leanList(an.initW))
	fmt.Fprintf(&b, "/-- all `go` statements of the module -/\ndef goStmts : List String := %s\n\n", leanList(an.goStmts))
	b.WriteString("end NA.Gen.LockSkel\n")
	if *out == "" {
		fmt.Print(b.String())
		return
	}
	os.MkdirAll(filepath.Dir(*out), 0755)
	// write only when changed, so that lake does not rebuild needlessly
	if old, err := os.ReadFile(*out); err == nil && string(old) == b.String() {
		return
	}
	if err := os.WriteFile(*out, []byte(b.String()), 0644); err != nil {
		fmt.Fprintln(os.Stderr, "lockskel:", err)
		os.Exit(1)
	}
}
