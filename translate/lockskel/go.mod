module lockskel

go 1.23
