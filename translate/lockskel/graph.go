package main

// Call-graph part of lockskel (round 3).
//
//  1. `callgraph -algo=vta` (pre-built, golang.org/x/tools) on ./cmd/drc ./cmd/do-approve with the
//     position of every call edge.
//  2. R = everything reachable from the two `main` functions (through module and foreign code alike,
//     so that callbacks from the standard library into closures of the module are followed).
//  3. Boundary: every edge from a module function in R to a function outside the module.  The set
//     of distinct foreign callees is emitted (`boundary`); Lean must find each of them either in its
//     table of harmless functions or in the list of sink APIs below (`boundary_closed`), so a call
//     of a foreign function nobody has looked at breaks the tie.
//  4. Sink sites: the boundary edges whose callee is a sink API (creates, writes, renames, removes a
//     file; starts a process; talks to the device over pty or HTTP; flock), each with the enclosing
//     module function and the source text of its first argument (`sinkSites`).  A site is quiet if it
//     prints to os.Stderr / os.Stdout or into a local strings.Builder; Lean re-derives that.
//     Writer functions = module functions with a loud sink site (`writerFns`).
//  5. For every call site of the skeleton functions (main.go) the writer functions reachable from
//     its callees — `Site.writers`.  Empty means: whatever happens below this call, nothing is
//     written and nobody talks to the device.
//  6. Writers reachable from the package initialisers (`initWriters`), and all `go` statements of
//     the module (`goStmts`).

import (
	"bufio"
	"bytes"
	"fmt"
	"go/ast"
	"go/build"
	"go/parser"
	"go/token"
	"go/types"
	"os"
	"os/exec"
	"path/filepath"
	"sort"
	"strconv"
	"strings"
)

const mod = "github.com/hknutzen/Netspoc-Approve/go/"

// sink APIs: (owner, name); owner is a package path or a receiver type
var sinkAPIs = [][2]string{
	{"os", "Mkdir"}, {"os", "MkdirAll"}, {"os", "MkdirTemp"}, {"os", "OpenFile"}, {"os", "Create"}, {"os", "CreateTemp"},
	{"os", "WriteFile"}, {"os", "Rename"}, {"os", "Remove"}, {"os", "RemoveAll"}, {"os", "Symlink"}, {"os", "Link"},
	{"os", "Chmod"}, {"os", "Chown"}, {"os", "Chtimes"}, {"os", "Truncate"}, {"os", "StartProcess"},
	{"*os.File", "Write"}, {"*os.File", "WriteString"}, {"*os.File", "WriteAt"}, {"*os.File", "Truncate"},
	{"*os.File", "ReadFrom"}, {"*os.File", "Chmod"},
	{"fmt", "Fprint"}, {"fmt", "Fprintf"}, {"fmt", "Fprintln"},
	{"io", "WriteString"}, {"io", "Copy"}, {"io", "CopyN"}, {"io", "CopyBuffer"},
	{"*bufio.Writer", "Write"}, {"*bufio.Writer", "WriteString"}, {"*bufio.Writer", "Flush"},
	{"github.com/tailscale/goexpect", "Spawn"}, {"github.com/tailscale/goexpect", "SpawnWithArgs"},
	{"github.com/tailscale/goexpect", "SpawnGeneric"}, {"github.com/tailscale/goexpect", "SpawnSSH"},
	{"*github.com/tailscale/goexpect.GExpect", "Send"}, {"*github.com/tailscale/goexpect.GExpect", "Expect"},
	{"*github.com/tailscale/goexpect.GExpect", "ExpectBatch"}, {"*github.com/tailscale/goexpect.GExpect", "SendSignal"},
	{"*net/http.Client", "Do"}, {"*net/http.Client", "Get"}, {"*net/http.Client", "Post"},
	{"*net/http.Client", "PostForm"}, {"*net/http.Client", "Head"},
	{"net/http", "Get"}, {"net/http", "Post"}, {"net/http", "PostForm"}, {"net/http", "Head"},
	{"net", "Dial"}, {"net", "DialTimeout"},
	{"*os/exec.Cmd", "Run"}, {"*os/exec.Cmd", "Start"}, {"*os/exec.Cmd", "Output"}, {"*os/exec.Cmd", "CombinedOutput"},
	{"syscall", "Flock"}, {"syscall", "Open"}, {"syscall", "Write"}, {"syscall", "Unlink"}, {"syscall", "Rename"},
	{"syscall", "Mkdir"}, {"syscall", "Exec"}, {"syscall", "ForkExec"}, {"syscall", "Dup2"}, {"syscall", "Dup"},
}

// prints to the terminal or into a local buffer
var quietCats = map[string]bool{"write:os.Stderr": true, "write:os.Stdout": true, "write:localvar": true}

// kindOf: what a sink API does.
func kindOf(owner, name string) (kind string, target int) { // target: 0 = first argument, -1 = receiver, -2 = none
	switch {
	case owner == "os" && (name == "Mkdir" || name == "MkdirAll" || name == "MkdirTemp"):
		return "mkdir", 0
	case owner == "os" && (name == "OpenFile" || name == "Create"):
		return "open", 0
	case owner == "os" && name == "CreateTemp":
		return "tempfile", -2
	case owner == "os" && name == "WriteFile":
		return "writefile", 0
	case owner == "os" && name == "Rename":
		return "rename", 0
	case owner == "os" && (name == "Remove" || name == "RemoveAll"):
		return "remove", 0
	case owner == "fmt", owner == "io":
		return "write", 0
	case owner == "*os.File" || owner == "*bufio.Writer":
		return "write", -1
	case strings.HasSuffix(owner, "goexpect") && strings.HasPrefix(name, "Spawn"):
		return "pty-spawn", -2
	case strings.HasSuffix(owner, "goexpect.GExpect") && name == "Send":
		return "pty-send", -2
	case strings.HasSuffix(owner, "goexpect.GExpect"):
		return "pty-expect", -2
	case strings.HasSuffix(owner, "net/http.Client") || owner == "net/http" || owner == "net":
		return "network", -2
	case strings.HasSuffix(owner, "os/exec.Cmd") || (owner == "os" && name == "StartProcess"):
		return "exec", -2
	case owner == "syscall" && name == "Flock":
		return "flock", -2
	}
	return owner + "." + name, -2
}

// category of a sink site = what the API does + where its target comes from.  No function, variable
// or constant NAME enters it: the target expression is followed through the single assignments of the
// enclosing function down to a parameter, a field, a package variable, a directory below the base
// directory (`path.Join(cfg.BaseDir, "status")` -> basedir/status), a temporary file, ….
func category(owner, name string, ci callInfo) string {
	kind, t := kindOf(owner, name)
	consts = ci.consts
	switch {
	case t == 0 && len(ci.call.Args) > 0:
		return kind + ":" + rootOf(ci.call.Args[0], ci.fn, 0)
	case t == -1:
		if sel, ok := ci.call.Fun.(*ast.SelectorExpr); ok {
			return kind + ":" + rootOf(sel.X, ci.fn, 0)
		}
	}
	return kind
}

func isParam(fd *ast.FuncDecl, name string) bool {
	if fd == nil {
		return false
	}
	found := false
	check := func(fl *ast.FieldList) {
		if fl == nil {
			return
		}
		for _, f := range fl.List {
			for _, n := range f.Names {
				if n.Name == name {
					found = true
				}
			}
		}
	}
	check(fd.Recv)
	check(fd.Type.Params)
	ast.Inspect(fd, func(n ast.Node) bool {
		if fl, ok := n.(*ast.FuncLit); ok {
			check(fl.Type.Params)
		}
		return true
	})
	return found
}

// definition of a local variable: the right-hand side of its first assignment, "var" for a
// declaration without value, "range" for a loop variable
func localDef(fd *ast.FuncDecl, name string) (ast.Expr, string) {
	if fd == nil || fd.Body == nil {
		return nil, ""
	}
	var rhs ast.Expr
	kind := ""
	ast.Inspect(fd.Body, func(n ast.Node) bool {
		if kind != "" {
			return false
		}
		switch v := n.(type) {
		case *ast.AssignStmt:
			for i, l := range v.Lhs {
				if id, ok := l.(*ast.Ident); ok && id.Name == name {
					if len(v.Rhs) == len(v.Lhs) {
						rhs, kind = v.Rhs[i], "assign"
					} else if len(v.Rhs) == 1 {
						rhs, kind = v.Rhs[0], "assign"
					}
					return false
				}
			}
		case *ast.ValueSpec:
			for i, id := range v.Names {
				if id.Name == name {
					if i < len(v.Values) {
						rhs, kind = v.Values[i], "assign"
					} else {
						kind = "var"
					}
					return false
				}
			}
		case *ast.RangeStmt:
			for _, e := range []ast.Expr{v.Key, v.Value} {
				if id, ok := e.(*ast.Ident); ok && id.Name == name {
					kind = "range"
					return false
				}
			}
		}
		return true
	})
	return rhs, kind
}

func rootOf(e ast.Expr, fd *ast.FuncDecl, depth int) string {
	if depth > 8 {
		return "deep"
	}
	switch x := fold(e).(type) {
	case *ast.ParenExpr:
		return rootOf(x.X, fd, depth+1)
	case *ast.UnaryExpr:
		return rootOf(x.X, fd, depth+1)
	case *ast.StarExpr:
		return rootOf(x.X, fd, depth+1)
	case *ast.BasicLit:
		return "literal"
	case *ast.BinaryExpr:
		return rootOf(x.X, fd, depth+1)
	case *ast.Ident:
		if x.Name == "nil" {
			return "nil"
		}
		if isParam(fd, x.Name) {
			return "param"
		}
		rhs, kind := localDef(fd, x.Name)
		switch kind {
		case "assign":
			return rootOf(rhs, fd, depth+1)
		case "var":
			return "localvar"
		case "range":
			return "range"
		}
		return "global"
	case *ast.SelectorExpr:
		if id, ok := x.X.(*ast.Ident); ok && (id.Name == "os") && (x.Sel.Name == "Stderr" || x.Sel.Name == "Stdout") {
			return "os." + x.Sel.Name
		}
		if x.Sel.Name == "BaseDir" {
			return "basedir"
		}
		return rootOf(x.X, fd, depth+1) + ".field"
	case *ast.CallExpr:
		fn := types.ExprString(x.Fun)
		switch fn {
		case "path.Join", "filepath.Join":
			if len(x.Args) == 0 {
				return "literal"
			}
			r := rootOf(x.Args[0], fd, depth+1)
			if r == "basedir" && len(x.Args) > 1 {
				if bl, ok := fold(x.Args[1]).(*ast.BasicLit); ok {
					return "basedir/" + strings.Trim(bl.Value, "\"`")
				}
				return "basedir/*"
			}
			return r
		case "path.Dir", "filepath.Dir", "path.Clean", "filepath.Clean", "fmt.Sprintf", "fmt.Sprint", "string":
			for _, a := range x.Args {
				if _, lit := fold(a).(*ast.BasicLit); !lit {
					return rootOf(a, fd, depth+1)
				}
			}
			return "literal"
		case "os.CreateTemp":
			return "tempfile"
		}
		if sel, ok := x.Fun.(*ast.SelectorExpr); ok && sel.Sel.Name == "Name" && len(x.Args) == 0 {
			return rootOf(sel.X, fd, depth+1)
		}
		return "call"
	}
	return "expr"
}

type edge struct {
	caller, callee string
	file           string
	line, col      int
}

type graph struct {
	adj   map[string][]string
	edges []edge
	at    map[string][]string // "file:line:col" -> callees
}

func short(n string) string {
	return strings.ReplaceAll(strings.ReplaceAll(n, mod+"pkg/", ""), mod, "")
}

// ownerName splits a call-graph node name into (package or receiver type, function name).
func ownerName(n string) (string, string) {
	if strings.HasPrefix(n, "(") {
		if i := strings.Index(n, ")."); i > 0 {
			return n[1:i], n[i+2:]
		}
	}
	if i := strings.Index(n, "["); i > 0 { // instantiated generic
		n = n[:i]
	}
	if i := strings.LastIndex(n, "."); i > 0 {
		return n[:i], n[i+1:]
	}
	return "", n
}

func loadGraph(goDir string) (*graph, error) {
	cmd := exec.Command("callgraph", "-algo=vta",
		"-format={{.Caller}}\t{{.Callee}}\t{{.Filename}}\t{{.Line}}\t{{.Column}}", "./cmd/drc", "./cmd/do-approve")
	cmd.Dir = goDir
	var errb bytes.Buffer
	cmd.Stderr = &errb
	data, err := cmd.Output()
	if err != nil {
		return nil, fmt.Errorf("callgraph: %v\n%s", err, errb.String())
	}
	g := &graph{adj: map[string][]string{}, at: map[string][]string{}}
	seen := map[string]bool{}
	sc := bufio.NewScanner(bytes.NewReader(data))
	sc.Buffer(make([]byte, 1<<20), 1<<24)
	for sc.Scan() {
		f := strings.Split(sc.Text(), "\t")
		if len(f) != 5 {
			continue
		}
		line, _ := strconv.Atoi(f[3])
		col, _ := strconv.Atoi(f[4])
		e := edge{f[0], f[1], f[2], line, col}
		g.edges = append(g.edges, e)
		if k := f[0] + "\x00" + f[1]; !seen[k] {
			seen[k] = true
			g.adj[f[0]] = append(g.adj[f[0]], f[1])
		}
		if f[2] != "" {
			k := fmt.Sprintf("%s:%d:%d", f[2], line, col)
			g.at[k] = append(g.at[k], f[1])
		}
	}
	if len(g.edges) < 1000 {
		return nil, fmt.Errorf("call graph suspiciously small: %d edges", len(g.edges))
	}
	return g, nil
}

func (g *graph) reach(roots ...string) map[string]bool {
	seen := map[string]bool{}
	stack := append([]string{}, roots...)
	for len(stack) > 0 {
		v := stack[len(stack)-1]
		stack = stack[:len(stack)-1]
		if seen[v] {
			continue
		}
		seen[v] = true
		stack = append(stack, g.adj[v]...)
	}
	return seen
}

type callInfo struct {
	arg0   string
	call   *ast.CallExpr
	fn     *ast.FuncDecl     // enclosing function declaration (nil at package level)
	consts map[string]string // named constants of its package
}

type sinkSite struct {
	cat                   string // category: what kind of thing is written / talked to (see category)
	fn, owner, name, arg0 string
	quiet                 bool
	line                  int
}

type analysis struct {
	g         *graph
	fset      *token.FileSet
	calls     map[string]callInfo // "file:line:col" (Lparen, or the defer/go keyword) -> first argument
	sinks     []sinkSite
	loudAt    map[string]string // position -> sink name of a loud sink site
	writers   map[string]bool   // writer functions (node names)
	boundary  [][2]string
	goStmts   []string
	initW     []string
	reachMemo map[string][]string
}

func isModule(n string) bool { return strings.Contains(n, mod) }

func analyse(repo string, fset *token.FileSet) (*analysis, error) {
	goDir := filepath.Join(repo, "go")
	g, err := loadGraph(goDir)
	if err != nil {
		return nil, err
	}
	a := &analysis{g: g, fset: fset, calls: map[string]callInfo{}, loudAt: map[string]string{},
		writers: map[string]bool{}, reachMemo: map[string][]string{}}
	roots := []string{mod + "cmd/drc.main", mod + "cmd/do-approve.main"}
	for _, r := range roots {
		if len(g.adj[r]) == 0 {
			return nil, fmt.Errorf("root %s is not a node of the call graph", r)
		}
	}
	R := g.reach(roots...)

	// ---- AST of the whole module: every call with its enclosing function, `go` statements
	byDir := map[string][]*ast.File{}
	var dirs []string
	for _, sub := range []string{"pkg", "cmd"} {
		err := filepath.Walk(filepath.Join(goDir, sub), func(p string, info os.FileInfo, err error) error {
			if err != nil || info.IsDir() || !strings.HasSuffix(p, ".go") || strings.HasSuffix(p, "_test.go") {
				return nil
			}
			// files excluded by build constraints (the add-only `verif` hooks) are not part of the program
			if ok, err := build.Default.MatchFile(filepath.Dir(p), filepath.Base(p)); err != nil || !ok {
				return nil
			}
			f, err := parser.ParseFile(fset, p, nil, parser.SkipObjectResolution)
			if err != nil {
				return err
			}
			d := filepath.Dir(p)
			if byDir[d] == nil {
				dirs = append(dirs, d)
			}
			byDir[d] = append(byDir[d], f)
			return nil
		})
		if err != nil {
			return nil, err
		}
	}
	key := func(pos token.Pos) string {
		ps := fset.Position(pos)
		return fmt.Sprintf("%s:%d:%d", ps.Filename, ps.Line, ps.Column)
	}
	for _, d := range dirs {
		cm := collectConsts(byDir[d])
		consts = cm
		arg0 := func(c *ast.CallExpr) string {
			if len(c.Args) == 0 {
				return ""
			}
			return text(c.Args[0])
		}
		for _, f := range byDir[d] {
			var cur *ast.FuncDecl
			ast.Inspect(f, func(n ast.Node) bool {
				switch v := n.(type) {
				case *ast.FuncDecl:
					cur = v
				case *ast.CallExpr:
					a.calls[key(v.Lparen)] = callInfo{arg0(v), v, cur, cm}
				case *ast.DeferStmt:
					a.calls[key(v.Pos())] = callInfo{arg0(v.Call), v.Call, cur, cm}
				case *ast.GoStmt:
					a.calls[key(v.Pos())] = callInfo{arg0(v.Call), v.Call, cur, cm}
					ps := fset.Position(v.Pos())
					rel, _ := filepath.Rel(goDir, ps.Filename)
					a.goStmts = append(a.goStmts, fmt.Sprintf("%s:%d", rel, ps.Line))
				}
				return true
			})
		}
	}
	sort.Strings(a.goStmts)

	// ---- boundary and sink sites
	isSink := map[[2]string]bool{}
	for _, s := range sinkAPIs {
		isSink[s] = true
	}
	bset := map[[2]string]bool{}
	sseen := map[string]bool{}
	for _, e := range g.edges {
		if !R[e.caller] || !isModule(e.caller) || isModule(e.callee) {
			continue
		}
		o, n := ownerName(e.callee)
		bset[[2]string{o, n}] = true
		if !isSink[[2]string{o, n}] {
			continue
		}
		pos := fmt.Sprintf("%s:%d:%d", e.file, e.line, e.col)
		k := e.caller + "\x00" + e.callee + "\x00" + pos
		if sseen[k] {
			continue
		}
		sseen[k] = true
		ci, ok := a.calls[pos]
		if !ok {
			return nil, fmt.Errorf("sink call %s -> %s at %s: no call expression found there", e.caller, e.callee, pos)
		}
		s := sinkSite{fn: short(e.caller), owner: o, name: n, arg0: ci.arg0, line: e.line}
		s.cat = category(o, n, ci)
		s.quiet = quietCats[s.cat]
		a.sinks = append(a.sinks, s)
		if !s.quiet {
			a.writers[e.caller] = true
			a.loudAt[pos] = o + "." + n
		}
	}
	sort.Slice(a.sinks, func(i, j int) bool {
		x, y := a.sinks[i], a.sinks[j]
		if x.fn != y.fn {
			return x.fn < y.fn
		}
		if x.line != y.line {
			return x.line < y.line
		}
		return x.owner+x.name < y.owner+y.name
	})
	for b := range bset {
		a.boundary = append(a.boundary, b)
	}
	sort.Slice(a.boundary, func(i, j int) bool {
		if a.boundary[i][0] != a.boundary[j][0] {
			return a.boundary[i][0] < a.boundary[j][0]
		}
		return a.boundary[i][1] < a.boundary[j][1]
	})

	// ---- package initialisers
	var inits []string
	for n := range g.adj {
		if isModule(n) {
			if _, name := ownerName(n); name == "init" || strings.HasPrefix(name, "init#") {
				inits = append(inits, n)
			}
		}
	}
	for n := range g.reach(inits...) {
		if a.writers[n] {
			a.initW = append(a.initW, short(n))
		}
	}
	sort.Strings(a.initW)
	return a, nil
}

// writersFrom: writer functions reachable from node n (n included).
func (a *analysis) writersFrom(n string) []string {
	if r, ok := a.reachMemo[n]; ok {
		return r
	}
	var res []string
	for m := range a.g.reach(n) {
		if a.writers[m] {
			res = append(res, short(m))
		}
	}
	sort.Strings(res)
	a.reachMemo[n] = res
	return res
}

// writersAt: for the call at one of the given positions (Lparen; keyword of a defer/go statement):
// the sink it is itself, if loud, and the writer functions reachable from its callees.
func (a *analysis) writersAt(positions ...token.Pos) []string {
	set := map[string]bool{}
	for _, p := range positions {
		if !p.IsValid() {
			continue
		}
		ps := a.fset.Position(p)
		k := fmt.Sprintf("%s:%d:%d", ps.Filename, ps.Line, ps.Column)
		if s, ok := a.loudAt[k]; ok {
			set[s] = true
		}
		for _, c := range a.g.at[k] {
			for _, w := range a.writersFrom(c) {
				set[w] = true
			}
		}
	}
	res := []string{}
	for s := range set {
		res = append(res, s)
	}
	sort.Strings(res)
	return res
}

func (a *analysis) writerFns() []string {
	var l []string
	for n := range a.writers {
		l = append(l, short(n))
	}
	sort.Strings(l)
	return l
}
