module vpnignored

go 1.23
