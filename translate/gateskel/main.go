// gateskel: T-gen for properties C06 and C11.
//
// Reads the working tree of the repository with go/parser (no type checking) and emits
// lean/NA/Gen/GateSkel.lean:
//
//   - functions   for a fixed list of functions (orchestration in pkg/device, the front ends
//     drc.Main / doapprove.Main, every backend's LoadDevice with its helpers,
//     GetErrUnmanaged, checkBanner, checkDeviceName, checkHA, checkUnmanaged …)
//     the ordered, depth-annotated skeleton of what they do:
//     (depth, kind, text) with kind ∈ send | call | abort | assign | ret | if | else |
//     for | switch | case | defer | closure.
//     Statements without any send/call/abort/watched assignment/return are dropped;
//     everything else appears in source order (calls inside a condition before the `if`).
//   - errUnmanagedWrites   every assignment to a field `errUnmanaged` anywhere in go/pkg
//     (function, statement text).
//   - gateImpls   every method named GetErrUnmanaged in go/pkg with its return expression.
//
// A function of the list that is missing, or a statement kind the walker does not know and
// that contains a call, is an error (exit 1): a construct the translator does not
// understand breaks the tie, it is never skipped.
package main

import (
	"bytes"
	"flag"
	"fmt"
	"go/ast"
	"go/parser"
	"go/printer"
	"go/token"
	"os"
	"path/filepath"
	"sort"
	"strconv"
	"strings"
)

type item struct {
	depth int
	kind  string
	text  string
}

type target struct {
	file string // relative to go/pkg
	recv string // "" or receiver type name
	name string
	rets bool // emit return statements
	// front end (drc.Main, doapprove.Main): every switch is shown completely (all clauses, also
	// empty ones, `fallthrough`, the returns inside), every flag definition is shown
	front bool
}

var targets = []target{
	{"device/main.go", "", "ApproveOrCompare", true, false},
	{"device/main.go", "", "CompareFiles", true, false},
	{"device/main.go", "state", "approve", true, false},
	{"device/main.go", "state", "compare", true, false},
	{"device/main.go", "state", "compareDevice", true, false},
	{"device/main.go", "state", "loadDevice", true, false},
	{"device/main.go", "state", "applyCommands", true, false},
	{"device/main.go", "state", "getCompare", true, false},
	{"drc/main.go", "", "Main", false, true},
	{"doapprove/main.go", "", "Main", false, true},
	{"program/config.go", "", "LoadConfig", true, true},
	{"cisco/device.go", "State", "LoginEnable", true, false},
	{"cisco/device.go", "State", "checkBanner", true, false},
	{"cisco/device.go", "State", "GetErrUnmanaged", true, false},
	{"asa/device.go", "State", "LoadDevice", true, false},
	{"asa/device.go", "State", "setTerminal", true, false},
	{"asa/device.go", "State", "logVersion", true, false},
	{"asa/device.go", "State", "checkDeviceName", true, false},
	{"ios/device.go", "State", "LoadDevice", true, false},
	{"ios/device.go", "State", "setTerminal", true, false},
	{"ios/device.go", "State", "logVersion", true, false},
	{"ios/device.go", "State", "checkDeviceName", true, false},
	{"linux/device.go", "State", "LoadDevice", true, false},
	{"linux/device.go", "State", "loginEnable", true, false},
	{"linux/device.go", "State", "logVersion", true, false},
	{"linux/device.go", "State", "checkDeviceName", true, false},
	{"linux/device.go", "State", "checkBanner", true, false},
	{"linux/device.go", "State", "getDeviceRoutes", true, false},
	{"linux/device.go", "State", "getDeviceIPTables", true, false},
	{"linux/device.go", "State", "GetErrUnmanaged", true, false},
	{"linux/device.go", "State", "GetChanges", true, false},
	{"panos/device.go", "State", "LoadDevice", true, false},
	{"panos/device.go", "State", "getAPIKey", true, false},
	{"panos/device.go", "State", "checkHA", true, false},
	{"panos/device.go", "State", "GetChanges", true, false},
	{"panos/device.go", "State", "checkUnmanaged", true, false},
	{"panos/device.go", "State", "GetErrUnmanaged", true, false},
	{"panos/device.go", "State", "httpPrefixGetLog", true, false},
	{"panos/device.go", "State", "httpGet", true, false},
	{"panos/config.go", "PanConfig", "checkDeviceName", true, false},
	{"nsx/device.go", "State", "LoadDevice", true, false},
	{"nsx/device.go", "State", "getRawJSON", true, false},
	{"nsx/device.go", "State", "sendRequest", true, false},
	{"nsx/device.go", "State", "GetErrUnmanaged", true, false},
	{"nsx/device.go", "State", "GetChanges", true, false},
	{"httpdevice/device.go", "", "TryReachableHTTPLogin", true, false},
	{"cisco/diff.go", "State", "GetChanges", true, false},
}

// Primitives that put something on the wire (or wait for the device); number of leading
// arguments that are shown.
var sendPrims = map[string]int{
	"WaitLogin": 1, "WaitShort": 1, "IssueCmd": 2, "SendCmd": 1, "GetCmdOutput": 1, "Send": 1,
	"GetOutput": 0, "TryPrompt": 0,
	"httpPrefixGetLog": 1, "httpGet": 1, "sendRequest": 2, "PostForm": 1, "Get": 1, "Do": 1,
}

// Calls that are noise for the skeleton: pure library helpers and logging.
var noisePkgs = map[string]bool{
	"strings": true, "fmt": true, "regexp": true, "errors": true, "os": true, "url": true, "xml": true,
	"json": true, "path": true, "filepath": true, "time": true, "io": true, "bytes": true, "slices": true,
	"maps": true, "strconv": true, "cookiejar": true, "codefiles": true, "mytime": true, "http": true,
	"pflag": true, "exec": true,
}
var noiseFuncs = map[string]bool{
	"append": true, "len": true, "new": true, "make": true, "string": true, "panic": true, "recover": true,
	"byte": true, "copy": true, "int": true, "any": true,
}
var noiseQualified = map[string]bool{
	"errlog.Info": true, "errlog.DoLog": true, "errlog.SetStderrLog": true, "errlog.MoveLogFile": true,
	"errlog.CreateWithPath": true,
}

// Receivers whose methods are library calls (regexps, flag sets, builders, HTTP plumbing).
var noiseRecv = map[string]bool{
	"rx": true, "re": true, "fs": true, "params": true, "base": true, "v": true, "resp": true,
	"passRE": true, "keyRE": true, "apiRE": true, "collect": true, "jar": true, "req": true,
	"bannerRe": true, "u": true, "logFH": true, "fh": true, "hLog": true, "lockFH": true,
	"cmd": true, "file": true, "w": true, "ha": true, "j": true,
}

// Calls shown with their complete argument list.
var fullArgs = map[string]bool{
	"device.ApproveOrCompare": true, "device.CompareFiles": true, "errlog.HandleAbort": false,
}

// Assignments that are kept (text of the left-hand side).
var watch = map[string]bool{
	"bannerLines": true, "s.errUnmanaged": true, "devName": true, "isCompare": true, "action": true,
	"logFile": true, "out": true, "lines": true, "stdPrompt": true, "passPrompt": true, "name": true, "c.CheckBanner": true, "err": false,
}

// additionally watched in the front ends and in LoadConfig
var frontWatch = map[string]bool{"words": true, "key": true}

var problems []string

func problem(format string, a ...any) { problems = append(problems, fmt.Sprintf(format, a...)) }

var fset = token.NewFileSet()

func text(n ast.Node) string {
	var buf bytes.Buffer
	printer.Fprint(&buf, fset, n)
	t := strings.Join(strings.Fields(buf.String()), " ")
	t = strings.ReplaceAll(t, "( ", "(")
	t = strings.ReplaceAll(t, ", }", " }")
	t = strings.ReplaceAll(t, ", )", ")")
	return t
}

type ex struct {
	items    []item
	rets     bool
	front    bool
	inSwitch int
	closures map[string]bool
	fn       string
}

func (x *ex) emit(d int, kind, txt string) { x.items = append(x.items, item{d, kind, txt}) }

func (x *ex) sub(f func()) []item {
	save := x.items
	x.items = nil
	f()
	got := x.items
	x.items = save
	return got
}

// assignText: the statement text; a call of a wire primitive on the right-hand side (whose item
// precedes) is abbreviated to <reply>.
func assignText(v *ast.AssignStmt) string {
	if len(v.Rhs) != 1 {
		return text(v)
	}
	lhs := make([]string, len(v.Lhs))
	for i, l := range v.Lhs {
		lhs[i] = text(l)
	}
	return strings.Join(lhs, ", ") + " " + v.Tok.String() + " " + abbrevExpr(v.Rhs[0])
}

func abbrevExpr(e ast.Expr) string {
	if c, ok := e.(*ast.CallExpr); ok {
		qual, name := calleeName(c.Fun)
		if sendPrimOf(qual, name) >= 0 {
			return "<reply>"
		}
		if qual == "strings" || qual == "" {
			args := make([]string, len(c.Args))
			for i, a := range c.Args {
				args[i] = abbrevExpr(a)
			}
			return text(c.Fun) + "(" + strings.Join(args, ", ") + ")"
		}
	}
	return text(e)
}

func argText(e ast.Expr) string {
	if bl, ok := e.(*ast.BasicLit); ok && bl.Kind == token.STRING {
		s, err := strconv.Unquote(bl.Value)
		if err == nil {
			return "\"" + s + "\""
		}
	}
	return text(e)
}

func calleeName(fun ast.Expr) (qual, name string) {
	switch f := fun.(type) {
	case *ast.Ident:
		return "", f.Name
	case *ast.SelectorExpr:
		return text(f.X), f.Sel.Name
	case *ast.ParenExpr:
		return calleeName(f.X)
	}
	return "?", text(fun)
}

func (x *ex) call(c *ast.CallExpr, d int) {
	// arguments first (evaluated before the call); function literals after the call item
	var lits []*ast.FuncLit
	for _, a := range c.Args {
		if fl, ok := a.(*ast.FuncLit); ok {
			lits = append(lits, fl)
			continue
		}
		x.expr(a, d)
	}
	if sel, ok := c.Fun.(*ast.SelectorExpr); ok {
		x.expr(sel.X, d)
	}
	switch c.Fun.(type) {
	case *ast.ArrayType, *ast.MapType, *ast.InterfaceType:
		return // conversion
	}
	qual, name := calleeName(c.Fun)
	q := name
	if qual != "" {
		q = qual + "." + name
	}
	switch {
	case name == "Abort" && (qual == "errlog" || qual == ""):
		if len(c.Args) == 0 {
			problem("%s: Abort without format", x.fn)
		} else {
			x.emit(d, "abort", strings.Trim(argText(c.Args[0]), "\""))
		}
	case sendPrimOf(qual, name) >= 0:
		n := sendPrimOf(qual, name)
		parts := []string{name}
		for i := 0; i < n && i < len(c.Args); i++ {
			parts = append(parts, argText(c.Args[i]))
		}
		x.emit(d, "send", strings.Join(parts, " "))
	case noiseFuncs[q] || noiseQualified[q]:
	case qual != "" && (noisePkgs[qual] || noiseRecv[qual]):
	case qual != "" && strings.Contains(qual, ".") && noiseRecv[strings.SplitN(qual, ".", 2)[0]]:
	default:
		if full, ok := fullArgs[q]; ok && full {
			x.emit(d, "call", text(c))
		} else if qual == "device" || qual == "status" || qual == "program" || qual == "httpdevice" || qual == "console" {
			x.emit(d, "call", q)
		} else {
			x.emit(d, "call", name)
		}
	}
	for _, fl := range lits {
		x.emit(d, "closure", "")
		x.stmts(fl.Body.List, d+1)
	}
}

// sendPrimOf: -1 if (qual,name) is not a wire primitive, else the number of shown arguments.
// `Get`/`Do`/`PostForm` count only on an HTTP client receiver.
func sendPrimOf(qual, name string) int {
	n, ok := sendPrims[name]
	if !ok {
		return -1
	}
	switch name {
	case "Get", "Do", "PostForm":
		if !strings.HasSuffix(qual, "client") {
			return -1
		}
	case "Send":
		if !(strings.HasSuffix(qual, "Conn") || strings.HasSuffix(qual, "conn") || strings.HasSuffix(qual, "con")) {
			return -1
		}
	}
	return n
}

func (x *ex) expr(e ast.Expr, d int) {
	if e == nil {
		return
	}
	switch v := e.(type) {
	case *ast.CallExpr:
		x.call(v, d)
	case *ast.FuncLit:
		x.emit(d, "closure", "")
		x.stmts(v.Body.List, d+1)
	case *ast.BinaryExpr:
		x.expr(v.X, d)
		x.expr(v.Y, d)
	case *ast.UnaryExpr:
		x.expr(v.X, d)
	case *ast.ParenExpr:
		x.expr(v.X, d)
	case *ast.StarExpr:
		x.expr(v.X, d)
	case *ast.SelectorExpr:
		x.expr(v.X, d)
	case *ast.IndexExpr:
		x.expr(v.X, d)
		x.expr(v.Index, d)
	case *ast.SliceExpr:
		x.expr(v.X, d)
		x.expr(v.Low, d)
		x.expr(v.High, d)
	case *ast.TypeAssertExpr:
		x.expr(v.X, d)
	case *ast.CompositeLit:
		for _, el := range v.Elts {
			x.expr(el, d)
		}
	case *ast.KeyValueExpr:
		x.expr(v.Value, d)
	case *ast.Ident, *ast.BasicLit, *ast.ArrayType, *ast.MapType, *ast.StructType, *ast.FuncType, *ast.InterfaceType:
	default:
		problem("%s: expression kind %T not understood: %s", x.fn, e, text(e))
	}
}

func (x *ex) stmts(l []ast.Stmt, d int) {
	for _, s := range l {
		x.stmt(s, d)
	}
}

func (x *ex) stmt(s ast.Stmt, d int) {
	switch v := s.(type) {
	case nil:
	case *ast.ExprStmt:
		x.expr(v.X, d)
	case *ast.AssignStmt:
		if len(v.Rhs) == 1 && len(v.Lhs) == 1 {
			if fl, ok := v.Rhs[0].(*ast.FuncLit); ok {
				name := text(v.Lhs[0])
				x.closures[name] = true
				x.emit(d, "closure", name)
				x.stmts(fl.Body.List, d+1)
				return
			}
		}
		for _, r := range v.Rhs {
			x.expr(r, d)
		}
		emitted := false
		for _, l := range v.Lhs {
			if watch[text(l)] || (x.front && frontWatch[text(l)]) {
				x.emit(d, "assign", assignText(v))
				emitted = true
				break
			}
		}
		if x.front && !emitted && len(v.Rhs) == 1 {
			// flag definitions: x := fs.BoolP(…), fs.StringP(…)
			if c, ok := v.Rhs[0].(*ast.CallExpr); ok {
				if q, _ := calleeName(c.Fun); q == "fs" {
					x.emit(d, "assign", text(v))
				}
			}
		}
	case *ast.DeclStmt:
		if gd, ok := v.Decl.(*ast.GenDecl); ok {
			for _, sp := range gd.Specs {
				if vs, ok := sp.(*ast.ValueSpec); ok {
					for _, val := range vs.Values {
						x.expr(val, d)
					}
					for _, n := range vs.Names {
						if watch[n.Name] && len(vs.Values) > 0 {
							x.emit(d, "assign", text(vs))
						}
					}
				}
			}
		}
	case *ast.IfStmt:
		x.stmt(v.Init, d)
		x.expr(v.Cond, d)
		body := x.sub(func() { x.stmts(v.Body.List, d+1) })
		var els []item
		if v.Else != nil {
			els = x.sub(func() {
				switch e := v.Else.(type) {
				case *ast.BlockStmt:
					x.stmts(e.List, d+1)
				default:
					x.stmt(e, d+1)
				}
			})
		}
		if len(body)+len(els) == 0 {
			return
		}
		x.emit(d, "if", text(v.Cond))
		x.items = append(x.items, body...)
		if len(els) > 0 {
			x.emit(d, "else", "")
			x.items = append(x.items, els...)
		}
	case *ast.ForStmt:
		x.stmt(v.Init, d)
		x.expr(v.Cond, d)
		body := x.sub(func() { x.stmts(v.Body.List, d+1); x.stmt(v.Post, d+1) })
		if len(body) == 0 {
			return
		}
		hdr := ""
		if v.Cond != nil {
			hdr = text(v.Cond)
		}
		x.emit(d, "for", hdr)
		x.items = append(x.items, body...)
	case *ast.RangeStmt:
		x.expr(v.X, d)
		body := x.sub(func() { x.stmts(v.Body.List, d+1) })
		if len(body) == 0 {
			return
		}
		x.emit(d, "for", "range "+text(v.X))
		x.items = append(x.items, body...)
	case *ast.ReturnStmt:
		for _, r := range v.Results {
			x.expr(r, d)
		}
		rets := x.rets || (x.front && x.inSwitch > 0)
		if rets && len(v.Results) == 0 {
			x.emit(d, "ret", "")
		}
		if rets && len(v.Results) > 0 {
			parts := make([]string, len(v.Results))
			for i, r := range v.Results {
				if c, ok := r.(*ast.CallExpr); ok {
					// the call item precedes; keep the text short (string predicates are kept in full)
					q, n := calleeName(c.Fun)
					if q == "strings" {
						parts[i] = text(r)
					} else {
						parts[i] = n + "(…)"
					}
				} else {
					parts[i] = text(r)
				}
			}
			x.emit(d, "ret", strings.Join(parts, ", "))
		}
	case *ast.DeferStmt:
		body := x.sub(func() { x.call(v.Call, d+1) })
		if len(body) > 0 {
			x.emit(d, "defer", "")
			x.items = append(x.items, body...)
		}
	case *ast.SwitchStmt:
		x.stmt(v.Init, d)
		x.expr(v.Tag, d)
		type cl struct {
			hdr   string
			items []item
		}
		var cls []cl
		for _, c := range v.Body.List {
			cc := c.(*ast.CaseClause)
			hdr := "default"
			if cc.List != nil {
				parts := []string{}
				for _, e := range cc.List {
					parts = append(parts, text(e))
				}
				hdr = strings.Join(parts, ", ")
			}
			x.inSwitch++
			its := x.sub(func() { x.stmts(cc.Body, d+2) })
			x.inSwitch--
			if len(its) > 0 || x.front {
				cls = append(cls, cl{hdr, its})
			}
		}
		if len(cls) == 0 {
			return
		}
		tag := ""
		if v.Tag != nil {
			tag = text(v.Tag)
		}
		x.emit(d, "switch", tag)
		for _, c := range cls {
			x.emit(d+1, "case", c.hdr)
			x.items = append(x.items, c.items...)
		}
	case *ast.BlockStmt:
		x.stmts(v.List, d)
	case *ast.BranchStmt:
		if x.front && x.inSwitch > 0 && v.Tok == token.FALLTHROUGH {
			x.emit(d, "fallthrough", "")
		}
	case *ast.IncDecStmt, *ast.EmptyStmt:
	case *ast.LabeledStmt:
		x.stmt(v.Stmt, d)
	case *ast.TypeSwitchStmt, *ast.GoStmt, *ast.SelectStmt, *ast.SendStmt:
		its := x.sub(func() {
			ast.Inspect(v, func(n ast.Node) bool {
				if c, ok := n.(*ast.CallExpr); ok {
					x.call(c, d)
				}
				return true
			})
		})
		if len(its) > 0 {
			problem("%s: statement kind %T containing calls is not understood: %s", x.fn, s, text(s))
		}
	default:
		problem("%s: statement kind %T not understood", x.fn, s)
	}
}

func leanStr(s string) string {
	var b strings.Builder
	b.WriteByte('"')
	for _, r := range s {
		switch r {
		case '"':
			b.WriteString("\\\"")
		case '\\':
			b.WriteString("\\\\")
		case '\n':
			b.WriteString("\\n")
		case '\t':
			b.WriteString("\\t")
		case '\r':
			b.WriteString("\\r")
		default:
			if r < 32 || r == 127 {
				fmt.Fprintf(&b, "\\x%02x", r)
			} else {
				b.WriteRune(r)
			}
		}
	}
	b.WriteByte('"')
	return b.String()
}

func recvName(fd *ast.FuncDecl) string {
	if fd.Recv == nil || len(fd.Recv.List) == 0 {
		return ""
	}
	t := fd.Recv.List[0].Type
	if st, ok := t.(*ast.StarExpr); ok {
		t = st.X
	}
	return text(t)
}

func main() {
	repo := flag.String("repo", "/repo", "repository root")
	out := flag.String("out", "", "Lean file to write (default stdout)")
	flag.Parse()
	pkgRoot := filepath.Join(*repo, "go", "pkg")

	files := map[string]*ast.File{}
	parse := func(rel string) *ast.File {
		if f, ok := files[rel]; ok {
			return f
		}
		f, err := parser.ParseFile(fset, filepath.Join(pkgRoot, rel), nil, parser.SkipObjectResolution)
		if err != nil {
			problem("parse %s: %v", rel, err)
			return nil
		}
		files[rel] = f
		return f
	}

	type fnOut struct {
		key   string
		items []item
	}
	var outs []fnOut
	for _, t := range targets {
		f := parse(t.file)
		if f == nil {
			continue
		}
		var found *ast.FuncDecl
		for _, d := range f.Decls {
			if fd, ok := d.(*ast.FuncDecl); ok && fd.Name.Name == t.name && recvName(fd) == t.recv && fd.Body != nil {
				found = fd
			}
		}
		pkg := filepath.Dir(t.file)
		key := pkg + "." + t.name
		if t.recv != "" {
			key = pkg + ".(*" + t.recv + ")." + t.name
		}
		if found == nil {
			problem("function %s not found in %s", key, t.file)
			continue
		}
		x := &ex{rets: t.rets, front: t.front, closures: map[string]bool{}, fn: key}
		x.stmts(found.Body.List, 0)
		outs = append(outs, fnOut{key, x.items})
	}

	// every write to a field errUnmanaged and every GetErrUnmanaged implementation in go/pkg
	type kv struct{ k, v string }
	var writes, gates []kv
	var goFiles []string
	filepath.Walk(pkgRoot, func(p string, info os.FileInfo, err error) error {
		if err == nil && !info.IsDir() && strings.HasSuffix(p, ".go") && !strings.HasSuffix(p, "_test.go") {
			goFiles = append(goFiles, p)
		}
		return nil
	})
	sort.Strings(goFiles)
	for _, p := range goFiles {
		rel, _ := filepath.Rel(pkgRoot, p)
		// hook files of the verification machinery are add-only exports; they are scanned too
		f := parse(rel)
		if f == nil {
			continue
		}
		pkg := filepath.Dir(rel)
		for _, d := range f.Decls {
			fd, ok := d.(*ast.FuncDecl)
			if !ok || fd.Body == nil {
				continue
			}
			key := pkg + "." + fd.Name.Name
			if r := recvName(fd); r != "" {
				key = pkg + ".(*" + r + ")." + fd.Name.Name
			}
			ast.Inspect(fd.Body, func(n ast.Node) bool {
				switch v := n.(type) {
				case *ast.AssignStmt:
					for _, l := range v.Lhs {
						if strings.HasSuffix(text(l), "errUnmanaged") {
							writes = append(writes, kv{key, text(v)})
						}
					}
				case *ast.UnaryExpr:
					if v.Op == token.AND && strings.HasSuffix(text(v.X), "errUnmanaged") {
						problem("%s: address of errUnmanaged taken", key)
					}
				}
				return true
			})
			if fd.Name.Name == "GetErrUnmanaged" {
				if len(fd.Body.List) == 1 {
					if rs, ok := fd.Body.List[0].(*ast.ReturnStmt); ok && len(rs.Results) == 1 {
						gates = append(gates, kv{key, text(rs.Results[0])})
						continue
					}
				}
				gates = append(gates, kv{key, "<complex body>"})
			}
		}
	}

	if len(problems) > 0 {
		for _, p := range problems {
			fmt.Fprintln(os.Stderr, "gateskel:", p)
		}
		os.Exit(1)
	}

	var b strings.Builder
	b.WriteString("/- GENERATED by translate/gateskel from the Go source of go/pkg — do not edit, not committed. -/\n")
	b.WriteString("namespace NA.Gen.GateSkel\n\n")
	b.WriteString("/-- (depth, kind, text) -/\nabbrev Item := Nat × String × String\n\n")
	b.WriteString("def functions : List (String × List Item) := [\n")
	for i, o := range outs {
		fmt.Fprintf(&b, "  (%s, [", leanStr(o.key))
		for j, it := range o.items {
			if j > 0 {
				b.WriteString(",")
			}
			fmt.Fprintf(&b, "\n    (%d, %s, %s)", it.depth, leanStr(it.kind), leanStr(it.text))
		}
		b.WriteString("])")
		if i+1 < len(outs) {
			b.WriteString(",")
		}
		b.WriteString("\n")
	}
	b.WriteString("]\n\n")
	wr := func(name string, l []kv) {
		fmt.Fprintf(&b, "def %s : List (String × String) := [", name)
		for i, e := range l {
			if i > 0 {
				b.WriteString(",")
			}
			fmt.Fprintf(&b, "\n  (%s, %s)", leanStr(e.k), leanStr(e.v))
		}
		b.WriteString("]\n\n")
	}
	wr("errUnmanagedWrites", writes)
	wr("gateImpls", gates)
	b.WriteString("end NA.Gen.GateSkel\n")

	if *out == "" {
		fmt.Print(b.String())
		return
	}
	tmp := *out + ".tmp"
	os.MkdirAll(filepath.Dir(*out), 0755)
	if old, err := os.ReadFile(*out); err == nil && string(old) == b.String() {
		return // unchanged: keep the time stamp, lake need not rebuild
	}
	if err := os.WriteFile(tmp, []byte(b.String()), 0644); err != nil {
		fmt.Fprintln(os.Stderr, err)
		os.Exit(1)
	}
	if err := os.Rename(tmp, *out); err != nil {
		fmt.Fprintln(os.Stderr, err)
		os.Exit(1)
	}
}
