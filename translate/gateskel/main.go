// gateskel: T-gen for properties C06 and C11.
//
// Loads go/pkg/... of the repository with go/packages (syntax + types) and emits
// lean/NA/Gen/GateSkel.lean:
//
//   - functions   for a fixed list of functions (orchestration in pkg/device, the front ends
//     drc.Main / doapprove.Main, program.LoadConfig, every backend's LoadDevice with its helpers,
//     GetErrUnmanaged, checkBanner, checkDeviceName, checkHA, checkUnmanaged …) the ordered,
//     depth-annotated skeleton of what they do: (depth, kind, text) with kind ∈ send | call |
//     warn | abort | assign | ret | if | else | guard | for | switch | case | fallthrough |
//     defer | closure.
//   - errUnmanagedWrites   every assignment to a field `errUnmanaged` anywhere in go/pkg.
//   - gateImpls   every method named GetErrUnmanaged in go/pkg with its return expression.
//
// The skeleton is a NORMAL FORM of the meaning-relevant structure, not source text:
//
//   - calls are resolved by TYPE.  Wire primitives (methods of console.Conn, of net/http.Client
//     and of goexpect, the three HTTP helpers of panos / nsx) → send; errlog.Abort → abort;
//     errlog.Warning → warn; calls of listed functions stay as `call name`; any other module
//     function is looked into: if neither it nor anything it can call (interface methods: every
//     implementation in the module) sends or writes a watched field it is PURE and the call is
//     dropped; if it is impure and the callee is unique its skeleton is INLINED at the call site;
//     impure interface calls with several implementations stay as `call name`; calls of function
//     values stay as `call <canonical name>`.
//   - identifiers: receiver → recv, parameters → p1, p2 …, parameters of the k-th closure →
//     c<k>p<i>, local closures → f1, f2 …, every variable of type error → err; a local that is
//     defined exactly once by a cheap expression (literals, selectors, indexing, strings.* /
//     path.* calls, flag definitions, Regexp.String) over stable operands is replaced by that
//     expression; a local assigned from a wire primitive → r1, r2 …, every other local → v1, v2 …
//     (both numbered in the order of first appearance in the finished skeleton).
//   - constants are folded (named constants, "a" + "b", raw and interpreted literals alike).
//   - assignments are shown by ROLE (a slice of the data flow): the left side is a watched field
//     (errUnmanaged, CheckBanner), or (front ends) a variable passed into pkg/device, or the
//     right side carries data from the device (mentions a reply variable, directly or through
//     other assignments) AND the left side is used by something that is shown (a condition, a
//     request, an argument of a kept call, a returned value, another shown assignment).
//   - control flow: an `if` with a terminating branch (return, Abort, panic, continue, break)
//     becomes `guard <condition of the terminating branch>` + that branch, the other branch
//     continues at the same depth (`if c {return}; X` ≡ `if !c {X}` ≡ `if c {return} else {X}`);
//     an if/else without terminating branch is printed with the positive condition first
//     (`if !c {A} else {B}` ≡ `if c {B} else {A}`); conditions are in negation normal form for
//     comparisons (`!(a == b)` ≡ `a != b`); statements without shown content disappear.
//
// Round 2 (docs/ROBUST2_BRIEF.md) added:
//
//   - dispatch: `switch [tag] {…}` is walked as the if / else-if chain it abbreviates (`case a, b` =
//     `tag == a || tag == b`; a clause that only falls through lends its tests to the next one;
//     `default` is the final else wherever it stands); a chain — or a run of `if x == c {…return}`
//     statements — whose tests compare ONE expression with pairwise different constants is sorted by
//     the printed test, branches that show nothing are left out when the final else shows nothing;
//     `else { if … }` prints as `elif`.  With terminating branches this gives one guard per branch.
//   - loops: `if c {A; continue}; REST` ≡ `if c {A} else {REST}` (likewise with a bare return in a
//     function without results); a trailing `continue` / bare `return` is dropped; `if c {} else {B}`
//     ≡ `if !c {B}`.
//   - `x := f(…); return x` (x used nowhere else) ≡ `return f(…)`; `len(s) == 0` ≡ `s == ""`,
//     `len(s) != 0` ≡ `len(s) > 0` ≡ `s != ""` for strings.
//   - an impure helper called as a statement (`L… = h(…)`, `return h(…)`, `h(…)`) is walked in the
//     CONTEXT of the call: parameters / receiver stand for the argument texts, its locals are numbered
//     together with the caller's, a local it only hands back with its final return stands for the
//     caller's left side (assumes the left side was empty before — documented limit), a `return …,
//     err` inside it is the caller's own return when the caller propagates the error unchanged right
//     after the call (that `if err != nil {return …, err}` is then not shown a second time).  So
//     extracting such a helper or inlining it by hand gives the same skeleton, guards included.
//
// A function of the list that is missing, a package that does not type-check, or a statement
// kind the walker does not know and that contains a call, is an error (exit 1).
package main

import (
	"bytes"
	"flag"
	"fmt"
	"go/ast"
	"go/constant"
	"go/printer"
	"go/token"
	"go/types"
	"os"
	"path/filepath"
	"regexp"
	"sort"
	"strconv"
	"strings"

	"golang.org/x/tools/go/packages"
	"golang.org/x/tools/go/types/typeutil"
)

type target struct {
	pkg   string
	recv  string
	name  string
	rets  bool // emit return statements
	front bool // front end: switches completely, returns inside them
}

var targets = []target{
	{"device", "", "ApproveOrCompare", true, false},
	{"device", "", "CompareFiles", true, false},
	{"device", "state", "approve", true, false},
	{"device", "state", "compare", true, false},
	{"device", "state", "compareDevice", true, false},
	{"device", "state", "loadDevice", true, false},
	{"device", "state", "applyCommands", true, false},
	{"device", "state", "getCompare", true, false},
	{"drc", "", "Main", false, true},
	{"doapprove", "", "Main", false, true},
	{"program", "", "LoadConfig", true, true},
	{"cisco", "State", "LoginEnable", true, false},
	{"cisco", "State", "checkBanner", true, false},
	{"cisco", "State", "GetErrUnmanaged", true, false},
	{"asa", "State", "LoadDevice", true, false},
	{"asa", "State", "setTerminal", true, false},
	{"asa", "State", "logVersion", true, false},
	{"asa", "State", "checkDeviceName", true, false},
	{"ios", "State", "LoadDevice", true, false},
	{"ios", "State", "setTerminal", true, false},
	{"ios", "State", "logVersion", true, false},
	{"ios", "State", "checkDeviceName", true, false},
	{"linux", "State", "LoadDevice", true, false},
	{"linux", "State", "loginEnable", true, false},
	{"linux", "State", "logVersion", true, false},
	{"linux", "State", "checkDeviceName", true, false},
	{"linux", "State", "checkBanner", true, false},
	{"linux", "State", "getDeviceRoutes", true, false},
	{"linux", "State", "getDeviceIPTables", true, false},
	{"linux", "State", "GetErrUnmanaged", true, false},
	{"linux", "State", "GetChanges", true, false},
	{"panos", "State", "LoadDevice", true, false},
	{"panos", "State", "getAPIKey", true, false},
	{"panos", "State", "checkHA", true, false},
	{"panos", "State", "GetChanges", true, false},
	{"panos", "State", "checkUnmanaged", true, false},
	{"panos", "State", "GetErrUnmanaged", true, false},
	{"panos", "State", "httpPrefixGetLog", true, false},
	{"panos", "State", "httpGet", true, false},
	{"panos", "PanConfig", "checkDeviceName", true, false},
	{"nsx", "State", "LoadDevice", true, false},
	{"nsx", "State", "getRawJSON", true, false},
	{"nsx", "State", "sendRequest", true, false},
	{"nsx", "State", "GetErrUnmanaged", true, false},
	{"nsx", "State", "GetChanges", true, false},
	{"httpdevice", "", "TryReachableHTTPLogin", true, false},
	{"cisco", "State", "GetChanges", true, false},
}

// Module functions that put something on the wire (or wait for the device): "pkg.Recv.Name" →
// number of leading arguments that are shown.
var modulePrims = map[string]int{
	"console.Conn.WaitLogin": 1, "console.Conn.WaitShort": 1, "console.Conn.IssueCmd": 2, "console.Conn.SendCmd": 1,
	"console.Conn.GetCmdOutput": 1, "console.Conn.Send": 1, "console.Conn.GetOutput": 0, "console.Conn.TryPrompt": 0,
	"panos.State.httpPrefixGetLog": 1, "panos.State.httpGet": 1, "nsx.State.sendRequest": 2,
}

// fields whose assignment is always shown
var watchedFields = map[string]bool{"errUnmanaged": true, "CheckBanner": true}

// calls into pkg/device that are shown with all their arguments (front ends)
var fullArgs = map[string]bool{"device.ApproveOrCompare": true, "device.CompareFiles": true}

var problems []string

func problem(format string, a ...any) { problems = append(problems, fmt.Sprintf(format, a...)) }

var fset *token.FileSet

func rawText(n ast.Node) string {
	var buf bytes.Buffer
	printer.Fprint(&buf, fset, n)
	return strings.Join(strings.Fields(buf.String()), " ")
}

// ---------------------------------------------------------------- index of the module

type fnInfo struct {
	pkg, recv, name string
	decl            *ast.FuncDecl
	info            *types.Info
	obj             *types.Func
	listed          bool
	impure          int // 0 unknown, 1 visiting, 2 pure, 3 impure
}

func (fi *fnInfo) key() string {
	if fi.recv != "" {
		return fi.pkg + ".(*" + fi.recv + ")." + fi.name
	}
	return fi.pkg + "." + fi.name
}

var (
	declOf     = map[*types.Func]*fnInfo{}
	allFns     []*fnInfo
	namedTypes []*types.Named // named types declared in go/pkg
)

func relPkg(path string) (string, bool) {
	i := strings.LastIndex(path, "/go/pkg/")
	if i < 0 {
		return "", false
	}
	return path[i+len("/go/pkg/"):], true
}

func recvTypeName(f *types.Func) (pkgPath, name string) {
	sig, ok := f.Type().(*types.Signature)
	if !ok || sig.Recv() == nil {
		return "", ""
	}
	t := sig.Recv().Type()
	if p, ok := t.(*types.Pointer); ok {
		t = p.Elem()
	}
	if n, ok := t.(*types.Named); ok {
		if n.Obj().Pkg() != nil {
			return n.Obj().Pkg().Path(), n.Obj().Name()
		}
		return "", n.Obj().Name()
	}
	return "", ""
}

// wirePrim: is the callee a wire primitive?  Returns its shown name and number of shown arguments.
func wirePrim(f *types.Func) (string, int, bool) {
	if f == nil || f.Pkg() == nil {
		return "", 0, false
	}
	path := f.Pkg().Path()
	_, rn := recvTypeName(f)
	if rel, ok := relPkg(path); ok {
		if n, ok := modulePrims[rel+"."+rn+"."+f.Name()]; ok {
			return f.Name(), n, true
		}
		return "", 0, false
	}
	if path == "net/http" && rn == "Client" {
		switch f.Name() {
		case "Get", "Do", "PostForm", "Post", "Head":
			return f.Name(), 1, true
		}
	}
	if strings.HasSuffix(path, "/goexpect") {
		switch {
		case strings.HasPrefix(f.Name(), "Spawn"):
			return f.Name(), 0, true
		case rn == "GExpect" && f.Name() == "Send":
			return f.Name(), 1, true
		case rn == "GExpect" && strings.HasPrefix(f.Name(), "Expect"):
			return f.Name(), 0, true
		}
	}
	return "", 0, false
}

func staticCallee(info *types.Info, c *ast.CallExpr) *types.Func {
	if f, ok := typeutil.Callee(info, c).(*types.Func); ok {
		return f.Origin()
	}
	return nil
}

func isIfaceMethod(f *types.Func) *types.Interface {
	sig, ok := f.Type().(*types.Signature)
	if !ok || sig.Recv() == nil {
		return nil
	}
	if it, ok := sig.Recv().Type().Underlying().(*types.Interface); ok {
		return it
	}
	return nil
}

// implementations of an interface method in the module
func implementations(f *types.Func, it *types.Interface) []*fnInfo {
	seen := map[*fnInfo]bool{}
	var out []*fnInfo
	for _, n := range namedTypes {
		if types.IsInterface(n) {
			continue
		}
		var recv types.Type = types.NewPointer(n)
		if !types.Implements(recv, it) {
			continue
		}
		sel := types.NewMethodSet(recv).Lookup(f.Pkg(), f.Name())
		if sel == nil {
			continue
		}
		m, ok := sel.Obj().(*types.Func)
		if !ok {
			continue
		}
		if fi := declOf[m.Origin()]; fi != nil && !seen[fi] {
			seen[fi] = true
			out = append(out, fi)
		}
	}
	sort.Slice(out, func(i, j int) bool { return out[i].key() < out[j].key() })
	return out
}

// callees: module functions a call can reach.  dynamic: an interface call.
func callees(info *types.Info, c *ast.CallExpr) (cands []*fnInfo, dynamic bool) {
	f := staticCallee(info, c)
	if f == nil {
		return nil, false
	}
	if it := isIfaceMethod(f); it != nil {
		return implementations(f, it), true
	}
	if fi := declOf[f]; fi != nil {
		return []*fnInfo{fi}, false
	}
	return nil, false
}

// replySource: the value of the call comes (or may come) from the device: a wire primitive, or a
// module helper that is inlined because it reaches one.
func replySource(info *types.Info, c *ast.CallExpr) bool {
	f := staticCallee(info, c)
	if _, _, ok := wirePrim(f); ok {
		return true
	}
	if f == nil || isAbort(f) || isWarning(f) {
		return false
	}
	cands, dynamic := callees(info, c)
	return !dynamic && len(cands) == 1 && !cands[0].listed && isImpure(cands[0])
}

func isAbort(f *types.Func) bool {
	if f == nil || f.Pkg() == nil {
		return false
	}
	rel, ok := relPkg(f.Pkg().Path())
	return ok && rel == "errlog" && f.Name() == "Abort"
}

func isWarning(f *types.Func) bool {
	if f == nil || f.Pkg() == nil {
		return false
	}
	rel, ok := relPkg(f.Pkg().Path())
	return ok && rel == "errlog" && f.Name() == "Warning"
}

func isImpure(fi *fnInfo) bool {
	switch fi.impure {
	case 1, 2:
		return false // 1: cycle, decided by the rest
	case 3:
		return true
	}
	fi.impure = 1
	res := false
	ast.Inspect(fi.decl.Body, func(n ast.Node) bool {
		if res {
			return false
		}
		switch v := n.(type) {
		case *ast.CallExpr:
			if _, _, ok := wirePrim(staticCallee(fi.info, v)); ok {
				res = true
				return false
			}
			cands, _ := callees(fi.info, v)
			for _, c := range cands {
				if isImpure(c) {
					res = true
					return false
				}
			}
		case *ast.AssignStmt:
			for _, l := range v.Lhs {
				if sel, ok := l.(*ast.SelectorExpr); ok && watchedFields[sel.Sel.Name] {
					res = true
					return false
				}
			}
		}
		return true
	})
	if res {
		fi.impure = 3
	} else {
		fi.impure = 2
	}
	return res
}

// ---------------------------------------------------------------- naming context of one function

type fctx struct {
	fi       *fnInfo
	info     *types.Info
	fixed    map[types.Object]string // recv, parameters, closure parameters, closures
	defs     map[types.Object]int
	mut      map[loc]int // in-place updates (x.f = …, x[i] = …, &x)
	anyMut   map[types.Object]bool
	rhs      map[types.Object]ast.Expr
	reply    map[types.Object]bool
	tainted  map[loc]bool
	anyTaint map[types.Object]bool
	argVars  map[types.Object]bool
	lazy     []types.Object
	lazyIdx  map[types.Object]int
	nclosure int
	nfn      int
	expand   map[types.Object]bool
	// printing the body of a one-liner: parameters stand for argument texts (with their precedence)
	fixedPrec map[types.Object]int
	inlining  int
	uses      map[types.Object]int // how often a variable is read
	// inlined helper: names (placeholders, closure numbers) are those of the function it is inlined into
	root  *fctx
	alias map[types.Object]bool // locals of the helper that stand for the caller's left side
}

func (fc *fctx) rt() *fctx {
	if fc.root != nil {
		return fc.root.rt()
	}
	return fc
}

// loc: a variable, or one field of a variable (access paths of length ≤ 1)
type loc struct {
	o types.Object
	f string
}

// locOf: the location an assignable expression updates.
func (fc *fctx) locOf(e ast.Expr) (loc, bool) {
	field := ""
	for {
		switch v := e.(type) {
		case *ast.Ident:
			if v.Name == "_" {
				return loc{}, false
			}
			o := fc.obj(v)
			if o == nil {
				return loc{}, false
			}
			return loc{o, field}, true
		case *ast.SelectorExpr:
			field = v.Sel.Name
			e = v.X
		case *ast.IndexExpr:
			field = ""
			e = v.X
		case *ast.SliceExpr:
			field = ""
			e = v.X
		case *ast.StarExpr:
			e = v.X
		case *ast.ParenExpr:
			e = v.X
		default:
			return loc{}, false
		}
	}
}

// reads: the locations an expression reads (closures are not entered).
func (fc *fctx) reads(e ast.Node, f func(loc)) {
	var visit func(n ast.Node) bool
	visit = func(n ast.Node) bool {
		switch v := n.(type) {
		case *ast.FuncLit:
			return false
		case *ast.SelectorExpr:
			if id, ok := v.X.(*ast.Ident); ok {
				if o := fc.obj(id); o != nil && fc.isLocal(o) {
					f(loc{o, v.Sel.Name})
					return false
				}
			}
			ast.Inspect(v.X, visit)
			return false
		case *ast.KeyValueExpr:
			ast.Inspect(v.Value, visit)
			return false
		case *ast.Ident:
			if o := fc.obj(v); o != nil && fc.isLocal(o) {
				f(loc{o, ""})
			}
		}
		return true
	}
	ast.Inspect(e, visit)
}

func (fc *fctx) isTainted(l loc) bool {
	return fc.tainted[l] || fc.tainted[loc{l.o, ""}] || (l.f == "" && fc.anyTaint[l.o])
}

func (fc *fctx) readsTainted(e ast.Node) bool {
	found := false
	fc.reads(e, func(l loc) {
		if fc.isTainted(l) {
			found = true
		}
	})
	return found
}

func (fc *fctx) stable(l loc) bool {
	if fc.defs[l.o] > 1 || fc.reply[l.o] {
		return false
	}
	if fc.mut[l] > 0 || fc.mut[loc{l.o, ""}] > 0 {
		return false
	}
	return l.f != "" || !fc.anyMut[l.o]
}

func (fc *fctx) obj(id *ast.Ident) types.Object {
	if o := fc.info.Uses[id]; o != nil {
		return o
	}
	return fc.info.Defs[id]
}

func (fc *fctx) isLocal(o types.Object) bool {
	v, ok := o.(*types.Var)
	if !ok || v.IsField() || v.Pkg() == nil {
		return false
	}
	return v.Parent() != v.Pkg().Scope()
}

func rootIdent(e ast.Expr) *ast.Ident {
	for {
		switch v := e.(type) {
		case *ast.Ident:
			return v
		case *ast.SelectorExpr:
			e = v.X
		case *ast.IndexExpr:
			e = v.X
		case *ast.StarExpr:
			e = v.X
		case *ast.ParenExpr:
			e = v.X
		case *ast.SliceExpr:
			e = v.X
		default:
			return nil
		}
	}
}

func (fc *fctx) containsWire(e ast.Node) bool {
	found := false
	ast.Inspect(e, func(n ast.Node) bool {
		switch v := n.(type) {
		case *ast.FuncLit:
			return false
		case *ast.CallExpr:
			if replySource(fc.info, v) {
				found = true
			}
		}
		return !found
	})
	return found
}

// outParams: arguments of a call through which the callee hands data back (&x, and the
// target of Unmarshal / Decode); ins: the other arguments.
func (fc *fctx) outParams(c *ast.CallExpr) (outs []ast.Expr, ins []ast.Expr) {
	last := -1
	if f := staticCallee(fc.info, c); f != nil && f.Pkg() != nil && strings.HasPrefix(f.Pkg().Path(), "encoding/") &&
		(f.Name() == "Unmarshal" || f.Name() == "Decode") {
		last = len(c.Args) - 1
	}
	for i, a := range c.Args {
		if u, ok := a.(*ast.UnaryExpr); ok && u.Op == token.AND {
			outs = append(outs, u.X)
		} else if i == last {
			outs = append(outs, a)
		} else {
			ins = append(ins, a)
		}
	}
	return
}

func newCtx(fi *fnInfo) *fctx {
	fd := fi.decl
	fc := &fctx{fi: fi, info: fi.info, fixed: map[types.Object]string{}, defs: map[types.Object]int{}, rhs: map[types.Object]ast.Expr{},
		mut: map[loc]int{}, anyMut: map[types.Object]bool{}, anyTaint: map[types.Object]bool{},
		reply: map[types.Object]bool{}, tainted: map[loc]bool{}, argVars: map[types.Object]bool{},
		lazyIdx: map[types.Object]int{}, expand: map[types.Object]bool{}}
	if fd.Recv != nil && len(fd.Recv.List) > 0 && len(fd.Recv.List[0].Names) > 0 {
		fc.fixed[fc.info.Defs[fd.Recv.List[0].Names[0]]] = "recv"
	}
	i := 0
	for _, f := range fd.Type.Params.List {
		for _, n := range f.Names {
			i++
			if o := fc.info.Defs[n]; o != nil {
				fc.fixed[o] = fmt.Sprintf("p%d", i)
			}
		}
	}
	mutate := func(e ast.Expr) {
		if l, ok := fc.locOf(e); ok {
			fc.mut[l]++
			fc.anyMut[l.o] = true
		}
	}
	def := func(l ast.Expr, r ast.Expr, n int) {
		id, ok := l.(*ast.Ident)
		if !ok {
			mutate(l)
			return
		}
		if id.Name == "_" {
			return
		}
		o := fc.obj(id)
		if o == nil {
			return
		}
		fc.defs[o] += n
		fc.rhs[o] = r
	}
	type flow struct {
		lhs []loc
		rhs []ast.Node
	}
	var flows []flow
	addFlow := func(lhs []ast.Expr, rhs []ast.Node) {
		var ls []loc
		for _, l := range lhs {
			if lc, ok := fc.locOf(l); ok {
				ls = append(ls, lc)
			}
		}
		flows = append(flows, flow{ls, rhs})
	}
	fc.uses = map[types.Object]int{}
	ast.Inspect(fd.Body, func(n ast.Node) bool {
		if id, ok := n.(*ast.Ident); ok {
			if o := fc.info.Uses[id]; o != nil {
				fc.uses[o]++
			}
		}
		return true
	})
	ast.Inspect(fd.Body, func(n ast.Node) bool {
		switch v := n.(type) {
		case *ast.AssignStmt:
			extra := 1
			if v.Tok != token.DEFINE && v.Tok != token.ASSIGN {
				extra = 2
			}
			if len(v.Lhs) == len(v.Rhs) {
				for i := range v.Lhs {
					def(v.Lhs[i], v.Rhs[i], extra)
					addFlow([]ast.Expr{v.Lhs[i]}, []ast.Node{v.Rhs[i]})
					if fc.containsWire(v.Rhs[i]) {
						if id, ok := v.Lhs[i].(*ast.Ident); ok && id.Name != "_" {
							fc.reply[fc.obj(id)] = true
						}
					}
				}
			} else {
				for _, l := range v.Lhs {
					def(l, nil, extra)
				}
				rs := []ast.Node{}
				for _, r := range v.Rhs {
					rs = append(rs, r)
				}
				addFlow(v.Lhs, rs)
				if len(v.Rhs) == 1 && fc.containsWire(v.Rhs[0]) {
					if id, ok := v.Lhs[0].(*ast.Ident); ok && id.Name != "_" {
						fc.reply[fc.obj(id)] = true
					}
				}
			}
		case *ast.ValueSpec:
			for i, id := range v.Names {
				if len(v.Values) == len(v.Names) {
					def(id, v.Values[i], 1)
					addFlow([]ast.Expr{id}, []ast.Node{v.Values[i]})
				} else {
					def(id, nil, 2) // zero value, assigned later
				}
			}
		case *ast.RangeStmt:
			var lhs []ast.Expr
			for _, e := range []ast.Expr{v.Key, v.Value} {
				if e != nil {
					// a loop variable is stable within one iteration (unless assigned in the body)
					def(e, nil, 1)
					lhs = append(lhs, e)
				}
			}
			addFlow(lhs, []ast.Node{v.X})
		case *ast.IncDecStmt:
			def(v.X, nil, 2)
		case *ast.CallExpr:
			if f := staticCallee(fc.info, v); f != nil && f.Pkg() != nil {
				if rel, ok := relPkg(f.Pkg().Path()); ok && fullArgs[rel+"."+f.Name()] {
					for _, a := range v.Args {
						ast.Inspect(a, func(m ast.Node) bool {
							if id, ok := m.(*ast.Ident); ok {
								if o := fc.obj(id); o != nil {
									fc.argVars[o] = true
								}
							}
							return true
						})
					}
				}
			}
			outs, ins := fc.outParams(v)
			if len(outs) > 0 {
				var in []ast.Node
				for _, a := range ins {
					in = append(in, a)
				}
				addFlow(outs, in)
				for _, o := range outs {
					mutate(o)
				}
			}
		}
		return true
	})
	for o := range fc.reply {
		fc.tainted[loc{o, ""}] = true
	}
	for changed := true; changed; {
		changed = false
		for _, f := range flows {
			t := false
			for _, r := range f.rhs {
				if fc.containsWire(r) || fc.readsTainted(r) {
					t = true
				}
			}
			if !t {
				continue
			}
			for _, l := range f.lhs {
				if !fc.tainted[l] {
					fc.tainted[l] = true
					fc.anyTaint[l.o] = true
					changed = true
				}
			}
		}
	}
	return fc
}

// cheap: an expression that may replace the single-assignment local it defines.
func (fc *fctx) cheap(e ast.Expr) bool {
	if tv, ok := fc.info.Types[e]; ok && tv.Value != nil {
		return true
	}
	switch v := e.(type) {
	case *ast.BasicLit:
		return true
	case *ast.Ident:
		o := fc.obj(v)
		if o == nil {
			return true
		}
		if fc.isLocal(o) {
			return fc.stable(loc{o, ""}) // stable operand
		}
		_, isVar := o.(*types.Var)
		return !isVar // constants, functions, packages, nil … ; package variables may change
	case *ast.ParenExpr:
		return fc.cheap(v.X)
	case *ast.StarExpr:
		return fc.cheap(v.X)
	case *ast.UnaryExpr:
		return v.Op != token.AND && v.Op != token.ARROW && fc.cheap(v.X)
	case *ast.BinaryExpr:
		return fc.cheap(v.X) && fc.cheap(v.Y)
	case *ast.SelectorExpr:
		if _, ok := fc.info.Selections[v]; !ok {
			// qualified identifier pkg.X
			o := fc.info.Uses[v.Sel]
			_, isVar := o.(*types.Var)
			return !isVar
		}
		if id, ok := v.X.(*ast.Ident); ok {
			if o := fc.obj(id); o != nil && fc.isLocal(o) {
				return fc.stable(loc{o, v.Sel.Name})
			}
		}
		return fc.cheap(v.X)
	case *ast.IndexExpr:
		return fc.cheap(v.X) && fc.cheap(v.Index)
	case *ast.SliceExpr:
		return fc.cheap(v.X) && (v.Low == nil || fc.cheap(v.Low)) && (v.High == nil || fc.cheap(v.High)) && v.Max == nil
	case *ast.CallExpr:
		ok := false
		if tv, isT := fc.info.Types[v.Fun]; isT && tv.IsType() {
			ok = true // conversion
		} else if id, isID := v.Fun.(*ast.Ident); isID {
			if _, isB := fc.obj(id).(*types.Builtin); isB && id.Name == "len" {
				ok = true
			}
		}
		if f := staticCallee(fc.info, v); f != nil && oneLiner(declOf[f], 0) != nil {
			ok = true
		}
		if f := staticCallee(fc.info, v); f != nil && f.Pkg() != nil {
			pp, rn := recvTypeName(f)
			switch {
			case rn == "" && (f.Pkg().Path() == "strings" || f.Pkg().Path() == "path" || f.Pkg().Path() == "path/filepath"):
				ok = f.Name() != "EvalSymlinks" && f.Name() != "Abs" && f.Name() != "Glob" && f.Name() != "Walk" && f.Name() != "WalkDir"
			case rn == "FlagSet" && strings.HasSuffix(pp, "/pflag") && strings.HasSuffix(f.Name(), "P"):
				ok = true
			case rn == "Regexp" && pp == "regexp" && f.Name() == "String":
				ok = true
			}
			if ok && rn != "FlagSet" {
				if sel, isSel := v.Fun.(*ast.SelectorExpr); isSel && rn != "" && !fc.cheap(sel.X) {
					ok = false
				}
			}
		}
		if !ok {
			return false
		}
		for _, a := range v.Args {
			if !fc.cheap(a) {
				return false
			}
		}
		return true
	}
	return false
}

func (fc *fctx) single(o types.Object) ast.Expr {
	if o == nil || !fc.isLocal(o) || fc.defs[o] != 1 || fc.reply[o] || fc.fixed[o] != "" {
		return nil
	}
	r := fc.rhs[o]
	if r == nil {
		return nil
	}
	if _, isFn := r.(*ast.FuncLit); isFn {
		return nil
	}
	if !fc.cheap(r) {
		return nil
	}
	return r
}

func isErrorType(t types.Type) bool {
	return t != nil && types.Identical(t, types.Universe.Lookup("error").Type())
}

func (fc *fctx) placeholder(o types.Object) string {
	r := fc.rt()
	i, ok := r.lazyIdx[o]
	if !ok {
		i = len(r.lazy)
		r.lazy = append(r.lazy, o)
		r.lazyIdx[o] = i
		if fc.reply[o] {
			r.reply[o] = true
		}
	}
	return fmt.Sprintf("\x01%d\x02", i)
}

func isStrLit(s string) bool {
	if len(s) < 2 || s[0] != '"' {
		return false
	}
	_, err := strconv.Unquote(s)
	return err == nil
}

func (fc *fctx) ident(id *ast.Ident) string {
	t, _ := fc.identP(id)
	return t
}

// precedence of the printed form: 1..5 binary operators (Go's), 6 unary, 7 primary
const (
	precUnary   = 6
	precPrimary = 7
)

func (fc *fctx) identP(id *ast.Ident) (string, int) {
	if id.Name == "_" {
		return "_", precPrimary
	}
	o := fc.obj(id)
	if o == nil {
		return id.Name, precPrimary
	}
	if s, ok := fc.fixed[o]; ok {
		if pr, ok := fc.fixedPrec[o]; ok {
			return s, pr
		}
		return s, precPrimary
	}
	switch v := o.(type) {
	case *types.Const:
		if v.Val().Kind() == constant.String {
			return strconv.Quote(constant.StringVal(v.Val())), precPrimary
		}
		if fc.isLocalConst(v) {
			return v.Val().ExactString(), precPrimary
		}
		return id.Name, precPrimary
	case *types.Var:
		if !fc.isLocal(v) {
			return id.Name, precPrimary
		}
		if isErrorType(v.Type()) {
			return "err", precPrimary
		}
		if r := fc.single(v); r != nil && !fc.expand[v] {
			fc.expand[v] = true
			s, pr := fc.pp(r)
			fc.expand[v] = false
			return s, pr
		}
		return fc.placeholder(v), precPrimary
	}
	return id.Name, precPrimary
}

func (fc *fctx) isLocalConst(c *types.Const) bool {
	return c.Pkg() != nil && c.Parent() != c.Pkg().Scope()
}

// oneLiner: a module function `func f(params) T { return e }` where e is built from the
// parameters, constants, strings.* / len / conversions and other one-liners only.  A call of it is
// printed as e with the arguments substituted (so extracting such a helper, or inlining it, does
// not change the normal form) and may define a single-assignment local that is expanded.
func oneLiner(fi *fnInfo, depth int) ast.Expr {
	if fi == nil || depth > 4 || fi.decl.Recv != nil || len(fi.decl.Body.List) != 1 {
		return nil
	}
	rs, ok := fi.decl.Body.List[0].(*ast.ReturnStmt)
	if !ok || len(rs.Results) != 1 {
		return nil
	}
	if fi.decl.Type.Params != nil {
		for _, f := range fi.decl.Type.Params.List {
			if _, variadic := f.Type.(*ast.Ellipsis); variadic || len(f.Names) == 0 {
				return nil
			}
		}
	}
	params := map[types.Object]bool{}
	for _, f := range fi.decl.Type.Params.List {
		for _, n := range f.Names {
			params[fi.info.Defs[n]] = true
		}
	}
	good := true
	ast.Inspect(rs.Results[0], func(n ast.Node) bool {
		switch v := n.(type) {
		case *ast.FuncLit, *ast.CompositeLit, *ast.StarExpr, *ast.TypeAssertExpr:
			good = false
		case *ast.UnaryExpr:
			if v.Op == token.AND || v.Op == token.ARROW {
				good = false
			}
		case *ast.SelectorExpr:
			if _, isSel := fi.info.Selections[v]; isSel {
				// field of a parameter (value read once at the call)
				ast.Inspect(v.X, func(m ast.Node) bool { return true })
				return true
			}
			if o, isVar := fi.info.Uses[v.Sel].(*types.Var); isVar && o != nil {
				good = false // package variable of another package
			}
			return false
		case *ast.Ident:
			o := fi.info.Uses[v]
			if vr, isVar := o.(*types.Var); isVar && !vr.IsField() && !params[o] {
				good = false // package variable or other state
			}
		case *ast.CallExpr:
			if tv, isT := fi.info.Types[v.Fun]; isT && tv.IsType() {
				return true
			}
			if id, isID := v.Fun.(*ast.Ident); isID {
				if _, isB := fi.info.Uses[id].(*types.Builtin); isB && id.Name == "len" {
					return true
				}
			}
			f := staticCallee(fi.info, v)
			switch {
			case f != nil && f.Pkg() != nil && f.Pkg().Path() == "strings" && isIfaceMethod(f) == nil:
				if sig, ok := f.Type().(*types.Signature); ok && sig.Recv() != nil {
					good = false
				}
			case f != nil && oneLiner(declOf[f], depth+1) != nil:
			default:
				good = false
			}
		}
		return good
	})
	if !good {
		return nil
	}
	return rs.Results[0]
}

// inlineCall: text of a call of a one-liner, arguments substituted.
func (fc *fctx) inlineCall(c *ast.CallExpr) (string, int, bool) {
	f := staticCallee(fc.info, c)
	if f == nil {
		return "", 0, false
	}
	fi := declOf[f]
	body := oneLiner(fi, 0)
	if body == nil || fc.inlining > 4 {
		return "", 0, false
	}
	sub := &fctx{fi: fi, info: fi.info, fixed: map[types.Object]string{}, fixedPrec: map[types.Object]int{}, defs: map[types.Object]int{},
		rhs: map[types.Object]ast.Expr{}, mut: map[loc]int{}, anyMut: map[types.Object]bool{}, anyTaint: map[types.Object]bool{},
		reply: map[types.Object]bool{}, tainted: map[loc]bool{}, argVars: map[types.Object]bool{},
		lazyIdx: map[types.Object]int{}, expand: map[types.Object]bool{}, inlining: fc.inlining + 1}
	i := 0
	for _, fl := range fi.decl.Type.Params.List {
		for _, n := range fl.Names {
			if i >= len(c.Args) {
				return "", 0, false
			}
			t, pr := fc.pp(c.Args[i])
			if o := fi.info.Defs[n]; o != nil {
				sub.fixed[o] = t
				sub.fixedPrec[o] = pr
			}
			i++
		}
	}
	if i != len(c.Args) {
		return "", 0, false
	}
	t, pr := sub.pp(body)
	return t, pr, true
}

// p: canonical text of an expression (locals as placeholders).  Parentheses of the source are
// dropped and put back where the precedence of the printed form needs them.
func (fc *fctx) p(e ast.Expr) string {
	t, _ := fc.pp(e)
	return t
}

// operand of an operator of precedence need
func (fc *fctx) operand(e ast.Expr, need int) string {
	t, pr := fc.pp(e)
	if pr < need {
		return "(" + t + ")"
	}
	return t
}

func (fc *fctx) pp(e ast.Expr) (string, int) {
	if e == nil {
		return "", precPrimary
	}
	if tv, ok := fc.info.Types[e]; ok && tv.Value != nil && tv.Value.Kind() == constant.String {
		return strconv.Quote(constant.StringVal(tv.Value)), precPrimary
	}
	switch v := e.(type) {
	case *ast.Ident:
		return fc.identP(v)
	case *ast.BasicLit:
		return v.Value, precPrimary
	case *ast.ParenExpr:
		return fc.pp(v.X)
	case *ast.StarExpr:
		return "*" + fc.operand(v.X, precUnary), precUnary
	case *ast.UnaryExpr:
		return v.Op.String() + fc.operand(v.X, precUnary), precUnary
	case *ast.BinaryExpr:
		pr := v.Op.Precedence()
		l, r := fc.operand(v.X, pr), fc.operand(v.Y, pr+1)
		if v.Op == token.ADD && isStrLit(l) && isStrLit(r) {
			a, _ := strconv.Unquote(l)
			b, _ := strconv.Unquote(r)
			return strconv.Quote(a + b), precPrimary
		}
		if v.Op == token.ADD {
			// string concatenation is associative: a + (b + c) ≡ a + b + c
			if tv, ok := fc.info.Types[e]; ok && tv.Type != nil {
				if b, ok := tv.Type.Underlying().(*types.Basic); ok && b.Info()&types.IsString != 0 {
					r = fc.operand(v.Y, pr)
				}
			}
		}
		return l + " " + v.Op.String() + " " + r, pr
	case *ast.SelectorExpr:
		return fc.operand(v.X, precPrimary) + "." + v.Sel.Name, precPrimary
	case *ast.IndexExpr:
		return fc.operand(v.X, precPrimary) + "[" + fc.p(v.Index) + "]", precPrimary
	case *ast.SliceExpr:
		return fc.operand(v.X, precPrimary) + "[" + fc.p(v.Low) + ":" + fc.p(v.High) + "]", precPrimary
	case *ast.TypeAssertExpr:
		return fc.operand(v.X, precPrimary) + ".(" + rawText(v.Type) + ")", precPrimary
	case *ast.CallExpr:
		if replySource(fc.info, v) {
			return "<reply>", precPrimary
		}
		if t, pr, ok := fc.inlineCall(v); ok {
			return t, pr
		}
		args := make([]string, len(v.Args))
		for i, a := range v.Args {
			args[i] = fc.p(a)
		}
		fun := ""
		switch f := v.Fun.(type) {
		case *ast.Ident, *ast.SelectorExpr, *ast.ParenExpr:
			fun = fc.operand(f, precPrimary)
		default:
			fun = rawText(v.Fun)
		}
		return fun + "(" + strings.Join(args, ", ") + ")", precPrimary
	case *ast.CompositeLit:
		parts := make([]string, len(v.Elts))
		for i, el := range v.Elts {
			parts[i] = fc.p(el)
		}
		t := ""
		if v.Type != nil {
			t = rawText(v.Type)
		}
		return t + "{" + strings.Join(parts, ", ") + "}", precPrimary
	case *ast.KeyValueExpr:
		return rawText(v.Key) + ": " + fc.p(v.Value), precPrimary
	case *ast.FuncLit:
		return "func{…}", precPrimary
	}
	return rawText(e), precPrimary
}

func stripParen(e ast.Expr) ast.Expr {
	for {
		p, ok := e.(*ast.ParenExpr)
		if !ok {
			return e
		}
		e = p.X
	}
}

// cond: condition; neg: print its negation.  Comparisons are negated by flipping the operator.
func isZeroLit(e ast.Expr) bool {
	b, ok := stripParen(e).(*ast.BasicLit)
	return ok && b.Kind == token.INT && b.Value == "0"
}

// lenOfString: e is `len(s)` with s of a string type
func (fc *fctx) lenOfString(e ast.Expr) (ast.Expr, bool) {
	c, ok := stripParen(e).(*ast.CallExpr)
	if !ok || len(c.Args) != 1 {
		return nil, false
	}
	id, ok := c.Fun.(*ast.Ident)
	if !ok || id.Name != "len" {
		return nil, false
	}
	if _, isB := fc.obj(id).(*types.Builtin); !isB {
		return nil, false
	}
	if tv, ok := fc.info.Types[c.Args[0]]; ok && tv.Type != nil {
		if b, ok := tv.Type.Underlying().(*types.Basic); ok && b.Info()&types.IsString != 0 {
			return c.Args[0], true
		}
	}
	return nil, false
}

func (fc *fctx) cond(e ast.Expr, neg bool) string {
	t, _ := fc.condP(e, neg)
	return t
}

func (fc *fctx) condP(e ast.Expr, neg bool) (string, int) {
	switch v := e.(type) {
	case *ast.ParenExpr:
		return fc.condP(v.X, neg)
	case *ast.UnaryExpr:
		if v.Op == token.NOT {
			return fc.condP(v.X, !neg)
		}
	case *ast.BinaryExpr:
		flip := map[token.Token]token.Token{token.EQL: token.NEQ, token.NEQ: token.EQL, token.LSS: token.GEQ, token.GEQ: token.LSS,
			token.GTR: token.LEQ, token.LEQ: token.GTR}
		if f, ok := flip[v.Op]; ok {
			op := v.Op
			if neg {
				op = f
			}
			// `len(s) == 0` ≡ `s == ""`, `len(s) != 0` ≡ `len(s) > 0` ≡ `s != ""` for a string s
			if s, ok := fc.lenOfString(v.X); ok && isZeroLit(v.Y) {
				switch op {
				case token.EQL, token.LEQ:
					return fc.operand(s, token.EQL.Precedence()) + " == \"\"", token.EQL.Precedence()
				case token.NEQ, token.GTR:
					return fc.operand(s, token.NEQ.Precedence()) + " != \"\"", token.NEQ.Precedence()
				}
			}
			pr := op.Precedence()
			return fc.operand(v.X, pr) + " " + op.String() + " " + fc.operand(v.Y, pr+1), pr
		}
		if v.Op == token.LAND || v.Op == token.LOR {
			pr := v.Op.Precedence()
			sub := func(x ast.Expr, need int) string {
				t, p := fc.condP(x, false)
				if p < need {
					return "(" + t + ")"
				}
				return t
			}
			t := sub(v.X, pr) + " " + v.Op.String() + " " + sub(v.Y, pr)
			if neg {
				return "!(" + t + ")", precUnary
			}
			return t, pr
		}
	}
	if neg {
		return "!" + fc.operand(e, precUnary), precUnary
	}
	return fc.pp(e)
}

// ---------------------------------------------------------------- the walker (builds a tree)

type node struct {
	kind, text string
	kids       []*node
	// tentative assignment
	isAssign bool
	always   bool
	lhs, rhs string
	carries  bool     // right side carries device data
	final    bool     // inlined from another function: names already final
	extra    []string // further texts that count as "used" when the node is shown (call arguments)
}

type ex struct {
	cur     *[]*node
	rets    bool
	front   bool
	inSw    int
	fn      string
	fc      *fctx
	inline  map[*fnInfo]bool
	pending []string   // argument texts of the call about to be emitted
	ictx    *inlineCtx // set while the body of an inlined helper is walked
	ctl     []string   // enclosing loops / switches of the current function body
}

func (x *ex) emit(kind, txt string) *node {
	n := &node{kind: kind, text: txt}
	*x.cur = append(*x.cur, n)
	if kind != "assign" {
		n.extra, x.pending = x.pending, nil
	}
	return n
}

// under: run f with n's children as the current list
func (x *ex) under(n *node, f func()) {
	save := x.cur
	x.cur = &n.kids
	f()
	x.cur = save
}

// sub: collect what f emits without attaching it
func (x *ex) sub(f func()) []*node {
	var l []*node
	save := x.cur
	x.cur = &l
	f()
	x.cur = save
	return l
}

func (x *ex) call(c *ast.CallExpr) {
	fc := x.fc
	var lits []*ast.FuncLit
	for _, a := range c.Args {
		if fl, ok := a.(*ast.FuncLit); ok {
			lits = append(lits, fl)
			continue
		}
		x.expr(a)
	}
	if sel, ok := c.Fun.(*ast.SelectorExpr); ok {
		x.expr(sel.X)
	}
	useArgs := func() {
		x.pending = nil
		for _, a := range c.Args {
			x.pending = append(x.pending, fc.p(a))
		}
		if sel, ok := c.Fun.(*ast.SelectorExpr); ok {
			x.pending = append(x.pending, fc.p(sel.X))
		}
	}
	f := staticCallee(fc.info, c)
	switch {
	case f == nil:
		// conversion, builtin, or a function value
		if tv, ok := fc.info.Types[c.Fun]; ok && tv.IsType() {
			break
		}
		if id, ok := c.Fun.(*ast.Ident); ok {
			if _, isB := fc.obj(id).(*types.Builtin); isB {
				break
			}
		}
		useArgs()
		x.emit("call", fc.p(c.Fun))
	case isAbort(f):
		if len(c.Args) == 0 {
			problem("%s: Abort without format", x.fn)
		} else {
			useArgs()
			x.emit("abort", strings.Trim(fc.p(c.Args[0]), "\""))
		}
	case isWarning(f):
		useArgs()
		x.emit("warn", "")
	default:
		if name, n, ok := wirePrim(f); ok {
			parts := []string{name}
			for i := 0; i < n && i < len(c.Args); i++ {
				parts = append(parts, fc.p(c.Args[i]))
			}
			x.emit("send", strings.Join(parts, " "))
			break
		}
		if f.Pkg() != nil {
			if rel, ok := relPkg(f.Pkg().Path()); ok && fullArgs[rel+"."+f.Name()] {
				args := make([]string, len(c.Args))
				for i, a := range c.Args {
					args[i] = fc.p(a)
				}
				x.emit("call", rel+"."+f.Name()+"("+strings.Join(args, ", ")+")")
				break
			}
		}
		cands, dynamic := callees(fc.info, c)
		listed, impure := false, false
		for _, fi := range cands {
			if fi.listed {
				listed = true
			}
			if isImpure(fi) {
				impure = true
			}
		}
		switch {
		case listed:
			useArgs()
			x.emit("call", f.Name())
		case !impure:
			// pure helper, or not a module function: transparent
		case !dynamic && len(cands) == 1 && !x.inline[cands[0]]:
			fi := cands[0]
			useArgs()
			x.emit("", "") // invisible: carries the argument texts
			x.inline[fi] = true
			items := skeletonOf(fi, false, false, x.fn+"→"+fi.name, x.inline)
			x.inline[fi] = false
			for _, it := range items {
				it.final = true
				*x.cur = append(*x.cur, it)
			}
		default:
			useArgs()
			x.emit("call", f.Name())
		}
	}
	for _, fl := range lits {
		x.closure(fl, "")
	}
}

func (x *ex) closure(fl *ast.FuncLit, name string) {
	x.fc.rt().nclosure++
	k := x.fc.rt().nclosure
	i := 0
	if fl.Type.Params != nil {
		for _, f := range fl.Type.Params.List {
			for _, n := range f.Names {
				i++
				if o := x.fc.info.Defs[n]; o != nil {
					x.fc.fixed[o] = fmt.Sprintf("c%dp%d", k, i)
				}
			}
		}
	}
	n := x.emit("closure", name)
	saveRets, saveSw, saveCtl, saveI := x.rets, x.inSw, x.ctl, x.ictx
	x.rets = true
	x.inSw = 0
	x.ctl = nil
	x.ictx = nil
	role := ""
	if fl.Type.Results == nil || len(fl.Type.Results.List) == 0 {
		role = "func"
	}
	x.under(n, func() { x.blockRole(fl.Body.List, role) })
	x.rets, x.inSw, x.ctl, x.ictx = saveRets, saveSw, saveCtl, saveI
}

func (x *ex) expr(e ast.Expr) {
	if e == nil {
		return
	}
	switch v := e.(type) {
	case *ast.CallExpr:
		x.call(v)
	case *ast.FuncLit:
		x.closure(v, "")
	case *ast.BinaryExpr:
		x.expr(v.X)
		x.expr(v.Y)
	case *ast.UnaryExpr:
		x.expr(v.X)
	case *ast.ParenExpr:
		x.expr(v.X)
	case *ast.StarExpr:
		x.expr(v.X)
	case *ast.SelectorExpr:
		x.expr(v.X)
	case *ast.IndexExpr:
		x.expr(v.X)
		x.expr(v.Index)
	case *ast.SliceExpr:
		x.expr(v.X)
		x.expr(v.Low)
		x.expr(v.High)
	case *ast.TypeAssertExpr:
		x.expr(v.X)
	case *ast.CompositeLit:
		for _, el := range v.Elts {
			x.expr(el)
		}
	case *ast.KeyValueExpr:
		x.expr(v.Value)
	case *ast.Ident, *ast.BasicLit, *ast.ArrayType, *ast.MapType, *ast.StructType, *ast.FuncType, *ast.InterfaceType, *ast.ChanType:
	default:
		problem("%s: expression kind %T not understood: %s", x.fn, e, rawText(e))
	}
}

func (x *ex) terminates(l []ast.Stmt) bool {
	if len(l) == 0 {
		return false
	}
	switch v := l[len(l)-1].(type) {
	case *ast.ReturnStmt:
		return true
	case *ast.BranchStmt:
		return v.Tok == token.CONTINUE || v.Tok == token.BREAK || v.Tok == token.GOTO
	case *ast.ExprStmt:
		if c, ok := v.X.(*ast.CallExpr); ok {
			if f := staticCallee(x.fc.info, c); f != nil {
				if isAbort(f) || (f.Pkg() != nil && f.Pkg().Path() == "os" && f.Name() == "Exit") {
					return true
				}
			}
			if id, ok := c.Fun.(*ast.Ident); ok && id.Name == "panic" {
				if _, isB := x.fc.obj(id).(*types.Builtin); isB {
					return true
				}
			}
		}
	}
	return false
}

// ---- a helper inlined in the context of the statement that calls it
//
// `L… = h(args)` / `return h(args)` where h is an impure module function with a unique callee is
// walked as if h's body stood there (so that extracting the helper, or inlining it by hand, gives the
// same skeleton): parameters and receiver stand for the argument texts; h's locals are numbered
// with the caller's; a local that h only hands back with its final return stands for the caller's
// left side; a `return` inside h becomes the caller's own return if the caller propagates h's
// error unchanged (`if err != nil { return …, err }` right after the call, which is then not
// shown a second time); h's final return shows nothing.
type inlineCtx struct {
	mode     string // assign | return | discard
	lhs      []string
	prop     []string // the caller's return, error slot = "\x00"
	final    *ast.ReturnStmt
	caller   *ex
	callerFc *fctx
}

// inlinable: the call is inlined by the walker (see ex.call)
func (x *ex) inlinable(c *ast.CallExpr) *fnInfo {
	f := staticCallee(x.fc.info, c)
	if f == nil || isAbort(f) || isWarning(f) {
		return nil
	}
	if _, _, ok := wirePrim(f); ok {
		return nil
	}
	if f.Pkg() != nil {
		if rel, ok := relPkg(f.Pkg().Path()); ok && fullArgs[rel+"."+f.Name()] {
			return nil
		}
	}
	cands, dynamic := callees(x.fc.info, c)
	if dynamic || len(cands) != 1 || cands[0].listed || !isImpure(cands[0]) || x.inline[cands[0]] {
		return nil
	}
	for _, a := range c.Args {
		if _, isLit := a.(*ast.FuncLit); isLit {
			return nil
		}
	}
	if c.Ellipsis.IsValid() {
		return nil
	}
	return cands[0]
}

func (x *ex) retPart(fc *fctx, r ast.Expr) string {
	if c, ok := stripParen(r).(*ast.CallExpr); ok {
		f := staticCallee(fc.info, c)
		switch {
		case replySource(fc.info, c):
			return "<reply>"
		case f != nil && f.Pkg() != nil && f.Pkg().Path() == "strings":
			return fc.p(r)
		case f != nil:
			return f.Name() + "(…)"
		}
	}
	return fc.p(r)
}

// propagation: `if E != nil { return …, E }` with E the given error variable → the parts of the return
func (x *ex) propagation(s ast.Stmt, errObj types.Object) []string {
	v, ok := s.(*ast.IfStmt)
	if !ok || v.Init != nil || v.Else != nil || len(v.Body.List) != 1 || errObj == nil {
		return nil
	}
	b, ok := stripParen(v.Cond).(*ast.BinaryExpr)
	if !ok || b.Op != token.NEQ {
		return nil
	}
	id, ok := b.X.(*ast.Ident)
	if !ok || x.fc.obj(id) != errObj {
		return nil
	}
	if n, ok := b.Y.(*ast.Ident); !ok || n.Name != "nil" {
		return nil
	}
	rs, ok := v.Body.List[0].(*ast.ReturnStmt)
	if !ok || len(rs.Results) == 0 {
		return nil
	}
	var parts []string
	seen := false
	for _, r := range rs.Results {
		if rid, ok := stripParen(r).(*ast.Ident); ok && x.fc.obj(rid) == errObj {
			if seen {
				return nil
			}
			seen = true
			parts = append(parts, "\x00")
			continue
		}
		hasCall := false
		ast.Inspect(r, func(n ast.Node) bool {
			if _, ok := n.(*ast.CallExpr); ok {
				hasCall = true
			}
			return !hasCall
		})
		if hasCall {
			return nil
		}
		parts = append(parts, x.fc.p(r))
	}
	if !seen {
		return nil
	}
	return parts
}

// inlineStmt: s is `L… = h(…)`, `return h(…)` or `h(…)` with an inlinable h; next is the statement
// after it.  Returns how many statements were consumed (0: not handled here).
func (x *ex) inlineStmt(s, next ast.Stmt) int {
	var call *ast.CallExpr
	ic := &inlineCtx{caller: x, callerFc: x.fc}
	var lhsExprs []ast.Expr
	switch v := s.(type) {
	case *ast.AssignStmt:
		if len(v.Rhs) != 1 {
			return 0
		}
		c, ok := stripParen(v.Rhs[0]).(*ast.CallExpr)
		if !ok {
			return 0
		}
		call, ic.mode, lhsExprs = c, "assign", v.Lhs
	case *ast.ReturnStmt:
		if len(v.Results) != 1 || !x.rets || x.ictx != nil {
			return 0
		}
		c, ok := stripParen(v.Results[0]).(*ast.CallExpr)
		if !ok {
			return 0
		}
		call, ic.mode = c, "return"
	case *ast.ExprStmt:
		c, ok := stripParen(v.X).(*ast.CallExpr)
		if !ok {
			return 0
		}
		call, ic.mode = c, "discard"
	default:
		return 0
	}
	fi := x.inlinable(call)
	if fi == nil || fi.decl.Type.Params == nil {
		return 0
	}
	nparams := 0
	for _, f := range fi.decl.Type.Params.List {
		if _, variadic := f.Type.(*ast.Ellipsis); variadic || len(f.Names) == 0 {
			return 0
		}
		nparams += len(f.Names)
	}
	if nparams != len(call.Args) {
		return 0
	}
	// arguments (calls inside them happen before)
	for _, a := range call.Args {
		x.expr(a)
	}
	if sel, ok := call.Fun.(*ast.SelectorExpr); ok {
		x.expr(sel.X)
	}
	sfc := newCtx(fi)
	sfc.root = x.fc
	sfc.alias = map[types.Object]bool{}
	sfc.fixedPrec = map[types.Object]int{}
	bind := func(o types.Object, e ast.Expr) {
		if o == nil {
			return
		}
		t, pr := x.fc.pp(e)
		sfc.fixed[o] = t
		sfc.fixedPrec[o] = pr
	}
	if fd := fi.decl; fd.Recv != nil && len(fd.Recv.List) > 0 && len(fd.Recv.List[0].Names) > 0 {
		if sel, ok := call.Fun.(*ast.SelectorExpr); ok {
			bind(fi.info.Defs[fd.Recv.List[0].Names[0]], sel.X)
		}
	}
	i := 0
	for _, f := range fi.decl.Type.Params.List {
		for _, n := range f.Names {
			bind(fi.info.Defs[n], call.Args[i])
			i++
		}
	}
	consumed := 1
	var errObj types.Object
	for _, l := range lhsExprs {
		ic.lhs = append(ic.lhs, x.fc.p(l))
		if id, ok := l.(*ast.Ident); ok && id.Name != "_" {
			if o := x.fc.obj(id); o != nil && isErrorType(o.Type()) {
				errObj = o
			}
		}
	}
	if ic.mode == "assign" && next != nil {
		if p := x.propagation(next, errObj); p != nil {
			ic.prop = p
			consumed = 2
		}
	}
	body := fi.decl.Body.List
	if n := len(body); n > 0 {
		if rs, ok := body[n-1].(*ast.ReturnStmt); ok {
			ic.final = rs
		}
	}
	// a local that is only handed back by the final return stands for the caller's left side
	if ic.mode == "assign" && ic.final != nil {
		inOther := map[types.Object]bool{}
		ast.Inspect(fi.decl.Body, func(n ast.Node) bool {
			if rs, ok := n.(*ast.ReturnStmt); ok && rs != ic.final {
				for _, r := range rs.Results {
					ast.Inspect(r, func(m ast.Node) bool {
						if id, ok := m.(*ast.Ident); ok {
							if o := fi.info.Uses[id]; o != nil {
								inOther[o] = true
							}
						}
						return true
					})
				}
			}
			return true
		})
		for k, r := range ic.final.Results {
			id, ok := stripParen(r).(*ast.Ident)
			if !ok || k >= len(lhsExprs) {
				continue
			}
			o := fi.info.Uses[id]
			if o == nil || !sfc.isLocal(o) || sfc.fixed[o] != "" || inOther[o] || isErrorType(o.Type()) {
				continue
			}
			if lid, ok := lhsExprs[k].(*ast.Ident); ok && lid.Name == "_" {
				continue
			}
			bind(o, lhsExprs[k])
			sfc.alias[o] = true
		}
	}
	x.emit("", "") // invisible marker: the call happens here
	sx := &ex{cur: x.cur, rets: x.rets, front: false, fn: x.fn + "→" + fi.name, fc: sfc, inline: x.inline, ictx: ic}
	role := ""
	if fi.decl.Type.Results == nil || len(fi.decl.Type.Results.List) == 0 {
		role = "func"
	}
	x.inline[fi] = true
	sx.blockRole(body, role)
	x.inline[fi] = false
	return consumed
}

// inlinedReturn: a `return` of the helper that is being inlined
func (x *ex) inlinedReturn(v *ast.ReturnStmt) {
	ic, fc := x.ictx, x.fc
	for _, r := range v.Results {
		x.expr(r)
	}
	switch ic.mode {
	case "return":
		if !ic.caller.rets {
			return
		}
		parts := make([]string, len(v.Results))
		for i, r := range v.Results {
			parts[i] = x.retPart(fc, r)
		}
		x.emit("ret", strings.Join(parts, ", "))
	case "assign":
		if v == ic.final {
			// what is handed back goes to the caller's left side
			for k, r := range v.Results {
				if k >= len(ic.lhs) || ic.lhs[k] == "_" {
					continue
				}
				if id, ok := stripParen(r).(*ast.Ident); ok && (id.Name == "nil" || fc.alias[fc.obj(id)]) {
					continue
				}
				if tv, ok := fc.info.Types[r]; ok && isErrorType(tv.Type) {
					continue
				}
				n := x.emit("assign", "")
				n.isAssign, n.carries = true, true
				n.lhs = ic.lhs[k]
				if fc.textual(r) {
					n.rhs = fc.p(r)
					n.text = n.lhs + " = " + n.rhs
				} else {
					n.rhs = fc.deps([]ast.Expr{r})
					n.text = n.lhs + " ⇐ " + n.rhs
				}
			}
			return
		}
		if ic.prop == nil || !ic.caller.rets || len(v.Results) == 0 {
			return
		}
		last := v.Results[len(v.Results)-1]
		if id, ok := stripParen(last).(*ast.Ident); ok && id.Name == "nil" {
			return
		}
		parts := make([]string, len(ic.prop))
		for i, p := range ic.prop {
			if p == "\x00" {
				parts[i] = x.retPart(fc, last)
			} else {
				parts[i] = p
			}
		}
		x.emit("ret", strings.Join(parts, ", "))
	}
}

func (x *ex) block(l []ast.Stmt) { x.blockRole(l, "") }

// blockRole: role "loop": l is the body of a loop; "func": l is the body of a function or closure
// without results.  There an `if` that only skips the rest of the block is written as the
// complementary `if` around the rest:
//
//	if c { continue }; REST  ≡  if !c { REST }        if c { return }; REST  ≡  if !c { REST }
func (x *ex) blockRole(l []ast.Stmt, role string) {
	// a `continue` / bare `return` that ends the body of a loop / of a function without results says nothing
	if n := len(l); n > 0 && role != "" {
		switch b := l[n-1].(type) {
		case *ast.BranchStmt:
			if role == "loop" && b.Tok == token.CONTINUE && b.Label == nil {
				l = l[:n-1]
			}
		case *ast.ReturnStmt:
			if role == "func" && len(b.Results) == 0 {
				l = l[:n-1]
			}
		}
	}
	for i := 0; i < len(l); i++ {
		s := l[i]
		var next ast.Stmt
		if i+1 < len(l) {
			next = l[i+1]
		}
		if k := x.inlineStmt(s, next); k > 0 {
			i += k - 1
			continue
		}
		if v, ok := s.(*ast.IfStmt); ok && role != "" && v.Else == nil && len(v.Body.List) >= 1 {
			n := len(v.Body.List)
			skips := false
			switch b := v.Body.List[n-1].(type) {
			case *ast.BranchStmt:
				skips = role == "loop" && b.Tok == token.CONTINUE && b.Label == nil
			case *ast.ReturnStmt:
				skips = role == "func" && len(b.Results) == 0
			}
			if skips && n == 1 && v.Init == nil {
				// `if c { continue }; REST`  ≡  `if !c { REST }`
				x.expr(v.Cond)
				rest := x.sub(func() { x.blockRole(l[i+1:], role) })
				if len(rest) > 0 {
					n := x.emit("if", x.fc.cond(v.Cond, true))
					n.kids = rest
				}
				return
			}
			if skips {
				// `if c { A; continue }; REST`  ≡  `if c { A } else { REST }`
				body := &ast.BlockStmt{List: v.Body.List[:n-1]}
				x.ifStmt(&ast.IfStmt{If: v.If, Init: v.Init, Cond: v.Cond, Body: body, Else: &ast.BlockStmt{List: l[i+1:]}})
				return
			}
		}
		// a run of `if x == a {…return}; if x == b {…return}` is the dispatch `if x == a {…} else if x == b {…}`
		if v, ok := s.(*ast.IfStmt); ok {
			if tag, _, ok := x.fc.eqConsts(v.Cond); ok && v.Else == nil && v.Init == nil && x.terminates(v.Body.List) {
				j := i + 1
				for j < len(l) {
					w, ok := l[j].(*ast.IfStmt)
					if !ok || w.Else != nil || w.Init != nil || !x.terminates(w.Body.List) {
						break
					}
					if t2, _, ok := x.fc.eqConsts(w.Cond); !ok || t2 != tag {
						break
					}
					j++
				}
				if j > i+1 {
					var chain *ast.IfStmt
					for k := j - 1; k >= i; k-- {
						w := l[k].(*ast.IfStmt)
						c := &ast.IfStmt{If: w.If, Cond: w.Cond, Body: w.Body}
						if chain != nil {
							c.Else = chain
						}
						chain = c
					}
					x.ifStmt(chain)
					i = j - 1
					continue
				}
			}
		}
		x.stmt(s)
	}
}

// eqConsts: the condition is `e == c1 [|| e == c2 …]` with constants c; returns the printed e and the constants.
func (fc *fctx) eqConsts(e ast.Expr) (string, []string, bool) {
	e = stripParen(e)
	b, ok := e.(*ast.BinaryExpr)
	if !ok {
		return "", nil, false
	}
	if b.Op == token.LOR {
		t1, c1, ok1 := fc.eqConsts(b.X)
		t2, c2, ok2 := fc.eqConsts(b.Y)
		if ok1 && ok2 && t1 == t2 {
			return t1, append(c1, c2...), true
		}
		return "", nil, false
	}
	if b.Op != token.EQL {
		return "", nil, false
	}
	if tv, ok := fc.info.Types[b.Y]; ok && tv.Value != nil {
		if tv2, ok := fc.info.Types[b.X]; ok && tv2.Value != nil {
			return "", nil, false
		}
		return fc.p(b.X), []string{fc.p(b.Y)}, true
	}
	return "", nil, false
}

// sortChain: an if / else-if chain whose tests compare ONE expression with pairwise different
// constants is a dispatch; the order of its branches says nothing: sorted by the printed test.
func (x *ex) sortChain(v *ast.IfStmt) *ast.IfStmt {
	type br struct {
		key string
		st  *ast.IfStmt
	}
	var brs []br
	var last ast.Stmt
	tag := ""
	seen := map[string]bool{}
	for cur := v; ; {
		t, cs, ok := x.fc.eqConsts(cur.Cond)
		if !ok || (cur != v && cur.Init != nil) || (tag != "" && t != tag) {
			return v
		}
		tag = t
		sort.Strings(cs)
		for _, c := range cs {
			if seen[c] {
				return v
			}
			seen[c] = true
		}
		brs = append(brs, br{strings.Join(cs, ","), cur})
		next, isIf := cur.Else.(*ast.IfStmt)
		if !isIf {
			last = cur.Else
			break
		}
		cur = next
	}
	// a branch that shows nothing is the same as no branch, unless there is a final else that shows something
	probe := func(l []ast.Stmt) bool {
		nc, nf := x.fc.rt().nclosure, x.fc.rt().nfn
		pend := x.pending
		n := len(x.sub(func() { x.block(l) }))
		x.fc.rt().nclosure, x.fc.rt().nfn, x.pending = nc, nf, pend
		return n > 0
	}
	elseShows := false
	if last != nil {
		if bl, ok := last.(*ast.BlockStmt); ok {
			elseShows = probe(bl.List)
		} else {
			elseShows = true
		}
	}
	dropped := false
	if !elseShows {
		var keep []br
		for _, b := range brs {
			if probe(b.st.Body.List) {
				keep = append(keep, b)
			} else {
				dropped = true
			}
		}
		if len(keep) == 0 {
			keep = brs[:1]
		}
		brs = keep
		if dropped {
			last = nil
		}
	}
	sorted := append([]br(nil), brs...)
	sort.SliceStable(sorted, func(i, j int) bool { return sorted[i].key < sorted[j].key })
	same := true
	for i := range brs {
		if brs[i].st != sorted[i].st {
			same = false
		}
	}
	if same && !dropped {
		return v
	}
	var chain *ast.IfStmt
	for k := len(sorted) - 1; k >= 0; k-- {
		w := sorted[k].st
		c := &ast.IfStmt{If: w.If, Cond: w.Cond, Body: w.Body}
		if k == 0 {
			c.Init = v.Init
		}
		if chain != nil {
			c.Else = chain
		} else if last != nil {
			c.Else = last
		}
		chain = c
	}
	return chain
}

// switchChain: `switch [tag] { case …: …; default: … }` as the if / else-if chain it abbreviates:
// `case a, b:` tests `tag == a || tag == b`, a clause that only falls through lends its tests to the
// next one (into `default`: it disappears), `default` is the final else wherever it stands, a
// `break` that ends a clause is dropped.  nil: the switch cannot be written that way.
func (x *ex) switchChain(v *ast.SwitchStmt) *ast.IfStmt {
	type br struct {
		cond ast.Expr
		body []ast.Stmt
	}
	var brs []br
	var def *br
	var pend []ast.Expr
	pendDef := false
	for _, c := range v.Body.List {
		cc := c.(*ast.CaseClause)
		var conds []ast.Expr
		for _, e := range cc.List {
			if v.Tag != nil {
				conds = append(conds, &ast.BinaryExpr{X: v.Tag, Op: token.EQL, Y: e})
			} else {
				conds = append(conds, e)
			}
		}
		body := cc.Body
		if n := len(body); n > 0 {
			if b, ok := body[n-1].(*ast.BranchStmt); ok && b.Tok == token.FALLTHROUGH {
				if n != 1 {
					return nil
				}
				pend = append(pend, conds...)
				pendDef = pendDef || cc.List == nil
				continue
			}
			if b, ok := body[n-1].(*ast.BranchStmt); ok && b.Tok == token.BREAK && b.Label == nil {
				body = body[:n-1]
			}
		}
		// any other `break` of the switch cannot be expressed
		bad := false
		for _, st := range body {
			ast.Inspect(st, func(n ast.Node) bool {
				switch w := n.(type) {
				case *ast.ForStmt, *ast.RangeStmt, *ast.SwitchStmt, *ast.TypeSwitchStmt, *ast.SelectStmt, *ast.FuncLit:
					return false
				case *ast.BranchStmt:
					if w.Tok == token.BREAK && w.Label == nil {
						bad = true
					}
				}
				return !bad
			})
		}
		if bad {
			return nil
		}
		if cc.List == nil || pendDef {
			def = &br{nil, body}
		} else {
			all := append(pend, conds...)
			cond := all[0]
			for _, e := range all[1:] {
				cond = &ast.BinaryExpr{X: cond, Op: token.LOR, Y: e}
			}
			brs = append(brs, br{cond, body})
		}
		pend, pendDef = nil, false
	}
	if len(pend) > 0 || pendDef {
		return nil
	}
	if len(brs) == 0 {
		return nil
	}
	var chain *ast.IfStmt
	for k := len(brs) - 1; k >= 0; k-- {
		c := &ast.IfStmt{If: v.Switch, Cond: brs[k].cond, Body: &ast.BlockStmt{List: brs[k].body}}
		if chain != nil {
			c.Else = chain
		} else if def != nil {
			c.Else = &ast.BlockStmt{List: def.body}
		}
		chain = c
	}
	return chain
}

// innerLoop: the innermost enclosing breakable statement is a loop
func (x *ex) innerLoop() bool { return len(x.ctl) > 0 && x.ctl[len(x.ctl)-1] == "loop" }

func (x *ex) within(kind string, f func()) {
	x.ctl = append(x.ctl, kind)
	f()
	x.ctl = x.ctl[:len(x.ctl)-1]
}

// textual: the expression is built from text operations the Lean side has a meaning for
// (strings.*, len, conversions, indexing, operators) and replies; then it is printed exactly.
// Otherwise only its dependencies are printed (`x ⇐ a, b`): which helper decodes or parses the
// data, and how its arguments are ordered, is not part of the normal form.
func (fc *fctx) textual(e ast.Expr) bool {
	ok := true
	ast.Inspect(e, func(n ast.Node) bool {
		switch v := n.(type) {
		case *ast.FuncLit, *ast.CompositeLit:
			ok = false
		case *ast.CallExpr:
			if tv, isT := fc.info.Types[v.Fun]; isT && tv.IsType() {
				return true
			}
			if id, isID := v.Fun.(*ast.Ident); isID {
				if _, isB := fc.obj(id).(*types.Builtin); isB && id.Name == "len" {
					return true
				}
			}
			f := staticCallee(fc.info, v)
			if replySource(fc.info, v) {
				return false // printed as <reply>
			}
			if f != nil && f.Pkg() != nil && f.Pkg().Path() == "strings" {
				return true
			}
			if f != nil && oneLiner(declOf[f], 0) != nil {
				return true
			}
			ok = false
		}
		return ok
	})
	return ok
}

// deps: what an expression depends on: replies, parameters and locals, in order of appearance.
func (fc *fctx) deps(es []ast.Expr) string {
	var out []string
	seen := map[string]bool{}
	add := func(s string) {
		if !seen[s] {
			seen[s] = true
			out = append(out, s)
		}
	}
	var visit func(e ast.Node, depth int)
	visit = func(e ast.Node, depth int) {
		ast.Inspect(e, func(n ast.Node) bool {
			switch v := n.(type) {
			case *ast.FuncLit:
				return false
			case *ast.KeyValueExpr:
				visit(v.Value, depth)
				return false
			case *ast.CallExpr:
				if replySource(fc.info, v) {
					add("<reply>")
					return false
				}
			case *ast.Ident:
				o := fc.obj(v)
				if o == nil || !fc.isLocal(o) || fc.fixed[o] == "recv" {
					return true
				}
				if r := fc.single(o); r != nil && depth < 8 {
					visit(r, depth+1)
					return true
				}
				if t := fc.ident(v); fc.root != nil && fc.fixed[o] != "" && phRe.MatchString(t) {
					// an argument / left side of the caller: what it depends on
					for _, m := range phRe.FindAllString(t, -1) {
						add(m)
					}
				} else {
					add(t)
				}
			}
			return true
		})
	}
	for _, e := range es {
		visit(e, 0)
	}
	return strings.Join(out, ", ")
}

func (x *ex) assign(v *ast.AssignStmt) {
	fc := x.fc
	if len(v.Rhs) == 1 && len(v.Lhs) == 1 {
		if fl, ok := v.Rhs[0].(*ast.FuncLit); ok {
			if id, isID := v.Lhs[0].(*ast.Ident); isID {
				if o := fc.obj(id); o != nil {
					if fc.fixed[o] == "" {
						fc.rt().nfn++
						fc.fixed[o] = fmt.Sprintf("f%d", fc.rt().nfn)
					}
					x.closure(fl, fc.fixed[o])
					return
				}
			}
			x.closure(fl, fc.p(v.Lhs[0]))
			return
		}
	}
	for _, r := range v.Rhs {
		x.expr(r)
	}
	always, isReply, multi := false, false, false
	for _, l := range v.Lhs {
		switch t := l.(type) {
		case *ast.Ident:
			o := fc.obj(t)
			if x.front && o != nil && fc.argVars[o] && fc.isLocal(o) && fc.defs[o] > 1 {
				always = true
			}
			if o != nil && t.Name != "_" && fc.isLocal(o) {
				if fc.alias[o] {
					multi = true
				} else if nm := fc.fixed[o]; nm != "" && !fnameRe.MatchString(nm) {
					always = true // a parameter is overwritten: `p1` no longer means the argument
				} else if fc.defs[o] > 1 && !isErrorType(o.Type()) {
					multi = true // every definition of a variable with several definitions matters
				}
			}
		case *ast.SelectorExpr:
			if watchedFields[t.Sel.Name] {
				always = true
			}
		}
	}
	carries := false
	for _, r := range v.Rhs {
		if fc.containsWire(r) {
			carries, isReply = true, true
		}
		if fc.readsTainted(r) {
			carries = true
		}
	}
	// a single-assignment local that is expanded at its uses is not shown
	if len(v.Lhs) == 1 && !always {
		if id, ok := v.Lhs[0].(*ast.Ident); ok && fc.single(fc.obj(id)) != nil {
			return
		}
	}
	if !always && !carries && !multi {
		return
	}
	carries = carries || multi
	exact := always
	if !exact {
		exact = true
		for _, r := range v.Rhs {
			if !fc.textual(r) {
				exact = false
			}
		}
	}
	lhs := make([]string, len(v.Lhs))
	for i, l := range v.Lhs {
		lhs[i] = fc.p(l)
	}
	n := x.emit("assign", "")
	n.isAssign, n.always, n.carries = true, always || isReply, carries
	n.lhs = strings.Join(lhs, ", ")
	if exact {
		rhs := make([]string, len(v.Rhs))
		for i, r := range v.Rhs {
			rhs[i] = fc.p(r)
		}
		n.rhs = strings.Join(rhs, ", ")
		tok := v.Tok.String()
		if v.Tok != token.DEFINE && v.Tok != token.ASSIGN && len(v.Lhs) == 1 {
			// x op= e  ≡  x = x op e
			n.rhs = n.lhs + " " + strings.TrimSuffix(tok, "=") + " " + n.rhs
			tok = "="
		}
		n.text = n.lhs + " " + tok + " " + n.rhs
	} else {
		// results handed back through arguments count as left side
		var ins []ast.Expr
		for _, r := range v.Rhs {
			if c, ok := stripParen(r).(*ast.CallExpr); ok {
				outs, in := fc.outParams(c)
				for _, o := range outs {
					n.lhs += ", " + fc.p(o)
				}
				ins = append(ins, in...)
				if sel, ok := c.Fun.(*ast.SelectorExpr); ok {
					ins = append(ins, sel.X)
				}
			} else {
				ins = append(ins, r)
			}
		}
		if v.Tok != token.DEFINE && v.Tok != token.ASSIGN {
			ins = append(ins, v.Lhs...)
		}
		n.rhs = fc.deps(ins)
		n.text = n.lhs + " ⇐ " + n.rhs
	}
	// the root of an in-place update (x.f = …, x[i] = …) is read as well
	for _, l := range v.Lhs {
		if _, isID := l.(*ast.Ident); !isID {
			n.rhs += " " + fc.p(l)
		}
	}
}

func (x *ex) ifStmt(v *ast.IfStmt) {
	fc := x.fc
	if _, isChain := v.Else.(*ast.IfStmt); isChain {
		v = x.sortChain(v)
	}
	// `if a { if b { X } }`  ≡  `if a && b { X }`
	if v.Else == nil && len(v.Body.List) == 1 {
		// (only for conditions that do nothing that is shown: `&&` would hide when a call happens)
		if in, ok := v.Body.List[0].(*ast.IfStmt); ok && in.Else == nil && in.Init == nil &&
			len(x.sub(func() { x.expr(v.Cond); x.expr(in.Cond) })) == 0 {
			x.stmt(v.Init)
			par := func(e ast.Expr) ast.Expr {
				if b, ok := stripParen(e).(*ast.BinaryExpr); ok && b.Op == token.LOR {
					return &ast.ParenExpr{X: e}
				}
				return e
			}
			x.ifStmt(&ast.IfStmt{If: v.If, Cond: &ast.BinaryExpr{X: par(v.Cond), Op: token.LAND, Y: par(in.Cond)}, Body: in.Body})
			return
		}
	}
	x.stmt(v.Init)
	x.expr(v.Cond)
	thenT := x.terminates(v.Body.List)
	var elseList []ast.Stmt
	elseT := false
	if v.Else != nil {
		switch e := v.Else.(type) {
		case *ast.BlockStmt:
			elseList = e.List
		default:
			elseList = []ast.Stmt{e}
		}
		elseT = x.terminates(elseList)
	}
	if thenT && elseT {
		// both branches end the block: `if c {A} else {B}` ≡ `if c {A}; B` ≡ `if !c {B}; A`.
		// Canonical: the branch under the negative condition (`!…`, `!=`) is the guard.
		c := fc.cond(v.Cond, false)
		negative := strings.HasPrefix(c, "!")
		if b, ok := stripParen(v.Cond).(*ast.BinaryExpr); ok && b.Op == token.NEQ {
			negative = true
		}
		if negative {
			elseT = false
		} else {
			thenT = false
		}
	}
	switch {
	case thenT && !elseT:
		body := x.sub(func() { x.block(v.Body.List) })
		if len(body) > 0 {
			n := x.emit("guard", fc.cond(v.Cond, false))
			n.kids = body
		}
		x.block(elseList)
	case elseT && !thenT && v.Else != nil:
		body := x.sub(func() { x.block(elseList) })
		if len(body) > 0 {
			n := x.emit("guard", fc.cond(v.Cond, true))
			n.kids = body
		}
		x.block(v.Body.List)
	default:
		c := fc.cond(v.Cond, false)
		neg := false
		if v.Else != nil {
			if strings.HasPrefix(c, "!") {
				neg = true
			} else if b, ok := stripParen(v.Cond).(*ast.BinaryExpr); ok && b.Op == token.NEQ {
				neg = true
			}
		}
		first, second := v.Body.List, elseList
		if neg {
			c = fc.cond(v.Cond, true)
			first, second = elseList, v.Body.List
		}
		a := x.sub(func() { x.block(first) })
		b := x.sub(func() { x.block(second) })
		if len(a)+len(b) == 0 {
			return
		}
		if len(a) == 0 {
			// `if c {} else {B}`  ≡  `if !c {B}`
			n := x.emit("if", fc.cond(v.Cond, !neg))
			n.kids = b
			return
		}
		n := x.emit("if", c)
		n.kids = a
		if len(b) > 0 {
			e := x.emit("else", "")
			e.kids = b
		}
	}
}

func (x *ex) stmt(s ast.Stmt) {
	fc := x.fc
	switch v := s.(type) {
	case nil:
	case *ast.ExprStmt:
		x.expr(v.X)
	case *ast.AssignStmt:
		x.assign(v)
	case *ast.DeclStmt:
		if gd, ok := v.Decl.(*ast.GenDecl); ok {
			for _, sp := range gd.Specs {
				if vs, ok := sp.(*ast.ValueSpec); ok {
					for _, val := range vs.Values {
						x.expr(val)
					}
				}
			}
		}
	case *ast.IfStmt:
		x.ifStmt(v)
	case *ast.ForStmt:
		x.stmt(v.Init)
		x.expr(v.Cond)
		role := "loop"
		if v.Post != nil {
			role = ""
		}
		body := x.sub(func() { x.within("loop", func() { x.blockRole(v.Body.List, role); x.stmt(v.Post) }) })
		if len(body) == 0 {
			return
		}
		hdr := ""
		if v.Cond != nil {
			hdr = fc.cond(v.Cond, false)
		}
		n := x.emit("for", hdr)
		n.kids = body
	case *ast.RangeStmt:
		x.expr(v.X)
		body := x.sub(func() { x.within("loop", func() { x.blockRole(v.Body.List, "loop") }) })
		if len(body) == 0 {
			return
		}
		n := x.emit("for", "range "+fc.p(v.X))
		n.kids = body
	case *ast.ReturnStmt:
		if x.ictx != nil {
			x.inlinedReturn(v)
			return
		}
		for _, r := range v.Results {
			x.expr(r)
		}
		rets := x.rets || (x.front && x.inSw > 0)
		if !rets {
			return
		}
		parts := make([]string, len(v.Results))
		for i, r := range v.Results {
			// `x := f(…); return x`  ≡  `return f(…)`
			if id, ok := stripParen(r).(*ast.Ident); ok {
				if o := fc.obj(id); o != nil && fc.isLocal(o) && fc.defs[o] == 1 && fc.uses[o] == 1 && fc.mut[loc{o, ""}] == 0 && !fc.anyMut[o] {
					if c, ok := fc.rhs[o].(*ast.CallExpr); ok {
						r = c
					}
				}
			}
			if c, ok := r.(*ast.CallExpr); ok {
				f := staticCallee(fc.info, c)
				wire := replySource(fc.info, c)
				switch {
				case wire:
					parts[i] = "<reply>"
				case f != nil && f.Pkg() != nil && f.Pkg().Path() == "strings":
					parts[i] = fc.p(r)
				case f != nil:
					parts[i] = f.Name() + "(…)"
				default:
					parts[i] = fc.p(r)
				}
			} else {
				parts[i] = fc.p(r)
			}
		}
		x.emit("ret", strings.Join(parts, ", "))
	case *ast.DeferStmt:
		body := x.sub(func() { x.call(v.Call) })
		if len(body) > 0 {
			n := x.emit("defer", "")
			n.kids = body
		}
	case *ast.SwitchStmt:
		if chain := x.switchChain(v); chain != nil {
			x.stmt(v.Init)
			x.inSw++
			x.ifStmt(chain)
			x.inSw--
			return
		}
		x.stmt(v.Init)
		x.expr(v.Tag)
		var cases []*node
		for _, c := range v.Body.List {
			cc := c.(*ast.CaseClause)
			hdr := "default"
			if cc.List != nil {
				parts := []string{}
				for _, e := range cc.List {
					if v.Tag == nil {
						parts = append(parts, fc.cond(e, false))
					} else {
						parts = append(parts, fc.p(e))
					}
				}
				hdr = strings.Join(parts, ", ")
			}
			x.inSw++
			its := x.sub(func() { x.within("switch", func() { x.block(cc.Body) }) })
			x.inSw--
			if len(its) > 0 || x.front {
				cases = append(cases, &node{kind: "case", text: hdr, kids: its})
			}
		}
		if len(cases) == 0 {
			return
		}
		tag := ""
		if v.Tag != nil {
			tag = fc.p(v.Tag)
		}
		n := x.emit("switch", tag)
		n.kids = cases
	case *ast.BlockStmt:
		x.block(v.List)
	case *ast.BranchStmt:
		switch {
		case x.front && x.inSw > 0 && v.Tok == token.FALLTHROUGH:
			x.emit("fallthrough", "")
		case v.Tok == token.BREAK && (x.innerLoop() || v.Label != nil):
			x.emit("break", "")
		case v.Tok == token.CONTINUE:
			x.emit("continue", "")
		}
	case *ast.IncDecStmt, *ast.EmptyStmt:
	case *ast.LabeledStmt:
		x.stmt(v.Stmt)
	case *ast.TypeSwitchStmt, *ast.GoStmt, *ast.SelectStmt, *ast.SendStmt:
		its := x.sub(func() {
			ast.Inspect(v, func(n ast.Node) bool {
				if c, ok := n.(*ast.CallExpr); ok {
					x.call(c)
				}
				return true
			})
		})
		if len(its) > 0 {
			problem("%s: statement kind %T containing calls is not understood: %s", x.fn, s, rawText(s))
		}
	default:
		problem("%s: statement kind %T not understood", x.fn, s)
	}
}

var phRe = regexp.MustCompile("\x01(\\d+)\x02")
var fnameRe = regexp.MustCompile(`^f\d+$`)

func placeholders(s string) []int {
	var out []int
	for _, m := range phRe.FindAllStringSubmatch(s, -1) {
		n, _ := strconv.Atoi(m[1])
		out = append(out, n)
	}
	return out
}

// skeletonOf: the finished skeleton tree of one function.
func skeletonOf(fi *fnInfo, rets, front bool, fn string, inline map[*fnInfo]bool) []*node {
	fc := newCtx(fi)
	var top []*node
	x := &ex{cur: &top, rets: rets, front: front, fn: fn, fc: fc, inline: inline}
	role := ""
	if fi.decl.Type.Results == nil || len(fi.decl.Type.Results.List) == 0 {
		role = "func"
	}
	x.blockRole(fi.decl.Body.List, role)

	var assigns []*node
	var collect func(l []*node)
	collect = func(l []*node) {
		for _, n := range l {
			if n.final {
				continue
			}
			if n.isAssign {
				assigns = append(assigns, n)
			}
			collect(n.kids)
		}
	}
	collect(top)
	keep := map[*node]bool{}
	live := map[*node]bool{}
	// hard: shown for its own sake.  break / continue are shown iff their loop is.
	var hard func(n *node) bool
	hard = func(n *node) bool {
		if n.final {
			return true
		}
		if n.isAssign {
			return keep[n]
		}
		switch n.kind {
		case "send", "call", "abort", "warn", "ret", "fallthrough", "":
			return true
		case "break", "continue":
			return false
		case "switch":
			if front {
				return true
			}
		case "closure":
			if fnameRe.MatchString(n.text) {
				return true
			}
		}
		for _, k := range n.kids {
			if hard(k) {
				return true
			}
		}
		return false
	}
	var mark func(l []*node, loopLive bool) bool
	mark = func(l []*node, loopLive bool) bool {
		any := false
		for i, n := range l {
			lv := false
			switch {
			case n.final:
				lv = true
			case n.isAssign:
				lv = keep[n]
			case n.kind == "break" || n.kind == "continue":
				lv = loopLive
			case n.kind == "for":
				lv = mark(n.kids, hard(n))
			case n.kind == "closure":
				lv = mark(n.kids, false) || fnameRe.MatchString(n.text)
			case n.kind == "case":
				lv = mark(n.kids, loopLive) || front
			default:
				sub := mark(n.kids, loopLive)
				lv = sub || hard(n)
			}
			if lv && n.kind == "else" && i > 0 && l[i-1].kind == "if" {
				live[l[i-1]] = true
			}
			live[n] = lv
			any = any || lv
		}
		return any
	}
	for changed := true; changed; {
		changed = false
		for n := range live {
			delete(live, n)
		}
		mark(top, false)
		relevant := map[int]bool{}
		for n, lv := range live {
			if !lv || n.final {
				continue
			}
			if n.isAssign {
				for _, i := range placeholders(n.rhs) {
					relevant[i] = true
				}
				continue
			}
			for _, i := range placeholders(n.text) {
				relevant[i] = true
			}
			for _, e := range n.extra {
				for _, i := range placeholders(e) {
					relevant[i] = true
				}
			}
		}
		for _, a := range assigns {
			if keep[a] {
				continue
			}
			k := a.always
			if !k && a.carries {
				for _, i := range placeholders(a.lhs) {
					if relevant[i] {
						k = true
					}
				}
			}
			if k {
				keep[a] = true
				changed = true
			}
		}
	}
	var prune func(l []*node) []*node
	prune = func(l []*node) []*node {
		var out []*node
		for _, n := range l {
			if !live[n] || n.kind == "" {
				continue
			}
			if !n.final {
				n.kids = prune(n.kids)
			}
			out = append(out, n)
		}
		return out
	}
	top = prune(top)
	// names in the order of first appearance
	names := map[int]string{}
	nr, nv := 0, 0
	rename := func(s string) string {
		return phRe.ReplaceAllStringFunc(s, func(m string) string {
			i, _ := strconv.Atoi(m[1 : len(m)-1])
			if nm, ok := names[i]; ok {
				return nm
			}
			var nm string
			if fc.reply[fc.lazy[i]] {
				nr++
				nm = fmt.Sprintf("r%d", nr)
			} else {
				nv++
				nm = fmt.Sprintf("v%d", nv)
			}
			names[i] = nm
			return nm
		})
	}
	var walk func(l []*node)
	walk = func(l []*node) {
		for _, n := range l {
			if n.final {
				continue
			}
			n.text = rename(n.text)
			walk(n.kids)
		}
	}
	walk(top)
	return top
}

type item struct {
	depth int
	kind  string
	text  string
}

func flatten(l []*node, d int, out *[]item) {
	for _, n := range l {
		// `else { if c {…} [else {…}] }` is written `elif c … [else …]` at the depth of the chain
		if n.kind == "else" && len(n.kids) >= 1 && n.kids[0].kind == "if" &&
			(len(n.kids) == 1 || len(n.kids) == 2 && n.kids[1].kind == "else") {
			*out = append(*out, item{d, "elif", n.kids[0].text})
			flatten(n.kids[0].kids, d+1, out)
			flatten(n.kids[1:], d, out)
			continue
		}
		*out = append(*out, item{d, n.kind, n.text})
		flatten(n.kids, d+1, out)
	}
}

func leanStr(s string) string {
	var b strings.Builder
	b.WriteByte('"')
	for _, r := range s {
		switch r {
		case '"':
			b.WriteString("\\\"")
		case '\\':
			b.WriteString("\\\\")
		case '\n':
			b.WriteString("\\n")
		case '\t':
			b.WriteString("\\t")
		case '\r':
			b.WriteString("\\r")
		default:
			if r < 32 || r == 127 {
				fmt.Fprintf(&b, "\\x%02x", r)
			} else {
				b.WriteRune(r)
			}
		}
	}
	b.WriteByte('"')
	return b.String()
}

func main() {
	repo := flag.String("repo", "/repo", "repository root")
	out := flag.String("out", "", "Lean file to write (default stdout)")
	flag.Parse()

	cfg := &packages.Config{
		Mode: packages.NeedName | packages.NeedFiles | packages.NeedSyntax | packages.NeedTypes | packages.NeedTypesInfo |
			packages.NeedImports | packages.NeedDeps,
		Dir: filepath.Join(*repo, "go"),
	}
	pkgs, err := packages.Load(cfg, "./pkg/...")
	if err != nil {
		fmt.Fprintln(os.Stderr, "gateskel: load:", err)
		os.Exit(1)
	}
	sort.Slice(pkgs, func(i, j int) bool { return pkgs[i].PkgPath < pkgs[j].PkgPath })
	for _, p := range pkgs {
		for _, e := range p.Errors {
			problem("package %s: %v", p.PkgPath, e)
		}
		if fset == nil {
			fset = p.Fset
		}
		rel, ok := relPkg(p.PkgPath)
		if !ok || p.Types == nil {
			continue
		}
		scope := p.Types.Scope()
		for _, nm := range scope.Names() {
			if tn, ok := scope.Lookup(nm).(*types.TypeName); ok && !tn.IsAlias() {
				if n, ok := tn.Type().(*types.Named); ok {
					namedTypes = append(namedTypes, n)
				}
			}
		}
		for _, f := range p.Syntax {
			for _, d := range f.Decls {
				fd, ok := d.(*ast.FuncDecl)
				if !ok || fd.Body == nil {
					continue
				}
				obj, _ := p.TypesInfo.Defs[fd.Name].(*types.Func)
				if obj == nil {
					continue
				}
				_, rn := recvTypeName(obj)
				fi := &fnInfo{pkg: rel, recv: rn, name: fd.Name.Name, decl: fd, info: p.TypesInfo, obj: obj}
				declOf[obj] = fi
				allFns = append(allFns, fi)
			}
		}
	}
	if fset == nil {
		fmt.Fprintln(os.Stderr, "gateskel: no packages")
		os.Exit(1)
	}
	find := func(t target) *fnInfo {
		for _, fi := range allFns {
			if fi.pkg == t.pkg && fi.recv == t.recv && fi.name == t.name {
				return fi
			}
		}
		return nil
	}
	for _, t := range targets {
		if fi := find(t); fi != nil {
			fi.listed = true
		}
	}

	type fnOut struct {
		key   string
		items []item
	}
	var outs []fnOut
	for _, t := range targets {
		fi := find(t)
		if fi == nil {
			key := t.pkg + "." + t.name
			if t.recv != "" {
				key = t.pkg + ".(*" + t.recv + ")." + t.name
			}
			problem("function %s not found in go/pkg/%s", key, t.pkg)
			continue
		}
		tree := skeletonOf(fi, t.rets, t.front, fi.key(), map[*fnInfo]bool{fi: true})
		var items []item
		flatten(tree, 0, &items)
		outs = append(outs, fnOut{fi.key(), items})
	}

	type kv struct{ k, v string }
	var writes, gates []kv
	sort.SliceStable(allFns, func(i, j int) bool { return allFns[i].key() < allFns[j].key() })
	for _, fi := range allFns {
		fd := fi.decl
		key := fi.key()
		fc := newCtx(fi)
		ast.Inspect(fd.Body, func(n ast.Node) bool {
			switch v := n.(type) {
			case *ast.AssignStmt:
				for _, l := range v.Lhs {
					if sel, ok := l.(*ast.SelectorExpr); ok && sel.Sel.Name == "errUnmanaged" {
						writes = append(writes, kv{key, rawText(v)})
					}
				}
			case *ast.UnaryExpr:
				if sel, ok := v.X.(*ast.SelectorExpr); ok && v.Op == token.AND && sel.Sel.Name == "errUnmanaged" {
					problem("%s: address of errUnmanaged taken", key)
				}
			}
			return true
		})
		if fd.Name.Name == "GetErrUnmanaged" {
			if len(fd.Body.List) == 1 {
				if rs, ok := fd.Body.List[0].(*ast.ReturnStmt); ok && len(rs.Results) == 1 {
					gates = append(gates, kv{key, fc.p(rs.Results[0])})
					continue
				}
			}
			gates = append(gates, kv{key, "<complex body>"})
		}
	}

	if len(problems) > 0 {
		for _, p := range problems {
			fmt.Fprintln(os.Stderr, "gateskel:", p)
		}
		os.Exit(1)
	}

	var b strings.Builder
	b.WriteString("/- GENERATED by translate/gateskel from the Go source of go/pkg — do not edit, not committed. -/\n")
	b.WriteString("namespace NA.Gen.GateSkel\n\n")
	b.WriteString("/-- (depth, kind, text) -/\nabbrev Item := Nat × String × String\n\n")
	b.WriteString("def functions : List (String × List Item) := [\n")
	for i, o := range outs {
		fmt.Fprintf(&b, "  (%s, [", leanStr(o.key))
		for j, it := range o.items {
			if j > 0 {
				b.WriteString(",")
			}
			fmt.Fprintf(&b, "\n    (%d, %s, %s)", it.depth, leanStr(it.kind), leanStr(it.text))
		}
		b.WriteString("])")
		if i+1 < len(outs) {
			b.WriteString(",")
		}
		b.WriteString("\n")
	}
	b.WriteString("]\n\n")
	wr := func(name string, l []kv) {
		fmt.Fprintf(&b, "def %s : List (String × String) := [", name)
		for i, e := range l {
			if i > 0 {
				b.WriteString(",")
			}
			fmt.Fprintf(&b, "\n  (%s, %s)", leanStr(e.k), leanStr(e.v))
		}
		b.WriteString("]\n\n")
	}
	wr("errUnmanagedWrites", writes)
	wr("gateImpls", gates)
	b.WriteString("end NA.Gen.GateSkel\n")

	if *out == "" {
		fmt.Print(b.String())
		return
	}
	os.MkdirAll(filepath.Dir(*out), 0755)
	if old, err := os.ReadFile(*out); err == nil && string(old) == b.String() {
		return
	}
	tmp := *out + ".tmp"
	if err := os.WriteFile(tmp, []byte(b.String()), 0644); err != nil {
		fmt.Fprintln(os.Stderr, err)
		os.Exit(1)
	}
	if err := os.Rename(tmp, *out); err != nil {
		fmt.Fprintln(os.Stderr, err)
		os.Exit(1)
	}
}
