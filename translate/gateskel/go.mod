module gateskel

go 1.23
