#!/bin/bash
# usage: tools/run_all.sh quick|thorough   — runs every claimed check on /repo, one line per property
cd "$(dirname "$(readlink -f "$0")")/.."
TIER=${1:-quick}
for p in $(python3 -c "import json;print(' '.join(c['property_id'] for c in json.load(open('MANIFEST.json'))['checks']))"); do
  s=$(date +%s); out=$(./check $p $TIER 2>&1); rc=$?; e=$(date +%s)
  echo "$p rc=$rc $((e-s))s | $(echo "$out" | tail -1 | cut -c1-170)"
  echo "$out" | grep "^VIOLATION" | head -3
done
