#!/usr/bin/env python3
"""Regenerate known/rates.json from evidence of runs on the UNCHANGED tree.
usage: tools/known_rates.py [seeds...]   (default 1 2 3; runs ./check Cxx quick for every claimed property and seed,
keeps per property and known finding the highest rate hits/evaluations).
       tools/known_rates.py --from-evidence thorough   (takes the rates of tier thorough from the evidence files of a
thorough run that has just finished green, without running anything).
The file holds one table per tier: {"quick": {prop: {finding: rate}}, "thorough": {...}}.  Run only when /repo is the unchanged
tree and all checks are green; the file is committed and never written by ./check."""
import json, os, subprocess, sys
V = os.path.dirname(os.path.dirname(os.path.abspath(__file__)))
rp = os.path.join(V, "known", "rates.json")
allr = json.load(open(rp)) if os.path.exists(rp) else {}
if "quick" not in allr and "thorough" not in allr:
    allr = {}
tier = "quick"
from_ev = len(sys.argv) > 2 and sys.argv[1] == "--from-evidence"
if from_ev:
    tier = sys.argv[2]
seeds = [] if from_ev else (sys.argv[1:] or ["1", "2", "3"])
props = [c["property_id"] for c in json.load(open(os.path.join(V, "MANIFEST.json")))["checks"]]
rates = {}
def take(p):
    ev = json.load(open(os.path.join(V, "evidence", p + ".json")))
    if ev.get("tier") != tier:
        print(p, "evidence is of tier", ev.get("tier"), "- skipped")
        return
    for i, c in (ev["coverage"].get("known_findings_hit_counts") or {}).items():
        if c["evaluations_of_reporting_harnesses"]:
            rate = c["hits"] / c["evaluations_of_reporting_harnesses"]
            rates.setdefault(p, {})[i] = max(rates.get(p, {}).get(i, 0.0), round(rate, 5))
if from_ev:
    for p in props:
        take(p)
for p in props:
    for s in seeds:
        r = subprocess.run(["./check", p, "quick"], cwd=V, env=dict(os.environ, VERIF_SEED=s), capture_output=True, text=True)
        last = (r.stdout.strip().splitlines() or [""])[-1]
        print(p, s, r.returncode, last[:140], flush=True)
        if r.returncode != 0:
            continue
        take(p)
allr[tier] = rates
json.dump(allr, open(rp, "w"), indent=1, sort_keys=True)
print("written known/rates.json")
