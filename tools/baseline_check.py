#!/usr/bin/env python3
"""Run the repository's test suite (guard off) in a directory and compare with BASELINE.json's stable_pass.
usage: baseline_check.py [repo_root]   (default /repo)"""
import json, subprocess, sys, os
root = sys.argv[1] if len(sys.argv) > 1 else "/repo"
base = json.load(open("/root/.vp/BASELINE.json"))
want = set(base["stable_pass"])
env = dict(os.environ, GOFLAGS="-mod=mod", GOPROXY="off", GOSUMDB="off", GOTOOLCHAIN="local")
p = subprocess.run(["go", "test", "-json", "-vet=off", "-count=1", "-timeout", "25m", "./..."], cwd=os.path.join(root, "go"),
                   env=env, stdout=subprocess.PIPE, stderr=subprocess.STDOUT, text=True)
passed = set()
for line in p.stdout.splitlines():
    try:
        e = json.loads(line)
    except Exception:
        continue
    if e.get("Action") == "pass" and e.get("Test"):
        passed.add("%s::%s" % (e["Package"], e["Test"]))
missing = sorted(want - passed)
print("stable_pass %d, passed now %d, missing %d" % (len(want), len(want & passed), len(missing)))
for m in missing[:40]:
    print("  MISSING", m)
sys.exit(1 if missing else 0)
