#!/bin/bash
# usage: tools/try_seed.sh <prop> <dir with patch.diff demo.sh meta.json> [tier] [extra props to run...]
# Confirms a seeded change in a scratch worktree of /repo HEAD (compiles, suite as baseline, demo discriminates)
# and runs ./check <prop> against it (VERIF_REPO). Prints a summary; exit 0 = detected.
set -u
PROP=$1; DIR=$2; TIER=${3:-quick}; shift 3 2>/dev/null || shift $#
export GOFLAGS=-mod=mod GOPROXY=off GOSUMDB=off GOTOOLCHAIN=local
WT=/tmp/try/$PROP-$(basename $DIR)-$$
mkdir -p /tmp/try
git -C /repo worktree add --detach $WT HEAD -q || exit 2
cleanup() { git -C /repo worktree remove --force $WT >/dev/null 2>&1; }
trap cleanup EXIT
echo "== demo on unchanged tree"; (bash $DIR/demo.sh $WT >/tmp/try/demo0.log 2>&1; echo "exit $?")
git -C $WT checkout -q -- . ; git -C $WT clean -fdq
if ! git -C $WT apply $DIR/patch.diff; then echo "PATCH DOES NOT APPLY"; exit 3; fi
echo "== build"; (cd $WT/go && go build ./... && go build -tags verif ./... && echo build-ok) || { echo BUILD-FAILS; exit 4; }
echo "== suite vs baseline"; python3 /verif/tools/baseline_check.py $WT | head -5
echo "== demo with change"; (bash $DIR/demo.sh $WT >/tmp/try/demo1.log 2>&1; echo "exit $?")
git -C $WT clean -fdq
RC=1
for P in $PROP "$@"; do
  echo "== ./check $P $TIER against the change"
  (cd /verif && VERIF_REPO=$WT ./check $P $TIER 2>&1 | grep -v "^KNOWN-FINDING" | tail -4 | cut -c1-400)
  if [ ${PIPESTATUS[0]} -ne 0 ]; then :; fi
done
