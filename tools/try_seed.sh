#!/bin/bash
# usage: tools/try_seed.sh <prop> <dir with patch.diff demo.sh meta.json> [tier] [extra props to run...]
# Confirms a seeded change in a scratch worktree of /repo HEAD (patch applies, compiles, suite as baseline,
# demo exits 0 without and non-zero with the change), runs ./check <prop> against it (VERIF_REPO) and stores
# everything under /verif/seeded/<prop>-<name>/ (patch.diff, demo files, meta.json, confirm.txt).
set -u
PROP=$1; DIR=$2; TIER=${3:-quick}; shift; shift; shift 2>/dev/null
export GOFLAGS=-mod=mod GOPROXY=off GOSUMDB=off GOTOOLCHAIN=local
NAME=$(basename $DIR)
WT=/tmp/try/$PROP-$NAME-$$
OUTNAME=${OUTNAME:-$PROP-$NAME}
V=${V:-/verif}
OUT=/verif/seeded/$OUTNAME
mkdir -p /tmp/try $OUT
cp -r $DIR/patch.diff $DIR/demo.sh $DIR/meta.json $OUT/ 2>/dev/null
for f in $DIR/*.go $DIR/*.pl $DIR/*.sh; do [ -f "$f" ] && cp "$f" $OUT/ ; done
LOG=$OUT/confirm.txt
: > $LOG
git -C /repo worktree add --detach $WT HEAD -q || exit 2
cleanup() { git -C /repo worktree remove --force $WT >/dev/null 2>&1; H=$(python3 -c "import hashlib,os,sys;print(hashlib.sha256(os.path.realpath(sys.argv[1]).encode()).hexdigest()[:8])" $WT); rm -rf $V/harness/bin-alt-$H $V/harness/go.bin-alt-$H.*; }
trap cleanup EXIT
echo "repo HEAD: $(git -C /repo rev-parse --short HEAD)   verif HEAD: $(git -C /verif rev-parse --short HEAD)" >> $LOG
(bash $DIR/demo.sh $WT >/tmp/try/demo0.log 2>&1); D0=$?
echo "demo.sh on unchanged tree: exit $D0" | tee -a $LOG
git -C $WT checkout -q -- . ; git -C $WT clean -fdq
if ! git -C $WT apply $DIR/patch.diff; then echo "PATCH DOES NOT APPLY" | tee -a $LOG; exit 3; fi
if (cd $WT/go && go build ./... && go build -tags verif ./...); then echo "build (with and without -tags verif): ok" | tee -a $LOG; else echo "BUILD FAILS" | tee -a $LOG; exit 4; fi
python3 /verif/tools/baseline_check.py $WT | head -4 | tee -a $LOG
(bash $DIR/demo.sh $WT >/tmp/try/demo1.log 2>&1); D1=$?
echo "demo.sh with the change: exit $D1" | tee -a $LOG
git -C $WT clean -fdq
for P in $PROP "$@"; do
  echo "== VERIF_REPO=<worktree with change> ./check $P $TIER" | tee -a $LOG
  (cd $V && VERIF_REPO=$WT ./check $P $TIER 2>&1 | grep -v "^KNOWN-FINDING" | tail -4 | cut -c1-500) | tee -a $LOG
done
