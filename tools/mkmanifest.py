#!/usr/bin/env python3
"""Regenerate MANIFEST.json from props.json (single source of truth for claimed checks)."""
import json, os
V = os.path.dirname(os.path.dirname(os.path.abspath(__file__)))
props = {f[:-5]: json.load(open(os.path.join(V, "props", f))) for f in sorted(os.listdir(os.path.join(V, "props"))) if f.endswith(".json")}
allids = ["C%02d" % i for i in range(1, 21)]
hooks_commits = []
hp = os.path.join(V, "MANIFEST.hooks")
if os.path.exists(hp):
    for line in open(hp):
        line = line.strip()
        if line and not line.startswith("#"):
            hooks_commits.append(line.split()[0])
checks = []
for pid in allids:
    if pid not in props or not props[pid].get("ready"):
        continue
    c = props[pid]
    checks.append({
        "property_id": pid,
        "quick_cmd": "./check %s quick" % pid,
        "thorough_cmd": "./check %s thorough" % pid,
        "evidence_file": "/verif/evidence/%s.json" % pid,
        "replay_cmd_template": "./check %s --replay {path}" % pid,
        "engine": "lean4-proof+correspondence",
        "level_claimed": {"category": "proof", "text": c["level_text"], "design_ref": c.get("design_ref", "DESIGN.md section 6, " + pid)},
        "level_note": c["level_note"],
        "technique": c["technique"],
    })
na = []
reasons = json.load(open(os.path.join(V, "not_claimed.json"))) if os.path.exists(os.path.join(V, "not_claimed.json")) else {}
for pid in allids:
    if pid in props and props[pid].get("ready"):
        continue
    na.append({"property_id": pid, "reason": reasons.get(pid, "not built yet: the Lean model, theorems and tie for this property are not finished; nothing is claimed")})
m = {
    "version": 1,
    "setup_cmd": "cd /verif && ./check setup",
    "hooks": {
        "guard": "verif",
        "enable": "go build -tags verif (the harness module /verif/harness replaces github.com/hknutzen/Netspoc-Approve/go by /repo/go)",
        "baseline_off_cmd": "cd /repo/go && GOFLAGS=-mod=mod go test -json -vet=off -count=1 -timeout 25m ./...",
        "source_commits": hooks_commits,
        "add_only": True,
    },
    "engines": [{
        "name": "lean4-proof+correspondence",
        "path": "/verif/check",
        "serves_properties": [c["property_id"] for c in checks],
        "kind_free_text": "Lean 4 theorems about executable models (lake project /verif/lean, core-only driver nadrv) + Go harness that runs /repo in-process (-tags verif), compares model and implementation on generated cases and runs a specification-side oracle",
    }],
    "checks": checks,
    "not_applicable": na,
    "notes": "Every check: regenerate facts from /repo, lake build the property's theorems, audit axioms, build harness against /repo, correspondence + oracle, verdict. See DESIGN.md.",
}
json.dump(m, open(os.path.join(V, "MANIFEST.json"), "w"), indent=1)
print("MANIFEST.json:", len(checks), "checks,", len(na), "not claimed")
