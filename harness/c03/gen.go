package main

// Generators of PAN-OS device / Netspoc configuration pairs.  Structured: a device vsys is
// built from pools of addresses, services, zones; the target is derived from it by a few
// mutations (rules inserted / deleted / reordered / changed, member lists grown / shrunk a
// little or a lot, groups renamed / shared / split / merged / inlined / name-swapped, equal
// names with different values, unknown attributes), or generated independently, or identical.
// Parts of the target may be moved to a raw file (prepended rules, <APPEND/> rules) or an
// IPv6 file.  All randomness comes from the RNG handed in.

import (
	"fmt"
	"sort"
	"strings"

	. "verifharness/vhlib"

	"github.com/hknutzen/Netspoc-Approve/go/pkg/panos"
)

type gRule struct {
	Name, Action, From, To string
	Src, Dst, Srv          []string
	// "" = the value every generated rule has (any / yes / yes / absent / interzone)
	App, LogStart, LogEnd, LogSetting, RuleType string
	Extra                                       string
	Append                                      bool
}

// Kind: "" = ip-netmask, else ip-range / fqdn (kinds the planner does not know by name)
type gAddr struct{ Name, IP, Extra, Kind string }
type gSvc struct{ Name, Proto, Port, Extra, PortExtra, ProtoExtra string }
type gGrp struct {
	Name    string
	Members []string
}

type gVsys struct {
	Name, Display string
	Rules         []gRule
	Addrs         []gAddr
	Groups        []gGrp
	Svcs          []gSvc
	SGroups       []gGrp
}

// caseInput is everything needed to replay one case on the real code.
type caseInput struct {
	Dev        string   `json:"device"`         // device configuration file
	Spoc       string   `json:"netspoc"`        // Netspoc file
	V6         string   `json:"netspoc_ipv6"`   // ipv6/ file ("" = absent)
	Raw        string   `json:"netspoc_raw"`    // .raw file ("" = absent)
	Shared     []string `json:"shared_objects"` // names that exist in <shared> of the device
	Mode       string   `json:"mode"`
	Mutations  []string `json:"mutations,omitempty"`
	UseDrcMain bool     `json:"-"`
	gen        *genState
	// the target the generator meant, as one file (set when parts of it were moved to a raw / IPv6 file)
	expectText string
}

// genState lets a generated case be continued (chainCase).
type genState struct {
	w       *world
	tgt     []gVsys // the whole target, before parts were moved to raw / ipv6 files
	devName string
}

func (r gRule) xml() string {
	var b strings.Builder
	zones := func(tag, z string) string { return members(tag, strings.Split(z, ",")) }
	fmt.Fprintf(&b, `<entry name="%s">`, xmlEsc(r.Name))
	if r.Action != "-" {
		fmt.Fprintf(&b, `<action>%s</action>`, r.Action)
	}
	b.WriteString(zones("from", r.From) + zones("to", r.To))
	b.WriteString(members("source", r.Src) + members("destination", r.Dst) + members("service", r.Srv))
	// "" = the value every Netspoc rule has, "-" = the element is absent
	el := func(tag, v, d string) {
		switch v {
		case "-":
		case "":
			fmt.Fprintf(&b, `<%s>%s</%s>`, tag, d, tag)
		default:
			fmt.Fprintf(&b, `<%s>%s</%s>`, tag, v, tag)
		}
	}
	switch r.App {
	case "-":
	case "":
		b.WriteString(`<application><member>any</member></application>`)
	default:
		b.WriteString(members("application", strings.Split(r.App, ",")))
	}
	el("rule-type", r.RuleType, "interzone")
	el("log-start", r.LogStart, "yes")
	el("log-end", r.LogEnd, "yes")
	if r.LogSetting != "" {
		b.WriteString("<log-setting>" + r.LogSetting + "</log-setting>")
	}
	b.WriteString(r.Extra)
	if r.Append {
		b.WriteString("<APPEND/>")
	}
	b.WriteString("</entry>")
	return b.String()
}

func (v gVsys) xml() string {
	var b strings.Builder
	fmt.Fprintf(&b, `<entry name="%s">`, xmlEsc(v.Name))
	if v.Display != "" {
		b.WriteString("<display-name>" + xmlEsc(v.Display) + "</display-name>")
	}
	if len(v.Rules) > 0 {
		b.WriteString("<rulebase><security><rules>\n")
		for _, r := range v.Rules {
			b.WriteString(r.xml() + "\n")
		}
		b.WriteString("</rules></security></rulebase>")
	}
	if len(v.Addrs) > 0 {
		b.WriteString("<address>")
		for _, o := range v.Addrs {
			kind := o.Kind
			if kind == "" {
				kind = "ip-netmask"
			}
			fmt.Fprintf(&b, `<entry name="%s"><%s>%s</%s>%s</entry>`, xmlEsc(o.Name), kind, o.IP, kind, o.Extra)
		}
		b.WriteString("</address>")
	}
	if len(v.Groups) > 0 {
		b.WriteString("<address-group>")
		for _, g := range v.Groups {
			fmt.Fprintf(&b, `<entry name="%s">%s</entry>`, xmlEsc(g.Name), members("static", g.Members))
		}
		b.WriteString("</address-group>")
	}
	if len(v.Svcs) > 0 {
		b.WriteString("<service>")
		for _, o := range v.Svcs {
			fmt.Fprintf(&b, `<entry name="%s"><protocol><%s><port>%s</port>%s</%s>%s</protocol>%s</entry>`,
				xmlEsc(o.Name), o.Proto, o.Port, o.PortExtra, o.Proto, o.ProtoExtra, o.Extra)
		}
		b.WriteString("</service>")
	}
	if len(v.SGroups) > 0 {
		b.WriteString("<service-group>")
		for _, g := range v.SGroups {
			fmt.Fprintf(&b, `<entry name="%s">%s</entry>`, xmlEsc(g.Name), members("members", g.Members))
		}
		b.WriteString("</service-group>")
	}
	b.WriteString("</entry>")
	return b.String()
}

func configXML(devName string, vs []gVsys, asResponse bool) string {
	var b strings.Builder
	fmt.Fprintf(&b, `<devices><entry name="%s"><deviceconfig><system><hostname>router</hostname></system></deviceconfig><vsys>`, xmlEsc(devName))
	for _, v := range vs {
		b.WriteString(v.xml())
	}
	b.WriteString("</vsys></entry></devices>")
	if asResponse {
		return "https://device/api/?key=xxx&type=config&action=get&xpath=/config/devices\n" +
			`<response status="success"><result>` + b.String() + "</result></response>"
	}
	return "<config>" + b.String() + "</config>"
}

// ---------------------------------------------------------------- world

type world struct {
	rng       *RNG
	addrs     []gAddr
	svcs      []gSvc
	zones     []string
	sharedA   []string
	sharedS   []string
	grpSeq    int
	oddNames  bool
	plain     bool // no address-groups and no service-groups: the fragment of the whole-vsys theorems
	mutations []string
}

func newWorld(rng *RNG) *world {
	w := &world{rng: rng, zones: []string{"z1", "z2", "z3"},
		sharedA: []string{"SHARED_NET"}, sharedS: []string{"tcp 81 from shared"}}
	w.oddNames = rng.Chance(12)
	n := 6 + rng.Intn(8)
	for i := 1; i <= n; i++ {
		name := fmt.Sprintf("IP_10.1.1.%d", i)
		if i%5 == 0 {
			name = fmt.Sprintf("NET_10.1.%d.0_24", i)
		}
		if w.oddNames && i%3 == 0 {
			name = []string{"host a", "h+b", "x&y", "größe", "a%41", "semi;colon", "IP 10.1.1.3 "}[rng.Intn(7)] + fmt.Sprint(i)
		}
		w.addrs = append(w.addrs, gAddr{Name: name, IP: fmt.Sprintf("10.1.1.%d/32", i)})
	}
	if rng.Chance(35) {
		// addresses whose names have the very shape that the code gives to a group it has to transfer under a fresh
		// name (`G-1`, `G-2`): addresses and address-groups share one name space on the device (seeded change C03-W1)
		for k, m := 0, 1+rng.Intn(4); k < m; k++ {
			name := fmt.Sprintf("g%d-%d", rng.Intn(6), 1+rng.Intn(2))
			dup := false
			for _, a := range w.addrs {
				dup = dup || a.Name == name
			}
			if !dup {
				w.addrs = append(w.addrs, gAddr{Name: name, IP: fmt.Sprintf("10.1.2.%d/32", 10+k)})
			}
		}
	}
	w.addrs = append(w.addrs, gAddr{Name: "RANGE_10.1.1.3-7", IP: "10.1.1.3-10.1.1.7", Kind: "ip-range"},
		gAddr{Name: "FQDN_a.example.com", IP: "a.example.com", Kind: "fqdn"})
	for _, p := range []string{"tcp 80", "tcp 443", "udp 123", "tcp 22", "udp 53", "tcp 8080"} {
		f := strings.Fields(p)
		w.svcs = append(w.svcs, gSvc{Name: p, Proto: f[0], Port: f[1]})
	}
	return w
}

func (w *world) note(m string) { w.mutations = append(w.mutations, m) }

func (w *world) pickAddrs(min, max int) []string {
	n := min + w.rng.Intn(max-min+1)
	if n > len(w.addrs) {
		n = len(w.addrs)
	}
	idx := make([]int, len(w.addrs))
	for i := range idx {
		idx[i] = i
	}
	Shuffle(w.rng, idx)
	var l []string
	for _, i := range idx[:n] {
		l = append(l, w.addrs[i].Name)
	}
	return l
}

func (w *world) newGroupName(v *gVsys) string {
	for {
		w.grpSeq++
		n := fmt.Sprintf("g%d", w.rng.Intn(6)+w.grpSeq/4)
		clash := false
		for _, g := range v.Groups {
			if g.Name == n {
				clash = true
			}
		}
		if !clash {
			return n
		}
	}
}

func (w *world) addrList(v *gVsys) []string {
	k := w.rng.Intn(100)
	switch {
	case k < 14:
		return []string{"any"}
	case k < 44 && len(v.Groups) > 0:
		return []string{Pick(w.rng, v.Groups).Name}
	case k < 84:
		return w.pickAddrs(1, 5)
	case k < 94 && len(v.Groups) > 0:
		l := w.pickAddrs(0, 2)
		l = append(l, Pick(w.rng, v.Groups).Name)
		if len(v.Groups) > 1 && w.rng.Bool() {
			g := Pick(w.rng, v.Groups).Name
			if g != l[len(l)-1] {
				l = append(l, g)
			}
		}
		Shuffle(w.rng, l)
		return l
	case k < 97:
		return append(w.pickAddrs(0, 2), w.sharedA[0])
	}
	return w.pickAddrs(1, 3)
}

func (w *world) srvList(v *gVsys) []string {
	k := w.rng.Intn(100)
	switch {
	case k < 20:
		return []string{"any"}
	case k < 25:
		return []string{"application-default"}
	case k < 36 && len(v.SGroups) > 0:
		return []string{Pick(w.rng, v.SGroups).Name}
	case k < 40:
		return []string{w.sharedS[0]}
	}
	n := 1 + w.rng.Intn(3)
	idx := w.rng.Intn(len(w.svcs))
	var l []string
	for i := 0; i < n; i++ {
		l = append(l, w.svcs[(idx+i*2)%len(w.svcs)].Name)
	}
	return uniq(l)
}

func uniq(l []string) []string {
	seen := map[string]bool{}
	var r []string
	for _, s := range l {
		if !seen[s] {
			seen[s] = true
			r = append(r, s)
		}
	}
	return r
}

func (w *world) rule(v *gVsys, name string) gRule {
	r := gRule{Name: name, Action: "allow", From: Pick(w.rng, w.zones), To: Pick(w.rng, w.zones)}
	if w.rng.Chance(25) {
		r.Action = "drop"
	}
	r.Src, r.Dst, r.Srv = w.addrList(v), w.addrList(v), w.srvList(v)
	if w.rng.Chance(6) {
		r.LogSetting = "TDC-Panorama"
	}
	if w.rng.Chance(8) {
		r.Extra = Pick(w.rng, unknownAttrs)
	}
	// not what Netspoc writes: hand-made device rules, rules of older releases, raw rules
	if w.rng.Chance(12) {
		r.RuleType = Pick(w.rng, ruleTypes)
	}
	if w.rng.Chance(5) {
		r.LogStart = Pick(w.rng, []string{"-", "no"})
	}
	if w.rng.Chance(5) {
		r.LogEnd = Pick(w.rng, []string{"-", "no"})
	}
	if w.rng.Chance(4) {
		r.To = r.To + "," + Pick(w.rng, w.zones)
		r.To = strings.Join(uniq(strings.Split(r.To, ",")), ",")
	}
	return r
}

// values of <rule-type>: "-" = absent (PAN-OS: universal), "" = interzone (what Netspoc writes)
var ruleTypes = []string{"-", "universal", "intrazone", ""}

// elements the planner does not know by name (compared as text by unknownEq)
var unknownAttrs = []string{"<description>x  y</description>",
	"<source-user><member>foo</member></source-user>", "<category><member>any</member></category>",
	"<tag>\n <member>t1</member>\n</tag>", "<disabled>yes</disabled>", "<disabled>no</disabled>",
	"<negate-source>yes</negate-source>", "<profile-setting><group><member>strict</member></group></profile-setting>",
	"<tag><member>t1</member><member>t2</member></tag>", ""}

func (w *world) deviceVsys(name string) gVsys {
	v := gVsys{Name: name, Display: "FW-managed-by-Netspoc"}
	if w.rng.Chance(6) {
		return v // empty device
	}
	for i, n := 0, w.rng.Intn(5); i < n && !w.plain; i++ {
		v.Groups = append(v.Groups, gGrp{Name: fmt.Sprintf("g%d", i), Members: w.pickAddrs(1, 6)})
	}
	if !w.plain && w.rng.Chance(35) {
		v.SGroups = append(v.SGroups, gGrp{Name: "HTTP-u-HTTPS", Members: []string{"tcp 80", "tcp 443"}})
	}
	n := w.rng.Intn(8)
	for i := 1; i <= n; i++ {
		name := fmt.Sprintf("r%d", i)
		switch k := w.rng.Intn(100); {
		case k < 15:
			name = fmt.Sprintf("r%d-%d", i, 1+w.rng.Intn(2))
		case k < 20:
			name = Pick(w.rng, []string{"raw1", "my rule", "raw-log", "x"}) + fmt.Sprint(i)
		}
		v.Rules = append(v.Rules, w.rule(&v, name))
	}
	return v
}

// breakCycles removes group members that close a cycle of address-groups: the real planner
// recurses through nested groups without a visited set and overflows its stack on a cycle
// (fatal, not recoverable in-process; such groups cannot exist on a device).
func breakCycles(v *gVsys) {
	idx := map[string]int{}
	for i, g := range v.Groups {
		idx[g.Name] = i
	}
	state := map[int]int{} // 1 = on path, 2 = done
	var visit func(i int)
	visit = func(i int) {
		state[i] = 1
		var keep []string
		for _, m := range v.Groups[i].Members {
			if j, ok := idx[m]; ok {
				if state[j] == 1 {
					continue // would close a cycle
				}
				if state[j] == 0 {
					visit(j)
				}
			}
			keep = append(keep, m)
		}
		v.Groups[i].Members = keep
		state[i] = 2
	}
	for i := range v.Groups {
		if state[i] == 0 {
			visit(i)
		}
	}
}

// complete defines exactly the referenced objects (plus `extra` unreferenced ones), taking
// definitions from `prev` where present (so that values survive) and from the pools otherwise.
func (w *world) complete(v *gVsys, extra int) {
	breakCycles(v)
	usedA := map[string]bool{}
	usedS := map[string]bool{}
	grp := map[string]*gGrp{}
	for i := range v.Groups {
		grp[v.Groups[i].Name] = &v.Groups[i]
	}
	sgrp := map[string]*gGrp{}
	for i := range v.SGroups {
		sgrp[v.SGroups[i].Name] = &v.SGroups[i]
	}
	usedG := map[string]bool{}
	usedSG := map[string]bool{}
	var markA func(n string, depth int)
	markA = func(n string, depth int) {
		if g := grp[n]; g != nil {
			if usedG[n] || depth > 4 {
				return
			}
			usedG[n] = true
			for _, m := range g.Members {
				markA(m, depth+1)
			}
			return
		}
		usedA[n] = true
	}
	for _, r := range v.Rules {
		for _, n := range r.Src {
			markA(n, 0)
		}
		for _, n := range r.Dst {
			markA(n, 0)
		}
		for _, n := range r.Srv {
			if g := sgrp[n]; g != nil {
				usedSG[n] = true
				for _, m := range g.Members {
					usedS[m] = true
				}
			} else {
				usedS[n] = true
			}
		}
	}
	var groups []gGrp
	for _, g := range v.Groups {
		if usedG[g.Name] || (extra > 0 && w.rng.Chance(50)) {
			if !usedG[g.Name] {
				extra--
				for _, m := range g.Members {
					markA(m, 1)
				}
			}
			groups = append(groups, g)
		}
	}
	v.Groups = groups
	var sgs []gGrp
	for _, g := range v.SGroups {
		if usedSG[g.Name] {
			sgs = append(sgs, g)
		}
	}
	v.SGroups = sgs
	have := map[string]gAddr{}
	for _, a := range v.Addrs {
		have[a.Name] = a
	}
	var addrs []gAddr
	for _, a := range w.addrs {
		if usedA[a.Name] || (extra > 0 && w.rng.Chance(10)) {
			if !usedA[a.Name] {
				extra--
			}
			if h, ok := have[a.Name]; ok {
				addrs = append(addrs, h)
			} else {
				addrs = append(addrs, a)
			}
		}
	}
	v.Addrs = addrs
	haveS := map[string]gSvc{}
	for _, s := range v.Svcs {
		haveS[s.Name] = s
	}
	var svcs []gSvc
	names := []string{}
	for n := range usedS {
		names = append(names, n)
	}
	sort.Strings(names)
	for _, n := range names {
		if n == "any" || n == "application-default" || n == w.sharedS[0] {
			continue
		}
		if h, ok := haveS[n]; ok {
			svcs = append(svcs, h)
			continue
		}
		found := false
		for _, s := range w.svcs {
			if s.Name == n {
				svcs = append(svcs, s)
				found = true
			}
		}
		if !found {
			f := strings.Fields(n)
			if len(f) >= 2 {
				svcs = append(svcs, gSvc{Name: n, Proto: strings.ToLower(f[0]), Port: f[1]})
			}
		}
	}
	v.Svcs = svcs
}

func cloneVsys(v gVsys) gVsys {
	c := v
	c.Rules = nil
	for _, r := range v.Rules {
		r.Src = append([]string{}, r.Src...)
		r.Dst = append([]string{}, r.Dst...)
		r.Srv = append([]string{}, r.Srv...)
		c.Rules = append(c.Rules, r)
	}
	c.Addrs = append([]gAddr{}, v.Addrs...)
	c.Svcs = append([]gSvc{}, v.Svcs...)
	c.Groups = nil
	for _, g := range v.Groups {
		c.Groups = append(c.Groups, gGrp{g.Name, append([]string{}, g.Members...)})
	}
	c.SGroups = nil
	for _, g := range v.SGroups {
		c.SGroups = append(c.SGroups, gGrp{g.Name, append([]string{}, g.Members...)})
	}
	return c
}

// lists gives pointers to all source / destination lists of the rules.
func lists(v *gVsys) []*[]string {
	var l []*[]string
	for i := range v.Rules {
		l = append(l, &v.Rules[i].Src, &v.Rules[i].Dst)
	}
	return l
}

func isGroup(v *gVsys, n string) bool {
	for _, g := range v.Groups {
		if g.Name == n {
			return true
		}
	}
	return false
}

func replaceName(v *gVsys, old, new string) {
	for _, l := range lists(v) {
		for i, m := range *l {
			if m == old {
				(*l)[i] = new
			}
		}
	}
}

func without(l []string, drop map[string]bool) []string {
	var r []string
	for _, m := range l {
		if !drop[m] {
			r = append(r, m)
		}
	}
	return r
}

// mutate applies one random change to the target under construction.
func (w *world) mutate(v *gVsys) {
	rng := w.rng
	k := rng.Intn(35)
	switch k {
	case 30, 31:
		w.mutateOne(v, 7)
		return
	case 32: // a member of a service-group gets another name, same definition
		if len(v.SGroups) > 0 {
			g := &v.SGroups[rng.Intn(len(v.SGroups))]
			if len(g.Members) > 0 {
				i := rng.Intn(len(g.Members))
				f := strings.Fields(g.Members[i])
				if len(f) == 2 {
					g.Members[i] = strings.ToUpper(f[0]) + " " + f[1] + " X"
					w.note("sgroupMemberRename")
				}
			}
		}
		return
	case 33, 34: // new rule whose destination is a group that is also renamed / changed
		if len(v.Groups) > 0 {
			g := &v.Groups[rng.Intn(len(v.Groups))]
			switch rng.Intn(3) {
			case 0:
				n := w.newGroupName(v)
				replaceName(v, g.Name, n)
				g.Name = n
			case 1:
				g.Members = uniq(append(g.Members, w.pickAddrs(1, 2)...))
			}
			r := w.rule(v, fmt.Sprintf("n%d", rng.Intn(1000)))
			r.Dst = []string{g.Name}
			i := rng.Intn(len(v.Rules) + 1)
			v.Rules = append(v.Rules[:i], append([]gRule{r}, v.Rules[i:]...)...)
			w.note("insRuleGroupDst")
		}
		return
	}
	w.mutateOne(v, k)
}

func (w *world) mutateOne(v *gVsys, k int) {
	rng := w.rng
	switch k {
	case 0, 1: // delete a rule
		if len(v.Rules) > 0 {
			i := rng.Intn(len(v.Rules))
			v.Rules = append(v.Rules[:i], v.Rules[i+1:]...)
			w.note("delRule")
		}
	case 2, 3, 4: // insert a rule
		i := rng.Intn(len(v.Rules) + 1)
		r := w.rule(v, fmt.Sprintf("n%d", rng.Intn(1000)))
		v.Rules = append(v.Rules[:i], append([]gRule{r}, v.Rules[i:]...)...)
		w.note("insRule")
	case 5, 6: // move a rule
		if len(v.Rules) > 1 {
			i, j := rng.Intn(len(v.Rules)), rng.Intn(len(v.Rules))
			r := v.Rules[i]
			rest := append(append([]gRule{}, v.Rules[:i]...), v.Rules[i+1:]...)
			if j > len(rest) {
				j = len(rest)
			}
			v.Rules = append(rest[:j], append([]gRule{r}, rest[j:]...)...)
			w.note("moveRule")
		}
	case 7: // change what is compared besides the lists
		if len(v.Rules) > 0 {
			r := &v.Rules[rng.Intn(len(v.Rules))]
			other := func(cur string, vals ...string) string {
				for _, x := range vals {
					if x != cur {
						return x
					}
				}
				return cur
			}
			// exactly one of the attributes the planner compares (and the property says must be equal),
			// changed on the target side only; "-" makes the element absent on that side
			switch rng.Intn(12) {
			case 0:
				r.Action = other(r.Action, Pick(rng, []string{"allow", "drop", "deny"}), "allow", "drop")
				w.note("changeHdr:action")
			case 1:
				if rng.Bool() {
					r.From = other(r.From, w.zones...)
				} else {
					r.From = r.From + "," + other(strings.Split(r.From, ",")[0], w.zones...)
				}
				w.note("changeHdr:from")
			case 2:
				if rng.Bool() {
					r.To = other(r.To, w.zones...)
				} else {
					r.To = r.To + "," + other(strings.Split(r.To, ",")[0], w.zones...)
				}
				w.note("changeHdr:to")
			case 3:
				r.App = other(r.App, Pick(rng, []string{"", "ssl", "ssl,web-browsing", "-"}), "", "ssl")
				w.note("changeHdr:application")
			case 4:
				r.LogStart = other(r.LogStart, Pick(rng, []string{"", "no", "-"}), "", "no")
				w.note("changeHdr:log-start:" + r.LogStart)
			case 5:
				r.LogEnd = other(r.LogEnd, Pick(rng, []string{"", "no", "-"}), "", "no")
				w.note("changeHdr:log-end:" + r.LogEnd)
			case 6:
				r.LogSetting = other(r.LogSetting, "", "TDC-Panorama")
				w.note("changeHdr:log-setting")
			case 7, 8, 9:
				r.RuleType = other(r.RuleType, Pick(rng, ruleTypes), "-", "")
				w.note("changeHdr:rule-type:" + r.RuleType)
			case 10, 11:
				r.Extra = other(r.Extra, Pick(rng, unknownAttrs), "<description>changed</description>", "")
				w.note("changeHdr:unknown")
			}
		}
	case 8, 9: // add members to a list
		if ls := lists(v); len(ls) > 0 {
			l := Pick(rng, ls)
			if len(*l) > 0 && (*l)[0] != "any" {
				*l = uniq(append(*l, w.pickAddrs(1, 2)...))
				w.note("listAdd")
			}
		}
	case 10: // add a group to a list
		if ls := lists(v); len(ls) > 0 && len(v.Groups) > 0 {
			l := Pick(rng, ls)
			if len(*l) > 0 && (*l)[0] != "any" {
				*l = uniq(append(*l, Pick(rng, v.Groups).Name))
				w.note("listAddGroup")
			}
		}
	case 11, 12: // delete one member
		if ls := lists(v); len(ls) > 0 {
			l := Pick(rng, ls)
			if len(*l) > 1 {
				i := rng.Intn(len(*l))
				*l = append((*l)[:i], (*l)[i+1:]...)
				w.note("listDelOne")
			}
		}
	case 13: // delete many members
		if ls := lists(v); len(ls) > 0 {
			l := Pick(rng, ls)
			if len(*l) > 2 {
				*l = (*l)[:1+rng.Intn(len(*l)/2)]
				w.note("listDelMany")
			}
		}
	case 14: // replace a list
		if ls := lists(v); len(ls) > 0 {
			*Pick(rng, ls) = w.addrList(v)
			w.note("listReplace")
		}
	case 15, 16: // rename a group (possibly to a name another device group carries)
		if len(v.Groups) > 0 {
			g := &v.Groups[rng.Intn(len(v.Groups))]
			n := w.newGroupName(v)
			replaceName(v, g.Name, n)
			g.Name = n
			w.note("grpRename")
		}
	case 17, 18: // grow a group
		if len(v.Groups) > 0 {
			g := &v.Groups[rng.Intn(len(v.Groups))]
			g.Members = uniq(append(g.Members, w.pickAddrs(1, 3)...))
			w.note("grpAdd")
		}
	case 19: // shrink a group a little
		if len(v.Groups) > 0 {
			g := &v.Groups[rng.Intn(len(v.Groups))]
			if len(g.Members) > 1 {
				i := rng.Intn(len(g.Members))
				g.Members = append(g.Members[:i], g.Members[i+1:]...)
				w.note("grpDelOne")
			}
		}
	case 20: // shrink a group a lot
		if len(v.Groups) > 0 {
			g := &v.Groups[rng.Intn(len(v.Groups))]
			if len(g.Members) > 2 {
				g.Members = g.Members[:1+rng.Intn(len(g.Members)/2)]
				w.note("grpDelMany")
			}
		}
	case 21: // split: one use of a group gets its own (slightly different) group
		for _, l := range lists(v) {
			if len(*l) == 1 && isGroup(v, (*l)[0]) && rng.Chance(50) {
				var old gGrp
				for _, g := range v.Groups {
					if g.Name == (*l)[0] {
						old = g
					}
				}
				n := w.newGroupName(v)
				ms := append([]string{}, old.Members...)
				if rng.Bool() {
					ms = uniq(append(ms, w.pickAddrs(1, 1)...))
				}
				v.Groups = append(v.Groups, gGrp{n, ms})
				(*l)[0] = n
				w.note("grpSplit")
				break
			}
		}
	case 22: // merge two groups
		if len(v.Groups) > 1 {
			i, j := rng.Intn(len(v.Groups)), rng.Intn(len(v.Groups))
			if i != j {
				v.Groups[i].Members = uniq(append(v.Groups[i].Members, v.Groups[j].Members...))
				replaceName(v, v.Groups[j].Name, v.Groups[i].Name)
				for _, l := range lists(v) {
					*l = uniq(*l)
				}
				w.note("grpMerge")
			}
		}
	case 23: // group <-> elements
		for _, l := range lists(v) {
			if len(*l) == 1 && isGroup(v, (*l)[0]) && rng.Chance(40) {
				for _, g := range v.Groups {
					if g.Name == (*l)[0] {
						*l = append([]string{}, g.Members...)
					}
				}
				w.note("grpInline")
				break
			} else if len(*l) > 1 && !isGroup(v, (*l)[0]) && (*l)[0] != w.sharedA[0] && rng.Chance(30) {
				ok := true
				for _, m := range *l {
					if isGroup(v, m) || m == w.sharedA[0] {
						ok = false
					}
				}
				if ok {
					n := w.newGroupName(v)
					v.Groups = append(v.Groups, gGrp{n, append([]string{}, *l...)})
					*l = []string{n}
					w.note("grpOutline")
					break
				}
			}
		}
	case 24: // swap the names of two groups
		if len(v.Groups) > 1 {
			i, j := rng.Intn(len(v.Groups)), rng.Intn(len(v.Groups))
			if i != j {
				v.Groups[i].Members, v.Groups[j].Members = v.Groups[j].Members, v.Groups[i].Members
				w.note("grpSwapNames")
			}
		}
	case 25: // same address name, other value / other unknown attribute
		if len(w.addrs) > 0 {
			i := rng.Intn(len(w.addrs))
			if rng.Bool() {
				// one of the kinds without ip-netmask, if the target defines it
				for j, a := range w.addrs {
					if a.Kind != "" && rng.Bool() {
						for _, t := range v.Addrs {
							if t.Name == a.Name {
								i = j
							}
						}
					}
				}
			}
			for j := range v.Addrs {
				if v.Addrs[j].Name == w.addrs[i].Name {
					if rng.Bool() {
						switch v.Addrs[j].Kind {
						case "ip-range":
							v.Addrs[j].IP = fmt.Sprintf("10.9.9.1-10.9.9.%d", i+2)
						case "fqdn":
							v.Addrs[j].IP = fmt.Sprintf("b%d.example.com", i)
						default:
							v.Addrs[j].IP = fmt.Sprintf("10.9.9.%d/32", i)
						}
						w.note("addrChange:value:" + v.Addrs[j].Kind)
					} else {
						v.Addrs[j].Extra = "<description>new</description>"
						w.note("addrChange:unknown")
					}
				}
			}
		}
	case 26: // same service name, other definition
		if len(v.Svcs) > 0 {
			s := &v.Svcs[rng.Intn(len(v.Svcs))]
			switch rng.Intn(5) {
			case 0:
				s.Port = s.Port + "1"
				w.note("svcChange:port")
			case 1:
				s.Extra = "<description>new</description>"
				w.note("svcChange:unknown")
			case 2:
				if s.Proto == "tcp" {
					s.Proto = "udp"
				} else {
					s.Proto = "tcp"
				}
				w.note("svcChange:protocol")
			case 3:
				s.PortExtra = "<override><no/></override>"
				w.note("svcChange:port-unknown")
			case 4:
				s.ProtoExtra = "<sctp><port>1</port></sctp>"
				w.note("svcChange:protocol-unknown")
			}
		}
	case 27: // other service name, same definition / other service list
		if len(v.Rules) > 0 {
			r := &v.Rules[rng.Intn(len(v.Rules))]
			if rng.Bool() && len(r.Srv) > 0 && r.Srv[0] != "any" && !strings.Contains(r.Srv[0], "shared") &&
				r.Srv[0] != "application-default" && !strings.Contains(r.Srv[0], "-u-") {
				f := strings.Fields(r.Srv[0])
				r.Srv[0] = strings.ToUpper(f[0]) + " " + f[1] + " X"
				w.note("svcRename")
			} else {
				r.Srv = w.srvList(v)
				w.note("srvListChange")
			}
		}
	case 28: // new rule at the very end / very beginning
		r := w.rule(v, fmt.Sprintf("n%d", rng.Intn(1000)))
		if rng.Bool() {
			v.Rules = append(v.Rules, r)
		} else {
			v.Rules = append([]gRule{r}, v.Rules...)
		}
		w.note("insRuleEdge")
	case 29: // rare shapes
		switch rng.Intn(4) {
		case 0: // service-group with changed members (class of F-C03a)
			if len(v.SGroups) > 0 {
				v.SGroups[0].Members = []string{"tcp 443", "tcp 8080"}
				w.note("sgroupChange")
			}
		case 1: // nested group
			if len(v.Groups) > 1 {
				v.Groups[0].Members = uniq(append(v.Groups[0].Members, v.Groups[1].Name))
				w.note("nestedGroup")
			}
		case 2: // two target names that collide after renaming (class of F-C03c)
			if len(v.Rules) > 1 {
				v.Rules[len(v.Rules)-1].Name = v.Rules[0].Name + "-1"
				w.note("ruleNameCollision")
			}
		case 3:
			if len(v.Groups) > 1 {
				old := v.Groups[1].Name
				n := v.Groups[0].Name + "-1"
				replaceName(v, old, n)
				v.Groups[1].Name = n
				w.note("groupNameCollision")
			}
		}
	}
}

func (w *world) renumber(v *gVsys) {
	switch k := w.rng.Intn(100); {
	case k < 55:
		for i := range v.Rules {
			v.Rules[i].Name = fmt.Sprintf("r%d", i+1)
		}
	case k < 70:
		for i := range v.Rules {
			v.Rules[i].Name = fmt.Sprintf("r%d", len(v.Rules)-i)
		}
	}
}

// genGroupMix builds the shape in which Netspoc has renumbered its groups: device and target
// draw their group names from the same small pool, the contents are permuted; a matched rule's
// list gets an additional group (an inserted element of the list diff) whose content a device
// group of another name already has, next to a group pair that is or is not equalisable
// incrementally; device groups may be claimed by an earlier rule.
func genGroupMix(rng *RNG) caseInput {
	w := newWorld(rng)
	w.note("groupMix")
	in := caseInput{Shared: []string{w.sharedA[0], w.sharedS[0]}, Mode: "groupmix"}
	pool := []string{"a_m", "c_t", "g1", "g2", "g3", "g10", "p", "q", "G7", "x_grp"}
	Shuffle(rng, pool)
	nG := 2 + rng.Intn(3)
	d := gVsys{Name: "vsys1", Display: "FW-managed-by-Netspoc"}
	addrNames := func(lo, hi int) []string { return w.pickAddrs(lo, hi) }
	for i := 0; i < nG; i++ {
		size := 1 + rng.Intn(3)
		if i == 1 || rng.Chance(30) {
			size = 4 + rng.Intn(3)
		}
		d.Groups = append(d.Groups, gGrp{Name: pool[i], Members: addrNames(size, size)})
	}
	plain := func() []string {
		if rng.Chance(35) {
			return nil
		}
		return addrNames(1, 2)
	}
	// device rules: each names one or two groups, some also addresses
	nR := 2 + rng.Intn(3)
	if nR < nG {
		nR = nG
	}
	for i := 0; i < nR; i++ {
		r := w.rule(&d, fmt.Sprintf("r%d", i+1))
		r.RuleType, r.LogStart, r.LogEnd, r.Extra = "", "", "", ""
		lst := append(plain(), d.Groups[i%nG].Name)
		if rng.Chance(40) {
			lst = append(lst, d.Groups[rng.Intn(nG)].Name)
		}
		lst = uniq(lst)
		if rng.Bool() {
			r.Src, r.Dst = lst, []string{"any"}
		} else {
			r.Dst, r.Src = lst, []string{"any"}
		}
		d.Rules = append(d.Rules, r)
	}
	w.complete(&d, 0)
	nG = len(d.Groups)
	// target: the same rulebase, group names permuted over the contents
	t := cloneVsys(d)
	t.Display = ""
	perm := append([]string{}, pool[:nG+1+rng.Intn(2)]...)
	Shuffle(rng, perm)
	for i := range t.Groups {
		replaceName(&t, t.Groups[i].Name, "\x00"+perm[i])
	}
	for i := range t.Groups {
		replaceName(&t, "\x00"+perm[i], perm[i])
		t.Groups[i].Name = perm[i]
	}
	w.note("grpPermuteNames")
	// one or two matched rules get an additional group whose content a device group has
	// (under another name after the permutation), and one of their groups is shrunk or grown
	for n := 1 + rng.Intn(2); n > 0 && len(t.Rules) > 0; n-- {
		r := &t.Rules[rng.Intn(len(t.Rules))]
		lst := &r.Src
		if len(r.Src) == 1 && r.Src[0] == "any" {
			lst = &r.Dst
		}
		src := d.Groups[rng.Intn(nG)]
		var free []string
		for _, nm := range pool {
			used := false
			for _, g := range t.Groups {
				if g.Name == nm {
					used = true
				}
			}
			if !used {
				free = append(free, nm)
			}
		}
		if len(free) == 0 {
			break
		}
		ng := gGrp{Name: free[0], Members: append([]string{}, src.Members...)}
		if rng.Chance(25) {
			ng.Members = uniq(append(ng.Members, addrNames(1, 1)...))
		}
		t.Groups = append(t.Groups, ng)
		*lst = uniq(append(*lst, ng.Name))
		w.note("listInsertKnownGroup")
		// a group of the same list: shrink a lot / a little / grow
		for _, m := range *lst {
			for gi := range t.Groups {
				g := &t.Groups[gi]
				if g.Name != m || g.Name == ng.Name {
					continue
				}
				switch rng.Intn(4) {
				case 0, 1:
					if len(g.Members) > 2 {
						g.Members = g.Members[:1]
						w.note("grpDelMany")
					}
				case 2:
					g.Members = uniq(append(g.Members, addrNames(1, 2)...))
					w.note("grpAdd")
				}
			}
		}
	}
	for j, n := 0, rng.Intn(3); j < n; j++ {
		w.mutate(&t)
	}
	breakCycles(&t)
	w.renumber(&t)
	w.complete(&t, 0)
	devName := "localhost.localdomain"
	in.gen = &genState{w: w, devName: devName, tgt: []gVsys{cloneVsys(t)}}
	in.Dev = configXML(devName, []gVsys{d}, rng.Bool())
	in.Spoc = configXML(devName, []gVsys{t}, false)
	in.Mutations = w.mutations
	return in
}

// genCase builds one case.
func genCase(rng *RNG) caseInput {
	if rng.Chance(12) {
		return genGroupMix(rng)
	}
	w := newWorld(rng)
	if rng.Chance(25) {
		w.plain = true
		w.note("plainWorld")
	}
	in := caseInput{Shared: []string{w.sharedA[0], w.sharedS[0]}}
	nV := 1
	if rng.Chance(20) {
		nV = 2 + rng.Intn(2)
	}
	var dev, tgt []gVsys
	mode := "near"
	switch k := rng.Intn(100); {
	case k < 8:
		mode = "same"
	case k < 22:
		mode = "far"
	}
	in.Mode = mode
	for i := 1; i <= nV; i++ {
		name := fmt.Sprintf("vsys%d", i)
		d := w.deviceVsys(name)
		w.complete(&d, rng.Intn(2)*rng.Intn(3))
		dev = append(dev, d)
		if i > 1 && rng.Chance(40) {
			continue // device vsys without target
		}
		var t gVsys
		switch mode {
		case "far":
			t = w.deviceVsys(name)
		default:
			t = cloneVsys(d)
			if mode == "near" {
				for j, n := 0, 1+rng.Intn(4); j < n; j++ {
					w.mutate(&t)
				}
				if rng.Chance(15) {
					w.mutateOne(&t, 7)
				}
			} else if rng.Bool() && len(t.Groups) > 0 {
				for j := range t.Groups {
					n := fmt.Sprintf("G%d", j)
					replaceName(&t, t.Groups[j].Name, n)
					t.Groups[j].Name = n
				}
			}
		}
		t.Display = ""
		w.renumber(&t)
		w.complete(&t, rng.Intn(2)*rng.Intn(2))
		tgt = append(tgt, t)
	}
	if rng.Chance(2) {
		tgt = append(tgt, gVsys{Name: "vsys9"})
		w.note("unknownVsys")
	}
	devName := "localhost.localdomain"
	in.gen = &genState{w: w, devName: devName}
	for _, t := range tgt {
		in.gen.tgt = append(in.gen.tgt, cloneVsys(t))
	}
	// raw / IPv6 parts, in every vsys of the target: the first rules of a vsys come from the raw file,
	// the next from the ipv6 file (prepended), the last ones carry <APPEND/> in the ipv6 resp. raw
	// file; a part may define an address the main file then lacks.  The parts list their vsys in an
	// order of their own.  `expect` is the merged target the files were cut from.
	var raw, v6, expect []gVsys
	if len(tgt) > 0 && (rng.Chance(22) || (len(tgt) > 1 && rng.Chance(50))) {
		for _, t := range tgt {
			expect = append(expect, cloneVsys(t))
		}
		useRaw, useV6 := true, true
		switch rng.Intn(10) {
		case 0, 1, 2, 3:
			useV6 = false
		case 4, 5, 6:
			useRaw = false
		}
		rename := func(r gRule, pre string) gRule {
			if strings.HasPrefix(r.Name, "r") {
				r.Name = pre + r.Name
			}
			return r
		}
		for vi := range tgt {
			if vi > 0 && rng.Chance(25) {
				continue // a vsys of the main file without any part
			}
			t, e := &tgt[vi], &expect[vi]
			rp, vp := gVsys{Name: t.Name}, gVsys{Name: t.Name}
			n := len(t.Rules)
			take := func(max int) int {
				k := rng.Intn(max + 1)
				if k > n {
					k = n
				}
				n -= k
				return k
			}
			var a, b, c2, d int
			if useRaw {
				a, d = take(2), take(1)
			}
			if useV6 {
				b, c2 = take(1), take(1)
			}
			rs := e.Rules // the expected order; names are changed in place below
			lo, hi := 0, len(rs)
			for i := 0; i < a; i++ {
				rs[lo] = rename(rs[lo], "raw-")
				rp.Rules = append(rp.Rules, rs[lo])
				lo++
			}
			for i := 0; i < b; i++ {
				rs[lo] = rename(rs[lo], "v6-")
				vp.Rules = append(vp.Rules, rs[lo])
				lo++
			}
			var rback, vback []gRule
			for i := 0; i < d; i++ {
				hi--
				rs[hi] = rename(rs[hi], "raw-")
				r := rs[hi]
				r.Append = true
				rback = append([]gRule{r}, rback...)
			}
			for i := 0; i < c2; i++ {
				hi--
				rs[hi] = rename(rs[hi], "v6-")
				r := rs[hi]
				r.Append = true
				vback = append([]gRule{r}, vback...)
			}
			// <APPEND/> rules and the others may be interleaved inside a part
			if rng.Bool() {
				rp.Rules = append(rback, rp.Rules...)
				vp.Rules = append(vp.Rules, vback...)
			} else {
				rp.Rules = append(rp.Rules, rback...)
				vp.Rules = append(vback, vp.Rules...)
			}
			t.Rules = append([]gRule{}, rs[lo:hi]...)
			// an address only a part defines
			if rng.Bool() && len(t.Addrs) > 1 && (useRaw || useV6) {
				last := t.Addrs[len(t.Addrs)-1]
				t.Addrs = t.Addrs[:len(t.Addrs)-1]
				if useRaw && (!useV6 || rng.Bool()) {
					rp.Addrs = append(rp.Addrs, last)
				} else {
					vp.Addrs = append(vp.Addrs, last)
				}
			}
			if useRaw && (len(rp.Rules) > 0 || len(rp.Addrs) > 0 || rng.Chance(30)) {
				raw = append(raw, rp)
			}
			if useV6 && (len(vp.Rules) > 0 || len(vp.Addrs) > 0 || rng.Chance(30)) {
				v6 = append(v6, vp)
			}
		}
		// the order of the vsys differs between the files
		if len(raw) > 1 && rng.Chance(60) {
			raw[0], raw[len(raw)-1] = raw[len(raw)-1], raw[0]
		}
		if len(v6) > 1 && rng.Chance(60) {
			v6[0], v6[len(v6)-1] = v6[len(v6)-1], v6[0]
		}
		if raw != nil {
			w.note("rawPart")
		}
		if v6 != nil {
			w.note("ipv6Part")
		}
		if len(raw) > 1 || len(v6) > 1 {
			w.note("partsInSeveralVsys")
		}
		if raw == nil && v6 == nil {
			expect = nil
		}
	}
	in.Dev = configXML(devName, dev, rng.Chance(30))
	tgtDev := devName
	if rng.Chance(2) {
		tgtDev = "other"
		w.note("otherDeviceName")
	} else if rng.Chance(20) {
		tgtDev = ""
	}
	in.Spoc = configXML(tgtDev, tgt, false)
	if expect != nil {
		in.expectText = configXML(tgtDev, expect, false)
	}
	if raw != nil {
		in.Raw = configXML("", raw, false)
	}
	if v6 != nil {
		in.V6 = configXML("", v6, false)
	}
	in.Mutations = w.mutations
	return in
}

// chainCase continues a case: the device is the state the approve reached (for the vsys that
// converged; the others as they were), the target is changed again by 1–3 mutations and
// renumbered.  Such devices carry what earlier approves leave behind: rules named rN-M next to
// rN, groups under device names, objects created for the previous target.
func chainCase(in caseInput, devVsys []panos.VerifVsys, reached map[string]panos.VerifVsys) (caseInput, bool) {
	g := in.gen
	if g == nil || len(g.tgt) == 0 {
		return in, false
	}
	w := g.w
	w.mutations = nil
	var dev []panos.VerifVsys
	for _, v := range devVsys {
		if t, ok := reached[v.Name]; ok {
			t.DisplayName = v.DisplayName
			dev = append(dev, t)
		} else {
			dev = append(dev, v)
		}
	}
	var tgt []gVsys
	for _, t := range g.tgt {
		t = cloneVsys(t)
		for j, n := 0, 1+w.rng.Intn(3); j < n; j++ {
			w.mutate(&t)
		}
		w.renumber(&t)
		w.complete(&t, 0)
		tgt = append(tgt, t)
	}
	next := caseInput{Shared: in.Shared, Mode: "chain", Mutations: w.mutations,
		Dev:  renderConfig(g.devName, dev, w.rng.Chance(30)),
		Spoc: configXML(g.devName, tgt, false)}
	next.gen = &genState{w: w, devName: g.devName}
	for _, t := range tgt {
		next.gen.tgt = append(next.gen.tgt, cloneVsys(t))
	}
	return next, true
}
