package main

// Text protocol shared with the Lean driver nadrv-c03, decoding of the real XML-API
// requests into the canonical command language, rendering of a decoded configuration as XML.

import (
	"encoding/xml"
	"fmt"
	"net/url"
	"strconv"
	"strings"

	"github.com/hknutzen/Netspoc-Approve/go/pkg/panos"
)

// ---------------------------------------------------------------- percent coding

func enc(s string) string {
	if s == "" {
		return "~"
	}
	var b strings.Builder
	for i := 0; i < len(s); i++ {
		c := s[i]
		switch {
		case c >= 'a' && c <= 'z', c >= 'A' && c <= 'Z', c >= '0' && c <= '9', c == '_', c == '.', c == '-':
			b.WriteByte(c)
		default:
			fmt.Fprintf(&b, "%%%02X", c)
		}
	}
	return b.String()
}

func dec(s string) string {
	if s == "~" {
		return ""
	}
	var b strings.Builder
	for i := 0; i < len(s); i++ {
		if s[i] == '%' && i+2 < len(s) {
			if n, err := strconv.ParseUint(s[i+1:i+3], 16, 8); err == nil {
				b.WriteByte(byte(n))
				i += 2
				continue
			}
		}
		b.WriteByte(s[i])
	}
	return b.String()
}

func encList(l []string) string {
	r := make([]string, len(l))
	for i, s := range l {
		r[i] = enc(s)
	}
	return strings.Join(r, ",")
}

func decList(s string) []string {
	if s == "" {
		return nil
	}
	l := strings.Split(s, ",")
	for i := range l {
		l[i] = dec(l[i])
	}
	return l
}

func splitNE(s, sep string) []string {
	if s == "" {
		return nil
	}
	return strings.Split(s, sep)
}

// ---------------------------------------------------------------- configuration codec

func encRule(r panos.VerifRule) string {
	return enc(r.Name) + ":" + enc(r.Hdr) + ":" + encList(r.Src) + ":" + encList(r.Dst) + ":" + encList(r.Srv)
}

func encVsys(v panos.VerifVsys) string {
	var rs, as, gs, ss, sgs []string
	for _, r := range v.Rules {
		rs = append(rs, encRule(r))
	}
	for _, o := range v.Addresses {
		as = append(as, enc(o.Name)+":"+enc(o.Val))
	}
	for _, g := range v.Groups {
		gs = append(gs, enc(g.Name)+":"+encList(g.Members))
	}
	for _, o := range v.Services {
		ss = append(ss, enc(o.Name)+":"+enc(o.Val))
	}
	for _, g := range v.SGroups {
		sgs = append(sgs, enc(g.Name)+":"+encList(g.Members))
	}
	return strings.Join([]string{enc(v.Name), strings.Join(rs, ";"), strings.Join(as, ";"), strings.Join(gs, ";"),
		strings.Join(ss, ";"), strings.Join(sgs, ";")}, "|")
}

func encDevice(vs []panos.VerifVsys) string {
	l := make([]string, len(vs))
	for i, v := range vs {
		l[i] = encVsys(v)
	}
	return strings.Join(l, "!")
}

func decVsys(s string) (panos.VerifVsys, error) {
	var v panos.VerifVsys
	f := strings.Split(s, "|")
	if len(f) != 6 {
		return v, fmt.Errorf("vsys with %d fields", len(f))
	}
	v.Name = dec(f[0])
	for _, t := range splitNE(f[1], ";") {
		p := strings.Split(t, ":")
		if len(p) != 5 {
			return v, fmt.Errorf("rule with %d fields", len(p))
		}
		v.Rules = append(v.Rules, panos.VerifRule{Name: dec(p[0]), Hdr: dec(p[1]), Src: decList(p[2]), Dst: decList(p[3]), Srv: decList(p[4])})
	}
	obj := func(t string) (panos.VerifObj, error) {
		p := strings.Split(t, ":")
		if len(p) != 2 {
			return panos.VerifObj{}, fmt.Errorf("object with %d fields", len(p))
		}
		return panos.VerifObj{Name: dec(p[0]), Val: dec(p[1])}, nil
	}
	grp := func(t string) (panos.VerifGrp, error) {
		p := strings.Split(t, ":")
		if len(p) != 2 {
			return panos.VerifGrp{}, fmt.Errorf("group with %d fields", len(p))
		}
		return panos.VerifGrp{Name: dec(p[0]), Members: decList(p[1])}, nil
	}
	for _, t := range splitNE(f[2], ";") {
		o, err := obj(t)
		if err != nil {
			return v, err
		}
		v.Addresses = append(v.Addresses, o)
	}
	for _, t := range splitNE(f[3], ";") {
		g, err := grp(t)
		if err != nil {
			return v, err
		}
		v.Groups = append(v.Groups, g)
	}
	for _, t := range splitNE(f[4], ";") {
		o, err := obj(t)
		if err != nil {
			return v, err
		}
		v.Services = append(v.Services, o)
	}
	for _, t := range splitNE(f[5], ";") {
		g, err := grp(t)
		if err != nil {
			return v, err
		}
		v.SGroups = append(v.SGroups, g)
	}
	return v, nil
}

// ---------------------------------------------------------------- XML rendering

func xmlEsc(s string) string {
	var b strings.Builder
	xml.EscapeText(&b, []byte(s))
	return b.String()
}

func members(tag string, l []string) string {
	if len(l) == 0 {
		return ""
	}
	var b strings.Builder
	b.WriteString("<" + tag + ">")
	for _, m := range l {
		b.WriteString("<member>" + xmlEsc(m) + "</member>")
	}
	b.WriteString("</" + tag + ">")
	return b.String()
}

func renderVsys(v panos.VerifVsys, displayName string) string {
	var b strings.Builder
	fmt.Fprintf(&b, `<entry name="%s">`, xmlEsc(v.Name))
	if displayName != "" {
		b.WriteString("<display-name>" + xmlEsc(displayName) + "</display-name>")
	}
	b.WriteString("<rulebase><security><rules>")
	for _, r := range v.Rules {
		// the hook prints the emptied lists as empty elements inside Hdr: not part of the rule
		hdr := r.Hdr
		for _, e := range []string{"<source></source>", "<destination></destination>", "<service></service>"} {
			hdr = strings.ReplaceAll(hdr, e, "")
		}
		fmt.Fprintf(&b, `<entry name="%s">%s%s%s%s</entry>`, xmlEsc(r.Name), hdr,
			members("source", r.Src), members("destination", r.Dst), members("service", r.Srv))
	}
	b.WriteString("</rules></security></rulebase><address>")
	for _, o := range v.Addresses {
		fmt.Fprintf(&b, `<entry name="%s">%s</entry>`, xmlEsc(o.Name), o.Val)
	}
	b.WriteString("</address><address-group>")
	for _, g := range v.Groups {
		fmt.Fprintf(&b, `<entry name="%s">%s</entry>`, xmlEsc(g.Name), members("static", g.Members))
	}
	b.WriteString("</address-group><service>")
	for _, o := range v.Services {
		fmt.Fprintf(&b, `<entry name="%s">%s</entry>`, xmlEsc(o.Name), o.Val)
	}
	b.WriteString("</service><service-group>")
	for _, g := range v.SGroups {
		fmt.Fprintf(&b, `<entry name="%s">%s</entry>`, xmlEsc(g.Name), members("members", g.Members))
	}
	b.WriteString("</service-group></entry>")
	return b.String()
}

// renderConfig gives a file the real ParseConfig accepts; asResponse uses the form of a saved
// device configuration (first line http…, then <response>).
func renderConfig(devName string, vs []panos.VerifVsys, asResponse bool) string {
	var b strings.Builder
	fmt.Fprintf(&b, `<devices><entry name="%s"><deviceconfig><system><hostname>router</hostname></system></deviceconfig><vsys>`, xmlEsc(devName))
	for _, v := range vs {
		b.WriteString(renderVsys(v, v.DisplayName))
	}
	b.WriteString("</vsys></entry></devices>")
	if asResponse {
		return "https://device/api/?key=xxx&type=config&action=get&xpath=/config/devices\n" +
			`<response status="success"><result>` + b.String() + "</result></response>"
	}
	return "<config>" + b.String() + "</config>"
}

// ---------------------------------------------------------------- real request → canonical command

type xseg struct {
	name string // element name
	pred string // "", "name", "text"
	val  string
}

// parseXPath splits `/a/b[@name='x']/c[text()='y']` into segments.
func parseXPath(p string) ([]xseg, bool) {
	var segs []xseg
	i := 0
	for i < len(p) {
		if p[i] != '/' {
			return nil, false
		}
		i++
		j := i
		for j < len(p) && p[j] != '/' && p[j] != '[' {
			j++
		}
		s := xseg{name: p[i:j]}
		i = j
		if i < len(p) && p[i] == '[' {
			rest := p[i:]
			var open string
			switch {
			case strings.HasPrefix(rest, "[@name='"):
				s.pred, open = "name", "[@name='"
			case strings.HasPrefix(rest, "[text()='"):
				s.pred, open = "text", "[text()='"
			default:
				return nil, false
			}
			i += len(open)
			// value ends at the first "']" that is followed by '/' or the end
			k := i
			for {
				e := strings.Index(p[k:], "']")
				if e < 0 {
					return nil, false
				}
				end := k + e
				if end+2 == len(p) || p[end+2] == '/' {
					s.val = p[i:end]
					i = end + 2
					break
				}
				k = end + 2
			}
		}
		segs = append(segs, s)
	}
	return segs, true
}

func vsysPath(dev, vsys string) string {
	return "/config/devices/entry[@name='" + dev + "']/vsys/entry[@name='" + vsys + "']"
}

func fldOf(tag string) string {
	switch tag {
	case "source":
		return "src"
	case "destination":
		return "dst"
	case "service":
		return "srv"
	}
	return ""
}

func bad(why string) string { return "bad:" + enc(why) }

// canonCmd decodes one request as the device's HTTP server would (query parameters), checks
// that its xpath lies below `prefix`, and returns the canonical command text.
// inScope=false: the xpath is not below the prefix.
func canonCmd(raw string, prefix string) (cmd string, inScope bool) {
	vals, err := url.ParseQuery(raw)
	if err != nil {
		return bad("query: " + err.Error()), true
	}
	for k, v := range vals {
		if len(v) != 1 {
			return bad("parameter " + k + " given " + strconv.Itoa(len(v)) + " times"), true
		}
		switch k {
		case "action", "type", "xpath", "element", "where", "dst":
		default:
			return bad("unknown parameter " + k), true
		}
	}
	if vals.Get("type") != "config" {
		return bad("type=" + vals.Get("type")), true
	}
	xp := vals.Get("xpath")
	if !strings.HasPrefix(xp, prefix+"/") {
		return bad("xpath " + xp), false
	}
	segs, ok := parseXPath(xp[len(prefix):])
	if !ok || len(segs) == 0 {
		return bad("xpath " + xp), true
	}
	action := vals.Get("action")
	elem := vals.Get("element")
	_, hasElem := vals["element"]
	_, hasWhere := vals["where"]
	_, hasDst := vals["dst"]
	needElem := action == "set" || action == "edit"
	if needElem != hasElem || (action == "move") != (hasWhere && hasDst) || (action != "move" && (hasWhere || hasDst)) {
		return bad("parameters of " + action), true
	}
	shape := make([]string, len(segs))
	for i, s := range segs {
		shape[i] = s.name
		if s.pred != "" {
			shape[i] += "[" + s.pred + "]"
		}
	}
	sh := action + " " + strings.Join(shape, "/")
	n := ""
	for _, s := range segs {
		if s.pred == "name" {
			n = s.val
			break
		}
	}
	last := segs[len(segs)-1]
	switch sh {
	case "set address/entry[name]":
		o, err := panos.VerifParseAddress(n, elem, false)
		if err != nil {
			return bad("element: " + err.Error()), true
		}
		return "setaddr:" + enc(n) + ":" + enc(o.Val), true
	case "edit address/entry[name]":
		o, err := panos.VerifParseAddress(n, elem, true)
		if err != nil || o.Name != n {
			return bad("element of edit address " + n), true
		}
		return "editaddr:" + enc(n) + ":" + enc(o.Val), true
	case "set service/entry[name]":
		o, err := panos.VerifParseService(n, elem, false)
		if err != nil {
			return bad("element: " + err.Error()), true
		}
		return "setsvc:" + enc(n) + ":" + enc(o.Val), true
	case "edit service/entry[name]":
		o, err := panos.VerifParseService(n, elem, true)
		if err != nil || o.Name != n {
			return bad("element of edit service " + n), true
		}
		return "editsvc:" + enc(n) + ":" + enc(o.Val), true
	case "set address-group/entry[name]/static", "set service-group/entry[name]/members":
		ms, err := panos.VerifParseMembers(elem, "")
		if err != nil {
			return bad("element: " + err.Error()), true
		}
		if segs[0].name == "address-group" {
			return "setgrp:" + enc(n) + ":" + encList(ms), true
		}
		return "setsgrp:" + enc(n) + ":" + encList(ms), true
	case "delete address-group/entry[name]/static/member[text]":
		return "delgmem:" + enc(n) + ":" + enc(last.val), true
	case "delete address-group/entry[name]":
		return "delgrp:" + enc(n), true
	case "delete address/entry[name]":
		return "deladdr:" + enc(n), true
	case "delete service-group/entry[name]":
		return "delsgrp:" + enc(n), true
	case "delete service/entry[name]":
		return "delsvc:" + enc(n), true
	case "delete rulebase/security/rules/entry[name]":
		return "delrule:" + enc(n), true
	case "set rulebase/security/rules/entry[name]":
		r, err := panos.VerifParseRule(n, elem)
		if err != nil {
			return bad("element: " + err.Error()), true
		}
		return "setrule:" + encRule(r), true
	case "move rulebase/security/rules/entry[name]":
		if vals.Get("where") != "before" {
			return bad("where=" + vals.Get("where")), true
		}
		return "move:" + enc(n) + ":" + enc(vals.Get("dst")), true
	}
	if len(segs) >= 5 && strings.HasPrefix(strings.Join(shape, "/"), "rulebase/security/rules/entry[name]/") {
		f := fldOf(segs[4].name)
		if f != "" && segs[4].pred == "" {
			switch {
			case action == "set" && len(segs) == 5:
				ms, err := panos.VerifParseMembers(elem, "")
				if err != nil {
					return bad("element: " + err.Error()), true
				}
				return "addmem:" + enc(n) + ":" + f + ":" + encList(ms), true
			case action == "edit" && len(segs) == 5:
				ms, err := panos.VerifParseMembers(elem, segs[4].name)
				if err != nil {
					return bad("element: " + err.Error()), true
				}
				return "editlist:" + enc(n) + ":" + f + ":" + encList(ms), true
			case action == "delete" && len(segs) == 6 && segs[5].name == "member" && segs[5].pred == "text":
				return "delmem:" + enc(n) + ":" + f + ":" + enc(segs[5].val), true
			}
		}
	}
	return bad(sh), true
}

func urlQueryUnescape(s string) (string, error) { return url.QueryUnescape(s) }
