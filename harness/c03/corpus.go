package main

// Hand-written cases that run first: shapes of the repository's own tests, and the minimal
// inputs of the findings.

func ad(names ...string) []gAddr {
	var l []gAddr
	for _, n := range names {
		ip := n
		for i := 0; i < len(n); i++ {
			if n[i] >= '0' && n[i] <= '9' {
				ip = n[i:]
				break
			}
		}
		l = append(l, gAddr{Name: n, IP: ip + "/32"})
	}
	return l
}

func sv(names ...string) []gSvc {
	var l []gSvc
	for _, n := range names {
		p, port := "tcp", n
		for i := 0; i < len(n); i++ {
			if n[i] == ' ' {
				p, port = n[:i], n[i+1:]
			}
		}
		l = append(l, gSvc{Name: n, Proto: p, Port: port})
	}
	return l
}

func ru(name string, src, dst, srv []string) gRule {
	return gRule{Name: name, Action: "allow", From: "z1", To: "z2", Src: src, Dst: dst, Srv: srv}
}

func l(s ...string) []string { return s }

func pair(mode string, a, b gVsys) caseInput {
	a.Name, b.Name = "vsys2", "vsys2"
	a.Display = "managed by NetSPoC"
	return caseInput{Dev: configXML("localhost.localdomain", []gVsys{a}, false),
		Spoc: configXML("localhost.localdomain", []gVsys{b}, false), Shared: []string{"SHARED_NET", "tcp 81 from shared"}, Mode: mode}
}

func corpus() []caseInput {
	A := ad("IP_10.1.1.1", "IP_10.1.1.2", "IP_10.1.1.3", "IP_10.1.1.4", "IP_10.1.1.5", "NET_10.1.2.0")
	S := sv("tcp 80", "udp 123")
	var cs []caseInput
	base := gVsys{Rules: []gRule{ru("r1", l("g0"), l("NET_10.1.2.0", "IP_10.1.1.5"), l("udp 123", "tcp 80"))},
		Groups: []gGrp{{"g0", l("IP_10.1.1.2", "IP_10.1.1.1")}}, Addrs: A[:6], Svcs: S}
	cs = append(cs, pair("corpus:identical", base, base))
	cs = append(cs, pair("corpus:add-to-empty", gVsys{}, base))
	cs = append(cs, pair("corpus:remove-all", base, gVsys{}))
	// merge two groups to one
	cs = append(cs, pair("corpus:merge-groups",
		gVsys{Rules: []gRule{ru("r1", l("g0"), l("NET_10.1.2.0"), l("tcp 80")), ru("r2", l("g1"), l("IP_10.1.1.5"), l("udp 123"))},
			Groups: []gGrp{{"g0", l("IP_10.1.1.1")}, {"g1", l("IP_10.1.1.2")}}, Addrs: A, Svcs: S},
		gVsys{Rules: []gRule{ru("r1", l("g2"), l("NET_10.1.2.0"), l("tcp 80")), ru("r2", l("g2"), l("IP_10.1.1.5"), l("udp 123"))},
			Groups: []gGrp{{"g2", l("IP_10.1.1.1", "IP_10.1.1.2")}}, Addrs: A, Svcs: S}))
	// split a group
	cs = append(cs, pair("corpus:split-group",
		gVsys{Rules: []gRule{ru("r1", l("g0"), l("NET_10.1.2.0"), l("tcp 80")), ru("r2", l("g0"), l("IP_10.1.1.5"), l("udp 123"))},
			Groups: []gGrp{{"g0", l("IP_10.1.1.2", "IP_10.1.1.1")}}, Addrs: A, Svcs: S},
		gVsys{Rules: []gRule{ru("r1", l("g1"), l("NET_10.1.2.0"), l("tcp 80")), ru("r2", l("g2"), l("IP_10.1.1.5"), l("udp 123"))},
			Groups: []gGrp{{"g1", l("IP_10.1.1.2")}, {"g2", l("IP_10.1.1.1")}}, Addrs: A, Svcs: S}))
	// new group instead of deleting many elements
	cs = append(cs, pair("corpus:replace-group",
		gVsys{Rules: []gRule{ru("r1", l("NET_10.1.2.0"), l("g1"), l("tcp 80"))},
			Groups: []gGrp{{"g1", l("IP_10.1.1.1", "IP_10.1.1.2", "IP_10.1.1.3", "IP_10.1.1.4", "IP_10.1.1.5")}}, Addrs: A, Svcs: S[:1]},
		gVsys{Rules: []gRule{ru("r1", l("NET_10.1.2.0"), l("g1"), l("tcp 80"))},
			Groups: []gGrp{{"g1", l("IP_10.1.1.1", "IP_10.1.1.2")}}, Addrs: A, Svcs: S[:1]}))
	// delete and insert rules, replace the deny rule at the end
	deny := func(n string, srv string) gRule {
		r := ru(n, l("any"), l("any"), l(srv))
		r.Action = "drop"
		return r
	}
	cs = append(cs, pair("corpus:delete-insert",
		gVsys{Rules: []gRule{ru("r1", l("IP_10.1.1.1"), l("NET_10.1.2.0"), l("tcp 80")), ru("r2", l("IP_10.1.1.2"), l("NET_10.1.2.0"), l("tcp 80")),
			ru("r3", l("IP_10.1.1.1"), l("NET_10.1.2.0"), l("udp 123")), deny("r4", "any")}, Addrs: A, Svcs: S},
		gVsys{Rules: []gRule{ru("r1", l("IP_10.1.1.1"), l("NET_10.1.2.0"), l("udp 123")), ru("r2", l("IP_10.1.1.3"), l("NET_10.1.2.0"), l("udp 123")),
			ru("r3", l("IP_10.1.1.1"), l("NET_10.1.2.0"), l("tcp 80")), deny("r4", "application-default")}, Addrs: A, Svcs: S}))
	// F-C03a: members of a service-group change (pinned by 'Change members of service-group')
	cs = append(cs, pair("corpus:F-C03a",
		gVsys{Rules: []gRule{ru("r1", l("any"), l("any"), l("test"))}, SGroups: []gGrp{{"test", l("tcp 80", "tcp 443")}}, Svcs: sv("tcp 80", "tcp 443")},
		gVsys{Rules: []gRule{ru("r1", l("any"), l("any"), l("test"))}, SGroups: []gGrp{{"test", l("tcp 81", "tcp 443")}}, Svcs: sv("tcp 81", "tcp 443")}))
	// F-C03c: two target rules whose names collide after renaming
	cs = append(cs, pair("corpus:F-C03c-rules",
		gVsys{Rules: []gRule{ru("x", l("IP_10.1.1.1"), l("any"), l("tcp 80"))}, Addrs: A[:1], Svcs: S[:1]},
		gVsys{Rules: []gRule{ru("x", l("any"), l("IP_10.1.1.1"), l("tcp 80")), ru("x-1", l("any"), l("any"), l("tcp 80"))}, Addrs: A[:1], Svcs: S[:1]}))
	cs = append(cs, pair("corpus:F-C03c-groups",
		gVsys{Rules: []gRule{ru("r1", l("g0"), l("any"), l("tcp 80"))}, Groups: []gGrp{{"g0", l("IP_10.1.1.1", "IP_10.1.1.2", "IP_10.1.1.3", "IP_10.1.1.4")}}, Addrs: A, Svcs: S[:1]},
		gVsys{Rules: []gRule{ru("r1", l("g0"), l("any"), l("tcp 80")), ru("r2", l("g0-1"), l("any"), l("tcp 80"))},
			Groups: []gGrp{{"g0", l("IP_10.1.1.1")}, {"g0-1", l("IP_10.1.1.5")}}, Addrs: A, Svcs: S[:1]}))
	// F-C03d: a group inserted incrementally into a list under the name the device uses for another group
	cs = append(cs, pair("corpus:F-C03d",
		gVsys{Rules: []gRule{ru("r1", l("g1", "IP_10.1.1.5"), l("any"), l("tcp 80")), ru("r2", l("g2"), l("any"), l("udp 123"))},
			Groups: []gGrp{{"g1", l("IP_10.1.1.1")}, {"g2", l("IP_10.1.1.4")}}, Addrs: A, Svcs: S},
		gVsys{Rules: []gRule{ru("r1", l("g1", "g2", "IP_10.1.1.5"), l("any"), l("tcp 80"))},
			Groups: []gGrp{{"g1", l("IP_10.1.1.1")}, {"g2", l("IP_10.1.1.2")}}, Addrs: A, Svcs: S}))
	// F-C03e: a list mixing a group with an address; device and target name the group differently
	cs = append(cs, pair("corpus:F-C03e",
		gVsys{Rules: []gRule{ru("r1", l("IP_10.1.1.1", "g0"), l("any"), l("any"))}, Groups: []gGrp{{"g0", l("IP_10.1.1.2")}}, Addrs: A[:2]},
		gVsys{Rules: []gRule{ru("r1", l("G0", "IP_10.1.1.1"), l("any"), l("any"))}, Groups: []gGrp{{"G0", l("IP_10.1.1.2")}}, Addrs: A[:2]}))
	// F-C03f: a list is replaced and names a group that is to be transferred under a new name; a later
	// rule then claims a device group for that very group, so it is never transferred
	cs = append(cs, pair("corpus:F-C03f",
		gVsys{Rules: []gRule{ru("r1", l("g1"), l("any"), l("tcp 80")), ru("r2", l("g3"), l("any"), l("udp 123"))},
			Groups: []gGrp{{"g1", l("IP_10.1.1.1", "IP_10.1.1.2", "IP_10.1.1.5")}, {"g3", l("IP_10.1.1.3")}}, Addrs: A, Svcs: S},
		gVsys{Rules: []gRule{ru("r1", l("g3"), l("any"), l("tcp 80")), ru("r2", l("g3"), l("any"), l("udp 123"))},
			Groups: []gGrp{{"g3", l("IP_10.1.1.3", "IP_10.1.1.4")}}, Addrs: A, Svcs: S}))
	// device as an earlier approve left it: r1-1 next to r1; the target's r1 changes again and must
	// not be renamed to r1-1
	drop := ru("r1", l("IP_10.1.1.1"), l("any"), l("tcp 80"))
	drop.Action = "drop"
	cs = append(cs, pair("corpus:renamed-rule-kept",
		gVsys{Rules: []gRule{ru("r1-1", l("IP_10.1.1.2"), l("any"), l("udp 123")), ru("r1", l("IP_10.1.1.1"), l("any"), l("tcp 80"))},
			Addrs: A[:2], Svcs: S},
		gVsys{Rules: []gRule{drop, ru("r2", l("IP_10.1.1.2"), l("any"), l("udp 123"))}, Addrs: A[:2], Svcs: S}))
	// same-named service-group, one member differs only in its NAME (same definition)
	cs = append(cs, pair("corpus:sgroup-member-renamed",
		gVsys{Rules: []gRule{ru("r1", l("any"), l("any"), l("test"))}, SGroups: []gGrp{{"test", l("TCP 80 HTTP", "tcp 443")}},
			Svcs: []gSvc{{Name: "TCP 80 HTTP", Proto: "tcp", Port: "80"}, {Name: "tcp 443", Proto: "tcp", Port: "443"}}},
		gVsys{Rules: []gRule{ru("r1", l("any"), l("any"), l("test"))}, SGroups: []gGrp{{"test", l("tcp 80", "tcp 443")}}, Svcs: sv("tcp 80", "tcp 443")}))
	// same-named address of a kind other than ip-netmask, value changed
	rng1 := gAddr{Name: "RANGE_1", IP: "10.1.1.3-10.1.1.7", Kind: "ip-range"}
	rng2 := gAddr{Name: "RANGE_1", IP: "10.1.1.3-10.1.1.9", Kind: "ip-range"}
	fq1 := gAddr{Name: "FQDN_1", IP: "a.example.com", Kind: "fqdn"}
	fq2 := gAddr{Name: "FQDN_1", IP: "b.example.com", Kind: "fqdn"}
	cs = append(cs, pair("corpus:ip-range-changed",
		gVsys{Rules: []gRule{ru("r1", l("RANGE_1"), l("FQDN_1"), l("any"))}, Addrs: []gAddr{rng1, fq1}},
		gVsys{Rules: []gRule{ru("r1", l("RANGE_1"), l("FQDN_1"), l("any"))}, Addrs: []gAddr{rng2, fq1}}))
	cs = append(cs, pair("corpus:fqdn-changed",
		gVsys{Rules: []gRule{ru("r1", l("RANGE_1"), l("FQDN_1"), l("any"))}, Addrs: []gAddr{rng1, fq1}},
		gVsys{Rules: []gRule{ru("r1", l("RANGE_1"), l("FQDN_1"), l("any"))}, Addrs: []gAddr{rng1, fq2}}))
	// inserted rule whose DESTINATION is a group the device knows under another name
	cs = append(cs, pair("corpus:inserted-rule-dst-group-mapped",
		gVsys{Rules: []gRule{ru("r1", l("any"), l("g0"), l("tcp 80"))}, Groups: []gGrp{{"g0", l("IP_10.1.1.1", "IP_10.1.1.2")}}, Addrs: A[:2], Svcs: S},
		gVsys{Rules: []gRule{ru("r1", l("any"), l("G0"), l("tcp 80")), ru("r2", l("any"), l("G0"), l("udp 123"))},
			Groups: []gGrp{{"G0", l("IP_10.1.1.1", "IP_10.1.1.2")}}, Addrs: A[:2], Svcs: S}))
	// … or that clashes with a device group that is no longer needed
	cs = append(cs, pair("corpus:inserted-rule-dst-group-clash",
		gVsys{Rules: []gRule{ru("r1", l("any"), l("g0"), l("tcp 80")), ru("r9", l("any"), l("g1"), l("udp 123"))},
			Groups: []gGrp{{"g0", l("IP_10.1.1.1")}, {"g1", l("IP_10.1.1.4")}}, Addrs: A, Svcs: S},
		gVsys{Rules: []gRule{ru("r1", l("any"), l("g0"), l("tcp 80")), ru("r2", l("any"), l("g1"), l("tcp 80"))},
			Groups: []gGrp{{"g0", l("IP_10.1.1.1")}, {"g1", l("IP_10.1.1.2")}}, Addrs: A, Svcs: S}))
	// group names of device and target come from the same pool, contents permuted (Netspoc renumbered
	// its groups): target group a_m has the content of device group p, another target group is named p.
	// In the source of r1, a_m is an inserted element next to a pair (q, c_t) that cannot be equalised
	// incrementally, so the whole list is replaced: it must name device group p, not the target's p.
	Z := ad("Z_10.3.0.1", "Z_10.3.0.2", "Z_10.3.0.3", "Z_10.3.0.4", "Z_10.3.0.5")
	cs = append(cs, pair("corpus:renumbered-groups-insert-then-replace",
		gVsys{Rules: []gRule{ru("r1", l("IP_10.1.1.5", "q"), l("any"), l("any")), ru("r2", l("p"), l("any"), l("any"))},
			Groups: []gGrp{{"p", l("IP_10.1.1.1", "IP_10.1.1.2")}, {"q", l("Z_10.3.0.1", "Z_10.3.0.2", "Z_10.3.0.3", "Z_10.3.0.4", "Z_10.3.0.5")}},
			Addrs:  append(append([]gAddr{}, A...), Z...)},
		gVsys{Rules: []gRule{ru("r1", l("a_m", "IP_10.1.1.5", "c_t"), l("any"), l("any")), ru("r2", l("p"), l("any"), l("any"))},
			Groups: []gGrp{{"a_m", l("IP_10.1.1.1", "IP_10.1.1.2")}, {"c_t", l("Z_10.3.0.1")}, {"p", l("IP_10.1.1.3")}},
			Addrs:  append(append([]gAddr{}, A...), Z[:1]...)}))
	// the same with the claimed variant: p is claimed by r0 before r1 is looked at
	cs = append(cs, pair("corpus:renumbered-groups-claimed",
		gVsys{Rules: []gRule{ru("r0", l("p"), l("any"), l("any")), ru("r1", l("IP_10.1.1.5", "q"), l("any"), l("any"))},
			Groups: []gGrp{{"p", l("IP_10.1.1.1", "IP_10.1.1.2")}, {"q", l("Z_10.3.0.1", "Z_10.3.0.2", "Z_10.3.0.3", "Z_10.3.0.4", "Z_10.3.0.5")}},
			Addrs:  append(append([]gAddr{}, A...), Z...)},
		gVsys{Rules: []gRule{ru("r0", l("a_m"), l("any"), l("any")), ru("r1", l("a_m", "IP_10.1.1.5", "p"), l("any"), l("any"))},
			Groups: []gGrp{{"a_m", l("IP_10.1.1.1", "IP_10.1.1.2")}, {"p", l("Z_10.3.0.1")}},
			Addrs:  append(append([]gAddr{}, A...), Z[:1]...)}))
	// address and address-group share a name space on the device: the target's g0 has another content,
	// so it is transferred under a generated name, g0-1 — which is the name of an address
	clash := gAddr{Name: "g0-1", IP: "10.9.9.9/32"}
	cs = append(cs, pair("corpus:generated-group-name-is-an-address-name",
		gVsys{Rules: []gRule{ru("r1", l("g0"), l("any"), l("tcp 80")), ru("r2", l("any"), l("g0-1"), l("tcp 80"))},
			Groups: []gGrp{{"g0", l("IP_10.1.1.1", "IP_10.1.1.2", "IP_10.1.1.3", "IP_10.1.1.4")}}, Addrs: append(append([]gAddr{}, A...), clash), Svcs: S[:1]},
		gVsys{Rules: []gRule{ru("r1", l("g0"), l("any"), l("tcp 80")), ru("r2", l("any"), l("g0-1"), l("tcp 80"))},
			Groups: []gGrp{{"g0", l("IP_10.1.1.5")}}, Addrs: append(append([]gAddr{}, A...), clash), Svcs: S[:1]}))
	// attributes besides the lists, different on exactly one side, incl. absent against a value
	attr := func(mode string, f func(d, t *gRule)) {
		d := ru("r1", l("any"), l("IP_10.1.1.1"), l("any"))
		t := d
		f(&d, &t)
		keep := ru("r0", l("IP_10.1.1.1"), l("any"), l("any"))
		cs = append(cs, pair(mode, gVsys{Rules: []gRule{keep, d}, Addrs: A[:1]}, gVsys{Rules: []gRule{keep, t}, Addrs: A[:1]}))
	}
	attr("corpus:rule-type-absent-on-device", func(d, t *gRule) { d.RuleType = "-" })
	attr("corpus:rule-type-absent-in-target", func(d, t *gRule) { d.RuleType = "intrazone"; t.RuleType = "-" })
	attr("corpus:rule-type-absent-vs-universal", func(d, t *gRule) { d.RuleType = "-"; t.RuleType = "universal" })
	attr("corpus:rule-type-universal-vs-interzone", func(d, t *gRule) { d.RuleType = "universal" })
	attr("corpus:log-start-absent-on-device", func(d, t *gRule) { d.LogStart = "-" })
	attr("corpus:log-end-absent-in-target", func(d, t *gRule) { d.LogEnd = "no"; t.LogEnd = "-" })
	attr("corpus:disabled-on-device", func(d, t *gRule) { d.Extra = "<disabled>yes</disabled>" })
	attr("corpus:disabled-in-target", func(d, t *gRule) { t.Extra = "<disabled>yes</disabled>" })
	attr("corpus:disabled-no-vs-absent", func(d, t *gRule) { d.Extra = "<disabled>no</disabled>" })
	attr("corpus:description-only-on-device", func(d, t *gRule) { d.Extra = "<description>by hand</description>" })
	attr("corpus:tag-only-in-target", func(d, t *gRule) { t.Extra = "<tag><member>t1</member></tag>" })
	attr("corpus:action-deny-vs-drop", func(d, t *gRule) { d.Action = "deny"; t.Action = "drop" })
	attr("corpus:to-zone-added", func(d, t *gRule) { t.To = "z2,z3" })
	attr("corpus:from-zone-other", func(d, t *gRule) { d.From = "z3" })
	attr("corpus:application-absent-on-device", func(d, t *gRule) { d.App = "-" })
	attr("corpus:log-setting-only-on-device", func(d, t *gRule) { d.LogSetting = "TDC-Panorama" })
	// F-C03h: the state after an approve that was cut right after `set service 'TCP 443 X'`, as device
	// (pan_sgroup_member_kept_unreferenced_counterexample): nothing is planned, the service stays
	{
		x := gSvc{Name: "TCP 443 X", Proto: "tcp", Port: "443"}
		rs := []gRule{ru("r1", l("any"), l("any"), l("SG")), ru("r2", l("any"), l("any"), l("tcp 443"))}
		cs = append(cs, pair("corpus:F-C03h",
			gVsys{Rules: rs, SGroups: []gGrp{{"SG", l("tcp 80", "tcp 443")}}, Svcs: append(sv("tcp 80", "tcp 443"), x)},
			gVsys{Rules: rs, SGroups: []gGrp{{"SG", l("tcp 80", "TCP 443 X")}}, Svcs: append(sv("tcp 80", "tcp 443"), x)}))
		// the approve that leads there when cut after its first request
		cs = append(cs, pair("corpus:F-C03h-before-the-cut",
			gVsys{Rules: rs, SGroups: []gGrp{{"SG", l("tcp 80", "tcp 443")}}, Svcs: sv("tcp 80", "tcp 443")},
			gVsys{Rules: rs, SGroups: []gGrp{{"SG", l("tcp 80", "TCP 443 X")}}, Svcs: append(sv("tcp 80", "tcp 443"), x)}))
	}
	// raw and IPv6 parts in SEVERAL vsys: every vsys of the target gets the prepended and the <APPEND/>
	// rules of its own part only; the parts list the vsys in another order than the main file
	{
		dn := "localhost.localdomain"
		mk := func(name string, rules ...gRule) gVsys {
			return gVsys{Name: name, Rules: rules, Addrs: A[:3], Svcs: S[:1]}
		}
		app := func(r gRule) gRule { r.Append = true; return r }
		r := func(n, a string) gRule { return ru(n, l(a), l("any"), l("tcp 80")) }
		dev := []gVsys{mk("vsys1", r("r1", "IP_10.1.1.1")), mk("vsys2", r("r1", "IP_10.1.1.2")), mk("vsys3", r("r1", "IP_10.1.1.3"))}
		for i := range dev {
			dev[i].Display = "managed by NetSPoC"
		}
		spoc := []gVsys{mk("vsys1", r("r1", "IP_10.1.1.1")), mk("vsys2", r("r1", "IP_10.1.1.2")), mk("vsys3", r("r1", "IP_10.1.1.3"))}
		rawP := []gVsys{mk("vsys3", r("raw-top3", "IP_10.1.1.3")), mk("vsys1", r("raw-top1", "IP_10.1.1.1"), app(r("raw-end1", "IP_10.1.1.2"))),
			mk("vsys2", app(r("raw-end2", "IP_10.1.1.1")), r("raw-top2", "IP_10.1.1.2"))}
		v6P := []gVsys{mk("vsys2", r("v6-top2", "IP_10.1.1.3")), mk("vsys1", app(r("v6-end1", "IP_10.1.1.3")), r("v6-top1", "IP_10.1.1.2"))}
		for i := range rawP {
			rawP[i].Addrs, rawP[i].Svcs = nil, nil
		}
		for i := range v6P {
			v6P[i].Addrs, v6P[i].Svcs = nil, nil
		}
		want := func(useRaw, useV6 bool) []gVsys {
			e := []gVsys{mk("vsys1", r("r1", "IP_10.1.1.1")), mk("vsys2", r("r1", "IP_10.1.1.2")), mk("vsys3", r("r1", "IP_10.1.1.3"))}
			if useV6 {
				e[0].Rules = []gRule{r("v6-top1", "IP_10.1.1.2"), r("r1", "IP_10.1.1.1"), r("v6-end1", "IP_10.1.1.3")}
				e[1].Rules = []gRule{r("v6-top2", "IP_10.1.1.3"), r("r1", "IP_10.1.1.2")}
			}
			if useRaw {
				e[0].Rules = append(append([]gRule{r("raw-top1", "IP_10.1.1.1")}, e[0].Rules...), r("raw-end1", "IP_10.1.1.2"))
				e[1].Rules = append(append([]gRule{r("raw-top2", "IP_10.1.1.2")}, e[1].Rules...), r("raw-end2", "IP_10.1.1.1"))
				e[2].Rules = append([]gRule{r("raw-top3", "IP_10.1.1.3")}, e[2].Rules...)
			}
			return e
		}
		for _, k := range []struct {
			mode          string
			useRaw, useV6 bool
		}{{"corpus:raw-part-in-three-vsys", true, false}, {"corpus:ipv6-part-in-two-vsys", false, true}, {"corpus:raw-and-ipv6-parts-in-several-vsys", true, true}} {
			in := caseInput{Dev: configXML(dn, dev, false), Spoc: configXML(dn, spoc, false), Shared: []string{"SHARED_NET", "tcp 81 from shared"}, Mode: k.mode,
				expectText: configXML(dn, want(k.useRaw, k.useV6), false)}
			if k.useRaw {
				in.Raw = configXML("", rawP, false)
			}
			if k.useV6 {
				in.V6 = configXML("", v6P, false)
			}
			cs = append(cs, in)
		}
	}
	return cs
}
