package main

// C03 — PAN-OS approve converges to the Netspoc-equivalent rulebase; and the PAN-OS share of
// C07 (scope), C08 (every request executable), C10 (resume from every cut).
//
// Tie: the real planner (`panos.State.ParseConfig`, `MergeSpoc`, `GetChanges`; for a share of
// the cases additionally `drc.Main` on files) runs in-process on generated device / Netspoc
// pairs; its undecoded requests are decoded as the device's HTTP server would decode them,
// turned into the canonical command language and compared with the output of the Lean model
// (`nadrv-c03 PLAN`) on the decoded structs.  The real Myers script of every rule list is
// validated (ValidScript ∧ Normalised) and compared with the Lean port.
//
// Oracle (specification side only, `nadrv-c03 EXEC`): the real requests are executed on the
// strict candidate tree: every request accepted (C08), every xpath below the targeted vsys
// (C07), result equivalent to the target and a second plan empty, an empty plan only for an
// equivalent device (C03), and from the state after every prefix the real planner converges
// again (C10).

import (
	"encoding/json"
	"fmt"
	"os"
	"path/filepath"
	"sort"
	"strings"

	. "verifharness/vhlib"

	"github.com/hknutzen/Netspoc-Approve/go/pkg/deviceconf"
	"github.com/hknutzen/Netspoc-Approve/go/pkg/drc"
	"github.com/hknutzen/Netspoc-Approve/go/pkg/panos"
)

func main() {
	Main(map[string]PropFunc{
		"C03": func(c *Ctx) *Result { return run(c, "C03") },
		"C07": func(c *Ctx) *Result { return run(c, "C07") },
		"C08": func(c *Ctx) *Result { return run(c, "C08") },
		"C10": func(c *Ctx) *Result { return run(c, "C10") },
	})
}

// ---------------------------------------------------------------- the real planner, in-process

type realPlan struct {
	Err      string // error of parsing / merging / GetChanges ("" = none)
	Panic    string
	A, B     *panos.VerifConfig // decoded device, decoded and merged target
	Scripts  map[string][][4]int
	Groups   [][]string // undecoded requests as grouped by GetChanges
	ParseErr bool
}

func parseMerged(st *panos.State, main, v6, raw, base string) (c deviceconf.Config, err error) {
	c4, err := st.ParseConfig([]byte(main), base)
	if err != nil {
		return nil, err
	}
	c6, err := st.ParseConfig([]byte(v6), "ipv6/"+base)
	if err != nil {
		return nil, err
	}
	c = c4.MergeSpoc(c6)
	cr, err := st.ParseConfig([]byte(raw), base+".raw")
	if err != nil {
		return nil, err
	}
	return c.MergeSpoc(cr), nil
}

// planReal mirrors device.CompareFiles / loadSpoc with the exported methods of the backend.
func planReal(dev, spoc, v6, raw string) (p realPlan) {
	defer func() {
		if e := recover(); e != nil {
			p.Panic = fmt.Sprint(e)
		}
	}()
	st := &panos.State{}
	c1, err := parseMerged(st, dev, "", "", "device")
	if err != nil {
		p.Err, p.ParseErr = err.Error(), true
		return
	}
	c2, err := parseMerged(st, spoc, v6, raw, "router")
	if err != nil {
		p.Err, p.ParseErr = err.Error(), true
		return
	}
	p.A = panos.VerifDump(c1)
	p.B = panos.VerifDump(c2)
	p.Scripts, _ = panos.VerifRuleScripts(c1, c2)
	if err := st.GetChanges(c1, c2); err != nil {
		p.Err = err.Error()
		return
	}
	p.Groups = st.VerifChanges()
	return
}

// ---------------------------------------------------------------- one case

type checker struct {
	ctx   *Ctx
	prop  string
	res   *Result
	drv   *Nadrv
	tmp   string
	n     int
	plain bool // the pair being judged lies in a fragment of the whole-vsys theorems (PlainPair or GrpPair)
}

func encScripts(m map[string][][4]int) string {
	names := []string{}
	for n := range m {
		names = append(names, n)
	}
	sort.Strings(names)
	var l []string
	for _, n := range names {
		var rs []string
		for _, r := range m[n] {
			rs = append(rs, fmt.Sprintf("%d.%d.%d.%d", r[0], r[1], r[2], r[3]))
		}
		l = append(l, enc(n)+"="+strings.Join(rs, ","))
	}
	return strings.Join(l, "!")
}

func findVsys(c *panos.VerifConfig, name string) *panos.VerifVsys {
	if c == nil {
		return nil
	}
	var r *panos.VerifVsys
	for i := range c.Vsys {
		if c.Vsys[i].Name == name {
			r = &c.Vsys[i] // last one wins, like the Go map
		}
	}
	return r
}

type execResult struct {
	Accepted int
	Err      string
	Equiv    string
	Mismatch string
	WF       bool
	Tree     panos.VerifVsys
	Raw      string
}

func (c *checker) exec(shared []string, v panos.VerifVsys, cmds []string, t *panos.VerifVsys) (execResult, bool) {
	tv := ""
	if t != nil {
		tv = encVsys(*t)
	}
	ans := c.drv.Ask("EXEC\t" + encList(shared) + "\t" + encVsys(v) + "\t" + strings.Join(cmds, ";") + "\t" + tv)
	var r execResult
	r.Raw = ans
	head, tree, ok := strings.Cut(ans, "\t")
	if !ok {
		return r, false
	}
	for _, f := range strings.Fields(head) {
		k, val, _ := strings.Cut(f, "=")
		switch k {
		case "accepted":
			fmt.Sscan(val, &r.Accepted)
		case "err":
			if val != "-" {
				r.Err = dec(val)
			}
		case "equiv":
			r.Equiv = val
		case "mismatch":
			r.Mismatch = val
		case "wf":
			r.WF = val == "1"
		}
	}
	tv2, err := decVsys(tree)
	if err != nil {
		return r, false
	}
	tv2.DisplayName = v.DisplayName
	r.Tree = tv2
	return r, true
}

func parseFlags(s string) (script string, per map[string]map[string]string) {
	per = map[string]map[string]string{}
	for _, f := range strings.Fields(s) {
		if strings.HasPrefix(f, "script=") {
			script = f[len("script="):]
			continue
		}
		n, rest, ok := strings.Cut(f, ":")
		if !ok {
			continue
		}
		m := map[string]string{}
		for _, kv := range strings.Split(rest, ",") {
			k, v, _ := strings.Cut(kv, "=")
			m[k] = v
		}
		per[dec(n)] = m
	}
	return
}

// classify names the root-cause class of an oracle failure from decidable facts about the
// input pair and the observed symptom.
func classify(flags map[string]string, symptom, err, mismatch string, cmdsOfSecondPlan []string) string {
	onlySGrp := len(cmdsOfSecondPlan) > 0
	onlyLists := len(cmdsOfSecondPlan) > 0
	sgClass := flags["sgchg"] == "1" && flags["sgsent"] == "1"
	for _, c := range cmdsOfSecondPlan {
		if !strings.HasPrefix(c, "setsgrp:") {
			onlySGrp = false
		} else if sgClass && flags["mixed"] == "1" {
			continue // both classes in one vsys: the re-sent service-group belongs to F-C03a, the rest is judged below
		}
		k, _, _ := strings.Cut(c, ":")
		switch k {
		case "delmem", "addmem", "editlist", "setgrp", "delgrp", "delgmem":
		default:
			onlyLists = false
		}
	}
	switch {
	case flags["nestA"] == "1" || flags["nestB"] == "1":
		return "nested_address_groups"
	// F-C03a: the changed members of a same-named service-group were SENT (with set, which merges)
	case flags["sgchg"] == "1" && flags["sgsent"] == "1" &&
		(err == "delete-referenced-service" || err == "" && (mismatch == "srv" || onlySGrp)):
		return "service_group_same_name_members_differ"
	case flags["mixed"] == "1" && (err == "dangling-reference" || err == "delete-referenced-group" ||
		err == "" && (mismatch == "src" || mismatch == "dst" || onlyLists)):
		return "list_mixing_group_with_other_members"
	case flags["uniq"] == "1" && (err == "set-existing-rule" || symptom == "not_equivalent" || err == "move-before-itself" ||
		strings.HasPrefix(err, "dangling") || strings.HasPrefix(err, "delete-referenced")):
		return "generated_name_collides_with_target_name"
	}
	if err != "" {
		return symptom + ":" + err
	}
	return symptom
}

// propOf says which property an oracle symptom belongs to.
func propOf(symptom string) string {
	switch symptom {
	case "request_refused":
		return "C08"
	case "outside_targeted_vsys":
		return "C07"
	case "resume_refused", "resume_not_equivalent", "resume_second_plan_not_empty", "resume_state_not_wellformed":
		return "C10"
	case "refused_not_converged":
		return "C03"
	}
	return "C03"
}

func (c *checker) fail(symptom, pred, what string, in caseInput, extra map[string]any) {
	c.res.Count("oracle:" + propOf(symptom) + ":" + pred)
	if c.plain {
		c.res.Count("fragment:failure-inside-proven-fragment:" + symptom)
	}
	if propOf(symptom) != c.prop {
		return
	}
	if c.plain {
		what += " [this pair lies in a fragment (PlainPair / GrpPair) for which whole-vsys theorems panos_*_partial are proved of the model: the code does not behave like the model here]"
	}
	sig := map[string]any{"pred": pred, "backend": "PAN-OS", "symptom": symptom}
	for k, v := range extra {
		sig[k] = v
	}
	c.res.Fail(sig, what, in)
}

func canonGroups(groups [][]string, dev string, names []string) (per map[string][]string, order []string, outside []string) {
	per = map[string][]string{}
	for _, g := range groups {
		gname := ""
		for _, raw := range g {
			found := false
			for _, n := range names {
				if cmd, ok := canonCmd(raw, vsysPath(dev, n)); ok {
					found = true
					if gname == "" {
						gname = n
						order = append(order, n)
					}
					if n != gname {
						outside = append(outside, raw)
					}
					per[gname] = append(per[gname], cmd)
					break
				}
			}
			if !found {
				outside = append(outside, raw)
			}
		}
	}
	return
}

func modelGroups(body string) (per map[string][]string, order []string) {
	per = map[string][]string{}
	for _, g := range splitNE(body, "!") {
		n, cmds, _ := strings.Cut(g, "|")
		name := dec(n)
		order = append(order, name)
		per[name] = splitNE(cmds, ";")
	}
	return
}

func targetedNames(p realPlan) []string {
	var names []string
	if p.A == nil || p.B == nil {
		return nil
	}
	for _, v := range p.A.Vsys {
		if findVsys(p.B, v.Name) != nil {
			names = append(names, v.Name)
		}
	}
	// longest first, so that a name that is a prefix of another is not preferred
	sort.SliceStable(names, func(i, j int) bool { return len(names[i]) > len(names[j]) })
	return names
}

// tie compares the real plan with the model's; returns the canonical real commands per vsys
// and the per-pair flags.
func (c *checker) tie(stream string, in caseInput, p realPlan) (per map[string][]string, flags map[string]map[string]string, ok bool) {
	res := c.res
	if p.Panic != "" {
		res.Count("real:panic")
		res.Disagree(stream+" (real planner panics)", in, p.Panic, "")
		return nil, nil, false
	}
	if p.ParseErr {
		// every configuration of this harness is written by its generator (or rendered from a decoded
		// tree): the tool must read it
		res.Count("real:parse-error")
		res.Disagree(stream+" (the tool's parser refuses a configuration the generator wrote: "+p.Err+")", in, p.Err, "accepted")
		return nil, nil, false
	}
	if !c.decodeCheck(stream, in, p) {
		return nil, nil, false
	}
	devA, devB := p.A.DevName, p.B.DevName
	ans := c.drv.Ask(strings.Join([]string{"PLAN", enc(devA), enc(devB), encList(in.Shared), encDevice(p.A.Vsys),
		encDevice(p.B.Vsys), encScripts(p.Scripts)}, "\t"))
	f := strings.Split(ans, "\t")
	if len(f) != 3 {
		res.Disagree(stream+" (driver)", in, "", ans)
		return nil, nil, false
	}
	res.TracesVsImpl++
	script, flags := parseFlags(f[2])
	agree := true
	if script != "ok" {
		res.Disagree(stream+" (myers script of the rule lists: "+script+")", in, encScripts(p.Scripts), f[2])
		agree = false
	}
	if p.Err != "" || f[0] == "err" {
		res.Count("real:error")
		implE := p.Err
		if i := strings.Index(implE, " of XML"); i >= 0 && strings.HasPrefix(implE, "Different names") {
			implE = implE[:i+7]
		}
		if f[0] != "err" || implE != f[1] {
			res.Disagree(stream+" (error)", in, p.Err, ans)
		}
		if p.Err != "" {
			return nil, flags, false
		}
		agree = false
	}
	names := targetedNames(p)
	per, order, outside := canonGroups(p.Groups, devA, names)
	mper, morder := modelGroups(f[1])
	if len(outside) > 0 {
		c.fail("outside_targeted_vsys", "outside_targeted_vsys",
			"a request addresses an xpath that is not below the vsys it is sent for: "+outside[0], in, nil)
	}
	impl := []string{}
	for _, n := range order {
		impl = append(impl, enc(n)+"|"+strings.Join(per[n], ";"))
	}
	model := []string{}
	for _, n := range morder {
		model = append(model, enc(n)+"|"+strings.Join(mper[n], ";"))
	}
	if agree && strings.Join(impl, "!") != strings.Join(model, "!") {
		res.Disagree(stream, in, strings.Join(impl, "!"), strings.Join(model, "!"))
		agree = false
	}
	return per, flags, agree
}

// decodeCheck compares what the tool's parser made of the device and of the (merged) target with
// an independent reading of the same text.
func (c *checker) decodeCheck(stream string, in caseInput, p realPlan) bool {
	res := c.res
	wa, err := readConfig(in.Dev)
	if err != nil {
		res.Disagree(stream+" (harness: the device text is not well-formed XML: "+err.Error()+")", in, "", "")
		return false
	}
	if d := compareDecoded(p.A, wa, true); d != "" {
		res.Disagree(stream+" (decoding of the device: "+d+")", in, "", "")
		return false
	}
	switch {
	case in.V6 == "" && in.Raw == "":
		wb, err := readConfig(in.Spoc)
		if err != nil {
			res.Disagree(stream+" (harness: the target text is not well-formed XML: "+err.Error()+")", in, "", "")
			return false
		}
		if d := compareDecoded(p.B, wb, true); d != "" {
			res.Disagree(stream+" (decoding of the target: "+d+")", in, "", "")
			return false
		}
	case in.expectText != "":
		wb, err := readConfig(in.expectText)
		if err != nil {
			res.Disagree(stream+" (harness: expected target not well-formed: "+err.Error()+")", in, "", "")
			return false
		}
		if d := compareDecoded(p.B, wb, false); d != "" {
			res.Disagree(stream+" (decoding / merging of the target from main, ipv6 and raw file: "+d+")", in, "", "")
			return false
		}
		res.Count("decode-check:merged-target")
	default:
		// a replayed case with raw / IPv6 parts: the generator's merged target is not recorded
		res.Count("decode-check-skipped:merged-target-of-a-replay")
		return true
	}
	res.Count("decode-check:ok")
	return true
}

func renderPair(a panos.VerifVsys, b panos.VerifVsys) (string, string) {
	return renderConfig("localhost.localdomain", []panos.VerifVsys{a}, false),
		renderConfig("localhost.localdomain", []panos.VerifVsys{b}, false)
}

func cmdKinds(res *Result, cmds []string) {
	for _, cm := range cmds {
		k, _, _ := strings.Cut(cm, ":")
		res.Count("cmd:" + k)
	}
}

// runCase returns the device's vsys as decoded and, per targeted vsys that converged, the state reached.
func (c *checker) runCase(in caseInput, deep bool) (devVsys []panos.VerifVsys, reached map[string]panos.VerifVsys) {
	res := c.res
	c.n++
	reached = map[string]panos.VerifVsys{}
	p := planReal(in.Dev, in.Spoc, in.V6, in.Raw)
	if p.A != nil {
		devVsys = p.A.Vsys
	}
	per, flags, ok := c.tie("plan", in, p)
	canon := in.Dev + "\x00" + in.Spoc + "\x00" + in.V6 + "\x00" + in.Raw
	res.Count("mode:" + in.Mode)
	for _, m := range in.Mutations {
		res.Count("mut:" + m)
	}
	if in.UseDrcMain && p.Panic == "" && !p.ParseErr {
		c.compareDrcMain(in, p)
	}
	if per == nil {
		// no plan: the tool reported an error (compared with the model's in tie), panicked, or its
		// reading of the input differs from the text (both reported in tie)
		res.Count("case:no-plan")
		res.Eval(canon, false)
		return
	}
	total := 0
	for _, l := range per {
		total += len(l)
		cmdKinds(res, l)
	}
	res.Eval(canon, total > 0)
	res.Count(fmt.Sprintf("cmds:%02d", min(total, 40)/5*5))
	res.Count(fmt.Sprintf("vsys:%d", len(p.A.Vsys)))
	_ = ok // the oracle below judges the real requests whether or not the model agrees
	if flags == nil {
		res.Count("case:no-flags-from-the-model")
		res.Disagree("plan (driver gave no flags)", in, "", "")
		return
	}
	if len(res.Samples) < 3 && total > 3 {
		res.Sample(map[string]any{"input": in, "commands": per})
	}
	// oracle, per targeted vsys
	trees := map[string]panos.VerifVsys{} // per targeted vsys whose requests were all accepted: the state reached
	allAccepted := true
	defer func() { c.plain = false }()
	for _, name := range targetedNames(p) {
		a := *findVsys(p.A, name)
		b := *findVsys(p.B, name)
		fl := flags[name]
		cmds := per[name]
		fl = withSent(fl, cmds)
		c.plain = false
		if fl["wfA"] != "1" || fl["wfB"] != "1" {
			res.Count("oracle-skipped:not-wellformed")
			allAccepted = false
			continue
		}
		res.Count("oracle:pairs")
		c.plain = fl["plain"] == "1" || fl["grp"] == "1"
		if fl["grp"] == "1" {
			res.Count("fragment:grp-pair")
			if fl["plain"] != "1" {
				res.Count("fragment:grp-pair-with-groups")
			}
		}
		if fl["plain"] == "1" {
			res.Count("fragment:plain-pair")
			if fl["tnames"] == "1" && fl["srvnd"] == "1" {
				res.Count("fragment:plain-pair-idempotence-hyps")
			}
		}
		r, ok := c.exec(in.Shared, a, cmds, &b)
		if !ok {
			res.Disagree("exec (driver)", in, "", r.Raw)
			allAccepted = false
			continue
		}
		if r.Accepted == len(cmds) {
			trees[name] = r.Tree
		} else {
			allAccepted = false
		}
		// the state the device is left in must itself be a configuration the device can hold: names are
		// keys, address and address-group share a name space (so do service and service-group), every
		// reference resolves, no member twice
		if !r.WF {
			c.fail("reached_state_not_wellformed", classify(fl, "reached_state_not_wellformed", r.Err, "", nil),
				fmt.Sprintf("after %d of %d requests the vsys %s is not a well-formed configuration (a name used twice / by an address and a group, a dangling reference, or a member twice)",
					r.Accepted, len(cmds), name), in, map[string]any{"error": r.Err})
		} else {
			res.Count("oracle:reached-state-wellformed")
		}
		if len(cmds) == 0 {
			res.Count("oracle:empty-plan")
			if r.Equiv != "1" {
				c.fail("empty_plan_not_equivalent", classify(fl, "empty_plan_not_equivalent", "", r.Mismatch, nil),
					"no change is reported although the device vsys "+name+" is not equivalent to the target", in, nil)
			}
			continue
		}
		if r.Accepted != len(cmds) {
			pred := classify(fl, "request_refused", r.Err, "", nil)
			c.fail("request_refused", pred, fmt.Sprintf("request %d of %d for vsys %s is refused by the strict device (%s): %s",
				r.Accepted+1, len(cmds), name, r.Err, cmds[r.Accepted]), in, map[string]any{"error": r.Err})
			// the approve stops here: the vsys stays as it is after the accepted requests
			if r.Equiv != "1" {
				c.fail("refused_not_converged", classify(fl, "refused_not_converged", r.Err, r.Mismatch, nil),
					fmt.Sprintf("approve of vsys %s stops at request %d of %d (%s: %s) and leaves a vsys that is not equivalent to the target (first difference: %s)",
						name, r.Accepted+1, len(cmds), r.Err, cmds[r.Accepted], r.Mismatch), in, map[string]any{"error": r.Err})
			}
			if r.Equiv == "1" {
				// equivalent by content, but does the tool ever report 'no change' again?
				d2, s2 := renderPair(r.Tree, b)
				p2 := planReal(d2, s2, "", "")
				per2, _, _ := c.tie("plan on state after refusal", caseInput{Dev: d2, Spoc: s2, Shared: in.Shared, Mode: "after-refusal"}, p2)
				if per2 != nil && len(per2[name]) != 0 {
					c.fail("refused_not_converged", classify(fl, "refused_not_converged", r.Err, r.Mismatch, nil),
						fmt.Sprintf("approve of vsys %s stops at request %d of %d (%s: %s); the next compare still reports changes: %s",
							name, r.Accepted+1, len(cmds), r.Err, cmds[r.Accepted], strings.Join(per2[name], ";")), in, map[string]any{"error": r.Err})
				}
			}
			res.Count("oracle:refused")
			if !deep {
				continue
			}
		} else if r.Equiv != "1" {
			c.fail("not_equivalent", classify(fl, "not_equivalent", "", r.Mismatch, nil),
				"after executing all requests the vsys "+name+" is not equivalent to the target (first difference: "+r.Mismatch+")", in, nil)
		} else {
			res.Count("oracle:converged")
			reached[name] = r.Tree
			// second plan on the reached state
			d2, s2 := renderPair(r.Tree, b)
			p2 := planReal(d2, s2, "", "")
			in2 := in
			in2.Mode = "second-plan"
			per2, _, ok2 := c.tie("plan on reached state", caseInput{Dev: d2, Spoc: s2, Shared: in.Shared, Mode: "second-plan"}, p2)
			if ok2 && len(per2[name]) != 0 {
				c.fail("second_plan_not_empty", classify(fl, "second_plan_not_empty", "", "", per2[name]),
					"a second compare of vsys "+name+" reports changes: "+strings.Join(per2[name], ";"), in, nil)
			} else if ok2 {
				res.Count("oracle:second-plan-empty")
			}
		}
		// resume from every cut
		if c.prop == "C10" || deep {
			c.resume(in, name, a, b, cmds, fl)
		}
	}
	c.plain = false
	if allAccepted {
		c.devExec(in, p, per, trees)
	}
	return
}

// devExec executes the whole real plan on the whole device (Lean: execDevAll) and compares: a vsys
// the target names must be what the stand-alone execution of its own requests gave
// (execDevAll_planDevice), every other vsys must be what it was (panos_outside_vsys_untouched).
func (c *checker) devExec(in caseInput, p realPlan, per map[string][]string, trees map[string]panos.VerifVsys) {
	res := c.res
	seen := map[string]bool{}
	for _, v := range p.A.Vsys {
		if seen[v.Name] {
			res.Count("devexec-skipped:duplicate-vsys-name")
			return
		}
		seen[v.Name] = true
	}
	var groups []string
	for _, v := range p.A.Vsys {
		if l := per[v.Name]; len(l) > 0 {
			groups = append(groups, enc(v.Name)+"|"+strings.Join(l, ";"))
		}
	}
	ans := c.drv.Ask("DEVEXEC\t" + encList(in.Shared) + "\t" + encDevice(p.A.Vsys) + "\t" + strings.Join(groups, "!"))
	head, body, _ := strings.Cut(ans, "\t")
	if head != "ok" {
		res.Disagree("devexec: the whole plan is refused on the whole device although every vsys accepts its own requests", in, "ok", ans)
		return
	}
	parts := splitNE(body, "!")
	if len(parts) != len(p.A.Vsys) {
		c.fail("outside_targeted_vsys", "outside_targeted_vsys", fmt.Sprintf("the device has %d vsys after the plan, %d before", len(parts), len(p.A.Vsys)), in, nil)
		return
	}
	for i, v := range p.A.Vsys {
		got, err := decVsys(parts[i])
		if err != nil {
			res.Disagree("devexec (driver)", in, "", parts[i])
			return
		}
		if t, targeted := trees[v.Name]; targeted {
			if encVsys(got) != encVsys(t) {
				res.Disagree("devexec: vsys "+v.Name+" after the whole plan differs from the stand-alone execution of its requests", in, encVsys(t), encVsys(got))
				return
			}
			continue
		}
		if encVsys(got) != encVsys(v) {
			c.fail("outside_targeted_vsys", "outside_targeted_vsys", "vsys "+v.Name+", which the target does not name, is changed by the plan", in, nil)
			return
		}
		res.Count("devexec:vsys-untouched")
	}
	res.Count("devexec:ok")
}

func (c *checker) resume(in caseInput, name string, a, b panos.VerifVsys, cmds []string, fl map[string]string) {
	res := c.res
	maxCmds := c.ctx.N(25, 120)
	if len(cmds) > maxCmds {
		res.Count("resume-skipped:long")
		return
	}
	for k := 0; k < len(cmds); k++ {
		r, ok := c.exec(in.Shared, a, cmds[:k], nil)
		if !ok {
			res.Disagree("exec of a prefix (driver)", in, "", r.Raw)
			return
		}
		if r.Accepted != k {
			res.Count("resume-stopped:prefix-refused") // the refusal itself is reported by runCase (C08)
			return
		}
		res.Count("resume:cuts")
		dk, sk := renderPair(r.Tree, b)
		pk := planReal(dk, sk, "", "")
		ink := caseInput{Dev: dk, Spoc: sk, Shared: in.Shared, Mode: "resume"}
		perk, flk, _ := c.tie("plan after cut", ink, pk)
		if perk == nil {
			// the tool gave no plan for the state after the cut: reported by tie (error / panic / decoding)
			res.Count("resume-skipped:no-plan-after-cut")
			continue
		}
		fl = withSent(fl, perk[name])
		if f := flk[name]; f != nil {
			// the class is decided on the original pair and on the hybrid pair
			for _, key := range []string{"nestA", "nestB", "sgchg", "uniq", "mixed"} {
				if f[key] == "1" {
					fl = mergeFlag(fl, key)
				}
			}
		}
		rk, ok := c.exec(in.Shared, r.Tree, perk[name], &b)
		if !ok {
			res.Disagree("exec after cut (driver)", in, "", rk.Raw)
			continue
		}
		what := fmt.Sprintf("vsys %s, cut after %d of %d requests", name, k, len(cmds))
		if !r.WF || !rk.WF {
			c.fail("resume_state_not_wellformed", classify(fl, "resume_state_not_wellformed", rk.Err, "", nil),
				what+": the state after the cut or after the second run is not a well-formed configuration", in, map[string]any{"error": rk.Err})
		}
		if rk.Accepted != len(perk[name]) {
			c.fail("resume_refused", classify(fl, "resume_refused", rk.Err, "", nil),
				what+": request "+fmt.Sprint(rk.Accepted+1)+" of the second run is refused ("+rk.Err+")", in, map[string]any{"error": rk.Err})
			continue
		}
		if rk.Equiv != "1" {
			c.fail("resume_not_equivalent", classify(fl, "resume_not_equivalent", "", rk.Mismatch, nil),
				what+": the second run does not reach a vsys equivalent to the target ("+rk.Mismatch+")", in, nil)
			continue
		}
		d3, s3 := renderPair(rk.Tree, b)
		p3 := planReal(d3, s3, "", "")
		per3, _, ok3 := c.tie("plan after resume", caseInput{Dev: d3, Spoc: s3, Shared: in.Shared, Mode: "resume-2"}, p3)
		if ok3 && len(per3[name]) != 0 {
			c.fail("resume_second_plan_not_empty", classify(fl, "resume_second_plan_not_empty", "", "", per3[name]),
				what+": a further compare reports changes", in, nil)
		} else if ok3 {
			res.Count("resume:converged")
		}
	}
}

// withSent records whether the plan re-sends the members of a service-group.
func withSent(fl map[string]string, cmds []string) map[string]string {
	for _, c := range cmds {
		if strings.HasPrefix(c, "setsgrp:") {
			return mergeFlag(fl, "sgsent")
		}
	}
	return fl
}

func mergeFlag(fl map[string]string, key string) map[string]string {
	m := map[string]string{}
	for k, v := range fl {
		m[k] = v
	}
	m[key] = "1"
	return m
}

// compareDrcMain runs `drc DEVICE NETSPOC` (drc.Main, files on disk, .info with model PAN-OS)
// and compares its printed, url-decoded requests with those of the in-process pipeline.
func (c *checker) compareDrcMain(in caseInput, p realPlan) {
	dir := filepath.Join(c.tmp, fmt.Sprintf("d%d", c.n))
	files := map[string]string{"device": in.Dev, "router": in.Spoc, "router.info": `{"model":"PAN-OS"}`}
	if in.V6 != "" {
		files["ipv6/router"] = in.V6
	}
	if in.Raw != "" {
		files["router.raw"] = in.Raw
	}
	WriteFiles(dir, files)
	defer os.RemoveAll(dir)
	old := os.Args
	os.Args = []string{"drc", "-q", filepath.Join(dir, "device"), filepath.Join(dir, "router")}
	stdout, stderr, status, panicMsg := Captured(func() int { return drc.Main() })
	os.Args = old
	c.res.Count("drc.Main:runs")
	var want strings.Builder
	for _, g := range p.Groups {
		for _, raw := range g {
			// ShowChanges prints url.QueryUnescape of the whole request
			s, _ := queryUnescape(raw)
			want.WriteString(s + "\n")
		}
	}
	if panicMsg != "" {
		c.res.Disagree("drc.Main panics", in, panicMsg, "")
		return
	}
	if p.Err != "" {
		first, _, _ := strings.Cut(p.Err, "\n")
		if i := strings.Index(first, " of XML"); i >= 0 && strings.HasPrefix(first, "Different names") {
			first = first[:i+7]
		}
		if status == 0 || !strings.Contains(stderr, "ERROR>>>") || !strings.Contains(stderr, first) {
			c.res.Disagree("drc.Main error", in, fmt.Sprintf("status %d stderr %s", status, stderr), p.Err)
		}
		return
	}
	if status != 0 || stdout != want.String() {
		c.res.Disagree("drc.Main output", in, fmt.Sprintf("status %d\n%s\n%s", status, stdout, stderr), want.String())
	}
}

// ---------------------------------------------------------------- myers port

func (c *checker) myersCases(n int) {
	rng := c.ctx.Rng.Fork()
	for i := 0; i < n; i++ {
		a, b := rng.Intn(7), rng.Intn(7)
		eq := make([]bool, a*b)
		bits := make([]byte, a*b)
		dens := 10 + rng.Intn(60)
		diag := rng.Chance(60)
		full := rng.Chance(20)
		if full {
			b = a
		}
		eq = make([]bool, a*b)
		bits = make([]byte, a*b)
		for x := 0; x < a; x++ {
			for y := 0; y < b; y++ {
				e := rng.Chance(dens)
				if diag {
					e = rng.Chance(5) || (x-y == 0 || x-y == 1 || y-x == 2) && rng.Chance(85)
				}
				if full && x == y {
					e = true
				}
				eq[x*b+y] = e
				bits[x*b+y] = '0'
				if e {
					bits[x*b+y] = '1'
				}
			}
		}
		var impl []string
		for _, r := range panos.VerifMyers(a, b, eq) {
			impl = append(impl, fmt.Sprintf("%d.%d.%d.%d", r[0], r[1], r[2], r[3]))
		}
		ans := c.drv.Ask(fmt.Sprintf("MYERS\t%d\t%d\t%s", a, b, bits))
		model, fl, _ := strings.Cut(ans, "\t")
		c.res.Count("myers:cases")
		if model != strings.Join(impl, ",") {
			c.res.Disagree("myers port", map[string]any{"n": a, "m": b, "eq": string(bits)}, strings.Join(impl, ","), model)
		} else if fl != "valid=1 norm=1 ident=-" && fl != "valid=1 norm=1 ident=1" {
			c.res.Disagree("myers script not valid/normalised", map[string]any{"n": a, "m": b, "eq": string(bits)}, strings.Join(impl, ","), ans)
		}
	}
}

// ---------------------------------------------------------------- run

func run(ctx *Ctx, prop string) *Result {
	res := NewResult()
	res.Rule = "PAN-OS device / Netspoc pairs (1–3 vsys; ≤ 8 rules, ≤ 6 groups per vsys): target derived from the device by 1–4 mutations " +
		"(rules inserted/deleted/moved/changed, member lists grown/shrunk a little or a lot/replaced, groups renamed/grown/shrunk/split/merged/" +
		"inlined/outlined/name-swapped, same name other value for addresses and services, unknown attributes, raw and IPv6 parts, odd names), " +
		"or generated independently, or identical; corpus first, then seeded random; every state reached after a cut is a further case. " +
		"non-trivial = the real planner emits at least one request; distinct by input text"
	res.Assumptions = []string{
		"the device decodes a request like net/url.ParseQuery",
		"names contain no single quote (xpath predicates are not escaped by the tool)",
		"objects named by the target but defined nowhere in the vsys exist in <shared> of the device",
	}
	tmp, err := os.MkdirTemp("", "vh-c03-")
	if err != nil {
		panic(err)
	}
	defer os.RemoveAll(tmp)
	drv := ctx.StartNadrv("c03")
	defer drv.Close()
	c := &checker{ctx: ctx, prop: prop, res: res, drv: drv, tmp: tmp}

	if ctx.Replay != "" {
		var in caseInput
		if err := ReadReplay(ctx.Replay, &in); err != nil {
			fmt.Fprintln(os.Stderr, err)
			os.Exit(2)
		}
		c.runCase(in, true)
		return res
	}
	for _, in := range corpus() {
		in.UseDrcMain = true
		c.runCase(in, true)
	}
	c.myersCases(ctx.N(300, 20000))
	n := ctx.N(400, 15000)
	for i := 0; i < n; i++ {
		rng := ctx.Rng.Fork()
		in := genCase(rng)
		in.UseDrcMain = i%10 == 0
		deep := prop == "C10" || i%4 == 0
		devVsys, reached := c.runCase(in, deep)
		// every third case is continued: the device is now what the approve left behind (renamed
		// rules r1-1 next to r1, renamed / reused / left-over groups), the target changes again
		for depth := 0; i%3 == 0 && depth < 2 && len(reached) > 0; depth++ {
			next, ok := chainCase(in, devVsys, reached)
			if !ok {
				break
			}
			in = next
			devVsys, reached = c.runCase(in, deep)
		}
	}
	return res
}

func queryUnescape(s string) (string, error) {
	return urlQueryUnescape(s)
}

var _ = json.Marshal
