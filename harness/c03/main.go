package main

// C03 — PAN-OS approve converges to the Netspoc-equivalent rulebase; and the PAN-OS share of
// C07 (scope), C08 (every request executable), C10 (resume from every cut).
//
// Tie: the real planner (`panos.State.ParseConfig`, `MergeSpoc`, `GetChanges`; for a share of
// the cases additionally `drc.Main` on files) runs in-process on generated device / Netspoc
// pairs; its undecoded requests are decoded as the device's HTTP server would decode them,
// turned into the canonical command language and compared with the output of the Lean model
// (`nadrv-c03 PLAN`) on the decoded structs.  The real Myers script of every rule list is
// validated (ValidScript ∧ Normalised) and compared with the Lean port.
//
// Oracle (specification side only, `nadrv-c03 EXEC`): the real requests are executed on the
// strict candidate tree: every request accepted (C08), every xpath below the targeted vsys
// (C07), result equivalent to the target and a second plan empty, an empty plan only for an
// equivalent device (C03), and from the state after every prefix the real planner converges
// again (C10).

import (
	"encoding/json"
	"fmt"
	"os"
	"path/filepath"
	"sort"
	"strings"

	. "verifharness/vhlib"

	"github.com/hknutzen/Netspoc-Approve/go/pkg/deviceconf"
	"github.com/hknutzen/Netspoc-Approve/go/pkg/drc"
	"github.com/hknutzen/Netspoc-Approve/go/pkg/panos"
)

func main() {
	Main(map[string]PropFunc{
		"C03": func(c *Ctx) *Result { return run(c, "C03") },
		"C07": func(c *Ctx) *Result { return run(c, "C07") },
		"C08": func(c *Ctx) *Result { return run(c, "C08") },
		"C10": func(c *Ctx) *Result { return run(c, "C10") },
	})
}

// ---------------------------------------------------------------- the real planner, in-process

type realPlan struct {
	Err      string // error of parsing / merging / GetChanges ("" = none)
	Panic    string
	A, B     *panos.VerifConfig // decoded device, decoded and merged target
	Scripts  map[string][][4]int
	Groups   [][]string // undecoded requests as grouped by GetChanges
	ParseErr bool
}

func parseMerged(st *panos.State, main, v6, raw, base string) (c deviceconf.Config, err error) {
	c4, err := st.ParseConfig([]byte(main), base)
	if err != nil {
		return nil, err
	}
	c6, err := st.ParseConfig([]byte(v6), "ipv6/"+base)
	if err != nil {
		return nil, err
	}
	c = c4.MergeSpoc(c6)
	cr, err := st.ParseConfig([]byte(raw), base+".raw")
	if err != nil {
		return nil, err
	}
	return c.MergeSpoc(cr), nil
}

// planReal mirrors device.CompareFiles / loadSpoc with the exported methods of the backend.
func planReal(dev, spoc, v6, raw string) (p realPlan) {
	defer func() {
		if e := recover(); e != nil {
			p.Panic = fmt.Sprint(e)
		}
	}()
	st := &panos.State{}
	c1, err := parseMerged(st, dev, "", "", "device")
	if err != nil {
		p.Err, p.ParseErr = err.Error(), true
		return
	}
	c2, err := parseMerged(st, spoc, v6, raw, "router")
	if err != nil {
		p.Err, p.ParseErr = err.Error(), true
		return
	}
	p.A = panos.VerifDump(c1)
	p.B = panos.VerifDump(c2)
	p.Scripts, _ = panos.VerifRuleScripts(c1, c2)
	if err := st.GetChanges(c1, c2); err != nil {
		p.Err = err.Error()
		return
	}
	p.Groups = st.VerifChanges()
	return
}

// ---------------------------------------------------------------- one case

type checker struct {
	ctx   *Ctx
	prop  string
	res   *Result
	drv   *Nadrv
	tmp   string
	n     int
	plain bool // the pair being judged lies in a fragment of the whole-vsys theorems (PlainPair or GrpPair)
}

func encScripts(m map[string][][4]int) string {
	names := []string{}
	for n := range m {
		names = append(names, n)
	}
	sort.Strings(names)
	var l []string
	for _, n := range names {
		var rs []string
		for _, r := range m[n] {
			rs = append(rs, fmt.Sprintf("%d.%d.%d.%d", r[0], r[1], r[2], r[3]))
		}
		l = append(l, enc(n)+"="+strings.Join(rs, ","))
	}
	return strings.Join(l, "!")
}

func findVsys(c *panos.VerifConfig, name string) *panos.VerifVsys {
	if c == nil {
		return nil
	}
	var r *panos.VerifVsys
	for i := range c.Vsys {
		if c.Vsys[i].Name == name {
			r = &c.Vsys[i] // last one wins, like the Go map
		}
	}
	return r
}

type execResult struct {
	Accepted int
	Err      string
	Equiv    string
	Mismatch string
	WF       bool
	Unref    []string // objects of the reached vsys nothing mentions (Lean: unreferenced)
	Tree     panos.VerifVsys
	Raw      string
}

func (c *checker) exec(shared []string, v panos.VerifVsys, cmds []string, t *panos.VerifVsys) (execResult, bool) {
	tv := ""
	if t != nil {
		tv = encVsys(*t)
	}
	ans := c.drv.Ask("EXEC\t" + encList(shared) + "\t" + encVsys(v) + "\t" + strings.Join(cmds, ";") + "\t" + tv)
	var r execResult
	r.Raw = ans
	head, tree, ok := strings.Cut(ans, "\t")
	if !ok {
		return r, false
	}
	for _, f := range strings.Fields(head) {
		k, val, _ := strings.Cut(f, "=")
		switch k {
		case "accepted":
			fmt.Sscan(val, &r.Accepted)
		case "err":
			if val != "-" {
				r.Err = dec(val)
			}
		case "equiv":
			r.Equiv = val
		case "mismatch":
			r.Mismatch = val
		case "wf":
			r.WF = val == "1"
		case "unref":
			for _, n := range splitNE(val, ",") {
				r.Unref = append(r.Unref, dec(n))
			}
		}
	}
	tv2, err := decVsys(tree)
	if err != nil {
		return r, false
	}
	tv2.DisplayName = v.DisplayName
	r.Tree = tv2
	return r, true
}

func parseFlags(s string) (script string, per map[string]map[string]string) {
	per = map[string]map[string]string{}
	for _, f := range strings.Fields(s) {
		if strings.HasPrefix(f, "script=") {
			script = f[len("script="):]
			continue
		}
		n, rest, ok := strings.Cut(f, ":")
		if !ok {
			continue
		}
		m := map[string]string{}
		for _, kv := range strings.Split(rest, ",") {
			k, v, _ := strings.Cut(kv, "=")
			m[k] = v
		}
		per[dec(n)] = m
	}
	return
}

// prediction: what the Lean model of the UNCHANGED planner does on a vsys pair (driver op PREDICT).
type prediction struct {
	ok                   bool
	N, Accepted          int
	Err, Equiv, Mism     string
	WF, SgDropRef        bool
	Unref                string // what the model's own run leaves unreferenced (encoded names, comma separated)
	UnrefSG              bool   // ... and all of it has the shape of F-C03h
	Shape1, Shape2       string // three bits: only mixed lists / only changed service-groups / only these two kinds
	Refused, Plan, Plan2 string
}

func (c *checker) predict(shared []string, a, b panos.VerifVsys) (p prediction) {
	ans := c.drv.Ask("PREDICT\t" + encList(shared) + "\t" + encVsys(a) + "\t" + encVsys(b))
	f := strings.Split(ans, "\t")
	if len(f) != 4 {
		return
	}
	p.ok = true
	for _, kv := range strings.Fields(f[0]) {
		k, v, _ := strings.Cut(kv, "=")
		switch k {
		case "n":
			fmt.Sscan(v, &p.N)
		case "accepted":
			fmt.Sscan(v, &p.Accepted)
		case "err":
			if v != "-" {
				p.Err = dec(v)
			}
		case "equiv":
			p.Equiv = v
		case "mismatch":
			p.Mism = v
		case "wf":
			p.WF = v == "1"
		case "sgdropref":
			p.SgDropRef = v == "1"
		case "unref":
			p.Unref = v
		case "unrefsg":
			p.UnrefSG = v == "1"
		case "shape1":
			p.Shape1 = v
		case "shape2":
			p.Shape2 = v
		}
	}
	p.Refused, p.Plan, p.Plan2 = f[1], f[2], f[3]
	return
}

// observed: one failing observation on the real requests of one vsys pair.
type observed struct {
	shared   []string
	a, b     panos.VerifVsys // the pair the requests were computed for
	cmds     []string        // the real requests
	r        execResult      // their strict execution
	plan2    []string        // the real second plan (nil: not computed)
	hasPlan2 bool
	planOnly bool              // only the plan is observed (not executed)
	fl       map[string]string // flags of THIS pair (never carried over from another cut)
}

// judge names the class of a failure.  A failure belongs to a recorded finding only if (1) the
// model of the unchanged planner predicts exactly this outcome on exactly this input
// (`model_predicts`: same requests, same refusal, same difference, same second plan) and (2) it
// has the shape of the finding, computed by the model from the input (`shape`).  Everything
// else keeps its symptom as class and is reported.
func (c *checker) judge(symptom string, o observed) (pred string, extra map[string]any) {
	pr := c.predict(o.shared, o.a, o.b)
	mp := pr.ok && pr.N == len(o.cmds) && pr.Plan == strings.Join(o.cmds, ";") && pr.Accepted == o.r.Accepted &&
		pr.Err == o.r.Err && pr.Equiv == o.r.Equiv && pr.Mism == o.r.Mismatch
	if o.planOnly {
		mp = pr.ok && pr.Plan == strings.Join(o.cmds, ";")
	} else if o.hasPlan2 {
		mp = mp && pr.Plan2 == strings.Join(o.plan2, ";")
	}
	extra = map[string]any{"model_predicts": mp, "error": o.r.Err, "shape": "-"}
	pred = symptom
	if o.r.Err != "" {
		pred = symptom + ":" + o.r.Err
	}
	refused := ""
	if o.r.Accepted < len(o.cmds) {
		refused = o.cmds[o.r.Accepted]
	}
	bit := func(s string, i int) bool { return len(s) == 3 && s[i] == '1' }
	switch symptom {
	case "request_refused", "resume_refused":
		// F-C03a: `delete service X` where only the DEVICE's version of a same-named service-group holds X
		if o.r.Err == "delete-referenced-service" && pr.SgDropRef && refused == pr.Refused && strings.HasPrefix(refused, "delsvc:") {
			pred, extra["shape"] = "service_group_same_name_members_differ", "delete-of-a-service-only-the-device-group-holds"
		}
	case "not_equivalent", "resume_not_equivalent":
		// F-C03a: all accepted, the merged service-group makes the service content differ
		if o.r.Mismatch == "srv" && o.fl["sgchg"] == "1" && o.fl["sgsent"] == "1" {
			pred, extra["shape"] = "service_group_same_name_members_differ", "merged-service-group"
		}
	case "refused_not_converged":
		if o.planOnly {
			// stopped at a refusal, equivalent, but the next compare reports changes: o is the pair (state after refusal, target)
			if bit(pr.Shape1, 1) {
				pred, extra["shape"] = "service_group_same_name_members_differ", "changed-service-group-sent-again"
			}
		} else if o.r.Err == "delete-referenced-service" && pr.SgDropRef && refused == pr.Refused && o.r.Mismatch == "srv" {
			pred, extra["shape"] = "service_group_same_name_members_differ", "delete-of-a-service-only-the-device-group-holds"
		}
	case "unreferenced_objects_left", "resume_leaves_unreferenced_objects":
		// F-C03h: the model leaves exactly these objects, all of them services a same-named target service-group names
		var l []string
		for _, n := range o.r.Unref {
			l = append(l, enc(n))
		}
		if pr.Unref != strings.Join(l, ",") {
			extra["model_predicts"] = false
		} else if pr.UnrefSG {
			pred, extra["shape"] = "service_kept_for_a_service_group_that_is_not_sent", "only-member-services-of-a-same-named-target-service-group"
		}
	case "second_plan_not_empty", "resume_second_plan_not_empty":
		switch {
		case bit(pr.Shape2, 1):
			pred, extra["shape"] = "service_group_same_name_members_differ", "changed-service-group-sent-again"
		case bit(pr.Shape2, 0):
			pred, extra["shape"] = "list_mixing_group_with_other_members", "requests-on-mixed-lists-only"
		case bit(pr.Shape2, 2):
			pred, extra["shape"] = "list_mixing_group_with_other_members", "requests-on-mixed-lists-and-changed-service-groups-only"
		}
	}
	return
}

// propOf says which property an oracle symptom belongs to.
func propOf(symptom string) string {
	switch symptom {
	case "request_refused":
		return "C08"
	case "outside_targeted_vsys":
		return "C07"
	case "resume_refused", "resume_not_equivalent", "resume_second_plan_not_empty", "resume_state_not_wellformed", "resume_leaves_unreferenced_objects":
		return "C10"
	case "refused_not_converged":
		return "C03"
	}
	return "C03"
}

func (c *checker) fail(symptom, pred, what string, in caseInput, extra map[string]any) {
	c.res.Count("oracle:" + propOf(symptom) + ":" + pred)
	if c.plain {
		c.res.Count("fragment:failure-inside-proven-fragment:" + symptom)
	}
	if propOf(symptom) != c.prop {
		return
	}
	if c.plain {
		what += " [this pair lies in a fragment (PlainPair / GrpPair) for which whole-vsys theorems panos_*_partial are proved of the model: the code does not behave like the model here]"
	}
	sig := map[string]any{"pred": pred, "backend": "PAN-OS", "symptom": symptom}
	for k, v := range extra {
		sig[k] = v
	}
	c.res.Fail(sig, what, in)
}

func canonGroups(groups [][]string, dev string, names []string) (per map[string][]string, order []string, outside []string) {
	per = map[string][]string{}
	for _, g := range groups {
		gname := ""
		for _, raw := range g {
			found := false
			for _, n := range names {
				if cmd, ok := canonCmd(raw, vsysPath(dev, n)); ok {
					found = true
					if gname == "" {
						gname = n
						order = append(order, n)
					}
					if n != gname {
						outside = append(outside, raw)
					}
					per[gname] = append(per[gname], cmd)
					break
				}
			}
			if !found {
				outside = append(outside, raw)
			}
		}
	}
	return
}

func modelGroups(body string) (per map[string][]string, order []string) {
	per = map[string][]string{}
	for _, g := range splitNE(body, "!") {
		n, cmds, _ := strings.Cut(g, "|")
		name := dec(n)
		order = append(order, name)
		per[name] = splitNE(cmds, ";")
	}
	return
}

func targetedNames(p realPlan) []string {
	var names []string
	if p.A == nil || p.B == nil {
		return nil
	}
	for _, v := range p.A.Vsys {
		if findVsys(p.B, v.Name) != nil {
			names = append(names, v.Name)
		}
	}
	// longest first, so that a name that is a prefix of another is not preferred
	sort.SliceStable(names, func(i, j int) bool { return len(names[i]) > len(names[j]) })
	return names
}

// tie compares the real plan with the model's; returns the canonical real commands per vsys
// and the per-pair flags.
func (c *checker) tie(stream string, in caseInput, p realPlan) (per map[string][]string, flags map[string]map[string]string, ok bool) {
	res := c.res
	if p.Panic != "" {
		res.Count("real:panic")
		res.Disagree(stream+" (real planner panics)", in, p.Panic, "")
		return nil, nil, false
	}
	if p.ParseErr {
		// every configuration of this harness is written by its generator (or rendered from a decoded
		// tree): the tool must read it
		res.Count("real:parse-error")
		res.Disagree(stream+" (the tool's parser refuses a configuration the generator wrote: "+p.Err+")", in, p.Err, "accepted")
		// also an oracle failure of its own, so that the input is kept as a replay
		c.failAny("valid_input_refused", stream+": the tool refuses a valid configuration: "+p.Err, in)
		return nil, nil, false
	}
	if !c.decodeCheck(stream, in, p) {
		return nil, nil, false
	}
	devA, devB := p.A.DevName, p.B.DevName
	ans := c.drv.Ask(strings.Join([]string{"PLAN", enc(devA), enc(devB), encList(in.Shared), encDevice(p.A.Vsys),
		encDevice(p.B.Vsys), encScripts(p.Scripts)}, "\t"))
	f := strings.Split(ans, "\t")
	if len(f) != 3 {
		res.Disagree(stream+" (driver)", in, "", ans)
		return nil, nil, false
	}
	res.TracesVsImpl++
	script, flags := parseFlags(f[2])
	agree := true
	if script != "ok" {
		res.Disagree(stream+" (myers script of the rule lists: "+script+")", in, encScripts(p.Scripts), f[2])
		agree = false
	}
	if p.Err != "" || f[0] == "err" {
		res.Count("real:error")
		implE := p.Err
		if i := strings.Index(implE, " of XML"); i >= 0 && strings.HasPrefix(implE, "Different names") {
			implE = implE[:i+7]
		}
		if f[0] != "err" || implE != f[1] {
			res.Disagree(stream+" (error)", in, p.Err, ans)
		}
		if p.Err != "" {
			return nil, flags, false
		}
		agree = false
	}
	names := targetedNames(p)
	per, order, outside := canonGroups(p.Groups, devA, names)
	mper, morder := modelGroups(f[1])
	if len(outside) > 0 {
		c.fail("outside_targeted_vsys", "outside_targeted_vsys",
			"a request addresses an xpath that is not below the vsys it is sent for: "+outside[0], in, nil)
	}
	impl := []string{}
	for _, n := range order {
		impl = append(impl, enc(n)+"|"+strings.Join(per[n], ";"))
	}
	model := []string{}
	for _, n := range morder {
		model = append(model, enc(n)+"|"+strings.Join(mper[n], ";"))
	}
	if agree && strings.Join(impl, "!") != strings.Join(model, "!") {
		res.Disagree(stream, in, strings.Join(impl, "!"), strings.Join(model, "!"))
		agree = false
	}
	return per, flags, agree
}

// failAny reports a failure that concerns every property served by this harness (the tool does
// not even get to plan).
func (c *checker) failAny(symptom, what string, in caseInput) {
	c.res.Count("oracle:" + symptom)
	c.res.Fail(map[string]any{"pred": symptom, "backend": "PAN-OS", "symptom": symptom, "model_predicts": false, "shape": "-", "error": ""}, what, in)
}

// decodeCheck compares what the tool's parser made of the device and of the (merged) target with
// an independent reading of the same text.
func (c *checker) decodeCheck(stream string, in caseInput, p realPlan) bool {
	res := c.res
	wa, err := readConfig(in.Dev)
	if err != nil {
		res.Disagree(stream+" (harness: the device text is not well-formed XML: "+err.Error()+")", in, "", "")
		return false
	}
	if d := compareDecoded(p.A, wa, true); d != "" {
		res.Disagree(stream+" (decoding of the device: "+d+")", in, "", "")
		c.failAny("input_misread", stream+": the tool reads the device configuration differently from its text: "+d, in)
		return false
	}
	switch {
	case in.V6 == "" && in.Raw == "":
		wb, err := readConfig(in.Spoc)
		if err != nil {
			res.Disagree(stream+" (harness: the target text is not well-formed XML: "+err.Error()+")", in, "", "")
			return false
		}
		if d := compareDecoded(p.B, wb, true); d != "" {
			res.Disagree(stream+" (decoding of the target: "+d+")", in, "", "")
			c.failAny("input_misread", stream+": the tool reads the target configuration differently from its text: "+d, in)
			return false
		}
	default:
		// the merged target: computed on the independent reading of the three files, and held against
		// the merged target the generator split into these files (absent in a replay)
		wb, err := mergeTexts(in.Spoc, in.V6, in.Raw)
		if err != nil {
			res.Disagree(stream+" (harness: a part of the target is not well-formed XML: "+err.Error()+")", in, "", "")
			return false
		}
		if in.expectText != "" {
			we, err := readConfig(in.expectText)
			if err != nil {
				res.Disagree(stream+" (harness: expected target not well-formed: "+err.Error()+")", in, "", "")
				return false
			}
			if d := sameIConfig(we, wb); d != "" {
				res.Disagree(stream+" (harness: the generator's merged target and the independent merge of its files differ: "+d+")", in, "", "")
				return false
			}
			res.Count("decode-check:merged-target-is-the-generators")
		}
		if d := compareDecoded(p.B, wb, false); d != "" {
			res.Disagree(stream+" (decoding / merging of the target from main, ipv6 and raw file: "+d+")", in, "", "")
			c.failAny("input_misread", stream+": the merged target differs from what the main, IPv6 and raw file say per vsys: "+d, in)
			return false
		}
		res.Count("decode-check:merged-target")
		if len(wb.Vsys) > 1 {
			res.Count("decode-check:merged-target-of-several-vsys")
		}
	}
	res.Count("decode-check:ok")
	return true
}

func renderPair(a panos.VerifVsys, b panos.VerifVsys) (string, string) {
	return renderConfig("localhost.localdomain", []panos.VerifVsys{a}, false),
		renderConfig("localhost.localdomain", []panos.VerifVsys{b}, false)
}

func cmdKinds(res *Result, cmds []string) {
	for _, cm := range cmds {
		k, _, _ := strings.Cut(cm, ":")
		res.Count("cmd:" + k)
	}
}

// runCase returns the device's vsys as decoded and, per targeted vsys that converged, the state reached.
func (c *checker) runCase(in caseInput, deep bool) (devVsys []panos.VerifVsys, reached map[string]panos.VerifVsys) {
	res := c.res
	c.n++
	reached = map[string]panos.VerifVsys{}
	p := planReal(in.Dev, in.Spoc, in.V6, in.Raw)
	if p.A != nil {
		devVsys = p.A.Vsys
	}
	per, flags, ok := c.tie("plan", in, p)
	canon := in.Dev + "\x00" + in.Spoc + "\x00" + in.V6 + "\x00" + in.Raw
	res.Count("mode:" + in.Mode)
	for _, m := range in.Mutations {
		res.Count("mut:" + m)
	}
	if in.UseDrcMain && p.Panic == "" && !p.ParseErr {
		c.compareDrcMain(in, p)
	}
	if per == nil {
		// no plan: the tool reported an error (compared with the model's in tie), panicked, or its
		// reading of the input differs from the text (both reported in tie)
		res.Count("case:no-plan")
		res.Eval(canon, false)
		return
	}
	total := 0
	for _, l := range per {
		total += len(l)
		cmdKinds(res, l)
	}
	res.Eval(canon, total > 0)
	res.Count(fmt.Sprintf("cmds:%02d", min(total, 40)/5*5))
	res.Count(fmt.Sprintf("vsys:%d", len(p.A.Vsys)))
	_ = ok // the oracle below judges the real requests whether or not the model agrees
	if flags == nil {
		res.Count("case:no-flags-from-the-model")
		res.Disagree("plan (driver gave no flags)", in, "", "")
		return
	}
	if len(res.Samples) < 3 && total > 3 {
		res.Sample(map[string]any{"input": in, "commands": per})
	}
	// oracle, per targeted vsys
	trees := map[string]panos.VerifVsys{} // per targeted vsys whose requests were all accepted: the state reached
	allAccepted := true
	defer func() { c.plain = false }()
	for _, name := range targetedNames(p) {
		a := *findVsys(p.A, name)
		b := *findVsys(p.B, name)
		fl := flags[name]
		cmds := per[name]
		fl = withSent(fl, cmds)
		c.plain = false
		for _, k := range []string{"mixed", "sgchg", "uniq"} {
			if fl[k] == "1" {
				res.Count("flag:" + k)
			}
		}
		if fl["wfA"] != "1" || fl["wfB"] != "1" {
			res.Count("oracle-skipped:not-wellformed")
			allAccepted = false
			continue
		}
		if fl["nestA"] == "1" || fl["nestB"] == "1" {
			// F-C03n: nested address-groups are not supported by the planner (its own comment); such pairs
			// are not judged at all — no failure in them is excused, none is reported
			res.Count("oracle-skipped:nested-address-groups")
			allAccepted = false
			continue
		}
		res.Count("oracle:pairs")
		c.plain = fl["plain"] == "1" || fl["grp"] == "1"
		if fl["grp"] == "1" {
			res.Count("fragment:grp-pair")
			if fl["plain"] != "1" {
				res.Count("fragment:grp-pair-with-groups")
			}
		}
		if fl["plain"] == "1" {
			res.Count("fragment:plain-pair")
			if fl["tnames"] == "1" && fl["srvnd"] == "1" {
				res.Count("fragment:plain-pair-idempotence-hyps")
			}
		}
		r, ok := c.exec(in.Shared, a, cmds, &b)
		if !ok {
			res.Disagree("exec (driver)", in, "", r.Raw)
			allAccepted = false
			continue
		}
		if r.Accepted == len(cmds) {
			trees[name] = r.Tree
		} else {
			allAccepted = false
		}
		obs := observed{shared: in.Shared, a: a, b: b, cmds: cmds, r: r, fl: fl}
		report := func(symptom, what string, o observed) {
			pred, extra := c.judge(symptom, o)
			c.fail(symptom, pred, what, in, extra)
		}
		// the state the device is left in must itself be a configuration the device can hold: names are
		// keys, address and address-group share a name space (so do service and service-group), every
		// reference resolves, no member twice
		if !r.WF {
			report("reached_state_not_wellformed",
				fmt.Sprintf("after %d of %d requests the vsys %s is not a well-formed configuration (a name used twice / by an address and a group, a dangling reference, or a member twice)",
					r.Accepted, len(cmds), name), obs)
		} else {
			res.Count("oracle:reached-state-wellformed")
		}
		if len(cmds) == 0 {
			res.Count("oracle:empty-plan")
			if r.Equiv != "1" {
				report("empty_plan_not_equivalent",
					"no change is reported although the device vsys "+name+" is not equivalent to the target", obs)
			} else if len(r.Unref) > 0 {
				report("unreferenced_objects_left",
					"no change is reported for vsys "+name+" although it holds objects that nothing mentions (a completed approve removes them): "+strings.Join(r.Unref, ", "), obs)
			} else {
				res.Count("oracle:nothing-left-behind")
			}
			continue
		}
		if r.Accepted != len(cmds) {
			report("request_refused", fmt.Sprintf("request %d of %d for vsys %s is refused by the strict device (%s): %s",
				r.Accepted+1, len(cmds), name, r.Err, cmds[r.Accepted]), obs)
			// the approve stops here: the vsys stays as it is after the accepted requests
			if r.Equiv != "1" {
				report("refused_not_converged",
					fmt.Sprintf("approve of vsys %s stops at request %d of %d (%s: %s) and leaves a vsys that is not equivalent to the target (first difference: %s)",
						name, r.Accepted+1, len(cmds), r.Err, cmds[r.Accepted], r.Mismatch), obs)
			}
			if r.Equiv == "1" {
				// equivalent by content, but does the tool ever report 'no change' again?
				d2, s2 := renderPair(r.Tree, b)
				p2 := planReal(d2, s2, "", "")
				per2, _, _ := c.tie("plan on state after refusal", caseInput{Dev: d2, Spoc: s2, Shared: in.Shared, Mode: "after-refusal"}, p2)
				if per2 == nil {
					res.Count("oracle-skipped:no-plan-after-refusal")
				} else if len(per2[name]) != 0 {
					o2 := observed{shared: in.Shared, a: r.Tree, b: b, cmds: per2[name], planOnly: true, r: execResult{Err: r.Err}, fl: fl}
					report("refused_not_converged",
						fmt.Sprintf("approve of vsys %s stops at request %d of %d (%s: %s); the next compare still reports changes: %s",
							name, r.Accepted+1, len(cmds), r.Err, cmds[r.Accepted], strings.Join(per2[name], ";")), o2)
				}
			}
			res.Count("oracle:refused")
			if !deep {
				continue
			}
		} else if r.Equiv != "1" {
			report("not_equivalent",
				"after executing all requests the vsys "+name+" is not equivalent to the target (first difference: "+r.Mismatch+")", obs)
		} else {
			res.Count("oracle:converged")
			reached[name] = r.Tree
			// a completed approve leaves nothing behind that no rule and no group mentions
			if len(r.Unref) > 0 {
				report("unreferenced_objects_left",
					"after executing all requests the vsys "+name+" still holds objects that nothing mentions: "+strings.Join(r.Unref, ", "), obs)
			} else {
				res.Count("oracle:nothing-left-behind")
			}
			// second plan on the reached state: judged whether or not the model agrees with it
			d2, s2 := renderPair(r.Tree, b)
			p2 := planReal(d2, s2, "", "")
			per2, _, _ := c.tie("plan on reached state", caseInput{Dev: d2, Spoc: s2, Shared: in.Shared, Mode: "second-plan"}, p2)
			if per2 == nil {
				res.Count("oracle-skipped:no-second-plan")
			} else if len(per2[name]) != 0 {
				o2 := obs
				o2.plan2, o2.hasPlan2 = per2[name], true
				report("second_plan_not_empty",
					"a second compare of vsys "+name+" reports changes: "+strings.Join(per2[name], ";"), o2)
			} else {
				res.Count("oracle:second-plan-empty")
			}
		}
		// resume from every cut
		if c.prop == "C10" || deep {
			c.resume(in, name, a, b, cmds)
		}
	}
	c.plain = false
	if allAccepted {
		c.devExec(in, p, per, trees)
	}
	return
}

// devExec executes the whole real plan on the whole device (Lean: execDevAll) and compares: a vsys
// the target names must be what the stand-alone execution of its own requests gave
// (execDevAll_planDevice), every other vsys must be what it was (panos_outside_vsys_untouched).
func (c *checker) devExec(in caseInput, p realPlan, per map[string][]string, trees map[string]panos.VerifVsys) {
	res := c.res
	seen := map[string]bool{}
	for _, v := range p.A.Vsys {
		if seen[v.Name] {
			res.Count("devexec-skipped:duplicate-vsys-name")
			return
		}
		seen[v.Name] = true
	}
	var groups []string
	for _, v := range p.A.Vsys {
		if l := per[v.Name]; len(l) > 0 {
			groups = append(groups, enc(v.Name)+"|"+strings.Join(l, ";"))
		}
	}
	ans := c.drv.Ask("DEVEXEC\t" + encList(in.Shared) + "\t" + encDevice(p.A.Vsys) + "\t" + strings.Join(groups, "!"))
	head, body, _ := strings.Cut(ans, "\t")
	if head != "ok" {
		res.Disagree("devexec: the whole plan is refused on the whole device although every vsys accepts its own requests", in, "ok", ans)
		return
	}
	parts := splitNE(body, "!")
	if len(parts) != len(p.A.Vsys) {
		c.fail("outside_targeted_vsys", "outside_targeted_vsys", fmt.Sprintf("the device has %d vsys after the plan, %d before", len(parts), len(p.A.Vsys)), in, nil)
		return
	}
	for i, v := range p.A.Vsys {
		got, err := decVsys(parts[i])
		if err != nil {
			res.Disagree("devexec (driver)", in, "", parts[i])
			return
		}
		if t, targeted := trees[v.Name]; targeted {
			if encVsys(got) != encVsys(t) {
				res.Disagree("devexec: vsys "+v.Name+" after the whole plan differs from the stand-alone execution of its requests", in, encVsys(t), encVsys(got))
				return
			}
			continue
		}
		if encVsys(got) != encVsys(v) {
			c.fail("outside_targeted_vsys", "outside_targeted_vsys", "vsys "+v.Name+", which the target does not name, is changed by the plan", in, nil)
			return
		}
		res.Count("devexec:vsys-untouched")
	}
	res.Count("devexec:ok")
}

func (c *checker) resume(in caseInput, name string, a, b panos.VerifVsys, cmds []string) {
	res := c.res
	maxCmds := c.ctx.N(25, 120)
	if len(cmds) > maxCmds {
		res.Count("resume-skipped:long")
		return
	}
	for k := 0; k < len(cmds); k++ {
		r, ok := c.exec(in.Shared, a, cmds[:k], nil)
		if !ok {
			res.Disagree("exec of a prefix (driver)", in, "", r.Raw)
			return
		}
		if r.Accepted != k {
			res.Count("resume-stopped:prefix-refused") // the refusal itself is reported by runCase (C08)
			return
		}
		res.Count("resume:cuts")
		dk, sk := renderPair(r.Tree, b)
		pk := planReal(dk, sk, "", "")
		ink := caseInput{Dev: dk, Spoc: sk, Shared: in.Shared, Mode: "resume"}
		perk, flk, _ := c.tie("plan after cut", ink, pk)
		if perk == nil {
			// the tool gave no plan for the state after the cut: reported by tie (error / panic / decoding)
			res.Count("resume-skipped:no-plan-after-cut")
			continue
		}
		// flags of THIS cut only: those of the pair (state after the cut, target)
		flc := withSent(flk[name], perk[name])
		if flc["nestA"] == "1" || flc["nestB"] == "1" {
			res.Count("resume-skipped:nested-address-groups")
			continue
		}
		if flc["wfA"] != "1" || flc["wfB"] != "1" {
			// the state after an accepted prefix must be a configuration the device can hold
			c.fail("resume_state_not_wellformed", "resume_state_not_wellformed",
				fmt.Sprintf("vsys %s, cut after %d of %d requests: the state after the cut is not a well-formed configuration", name, k, len(cmds)),
				in, map[string]any{"error": "", "model_predicts": false, "shape": "-"})
			continue
		}
		rk, ok := c.exec(in.Shared, r.Tree, perk[name], &b)
		if !ok {
			res.Disagree("exec after cut (driver)", in, "", rk.Raw)
			continue
		}
		what := fmt.Sprintf("vsys %s, cut after %d of %d requests (first run: %s)", name, k, len(cmds), strings.Join(cmds, ";"))
		obs := observed{shared: in.Shared, a: r.Tree, b: b, cmds: perk[name], r: rk, fl: flc}
		report := func(symptom, what string, o observed) {
			pred, extra := c.judge(symptom, o)
			extra["cut"] = k
			c.fail(symptom, pred, what, in, extra)
		}
		if !rk.WF {
			report("resume_state_not_wellformed", what+": the state after the second run is not a well-formed configuration", obs)
		}
		if rk.Accepted != len(perk[name]) {
			report("resume_refused", what+": request "+fmt.Sprint(rk.Accepted+1)+" of the second run is refused ("+rk.Err+"): "+perk[name][rk.Accepted], obs)
			continue
		}
		if rk.Equiv != "1" {
			report("resume_not_equivalent", what+": the second run does not reach a vsys equivalent to the target ("+rk.Mismatch+")", obs)
			continue
		}
		if len(rk.Unref) > 0 {
			report("resume_leaves_unreferenced_objects", what+": the second run (requests: "+strings.Join(perk[name], ";")+
				") is accepted and the rules are equivalent, but objects that nothing mentions stay on the device: "+strings.Join(rk.Unref, ", "), obs)
		} else {
			res.Count("resume:nothing-left-behind")
		}
		d3, s3 := renderPair(rk.Tree, b)
		p3 := planReal(d3, s3, "", "")
		per3, _, _ := c.tie("plan after resume", caseInput{Dev: d3, Spoc: s3, Shared: in.Shared, Mode: "resume-2"}, p3)
		if per3 == nil {
			res.Count("resume-skipped:no-plan-after-second-run")
		} else if len(per3[name]) != 0 {
			o3 := obs
			o3.plan2, o3.hasPlan2 = per3[name], true
			report("resume_second_plan_not_empty", what+": a further compare reports changes: "+strings.Join(per3[name], ";"), o3)
		} else {
			res.Count("resume:converged")
		}
	}
}

// withSent records whether the plan re-sends the members of a service-group.
func withSent(fl map[string]string, cmds []string) map[string]string {
	for _, c := range cmds {
		if strings.HasPrefix(c, "setsgrp:") {
			return mergeFlag(fl, "sgsent")
		}
	}
	return fl
}

func mergeFlag(fl map[string]string, key string) map[string]string {
	m := map[string]string{}
	for k, v := range fl {
		m[k] = v
	}
	m[key] = "1"
	return m
}

// compareDrcMain runs `drc DEVICE NETSPOC` (drc.Main, files on disk, .info with model PAN-OS)
// and compares its printed, url-decoded requests with those of the in-process pipeline.
func (c *checker) compareDrcMain(in caseInput, p realPlan) {
	dir := filepath.Join(c.tmp, fmt.Sprintf("d%d", c.n))
	files := map[string]string{"device": in.Dev, "router": in.Spoc, "router.info": `{"model":"PAN-OS"}`}
	if in.V6 != "" {
		files["ipv6/router"] = in.V6
	}
	if in.Raw != "" {
		files["router.raw"] = in.Raw
	}
	WriteFiles(dir, files)
	defer os.RemoveAll(dir)
	old := os.Args
	os.Args = []string{"drc", "-q", filepath.Join(dir, "device"), filepath.Join(dir, "router")}
	stdout, stderr, status, panicMsg := Captured(func() int { return drc.Main() })
	os.Args = old
	c.res.Count("drc.Main:runs")
	var want strings.Builder
	for _, g := range p.Groups {
		for _, raw := range g {
			// ShowChanges prints url.QueryUnescape of the whole request
			s, _ := queryUnescape(raw)
			want.WriteString(s + "\n")
		}
	}
	if panicMsg != "" {
		c.res.Disagree("drc.Main panics", in, panicMsg, "")
		return
	}
	if p.Err != "" {
		first, _, _ := strings.Cut(p.Err, "\n")
		if i := strings.Index(first, " of XML"); i >= 0 && strings.HasPrefix(first, "Different names") {
			first = first[:i+7]
		}
		if status == 0 || !strings.Contains(stderr, "ERROR>>>") || !strings.Contains(stderr, first) {
			c.res.Disagree("drc.Main error", in, fmt.Sprintf("status %d stderr %s", status, stderr), p.Err)
		}
		return
	}
	if status != 0 || stdout != want.String() {
		c.res.Disagree("drc.Main output", in, fmt.Sprintf("status %d\n%s\n%s", status, stdout, stderr), want.String())
	}
}

// ---------------------------------------------------------------- myers port

func (c *checker) myersCases(n int) {
	rng := c.ctx.Rng.Fork()
	for i := 0; i < n; i++ {
		a, b := rng.Intn(7), rng.Intn(7)
		eq := make([]bool, a*b)
		bits := make([]byte, a*b)
		dens := 10 + rng.Intn(60)
		diag := rng.Chance(60)
		full := rng.Chance(20)
		if full {
			b = a
		}
		eq = make([]bool, a*b)
		bits = make([]byte, a*b)
		for x := 0; x < a; x++ {
			for y := 0; y < b; y++ {
				e := rng.Chance(dens)
				if diag {
					e = rng.Chance(5) || (x-y == 0 || x-y == 1 || y-x == 2) && rng.Chance(85)
				}
				if full && x == y {
					e = true
				}
				eq[x*b+y] = e
				bits[x*b+y] = '0'
				if e {
					bits[x*b+y] = '1'
				}
			}
		}
		var impl []string
		for _, r := range panos.VerifMyers(a, b, eq) {
			impl = append(impl, fmt.Sprintf("%d.%d.%d.%d", r[0], r[1], r[2], r[3]))
		}
		ans := c.drv.Ask(fmt.Sprintf("MYERS\t%d\t%d\t%s", a, b, bits))
		model, fl, _ := strings.Cut(ans, "\t")
		c.res.Count("myers:cases")
		if model != strings.Join(impl, ",") {
			c.res.Disagree("myers port", map[string]any{"n": a, "m": b, "eq": string(bits)}, strings.Join(impl, ","), model)
		} else if fl != "valid=1 norm=1 ident=-" && fl != "valid=1 norm=1 ident=1" {
			c.res.Disagree("myers script not valid/normalised", map[string]any{"n": a, "m": b, "eq": string(bits)}, strings.Join(impl, ","), ans)
		}
	}
}

// ---------------------------------------------------------------- run

func run(ctx *Ctx, prop string) *Result {
	res := NewResult()
	res.Rule = "PAN-OS device / Netspoc pairs (1–3 vsys; ≤ 8 rules, ≤ 6 groups per vsys): target derived from the device by 1–4 mutations " +
		"(rules inserted/deleted/moved/changed, member lists grown/shrunk a little or a lot/replaced, groups renamed/grown/shrunk/split/merged/" +
		"inlined/outlined/name-swapped, same name other value for addresses and services, unknown attributes, raw and IPv6 parts, odd names), " +
		"or generated independently, or identical; corpus first, then seeded random; every state reached after a cut is a further case. " +
		"non-trivial = the real planner emits at least one request; distinct by input text"
	res.Assumptions = []string{
		"the device decodes a request like net/url.ParseQuery",
		"names contain no single quote (xpath predicates are not escaped by the tool)",
		"objects named by the target but defined nowhere in the vsys exist in <shared> of the device",
	}
	tmp, err := os.MkdirTemp("", "vh-c03-")
	if err != nil {
		panic(err)
	}
	defer os.RemoveAll(tmp)
	drv := ctx.StartNadrv("c03")
	defer drv.Close()
	c := &checker{ctx: ctx, prop: prop, res: res, drv: drv, tmp: tmp}

	if ctx.Replay != "" {
		var in caseInput
		if err := ReadReplay(ctx.Replay, &in); err != nil {
			fmt.Fprintln(os.Stderr, err)
			os.Exit(2)
		}
		c.runCase(in, true)
		return res
	}
	for _, in := range corpus() {
		in.UseDrcMain = true
		c.runCase(in, true)
	}
	c.myersCases(ctx.N(300, 20000))
	n := ctx.N(400, 15000)
	for i := 0; i < n; i++ {
		rng := ctx.Rng.Fork()
		in := genCase(rng)
		in.UseDrcMain = i%10 == 0
		deep := prop == "C10" || i%4 == 0
		devVsys, reached := c.runCase(in, deep)
		// every third case is continued: the device is now what the approve left behind (renamed
		// rules r1-1 next to r1, renamed / reused / left-over groups), the target changes again
		for depth := 0; i%3 == 0 && depth < 2 && len(reached) > 0; depth++ {
			next, ok := chainCase(in, devVsys, reached)
			if !ok {
				break
			}
			in = next
			devVsys, reached = c.runCase(in, deep)
		}
	}
	c.floors()
	return res
}

// floors: every way a case can end without a verdict has a named counter; here the counters are
// held against the number of cases, so that an oracle that silently stops looking is itself a
// finding.
func (c *checker) floors() {
	d := c.res.Distribution
	cases, pairs := c.n, d["oracle:pairs"]
	check := func(ok bool, what string) {
		if !ok {
			c.res.Disagree("coverage floor: "+what, map[string]any{"cases": cases, "distribution": d}, "", "")
		}
	}
	skipped := d["oracle-skipped:not-wellformed"] + d["oracle-skipped:nested-address-groups"]
	check(pairs*10 >= cases*8, fmt.Sprintf("only %d vsys pairs judged in %d cases", pairs, cases))
	check(skipped*5 <= pairs, fmt.Sprintf("%d pairs skipped (not well-formed / nested groups) against %d judged", skipped, pairs))
	check(d["case:no-plan"]*10 <= cases, fmt.Sprintf("%d of %d cases ended without a plan", d["case:no-plan"], cases))
	check(d["decode-check:ok"]+d["decode-check-skipped:merged-target-of-a-replay"] >= pairs, "the decoding of fewer configurations than judged pairs was checked")
	check(d["decode-check:merged-target-of-several-vsys"] >= 3+cases/60,
		fmt.Sprintf("a target merged from main, IPv6 and raw file with two or more vsys was checked only %d times in %d cases", d["decode-check:merged-target-of-several-vsys"], cases))
	check(d["oracle:nothing-left-behind"]*10 >= (d["oracle:converged"]+d["oracle:empty-plan"])*8,
		"'nothing unreferenced is left' judged for too few completed approves")
	check(d["resume:nothing-left-behind"]*10 >= d["resume:converged"]*8, "'nothing unreferenced is left' judged for too few completed resumes")
	check(d["oracle-skipped:no-second-plan"]*50 <= d["oracle:converged"]+50, fmt.Sprintf("%d second plans missing", d["oracle-skipped:no-second-plan"]))
	check(d["oracle:reached-state-wellformed"]*10 >= pairs*9, "well-formedness of the reached state judged for too few pairs")
	if cuts := d["resume:cuts"]; cuts > 0 {
		lost := d["resume-skipped:no-plan-after-cut"] + d["resume-skipped:no-plan-after-second-run"] + d["resume-skipped:nested-address-groups"]
		check(lost*20 <= cuts, fmt.Sprintf("%d of %d cuts not judged", lost, cuts))
	}
	check(d["devexec:ok"]*10 >= cases*7, fmt.Sprintf("whole-device execution compared for only %d of %d cases", d["devexec:ok"], cases))
}

func queryUnescape(s string) (string, error) {
	return urlQueryUnescape(s)
}

var _ = json.Marshal
