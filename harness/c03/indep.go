package main

// An independent reading of the XML the cases are made of.  The oracle's input used to be what
// the tool's own parser (panos.ParseConfig, through the hook VerifDump) produced: a parser that
// refuses or mis-reads valid input then defines away the cases it breaks.  Here the text is read
// with a generic XML walker that knows nothing of the panos structs, and what the parser
// produced is compared with it: every vsys, every rule (name, source, destination, service, and
// every other child element as a canonical multiset), every address / service (children as a
// canonical multiset), every group (members).

import (
	"encoding/xml"
	"fmt"
	"sort"
	"strings"

	"github.com/hknutzen/Netspoc-Approve/go/pkg/panos"
)

type xnode struct {
	Name string
	Attr map[string]string
	Text string
	Kids []*xnode
}

func parseXMLTree(s string) (*xnode, error) {
	// a device answer starts with the request line
	s = strings.TrimLeft(s, " \r\n\t")
	if !strings.HasPrefix(s, "<") {
		if i := strings.Index(s, "\n"); i >= 0 {
			s = s[i+1:]
		}
	}
	dec := xml.NewDecoder(strings.NewReader(s))
	root := &xnode{Name: "#root"}
	stack := []*xnode{root}
	for {
		tok, err := dec.Token()
		if err != nil {
			if err.Error() == "EOF" {
				break
			}
			return nil, err
		}
		switch t := tok.(type) {
		case xml.StartElement:
			n := &xnode{Name: t.Name.Local, Attr: map[string]string{}}
			for _, a := range t.Attr {
				n.Attr[a.Name.Local] = a.Value
			}
			top := stack[len(stack)-1]
			top.Kids = append(top.Kids, n)
			stack = append(stack, n)
		case xml.EndElement:
			if len(stack) < 2 {
				return nil, fmt.Errorf("unbalanced")
			}
			stack = stack[:len(stack)-1]
		case xml.CharData:
			stack[len(stack)-1].Text += string(t)
		}
	}
	if len(stack) != 1 {
		return nil, fmt.Errorf("unclosed element")
	}
	return root, nil
}

func (n *xnode) child(name string) *xnode {
	if n == nil {
		return nil
	}
	for _, k := range n.Kids {
		if k.Name == name {
			return k
		}
	}
	return nil
}

func (n *xnode) path(names ...string) *xnode {
	for _, x := range names {
		n = n.child(x)
	}
	return n
}

func (n *xnode) find(name string) *xnode {
	if n == nil {
		return nil
	}
	if n.Name == name {
		return n
	}
	for _, k := range n.Kids {
		if r := k.find(name); r != nil {
			return r
		}
	}
	return nil
}

func (n *xnode) entries() []*xnode {
	var l []*xnode
	if n == nil {
		return nil
	}
	for _, k := range n.Kids {
		if k.Name == "entry" {
			l = append(l, k)
		}
	}
	return l
}

func (n *xnode) members() []string {
	var l []string
	if n == nil {
		return nil
	}
	for _, k := range n.Kids {
		if k.Name == "member" {
			l = append(l, k.Text)
		}
	}
	return l
}

// canon: element name, attributes, children (in order if they are all <member>, else sorted),
// trimmed text.
func (n *xnode) canon() string {
	var kids []string
	allMember := true
	for _, k := range n.Kids {
		kids = append(kids, k.canon())
		if k.Name != "member" {
			allMember = false
		}
	}
	if !allMember {
		sort.Strings(kids)
	}
	var attrs []string
	for k, v := range n.Attr {
		attrs = append(attrs, k+"="+v)
	}
	sort.Strings(attrs)
	txt := ""
	if len(n.Kids) == 0 {
		txt = n.Text
	} else {
		txt = strings.TrimSpace(n.Text)
	}
	return n.Name + "[" + strings.Join(attrs, ",") + "]{" + strings.Join(kids, "|") + "}" + txt
}

// Elements of a rule that mean nothing: the parser documents that it ignores <source-user>,
// <category>, <source-hip>, <destination-hip> with the single member `any` (the device's default),
// and an <application> without members is how the hook prints an absent one.
func meaningless(k *xnode) bool {
	switch k.Name {
	case "source-user", "category", "source-hip", "destination-hip":
		return len(k.Kids) == 1 && k.Kids[0].Name == "member" && k.Kids[0].Text == "any" && len(k.Kids[0].Kids) == 0 &&
			strings.TrimSpace(k.Text) == ""
	case "application":
		return len(k.Kids) == 0 && strings.TrimSpace(k.Text) == ""
	}
	return false
}

func canonKids(n *xnode, skip ...string) string {
	var l []string
KID:
	for _, k := range n.Kids {
		for _, s := range skip {
			if k.Name == s {
				continue KID
			}
		}
		if len(skip) > 0 && meaningless(k) {
			continue
		}
		l = append(l, k.canon())
	}
	sort.Strings(l)
	return strings.Join(l, "|")
}

type iRule struct {
	Name, Hdr     string
	Src, Dst, Srv []string
	Append        bool
}
type iObj struct{ Name, Val string }
type iGrp struct {
	Name    string
	Members []string
}
type iVsys struct {
	Name, Display string
	Rules         []iRule
	Addrs, Svcs   []iObj
	Groups, SGrps []iGrp
}
type iConfig struct {
	HasDevices bool
	DevName    string
	Vsys       []iVsys
}

// readConfig reads a configuration file independently of the tool.
func readConfig(text string) (*iConfig, error) {
	if strings.TrimSpace(text) == "" {
		return &iConfig{}, nil
	}
	root, err := parseXMLTree(text)
	if err != nil {
		return nil, err
	}
	c := &iConfig{}
	devs := root.find("devices")
	if devs == nil {
		return c, nil
	}
	c.HasDevices = true
	es := devs.entries()
	if len(es) == 0 {
		return c, nil
	}
	d := es[0]
	c.DevName = d.Attr["name"]
	for _, ve := range d.child("vsys").entries() {
		v := iVsys{Name: ve.Attr["name"]}
		if dn := ve.child("display-name"); dn != nil {
			v.Display = dn.Text
		}
		for _, re := range ve.path("rulebase", "security", "rules").entries() {
			r := iRule{Name: re.Attr["name"], Src: re.child("source").members(), Dst: re.child("destination").members(),
				Srv: re.child("service").members(), Hdr: canonKids(re, "source", "destination", "service", "APPEND"),
				Append: re.child("APPEND") != nil}
			v.Rules = append(v.Rules, r)
		}
		for _, e := range ve.child("address").entries() {
			v.Addrs = append(v.Addrs, iObj{e.Attr["name"], canonKids(e)})
		}
		for _, e := range ve.child("address-group").entries() {
			v.Groups = append(v.Groups, iGrp{e.Attr["name"], e.child("static").members()})
		}
		for _, e := range ve.child("service").entries() {
			v.Svcs = append(v.Svcs, iObj{e.Attr["name"], canonKids(e)})
		}
		for _, e := range ve.child("service-group").entries() {
			v.SGrps = append(v.SGrps, iGrp{e.Attr["name"], e.child("members").members()})
		}
		c.Vsys = append(c.Vsys, v)
	}
	return c, nil
}

func canonOfInner(inner string, skip ...string) string {
	t, err := parseXMLTree("<x>" + inner + "</x>")
	if err != nil || len(t.Kids) != 1 {
		return "unparsable:" + inner
	}
	return canonKids(t.Kids[0], skip...)
}

// the hook empties the three lists of a rule before it prints the rest: they appear as empty elements
func canonOfHdr(inner string) string {
	return canonOfInner(inner, "source", "destination", "service", "APPEND")
}

// compareDecoded says where what the tool's parser produced differs from the independent
// reading ("" = nowhere).  ordered: objects are compared in document order (false for a target
// merged from several files: by name).
func compareDecoded(got *panos.VerifConfig, want *iConfig, ordered bool) string {
	if got == nil {
		return "nothing decoded"
	}
	if len(got.Vsys) != len(want.Vsys) {
		return fmt.Sprintf("%d vsys decoded, the text has %d", len(got.Vsys), len(want.Vsys))
	}
	if len(want.Vsys) > 0 && got.DevName != want.DevName {
		return fmt.Sprintf("device name %q, the text says %q", got.DevName, want.DevName)
	}
	for i, w := range want.Vsys {
		g := got.Vsys[i]
		at := "vsys " + w.Name + ": "
		if g.Name != w.Name {
			return fmt.Sprintf("vsys %d is named %q, the text says %q", i, g.Name, w.Name)
		}
		if g.DisplayName != w.Display {
			return at + fmt.Sprintf("display-name %q, the text says %q", g.DisplayName, w.Display)
		}
		if len(g.Rules) != len(w.Rules) {
			return at + fmt.Sprintf("%d rules decoded, the text has %d", len(g.Rules), len(w.Rules))
		}
		for j, wr := range w.Rules {
			gr := g.Rules[j]
			switch {
			case gr.Name != wr.Name:
				return at + fmt.Sprintf("rule %d is named %q, the text says %q", j, gr.Name, wr.Name)
			case strings.Join(gr.Src, "\x00") != strings.Join(wr.Src, "\x00"):
				return at + "rule " + wr.Name + ": source " + fmt.Sprint(gr.Src) + ", the text says " + fmt.Sprint(wr.Src)
			case strings.Join(gr.Dst, "\x00") != strings.Join(wr.Dst, "\x00"):
				return at + "rule " + wr.Name + ": destination " + fmt.Sprint(gr.Dst) + ", the text says " + fmt.Sprint(wr.Dst)
			case strings.Join(gr.Srv, "\x00") != strings.Join(wr.Srv, "\x00"):
				return at + "rule " + wr.Name + ": service " + fmt.Sprint(gr.Srv) + ", the text says " + fmt.Sprint(wr.Srv)
			case canonOfHdr(gr.Hdr) != wr.Hdr:
				return at + "rule " + wr.Name + ": other elements " + canonOfHdr(gr.Hdr) + ", the text says " + wr.Hdr
			}
		}
		objs := func(kind string, gl []panos.VerifObj, wl []iObj) string {
			if len(gl) != len(wl) {
				return at + fmt.Sprintf("%d %s decoded, the text has %d", len(gl), kind, len(wl))
			}
			if ordered {
				for j := range wl {
					if gl[j].Name != wl[j].Name || canonOfInner(gl[j].Val) != wl[j].Val {
						return at + kind + " " + wl[j].Name + ": decoded as " + gl[j].Name + " " + canonOfInner(gl[j].Val) +
							", the text says " + wl[j].Val
					}
				}
				return ""
			}
			m := map[string]string{}
			for _, o := range gl {
				m[o.Name] = canonOfInner(o.Val)
			}
			for _, o := range wl {
				if v, ok := m[o.Name]; !ok || v != o.Val {
					return at + kind + " " + o.Name + ": decoded as " + v + ", the text says " + o.Val
				}
			}
			return ""
		}
		grps := func(kind string, gl []panos.VerifGrp, wl []iGrp) string {
			if len(gl) != len(wl) {
				return at + fmt.Sprintf("%d %s decoded, the text has %d", len(gl), kind, len(wl))
			}
			m := map[string]string{}
			for j, o := range gl {
				key := o.Name
				if ordered {
					key = fmt.Sprint(j) + ":" + o.Name
				}
				m[key] = strings.Join(o.Members, "\x00")
			}
			for j, o := range wl {
				key := o.Name
				if ordered {
					key = fmt.Sprint(j) + ":" + o.Name
				}
				if v, ok := m[key]; !ok || v != strings.Join(o.Members, "\x00") {
					return at + kind + " " + o.Name + ": members decoded as " + strings.ReplaceAll(v, "\x00", ",") +
						", the text says " + strings.Join(o.Members, ",")
				}
			}
			return ""
		}
		for _, s := range []string{objs("addresses", g.Addresses, w.Addrs), grps("address-groups", g.Groups, w.Groups),
			objs("services", g.Services, w.Svcs), grps("service-groups", g.SGroups, w.SGrps)} {
			if s != "" {
				return s
			}
		}
	}
	return ""
}

// mergeTexts: what Netspoc's three files for one device mean together, computed on the independent
// reading (never with the tool's MergeSpoc): per vsys NAME the rules of the raw part without
// <APPEND/>, then those of the IPv6 part without it, the rules of the main file, the IPv6 part's
// <APPEND/> rules, the raw part's <APPEND/> rules; the objects of the parts are added.  The vsys keep
// the order of the main file; a vsys only a part has follows (IPv6 before raw).  Every vsys is
// merged with the part of its own name only.
func mergeTexts(spoc, v6, raw string) (*iConfig, error) {
	m, err := readConfig(spoc)
	if err != nil {
		return nil, err
	}
	for _, txt := range []string{v6, raw} {
		if strings.TrimSpace(txt) == "" {
			continue
		}
		p, err := readConfig(txt)
		if err != nil {
			return nil, err
		}
		if !p.HasDevices {
			continue
		}
		m.HasDevices = true
		for _, pv := range p.Vsys {
			at := -1
			for i := range m.Vsys {
				if m.Vsys[i].Name == pv.Name {
					at = i
				}
			}
			if at < 0 {
				m.Vsys = append(m.Vsys, iVsys{Name: pv.Name})
				at = len(m.Vsys) - 1
			}
			v := &m.Vsys[at]
			var front, back []iRule
			for _, r := range pv.Rules {
				if r.Append {
					r.Append = false
					back = append(back, r)
				} else {
					front = append(front, r)
				}
			}
			v.Rules = append(append(front, v.Rules...), back...)
			v.Addrs = append(v.Addrs, pv.Addrs...)
			v.Groups = append(v.Groups, pv.Groups...)
			v.Svcs = append(v.Svcs, pv.Svcs...)
			v.SGrps = append(v.SGrps, pv.SGrps...)
		}
	}
	return m, nil
}

// sameIConfig: two independent readings agree (vsys by index, rules in order, objects by name).
func sameIConfig(a, b *iConfig) string {
	if len(a.Vsys) != len(b.Vsys) {
		return fmt.Sprintf("%d vsys against %d", len(a.Vsys), len(b.Vsys))
	}
	for i := range a.Vsys {
		x, y := a.Vsys[i], b.Vsys[i]
		if x.Name != y.Name {
			return fmt.Sprintf("vsys %d: %s against %s", i, x.Name, y.Name)
		}
		if len(x.Rules) != len(y.Rules) {
			return fmt.Sprintf("vsys %s: %d rules against %d", x.Name, len(x.Rules), len(y.Rules))
		}
		for j := range x.Rules {
			if fmt.Sprint(x.Rules[j]) != fmt.Sprint(y.Rules[j]) {
				return fmt.Sprintf("vsys %s: rule %d: %s against %s", x.Name, j, x.Rules[j].Name, y.Rules[j].Name)
			}
		}
		objs := func(l []iObj) string {
			var s []string
			for _, o := range l {
				s = append(s, o.Name+"="+o.Val)
			}
			sort.Strings(s)
			return strings.Join(s, ";")
		}
		grps := func(l []iGrp) string {
			var s []string
			for _, o := range l {
				s = append(s, o.Name+"="+strings.Join(o.Members, ","))
			}
			sort.Strings(s)
			return strings.Join(s, ";")
		}
		if objs(x.Addrs) != objs(y.Addrs) || objs(x.Svcs) != objs(y.Svcs) || grps(x.Groups) != grps(y.Groups) || grps(x.SGrps) != grps(y.SGrps) {
			return fmt.Sprintf("vsys %s: objects differ", x.Name)
		}
	}
	return ""
}
