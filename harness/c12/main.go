package main

// C12 — at most one approve or compare session per device at any time.
//
// Support for the Lean model (NA/Model/Lock.lean; the theorems are the proof, this is sampling):
// the REAL drc and do-approve binaries are built from the repository and started as real
// processes (two, three, four at a time) against a simulated ASA (this binary in `simdev` mode,
// plugged in through SIMULATE_ROUTER) that records begin/end of every session and can park a
// session at a chosen phase.
//
//   gated cases   the holder is parked inside its device session at a seeded random phase; the
//                 contenders (other spellings of the device, other front-end) run to their end,
//                 or the holder is SIGKILLed and a new run follows.  The schedule is known
//                 exactly, so the outcome (who won, exit codes, order of sessions, history lines,
//                 status slots) is compared byte for byte with the model run on that schedule.
//   timed cases   nothing is parked; contenders start at seeded random offsets (before the lock is
//                 taken, during login, during the session, while status/history are written, after
//                 exit), holders are SIGKILLed at random times.  The observed outcome vector must
//                 be one the model can reach by SOME interleaving (`reach`).
//   oracle        (specification side, independent of the model) sessions for one device never
//                 overlap; a loser prints `Approve in progress`, exits 1, has no session and leaves
//                 status/history/log files byte-identical; history lines of different runs do not
//                 interleave; after the death of a holder the next run gets the lock.
//   path.Base     differential test of the Lean transcription against Go's path.Base.

import (
	"bufio"
	"crypto/sha256"
	"encoding/hex"
	"encoding/json"
	"fmt"
	"io"
	"io/fs"
	"os"
	"os/exec"
	"os/signal"
	"path"
	"path/filepath"
	"reflect"
	"regexp"
	"runtime"
	"sort"
	"strconv"
	"strings"
	"sync"
	"syscall"
	"time"
	. "verifharness/vhlib"

	"github.com/hknutzen/Netspoc-Approve/go/pkg/device"
	"github.com/hknutzen/Netspoc-Approve/go/pkg/program"
)

func main() {
	if len(os.Args) > 1 && os.Args[1] == "simdev" {
		simdev(os.Args[2:])
		return
	}
	Main(map[string]PropFunc{"C12": run})
}

// ------------------------------------------------------------------ simulated device
//
// Port of go/testdata/simulate-cisco.pl (without banner garbling) plus: an event log
// (`ID KIND N UNIXNANO` per line, O_APPEND), a per-input delay, and a gate: if GATEDIR/hold-ID
// holds the number k, the simulator logs `AT k` before reading its k-th input line and waits
// until GATEDIR/go-ID exists.

func simdev(args []string) {
	if len(args) < 6 {
		fmt.Fprintln(os.Stderr, "usage: simdev ID DEVICE EVENTLOG GATEDIR SCENARIO DELAY_US [LINGER_MS]")
		os.Exit(2)
	}
	id, device, logf, gatedir, scen := args[0], args[1], args[2], args[3], args[4]
	delay, _ := strconv.Atoi(args[5])
	linger := 0
	if len(args) > 6 {
		linger, _ = strconv.Atoi(args[6])
	}
	// like a real ssh that does not notice at once that its parent is gone
	signal.Ignore(syscall.SIGHUP)
	ev := func(kind string, n int) {
		f, err := os.OpenFile(logf, os.O_APPEND|os.O_CREATE|os.O_WRONLY, 0644)
		if err == nil {
			fmt.Fprintf(f, "%s %s %d %d\n", id, kind, n, time.Now().UnixNano())
			f.Close()
		}
	}
	hold := -1
	if b, err := os.ReadFile(filepath.Join(gatedir, "hold-"+id)); err == nil {
		hold, _ = strconv.Atoi(strings.TrimSpace(string(b)))
	}
	ppid := os.Getppid()
	phase := 0
	in := bufio.NewReader(os.Stdin)
	out := os.Stdout
	finish := func(orphan bool) {
		if linger > 0 && orphan {
			ev("ORPHAN", phase)
			time.Sleep(time.Duration(linger) * time.Millisecond)
		}
		ev("END", phase)
		os.Exit(0)
	}
	// which process holds the lock descriptor?  Not this child: the lock file is opened close-on-exec.
	if ents, err := os.ReadDir("/proc/self/fd"); err == nil {
		for _, e := range ents {
			if t, err := os.Readlink("/proc/self/fd/" + e.Name()); err == nil && strings.Contains(t, "/lock/") {
				ev("FDLEAK", 0)
			}
		}
	}
	readLine := func() string {
		if phase == hold {
			// park only once the next line has arrived: the client logs the previous answer
			// before it sends the next command, so from now on it is blocked waiting for us
			in.Peek(1)
			ev("AT", phase)
			deadline := time.Now().Add(120 * time.Second)
			for time.Now().Before(deadline) {
				if _, err := os.Stat(filepath.Join(gatedir, "go-"+id)); err == nil {
					break
				}
				if os.Getppid() != ppid {
					finish(true)
				}
				time.Sleep(time.Millisecond)
			}
		} else if delay > 0 {
			time.Sleep(time.Duration(delay) * time.Microsecond)
		}
		line, err := in.ReadString('\n')
		if err != nil && line == "" {
			finish(true)
		}
		if strings.TrimPrefix(strings.TrimSuffix(line, "\n"), "do ") == "exit" {
			ev("BYE", phase) // not awaited by the client: may or may not be seen before we are hung up
		} else {
			ev("CMD", phase)
		}
		phase++
		return line
	}
	var sendLine func(string)
	sendLine = func(line string) {
		line = strings.ReplaceAll(line, "\n", "\r\n")
		parts := strings.Split(line, "<!>")
		for len(parts) > 1 && parts[len(parts)-1] == "" { // perl split drops trailing empty fields
			parts = parts[:len(parts)-1]
		}
		for len(parts) > 1 {
			out.WriteString(parts[0])
			parts = parts[1:]
			sendLine(readLine())
		}
		out.WriteString(strings.Join(parts, ""))
	}
	data, err := os.ReadFile(scen)
	if err != nil {
		fmt.Fprintln(os.Stderr, err)
		os.Exit(2)
	}
	re := regexp.MustCompile(`(?m)^#[ ]*(.*)[ ]*\n`)
	idx := re.FindAllStringSubmatchIndex(string(data), -1)
	preamble := string(data)
	cmd2out := map[string]string{}
	if len(idx) > 0 {
		preamble = string(data[:idx[0][0]])
		for i, m := range idx {
			end := len(data)
			if i+1 < len(idx) {
				end = idx[i+1][0]
			}
			cmd2out[string(data[m[2]:m[3]])] = string(data[m[1]:end])
		}
	}
	preamble = strings.TrimSuffix(preamble, "\n")
	ev("START", 0)
	sendLine(preamble)
	for {
		cmd := strings.TrimSuffix(readLine(), "\n")
		lookup := strings.TrimPrefix(cmd, "do ")
		sendLine(cmd + "\n")
		if lookup == "exit" {
			break
		}
		if o, ok := cmd2out[lookup]; ok && o != "" {
			sendLine(o)
		}
		sendLine(device + "#")
	}
	finish(false)
}

func scenarioFor(dev string) string {
	return `Are you sure you want to continue connecting (yes/no)?<!>
***********************************************************
**                 managed by NetSPoC                    **
***********************************************************
netspoc@10.1.2.3's password: <!>
Type help or '?' for a list of available commands.
` + dev + `>
# enable
Password: <!>
# sh pager
pager lines 24

# sh term

Width = 80, no monitor
terminal interactive
# show hostname
` + dev + `
# sh ver
Cisco Adaptive Security Appliance Software Version 9.4(4)5
Hardware:   ASA5550, 4096 MB RAM, CPU Pentium 4 3000 MHz
Configuration last modified by netspoc at 10:40:44.291 CEDT Thu Oct 19 2017

`
}

// ------------------------------------------------------------------ one invocation

// inv is one invocation of a front-end.
type inv struct {
	Front  string `json:"front"`  // "drc" | "do-approve"
	Action string `json:"action"` // "approve" | "compare"
	Dev    string `json:"dev"`    // device name
	Arg    string `json:"arg"`    // how the device is spelled on the command line
	Cwd    string `json:"cwd"`    // working directory relative to the base dir
	LogDir bool   `json:"logdir"` // drc -L
	// an invocation that ends by an early return before the lock (usage error, -h, -v, unknown
	// device): Raw are its arguments, EarlyK says which conditional return of the model it takes
	IsEarly bool     `json:"early,omitempty"`
	EarlyK  int      `json:"early_k,omitempty"`
	Raw     []string `json:"raw,omitempty"`
}

func (v inv) spec() string {
	if v.Front == "drc" {
		return "d:" + v.Arg
	}
	return "a:" + v.Arg
}

func (v inv) String() string {
	if v.IsEarly {
		return fmt.Sprintf("%s %s [early return %d]", v.Front, strings.Join(v.Raw, " "), v.EarlyK)
	}
	if v.Front == "drc" {
		s := "drc"
		if v.Action == "compare" {
			s += " -C"
		}
		if v.LogDir {
			s += " -L drclog"
		}
		return fmt.Sprintf("(cd %s; %s %s)", v.Cwd, s, v.Arg)
	}
	return "do-approve " + v.Action + " " + v.Arg
}

type proc struct {
	v          inv
	id         int
	cmd        *exec.Cmd
	stdout     strings.Builder
	stderr     strings.Builder
	start, end time.Time
	exit       int
	killed     bool
	done       chan struct{}
	pipeR      *os.File // read end of a full stdout pipe (post-session cases)
}

// drain: somebody finally reads the run's stdout.
func (p *proc) drain() {
	if p.pipeR != nil {
		r := p.pipeR
		p.pipeR = nil
		go func() { io.Copy(io.Discard, r); r.Close() }()
	}
}

type world struct {
	dir      string
	self     string
	bins     map[string]string
	procs    []*proc
	eventLog string
	gateDir  string
	fullPipe bool // the next start gets a stdout pipe that is already full and that nobody reads
	lingerMS int // how long an orphaned simulator (ssh child of a killed run) stays alive
	wrap     []string // command prefix for the next start (strace …)
}

var devices = []string{"dev", "other"}

// makeDiff turns the first device into one whose configuration differs from what Netspoc wants
// (another default route): a compare then reports `comp: *** device changed ***`, which do-approve
// prints on stdout after the device session and before it writes RES:/END: and the status file.
func (w *world) makeDiff() {
	d := devices[0]
	os.WriteFile(filepath.Join(w.dir, "policies/p1/code", d), []byte("route inside 0.0.0.0 0.0.0.0 10.1.2.4\n"), 0644)
	os.WriteFile(filepath.Join(w.dir, "scenario-"+d), []byte(scenarioFor(d)+
		"# write term\ninterface Ethernet0/0\n nameif inside\nroute inside 0.0.0.0 0.0.0.0 10.1.2.3\n"), 0644)
}

func newWorld(dir, self string, bins map[string]string, rng *RNG) *world {
	w := &world{dir: dir, self: self, bins: bins, eventLog: filepath.Join(dir, "events"), gateDir: filepath.Join(dir, "gates")}
	files := map[string]string{
		".netspoc-approve": "basedir = " + dir + "\ncheckbanner = NetSPoC\nsystemuser = admin\ntimeout = 60\nlogin_timeout = 60\n",
		"credentials":      "* admin secret\n",
	}
	for _, d := range devices {
		info := `{"model":"ASA","name_list":["` + d + `"],"ip_list":["10.1.13.33"]}` + "\n"
		files["policies/p1/code/"+d] = ""
		files["policies/p1/code/"+d+".info"] = info
		files["policies/p1/code/ipv6/"+d] = ""
		files["policies/p1/code/ipv6/"+d+".info"] = info
		files["scenario-"+d] = scenarioFor(d)
	}
	WriteFiles(dir, files)
	os.Symlink("p1", filepath.Join(dir, "policies", "current"))
	os.MkdirAll(w.gateDir, 0755)
	// the code creates lock/, history/, status/ itself; sometimes they exist already
	for _, d := range []string{"lock", "history", "status"} {
		if rng.Bool() {
			os.Mkdir(filepath.Join(dir, d), 0755)
		}
	}
	// A device that has been approved or compared before has a lock file already, and that file is never
	// rewritten: its modification time is the time of the device's FIRST run (hours, months or years ago, or in
	// the future after a clock step), it may hold left-over text and odd modes.  Nothing of that may decide
	// who holds the device.  (Seeded change C12-W1: a held lock counted as stale by the age of the lock file.)
	if rng.Chance(60) {
		os.MkdirAll(filepath.Join(dir, "lock"), 0755)
		ages := []time.Duration{13 * time.Hour, 3 * 24 * time.Hour, 400 * 24 * time.Hour, 20 * 365 * 24 * time.Hour,
			2 * time.Minute, -36 * time.Hour}
		for _, d := range devices {
			if rng.Chance(15) {
				continue
			}
			lf := filepath.Join(dir, "lock", d)
			content := ""
			if rng.Chance(30) {
				content = Pick(rng, []string{"4711\n", "locked by approve-all\n", strings.Repeat("x", 5000)})
			}
			os.WriteFile(lf, []byte(content), 0644)
			if rng.Chance(20) {
				os.Chmod(lf, 0600)
			}
			t := time.Now().Add(-ages[rng.Intn(len(ages))])
			os.Chtimes(lf, t, t)
		}
	}
	return w
}

func testTime(id int) time.Time {
	return time.Date(2024, 9, 29, 16, 19, 10+id, 0, time.UTC)
}

// start launches invocation v as process number id; hold>=0 parks its device session at that phase.
func (w *world) start(v inv, hold int, delayUS int) *proc {
	id := len(w.procs)
	p := &proc{v: v, id: id, done: make(chan struct{})}
	w.procs = append(w.procs, p)
	if hold >= 0 {
		os.WriteFile(filepath.Join(w.gateDir, fmt.Sprintf("hold-%d", id)), []byte(strconv.Itoa(hold)), 0644)
	}
	var args []string
	if v.IsEarly {
		args = v.Raw
	} else if v.Front == "drc" {
		if v.Action == "compare" {
			args = append(args, "-C")
		}
		if v.LogDir {
			args = append(args, "-L", filepath.Join(w.dir, "drclog"))
		}
		args = append(args, v.Arg)
	} else {
		args = []string{v.Action, v.Arg}
	}
	cmd := exec.Command(w.bins[v.Front], args...)
	if len(w.wrap) > 0 {
		cmd = exec.Command(w.wrap[0], append(append(append([]string{}, w.wrap[1:]...), w.bins[v.Front]), args...)...)
	}
	cmd.Dir = filepath.Join(w.dir, v.Cwd)
	cmd.Env = []string{
		"PATH=" + os.Getenv("PATH"), "HOME=" + w.dir, "GOGC=1", // collect eagerly: an unreachable lock file gets finalised soon
		"TEST_TIME=" + testTime(id).Format("2006-Jan-02 15:04:05"),
		fmt.Sprintf("SIMULATE_ROUTER=%s simdev %d %s %s %s %s %d %d", w.self, id, v.Dev, w.eventLog, w.gateDir,
			filepath.Join(w.dir, "scenario-"+v.Dev), delayUS, w.lingerMS),
	}
	cmd.Stdout = &p.stdout
	cmd.Stderr = &p.stderr
	var pipeW *os.File
	if w.fullPipe {
		// like `do-approve compare dev | less` with nobody pressing a key: the first line the run
		// prints on stdout blocks it until somebody reads (proc.drain)
		w.fullPipe = false
		rd, wr, err := os.Pipe()
		if err == nil {
			fd := int(wr.Fd())
			syscall.SetNonblock(fd, true)
			chunk := make([]byte, 4096)
			for n := 4096; n >= 1; n /= 4096 {
				for {
					if _, err := syscall.Write(fd, chunk[:n]); err != nil {
						break
					}
				}
				if n == 1 {
					break
				}
			}
			syscall.SetNonblock(fd, false)
			cmd.Stdout = wr
			pipeW, p.pipeR = wr, rd
		}
	}
	p.cmd = cmd
	p.start = time.Now()
	err := cmd.Start()
	if pipeW != nil {
		pipeW.Close()
	}
	if err != nil {
		p.exit = -1
		p.end = time.Now()
		close(p.done)
		return p
	}
	go func() {
		err := cmd.Wait()
		p.end = time.Now()
		p.exit = 0
		if ee, ok := err.(*exec.ExitError); ok {
			p.exit = ee.ExitCode()
			if ws, ok := ee.Sys().(syscall.WaitStatus); ok && ws.Signaled() {
				p.killed = true // died from our SIGKILL (not set if it had already exited)
			}
		} else if err != nil {
			p.exit = -1
		}
		close(p.done)
	}()
	return p
}

func (p *proc) wait(d time.Duration) bool {
	select {
	case <-p.done:
		return true
	case <-time.After(d):
		return false
	}
}

func (w *world) release(p *proc) {
	os.WriteFile(filepath.Join(w.gateDir, fmt.Sprintf("go-%d", p.id)), nil, 0644)
}

func (w *world) kill(p *proc) {
	p.cmd.Process.Signal(syscall.SIGKILL)
	p.wait(10 * time.Second)
}

type event struct {
	id   int
	kind string
	n    int
	t    int64
}

func (w *world) events() []event {
	data, _ := os.ReadFile(w.eventLog)
	var evs []event
	for _, l := range strings.Split(string(data), "\n") {
		f := strings.Fields(l)
		if len(f) != 4 {
			continue
		}
		id, _ := strconv.Atoi(f[0])
		n, _ := strconv.Atoi(f[2])
		t, _ := strconv.ParseInt(f[3], 10, 64)
		evs = append(evs, event{id, f[1], n, t})
	}
	return evs
}

// waitAt waits until process p's simulator reports that it is parked.
func (w *world) waitAt(p *proc, d time.Duration) bool {
	deadline := time.Now().Add(d)
	for time.Now().Before(deadline) {
		for _, e := range w.events() {
			if e.id == p.id && e.kind == "AT" {
				return true
			}
		}
		select {
		case <-p.done:
			return false
		default:
		}
		time.Sleep(time.Millisecond)
	}
	return false
}

// snapshot hashes everything a run may write except the lock directory and the harness' own files.
func (w *world) snapshot() map[string]string {
	m := map[string]string{}
	{
		filepath.Walk(w.dir, func(p string, info os.FileInfo, err error) error {
			if err != nil {
				return nil
			}
			rel, _ := filepath.Rel(w.dir, p)
			// everything below the base dir except the lock directory and the harness' own files
			if rel == "lock" || rel == "gates" {
				return filepath.SkipDir
			}
			if rel == "events" || rel == "." {
				return nil
			}
			if info.IsDir() {
				m[rel+"/"] = "dir"
				return nil
			}
			if info.Mode()&os.ModeSymlink != 0 {
				t, _ := os.Readlink(p)
				m[rel] = "-> " + t
				return nil
			}
			data, _ := os.ReadFile(p)
			if strings.HasPrefix(rel, "status/") || strings.HasPrefix(rel, "history/") || strings.Contains(rel, "/log/") ||
				strings.HasPrefix(rel, "drclog/") {
				// what the property names — status, history, logs — is kept byte for byte
				m[rel] = "bytes:" + string(data)
				return nil
			}
			h := sha256.Sum256(data)
			m[rel] = hex.EncodeToString(h[:]) + fmt.Sprintf("/%d", len(data))
			return nil
		})
	}
	return m
}

// quiescent waits until the parked holder has finished digesting the simulator's last answer
// (it logs it to its .login/.config file) and returns the then stable snapshot.
func (w *world) quiescent() map[string]string {
	prev := w.snapshot()
	for i := 0; i < 200; i++ {
		time.Sleep(4 * time.Millisecond)
		cur := w.snapshot()
		if len(diffSnap(prev, cur)) == 0 {
			return cur
		}
		prev = cur
	}
	return prev
}

// firstDiff: where two byte strings differ (for the report).
func firstDiff(a, b string) string {
	n := len(a)
	if len(b) < n {
		n = len(b)
	}
	for i := 0; i < n; i++ {
		if a[i] != b[i] {
			return fmt.Sprintf("byte %d of %d/%d", i, len(a), len(b))
		}
	}
	return fmt.Sprintf("length %d -> %d", len(a), len(b))
}

func diffSnap(a, b map[string]string) []string {
	var d []string
	for k, v := range a {
		if b[k] != v {
			if bv, ok := b[k]; ok && strings.HasPrefix(v, "bytes:") && strings.HasPrefix(bv, "bytes:") {
				d = append(d, k+" ("+firstDiff(v, bv)+")")
			} else {
				d = append(d, k)
			}
		}
	}
	for k := range b {
		if _, ok := a[k]; !ok {
			d = append(d, k)
		}
	}
	sort.Strings(d)
	return d
}

// ------------------------------------------------------------------ observation in the model's vocabulary

type interval struct {
	talked bool // the interval [from,to] is one in which the process was certainly alive and in dialogue
	id     int
	dev    string
	from   int64
	to     int64
	closed bool
}

// sessions returns, per simulator session, an interval during which the process that opened it
// was certainly alive and in dialogue with the device: from the start of the simulator to the
// moment the simulator read the last-but-one input line.  (When the simulator reads line k the
// process has seen the answer to line k-1, so it was alive when line k-1 was read; the last line
// — `exit`, or whatever was in flight when a process was killed — may be read after its death.)
func (w *world) sessions() []interval {
	var l []interval
	idx := map[int]int{}
	cmds := map[int][]int64{}
	for _, e := range w.events() {
		switch e.kind {
		case "START":
			idx[e.id] = len(l)
			l = append(l, interval{id: e.id, dev: w.procs[e.id].v.Dev, from: e.t, to: e.t})
		case "CMD", "BYE":
			cmds[e.id] = append(cmds[e.id], e.t)
		case "END":
			if i, ok := idx[e.id]; ok {
				l[i].closed = true
			}
		}
	}
	for i := range l {
		// alive for certain between the reading of the first and of the last-but-one line; with fewer
		// than two lines read there is no such moment (the simulator of a run killed while it spawned
		// it starts as an orphan and sees nothing but EOF)
		if c := cmds[l[i].id]; len(c) >= 2 {
			l[i].from, l[i].to, l[i].talked = c[0], c[len(c)-2], true
		}
	}
	return l
}

func (w *world) procVec(modelStyle bool) string {
	has := map[int]bool{}
	for _, s := range w.sessions() {
		has[s.id] = true
	}
	var l []string
	for _, p := range w.procs {
		s := ""
		lost := strings.Contains(p.stderr.String(), "Approve in progress")
		if p.killed {
			// model: W/L flags of a killed process are not observable from outside
			l = append(l, "K*")
			continue
		}
		if has[p.id] {
			s += "W"
		}
		if lost {
			s += "L"
		}
		l = append(l, s+strconv.Itoa(p.exit))
	}
	return strings.Join(l, ",")
}

var histRe = regexp.MustCompile(`^(\d{4} \d\d \d\d \d\d:\d\d:\d\d) (\w+):`)

// history returns, per device, the history lines as pid:TAG (RES lines dropped) in file order.
func (w *world) history() (string, map[string][]string) {
	per := map[string][]string{}
	for _, d := range devices {
		data, err := os.ReadFile(filepath.Join(w.dir, "history", d))
		if err != nil {
			continue
		}
		for _, line := range strings.Split(string(data), "\n") {
			m := histRe.FindStringSubmatch(line)
			if m == nil {
				if line != "" {
					per[d] = append(per[d], "?:"+line)
				}
				continue
			}
			t, _ := time.Parse("2006 01 02 15:04:05", m[1])
			id := int(t.Sub(testTime(0)) / time.Second)
			if m[2] == "RES" {
				continue
			}
			per[d] = append(per[d], fmt.Sprintf("%d:%s", id, m[2]))
		}
	}
	var parts []string
	for _, d := range devices {
		if len(per[d]) > 0 {
			parts = append(parts, d+"["+strings.Join(per[d], ",")+"]")
		}
	}
	return strings.Join(parts, ""), per
}

// statusSlots returns per device `A<pid>` / `C<pid>` of the two slots of the status file.
func (w *world) statusSlots() string {
	var parts []string
	for _, d := range devices {
		data, err := os.ReadFile(filepath.Join(w.dir, "status", d))
		if err != nil {
			continue
		}
		var v struct {
			Approve, Compare struct {
				Result string `json:"result"`
				Time   int64  `json:"time"`
			}
		}
		if json.Unmarshal(data, &v) != nil {
			parts = append(parts, d+"[damaged]")
			continue
		}
		s := ""
		if v.Approve.Time != 0 {
			s += fmt.Sprintf("A%d", v.Approve.Time-testTime(0).Unix())
		}
		if v.Compare.Time != 0 {
			s += fmt.Sprintf("C%d", v.Compare.Time-testTime(0).Unix())
		}
		parts = append(parts, d+"["+s+"]")
	}
	return strings.Join(parts, "")
}

// devOrder: the sessions in order of their beginning; those of killed runs are left out (whether the
// simulator of a run killed around its spawn ever announces itself is not a property of the run)
func (w *world) devOrder() string {
	var l []string
	for _, s := range w.sessions() {
		if !w.procs[s.id].killed {
			l = append(l, strconv.Itoa(s.id))
		}
	}
	return strings.Join(l, ",")
}

func (w *world) observed() string {
	h, _ := w.history()
	return fmt.Sprintf("procs=%s;dev=%s;hist=%s;status=%s", w.procVec(true), w.devOrder(), h, w.statusSlots())
}

// modelObserved turns the driver's answer for a `run` request into the same vocabulary:
// killed processes lose their W/L flags, the status sequence becomes the final slots.
func (w *world) modelObserved(ans string) string {
	f := map[string]string{}
	for _, kv := range strings.Split(ans, ";") {
		k, v, _ := strings.Cut(kv, "=")
		f[k] = v
	}
	var pv []string
	for _, s := range strings.Split(f["procs"], ",") {
		if strings.HasSuffix(s, "K*") {
			s = "K*"
		}
		pv = append(pv, s)
	}
	slots := map[string]map[string]int{}
	if f["status"] != "" {
		for _, s := range strings.Split(f["status"], ",") {
			id, _ := strconv.Atoi(s)
			if id < len(w.procs) {
				v := w.procs[id].v
				if slots[v.Dev] == nil {
					slots[v.Dev] = map[string]int{}
				}
				slots[v.Dev][v.Action] = id
			}
		}
	}
	var st []string
	for _, d := range devices {
		if m, ok := slots[d]; ok {
			s := ""
			if id, ok := m["approve"]; ok {
				s += fmt.Sprintf("A%d", id)
			}
			if id, ok := m["compare"]; ok {
				s += fmt.Sprintf("C%d", id)
			}
			st = append(st, d+"["+s+"]")
		}
	}
	var dv []string
	for _, d := range strings.Split(f["dev"], ",") {
		if id, err := strconv.Atoi(d); err == nil && id < len(w.procs) && !w.procs[id].killed {
			dv = append(dv, d)
		}
	}
	return fmt.Sprintf("procs=%s;dev=%s;hist=%s;status=%s", strings.Join(pv, ","), strings.Join(dv, ","), f["hist"], strings.Join(st, ""))
}

// ------------------------------------------------------------------ cases

type c12Case struct {
	Kind    string `json:"kind"` // gated-contend | gated-kill | timed | timed-kill
	Invs    []inv  `json:"invs"`
	Phase   int    `json:"phase"`    // gated: where the holder is parked
	DelayUS int    `json:"delay_us"` // timed: simulator delay per input line
	Offsets []int  `json:"offsets_us"`
	KillAt  int    `json:"kill_at_us"`
	Par     bool   `json:"parallel_contenders"`
	Seed    uint64 `json:"seed"`
}

func (c c12Case) canon() string {
	var l []string
	for _, v := range c.Invs {
		l = append(l, v.String())
	}
	return fmt.Sprintf("%s phase=%d par=%v delay=%d off=%v kill=%d :: %s", c.Kind, c.Phase, c.Par, c.DelayUS, c.Offsets, c.KillAt, strings.Join(l, " ; "))
}

// earlyKinds: invocations that return before the lock is even tried; EarlyK = index of the
// conditional return in the model's step list of that front-end.
var earlyKinds = []inv{
	{Front: "drc", IsEarly: true, EarlyK: 0, Raw: []string{"-h"}},
	{Front: "drc", IsEarly: true, EarlyK: 1, Raw: []string{"-v"}},
	{Front: "drc", IsEarly: true, EarlyK: 2, Raw: []string{}},
	{Front: "drc", IsEarly: true, EarlyK: 2, Raw: []string{"policies/current/code/dev", "x", "y"}},
	{Front: "do-approve", IsEarly: true, EarlyK: 0, Raw: []string{"-h"}},
	{Front: "do-approve", IsEarly: true, EarlyK: 1, Raw: []string{"approve"}},
	{Front: "do-approve", IsEarly: true, EarlyK: 2, Raw: []string{"approve", "nodev"}},
	{Front: "do-approve", IsEarly: true, EarlyK: 3, Raw: []string{"bogus", "dev"}},
}

func genEarly(rng *RNG, dev string) inv {
	v := Pick(rng, earlyKinds)
	v.Dev, v.Arg, v.Cwd, v.Action = dev, dev, ".", "approve"
	return v
}

// loserSpelling: spellings that name the device for the lock (same path.Base) but cannot complete a
// run (trailing slash): only for runs that must lose anyway.
func loserSpelling(rng *RNG, v inv) inv {
	if rng.Chance(25) {
		v.Arg += Pick(rng, []string{"/", "//"})
	}
	return v
}

func genInv(rng *RNG, dev string, absBase string) inv {
	v := inv{Dev: dev}
	v.Action = Pick(rng, []string{"approve", "compare"})
	if rng.Chance(45) {
		v.Front = "do-approve"
		v.Arg = dev
		v.Cwd = Pick(rng, []string{".", "policies"})
		return v
	}
	v.Front = "drc"
	v.LogDir = rng.Chance(60)
	switch rng.Intn(10) {
	case 7:
		v.Cwd, v.Arg = ".", "policies/current/../p1/code/"+dev
	case 8:
		v.Cwd, v.Arg = ".", absBase+"//policies/p1//code//"+dev
	case 9:
		v.Cwd, v.Arg = "policies/p1/code/ipv6", "./../ipv6/../"+dev
	case 0:
		v.Cwd, v.Arg = ".", "policies/current/code/"+dev
	case 1:
		v.Cwd, v.Arg = ".", absBase+"/policies/p1/code/"+dev
	case 2:
		v.Cwd, v.Arg = ".", "policies/p1/code/ipv6/"+dev
	case 3:
		v.Cwd, v.Arg = "policies/p1", "code/"+dev
	case 4:
		v.Cwd, v.Arg = "policies/p1/code", dev
	case 5:
		v.Cwd, v.Arg = ".", "policies/current/code/./"+dev
	default:
		v.Cwd, v.Arg = "policies/current/code/ipv6", "../"+dev
	}
	return v
}

type runner struct {
	ctx    *Ctx
	res    *Result
	mu     sync.Mutex
	drv    *Nadrv
	tmp    string
	self   string
	bins   map[string]string
	phases int // number of input lines of one session
	caseNo int
	reachCache map[string]string
	nFail      int
	pending    map[uint64][]pendingFail
	known      []map[string]any
	discarded  int
	loserDur   []time.Duration
}

type pendingFail struct {
	sig  map[string]any
	what string
}

// fail records an oracle failure of the case being run; it is reported when the case is over
// (flush), unless the case was spoilt by the environment (no pty left, …).
func (r *runner) fail(pred, what string, c c12Case, extra map[string]any) {
	r.mu.Lock()
	defer r.mu.Unlock()
	sig := map[string]any{"pred": pred, "kind": c.Kind}
	for k, v := range extra {
		sig[k] = v
	}
	r.pending[c.Seed] = append(r.pending[c.Seed], pendingFail{sig, what + " :: " + c.canon()})
}

func (r *runner) flush(c c12Case, w *world) {
	trouble := w.envTrouble()
	r.mu.Lock()
	defer r.mu.Unlock()
	pend := r.pending[c.Seed]
	delete(r.pending, c.Seed)
	if trouble != "" {
		r.res.Count("case-discarded:" + trouble)
		r.discarded++
	}
	for _, f := range pend {
		// a machine without ptys explains a run that failed or hung — never two sessions at once, a
		// loser that wrote or talked, a child with the lock descriptor, or interleaved history
		if trouble != "" && !hardPreds[fmt.Sprint(f.sig["pred"])] {
			r.res.Count("failure-discarded:" + fmt.Sprint(f.sig["pred"]))
			continue
		}
		if !r.isKnown(f.sig) {
			r.nFail++ // only failures that are not listed as known count towards the early stop
		}
		r.res.Fail(f.sig, f.what, c)
	}
}

var hardPreds = map[string]bool{"overlapping_sessions": true, "loser_wrote_files": true, "loser_talked_to_device": true,
	"child_inherited_lock_fd": true, "history_interleaved": true, "early_return_talked_to_device": true, "loser_not_immediate": true}

// isKnown: does a known-finding entry for C12 match this signature (same rule as ./check)?
func (r *runner) isKnown(sig map[string]any) bool {
	for _, k := range r.known {
		ok := true
		for key, want := range k {
			got, has := sig[key]
			if !has {
				ok = false
				break
			}
			if l, isList := want.([]any); isList {
				in := false
				for _, x := range l {
					if fmt.Sprint(x) == fmt.Sprint(got) {
						in = true
					}
				}
				ok = ok && in
			} else if fmt.Sprint(want) != fmt.Sprint(got) {
				ok = false
			}
		}
		if ok {
			return true
		}
	}
	return false
}

func loadKnown(verif string) []map[string]any {
	var out []map[string]any
	files, _ := filepath.Glob(filepath.Join(verif, "known", "*.jsonl"))
	files = append(files, filepath.Join(verif, "known_findings.jsonl"))
	for _, f := range files {
		data, err := os.ReadFile(f)
		if err != nil {
			continue
		}
		for _, line := range strings.Split(string(data), "\n") {
			var e struct {
				Status, Property string
				Signature        map[string]any
			}
			if json.Unmarshal([]byte(line), &e) == nil && e.Property == "C12" && e.Status == "known" && e.Signature != nil {
				out = append(out, e.Signature)
			}
		}
	}
	return out
}

// envTrouble: did a run of this case fail for want of a resource of the machine (the sandbox runs
// many other jobs: ptys, processes, memory)?  Such a case says nothing about the property.
func (w *world) envTrouble() string {
	texts := []string{}
	for _, p := range w.procs {
		texts = append(texts, p.stderr.String())
	}
	for _, pat := range []string{"policies/p1/log/*", "drclog/*"} {
		files, _ := filepath.Glob(filepath.Join(w.dir, pat))
		for _, f := range files {
			if data, err := os.ReadFile(f); err == nil && len(data) < 1<<20 {
				texts = append(texts, string(data))
			}
		}
	}
	for _, t := range texts {
		switch {
		case strings.Contains(t, "/dev/ptmx"):
			return "no-pty-left"
		// (NOT "resource temporarily unavailable": that is EAGAIN, the very error of a contended flock)
		case strings.Contains(t, "cannot allocate memory"), strings.Contains(t, "too many open files"):
			return "out-of-resources"
		}
	}
	return ""
}

// checkLoser: the oracle for one losing run.
func (r *runner) checkLoser(c c12Case, w *world, p *proc) {
	r.checkImmediate(c, w, p)
	errS := p.stderr.String()
	if p.exit != 1 || !strings.Contains(errS, "Approve in progress for "+p.v.Arg) {
		r.fail("loser_wrong_exit_or_message",
			fmt.Sprintf("run %d (%s) met a held lock but exit=%d stderr=%q", p.id, p.v, p.exit, errS), c, nil)
	}
	for _, s := range w.sessions() {
		if s.id == p.id {
			r.fail("loser_talked_to_device", fmt.Sprintf("run %d (%s) lost the lock but opened a device session", p.id, p.v), c, nil)
		}
	}
}

// checkImmediate: "fails immediately".  A losing run does nothing but start, read its configuration
// and try the lock once; it must be over in about the time any invocation of the binary needs on
// this machine right now.  That time is measured on the spot with `drc -v` (start-up only); a single
// loser may take 8 times as long plus 250 ms, at least 1 s, at most 3 s; and the MEDIAN loser of a
// check must be over within 200 ms (see the end of run) — both far below a device session, which
// on a real device takes seconds to minutes.
func (r *runner) checkImmediate(c c12Case, w *world, p *proc) {
	dur := p.end.Sub(p.start)
	t0 := time.Now()
	cmd := exec.Command(w.bins["drc"], "-v")
	cmd.Env = []string{"HOME=" + w.dir}
	cmd.Run()
	startup := time.Since(t0)
	// single run: generous, because this machine runs a hundred other jobs and a run can lose its CPU
	// for a few hundred ms; the typical loser is judged by the median over the whole check (below)
	bound := 8*startup + 250*time.Millisecond
	if bound < time.Second {
		bound = time.Second
	}
	if bound > 3*time.Second {
		bound = 3 * time.Second
	}
	r.mu.Lock()
	r.loserDur = append(r.loserDur, dur)
	r.res.Count("loser-timed")
	switch {
	case dur < 20*time.Millisecond:
		r.res.Count("loser-duration:<20ms")
	case dur < 100*time.Millisecond:
		r.res.Count("loser-duration:<100ms")
	case dur < 500*time.Millisecond:
		r.res.Count("loser-duration:<500ms")
	default:
		r.res.Count("loser-duration:>=500ms")
	}
	r.mu.Unlock()
	if dur > bound {
		r.fail("loser_not_immediate", fmt.Sprintf("run %d (%s) met a held lock and took %d ms to fail (start-up of the binary just now: %d ms, bound %d ms)",
			p.id, p.v, dur.Milliseconds(), startup.Milliseconds(), bound.Milliseconds()), c, nil)
	}
}

func procState(pid int) string {
	data, err := os.ReadFile(fmt.Sprintf("/proc/%d/stat", pid))
	if err != nil {
		return ""
	}
	if i := strings.LastIndex(string(data), ") "); i >= 0 && i+2 < len(data) {
		return string(data[i+2 : i+3])
	}
	return ""
}

func exeOf(pid int) string {
	t, _ := os.Readlink(fmt.Sprintf("/proc/%d/exe", pid))
	return t
}

// forkWindow waits until the front-end started as p (under strace) has forked the child for its
// device session and that child has not reached exec yet: two processes with the command line and the
// executable of the front-end in this case's directory, one the parent of the other, both holding
// a descriptor of a lock file.  Returns their pids (0,0 if that is never seen).
func (w *world) forkWindow(p *proc, d time.Duration) (int, int) {
	bin := w.bins[p.v.Front]
	deadline := time.Now().Add(d)
	for time.Now().Before(deadline) {
		select {
		case <-p.done:
			return 0, 0
		default:
		}
		type pi struct{ pid, ppid int }
		var l []pi
		ents, _ := os.ReadDir("/proc")
		for _, e := range ents {
			pid, err := strconv.Atoi(e.Name())
			if err != nil || exeOf(pid) != bin {
				continue
			}
			if cwd, _ := os.Readlink(fmt.Sprintf("/proc/%d/cwd", pid)); !strings.HasPrefix(cwd, w.dir) {
				continue
			}
			data, err := os.ReadFile(fmt.Sprintf("/proc/%d/stat", pid))
			if err != nil {
				continue
			}
			f := strings.Fields(string(data[strings.LastIndex(string(data), ") ")+2:]))
			if len(f) < 2 {
				continue
			}
			ppid, _ := strconv.Atoi(f[1])
			l = append(l, pi{pid, ppid})
		}
		for _, a := range l {
			for _, b := range l {
				if b.ppid == a.pid && holdsLockFd(a.pid) && holdsLockFd(b.pid) {
					return a.pid, b.pid
				}
			}
		}
		time.Sleep(2 * time.Millisecond)
	}
	return 0, 0
}

// preExecOrphan: a process with the executable of a front-end, in this case's directory, holding a
// descriptor of a lock file (0 if none).  Called when every run of the case has ended.
func (w *world) preExecOrphan() int {
	ents, _ := os.ReadDir("/proc")
	for _, e := range ents {
		pid, err := strconv.Atoi(e.Name())
		if err != nil {
			continue
		}
		exe := exeOf(pid)
		if exe != w.bins["drc"] && exe != w.bins["do-approve"] {
			continue
		}
		if cwd, _ := os.Readlink(fmt.Sprintf("/proc/%d/cwd", pid)); !strings.HasPrefix(cwd, w.dir) {
			continue
		}
		if holdsLockFd(pid) {
			return pid
		}
	}
	return 0
}

// modelRefuses: does the model of the unchanged code, run on that schedule, turn process k away?
// Caller holds r.mu.
func (r *runner) modelRefuses(specs, sched string, k int) bool {
	ans := r.ask("run\t" + specs + "\t" + sched)
	for _, kv := range strings.Split(ans, ";") {
		if v, ok := strings.CutPrefix(kv, "procs="); ok {
			l := strings.Split(v, ",")
			return k < len(l) && strings.HasPrefix(l[k], "L")
		}
	}
	return false
}

// callSetLock calls the real device.SetLock through reflection, so that a change of its parameter
// list (an added flag, say) does not stop this harness from building — the real processes are
// what judges such a change; extra parameters get their zero value here.
func callSetLock(arg string, cfg *program.Config) (*os.File, error) {
	f := reflect.ValueOf(device.SetLock)
	t := f.Type()
	in := make([]reflect.Value, t.NumIn())
	for i := range in {
		switch {
		case i == 0 && t.In(i).Kind() == reflect.String:
			in[i] = reflect.ValueOf(arg)
		case t.In(i) == reflect.TypeOf(cfg):
			in[i] = reflect.ValueOf(cfg)
		default:
			in[i] = reflect.Zero(t.In(i))
		}
	}
	out := f.Call(in)
	var fh *os.File
	var err error
	for _, o := range out {
		switch v := o.Interface().(type) {
		case *os.File:
			fh = v
		case error:
			err = v
		}
	}
	return fh, err
}

func holdsLockFd(pid int) bool {
	ents, _ := os.ReadDir(fmt.Sprintf("/proc/%d/fd", pid))
	for _, e := range ents {
		if t, err := os.Readlink(fmt.Sprintf("/proc/%d/fd/%s", pid, e.Name())); err == nil && strings.Contains(t, "/lock/") {
			return true
		}
	}
	return false
}

// checkEarly: a run that ends by an early return (usage error, -h, -v, unknown device) never reaches
// the lock: no `Approve in progress`, no session, exit 0 or 1 (files: snapshot of the caller).
func (r *runner) checkEarly(c c12Case, w *world, p *proc) {
	if strings.Contains(p.stderr.String(), "Approve in progress") || (p.exit != 0 && p.exit != 1) {
		r.fail("early_return_wrong", fmt.Sprintf("run %d (%s): exit=%d stderr=%q", p.id, p.v, p.exit, p.stderr.String()), c, nil)
	}
	for _, s := range w.sessions() {
		if s.id == p.id {
			r.fail("early_return_talked_to_device", fmt.Sprintf("run %d (%s) opened a device session", p.id, p.v), c, nil)
		}
	}
}

// timeline: all simulator events and process lifetimes in microseconds since the first event (diagnostics).
func (w *world) timeline() string {
	evs := w.events()
	if len(evs) == 0 {
		return "no events"
	}
	t0 := evs[0].t
	for _, p := range w.procs {
		if p.start.UnixNano() < t0 {
			t0 = p.start.UnixNano()
		}
	}
	var b strings.Builder
	for _, p := range w.procs {
		fmt.Fprintf(&b, "proc %d [%d..%d us] killed=%v exit=%d; ", p.id, (p.start.UnixNano()-t0)/1000, (p.end.UnixNano()-t0)/1000, p.killed, p.exit)
	}
	for _, e := range evs {
		fmt.Fprintf(&b, "%d:%s%d@%d ", e.id, e.kind, e.n, (e.t-t0)/1000)
	}
	return b.String()
}

// checkOverlap: sessions for one device must be disjoint in time.
func (r *runner) checkOverlap(c c12Case, w *world) {
	ss := w.sessions()
	for i := range ss {
		for j := i + 1; j < len(ss); j++ {
			a, b := ss[i], ss[j]
			if a.dev == b.dev && a.talked && b.talked && a.from < b.to && b.from < a.to {
				r.fail("overlapping_sessions",
					fmt.Sprintf("runs %d and %d both had a session with device %s at the same time; %s", a.id, b.id, a.dev, w.timeline()), c, nil)
			}
		}
	}
}

// checkHistory: per device, the history lines of different runs form disjoint consecutive blocks,
// each START, POLICY, END (a killed run may stop early).
func (r *runner) checkHistory(c c12Case, w *world) {
	_, per := w.history()
	for d, lines := range per {
		seen := map[string]bool{}
		cur := ""
		var block []string
		flush := func() {
			if cur == "" {
				return
			}
			id, _ := strconv.Atoi(cur)
			want := []string{"START", "POLICY", "END"}
			ok := len(block) <= 3
			for i := range block {
				if i < 3 && block[i] != want[i] {
					ok = false
				}
			}
			if ok && len(block) < 3 && !(id < len(w.procs) && w.procs[id].killed) {
				ok = false
			}
			if !ok {
				r.fail("history_block_malformed", fmt.Sprintf("history of %s: run %s wrote %v", d, cur, block), c, nil)
			}
		}
		for _, l := range lines {
			id, tag, _ := strings.Cut(l, ":")
			if id != cur {
				flush()
				if seen[id] {
					r.fail("history_interleaved", fmt.Sprintf("history of %s has interleaved lines of different runs: %v", d, lines), c, nil)
				}
				seen[id] = true
				cur, block = id, nil
			}
			block = append(block, tag)
		}
		flush()
	}
}

func (r *runner) ask(line string) string { return r.drv.Ask(line) }

// reach asks the model for all outcome vectors; the answer depends only on the front-ends and on
// which arguments share a lock file, so it is cached on the request text. Caller holds r.mu.
func (r *runner) reach(specs, kills string) string {
	key := specs + "\t" + kills
	if a, ok := r.reachCache[key]; ok {
		return a
	}
	a := r.ask("reach\t" + key)
	r.reachCache[key] = a
	return a
}

func specsOf(invs []inv) string {
	var l []string
	for _, v := range invs {
		l = append(l, v.spec())
	}
	return strings.Join(l, "|")
}

// runCase executes one case in its own directory.
func (r *runner) runCase(c c12Case) {
	r.mu.Lock()
	r.caseNo++
	dir := filepath.Join(r.tmp, fmt.Sprintf("c%d", r.caseNo))
	r.mu.Unlock()
	rng := NewRNG(c.Seed)
	cx := r.fixBase(c, dir) // absolute spellings need the directory
	w := newWorld(dir, r.self, r.bins, rng)
	defer os.RemoveAll(dir)
	defer r.flush(c, w)
	long := 12 * time.Second
	var sched []string
	exact := true
	hung := func(p *proc) {
		w.kill(p)
		r.fail("run_hangs", fmt.Sprintf("run %d (%s) did not end", p.id, p.v), c, nil)
	}
	switch c.Kind {
	case "gated-contend":
		// Invs[0] holder, Invs[1..n-2] contenders for the same device, optional other-device run,
		// last: a run after the holder has finished.
		h := w.start(cx.Invs[0], c.Phase, 0)
		if !w.waitAt(h, long) {
			hung(h)
			return
		}
		sched = append(sched, "S0")
		before := w.quiescent()
		var cs []*proc
		last := len(cx.Invs) - 1
		for i := 1; i < last; i++ {
			p := w.start(cx.Invs[i], -1, 0)
			cs = append(cs, p)
			if p.v.IsEarly {
				sched = append(sched, fmt.Sprintf("X%d", 10*p.id+p.v.EarlyK))
			} else {
				sched = append(sched, fmt.Sprintf("R%d", p.id))
			}
			if !c.Par || cx.Invs[i].Dev != cx.Invs[0].Dev {
				if !p.wait(long) {
					hung(p)
					return
				}
			}
		}
		for _, p := range cs {
			if !p.wait(long) {
				hung(p)
				return
			}
		}
		after := w.snapshot()
		otherRan := false
		for _, p := range cs {
			if p.v.IsEarly {
				r.checkEarly(c, w, p)
			} else if p.v.Dev == h.v.Dev {
				r.checkLoser(c, w, p)
			} else {
				otherRan = true
			}
		}
		if !otherRan {
			if d := diffSnap(before, after); len(d) > 0 {
				r.fail("loser_wrote_files", fmt.Sprintf("losing runs changed %v while the holder was parked", d), c, nil)
			}
		} else {
			// only files of the other device may differ
			for _, f := range diffSnap(before, after) {
				if !strings.Contains(f, "other") && !strings.HasSuffix(f, "/") {
					r.fail("loser_wrote_files", fmt.Sprintf("losing runs changed %s while the holder was parked", f), c, nil)
				}
			}
		}
		w.release(h)
		if !h.wait(long) {
			hung(h)
			return
		}
		sched = append(sched, "R0")
		f := w.start(cx.Invs[last], -1, 0)
		if !f.wait(long) {
			hung(f)
			return
		}
		sched = append(sched, fmt.Sprintf("R%d", f.id))
		if f.exit != 0 || strings.Contains(f.stderr.String(), "Approve in progress") {
			r.fail("lock_not_released_after_exit", fmt.Sprintf("run %d (%s) after the holder's exit: exit=%d stderr=%q", f.id, f.v, f.exit, f.stderr.String()), c, nil)
		}
	case "gated-kill":
		// Invs[0] holder (killed while parked), Invs[1] optional contender before the kill (Par), then runs after.
		// The holder's child (the simulator, standing for ssh) outlives it for a while: the lock must
		// be free all the same, because the child has no descriptor of the lock file.
		w.lingerMS = 150
		h := w.start(cx.Invs[0], c.Phase, 0)
		if !w.waitAt(h, long) {
			hung(h)
			return
		}
		sched = append(sched, "S0")
		next := 1
		if c.Par {
			before := w.quiescent()
			p := w.start(cx.Invs[1], -1, 0)
			if !p.wait(long) {
				hung(p)
				return
			}
			r.checkLoser(c, w, p)
			if d := diffSnap(before, w.snapshot()); len(d) > 0 {
				r.fail("loser_wrote_files", fmt.Sprintf("the losing run changed %v while the holder was parked", d), c, nil)
			}
			sched = append(sched, "R1")
			next = 2
		}
		w.kill(h)
		w.lingerMS = 0
		sched = append(sched, "k0")
		for i := next; i < len(cx.Invs); i++ {
			p := w.start(cx.Invs[i], -1, 0)
			if !p.wait(long) {
				hung(p)
				return
			}
			sched = append(sched, fmt.Sprintf("R%d", p.id))
			if p.exit != 0 || strings.Contains(p.stderr.String(), "Approve in progress") {
				r.fail("lock_not_released_after_kill", fmt.Sprintf("run %d (%s) after SIGKILL of the holder: exit=%d stderr=%q", p.id, p.v, p.exit, p.stderr.String()), c, nil)
			}
		}
	case "post-session":
		// Invs[0] holder `do-approve compare` of a device that differs from Netspoc's configuration, its
		// stdout a pipe that is full and that nobody reads: after the device session it blocks printing
		// `comp: *** device changed ***` — before RES:/END: are appended to the history and before the
		// status file is read, modified and written.  Invs[1..n-2] contenders started in that phase,
		// judged as in every other phase; then the pipe is read, the holder finishes; last: a run after it.
		w.makeDiff()
		w.fullPipe = true
		h := w.start(cx.Invs[0], -1, 0)
		defer h.drain()
		sessionOver := func() bool {
			for _, e := range w.events() {
				if e.id == h.id && (e.kind == "BYE" || e.kind == "END") {
					return true
				}
			}
			return false
		}
		for i := 0; i < 12000 && !sessionOver(); i++ {
			select {
			case <-h.done:
				i = 12000
			default:
				time.Sleep(time.Millisecond)
			}
		}
		before := w.quiescent()
		select {
		case <-h.done:
			// the holder did not block: no post-session phase to test (e.g. nothing was printed)
			r.fail("holder_did_not_block_on_stdout", fmt.Sprintf("run 0 (%s) ended although nobody reads its output: exit=%d stderr=%q", h.v, h.exit, h.stderr.String()), c, nil)
			return
		default:
		}
		if !sessionOver() {
			hung(h)
			return
		}
		sched = append(sched, "P0")
		var cs []*proc
		last := len(cx.Invs) - 1
		for i := 1; i < last; i++ {
			p := w.start(cx.Invs[i], -1, 0)
			cs = append(cs, p)
			if p.v.IsEarly {
				sched = append(sched, fmt.Sprintf("X%d", 10*p.id+p.v.EarlyK))
			} else {
				sched = append(sched, fmt.Sprintf("R%d", p.id))
			}
			if !c.Par {
				if !p.wait(long) {
					hung(p)
					return
				}
			}
		}
		for _, p := range cs {
			if !p.wait(long) {
				hung(p)
				return
			}
		}
		select {
		case <-h.done:
			r.fail("holder_did_not_block_on_stdout", fmt.Sprintf("run 0 (%s) ended while the contenders ran although nobody reads its output", h.v), c, nil)
			return
		default:
		}
		after := w.snapshot()
		for _, p := range cs {
			if p.v.IsEarly {
				r.checkEarly(c, w, p)
			} else {
				r.checkLoser(c, w, p)
			}
		}
		if d := diffSnap(before, after); len(d) > 0 {
			r.fail("loser_wrote_files", fmt.Sprintf("runs started after the holder's device session, while it had still to write history and status, changed %v", d), c, nil)
		}
		h.drain()
		if !h.wait(long) {
			hung(h)
			return
		}
		sched = append(sched, "R0")
		f := w.start(cx.Invs[last], -1, 0)
		if !f.wait(long) {
			hung(f)
			return
		}
		sched = append(sched, fmt.Sprintf("R%d", f.id))
		if f.exit != 0 || strings.Contains(f.stderr.String(), "Approve in progress") {
			r.fail("lock_not_released_after_exit", fmt.Sprintf("run %d (%s) after the holder's exit: exit=%d stderr=%q", f.id, f.v, f.exit, f.stderr.String()), c, nil)
		}
		r.mu.Lock()
		r.res.Count("holder-blocked-post-session")
		r.mu.Unlock()
	case "fork-window":
		// F-C12a, directed: Invs[0] the holder, run under strace with every execve entry delayed, so that
		// the child it forks for its session stays between fork and exec for a while; SIGKILL of the
		// holder in that window; Invs[1] right after (no run exists any more); Invs[2] after the
		// child's exec.
		var h *proc
		parent, child := 0, 0
		for try := 0; try < 3 && parent == 0; try++ { // (no verdict exists yet: trying again replaces nothing)
			if h != nil {
				w.kill(h)
				w.procs = w.procs[:0]
				os.Remove(w.eventLog)
			}
			w.wrap = []string{"strace", "-f", "-o", "/dev/null", "-e", "trace=execve", "-e", "inject=execve:delay_enter=1500000"}
			h = w.start(cx.Invs[0], -1, 0)
			w.wrap = nil
			parent, child = w.forkWindow(h, 6*time.Second)
		}
		if parent == 0 {
			// no strace, ptrace not permitted, or the window was missed: nothing observed, nothing claimed
			w.kill(h)
			r.mu.Lock()
			r.res.Count("fork-window:not-reproduced")
			r.mu.Unlock()
			return
		}
		syscall.Kill(parent, syscall.SIGKILL)
		for i := 0; i < 2000 && procState(parent) != "" && procState(parent) != "Z"; i++ {
			time.Sleep(time.Millisecond)
		}
		h.killed = true
		sched = append(sched, "F0", "k0")
		bothHeld := holdsLockFd(child) // (forkWindow saw both holding it; the parent is gone now)
		before := w.snapshot()
		c1 := w.start(cx.Invs[1], -1, 0)
		if !c1.wait(long) {
			hung(c1)
			return
		}
		after := w.snapshot()
		stillWindow := exeOf(child) == w.bins[cx.Invs[0].Front] && holdsLockFd(child)
		lost1 := c1.exit != 0 && strings.Contains(c1.stderr.String(), "Approve in progress")
		if stillWindow || lost1 {
			sched = append(sched, "R1", "c0")
		} else {
			// (slow machine) the child reached its exec before run 1 reached its flock
			sched = append(sched, "c0", "R1")
			r.mu.Lock()
			r.res.Count("fork-window:closed-before-contender")
			r.mu.Unlock()
		}
		if lost1 {
			// the finding is pinned to this schedule: observed = the dead holder's child, not yet exec'ed,
			// holds a descriptor of the lock file before (and after) the refused run; predicted = the model
			// of the unchanged code, run on F0,k0,R1, turns run 1 away
			window := "closed-during-run"
			if stillWindow {
				window = "open-throughout"
			}
			r.mu.Lock()
			pred := r.modelRefuses(specsOf([]inv{cx.Invs[0], cx.Invs[1]}), "F0,k0,R1", 1)
			r.mu.Unlock()
			r.fail("lock_outlives_killed_holder_until_child_execs",
				fmt.Sprintf("the holder (pid %d) was SIGKILLed while its child (pid %d) was between fork and exec; run 1 (%s), started when no run existed any more, was turned away: %q",
					parent, child, c1.v, c1.stderr.String()), c,
				map[string]any{"child_pre_exec_holds_lock_fd": bothHeld, "window": window, "model_schedule": "F0,k0,R1", "model_predicts": pred})
			r.checkLoser(c, w, c1) // message, exit status, no session, and: at once
			if d := diffSnap(before, after); len(d) > 0 {
				r.fail("loser_wrote_files", fmt.Sprintf("the refused run changed %v", d), c, nil)
			}
		}
		// wait for the child's exec: the orphaned simulator announces itself (and sees EOF)
		for i := 0; i < 5000; i++ {
			seen := false
			for _, e := range w.events() {
				if e.id == 0 && e.kind == "START" {
					seen = true
				}
			}
			if seen || procState(child) == "" {
				break
			}
			time.Sleep(time.Millisecond)
		}
		time.Sleep(20 * time.Millisecond)
		c2 := w.start(cx.Invs[2], -1, 0)
		if !c2.wait(long) {
			hung(c2)
			return
		}
		sched = append(sched, "R2")
		if c2.exit != 0 {
			r.fail("lock_not_released_after_death", fmt.Sprintf("run 2 (%s) after the exec of the dead holder's child: exit=%d stderr=%q",
				c2.v, c2.exit, c2.stderr.String()), c, nil)
		}
		h.wait(long)
		h.killed = true
	case "timed", "timed-kill":
		exact = false
		t0 := time.Now()
		var ps []*proc
		killDone := false
		for i, v := range cx.Invs {
			at := t0.Add(time.Duration(c.Offsets[i]) * time.Microsecond)
			if c.Kind == "timed-kill" && !killDone && c.KillAt <= c.Offsets[i] && len(ps) > 0 {
				time.Sleep(time.Until(t0.Add(time.Duration(c.KillAt) * time.Microsecond)))
				w.kill(ps[0])
				killDone = true
			}
			time.Sleep(time.Until(at))
			ps = append(ps, w.start(v, -1, c.DelayUS))
		}
		if c.Kind == "timed-kill" && !killDone {
			time.Sleep(time.Until(t0.Add(time.Duration(c.KillAt) * time.Microsecond)))
			select {
			case <-ps[0].done: // already over: nothing to kill
			default:
				w.kill(ps[0])
			}
		}
		for _, p := range ps {
			if !p.wait(long) {
				hung(p)
				return
			}
		}
		// every run is a clean winner, a clean loser, or was killed
		for _, p := range ps {
			if p.killed {
				continue
			}
			lost := strings.Contains(p.stderr.String(), "Approve in progress")
			if lost {
				r.checkLoser(c, w, p)
			} else if p.exit != 0 {
				r.fail("winner_failed", fmt.Sprintf("run %d (%s): exit=%d stderr=%q", p.id, p.v, p.exit, p.stderr.String()), c, nil)
			}
		}
		// after everything is over the lock must be free again
		// F-C12a can strike here by chance: every run of the case is over, so a process that still has
		// the executable of a front-end, lives in this case's directory and holds a descriptor of a lock
		// file can only be the not yet exec'ed child of the killed holder.  Looked for BEFORE the
		// final run; the verdict on that run is never revised by a re-run.
		orphan := 0
		if c.Kind == "timed-kill" {
			orphan = w.preExecOrphan()
		}
		f := w.start(cx.Invs[0], -1, 0)
		if !f.wait(long) {
			hung(f)
			return
		}
		if f.exit != 0 && orphan != 0 && strings.Contains(f.stderr.String(), "Approve in progress") {
			r.mu.Lock()
			pred := r.modelRefuses(specsOf([]inv{cx.Invs[0], cx.Invs[0]}), "F0,k0,R1", 1)
			r.mu.Unlock()
			r.fail("lock_outlives_killed_holder_until_child_execs",
				fmt.Sprintf("after SIGKILL of the holder its child (pid %d), not yet exec'ed, held the lock descriptor; the run started then was turned away although no run existed; %s", orphan, w.timeline()), c,
				map[string]any{"child_pre_exec_holds_lock_fd": true, "window": "orphan-seen-before-run", "model_schedule": "F0,k0,R1", "model_predicts": pred})
		} else if f.exit != 0 {
			r.fail("lock_not_released_after_death", fmt.Sprintf("run %d (%s) after all others ended: exit=%d stderr=%q; %s", f.id, f.v, f.exit, f.stderr.String(), w.timeline()), c, nil)
		}
	}
	if w.envTrouble() != "" {
		return // counted and discarded by flush
	}
	r.checkOverlap(c, w)
	for _, e := range w.events() {
		if e.kind == "ORPHAN" {
			r.mu.Lock()
			r.res.Count("child-outlived-killed-parent")
			r.mu.Unlock()
		}
	}
	for _, p := range w.procs {
		if p.v.IsEarly {
			r.mu.Lock()
			r.res.Count(fmt.Sprintf("early-return:%s/%d", p.v.Front, p.v.EarlyK))
			r.mu.Unlock()
		}
	}
	for _, e := range w.events() {
		if e.kind == "FDLEAK" {
			r.fail("child_inherited_lock_fd", fmt.Sprintf("the device-session child of run %d has a descriptor of the lock file", e.id), c, nil)
			break
		}
	}
	r.checkHistory(c, w)

	// ---- the model on the same schedule
	invs := make([]inv, len(w.procs))
	for i, p := range w.procs {
		invs[i] = p.v
	}
	obs := w.observed()
	r.mu.Lock()
	defer r.mu.Unlock()
	r.res.Eval(c.canon(), len(w.procs) >= 2)
	r.res.Count("kind:" + c.Kind)
	r.res.Count(fmt.Sprintf("procs:%d", len(w.procs)))
	r.res.Count("outcome:" + w.procVec(true))
	for _, p := range w.procs {
		r.res.Count("front:" + p.v.Front + "/" + p.v.Action)
	}
	if exact {
		r.res.Count(fmt.Sprintf("parked-at-phase:%02d", c.Phase))
		ans := r.ask("run\t" + specsOf(invs) + "\t" + strings.Join(sched, ","))
		model := w.modelObserved(ans)
		r.res.TracesVsImpl++
		if model != obs {
			r.res.Disagree("c12 exact schedule "+strings.Join(sched, ","), c, obs, model)
		}
		if len(r.res.Samples) < 3 {
			r.res.Sample(map[string]any{"case": c.canon(), "schedule": strings.Join(sched, ","), "real": obs, "model": model})
		}
	} else {
		kills := ""
		if c.Kind == "timed-kill" {
			kills = "0"
		}
		n := len(cx.Invs)
		ans := r.reach(specsOf(invs[:n]), kills)
		vec := strings.Join(strings.Split(w.procVec(true), ",")[:n], ",")
		ok := false
		for _, v := range strings.Fields(ans) {
			var l []string
			for _, s := range strings.Split(v, ",") {
				if strings.HasSuffix(s, "K*") {
					s = "K*"
				}
				l = append(l, s)
			}
			if strings.Join(l, ",") == vec {
				ok = true
			}
		}
		r.res.TracesVsImpl++
		if !ok {
			r.res.Disagree("c12 reachable outcome vectors", c, vec, ans)
		}
		if c.Kind == "timed" && len(r.res.Samples) < 5 && len(r.res.Samples) >= 3 {
			r.res.Sample(map[string]any{"case": c.canon(), "real": obs, "model_reachable": ans})
		}
	}
}

func (r *runner) genCase(rng *RNG) c12Case {
	c := c12Case{Seed: rng.Next()}
	dev := "dev"
	same := func() inv { return genInv(rng, dev, "BASE") }
	switch k := rng.Intn(112); {
	case k >= 100:
		c.Kind = "post-session"
		c.Invs = []inv{{Front: "do-approve", Action: "compare", Dev: dev, Arg: dev, Cwd: Pick(rng, []string{".", "policies"})}}
		n := 1 + rng.Intn(3)
		for i := 0; i < n; i++ {
			c.Invs = append(c.Invs, loserSpelling(rng, same()))
		}
		if rng.Chance(25) {
			c.Invs = append(c.Invs, genEarly(rng, dev))
		}
		c.Par = rng.Chance(35)
		fin := same()
		fin.Front, fin.Action, fin.LogDir = "drc", "compare", false // (a compare of a DIFF device by do-approve leaves the status file alone)
		if fin.Arg == dev && fin.Cwd != "policies/p1/code" {
			fin.Arg, fin.Cwd = "policies/current/code/"+dev, "."
		}
		c.Invs = append(c.Invs, fin)
	case k < 38:
		c.Kind = "gated-contend"
		c.Phase = rng.Intn(r.phases) // (the final `exit` is not counted: it is not awaited)
		c.Invs = []inv{same()}
		n := 1 + rng.Intn(2)
		for i := 0; i < n; i++ {
			c.Invs = append(c.Invs, loserSpelling(rng, same()))
		}
		if rng.Chance(30) {
			c.Invs = append(c.Invs, genEarly(rng, dev))
		}
		if rng.Chance(35) {
			c.Invs = append(c.Invs, genInv(rng, "other", "BASE"))
		}
		c.Par = rng.Chance(40)
		c.Invs = append(c.Invs, same())
	case k < 60:
		c.Kind = "gated-kill"
		c.Phase = rng.Intn(r.phases)
		c.Par = rng.Chance(50)
		c.Invs = []inv{same(), same()}
		if c.Par {
			c.Invs[1] = loserSpelling(rng, c.Invs[1])
		}
		if c.Par || rng.Chance(40) {
			c.Invs = append(c.Invs, same())
		}
	case k < 85:
		c.Kind = "timed"
		c.DelayUS = 300 + rng.Intn(2500)
		total := 25000 + c.DelayUS*r.phases
		n := 2 + rng.Intn(2)
		for i := 0; i < n; i++ {
			c.Invs = append(c.Invs, same())
			off := 0
			if i > 0 {
				off = rng.Intn(total * 13 / 10)
			}
			c.Offsets = append(c.Offsets, off)
		}
		sort.Ints(c.Offsets)
	default:
		c.Kind = "timed-kill"
		c.DelayUS = 300 + rng.Intn(2500)
		total := 25000 + c.DelayUS*r.phases
		n := 2 + rng.Intn(2)
		for i := 0; i < n; i++ {
			c.Invs = append(c.Invs, same())
			off := 0
			if i > 0 {
				off = rng.Intn(total * 13 / 10)
			}
			c.Offsets = append(c.Offsets, off)
		}
		sort.Ints(c.Offsets)
		c.KillAt = rng.Intn(total)
	}
	return c
}

// fixBase replaces the placeholder of absolute spellings (the directory is known only at run time).
func (r *runner) fixBase(c c12Case, dir string) c12Case {
	invs := append([]inv{}, c.Invs...)
	for i := range invs {
		invs[i].Arg = strings.Replace(invs[i].Arg, "BASE", dir, 1)
	}
	c.Invs = invs
	return c
}

func build(repo, tmp, name string) (string, error) {
	bin := filepath.Join(tmp, name)
	cmd := exec.Command("go", "build", "-o", bin, "./cmd/"+name)
	cmd.Dir = filepath.Join(repo, "go")
	if out, err := cmd.CombinedOutput(); err != nil {
		return "", fmt.Errorf("%v\n%s", err, out)
	}
	return bin, nil
}

var baseAlphabet = []string{"a", "b", "dev", "/", "/", ".", "..", "-", "é", "ipv6", "code", " "}

func genPath(rng *RNG) string {
	n := rng.Intn(8)
	var b strings.Builder
	for i := 0; i < n; i++ {
		b.WriteString(Pick(rng, baseAlphabet))
	}
	return b.String()
}

func run(ctx *Ctx) *Result {
	res := NewResult()
	res.Rule = "process cases: 2–5 real drc/do-approve processes for one simulated ASA (seeded: front-end, approve/compare, " +
		"7 spellings of the device, -L, pre-existing lock/history/status dirs): holder parked at a random phase of its session " +
		"with 1–2 contenders (sequential or simultaneous), optional run for another device, holder SIGKILLed while parked, " +
		"un-gated runs started at random offsets with random SIGKILL; non-trivial = at least two processes for the same device, " +
		"distinct by kind+phase+offsets+invocations. Plus a differential test of path.Base (counted separately under base:*)"
	res.Assumptions = []string{"flock(2) of the kernel this runs on", "timed cases depend on the scheduler of this machine; gated cases do not"}
	tmp, err := os.MkdirTemp("", "vh-c12-")
	if err != nil {
		panic(err)
	}
	defer os.RemoveAll(tmp)
	self, _ := os.Executable()
	r := &runner{ctx: ctx, res: res, tmp: tmp, self: self, bins: map[string]string{}, reachCache: map[string]string{}, pending: map[uint64][]pendingFail{}, known: loadKnown(ctx.Verif)}
	for _, n := range []string{"drc", "do-approve"} {
		b, err := build(ctx.Repo, tmp, n)
		if err != nil {
			res.Disagree("build "+n, nil, err.Error(), "")
			return res
		}
		r.bins[n] = b
	}
	r.drv = ctx.StartNadrv("c12")
	defer r.drv.Close()

	if ctx.Replay != "" {
		var arg string
		if err := ReadReplay(ctx.Replay, &arg); err == nil {
			bd := filepath.Join(tmp, "lk")
			os.MkdirAll(bd, 0755)
			fh, err := callSetLock(arg, &program.Config{BaseDir: bd})
			real := fmt.Sprint(err)
			if fh != nil {
				real = fh.Name()
				fh.Close()
			}
			res.Eval("lock:"+arg, false)
			if model := r.ask("lock\t" + bd + "\t" + arg); real != model {
				res.Disagree("c12 lock file derivation (device.SetLock)", arg, real, model)
			}
			if path.Base(arg) == "dev" && real != bd+"/lock/dev" {
				res.Fail(map[string]any{"pred": "spelling_gets_other_lock_file"},
					fmt.Sprintf("device.SetLock(%q) locks %s, not %s/lock/dev", arg, real, bd), arg)
			}
			return res
		}
		var c c12Case
		if err := ReadReplay(ctx.Replay, &c); err != nil {
			fmt.Fprintln(os.Stderr, err)
			os.Exit(2)
		}
		r.runCase(c)
		return res
	}

	// ---- path.Base: Lean transcription against the real function
	nb := ctx.N(1000, 20000)
	baseCorpus := []string{"", "/", "//", "dev", "dev/", "a/b", "a/b/", "/a", "policies/current/code/dev", "code/ipv6/dev",
		"code//dev", ".", "..", "a/.", "é/é", " /x "}
	for i := 0; i < nb+len(baseCorpus); i++ {
		var s string
		if i < len(baseCorpus) {
			s = baseCorpus[i]
		} else {
			s = genPath(ctx.Rng)
		}
		want := path.Base(s)
		got := r.ask("base\t" + s)
		res.Eval("base:"+s, false)
		res.Count("base:compared")
		if strings.Contains(s, "/") {
			res.Count("base:with-slash")
		}
		if got != want {
			res.Disagree("c12 path.Base", s, want, got)
		}
	}

	// ---- lock file derivation: the real device.SetLock against the model's lockPath
	{
		bd := filepath.Join(tmp, "lk")
		os.MkdirAll(bd, 0755)
		cfg := &program.Config{BaseDir: bd}
		nl := ctx.N(300, 6000)
		corpus := []string{"dev", "dev/", "dev//", "policies/current/code/dev", "/abs/policies/p1/code/ipv6/dev", "code/./dev",
			"code/../code/dev/", "//x//dev", "", ".", "..", "/", "///", "a/..", "a/.", "a/../", "./", "../dev", "dev/..", "é", "a b/c d"}
		// bounded-exhaustive: all strings of length <= 4 over {d, /, .}
		alpha := []string{"d", "/", "."}
		var all func(prefix string, n int)
		all = func(prefix string, n int) {
			corpus = append(corpus, prefix)
			if n == 0 {
				return
			}
			for _, a := range alpha {
				all(prefix+a, n-1)
			}
		}
		all("", ctx.N(3, 5))
		for i := 0; i < nl+len(corpus); i++ {
			var s string
			if i < len(corpus) {
				s = corpus[i]
			} else {
				s = genPath(ctx.Rng)
				if ctx.Rng.Chance(50) {
					s += Pick(ctx.Rng, []string{"dev", "dev/", "/dev", "/dev//", "/ipv6/dev"})
				}
			}
			var fh *os.File
			var err error
			panicked := ""
			func() {
				defer func() {
					if e := recover(); e != nil {
						panicked = fmt.Sprint(e)
					}
				}()
				fh, err = callSetLock(s, cfg)
			}()
			if panicked != "" {
				res.Disagree("c12 lock file derivation (device.SetLock)", s, "panic: "+panicked, r.ask("lock\t"+bd+"\t"+s))
				continue
			}
			real := ""
			if fh != nil {
				real = fh.Name()
				fh.Close()
			} else if pe, ok := err.(*fs.PathError); ok {
				real = pe.Path
			} else {
				// the error does not say which file: nothing to compare for this argument
				res.Count("lockpath:unobservable")
				continue
			}
			model := r.ask("lock\t" + bd + "\t" + s)
			res.Eval("lock:"+s, false)
			res.Count("lockpath:compared")
			if path.Base(s) == "dev" {
				res.Count("lockpath:spelling-of-dev")
				if real != bd+"/lock/dev" {
					res.Fail(map[string]any{"pred": "spelling_gets_other_lock_file"},
						fmt.Sprintf("device.SetLock(%q) locks %s, not %s/lock/dev", s, real, bd), s)
				}
			}
			if real != model {
				res.Disagree("c12 lock file derivation (device.SetLock)", s, real, model)
			}
		}
	}

	// ---- calibration: how many input lines has one session
	{
		var w *world
		var p *proc
		for try := 0; try < 3; try++ { // (a lone run failed once on a heavily loaded machine)
			w = newWorld(filepath.Join(tmp, fmt.Sprintf("cal%d", try)), self, r.bins, NewRNG(1))
			p = w.start(inv{Front: "do-approve", Action: "approve", Dev: "dev", Arg: "dev", Cwd: "."}, -1, 0)
			if p.wait(30*time.Second) && p.exit == 0 {
				break
			}
			res.Count("calibration-retry")
		}
		if !p.wait(30*time.Second) || p.exit != 0 {
			logData, _ := os.ReadFile(filepath.Join(w.dir, "policies/p1/log/dev.drc"))
			res.Disagree("calibration run", nil, fmt.Sprintf("exit=%d stderr=%s log=%s", p.exit, p.stderr.String(), logData), "")
			return res
		}
		for _, e := range w.events() {
			if e.kind == "CMD" {
				r.phases++
			}
		}
		res.Count(fmt.Sprintf("session-input-lines:%d", r.phases))
		if r.phases < 5 {
			res.Disagree("calibration run", nil, fmt.Sprintf("only %d input lines seen by the simulator", r.phases), "")
			return res
		}
	}

	// ---- cases: corpus, then seeded random; several at a time
	var cases []c12Case
	dv := func(front, action, arg, cwd string, l bool) inv {
		return inv{Front: front, Action: action, Dev: "dev", Arg: arg, Cwd: cwd, LogDir: l}
	}
	cases = append(cases,
		c12Case{Kind: "gated-contend", Phase: 3, Seed: 11, Invs: []inv{dv("do-approve", "approve", "dev", ".", false),
			dv("drc", "approve", "policies/current/code/dev", ".", true), dv("drc", "compare", "policies/p1/code/ipv6/dev", ".", false),
			dv("do-approve", "compare", "dev", ".", false)}},
		c12Case{Kind: "gated-contend", Phase: 0, Par: true, Seed: 12, Invs: []inv{dv("drc", "approve", "code/dev", "policies/p1", true),
			dv("do-approve", "approve", "dev", ".", false), dv("do-approve", "compare", "dev", ".", false),
			{Front: "do-approve", Action: "approve", Dev: "other", Arg: "other", Cwd: "."}, dv("drc", "compare", "dev", "policies/p1/code", false)}},
		c12Case{Kind: "gated-kill", Phase: 9, Par: true, Seed: 13, Invs: []inv{dv("do-approve", "compare", "dev", ".", false),
			dv("do-approve", "approve", "dev", ".", false), dv("drc", "approve", "policies/current/code/dev", ".", false)}},
		c12Case{Kind: "gated-kill", Phase: 1, Seed: 14, Invs: []inv{dv("drc", "approve", "policies/current/code/dev", ".", true),
			dv("do-approve", "approve", "dev", ".", false)}},
	)
	// the phase after the device session: holder blocked on its output before history and status are
	// complete; contenders of every kind and spelling
	pk := []inv{dv("do-approve", "approve", "dev", ".", false), dv("do-approve", "compare", "dev", "policies", false),
		dv("drc", "approve", "policies/current/code/dev", ".", true), dv("drc", "compare", "policies/p1/code/ipv6/dev", ".", false),
		dv("drc", "compare", "code/dev", "policies/p1", true), dv("do-approve", "compare", "dev/", ".", false)}
	for i := 0; i < ctx.N(3, 12); i++ {
		cases = append(cases, c12Case{Kind: "post-session", Seed: uint64(5000 + i), Par: i%3 == 2,
			Invs: []inv{dv("do-approve", "compare", "dev", ".", false), pk[i%6], pk[(i+2)%6], pk[(2*i+3)%6],
				dv("drc", "compare", "policies/current/code/dev", ".", false)}})
	}
	// F-C12a, directed (needs strace): holder killed while its child is between fork and exec
	nfw := ctx.N(2, 6)
	if v, err := strconv.Atoi(os.Getenv("VH_C12_FORKWINDOW")); err == nil && v > 0 {
		nfw = v // (experiments: many known failures must not stop the remaining cases)
	}
	for i := 0; i < nfw; i++ {
		hk := []inv{dv("do-approve", "approve", "dev", ".", false), dv("drc", "compare", "policies/current/code/dev", ".", true)}[i%2]
		cases = append(cases, c12Case{Kind: "fork-window", Seed: uint64(4000 + i), Invs: []inv{hk,
			dv("drc", "approve", "policies/p1/code/ipv6/dev", ".", false), dv("do-approve", "compare", "dev", ".", false)}})
	}
	// bounded-exhaustive: every phase of the session x kind of holder x kind of contender x {contend, kill}
	// (thorough: all 4x4 pairs; quick: one pair per phase, rotating)
	kinds := []inv{dv("do-approve", "approve", "dev", ".", false), dv("do-approve", "compare", "dev", ".", false),
		dv("drc", "approve", "policies/current/code/dev", ".", true), dv("drc", "compare", "policies/p1/code/ipv6/dev", ".", false)}
	nEx := 0
	for ph := 0; ph < r.phases; ph++ {
		for hi, h := range kinds {
			for ci, c := range kinds {
				if !ctx.Thorough() && (hi != ph%4 || ci != (ph/4+hi+1)%4) {
					continue
				}
				cases = append(cases,
					c12Case{Kind: "gated-contend", Phase: ph, Seed: uint64(1000 + nEx), Invs: []inv{h, c, kinds[(ci+1)%4]}},
					c12Case{Kind: "gated-kill", Phase: ph, Par: true, Seed: uint64(2000 + nEx), Invs: []inv{h, c, kinds[(ci+2)%4]}})
				nEx += 2
			}
		}
	}
	// every early-return kind against both kinds of holder (all of them in both tiers: they are cheap)
	for ei, e := range earlyKinds {
		e.Dev, e.Arg, e.Cwd, e.Action = "dev", "dev", ".", "approve"
		for hi := 0; hi < 2; hi++ {
			h := kinds[2*hi]
			cases = append(cases, c12Case{Kind: "gated-contend", Phase: (3*ei + 5*hi) % r.phases, Seed: uint64(3000 + nEx),
				Invs: []inv{h, e, kinds[(ei+hi)%4], kinds[(ei+1)%4]}})
			nEx++
		}
	}
	res.Notes = append(res.Notes, fmt.Sprintf("bounded-exhaustive gated cases: %d (every input line of the session as parking point; every early-return path against a parked holder)", nEx))
	n := ctx.N(170, 5000)
	for i := 0; i < n; i++ {
		cases = append(cases, r.genCase(ctx.Rng.Fork()))
	}
	workers := runtime.NumCPU() / 2
	if workers > 8 {
		workers = 8
	}
	if workers < 2 {
		workers = 2
	}
	ch := make(chan c12Case)
	var wg sync.WaitGroup
	for i := 0; i < workers; i++ {
		wg.Add(1)
		go func() {
			defer wg.Done()
			for c := range ch {
				r.mu.Lock()
				stop := r.nFail >= 15 || len(r.res.Disagreements) >= 12
				r.mu.Unlock()
				if stop {
					continue // enough evidence of a broken property: do not spend the budget
				}
				r.runCase(c)
			}
		}()
	}
	for _, c := range cases {
		ch <- c
	}
	close(ch)
	wg.Wait()
	// floors and ceilings on what was left unjudged
	nCases := len(cases)
	if r.discarded > 5 && r.discarded*100 > 3*nCases {
		res.Disagree("c12 cases discarded for environment trouble", nil, fmt.Sprintf("%d of %d", r.discarded, nCases), "at most 3 %")
	}
	if len(r.loserDur) > 0 {
		sort.Slice(r.loserDur, func(i, j int) bool { return r.loserDur[i] < r.loserDur[j] })
		med := r.loserDur[len(r.loserDur)/2]
		res.Count(fmt.Sprintf("loser-duration-median-ms:%d", med.Milliseconds()))
		if med > 200*time.Millisecond {
			res.Disagree("c12 losers fail immediately (median duration of a losing run)", nil, med.String(), "at most 200ms")
		}
	}
	if res.Distribution["loser-timed"] < 30 && r.nFail < 15 {
		res.Disagree("c12 losers timed", nil, fmt.Sprint(res.Distribution["loser-timed"]), "at least 30")
	}
	if _, err := exec.LookPath("strace"); err == nil && r.nFail < 15 &&
		res.Distribution["fork-window:not-reproduced"] >= nfw {
		res.Disagree("c12 fork-window reproduction", nil, "not reproduced in any of the directed cases although strace is installed", "at least one")
	}
	return res
}
