package main

// C05 — Linux approve converges for static routes and iptables.
//
// Tie: every case is a pair of files (device, Netspoc target).  The REAL code runs in-process
// (`drc -q DEVICE TARGET` = drc.Main with an `.info` file naming model Linux) and the Lean model
// (`nadrv-c05 cmp`) answers the same pair; stdout, stderr and exit status are compared.  The only
// canonicalisation: where diffIPTables reports the first differing option in map order (F-C16d) the
// model lists every candidate line and the real line must be one of them; for more than 12 target
// routes (pdqsort is not stable) route lines are compared as a multiset.  Internal functions
// (normalizeIPTables, parseIPTables) are compared through verif-tagged exports.
//
// Oracle (specification side, Lean `nadrv-c05 oracle`): abstract device states and targets are
// generated here, spelled by the Lean specification (kernel spelling for the device, user spelling
// with random hints for the target), the script printed by the real code is executed on the Lean
// device semantics (strict `ip route add/del`, per-table iptables-restore), convergence and the
// step properties are tested, the resulting device is spelled again as the kernel prints it and the
// real code must report no change.

import (
	"bufio"
	"encoding/json"
	"fmt"
	"os"
	"path/filepath"
	"sort"
	"strconv"
	"regexp"
	"strings"
	"time"
	. "verifharness/vhlib"

	"github.com/hknutzen/Netspoc-Approve/go/pkg/drc"
	"github.com/hknutzen/Netspoc-Approve/go/pkg/errlog"
	"github.com/hknutzen/Netspoc-Approve/go/pkg/linux"
)

func main() {
	// the harness binary doubles as the simulated Linux host: pkg/linux runs `ssh -l USER IP` and
	// `scp -q SRC USER@IP:DST`; a directory at the head of PATH holds `ssh` and `scp` as links to this binary.
	// SIMULATE_ROUTER is NOT set, so the real putScp (exec of scp) runs and the host's files are observable.
	switch filepath.Base(os.Args[0]) {
	case "ssh":
		runSim(os.Getenv("VH_C05_SIM"), os.Args[1:])
		return
	case "scp":
		os.Exit(runScp(os.Getenv("VH_C05_SIM"), os.Args[1:]))
	}
	Main(map[string]PropFunc{"C05": runC05, "C10": runC10, "C14": runC14})
}

// C10 (Linux share): only the resume streams, with oracle predicates of their own.
var c10Mode bool

func runC10(ctx *Ctx) *Result {
	c10Mode = true
	return runC05(ctx)
}

// C14 (Linux share): only the route step-safety stream.
var c14Mode bool

func runC14(ctx *Ctx) *Result {
	c14Mode = true
	return runC05(ctx)
}

func predName(p string) string {
	if c10Mode {
		return "c10_" + p
	}
	return p
}

// ---------------------------------------------------------------- simulated Linux host (device path)

const (
	simUser  = "admin"
	simIP    = "10.1.13.33"
	pfFile   = "/etc/network/packet-filter"
	rtFile   = "/etc/network/routing"
	restorer = "/sbin/iptables-restore"
	oldPF    = "#!/sbin/iptables-restore\n# rules of the last boot (OLD)\n"
	oldRT    = "#!/bin/sh\n# routes of the last boot (OLD)\n"
)

type simState struct {
	Routes string `json:"routes"`  // output of `ip route show`
	Ipt    string `json:"ipt"`     // output of `iptables-save`
	FailAt int    `json:"fail_at"` // the session dies when the `ip route add|del` command with this index arrives (-1: never)
	Log    string `json:"log"`     // accepted changing commands (`ip route …`, chmod, the restore file, mv), one per line
	// the session dies when this arrives: which | chmod | exec | mv | echo-after-chmod | echo-after-exec | echo-after-mv;
	// scp-iptables | scp-routing: that copy fails (connection lost), the file is not written
	DieAt string `json:"die_at"`
	Fs    string `json:"fs"`     // root directory of the host's file system
	Loads string `json:"loads"`  // directory: one file per rule file the host executed (what the kernel was given)
}

func hostPath(st *simState, p string) (string, bool) {
	if !strings.HasPrefix(p, "/") || strings.Contains(p, "..") || strings.ContainsAny(p, " \t'\"") {
		return "", false
	}
	return filepath.Join(st.Fs, filepath.Clean(p)), true
}

// runScp: `scp -q SRC USER@IP:DST` copies into the host's file system (mode of a new file: 0644; an existing file keeps its mode).
func runScp(stateFile string, args []string) int {
	var st simState
	data, _ := os.ReadFile(stateFile)
	json.Unmarshal(data, &st)
	remote := simUser + "@" + simIP + ":"
	if len(args) != 3 || args[0] != "-q" || !strings.HasPrefix(args[2], remote) {
		fmt.Fprintln(os.Stderr, "scp: unexpected arguments", args)
		return 1
	}
	dst := strings.TrimPrefix(args[2], remote)
	if (st.DieAt == "scp-iptables" && strings.HasPrefix(dst, pfFile)) || (st.DieAt == "scp-routing" && dst == rtFile) {
		fmt.Fprintln(os.Stderr, "lost connection")
		return 1
	}
	hp, ok := hostPath(&st, dst)
	content, err := os.ReadFile(args[1])
	if !ok || err != nil {
		fmt.Fprintln(os.Stderr, "scp: cannot copy", args[1], dst)
		return 1
	}
	mode := os.FileMode(0644)
	if fi, err := os.Stat(hp); err == nil {
		mode = fi.Mode().Perm()
	}
	if _, err := os.Stat(filepath.Dir(hp)); err != nil {
		fmt.Fprintln(os.Stderr, "scp: "+dst+": No such file or directory")
		return 1
	}
	os.Remove(hp)
	if os.WriteFile(hp, content, mode) != nil {
		return 1
	}
	os.Chmod(hp, mode)
	return 0
}

// runSim speaks the dialogue pkg/linux expects over stdin/stdout (no pty: the host echoes itself).
// A small strict shell: unknown commands answer `command not found`; chmod / exec / mv act on the host's files.
func runSim(stateFile string, args []string) {
	var st simState
	data, _ := os.ReadFile(stateFile)
	json.Unmarshal(data, &st)
	in := bufio.NewReader(os.Stdin)
	out := bufio.NewWriter(os.Stdout)
	if len(args) != 3 || args[0] != "-l" || args[1] != simUser || args[2] != simIP {
		fmt.Fprintln(os.Stderr, "ssh: unexpected arguments", args)
		os.Exit(255)
	}
	out.WriteString("Linux router 5.10.0\r\nroot@router:~# ")
	out.Flush()
	nroute := 0
	nload := 0
	last := ""
	status := 0
	logCmd := func(l string) {
		if st.Log != "" {
			f, _ := os.OpenFile(st.Log, os.O_APPEND|os.O_CREATE|os.O_WRONLY, 0644)
			f.WriteString(l + "\n")
			f.Close()
		}
	}
	// pkg/linux never closes the session (CloseConnection is empty; drc normally just exits), and the
	// harness runs drc in-process: leave by ourselves when the dialogue is over, or the pty leaks
	idle := time.AfterFunc(20*time.Second, func() { os.Exit(0) })
	for {
		line, err := in.ReadString('\n')
		if err != nil {
			return
		}
		idle.Reset(4 * time.Second)
		line = strings.TrimRight(line, "\r\n")
		if line == "exit" {
			return
		}
		resp := ""
		kind := ""
		words := strings.Fields(line)
		switch {
		case line == "which iptables-restore":
			kind = "which"
		case len(words) > 0 && words[0] == "chmod":
			kind = "chmod"
		case len(words) == 1 && strings.HasPrefix(line, "/"):
			kind = "exec"
		case len(words) > 0 && words[0] == "mv":
			kind = "mv"
		}
		if st.DieAt != "" && (st.DieAt == kind || (line == "echo $?" && st.DieAt == "echo-after-"+last)) {
			return // the session is interrupted: this command is not executed
		}
		if kind != "" {
			last = kind
		} else if line != "echo $?" {
			last = ""
		}
		newStatus := 0
		switch {
		case line == "echo $?":
			resp = strconv.Itoa(status) + "\n"
		case strings.HasPrefix(line, "PS1="):
		case line == "uname -r":
			resp = "5.10.0-verif\n"
		case line == "uname -m":
			resp = "x86_64\n"
		case line == "hostname -s":
			resp = "router\n"
		case strings.HasPrefix(line, "grep ") && strings.HasSuffix(line, "/etc/issue"):
			resp = "--- managed by NetSPoC ---\n"
		case line == "which iptables-restore":
			resp = restorer + "\n"
		case line == "iptables-save":
			resp = st.Ipt
		case line == "ip route show":
			resp = st.Routes
		case strings.HasPrefix(line, "ip route add ") || strings.HasPrefix(line, "ip route del "):
			if nroute == st.FailAt {
				// the session is interrupted here: this command and everything behind it (also the second
				// half of a packet) is not executed
				return
			}
			logCmd(line)
			nroute++
		case kind == "chmod":
			hp, ok := "", false
			if len(words) == 3 {
				hp, ok = hostPath(&st, words[2])
			}
			switch {
			case len(words) != 3 || !ok:
				resp, newStatus = "chmod: missing operand\n", 1
			case words[1] != "a+x":
				resp, newStatus = "chmod: mode '"+words[1]+"' is not the one the host expects\n", 1
			default:
				if fi, err := os.Stat(hp); err != nil {
					resp, newStatus = "chmod: cannot access '"+words[2]+"': No such file or directory\n", 1
				} else {
					os.Chmod(hp, fi.Mode().Perm()|0111)
					logCmd(line)
				}
			}
		case kind == "exec":
			hp, ok := hostPath(&st, line)
			fi, err := os.Stat(hp)
			switch {
			case !ok || err != nil:
				resp, newStatus = "-bash: "+line+": No such file or directory\n", 127
			case fi.Mode().Perm()&0111 == 0:
				resp, newStatus = "-bash: "+line+": Permission denied\n", 126
			default:
				content, _ := os.ReadFile(hp)
				first, _, _ := strings.Cut(string(content), "\n")
				if first != "#!"+restorer {
					resp, newStatus = "-bash: "+line+": "+strings.TrimPrefix(first, "#!")+": bad interpreter: No such file or directory\n", 126
				} else {
					// iptables-restore reads the file: the kernel's rule set is now what the file says
					nload++
					os.WriteFile(filepath.Join(st.Loads, fmt.Sprintf("%03d", nload)), content, 0644)
					logCmd(line)
				}
			}
		case kind == "mv":
			var src, dst string
			ok1, ok2 := false, false
			if len(words) == 4 && words[1] == "-f" {
				src, ok1 = hostPath(&st, words[2])
				dst, ok2 = hostPath(&st, words[3])
			}
			switch {
			case !ok1 || !ok2:
				resp, newStatus = "mv: unexpected operands\n", 1
			default:
				if _, err := os.Stat(src); err != nil {
					resp, newStatus = "mv: cannot stat '"+words[2]+"': No such file or directory\n", 1
				} else if os.Rename(src, dst) != nil {
					resp, newStatus = "mv: cannot move '"+words[2]+"' to '"+words[3]+"': No such file or directory\n", 1
				} else {
					logCmd(line)
				}
			}
		default:
			w := line
			if len(words) > 0 {
				w = words[0]
			}
			resp, newStatus = "-bash: "+w+": command not found\n", 127
		}
		status = newStatus
		out.WriteString(line + "\r\n" + strings.ReplaceAll(resp, "\n", "\r\n") + "router#")
		out.Flush()
	}
}

// hostOut: the host's files after a run.
type hostOut struct {
	PF, RT  string   // /etc/network/packet-filter, /etc/network/routing
	NewLeft bool     // /etc/network/packet-filter.new still exists
	Others  []string // any other file under /etc/network
	Loaded  []string // contents of the rule files the host executed during this run
}

// deviceRun runs the real `drc [-C] -q -L LOGDIR CODE/router` against the simulated host.
// Returns the run, the compare log (ShowChanges) if written, and the `ip route` commands the host accepted.
func (r *runner) deviceRun(compare bool, routesOut, iptOut, spoc string, failAt int) (implOut, string, []string) {
	return r.deviceRun2(compare, routesOut, iptOut, spoc, failAt, "")
}

// newHostFs creates the file system of a host that was booted with OLD start-up files.
func (r *runner) newHostFs() string {
	r.n++
	root := filepath.Join(r.dir, fmt.Sprintf("fs%d", r.n))
	os.MkdirAll(filepath.Join(root, "etc/network"), 0755)
	os.WriteFile(filepath.Join(root, pfFile), []byte(oldPF), 0755)
	os.WriteFile(filepath.Join(root, rtFile), []byte(oldRT), 0755)
	return root
}

func (r *runner) deviceRun2(compare bool, routesOut, iptOut, spoc string, failAt int, dieAt string) (implOut, string, []string) {
	r.n++
	d := filepath.Join(r.dir, fmt.Sprintf("d%d", r.n))
	os.MkdirAll(filepath.Join(d, "code"), 0755)
	defer os.RemoveAll(d)
	for _, sub := range []string{"lock", "status", "history", "log", "loads"} {
		os.MkdirAll(filepath.Join(d, sub), 0755)
	}
	os.WriteFile(filepath.Join(d, ".netspoc-approve"), []byte("basedir = "+d+"\ncheckbanner = NetSPoC\nsystemuser = "+simUser+"\ntimeout = 5\n"), 0644)
	os.WriteFile(filepath.Join(d, "credentials"), []byte("* "+simUser+" secret\n"), 0644)
	code := filepath.Join(d, "code", "router")
	os.WriteFile(code, []byte(spoc), 0644)
	os.WriteFile(code+".info", []byte(`{"generated_by":"verif","model":"Linux","name_list":["router"],"ip_list":["`+simIP+`"]}`), 0644)
	logF := filepath.Join(d, "cmds")
	stF := filepath.Join(d, "state.json")
	fsRoot := r.fs
	if fsRoot == "" {
		fsRoot = r.newHostFs()
		defer os.RemoveAll(fsRoot)
	}
	os.WriteFile(stF, []byte(JSONStr(simState{Routes: routesOut, Ipt: iptOut, FailAt: failAt, Log: logF, DieAt: dieAt, Fs: fsRoot, Loads: filepath.Join(d, "loads")})), 0644)
	if r.binDir == "" {
		exe, _ := os.Executable()
		r.binDir = filepath.Join(r.dir, "hostbin")
		os.MkdirAll(r.binDir, 0755)
		os.Symlink(exe, filepath.Join(r.binDir, "ssh"))
		os.Symlink(exe, filepath.Join(r.binDir, "scp"))
	}
	oldHome, oldPath := os.Getenv("HOME"), os.Getenv("PATH")
	os.Setenv("HOME", d)
	os.Setenv("PATH", r.binDir+string(os.PathListSeparator)+oldPath)
	os.Setenv("VH_C05_SIM", stF)
	os.Unsetenv("SIMULATE_ROUTER")
	defer func() { os.Setenv("HOME", oldHome); os.Setenv("PATH", oldPath); os.Unsetenv("VH_C05_SIM") }()
	old := os.Args
	os.Args = []string{"drc", "-q", "-L", filepath.Join(d, "log")}
	if compare {
		os.Args = append(os.Args, "-C")
	}
	os.Args = append(os.Args, code)
	defer func() { os.Args = old }()
	so, se, st, pm := Captured(drc.Main)
	cmp, _ := os.ReadFile(filepath.Join(d, "log", "router.cmp"))
	var cmds []string
	if data, err := os.ReadFile(logF); err == nil {
		cmds = strings.Split(strings.TrimSuffix(string(data), "\n"), "\n")
		if len(data) == 0 {
			cmds = nil
		}
	}
	h := hostOut{}
	if b, err := os.ReadFile(filepath.Join(fsRoot, pfFile)); err == nil {
		h.PF = string(b)
	}
	if b, err := os.ReadFile(filepath.Join(fsRoot, rtFile)); err == nil {
		h.RT = string(b)
	}
	if ents, err := os.ReadDir(filepath.Join(fsRoot, "etc/network")); err == nil {
		for _, e := range ents {
			switch "/etc/network/" + e.Name() {
			case pfFile, rtFile:
			case pfFile + ".new":
				h.NewLeft = true
			default:
				h.Others = append(h.Others, e.Name())
			}
		}
	}
	if ents, err := os.ReadDir(filepath.Join(d, "loads")); err == nil {
		for _, e := range ents {
			b, _ := os.ReadFile(filepath.Join(d, "loads", e.Name()))
			h.Loaded = append(h.Loaded, string(b))
		}
	}
	r.host = h
	se = strings.ReplaceAll(se, d+"/", "")
	return implOut{so, se, st, pm}, string(cmp), cmds
}

const (
	fs = "\x1e"
	ls = "\x1f"
	gs = "\x1d"
)

type devRoute struct {
	IP   string `json:"ip"`
	Plen int    `json:"plen"`
	Hop  string `json:"hop"`
	Dev  string `json:"dev,omitempty"`
}

type aChain struct {
	Name   string     `json:"name"`
	Policy string     `json:"policy"`
	Rules  [][]string `json:"rules"` // each rule: encoded options
}

type aTable struct {
	Name   string   `json:"name"`
	Chains []aChain `json:"chains"`
}

type c05Case struct {
	Stream string `json:"stream"`
	Dev    string `json:"dev"`
	Spoc   string `json:"spoc"`
	// abstract part (oracle cases)
	Abstract  bool       `json:"abstract,omitempty"`
	Names     bool       `json:"names,omitempty"`
	DevRoutes []devRoute `json:"dev_routes,omitempty"`
	Noise     []string   `json:"noise,omitempty"` // ignored `ip route show` lines (scope link, proto kernel)
	DevRS     []aTable   `json:"dev_rs,omitempty"`
	TgtRoutes []string   `json:"tgt_routes,omitempty"` // target route lines as written
	TgtRS     []aTable   `json:"tgt_rs,omitempty"`
	// device path cases
	OddLine string `json:"odd_line,omitempty"` // an extra line in the device's iptables-save output
	FailAt  int    `json:"fail_at,omitempty"`  // device-resume: the session dies when this `ip route` command arrives
	Cut     string `json:"cut,omitempty"`      // ipt-resume: the session dies at which | chmod | exec | mv | echo-after-…
	// neg-pairs: the two rule texts (device: iptables-save spelling, target: a user spelling) and what the generator varied
	RuleA  string `json:"rule_a,omitempty"`
	RuleB  string `json:"rule_b,omitempty"`
	Kind   string `json:"kind,omitempty"`
	DevNeg bool   `json:"dev_neg,omitempty"`
	TgtNeg bool   `json:"tgt_neg,omitempty"`
}

func encRS(rs []aTable) string {
	var l []string
	for _, t := range rs {
		l = append(l, "T "+t.Name)
		for _, c := range t.Chains {
			l = append(l, "C "+c.Name+" "+c.Policy)
		}
		for _, c := range t.Chains {
			for _, r := range c.Rules {
				l = append(l, "R "+c.Name+" "+strings.Join(r, ";"))
			}
		}
	}
	return strings.Join(l, ls)
}

func encRoutes(rs []devRoute) string {
	var l []string
	for _, r := range rs {
		l = append(l, strings.Join([]string{r.IP, strconv.Itoa(r.Plen), r.Hop, r.Dev}, ls))
	}
	return strings.Join(l, gs)
}

func b2s(b bool) string {
	if b {
		return "1"
	}
	return "0"
}

func toLine(text string) string   { return strings.ReplaceAll(text, "\n", ls) }
func fromLine(text string) string { return strings.ReplaceAll(text, ls, "\n") }

// ---------------------------------------------------------------- running the real code

type implOut struct {
	Stdout, Stderr string
	Status         int
	Panic          string
}

type runner struct {
	dir    string
	n      int
	binDir string  // `ssh` and `scp` of the simulated host
	fs     string  // file system of the host for the next runs ("" = a fresh one per run)
	host   hostOut // the host's files after the last device run
}

func (r *runner) drc(dev, spoc string) implOut {
	r.n++
	d := filepath.Join(r.dir, fmt.Sprintf("c%d", r.n))
	os.MkdirAll(d, 0755)
	defer os.RemoveAll(d)
	devF, spocF := filepath.Join(d, "device"), filepath.Join(d, "router")
	os.WriteFile(devF, []byte(dev), 0644)
	os.WriteFile(spocF, []byte(spoc), 0644)
	os.WriteFile(spocF+".info", []byte(`{"generated_by":"verif","model":"Linux"}`), 0644)
	old := os.Args
	os.Args = []string{"drc", "-q", devF, spocF}
	defer func() { os.Args = old }()
	so, se, st, pm := Captured(drc.Main)
	return implOut{so, se, st, pm}
}

// expected stderr for an Abort message
func abortText(msg string) string {
	return "ERROR>>> " + strings.ReplaceAll(msg, "\n", "\nERROR>>> ") + "\n"
}

func splitLines(x string) []string {
	if x == "" {
		return nil
	}
	return strings.Split(x, ls)
}

// agree compares the real run with the model's answer; returns "" or a description.
func agree(impl implOut, ans string, bigRoutes bool) string {
	f := strings.Split(ans, fs)
	if impl.Panic != "" {
		return "real code panicked: " + impl.Panic
	}
	switch {
	case f[0] == "ERR" && len(f) == 2:
		if impl.Status != 1 || impl.Stdout != "" || impl.Stderr != abortText(fromLine(f[1])) {
			return "model expects abort"
		}
		return ""
	case f[0] == "OK" && len(f) == 4:
		if impl.Status != 0 || impl.Stderr != "" {
			return "model expects success"
		}
		routes, cands, rest := splitLines(f[1]), splitLines(f[2]), splitLines(f[3])
		got := strings.Split(strings.TrimSuffix(impl.Stdout, "\n"), "\n")
		if impl.Stdout == "" {
			got = nil
		}
		want := len(routes) + len(rest)
		if len(cands) > 0 {
			want++
		}
		if len(got) != want {
			return "different number of script lines"
		}
		gr := append([]string{}, got[:len(routes)]...)
		if bigRoutes {
			sort.Strings(gr)
			routes = append([]string{}, routes...)
			sort.Strings(routes)
		}
		for i := range routes {
			if gr[i] != routes[i] {
				return "route line " + strconv.Itoa(i)
			}
		}
		i := len(routes)
		if len(cands) > 0 {
			found := false
			for _, c := range cands {
				if c == got[i] {
					found = true
				}
			}
			if !found {
				return "iptables difference line is none of the model's candidates"
			}
			i++
		}
		for j := range rest {
			if got[i+j] != rest[j] {
				return "restore file line " + strconv.Itoa(j)
			}
		}
		return ""
	}
	return "driver answer not understood: " + ans
}

// ---------------------------------------------------------------- generators: text level

var (
	ipPool   = []string{"10.1.1.0/24", "10.1.2.0/24", "10.1.1.1", "10.1.1.2", "10.0.0.0/8", "10.20.0.0/16", "10.40.0.0/16", "192.168.1.16/29", "0.0.0.0/0", "10.1.11.111", "224.0.0.18", "10.10.1.0/30"}
	hopPool  = []string{"10.10.1.1", "10.10.1.2", "10.10.1.3", "10.9.9.9"}
	devPool  = []string{"eth0", "eth1", "bond0.12"}
	noisePool = []string{
		"10.0.0.0/24 dev eth0 proto kernel scope link src 10.1.11.99",
		"10.0.1.0/24 dev eth0 proto kernel scope host src 10.1.11.88",
		"169.254.0.0/16 dev eth0 scope link metric 1000",
		"10.7.0.0/16 via 10.10.1.1 dev eth0 proto 186",
		"10.8.0.0/16 via 10.10.1.1 dev eth0 proto boot",
	}
)

// destinations that share a network address with different prefix lengths, nested prefixes, halves, default
var nestPool = []string{"10.1.0.0/16", "10.1.0.0/24", "10.1.0.0/30", "10.1.0.0", "10.1.7.0/24", "10.1.0.0/17", "10.1.128.0/17",
	"10.0.0.0/8", "10.0.0.0/16", "0.0.0.0/0", "0.0.0.0/1", "128.0.0.0/1", "10.1.7.7", "10.1.7.0/28"}

func splitDst(d string) (string, int) {
	ip, l, found := strings.Cut(d, "/")
	if !found {
		return ip, 32
	}
	n, _ := strconv.Atoi(l)
	return ip, n
}

// a target route line in one of the spellings Netspoc or a raw file uses
func userRouteLine(rng *RNG, ip string, plen int, hop string) string {
	d := ip + "/" + strconv.Itoa(plen)
	switch {
	case plen == 32 && rng.Chance(70):
		d = ip
	case plen == 0 && ip == "0.0.0.0" && rng.Chance(40):
		d = "default"
	}
	l := "ip route add " + d + " via " + hop
	if rng.Chance(10) {
		l += " dev " + Pick(rng, devPool)
	}
	return l
}

// random text soup for the malformed stream
var soupWords = []string{"ip", "route", "add", "del", "via", "dev", "default", "proto", "kernel", "static", "scope", "link", "vrf", "x",
	"10.1.1.0/24", "10.1.1.1", "10.1.1.0/", "10.1.1.0/x", "10.1.1.0/+8", "10.1.1.0/-1", "10.1.1.0/99999999999999999999", "proto 12", "eth0"}

var soupIpt = []string{"*filter", "*filter", ":INPUT ACCEPT", "*nat", "*", "* x y", ":INPUT DROP", ":INPUT", ":c1 -", ":c1 - [0:0]", ": c1 -", "COMMIT", "[APPEND]", "foo", "-A", "-A c1", "-I c1 -j ACCEPT",
	"-A c1 -j ACCEPT", "-A c2 -j ACCEPT", "-A INPUT -j ACCEPT !", "-A INPUT ! -j ACCEPT", "-A INPUT -p ! tcp", "-A INPUT ! ! -p tcp", "-A INPUT -p tcp ! ! --syn",
	"-A INPUT ! -p ! TCP -j c1", "-A INPUT x y z", "-A INPUT -m -p", "-A INPUT -m tcp -p TCP -m TCP", "-A INPUT -m state -m tcp -p tcp --state NEW,ESTABLISHED",
	"-A INPUT -j MARK --set-xmark 0x1/0xff", "-A INPUT -j MARK --set-xmark 0x1/0xFFFFFFFF --set-mark 7", "-A INPUT --dport 0", "-A INPUT --dport 00:65535", "-A INPUT --sport ! 0:1023",
	"-A INPUT -p tcp --tcp-flags FIN,SYN,RST,ACK SYN", "-A INPUT -p tcp ! --tcp-flags FIN,SYN,RST,ACK SYN", "-A INPUT -p tcp --tcp-flags ! FIN,SYN,RST,ACK SYN",
	"-A INPUT -s 10.1.1.1/32 -d ! 10.2.2.2/32", "-A INPUT -s 10.1.1.1/32/32", "-A INPUT --log-level debug -j LOG", "-A INPUT -j LOG --log-level DEBUG",
	"-A INPUT \"quoted arg\" -j ACCEPT", "-A INPUT -j ACCEPT -p IPV6-ICMP", "-A INPUT -p Vrrp", "-A INPUT --state ,,B,A", "-A\tINPUT\t-j  ACCEPT", "# comment", "  ", "ip routex"}

func genSoup(rng *RNG) string {
	var l []string
	n := rng.Intn(6)
	for i := 0; i < n; i++ {
		if rng.Chance(35) {
			k := 2 + rng.Intn(6)
			w := []string{}
			if rng.Chance(80) {
				w = append(w, "ip route add")
			}
			for j := 0; j < k; j++ {
				w = append(w, Pick(rng, soupWords))
			}
			l = append(l, strings.Join(w, " "))
		} else {
			l = append(l, Pick(rng, soupIpt))
		}
	}
	return strings.Join(l, "\n") + "\n"
}

// random option soup for the parse / normalise streams
var optKeys = []string{"-s", "-d", "-p", "-m", "-j", "-g", "-i", "--sport", "--dport", "--state", "--set-mark", "--set-xmark", "--log-level", "--syn", "--tcp-flags", "--icmp-type", "--to-source", "-x"}
var optVals = []string{"", "10.1.1.1", "10.1.1.1/32", "10.1.1.0/24", "!10.1.1.1/32", "/32", "tcp", "TCP", "Tcp", "udp", "vrrp", "VRRP", "ipv6-icmp", "IPv6-ICMP", "112", "58", "!tcp", "!TCP",
	"0", "00", "80", "080", "0:1023", ":1023", "1024:65535", "1024:", "0:65535", ":", "00:065535", "!0:1023", "65535", "1:65535",
	"ESTABLISHED,RELATED", "RELATED,ESTABLISHED", "NEW", "new,NEW", ",", "B,,A",
	"0x01", "0X0F", "15", "0x0f/0xffffffff", "0x0F/0xFFFFFFFF", "0x1/0xff", "0xffffffff", "0x7fffffff", "0x80000000", "2147483647", "2147483648", "-1", "-0x80000000", "-2147483649",
	"010", "0b11", "0o17", "1_0", "_1", "1__0", "0x_f", "0_7", "+5", "0x", "0b", "1/0xFFFFFFFF", "/0xffffffff", "/", "1/", "08",
	"debug", "DEBUG", "7", "info", "state", "STATE", "ACCEPT", "FIN,SYN,RST,ACK SYN", "!FIN,SYN,RST,ACK SYN", "!"}

func genPairs(rng *RNG) map[string]string {
	m := map[string]string{}
	n := rng.Intn(6)
	for i := 0; i < n; i++ {
		m[Pick(rng, optKeys)] = Pick(rng, optVals)
	}
	return m
}

func encPairs(m map[string]string) string {
	keys := make([]string, 0, len(m))
	for k := range m {
		keys = append(keys, k)
	}
	sort.Strings(keys)
	var l []string
	for _, k := range keys {
		l = append(l, k, m[k])
	}
	return strings.Join(l, ls)
}

// ---------------------------------------------------------------- generators: abstract level

var chainTargets = []string{"ACCEPT", "DROP", "c1", "c2", "droplog"}

func negHint(rng *RNG, p int) string {
	if !rng.Chance(p) {
		return "n"
	}
	if rng.Bool() {
		return "b"
	}
	return "a"
}

func genAddr(rng *RNG, key string) string {
	ip, plen := splitDst(Pick(rng, ipPool))
	return fmt.Sprintf("%s~%s~%s~%d~%s", key, negHint(rng, 12), ip, plen, b2s(rng.Bool()))
}

func genPorts(rng *RNG, key string) string {
	z := 0
	if rng.Chance(20) {
		z = 1 + rng.Intn(2)
	}
	if rng.Chance(50) {
		p := Pick(rng, []string{"22", "23", "80", "443", "3978", "0", "65535", "123"})
		return fmt.Sprintf("%s~1~%s~~%d~%s", key, p, z, b2s(rng.Bool()))
	}
	r := Pick(rng, [][2]string{{"0", "1023"}, {"1024", "65535"}, {"3000", "4000"}, {"3400", "3500"}, {"1", "65535"}, {"0", "65534"}, {"80", "90"}})
	return fmt.Sprintf("%s~r~%s~%s~%d~%s", key, r[0], r[1], z, b2s(rng.Bool()))
}

// masks for mark 0x10 (value inside the mask: for `--set-mark v/m` the kernel stores the mask v|m)
var markMasks = []string{"f0", "30", "ff", "ffffffff"}

// genMark: `mk~hex~mask~xmark~text`.  masked = a mask other than the default, spelled
// `--set-mark 0x10/0xf0`, `--set-mark 16/0xf0` or exactly as the kernel prints it (`--set-xmark 0x10/0xf0`).
func genMark(rng *RNG, masked bool) string {
	if masked {
		m := markMasks[rng.Intn(3)]
		switch rng.Intn(4) {
		case 0:
			return "mk~10~" + m + "~1~0x10/0x" + m
		case 1:
			return "mk~10~" + m + "~0~16/0x" + m
		default:
			return "mk~10~" + m + "~0~0x10/0x" + m
		}
	}
	v := Pick(rng, [][2]string{{"1", "1"}, {"1", "0x01"}, {"f", "15"}, {"f", "0x0F"}, {"f", "0x0f/0xffffffff"}, {"f", "0X0F/0XFFFFFFFF"}, {"10", "16"}, {"10", "020"},
		{"10", "0x10"}, {"7fffffff", "2147483647"}, {"0", "0"}, {"0", "0x0"}, {"2a", "42"}})
	return fmt.Sprintf("mk~%s~ffffffff~%s~%s", v[0], b2s(rng.Bool()), v[1])
}

// otherMask gives the MARK option of a device rule another mask (the device is always in kernel spelling).
func otherMask(rng *RNG, opt string) string {
	f := strings.Split(opt, "~")
	for {
		m := Pick(rng, markMasks)
		if m != f[2] {
			f[2] = m
			return strings.Join(f, "~")
		}
	}
}

// ---------------------------------------------------------------- single-token perturbation (near misses)

var tailOctets = []string{"2", "3", "22", "23", "32", "33", "222", "223", "232", "233"}
var tailLens = []string{"2", "3", "20", "22", "23", "24", "29", "30", "31", "32"}

// nearMiss returns a copy of the rule with exactly ONE token changed to a near-miss value, and what was changed.
func nearMiss(rng *RNG, r []string) ([]string, string) {
	out := append([]string{}, r...)
	idx := rng.Intn(len(out))
	// prefer an address if there is one (the tail of -s/-d values is where suffix handling lives)
	if rng.Chance(55) {
		for i, o := range out {
			if strings.HasPrefix(o, "s~") || strings.HasPrefix(o, "d~") {
				idx = i
				break
			}
		}
	}
	f := strings.Split(out[idx], "~")
	pickOther := func(cur string, pool []string) string {
		for {
			v := Pick(rng, pool)
			if v != cur {
				return v
			}
		}
	}
	what := f[0]
	switch f[0] {
	case "s", "d": // s~neg~ip~len~h
		switch rng.Intn(10) {
		case 0:
			f[1] = map[string]string{"n": "b", "b": "n", "a": "n"}[f[1]]
			what += ":negation"
		case 1, 2, 3, 4:
			i := strings.LastIndex(f[2], ".")
			f[2] = f[2][:i+1] + pickOther(f[2][i+1:], tailOctets)
			what += ":last-octet"
		default:
			f[3] = pickOther(f[3], tailLens)
			what += ":prefix-length"
		}
	case "i":
		f[2] = pickOther(f[2], []string{"eth0", "eth1", "eth01", "eth10", "bond0.12", "bond0.1"})
	case "p": // p~neg~proto~upper~num
		if rng.Chance(25) && f[2] != "vrrp" && f[2] != "ipv6icmp" {
			f[1] = map[string]string{"n": "b", "b": "n", "a": "n"}[f[1]]
			what += ":negation"
		} else {
			f[2] = pickOther(f[2], []string{"tcp", "udp", "icmp", "#50", "#5", "#51", "#47"})
			f[3], f[4] = "0", "0"
			if f[2] == "icmp" || strings.HasPrefix(f[2], "#") {
				// ports belong to tcp/udp only
				var keep []string
				for j, o := range out {
					if j == idx || !(strings.HasPrefix(o, "sp~") || strings.HasPrefix(o, "dp~") || strings.HasPrefix(o, "syn~") || strings.HasPrefix(o, "m~") || strings.HasPrefix(o, "it~")) {
						keep = append(keep, o)
					} else if j < idx {
						idx--
					}
				}
				keep[idx] = strings.Join(f, "~")
				return keep, what + ":protocol(match options dropped)"
			}
		}
	case "sp", "dp": // sp~(1|r)~lo~hi~zeros~open
		if f[1] == "1" {
			f[2] = pickOther(f[2], []string{"2", "22", "23", "222", "80", "8080", "8", "443", "65535", "6553"})
		} else if rng.Bool() {
			f[2] = pickOther(f[2], []string{"0", "1", "10", "1024", "1023", "102"})
		} else {
			f[3] = pickOther(f[3], []string{"65535", "65534", "6553", "1023", "1024", "4000", "40000"})
		}
		if f[1] == "r" {
			lo, _ := strconv.Atoi(f[2])
			hi, _ := strconv.Atoi(f[3])
			if lo >= hi || (lo == 0 && hi == 65535) {
				f[2], f[3] = "1", "65534"
			}
		}
	case "it":
		f[1] = pickOther(f[1], []string{"0", "8", "3", "3/1", "3/13", "11", "30"})
	case "st":
		f[1] = pickOther(f[1], []string{"E", "ER", "RE", "N", "NE", "ERN", "I"})
		if len(f[1]) == 2 && f[1][0] == f[1][1] {
			f[1] = f[1][:1]
		}
	case "j", "g":
		f[1] = pickOther(f[1], []string{"ACCEPT", "DROP", "c1", "c2", "c11", "droplog"})
	case "ll":
		f[1] = pickOther(f[1], []string{"7", "4", "6", "17", "70"})
	case "mk": // mk~hex~mask~x~text : the device side is kernel spelling, only value and mask matter
		if rng.Bool() {
			f[1] = pickOther(f[1], []string{"1", "10", "11", "f", "ff", "2a", "0"})
		} else {
			f[2] = pickOther(f[2], markMasks)
		}
		f[3], f[4] = "0", "0"
	case "ts":
		i := strings.LastIndex(f[1], ".")
		f[1] = f[1][:i+1] + pickOther(f[1][i+1:], tailOctets)
	case "syn":
		f[1] = map[string]string{"0": "1", "1": "0"}[f[1]]
	default:
		return out, ""
	}
	out[idx] = strings.Join(f, "~")
	return out, what
}

// nearMissRule: a rule rich in tokens whose tails matter
func nearMissRule(rng *RNG) []string {
	oct := Pick(rng, tailOctets)
	var o []string
	switch rng.Intn(5) {
	case 0:
		o = []string{"j~ACCEPT", fmt.Sprintf("s~%s~10.1.1.%s~32~%s", negHint(rng, 10), oct, b2s(rng.Bool())), "p~n~tcp~0~0", genPorts(rng, "dp")}
	case 1:
		o = []string{"j~" + Pick(rng, chainTargets), fmt.Sprintf("d~n~10.2.0.0~%s~%s", Pick(rng, tailLens), b2s(rng.Bool())), "i~n~" + Pick(rng, devPool)}
	case 2:
		o = []string{"g~c1", fmt.Sprintf("s~n~10.1.1.%s~32~%s", oct, b2s(rng.Bool())), fmt.Sprintf("d~n~10.1.2.%s~%s~0", Pick(rng, tailOctets), Pick(rng, []string{"32", "32", "23", "22"})), "p~n~udp~1~0", genPorts(rng, "sp")}
	case 3:
		o = []string{"j~MARK", genMark(rng, false), fmt.Sprintf("d~n~10.1.1.%s~32~0", oct), "p~n~tcp~0~0"}
	default:
		o = genRule(rng, ruleOpts{})
		if rng.Bool() {
			o = append(o, fmt.Sprintf("s~n~10.1.1.%s~32~%s", oct, b2s(rng.Bool())))
		}
	}
	// no option key twice
	seen := map[string]bool{}
	var res []string
	for _, x := range o {
		k := x[:strings.Index(x, "~")]
		if !seen[k] {
			seen[k] = true
			res = append(res, x)
		}
	}
	Shuffle(rng, res)
	return res
}

type ruleOpts struct {
	unnegSyn, stateWithProtoMatch bool
}

// one rule of the grammar (options in the order the user writes them)
func genRule(rng *RNG, ro ruleOpts) []string {
	var o []string
	kind := rng.Intn(100)
	switch {
	case kind < 8: // state rule as Netspoc writes it
		st := []string{"E", "R", "N", "I", "U"}
		Shuffle(rng, st)
		o = append(o, "j~"+Pick(rng, []string{"ACCEPT", "DROP"}), "m~state", "st~"+strings.Join(st[:1+rng.Intn(3)], ""))
		if ro.stateWithProtoMatch {
			// `-m state --state …` before or after an implicitly loaded protocol match
			if rng.Bool() {
				o = append(o, "p~n~tcp~0~0", genPorts(rng, "dp"))
			} else {
				o = append([]string{"p~n~tcp~0~0", genPorts(rng, "dp")}, o...)
			}
		}
		return o // `-m state` stays in front of `--state`, as iptables requires
	case kind < 14:
		o = append(o, "j~LOG", "ll~"+Pick(rng, []string{"7", "7", "4", "6"})+"~"+b2s(rng.Bool()))
	case kind < 22:
		o = append(o, "j~MARK", genMark(rng, rng.Chance(35)))
	case kind < 28:
		ip, _ := splitDst(Pick(rng, ipPool))
		o = append(o, "j~SNAT", "ts~"+ip)
	case kind < 38:
		o = append(o, "g~"+Pick(rng, []string{"c1", "c2", "c5"}))
	default:
		o = append(o, "j~"+Pick(rng, chainTargets))
	}
	if rng.Chance(55) {
		o = append(o, genAddr(rng, "s"))
	}
	if rng.Chance(55) {
		o = append(o, genAddr(rng, "d"))
	}
	if rng.Chance(30) {
		o = append(o, "i~"+negHint(rng, 15)+"~"+Pick(rng, devPool))
	}
	switch p := rng.Intn(100); {
	case p < 35: // tcp / udp
		pr := Pick(rng, []string{"tcp", "udp"})
		neg := negHint(rng, 8)
		o = append(o, fmt.Sprintf("p~%s~%s~%s~0", neg, pr, b2s(rng.Chance(40))))
		if neg == "n" {
			if rng.Chance(60) {
				o = append(o, genPorts(rng, "dp"))
			}
			if rng.Chance(25) {
				o = append(o, genPorts(rng, "sp"))
			}
			if pr == "tcp" && rng.Chance(20) {
				o = append(o, fmt.Sprintf("syn~%s~%s", b2s(!ro.unnegSyn), b2s(rng.Bool())))
			}
			if rng.Chance(20) {
				m := pr
				if rng.Bool() {
					m = strings.ToUpper(pr)
				}
				o = append(o, "m~"+m)
			}
		}
	case p < 50:
		neg := negHint(rng, 5)
		o = append(o, fmt.Sprintf("p~%s~icmp~%s~0", neg, b2s(rng.Chance(30))))
		if neg == "n" && rng.Chance(60) {
			o = append(o, "it~"+Pick(rng, []string{"0", "8", "3/1", "11"}))
		}
	case p < 60:
		o = append(o, fmt.Sprintf("p~n~%s~%s~%s", Pick(rng, []string{"vrrp", "ipv6icmp"}), b2s(rng.Chance(40)), b2s(rng.Bool())))
	case p < 66:
		o = append(o, fmt.Sprintf("p~%s~#%s~0~0", negHint(rng, 10), Pick(rng, []string{"50", "47", "89"})))
	}
	Shuffle(rng, o)
	return o
}

func genRS(rng *RNG, ro ruleOpts) []aTable {
	var rs []aTable
	nt := 1
	if rng.Chance(30) {
		nt = 2
	}
	names := []string{"filter", "nat", "mangle"}
	for ti := 0; ti < nt; ti++ {
		t := aTable{Name: names[ti]}
		builtin := map[string][]string{"filter": {"INPUT", "FORWARD", "OUTPUT"}, "nat": {"PREROUTING", "POSTROUTING", "OUTPUT"}, "mangle": {"PREROUTING"}}[t.Name]
		for _, b := range builtin {
			t.Chains = append(t.Chains, aChain{Name: b, Policy: Pick(rng, []string{"DROP", "ACCEPT"})})
		}
		nu := rng.Intn(3)
		for i := 0; i < nu; i++ {
			t.Chains = append(t.Chains, aChain{Name: "c" + strconv.Itoa(i+1), Policy: "-"})
		}
		Shuffle(rng, t.Chains)
		for i := range t.Chains {
			n := rng.Intn(4)
			for j := 0; j < n; j++ {
				t.Chains[i].Rules = append(t.Chains[i].Rules, genRule(rng, ro))
			}
		}
		rs = append(rs, t)
	}
	return rs
}

func cloneRS(rs []aTable) []aTable {
	var out []aTable
	for _, t := range rs {
		nt := aTable{Name: t.Name}
		for _, c := range t.Chains {
			nc := aChain{Name: c.Name, Policy: c.Policy}
			for _, r := range c.Rules {
				nc.Rules = append(nc.Rules, append([]string{}, r...))
			}
			nt.Chains = append(nt.Chains, nc)
		}
		out = append(out, nt)
	}
	return out
}

// the device's rule set: the target's, possibly with a semantic change
// resumeMut: the resume streams want a device that really differs and stays inside the class of C05
// (no `none`, no mask-only change of a MARK rule)
var resumeMut bool

func mutateRS(rng *RNG, tgt []aTable, res *Result, allowExtraTable bool) []aTable {
	dev := cloneRS(tgt)
	nonePct, maskPct := 45, 35
	if resumeMut {
		nonePct, maskPct = 10, 0
	}
	if rng.Chance(nonePct) || len(dev) == 0 {
		res.Count("ipt-mutation:none")
		return dev
	}
	// a MARK rule that differs only in the mask
	if rng.Chance(maskPct) {
		for ti := range dev {
			for ci := range dev[ti].Chains {
				for _, r := range dev[ti].Chains[ci].Rules {
					for j := range r {
						if strings.HasPrefix(r[j], "mk~") {
							r[j] = otherMask(rng, r[j])
							res.Count("ipt-mutation:mark-mask")
							return dev
						}
					}
				}
			}
		}
	}
	t := &dev[rng.Intn(len(dev))]
	c := &t.Chains[rng.Intn(len(t.Chains))]
	switch k := rng.Intn(100); {
	case k < 20 && len(c.Rules) > 0:
		i := rng.Intn(len(c.Rules))
		c.Rules = append(c.Rules[:i], c.Rules[i+1:]...)
		res.Count("ipt-mutation:drop-rule")
	case k < 38:
		i := rng.Intn(len(c.Rules) + 1)
		c.Rules = append(c.Rules[:i], append([][]string{genRule(rng, ruleOpts{})}, c.Rules[i:]...)...)
		res.Count("ipt-mutation:add-rule")
	case k < 55 && len(c.Rules) > 0:
		i := rng.Intn(len(c.Rules))
		c.Rules[i] = genRule(rng, ruleOpts{})
		res.Count("ipt-mutation:replace-rule")
	case k < 65 && len(c.Rules) > 1:
		i := rng.Intn(len(c.Rules) - 1)
		c.Rules[i], c.Rules[i+1] = c.Rules[i+1], c.Rules[i]
		res.Count("ipt-mutation:swap-rules")
	case k < 75 && len(c.Rules) > 0:
		// change one option
		i := rng.Intn(len(c.Rules))
		r := c.Rules[i]
		j := rng.Intn(len(r))
		switch {
		case strings.HasPrefix(r[j], "dp~") || strings.HasPrefix(r[j], "sp~"):
			r[j] = genPorts(rng, r[j][:2])
		case strings.HasPrefix(r[j], "s~") || strings.HasPrefix(r[j], "d~"):
			r[j] = genAddr(rng, r[j][:1])
		case strings.HasPrefix(r[j], "mk~"):
			r[j] = otherMask(rng, r[j])
		default:
			c.Rules[i] = append(r[:j], r[j+1:]...)
			if len(c.Rules[i]) == 0 {
				c.Rules[i] = []string{"j~ACCEPT"}
			}
		}
		res.Count("ipt-mutation:change-option")
	case k < 83:
		c.Policy = map[string]string{"DROP": "ACCEPT", "ACCEPT": "DROP", "-": "-"}[c.Policy]
		res.Count("ipt-mutation:policy")
	case k < 90:
		t.Chains = append(t.Chains, aChain{Name: "cx", Policy: "-", Rules: [][]string{genRule(rng, ruleOpts{})}})
		res.Count("ipt-mutation:extra-chain")
	case k < 95 && len(t.Chains) > 1:
		i := rng.Intn(len(t.Chains))
		t.Chains = append(t.Chains[:i], t.Chains[i+1:]...)
		res.Count("ipt-mutation:missing-chain")
	case k < 98 && len(dev) > 1:
		dev = dev[:len(dev)-1]
		res.Count("ipt-mutation:missing-table")
	default:
		if allowExtraTable {
			dev = append(dev, aTable{Name: "raw", Chains: []aChain{{Name: "PREROUTING", Policy: "ACCEPT"}}})
			res.Count("ipt-mutation:extra-device-table")
		}
	}
	return dev
}

type routeGenOpts struct {
	nest                bool // destinations from nestPool
	multiHop, dupTarget bool
	max                 int
	many                bool // more than 12 target routes (slices.SortFunc is not stable beyond 12 elements)
}

func genRoutes(rng *RNG, o routeGenOpts, res *Result) (dev []devRoute, tgt []string, noise []string) {
	type key struct {
		ip   string
		plen int
		hop  string
	}
	seenDev := map[key]bool{}
	seenDst := map[string]bool{}
	pool := ipPool
	if o.nest {
		pool = nestPool
	}
	if o.many {
		// beyond 12 routes the real sort is not stable; with two hops for one destination the CONTENT of the script then
		// depends on the order of equal prefix lengths, which the model (stable sort) does not follow: keep the two apart
		o.multiHop = false
	}
	n := rng.Intn(o.max + 1)
	for i := 0; i < n; i++ {
		ip, plen := splitDst(Pick(rng, pool))
		k := key{ip, plen, Pick(rng, hopPool)}
		d := ip + "/" + strconv.Itoa(plen)
		if seenDev[k] || (seenDst[d] && !o.multiHop) {
			continue
		}
		seenDev[k], seenDst[d] = true, true
		r := devRoute{IP: ip, Plen: plen, Hop: k.hop}
		if rng.Chance(60) {
			r.Dev = Pick(rng, devPool)
		}
		dev = append(dev, r)
	}
	// target: from the device by keep / new hop / drop, plus new routes
	seenT := map[key]bool{}
	seenTD := map[string]bool{}
	add := func(ip string, plen int, hop string) {
		k := key{ip, plen, hop}
		d := ip + "/" + strconv.Itoa(plen)
		if seenT[k] && !o.dupTarget {
			return
		}
		if seenTD[d] && !seenT[k] && !o.multiHop {
			return
		}
		seenT[k], seenTD[d] = true, true
		tgt = append(tgt, userRouteLine(rng, ip, plen, hop))
	}
	for _, r := range dev {
		switch k := rng.Intn(100); {
		case k < 50:
			add(r.IP, r.Plen, r.Hop)
		case k < 75:
			add(r.IP, r.Plen, Pick(rng, hopPool))
		}
	}
	m := rng.Intn(4)
	for i := 0; i < m; i++ {
		ip, plen := splitDst(Pick(rng, pool))
		add(ip, plen, Pick(rng, hopPool))
	}
	if o.dupTarget && len(tgt) > 0 {
		tgt = append(tgt, Pick(rng, tgt))
	}
	if o.many {
		n := 13 + rng.Intn(6)
		for i := 0; len(tgt) < n; i++ {
			add(fmt.Sprintf("10.77.%d.%d", i/4, (i%4)*64), []int{32, 26, 32, 30}[i%4], Pick(rng, hopPool))
		}
	}
	Shuffle(rng, tgt)
	if len(tgt) > 12 && !o.many {
		tgt = tgt[:12]
	}
	k := rng.Intn(3)
	for i := 0; i < k; i++ {
		noise = append(noise, Pick(rng, noisePool))
	}
	return
}

// ---------------------------------------------------------------- neg-pairs: rules that differ only in a negation or only in a spelling

// negValue: one meaning with its iptables-save spelling, user spellings of the SAME meaning, and near values of ANOTHER meaning.
type negValue struct {
	kernel string
	users  []string
	near   []string // kernel spellings of neighbouring, different values
}

var negPorts = []negValue{
	{"80", []string{"80", "080", "0080"}, []string{"81", "8"}},
	{"1024:2048", []string{"1024:2048", "01024:2048"}, []string{"1024:2049", "1024:65535"}},
	{"1024:65535", []string{"1024:", "1024:65535", "01024:", "01024:65535"}, []string{"1024:65534", "1025:65535", "1024:6553"}},
	{"0:1023", []string{":1023", "0:1023", "00:1023"}, []string{"1:1023", "0:1024", "0:65535"}},
	{"0:65535", []string{":", "0:", ":65535", "0:65535", "00:"}, []string{"1:65535", "0:65534"}},
	{"65535", []string{"65535"}, []string{"6553", "0:65535"}},
	{"0", []string{"0", "00"}, []string{"0:65535", "1"}},
}
var negAddrs = []negValue{
	{"10.1.1.1/32", []string{"10.1.1.1", "10.1.1.1/32"}, []string{"10.1.1.11/32", "10.1.1.1/31"}},
	{"10.1.1.0/24", []string{"10.1.1.0/24"}, []string{"10.1.1.0/25", "10.1.11.0/24"}},
	{"10.1.1.32/32", []string{"10.1.1.32", "10.1.1.32/32"}, []string{"10.1.1.3/32", "10.1.1.32/30"}},
}
var negIfs = []negValue{{"eth0", []string{"eth0"}, []string{"eth1", "eth01"}}, {"bond0.12", []string{"bond0.12"}, []string{"bond0.1"}}}
var negProtos = []negValue{
	{"tcp", []string{"tcp", "TCP", "Tcp"}, []string{"udp"}},
	{"udp", []string{"udp", "UDP"}, []string{"tcp", "udplite"}},
	{"112", []string{"112", "vrrp", "VRRP"}, []string{"12", "58"}},
	{"vrrp", []string{"112", "vrrp", "Vrrp"}, []string{"ipv6-icmp"}},
	{"58", []string{"58", "ipv6-icmp", "IPv6-ICMP"}, []string{"5", "112"}},
	{"ipv6-icmp", []string{"58", "ipv6-icmp"}, []string{"icmp"}},
	{"47", []string{"47"}, []string{"4", "7"}},
}
var negStates = []negValue{
	{"NEW,ESTABLISHED", []string{"NEW,ESTABLISHED", "ESTABLISHED,NEW"}, []string{"NEW", "NEW,RELATED,ESTABLISHED"}},
	{"RELATED,ESTABLISHED", []string{"ESTABLISHED,RELATED", "RELATED,ESTABLISHED"}, []string{"ESTABLISHED", "NEW,ESTABLISHED"}},
	{"INVALID,NEW,UNTRACKED", []string{"UNTRACKED,NEW,INVALID", "INVALID,NEW,UNTRACKED", "NEW,INVALID,UNTRACKED"}, []string{"INVALID,NEW"}},
	{"NEW", []string{"NEW"}, []string{"INVALID"}},
}
var negMarks = []negValue{
	{"0x10/0xffffffff", []string{"--set-mark 0x10", "--set-mark 16", "--set-xmark 0x10/0xffffffff", "--set-mark 0x10/0xFFFFFFFF", "--set-mark 0X10"}, []string{"0x1/0xffffffff", "0x100/0xffffffff"}},
	{"0xa/0xffffffff", []string{"--set-mark 10", "--set-mark 0xa", "--set-mark 0xA", "--set-xmark 0xA/0xFFFFFFFF"}, []string{"0x10/0xffffffff", "0xa0/0xffffffff"}},
}

// genNegPair: device rule in iptables-save spelling, target rule in a user spelling; they differ in the negation,
// or in the spelling only, or (sometimes) in a neighbouring value.
func genNegPair(rng *RNG) *c05Case {
	c := &c05Case{Stream: "neg-pairs"}
	neg := func(b bool) string {
		if b {
			return "! "
		}
		return ""
	}
	// user placement of the negation: before the key or behind it
	place := func(b bool, key, val string) string {
		switch {
		case !b:
			return key + " " + val
		case rng.Chance(50):
			return "! " + key + " " + val
		}
		return key + " ! " + val
	}
	c.DevNeg, c.TgtNeg = rng.Chance(50), rng.Chance(50)
	if rng.Chance(35) {
		c.TgtNeg = c.DevNeg // only the spelling differs
	}
	pickVal := func(l []negValue) (string, string) {
		v := Pick(rng, l)
		k := v.kernel
		if rng.Chance(15) {
			k = Pick(rng, v.near)
		}
		return k, Pick(rng, v.users)
	}
	jump := Pick(rng, []string{"ACCEPT", "DROP", "c1"})
	switch kind := rng.Intn(100); {
	case kind < 45:
		c.Kind = "port"
		key := Pick(rng, []string{"--sport", "--dport"})
		pr := Pick(rng, []string{"tcp", "udp"})
		kv, uv := pickVal(negPorts)
		c.RuleA = "-p " + pr + " -m " + pr + " " + neg(c.DevNeg) + key + " " + kv + " -j " + jump
		up := pr
		if rng.Chance(30) {
			up = strings.ToUpper(pr)
		}
		c.RuleB = "-p " + up + " " + place(c.TgtNeg, key, uv) + " -j " + jump
		if rng.Chance(25) { // both port options, the other one plain
			other := map[string]string{"--sport": "--dport", "--dport": "--sport"}[key]
			c.RuleA = "-p " + pr + " -m " + pr + " --" + other[2:] + " 53 " + neg(c.DevNeg) + key + " " + kv + " -j " + jump
			c.RuleB = "-p " + up + " " + other + " 53 " + place(c.TgtNeg, key, uv) + " -j " + jump
			if other == "--dport" { // iptables-save prints --sport before --dport
				c.RuleA = "-p " + pr + " -m " + pr + " " + neg(c.DevNeg) + key + " " + kv + " --dport 53 -j " + jump
			}
		}
	case kind < 60:
		c.Kind = "address"
		key := Pick(rng, []string{"-s", "-d"})
		kv, uv := pickVal(negAddrs)
		c.RuleA = neg(c.DevNeg) + key + " " + kv + " -j " + jump
		c.RuleB = place(c.TgtNeg, key, uv) + " -j " + jump
	case kind < 68:
		c.Kind = "interface"
		kv, uv := pickVal(negIfs)
		c.RuleA = neg(c.DevNeg) + "-i " + kv + " -j " + jump
		c.RuleB = place(c.TgtNeg, "-i", uv) + " -j " + jump
	case kind < 82:
		c.Kind = "proto"
		kv, uv := pickVal(negProtos)
		c.RuleA = neg(c.DevNeg) + "-p " + kv + " -j " + jump
		c.RuleB = place(c.TgtNeg, "-p", uv) + " -j " + jump
	case kind < 93:
		c.Kind = "state"
		kv, uv := pickVal(negStates)
		c.RuleA = "-m state " + neg(c.DevNeg) + "--state " + kv + " -j " + jump
		c.RuleB = "-m state " + place(c.TgtNeg, "--state", uv) + " -j " + jump
	default:
		c.Kind = "mark"
		c.DevNeg, c.TgtNeg = false, false
		kv, uv := pickVal(negMarks)
		c.RuleA = "-j MARK --set-xmark " + kv
		c.RuleB = "-j MARK " + uv
	}
	extra := ""
	if rng.Chance(30) {
		extra = "-A INPUT -s 10.9.9.9/32 -j ACCEPT\n"
	}
	c.Dev = "# Generated by iptables-save v1.8.7\n*filter\n:INPUT DROP [0:0]\n:c1 - [0:0]\n" + extra + "-A INPUT " + c.RuleA + "\nCOMMIT\n"
	c.Spoc = "*filter\n:INPUT DROP\n:c1 -\n" + extra + "-A INPUT " + c.RuleB + "\nCOMMIT\n"
	return c
}

// ---------------------------------------------------------------- the repository's own test data as corpus

type tCase struct{ title, dev, spoc, output, errText string }

func readTestData(repo string) []tCase {
	var out []tCase
	for _, f := range []string{"linux_route.t", "linux_parse.t"} {
		data, err := os.ReadFile(filepath.Join(repo, "go", "testdata", f))
		if err != nil {
			continue
		}
		templ := map[string]string{}
		var cur map[string]string
		var sect string
		flush := func() {
			if cur == nil || cur["TITLE"] == "" {
				return
			}
			subst := func(x string) string {
				for k, v := range templ {
					x = strings.ReplaceAll(x, "[["+k+"]]", v)
				}
				return x
			}
			if strings.Contains(cur["NETSPOC"], "\n--") || strings.HasPrefix(cur["NETSPOC"], "--") {
				return
			}
			out = append(out, tCase{cur["TITLE"], subst(cur["DEVICE"]), subst(cur["NETSPOC"]), subst(cur["OUTPUT"]), cur["ERROR"]})
		}
		var templName string
		for _, line := range strings.Split(string(data), "\n") {
			if strings.HasPrefix(line, "=") && strings.Count(line, "=") >= 2 {
				rest := line[1:]
				name, val, _ := strings.Cut(rest, "=")
				switch name {
				case "TITLE":
					flush()
					cur = map[string]string{"TITLE": val}
					sect = ""
				case "END":
					sect = ""
				case "TEMPL":
					templName = val
					templ[templName] = ""
					sect = "TEMPL"
				default:
					sect = name
					if cur != nil {
						if val == "NONE" {
							val = ""
							sect = ""
						}
						cur[name] = val
						if val != "" {
							cur[name] += "\n"
						}
					}
				}
				continue
			}
			if strings.HasPrefix(line, "####") {
				continue
			}
			switch sect {
			case "":
			case "TEMPL":
				templ[templName] += line + "\n"
			default:
				if cur != nil {
					cur[sect] += line + "\n"
				}
			}
		}
		flush()
	}
	return out
}

// ---------------------------------------------------------------- the property runner

func runC05(ctx *Ctx) *Result {
	res := NewResult()
	res.Rule = "pairs (device file, Netspoc file) for `drc -q DEVICE TARGET` with model Linux: the repository's linux_route.t / linux_parse.t cases, " +
		"fixed witnesses of the findings, then seeded random: abstract route sets and rule sets of the grammar (device in kernel spelling, " +
		"target in user spelling with random hints; device = target with a random semantic mutation), text soup (malformed stream), " +
		"option-map soup for normalizeIPTables. non-trivial = the real code printed a non-empty script or an abort message, or the device text " +
		"differs from the target text although no change is reported (the normaliser did work); distinct by the two file texts"
	res.Assumptions = []string{
		"device semantics (NA/Spec/Linux.lean): kernel route table = set of (dst, prefix, hop) with strict add/del; iptables-restore replaces exactly the tables named in the file",
		"iptables-save spelling as in NA/Spec/Linux.lean kernelWords (both variants: protocols 112/58 printed as names or as numbers)",
		"no raw and no ipv6 file next to the target (MergeSpoc is C18's subject)",
	}
	tmp, err := os.MkdirTemp("", "vh-c05-")
	if err != nil {
		panic(err)
	}
	defer os.RemoveAll(tmp)
	run := &runner{dir: tmp}
	// vhlib seeds its splitmix64 linearly (seed s+1 is seed s advanced by one step); mix the seed so
	// that different VERIF_SEEDs give unrelated streams.  Still a pure function of the seed.
	mix := ctx.Seed ^ ctx.Rng.Next()
	mix = (mix ^ (mix >> 33)) * 0xff51afd7ed558ccd
	mix = (mix ^ (mix >> 33)) * 0xc4ceb9fe1a85ec53
	base := NewRNG(mix ^ (mix >> 33))
	drv := ctx.StartNadrv("c05")
	defer drv.Close()

	// lastViol: `table:chain:index:reason` for every target rule outside the class of C05 (from the driver's `mk`)
	lastViol := ""
	// judge: the direct oracle on a script printed by the real code (file mode or device mode); `rerun`
	// runs the real compare again on the device text the specification computes for afterwards and says
	// whether the model agrees with that second run. modelAgrees: the model printed the same script.
	judge := func(c *c05Case, why, script string, modelAgrees bool, rerun func(dev2 string) (string, int, string, bool)) {
		o := strings.Split(drv.Ask(strings.Join([]string{"oracle", b2s(c.Names), encRoutes(c.DevRoutes), encRS(c.DevRS),
			strings.Join(c.TgtRoutes, ls), encRS(c.TgtRS), toLine(strings.TrimSuffix(script, "\n"))}, fs)), fs)
		if len(o) != 7 {
			res.Disagree("c05 oracle (driver cannot read the case)", c, script, strings.Join(o, "|"))
			return
		}
		res.Count("oracle:" + o[0])
		hard := false
		for _, pred := range []string{o[4], o[5]} {
			if pred != "" {
				// the only first-stage failure the judgement continues behind: the specification knows the device afterwards
				if pred != "device_table_absent_from_target" {
					hard = true
				}
				sig := map[string]any{"pred": pred}
				if pred == "device_table_absent_from_target" {
					sig["model_predicts"], sig["tables"] = modelAgrees, o[2]
				}
				if pred == "route_destination_uncovered_during_change" {
					sig["backend"], sig["level"] = "linux", o[2]
				}
				res.Fail(sig, "executing the script printed by the real code on the device semantics: "+pred+" "+o[2], c)
			}
		}
		if o[6] != "" {
			// noted, not final: the restore file was executed all the same and the second compare follows
			res.Fail(spellingSig(o[6], why, lastViol, script, modelAgrees), "executing the script printed by the real code on the device semantics: "+o[6], c)
		}
		if hard {
			res.Count("second-compare:not reached (" + o[4] + o[5] + ")")
			return
		}
		// ---- the device afterwards, as it prints itself: the second compare must be empty
		out2, st2, err2, agree2 := rerun(fromLine(o[3]) + "\n")
		res.Count("second-compare")
		if o[5] == "device_table_absent_from_target" {
			// F-C05t: the device-only tables stay; the second compare must say exactly that again and nothing else
			want := strings.Split(o[2], ",")
			sort.Strings(want)
			first, _, _ := strings.Cut(out2, "\n")
			if st2 == 0 && agree2 && first == "iptables differs at [tables: "+strings.Join(want, ",")+"<->]" {
				res.Count("second-compare:device-only tables reported again (F-C05t)")
				return
			}
		}
		if st2 != 0 || out2 != "" {
			first, _, _ := strings.Cut(out2+err2, "\n")
			res.Fail(spellingSig("second_compare_reports_change", why, lastViol, out2, agree2), "after a successful approve the device (kernel spelling) still differs from the target: "+first, c)
		}
	}

	// one case: tie, then (abstract cases) the oracle
	runCase := func(c *c05Case) {
		res.Count("stream:" + c.Stream)
		why := ""
		if c.Abstract {
			ans := strings.Split(drv.Ask(strings.Join([]string{"mk", b2s(c.Names), encRoutes(c.DevRoutes), encRS(c.DevRS), encRS(c.TgtRS)}, fs)), fs)
			if ans[0] != "OK" || len(ans) != 6 {
				res.Disagree("c05 mk (driver cannot read the abstract case)", c, "", strings.Join(ans, "|"))
				return
			}
			lastViol = ans[5]
			devLines := splitLines(ans[1])
			// ignored lines of `ip route show` at random but reproducible positions
			for i, nline := range c.Noise {
				pos := (i * 7) % (len(devLines) + 1)
				if pos > len(c.DevRoutes) {
					pos = len(c.DevRoutes)
				}
				devLines = append(devLines[:pos], append([]string{"ip route add " + nline}, devLines[pos:]...)...)
			}
			c.Dev = strings.Join(devLines, "\n") + "\n"
			c.Spoc = strings.Join(append(append([]string{}, c.TgtRoutes...), splitLines(ans[2])...), "\n") + "\n"
			why = ans[4]
			if ans[3] == "1" {
				res.Count("grammar:wf")
			} else {
				res.Count("grammar:outside(" + why + ")")
			}
		}
		impl := run.drc(c.Dev, c.Spoc)
		ans := drv.Ask("cmp" + fs + toLine(c.Dev) + fs + toLine(c.Spoc))
		res.TracesVsImpl++
		nontrivial := impl.Stdout != "" || impl.Status != 0 || (c.Abstract && c.Dev != c.Spoc)
		res.Eval(c.Dev+"\x00"+c.Spoc, nontrivial)
		switch {
		case impl.Status != 0:
			res.Count("outcome:abort")
			first, _, _ := strings.Cut(impl.Stderr, "\n")
			if i := strings.IndexAny(first, ":\""); i > 0 {
				first = first[:i]
			}
			res.Count("abort:" + strings.TrimPrefix(first, "ERROR>>> "))
		case impl.Stdout == "":
			res.Count("outcome:unchanged")
		default:
			res.Count("outcome:changed")
			for _, l := range strings.Split(impl.Stdout, "\n") {
				switch {
				case strings.Contains(l, "\\N "):
					res.Count("script:route-replace")
				case strings.HasPrefix(l, "ip route add"):
					res.Count("script:route-add")
				case strings.HasPrefix(l, "ip route del"):
					res.Count("script:route-del")
				case strings.HasPrefix(l, "iptables differs"):
					kind := "value"
					for _, k := range []string{"[tables:", "[chains:", "POLICY", "[size:", "[options:"} {
						if strings.Contains(l, k) {
							kind = strings.Trim(k, "[:")
						}
					}
					res.Count("script:iptables-" + kind)
				}
			}
		}
		d := agree(impl, ans, len(c.TgtRoutes) > 12)
		if d != "" {
			res.Disagree("c05 drc vs model: "+d, c, fmt.Sprintf("status=%d stdout=%q stderr=%q panic=%q", impl.Status, impl.Stdout, impl.Stderr, impl.Panic), ans)
			// no return: the oracle below judges the real output on its own
		}
		if len(res.Samples) < 4 && nontrivial && c.Abstract && impl.Stdout != "" {
			res.Sample(map[string]any{"device": c.Dev, "target": c.Spoc, "script": impl.Stdout})
		}
		if !c.Abstract || impl.Status != 0 {
			return
		}
		judge(c, why, impl.Stdout, d == "", func(dev2 string) (string, int, string, bool) {
			impl2 := run.drc(dev2, c.Spoc)
			ans2 := drv.Ask("cmp" + fs + toLine(dev2) + fs + toLine(c.Spoc))
			return impl2.Stdout, impl2.Status, impl2.Stderr, agree(impl2, ans2, len(c.TgtRoutes) > 12) == ""
		})
	}

	// neg-pairs: the specification reads the MEANING of both rule texts (driver op `sem`); the real compare must
	// report a change iff the meanings differ
	runNegPair := func(c *c05Case) {
		res.Count("stream:neg-pairs")
		impl := run.drc(c.Dev, c.Spoc)
		ans := drv.Ask("cmp" + fs + toLine(c.Dev) + fs + toLine(c.Spoc))
		res.TracesVsImpl++
		res.Eval("negpair\x00"+c.Dev+"\x00"+c.Spoc, true)
		d := agree(impl, ans, false)
		if d != "" {
			res.Disagree("c05 drc vs model: "+d, c, fmt.Sprintf("status=%d stdout=%q stderr=%q panic=%q", impl.Status, impl.Stdout, impl.Stderr, impl.Panic), ans)
		}
		sem := drv.Ask("sem" + fs + c.RuleA + fs + c.RuleB)
		if impl.Status != 0 || impl.Panic != "" || (sem != "eq" && sem != "ne") {
			res.Disagree("c05 neg-pairs: a generated pair is not read (specification: "+sem+")", c, impl.Stderr+impl.Panic, "")
			return
		}
		changed := impl.Stdout != ""
		res.Count(fmt.Sprintf("neg-pairs:%s,meaning=%s,changed=%v", c.Kind, sem, changed))
		if c.DevNeg != c.TgtNeg {
			res.Count("neg-pairs:only the negation differs," + c.Kind)
		}
		first, _, _ := strings.Cut(impl.Stdout, "\n")
		switch {
		case sem == "ne" && !changed:
			res.Fail(map[string]any{"pred": "rule_change_missed", "kind": c.Kind, "dev_negated": c.DevNeg, "tgt_negated": c.TgtNeg},
				"device rule `"+c.RuleA+"` and target rule `"+c.RuleB+"` do not mean the same, yet no change is reported", c)
		case sem == "eq" && changed:
			// would the same two spellings compare equal without the negation? (then the normaliser does not look behind the `!`)
			plainEq := false
			if c.DevNeg && c.TgtNeg {
				strip := func(x string) string { return strings.Replace(strings.Replace(x, " ! ", " ", 1), "-A INPUT ! ", "-A INPUT ", 1) }
				p := run.drc(strip(c.Dev), strip(c.Spoc))
				pm := drv.Ask("cmp" + fs + toLine(strip(c.Dev)) + fs + toLine(strip(c.Spoc)))
				plainEq = p.Status == 0 && p.Stdout == "" && agree(p, pm, false) == "" &&
					drv.Ask("sem"+fs+strings.Replace(c.RuleA, "! ", "", 1)+fs+strings.Replace(c.RuleB, "! ", "", 1)) == "eq"
			}
			res.Fail(map[string]any{"pred": "equivalent_spelling_reported_as_change", "kind": c.Kind, "negated": c.DevNeg && c.TgtNeg,
				"model_predicts": d == "", "same_pair_without_negation_is_equal": plainEq},
				"device rule `"+c.RuleA+"` and target rule `"+c.RuleB+"` mean the same, yet a change is reported: "+first, c)
		}
	}
	// ---- the device path: the real LoadDevice / GetChanges / ApplyCommands against a simulated host
	flatten := func(lines []string) []string {
		var out []string
		for _, l := range lines {
			out = append(out, strings.Split(l, "\\N ")...)
		}
		return out
	}
	sameList := func(a, b []string) bool {
		if len(a) != len(b) {
			return false
		}
		for i := range a {
			if a[i] != b[i] {
				return false
			}
		}
		return true
	}
	devTexts := func(c *c05Case) (routesOut, iptOut, spoc, why string, ok bool) {
		ans := strings.Split(drv.Ask(strings.Join([]string{"mk", b2s(c.Names), encRoutes(c.DevRoutes), encRS(c.DevRS), encRS(c.TgtRS)}, fs)), fs)
		if ans[0] != "OK" || len(ans) != 6 {
			res.Disagree("c05 mk (driver cannot read the abstract case)", c, "", strings.Join(ans, "|"))
			return "", "", "", "", false
		}
		why, lastViol = ans[4], ans[5]
		var rl, il []string
		for _, l := range splitLines(ans[1]) {
			if strings.HasPrefix(l, "ip route add ") {
				rl = append(rl, strings.TrimPrefix(l, "ip route add "))
			} else {
				il = append(il, l)
			}
		}
		for i, nline := range c.Noise {
			pos := (i * 7) % (len(rl) + 1)
			rl = append(rl[:pos], append([]string{nline}, rl[pos:]...)...)
		}
		if len(rl) > 0 {
			routesOut = strings.Join(rl, "\n") + "\n"
		}
		if len(il) > 0 {
			iptOut = strings.Join(il, "\n") + "\n"
		}
		spoc = strings.Join(append(append([]string{}, c.TgtRoutes...), splitLines(ans[2])...), "\n") + "\n"
		return routesOut, iptOut, spoc, why, true
	}
	// ---- the host's files, judged by the specification (driver op `boot`): what would the host run after a reboot?
	// bootReasons: why /etc/network/packet-filter resp. /etc/network/routing do NOT bring up exactly the target ("" = they do)
	bootReasons := func(c *c05Case, pf, rt string) (string, string) {
		a := strings.Split(drv.Ask(strings.Join([]string{"boot", strings.Join(c.TgtRoutes, ls), encRS(c.TgtRS), restorer,
			toLine(strings.TrimSuffix(pf, "\n")), toLine(strings.TrimSuffix(rt, "\n"))}, fs)), fs)
		if len(a) != 3 || a[0] != "boot" {
			res.Disagree("c05 boot (driver cannot read the case)", c, pf+rt, strings.Join(a, "|"))
			return "driver", "driver"
		}
		return a[1], a[2]
	}
	// judgeHost: after ONE successful approve that started from the files `before`. needIpt / needRt: the change
	// this approve had to make (rule set differs / at least one route command).  Returns whether all is well.
	judgeHost := func(c *c05Case, label string, before, h hostOut, needIpt, needRt bool) bool {
		good := true
		fail := func(pred, reason, what string) {
			good = false
			res.Fail(map[string]any{"pred": "linux_host_" + pred, "reason": reason}, label+": "+what, c)
		}
		ri, rr := bootReasons(c, h.PF, h.RT)
		if needIpt {
			switch {
			case ri != "":
				fail("startup_iptables_file_wrong", ri, "after a successful approve /etc/network/packet-filter does not bring up the target's rule set at boot")
			case len(h.Loaded) != 1:
				fail("rule_file_loaded_n_times", strconv.Itoa(len(h.Loaded)), "the approve had to load the new rule set exactly once")
			case h.Loaded[0] != h.PF:
				fail("loaded_rules_differ_from_startup_file", "", "the rule file the host executed is not the one installed as start-up file")
			}
		} else {
			if h.PF != before.PF {
				fail("startup_iptables_file_touched", "", "no rule change was due, yet /etc/network/packet-filter changed")
			}
			if len(h.Loaded) != 0 {
				fail("rule_file_loaded_n_times", strconv.Itoa(len(h.Loaded)), "no rule change was due, yet a rule file was executed")
			}
		}
		if h.NewLeft && !(before.NewLeft && !needIpt) {
			fail("tmp_rule_file_left", "", "/etc/network/packet-filter.new is still there after a successful approve")
		}
		if len(h.Others) > 0 {
			fail("stray_file", strings.Join(h.Others, ","), "the approve left a file in /etc/network that does not belong there")
		}
		if needRt {
			if rr != "" {
				fail("startup_routing_file_wrong", rr, "after a successful approve /etc/network/routing does not bring up the target's routes at boot")
			}
		} else if h.RT != before.RT {
			fail("startup_routing_file_touched", "", "no route change was due, yet /etc/network/routing changed")
		}
		if good {
			res.Count("host-files:good after " + label)
		}
		return good
	}
	// approveOnHost: one complete, undisturbed approve through the device path; the commands the host accepted are
	// executed on the specification's route table, the files are judged as above.
	approveOnHost := func(c *c05Case, routesOut, iptOut, spoc, cmpLog string) {
		run.fs = run.newHostFs()
		defer func() { os.RemoveAll(run.fs); run.fs = "" }()
		before := hostOut{PF: oldPF, RT: oldRT}
		impl, _, cmds := run.deviceRun(false, routesOut, iptOut, spoc, -1)
		res.TracesVsImpl++
		res.Count("stream:device-approve")
		h := run.host
		if impl.Status != 0 || impl.Panic != "" {
			first, _, _ := strings.Cut(impl.Stderr+impl.Panic, "\n")
			res.Fail(map[string]any{"pred": "linux_host_approve_aborts"}, "the compare succeeds but the approve of the same change aborts on the simulated host: "+first, c)
			return
		}
		needIpt := strings.Contains(cmpLog, "iptables differs at")
		var planned, sent []string
		for _, l := range strings.Split(cmpLog, "\n") {
			if strings.HasPrefix(l, "ip route ") {
				planned = append(planned, strings.Split(l, "\\N ")...)
			}
		}
		for _, l := range cmds {
			if strings.HasPrefix(l, "ip route ") {
				sent = append(sent, l)
			}
		}
		if strings.Join(planned, "\n") != strings.Join(sent, "\n") {
			res.Fail(map[string]any{"pred": "linux_host_route_commands_differ_from_compare"}, "approve sends other route commands than compare announced", c)
		}
		o := strings.Split(drv.Ask(strings.Join([]string{"rexec", encRoutes(c.DevRoutes), strings.Join(sent, ls), strings.Join(c.TgtRoutes, ls)}, fs)), fs)
		if len(o) != 4 || o[0] != "ok" || o[2] != "1" {
			res.Count("device-approve:routes not converged (judged by the script oracle)")
		}
		judgeHost(c, "complete approve", before, h, needIpt, len(planned) > 0)
	}
	runDeviceCompare := func(c *c05Case) {
		routesOut, iptOut, spoc, why, ok := devTexts(c)
		if !ok {
			return
		}
		odd := c.OddLine != ""
		if odd {
			iptOut += c.OddLine + "\n"
		}
		c.Dev, c.Spoc = "ROUTES\n"+routesOut+"IPTABLES\n"+iptOut, spoc
		impl, cmpLog, _ := run.deviceRun(true, routesOut, iptOut, spoc, -1)
		ans := drv.Ask("dev" + fs + toLine(iptOut) + fs + toLine(routesOut) + fs + toLine(spoc))
		res.Count("stream:device-compare")
		res.TracesVsImpl++
		res.Eval("dev\x00"+c.Dev+"\x00"+spoc, cmpLog != "" || impl.Status != 0)
		switch {
		case impl.Status != 0:
			res.Count("device:abort")
		case cmpLog == "":
			res.Count("device:unchanged")
		default:
			res.Count("device:changed")
		}
		// oracle (specification side only): what the device prints according to the specification
		// (`iptables-save` with its comment lines and counters, `ip route show`) must be readable
		if !odd && (impl.Status != 0 || impl.Panic != "") {
			first, _, _ := strings.Cut(impl.Stderr+impl.Panic, "\n")
			res.Fail(map[string]any{"pred": "device_output_rejected"},
				"LoadDevice aborts on output a Linux host prints (iptables-save / ip route show): "+first, c)
		}
		dd := agree(implOut{Stdout: cmpLog, Stderr: impl.Stderr, Status: impl.Status, Panic: impl.Panic}, ans, len(c.TgtRoutes) > 12)
		if dd != "" {
			res.Disagree("c05 device path (drc -C against the simulated host) vs model: "+dd, c,
				fmt.Sprintf("status=%d cmp=%q stderr=%q panic=%q", impl.Status, cmpLog, impl.Stderr, impl.Panic), ans)
		}
		if !odd && impl.Status == 0 {
			approveOnHost(c, routesOut, iptOut, spoc, cmpLog)
			judge(c, why, cmpLog, dd == "", func(dev2 string) (string, int, string, bool) {
				var rl, il []string
				for _, l := range strings.Split(strings.TrimSuffix(dev2, "\n"), "\n") {
					if strings.HasPrefix(l, "ip route add ") {
						rl = append(rl, strings.TrimPrefix(l, "ip route add "))
					} else if l != "" {
						il = append(il, l)
					}
				}
				r2, i2 := "", ""
				if len(rl) > 0 {
					r2 = strings.Join(rl, "\n") + "\n"
				}
				if len(il) > 0 {
					i2 = strings.Join(il, "\n") + "\n"
				}
				impl2, cmp2, _ := run.deviceRun(true, r2, i2, spoc, -1)
				ans2 := drv.Ask("dev" + fs + toLine(i2) + fs + toLine(r2) + fs + toLine(spoc))
				return cmp2, impl2.Status, impl2.Stderr, agree(implOut{Stdout: cmp2, Stderr: impl2.Stderr, Status: impl2.Status, Panic: impl2.Panic}, ans2, len(c.TgtRoutes) > 12) == ""
			})
		}
	}
	runDeviceResume := func(c *c05Case) {
		routesOut, _, spoc, _, ok := devTexts(c)
		if !ok {
			return
		}
		c.Dev, c.Spoc = routesOut, spoc
		res.Count("stream:device-resume")
		model := strings.Split(drv.Ask("dev"+fs+""+fs+toLine(routesOut)+fs+toLine(spoc)), fs)
		if model[0] != "OK" {
			res.Disagree("c05 device-resume: model rejects a generated case", c, "", strings.Join(model, "|"))
			return
		}
		full := flatten(splitLines(model[1]))
		k := c.FailAt
		run.fs = run.newHostFs()
		defer func() { os.RemoveAll(run.fs); run.fs = "" }()
		h0 := hostOut{PF: oldPF, RT: oldRT}
		impl1, _, cmds1 := run.deviceRun(false, routesOut, "", spoc, k)
		h1 := run.host
		res.TracesVsImpl++
		res.Eval(fmt.Sprintf("resume\x00%d\x00%s\x00%s", k, routesOut, spoc), len(full) > 0)
		want1 := full
		if k < len(full) {
			want1 = full[:k]
			res.Count("resume:interrupted")
		} else {
			res.Count("resume:complete")
		}
		if !sameList(cmds1, want1) || (k < len(full)) != (impl1.Status != 0) || impl1.Panic != "" {
			res.Disagree("c05 device path (approve, commands accepted by the simulated host) vs model", c,
				fmt.Sprintf("status=%d cmds=%q stderr=%q", impl1.Status, cmds1, impl1.Stderr), strings.Join(want1, "|"))
			return
		}
		tgt := strings.Join(c.TgtRoutes, ls)
		o1 := strings.Split(drv.Ask(strings.Join([]string{"rexec", encRoutes(c.DevRoutes), strings.Join(cmds1, ls), tgt}, fs)), fs)
		if o1[0] != "ok" || len(o1) != 4 {
			res.Fail(map[string]any{"pred": predName("resume_prefix_command_fails")}, "a prefix of the route script fails on the strict kernel table", c)
			return
		}
		routes2 := ""
		if o1[1] != "" {
			routes2 = fromLine(o1[1]) + "\n"
		}
		if k >= len(full) {
			judgeHost(c, "approve (routes only)", h0, h1, false, len(full) > 0)
		} else if h1.PF != h0.PF || h1.RT != h0.RT {
			res.Fail(map[string]any{"pred": "linux_host_startup_file_written_before_routes_done"}, "the session died inside the route commands, yet a start-up file changed", c)
		}
		impl2, _, cmds2 := run.deviceRun(false, routes2, "", spoc, -1)
		h2 := run.host
		model2 := strings.Split(drv.Ask("dev"+fs+""+fs+toLine(routes2)+fs+toLine(spoc)), fs)
		res.TracesVsImpl++
		if model2[0] != "OK" || impl2.Status != 0 || !sameList(cmds2, flatten(splitLines(model2[1]))) {
			res.Disagree("c05 device path (second approve after an interrupted one) vs model", c,
				fmt.Sprintf("status=%d cmds=%q stderr=%q", impl2.Status, cmds2, impl2.Stderr), strings.Join(model2, "|"))
			return
		}
		o2 := strings.Split(drv.Ask(strings.Join([]string{"rexec", o1[3], strings.Join(cmds2, ls), tgt}, fs)), fs)
		switch {
		case o2[0] != "ok":
			res.Fail(map[string]any{"pred": predName("resume_command_fails")}, fmt.Sprintf("after an approve interrupted behind %d commands the second approve sends a command the kernel rejects", k), c)
		case o2[2] != "1":
			res.Fail(map[string]any{"pred": predName("resume_not_converged")}, fmt.Sprintf("after an approve interrupted behind %d commands the second approve does not end in the target's routes", k), c)
		default:
			res.Count("resume:converged")
			// the second approve had route commands iff the first was cut: then it must write the routing file
			judgeHost(c, fmt.Sprintf("second approve after a cut at route command %d", k), h1, h2, false, len(cmds2) > 0)
			if _, rr := bootReasons(c, h2.PF, h2.RT); len(full) > 0 && rr != "" {
				res.Fail(map[string]any{"pred": "linux_host_startup_routing_file_wrong_after_resume", "reason": rr, "cut": "route"},
					"after the resumed approve /etc/network/routing does not bring up the target's routes", c)
			}
		}
	}
	// splitDev: device text of the specification (prefixed route lines + iptables-save) → the two outputs
	splitDev := func(dev string) (string, string) {
		var rl, il []string
		for _, l := range strings.Split(strings.TrimSuffix(dev, "\n"), "\n") {
			if strings.HasPrefix(l, "ip route add ") {
				rl = append(rl, strings.TrimPrefix(l, "ip route add "))
			} else if l != "" {
				il = append(il, l)
			}
		}
		r2, i2 := "", ""
		if len(rl) > 0 {
			r2 = strings.Join(rl, "\n") + "\n"
		}
		if len(il) > 0 {
			i2 = strings.Join(il, "\n") + "\n"
		}
		return r2, i2
	}
	// C10, whole approve: routes, then the restore file (which, scp, chmod, load, mv), then the start-up routing file (scp);
	// the session dies at c.Cut; a second approve must converge, a further compare report nothing, and the
	// host's start-up files must bring up the target at the next boot
	iptPhase := map[string]bool{"which": true, "scp-iptables": true, "chmod": true, "echo-after-chmod": true, "exec": true,
		"echo-after-exec": true, "mv": true, "echo-after-mv": true}
	runIptResume := func(c *c05Case) {
		routesOut, iptOut, spoc, why, ok := devTexts(c)
		if !ok {
			return
		}
		c.Dev, c.Spoc = "ROUTES\n"+routesOut+"IPTABLES\n"+iptOut, spoc
		res.Count("stream:ipt-resume")
		tnames := map[string]bool{}
		for _, tb := range c.TgtRS {
			tnames[tb.Name] = true
		}
		for _, tb := range c.DevRS {
			if !tnames[tb.Name] {
				why += ",device-only-table"
			}
		}
		if why != "" {
			res.Count("ipt-resume:skipped(outside the class of C05: " + why + ")")
			return
		}
		impl0, cmp0, _ := run.deviceRun(true, routesOut, iptOut, spoc, -1)
		o := strings.Split(drv.Ask(strings.Join([]string{"oracle", b2s(c.Names), encRoutes(c.DevRoutes), encRS(c.DevRS),
			strings.Join(c.TgtRoutes, ls), encRS(c.TgtRS), toLine(strings.TrimSuffix(cmp0, "\n"))}, fs)), fs)
		if impl0.Status != 0 || len(o) != 7 || o[4] != "" || o[5] != "" || o[6] != "" {
			res.Count("ipt-resume:skipped(the complete approve is C05's business)")
			return
		}
		_, fullIpt := splitDev(fromLine(o[3]) + "\n")
		needIpt := strings.Contains(cmp0, "iptables differs at")
		var planned []string
		for _, l := range strings.Split(cmp0, "\n") {
			if strings.HasPrefix(l, "ip route ") {
				planned = append(planned, strings.Split(l, "\\N ")...)
			}
		}
		needRt := len(planned) > 0
		routeCmds := func(cmds []string) (rc []string) {
			for _, l := range cmds {
				if strings.HasPrefix(l, "ip route ") {
					rc = append(rc, l)
				}
			}
			return
		}
		tgt := strings.Join(c.TgtRoutes, ls)
		run.fs = run.newHostFs()
		defer func() { os.RemoveAll(run.fs); run.fs = "" }()
		h0 := hostOut{PF: oldPF, RT: oldRT}
		// ---- first approve, cut.  cut "route": the session dies when route command number FailAt arrives, with the iptables change still ahead
		failAt, dieAt := -1, c.Cut
		if c.Cut == "route" {
			failAt, dieAt = c.FailAt, ""
		}
		impl1, _, cmds1 := run.deviceRun2(false, routesOut, iptOut, spoc, failAt, dieAt)
		h1 := run.host
		res.TracesVsImpl++
		res.Eval(fmt.Sprintf("iptresume\x00%s\x00%d\x00%s\x00%s", c.Cut, failAt, c.Dev, spoc), needIpt || needRt)
		rc1 := routeCmds(cmds1)
		cutHit := impl1.Status != 0
		// by EFFECT, not by the text of a command: a rule file was executed / the start-up files changed
		loaded1, moved1, rtWritten1 := len(h1.Loaded) > 0, h1.PF != h0.PF, h1.RT != h0.RT
		expectCut := (iptPhase[c.Cut] && needIpt) || (c.Cut == "scp-routing" && needRt) || (c.Cut == "route" && failAt < len(planned))
		if expectCut != cutHit {
			// e.g. the command the host was to die at is never sent: reported; the oracle below still judges the outcome
			res.Disagree(fmt.Sprintf("c05 ipt-resume: cut at %s, abort expected: %v, approve aborted: %v", c.Cut, expectCut, cutHit), c, impl1.Stderr, "")
		}
		res.Count(fmt.Sprintf("ipt-resume:cut=%s,hit=%v,loaded=%v,moved=%v,routing_written=%v", c.Cut, cutHit, loaded1, moved1, rtWritten1))
		if !cutHit {
			judgeHost(c, "first approve (not cut)", h0, h1, needIpt, needRt)
		}
		ipt2 := iptOut
		if loaded1 {
			// the kernel now runs what the executed file says: judged by the specification
			if ri, _ := bootReasons(c, h1.Loaded[len(h1.Loaded)-1], oldRT); ri != "" {
				res.Fail(map[string]any{"pred": "linux_host_loaded_rule_file_wrong", "reason": ri, "cut": c.Cut}, "the rule file the host executed does not give the target's rule set", c)
				return
			}
			ipt2 = fullIpt
		}
		o1 := strings.Split(drv.Ask(strings.Join([]string{"rexec", encRoutes(c.DevRoutes), strings.Join(rc1, ls), tgt}, fs)), fs)
		if o1[0] != "ok" || len(o1) != 4 {
			res.Fail(map[string]any{"pred": "c10_linux_route_command_rejected"}, "first approve: a route command fails on the strict kernel table", c)
			return
		}
		routesDone1 := o1[2] == "1"
		routes2 := ""
		if o1[1] != "" {
			routes2 = fromLine(o1[1]) + "\n"
		}
		// ---- second approve, undisturbed
		impl2, _, cmds2 := run.deviceRun2(false, routes2, ipt2, spoc, -1, "")
		h2 := run.host
		res.TracesVsImpl++
		if impl2.Status != 0 || impl2.Panic != "" {
			first, _, _ := strings.Cut(impl2.Stderr+impl2.Panic, "\n")
			res.Fail(map[string]any{"pred": "c10_linux_second_approve_aborts"}, "approve after a session cut at "+c.Cut+" aborts: "+first, c)
			return
		}
		rc2 := routeCmds(cmds2)
		loaded2, moved2 := len(h2.Loaded) > 0, h2.PF != h1.PF
		o2 := strings.Split(drv.Ask(strings.Join([]string{"rexec", o1[3], strings.Join(rc2, ls), tgt}, fs)), fs)
		switch {
		case o2[0] != "ok" || len(o2) != 4:
			res.Fail(map[string]any{"pred": "c10_linux_route_command_rejected"}, "second approve after a cut at "+c.Cut+": a route command fails on the strict kernel table", c)
			return
		case o2[2] != "1":
			res.Fail(map[string]any{"pred": "c10_linux_routes_not_converged"}, "second approve after a cut at "+c.Cut+" does not end in the target's routes", c)
			return
		}
		ipt3 := ipt2
		if loaded2 {
			if ri, _ := bootReasons(c, h2.Loaded[len(h2.Loaded)-1], oldRT); ri != "" {
				res.Fail(map[string]any{"pred": "linux_host_loaded_rule_file_wrong", "reason": ri, "cut": c.Cut}, "second approve: the rule file the host executed does not give the target's rule set", c)
				return
			}
			ipt3 = fullIpt
		}
		if ipt3 != fullIpt {
			res.Fail(map[string]any{"pred": "c10_linux_iptables_not_converged"}, "second approve after a cut at "+c.Cut+" does not load the target's rule set", c)
			return
		}
		routes3 := ""
		if o2[1] != "" {
			routes3 = fromLine(o2[1]) + "\n"
		}
		// ---- a further compare reports no change and leaves the host's files alone
		impl3, cmp3, _ := run.deviceRun(true, routes3, ipt3, spoc, -1)
		h3 := run.host
		res.TracesVsImpl++
		if impl3.Status != 0 || cmp3 != "" {
			first, _, _ := strings.Cut(cmp3+impl3.Stderr, "\n")
			res.Fail(map[string]any{"pred": "c10_linux_compare_after_resume_reports_change"}, "compare after the resumed approve (cut at "+c.Cut+"): "+first, c)
			return
		}
		if h3.PF != h2.PF || h3.RT != h2.RT || h3.NewLeft != h2.NewLeft || len(h3.Loaded) != 0 {
			res.Fail(map[string]any{"pred": "linux_host_compare_changes_host"}, "a compare run changed files of the host or loaded rules", c)
		}
		res.Count("ipt-resume:converged")
		// ---- the second approve by itself: what it had to change, it must have installed properly
		needIpt2, needRt2 := needIpt && !loaded1, needRt && !routesDone1
		if loaded2 && !moved2 {
			res.Fail(map[string]any{"pred": "c10_linux_second_approve_loads_but_does_not_install", "cut": c.Cut},
				"the second approve loads the rule set but /etc/network/packet-filter is not replaced", c)
		}
		if !judgeHost(c, "second approve after a cut at "+c.Cut, h1, h2, needIpt2, needRt2) {
			return
		}
		// ---- the start-up files after the resumed approve (what the host loads at the next boot)
		ri, rr := bootReasons(c, h2.PF, h2.RT)
		if needIpt && ri != "" {
			if h2.PF == oldPF && cutHit && loaded1 && !moved1 && !needIpt2 && !loaded2 {
				// F-C10l: pinned to the window "loaded, not yet installed"
				res.Fail(map[string]any{"pred": "c10_linux_startup_iptables_file_stale", "cut": c.Cut, "loaded_first": loaded1, "moved_first": moved1},
					"cut at "+c.Cut+": the new rule set is running, the second approve sees no difference and never moves packet-filter.new to /etc/network/packet-filter: a reboot loads the OLD rules", c)
			} else {
				res.Fail(map[string]any{"pred": "linux_host_startup_iptables_file_wrong_after_resume", "reason": ri, "cut": c.Cut, "loaded_first": loaded1, "moved_first": moved1},
					"after the resumed approve /etc/network/packet-filter does not bring up the target's rule set", c)
			}
		}
		if needRt && rr != "" {
			if h2.RT == oldRT && cutHit && routesDone1 && !rtWritten1 && len(rc2) == 0 {
				// F-C10l: pinned to the window "all route commands done, routing file not yet copied"
				res.Fail(map[string]any{"pred": "c10_linux_startup_routing_file_stale", "cut": c.Cut, "routes_done_first": routesDone1, "routing_written_first": rtWritten1},
					"cut at "+c.Cut+": all route commands were executed, the second approve sees no route difference and never writes /etc/network/routing: a reboot brings back the OLD routes", c)
			} else {
				res.Fail(map[string]any{"pred": "linux_host_startup_routing_file_wrong_after_resume", "reason": rr, "cut": c.Cut, "routes_done_first": routesDone1},
					"after the resumed approve /etc/network/routing does not bring up the target's routes", c)
			}
		}
	}
	if ctx.Replay != "" {
		var c c05Case
		if err := ReadReplay(ctx.Replay, &c); err != nil {
			fmt.Fprintln(os.Stderr, err)
			os.Exit(2)
		}
		switch c.Stream {
		case "device-compare":
			runDeviceCompare(&c)
		case "device-resume":
			runDeviceResume(&c)
		case "ipt-resume":
			runIptResume(&c)
		case "neg-pairs":
			runNegPair(&c)
		default:
			runCase(&c)
		}
		// a replay answers "does THIS input still violate the property beyond the listed classes":
		// failures matching a known entry of known/C05.jsonl (EVERY key of its signature, lists = any of) are noted, not reported
		type knownEntry struct {
			Status    string         `json:"status"`
			Property  string         `json:"property"`
			Signature map[string]any `json:"signature"`
		}
		var known []knownEntry
		if data, err := os.ReadFile(filepath.Join(ctx.Verif, "known", "C05.jsonl")); err == nil {
			for _, l := range strings.Split(string(data), "\n") {
				var e knownEntry
				if json.Unmarshal([]byte(l), &e) == nil && e.Status == "known" && len(e.Signature) > 0 {
					known = append(known, e)
				}
			}
		}
		matches := func(ks, sig map[string]any) bool {
			for k, v := range ks {
				sv, has := sig[k]
				if !has {
					return false
				}
				if l, isList := v.([]any); isList {
					found := false
					for _, x := range l {
						if fmt.Sprint(x) == fmt.Sprint(sv) {
							found = true
						}
					}
					if !found {
						return false
					}
				} else if fmt.Sprint(v) != fmt.Sprint(sv) {
					return false
				}
			}
			return true
		}
		var keep []Failure
		for _, f := range res.Failures {
			isKnown := false
			for _, e := range known {
				if matches(e.Signature, f.Sig) {
					isKnown = true
				}
			}
			if isKnown {
				res.Notes = append(res.Notes, "known finding on this input: "+fmt.Sprint(f.Sig["pred"]))
			} else {
				keep = append(keep, f)
			}
		}
		res.Failures = keep
		return res
	}

	cuts := []string{"route", "route", "which", "scp-iptables", "scp-routing", "chmod", "echo-after-chmod", "exec", "echo-after-exec", "mv", "echo-after-mv"}
	genIptResume := func(rng *RNG) *c05Case {
		c := &c05Case{Abstract: true, Names: rng.Bool(), Stream: "ipt-resume", FailAt: -1}
		c.DevRoutes, c.TgtRoutes, _ = genRoutes(rng, routeGenOpts{multiHop: rng.Chance(25), max: 5, many: rng.Chance(12)}, res)
		masked := func(rs []aTable) bool {
			for _, tb := range rs {
				for _, ch := range tb.Chains {
					for _, r := range ch.Rules {
						for _, o := range r {
							if f := strings.Split(o, "~"); f[0] == "mk" && len(f) > 2 && f[2] != "ffffffff" {
								return true
							}
						}
					}
				}
			}
			return false
		}
		for try := 0; try < 8; try++ { // a MARK with a mask is outside the class (F-C05k): draw again
			if c.TgtRS = genRS(rng, ruleOpts{}); !masked(c.TgtRS) {
				break
			}
		}
		resumeMut = true
		c.DevRS = mutateRS(rng, c.TgtRS, res, false)
		resumeMut = false
		if rng.Chance(15) {
			c.DevRS = nil // a fresh host
		}
		c.Cut = Pick(rng, cuts)
		if c.Cut == "route" {
			c.FailAt = rng.Intn(4)
		}
		return c
	}
	genRouteSteps := func(rng *RNG) *c05Case {
		c := &c05Case{Abstract: true, Stream: "route-steps"}
		c.DevRoutes, c.TgtRoutes, c.Noise = genRoutes(rng, routeGenOpts{nest: true, multiHop: rng.Chance(20), dupTarget: rng.Chance(5), max: 6}, res)
		return c
	}
	if c14Mode {
		res.Rule = "Linux share of C14 (route clause): device and target route sets over destinations that share a network address with different prefix lengths, " +
			"nested prefixes, the two halves of a net, default route, re-homed specifics; the REAL diffRoutes script (drc -q DEVICE TARGET) is executed line by line " +
			"(a joined `del \\N add` line is one step) on the strict kernel table of the Lean specification; after every step (a) every destination (address/length) that has a " +
			"route before and after has one, (b) every address of a small universe around the destinations that is covered by some route before and after is covered; " +
			"non-trivial = the script is not empty"
		// fixed witnesses: adding a more specific route next to a kept less specific one, and the reverse
		for _, w := range [][2][]string{
			{{"10.1.0.0/16 10.10.1.1"}, {"10.1.0.0/16 10.10.1.1", "10.1.0.0/24 10.10.1.2"}},
			{{"10.1.0.0/16 10.10.1.1", "10.1.0.0/24 10.10.1.2"}, {"10.1.0.0/16 10.10.1.1"}},
			{{"10.1.0.0/16 10.10.1.1"}, {"10.1.0.0/17 10.10.1.2", "10.1.128.0/17 10.10.1.2"}},
			{{"0.0.0.0/0 10.10.1.1", "10.1.0.0 10.10.1.2"}, {"0.0.0.0/0 10.10.1.3", "10.1.0.0/30 10.10.1.2"}},
		} {
			c := &c05Case{Abstract: true, Stream: "route-steps"}
			for _, d := range w[0] {
				f := strings.Fields(d)
				ip, plen := splitDst(f[0])
				c.DevRoutes = append(c.DevRoutes, devRoute{IP: ip, Plen: plen, Hop: f[1]})
			}
			for _, d := range w[1] {
				f := strings.Fields(d)
				ip, plen := splitDst(f[0])
				c.TgtRoutes = append(c.TgtRoutes, fmt.Sprintf("ip route add %s/%d via %s", ip, plen, f[1]))
			}
			runCase(c)
		}
		for i := 0; i < ctx.N(400, 20000); i++ {
			runCase(genRouteSteps(base.Fork()))
		}
		return res
	}
	if c10Mode {
		res.Rule = "Linux share of C10: the REAL approve (drc against the simulated Linux host) is cut — the session dies when route command k arrives " +
			"(stream device-resume; with an iptables change still ahead: cut `route` of stream ipt-resume), or at `which iptables-restore` (after the routes, before iptables), at chmod / at the restore file (before it is loaded), " +
			"behind the load or at mv (loaded, start-up file not yet replaced), behind mv (between the two start-up copies) (stream ipt-resume); the state the host is left in is " +
			"computed by the Lean specification; a second undisturbed approve must succeed and converge (routes: strict kernel table; iptables: the target's rule set loaded) " +
			"and a further compare must report nothing and leave the host alone; the host has a file system (scp, chmod, execution of the rule file, mv act on it; further cuts: the scp of the rule file / of the routing file fails) and " +
			"after every successful approve the specification judges /etc/network/packet-filter (iptables-restore into an empty kernel = the target) and /etc/network/routing (set of routes = the target). " +
			"non-trivial = the plan had at least one changing command"
		for i := 0; i < ctx.N(16, 600); i++ {
			rng := base.Fork()
			c := &c05Case{Abstract: true, Stream: "device-resume"}
			c.DevRoutes, c.TgtRoutes, _ = genRoutes(rng, routeGenOpts{multiHop: rng.Chance(30), dupTarget: rng.Chance(8), max: 7}, res)
			c.FailAt = rng.Intn(9)
			runDeviceResume(c)
		}
		for i := 0; i < ctx.N(24, 800); i++ {
			runIptResume(genIptResume(base.Fork()))
		}
		return res
	}

	// ---- corpus: the repository's own cases (also checks the harness against the expected output)
	for _, t := range readTestData(ctx.Repo) {
		c := &c05Case{Stream: "testdata", Dev: t.dev, Spoc: t.spoc}
		runCase(c)
		impl := run.drc(t.dev, t.spoc)
		if t.errText == "" && impl.Stdout != t.output {
			res.Disagree("c05 harness reproduces testdata case "+t.title, c, impl.Stdout, t.output)
		}
	}
	// ---- corpus: fixed witnesses
	for _, c := range witnesses() {
		runCase(c)
	}

	// ---- seeded random
	n := ctx.N(700, 30000)
	for i := 0; i < n; i++ {
		rng := base.Fork()
		c := &c05Case{Abstract: true, Names: rng.Bool()}
		switch k := rng.Intn(100); {
		case k < 30:
			c.Stream = "routes"
			c.DevRoutes, c.TgtRoutes, c.Noise = genRoutes(rng, routeGenOpts{multiHop: rng.Chance(35), dupTarget: rng.Chance(10), max: 8}, res)
		case k < 70:
			c.Stream = "iptables"
			c.TgtRS = genRS(rng, ruleOpts{})
			c.DevRS = mutateRS(rng, c.TgtRS, res, false)
			if rng.Chance(10) {
				c.DevRS = nil
			}
		default:
			c.Stream = "both"
			c.DevRoutes, c.TgtRoutes, c.Noise = genRoutes(rng, routeGenOpts{multiHop: rng.Chance(25), dupTarget: rng.Chance(8), max: 6}, res)
			c.TgtRS = genRS(rng, ruleOpts{})
			c.DevRS = mutateRS(rng, c.TgtRS, res, false)
		}
		runCase(c)
	}
	// single-token perturbation: device = target except for ONE token changed to a near-miss value
	// (address tail, prefix length, port, protocol, interface, mark, policy, negation, jump target, table name);
	// a change must be reported (oracle: iptables_change_missed otherwise) and the restore must converge
	for i := 0; i < ctx.N(150, 6000); i++ {
		rng := base.Fork()
		c := &c05Case{Abstract: true, Names: rng.Bool(), Stream: "near-miss"}
		var rules [][]string
		n := 1 + rng.Intn(3)
		for j := 0; j < n; j++ {
			rules = append(rules, nearMissRule(rng))
		}
		c.TgtRS = []aTable{{Name: "filter", Chains: []aChain{{Name: "INPUT", Policy: "DROP", Rules: rules}, {Name: "c1", Policy: "-"}}}}
		c.DevRS = cloneRS(c.TgtRS)
		what := ""
		switch k := rng.Intn(100); {
		case k < 5:
			c.DevRS[0].Chains[0].Policy = "ACCEPT"
			what = "policy"
		case k < 8:
			c.DevRS[0].Chains[1].Name = "c11"
			what = "chain-name"
		case k < 11:
			c.DevRS[0].Name = "filter2"
			what = "table-name"
		default:
			j := rng.Intn(len(rules))
			c.DevRS[0].Chains[0].Rules[j], what = nearMiss(rng, c.DevRS[0].Chains[0].Rules[j])
		}
		res.Count("near-miss:" + what)
		runCase(c)
	}
	// MARK rules whose device counterpart differs only in the mask (or not at all)
	for i := 0; i < ctx.N(50, 2000); i++ {
		rng := base.Fork()
		c := &c05Case{Abstract: true, Names: rng.Bool(), Stream: "mark-mask"}
		rules := [][]string{}
		n := rng.Intn(3)
		for j := 0; j < n; j++ {
			rules = append(rules, genRule(rng, ruleOpts{}))
		}
		mk := []string{"j~MARK", genMark(rng, rng.Chance(60)), "p~n~tcp~0~0", genPorts(rng, "dp")}
		Shuffle(rng, mk)
		pos := rng.Intn(len(rules) + 1)
		rules = append(rules[:pos], append([][]string{mk}, rules[pos:]...)...)
		c.TgtRS = []aTable{{Name: "mangle", Chains: []aChain{{Name: "PREROUTING", Policy: "ACCEPT", Rules: rules}}}}
		c.DevRS = cloneRS(c.TgtRS)
		if rng.Chance(75) {
			r := c.DevRS[0].Chains[0].Rules[pos]
			for j := range r {
				if strings.HasPrefix(r[j], "mk~") {
					r[j] = otherMask(rng, r[j])
				}
			}
			res.Count("ipt-mutation:mark-mask")
		}
		runCase(c)
	}
	// route step safety over nested / same-address destinations (the Linux share of C14)
	for i := 0; i < ctx.N(120, 5000); i++ {
		runCase(genRouteSteps(base.Fork()))
	}
	// excluded points, at a low rate (each is a listed class)
	for i := 0; i < ctx.N(60, 1500); i++ {
		rng := base.Fork()
		c := &c05Case{Abstract: true, Names: rng.Bool(), Stream: "excluded"}
		switch rng.Intn(4) {
		case 0:
			c.DevRoutes, c.TgtRoutes, c.Noise = genRoutes(rng, routeGenOpts{dupTarget: true, max: 5}, res)
		case 1:
			c.TgtRS = genRS(rng, ruleOpts{unnegSyn: true})
			c.DevRS = mutateRS(rng, c.TgtRS, res, false)
		case 2:
			c.TgtRS = genRS(rng, ruleOpts{stateWithProtoMatch: true})
			c.DevRS = mutateRS(rng, c.TgtRS, res, false)
		case 3:
			c.TgtRS = genRS(rng, ruleOpts{})
			c.DevRS = mutateRS(rng, c.TgtRS, res, false)
			c.DevRS = append(c.DevRS, aTable{Name: "raw", Chains: []aChain{{Name: "PREROUTING", Policy: "ACCEPT"}}})
		}
		runCase(c)
	}
	// text soup: malformed and odd input, tie only
	for i := 0; i < ctx.N(400, 20000); i++ {
		rng := base.Fork()
		runCase(&c05Case{Stream: "soup", Dev: genSoup(rng), Spoc: genSoup(rng)})
	}
	// more than 12 target routes (unstable sort): tie up to the order inside one prefix length
	for i := 0; i < ctx.N(20, 500); i++ {
		rng := base.Fork()
		c := &c05Case{Stream: "many-routes"}
		var dl, tl []string
		seen := map[string]bool{}
		for j := 0; j < 13+rng.Intn(20); j++ {
			d := fmt.Sprintf("10.%d.%d.0/%d", rng.Intn(4), rng.Intn(8), 16+rng.Intn(4)*4)
			if seen[d] {
				continue
			}
			seen[d] = true
			if rng.Chance(60) {
				dl = append(dl, "ip route add "+d+" via "+Pick(rng, hopPool))
			}
			if rng.Chance(80) {
				tl = append(tl, "ip route add "+d+" via "+Pick(rng, hopPool))
			}
		}
		c.Dev, c.Spoc = strings.Join(dl, "\n")+"\n", strings.Join(tl, "\n")+"\n"
		c.TgtRoutes = tl
		c.Abstract = false
		runCase(c)
	}
	if ctx.Thorough() {
		// bounded-exhaustive, routes: every device subset of 4 keys (2 destinations x 2 hops) against
		// every target sequence of up to 3 distinct keys
		type k4 struct {
			ip   string
			plen int
			hop  string
		}
		univ := []k4{{"10.1.1.0", 24, "10.10.1.1"}, {"10.1.1.0", 24, "10.10.1.2"}, {"0.0.0.0", 0, "10.10.1.1"}, {"0.0.0.0", 0, "10.10.1.2"}}
		var seqs [][]int
		var rec func(cur []int)
		rec = func(cur []int) {
			seqs = append(seqs, append([]int{}, cur...))
			if len(cur) == 3 {
				return
			}
			for i := range univ {
				used := false
				for _, j := range cur {
					used = used || j == i
				}
				if !used {
					rec(append(cur, i))
				}
			}
		}
		rec(nil)
		for mask := 0; mask < 16; mask++ {
			for _, sq := range seqs {
				c := &c05Case{Stream: "exhaustive-routes", Abstract: true}
				for i, u := range univ {
					if mask&(1<<i) != 0 {
						c.DevRoutes = append(c.DevRoutes, devRoute{IP: u.ip, Plen: u.plen, Hop: u.hop, Dev: "eth0"})
					}
				}
				for _, i := range sq {
					u := univ[i]
					c.TgtRoutes = append(c.TgtRoutes, fmt.Sprintf("ip route add %s/%d via %s", u.ip, u.plen, u.hop))
				}
				runCase(c)
			}
		}
		// bounded-exhaustive, spellings: one rule, every combination of the spelling hints of its options
		negs := []string{"n", "b", "a"}
		bools := []string{"0", "1"}
		var one [][]string
		for _, n := range negs {
			for _, h := range bools {
				one = append(one, []string{"j~ACCEPT", "s~" + n + "~10.1.1.1~32~" + h, "d~" + n + "~10.1.1.0~24~" + h})
			}
			for _, u := range bools {
				one = append(one, []string{"j~DROP", "p~" + n + "~tcp~" + u + "~0", "i~" + n + "~eth0"})
				one = append(one, []string{"j~DROP", "p~" + n + "~#47~" + u + "~0"})
			}
		}
		for _, u := range bools {
			for _, num := range bools {
				one = append(one, []string{"j~c1", "p~n~vrrp~" + u + "~" + num}, []string{"g~c1", "p~n~ipv6icmp~" + u + "~" + num})
			}
			for _, o := range bools {
				for z := 0; z < 3; z++ {
					for _, ps := range []string{"1~0~", "1~80~", "r~0~1023", "r~1024~65535", "r~0~65534", "r~1~65535", "r~80~90"} {
						one = append(one, []string{"j~ACCEPT", "p~n~udp~" + u + "~0", fmt.Sprintf("dp~%s~%d~%s", ps, z, o), fmt.Sprintf("sp~%s~%d~%s", ps, z, o)})
					}
				}
				one = append(one, []string{"j~ACCEPT", "p~n~tcp~" + u + "~0", "syn~" + o + "~0"}, []string{"j~ACCEPT", "p~n~tcp~0~0", "syn~" + o + "~1", "m~" + map[string]string{"0": "tcp", "1": "TCP"}[u]})
				one = append(one, []string{"j~LOG", "ll~7~" + o}, []string{"j~LOG", "ll~4~" + o})
			}
		}
		for _, x := range bools {
			for _, v := range [][2]string{{"1", "1"}, {"1", "0x01"}, {"f", "15"}, {"f", "0X0F"}, {"f", "0x0f/0xffffffff"}, {"f", "0XF/0XFFFFFFFF"}, {"10", "020"}, {"7fffffff", "2147483647"}, {"0", "0"}} {
				one = append(one, []string{"j~MARK", "mk~" + v[0] + "~ffffffff~" + x + "~" + v[1]})
			}
		}
		sts := []string{"E", "R", "N", "I", "U"}
		for i := range sts {
			for j := range sts {
				for k := range sts {
					if i != j && j != k && i != k {
						one = append(one, []string{"j~ACCEPT", "m~state", "st~" + sts[i] + sts[j] + sts[k]})
					}
				}
			}
		}
		// marks with masks: every target mask and spelling against every device mask
		for _, m1 := range markMasks {
			texts := []string{"0~0x10/0x" + m1, "0~16/0x" + m1, "1~0x10/0x" + m1}
			if m1 == "ffffffff" {
				texts = append(texts, "0~16", "1~0x10")
			}
			for _, tx := range texts {
				for _, m2 := range markMasks {
					tg := []aTable{{Name: "mangle", Chains: []aChain{{Name: "PREROUTING", Policy: "ACCEPT", Rules: [][]string{{"j~MARK", "mk~10~" + m1 + "~" + tx, "p~n~tcp~0~0"}}}}}}
					dv := []aTable{{Name: "mangle", Chains: []aChain{{Name: "PREROUTING", Policy: "ACCEPT", Rules: [][]string{{"j~MARK", "mk~10~" + m2 + "~0~16", "p~n~tcp~0~0"}}}}}}
					runCase(&c05Case{Stream: "exhaustive-mark-masks", Abstract: true, TgtRS: tg, DevRS: dv})
				}
			}
		}
		for _, r := range one {
			for _, names := range []bool{false, true} {
				rs := []aTable{{Name: "filter", Chains: []aChain{{Name: "INPUT", Policy: "DROP", Rules: [][]string{r}}}}}
				runCase(&c05Case{Stream: "exhaustive-spellings", Abstract: true, Names: names, TgtRS: rs, DevRS: cloneRS(rs)})
			}
		}
		res.Notes = append(res.Notes, "exhaustive: 16 device route sets x 41 target sequences over 4 keys; every hint combination of single-rule spellings per option kind, both protocol printing styles")
	}
	// rules that differ only in a negation, or only in a spelling that keeps the meaning (default bounds of port ranges,
	// leading zeros, /32, protocol name/number, order of states, default mark mask)
	for i := 0; i < ctx.N(400, 12000); i++ {
		runNegPair(genNegPair(base.Fork()))
	}
	tDev := time.Now()
	for i := 0; i < ctx.N(25, 350); i++ {
		rng := base.Fork()
		c := &c05Case{Abstract: true, Names: rng.Bool(), Stream: "device-compare"}
		c.DevRoutes, c.TgtRoutes, c.Noise = genRoutes(rng, routeGenOpts{multiHop: rng.Chance(25), dupTarget: rng.Chance(8), max: 6, many: i == 0 || rng.Chance(10)}, res)
		if len(c.TgtRoutes) > 12 {
			res.Count("device-compare:more than 12 target routes")
		}
		c.TgtRS = genRS(rng, ruleOpts{})
		c.DevRS = mutateRS(rng, c.TgtRS, res, false)
		if i > 0 && rng.Chance(8) {
			c.OddLine = Pick(rng, soupIpt) // an odd line in the device's output
		}
		runDeviceCompare(c)
	}
	// C10 for routes: approve is interrupted after k accepted `ip route` commands, then runs again
	for i := 0; i < ctx.N(15, 300); i++ {
		rng := base.Fork()
		c := &c05Case{Abstract: true, Stream: "device-resume"}
		c.DevRoutes, c.TgtRoutes, _ = genRoutes(rng, routeGenOpts{multiHop: rng.Chance(30), dupTarget: rng.Chance(8), max: 7}, res)
		c.FailAt = rng.Intn(9)
		runDeviceResume(c)
	}
	for i := 0; i < ctx.N(8, 150); i++ {
		runIptResume(genIptResume(base.Fork()))
	}
	res.Notes = append(res.Notes, fmt.Sprintf("device streams took %.1fs", time.Since(tDev).Seconds()))
	// normalizeIPTables and parseIPTables through the exports
	for i := 0; i < ctx.N(600, 30000); i++ {
		rng := base.Fork()
		m := genPairs(rng)
		got := encPairs(linux.VerifNormalizeIPTables(m))
		want := drv.Ask("norm" + fs + encPairs(m))
		res.Count("stream:normalize")
		res.TracesVsImpl++
		res.Eval("norm\x00"+encPairs(m), got != encPairs(m))
		if got != want {
			res.Disagree("c05 normalizeIPTables vs model", m, got, want)
		}
	}
	for i := 0; i < ctx.N(300, 10000); i++ {
		rng := base.Fork()
		lines := []string{"*filter", ":INPUT DROP", ":c1 -"}
		if rng.Chance(30) {
			// comment lines as iptables-save prints them (ignored since the repair of F-C05c)
			lines = []string{"# Generated by iptables-save v1.8.7 on Tue Sep 30 00:00:00 2026", "*filter", ":INPUT DROP [0:0]", " # Completed", ":c1 - [0:0]"}
		}
		k := 1 + rng.Intn(3)
		for j := 0; j < k; j++ {
			w := []string{"-A", Pick(rng, []string{"INPUT", "c1"})}
			m := 1 + rng.Intn(7)
			for x := 0; x < m; x++ {
				switch rng.Intn(5) {
				case 0:
					w = append(w, "!")
				case 1, 2:
					w = append(w, Pick(rng, optKeys))
				default:
					v := Pick(rng, optVals)
					if v != "" {
						w = append(w, strings.Fields(v)...)
					}
				}
			}
			lines = append(lines, strings.Join(w, " "))
		}
		got := pairsOfImpl(lines)
		want := drv.Ask("pairs" + fs + strings.Join(lines, ls))
		res.Count("stream:parse-pairs")
		res.TracesVsImpl++
		res.Eval("pairs\x00"+strings.Join(lines, "\n"), true)
		if got != want {
			res.Disagree("c05 parseIPTables (option maps) vs model", lines, got, want)
		}
	}
	return res
}

var diffLineRE = regexp.MustCompile(`^iptables differs at ([^:\[]*):([^:\[]*):RULES:(\d+):(.*)$`)

// spellingSig: the signature of a "change reported for an equivalent device" / "second compare reports a change"
// failure.  The known spelling findings (F-C05m repeated -m, F-C05k mark with a mask) are named ONLY when
// (1) the model printed the same script as the real code on this input (`model_predicts`),
// (2) the diff line addresses exactly a target rule that violates RuleOK for that reason (`viol` from the driver:
//     table:chain:index:reason), and (3) the difference shown is the one that finding is about.
// Everything else keeps the general predicate and is reported.
func spellingSig(pred, why, viol, script string, modelAgrees bool) map[string]any {
	first := ""
	for _, l := range strings.Split(script, "\n") {
		if strings.HasPrefix(l, "iptables differs at") {
			first = l
			break
		}
	}
	reasonAt := ""
	rest := ""
	if m := diffLineRE.FindStringSubmatch(first); m != nil {
		rest = m[4]
		for _, v := range strings.Split(viol, ",") {
			if strings.HasPrefix(v, m[1]+":"+m[2]+":"+m[3]+":") {
				reasonAt = strings.TrimPrefix(v, m[1]+":"+m[2]+":"+m[3]+":")
			}
		}
	}
	known := func(name string) map[string]any {
		return map[string]any{"pred": name, "stage": pred, "model_predicts": true, "rule_violates": reasonAt}
	}
	switch {
	case !modelAgrees || reasonAt == "":
	case reasonAt == "repeated_option_key" && (strings.HasPrefix(rest, "[options: ") && (strings.Contains(rest, "-m<->") || strings.Contains(rest, "<->-m")) || strings.HasPrefix(rest, "-m:[")):
		return known("repeated_match_option_last_wins")
	case reasonAt == "mark_with_mask" && (rest == "[options: --set-xmark<->--set-mark]" || strings.HasPrefix(rest, "--set-xmark:[")):
		// `--set-mark v/m` against the kernel's `--set-xmark v/m`, or `--set-xmark` texts that differ only in spelling
		return known("set_mark_mask_not_normalised")
	}
	if why != "" {
		return map[string]any{"pred": pred + "(outside grammar: " + why + ")", "model_predicts": modelAgrees, "diff_rule_violates": reasonAt}
	}
	return map[string]any{"pred": pred}
}

// pairsOfImpl runs the real parseIPTables and renders the option maps like the driver's `pairs`.
func pairsOfImpl(lines []string) (out string) {
	var m map[string]map[string][]map[string]string
	_, stderr, status, pm := Captured(func() int {
		return errlog.HandleAbort(func() int {
			errlog.SetStderrLog("")
			m = linux.VerifRulePairs(lines)
			return 0
		})
	})
	if pm != "" {
		return "PANIC " + pm
	}
	if status != 0 {
		msg := strings.TrimSuffix(stderr, "\n")
		msg = strings.ReplaceAll(msg, "\nERROR>>> ", "\n")
		msg = strings.TrimPrefix(msg, "ERROR>>> ")
		return "ERR" + fs + toLine(msg)
	}
	recs := []string{"OK"}
	tn := make([]string, 0)
	for t := range m {
		tn = append(tn, t)
	}
	sort.Strings(tn)
	for _, t := range tn {
		cn := make([]string, 0)
		for c := range m[t] {
			cn = append(cn, c)
		}
		sort.Strings(cn)
		for _, c := range cn {
			for i, p := range m[t][c] {
				keys := make([]string, 0)
				for k := range p {
					keys = append(keys, k)
				}
				sort.Strings(keys)
				var kv []string
				for _, k := range keys {
					kv = append(kv, k+"="+p[k])
				}
				recs = append(recs, strings.Join([]string{t, c, strconv.Itoa(i), strings.Join(kv, ",")}, ls))
			}
		}
	}
	return strings.Join(recs, fs)
}

// witnesses: minimal inputs of the findings and of the boundary of the grammar.
func witnesses() []*c05Case {
	filter := func(rules ...[]string) []aTable {
		return []aTable{{Name: "filter", Chains: []aChain{{Name: "INPUT", Policy: "DROP", Rules: rules}}}}
	}
	return []*c05Case{
		// a table with the empty name that only the device has goes unnoticed (iptables_diff_iff_counterexample)
		{Stream: "witness", Dev: "*\n:INPUT DROP\nCOMMIT\n*filter\n:INPUT DROP\n", Spoc: "*filter\n:INPUT DROP\n*\n"},
		{Stream: "witness", Dev: "*\n", Spoc: ""},
		// duplicate target route (F-C05d, repaired): `ip route add` for an existing route was emitted
		{Stream: "witness", Abstract: true, DevRoutes: []devRoute{{IP: "10.1.1.0", Plen: 24, Hop: "10.10.1.1"}},
			TgtRoutes: []string{"ip route add 10.1.1.0/24 via 10.10.1.1", "ip route add 10.1.1.0/24 via 10.10.1.1"}},
		// state match written before an implicitly loaded protocol match: kernel prints `-m state … -m tcp …`
		{Stream: "witness", Abstract: true, Names: true,
			TgtRS: filter([]string{"m~state", "st~N", "p~n~tcp~0~0", "dp~1~22~~0~0", "j~ACCEPT"}),
			DevRS: filter([]string{"m~state", "st~N", "p~n~tcp~0~0", "dp~1~22~~0~0", "j~ACCEPT"})},
		// the same options with the state match written last converge
		{Stream: "witness", Abstract: true, Names: true,
			TgtRS: filter([]string{"p~n~tcp~0~0", "dp~1~22~~0~0", "m~state", "st~N", "j~ACCEPT"}),
			DevRS: filter([]string{"p~n~tcp~0~0", "dp~1~22~~0~0", "m~state", "st~N", "j~ACCEPT"})},
		// `--syn` without negation (F-C05s, repaired): the kernel prints `--tcp-flags FIN,SYN,RST,ACK SYN`
		{Stream: "witness", Abstract: true,
			TgtRS: filter([]string{"j~ACCEPT", "p~n~tcp~0~0", "syn~0~0"}),
			DevRS: filter([]string{"j~ACCEPT", "p~n~tcp~0~0", "syn~0~0"})},
		// a table on the device that the target does not have survives iptables-restore
		{Stream: "witness", Abstract: true,
			TgtRS: filter([]string{"j~ACCEPT", "s~n~10.1.1.1~32~0"}),
			DevRS: append(filter([]string{"j~ACCEPT", "s~n~10.1.1.1~32~0"}), aTable{Name: "mangle", Chains: []aChain{{Name: "PREROUTING", Policy: "ACCEPT"}}})},
		// MARK with a non-default mask in `--set-mark` spelling (F-C05k): device with the default mask (a real
		// difference: must be reported), with the same mask (kernel prints `--set-xmark 0x10/0xf0`), with another mask
		{Stream: "witness", Abstract: true, TgtRS: filter([]string{"j~MARK", "mk~10~f0~0~0x10/0xf0", "p~n~tcp~0~0"}),
			DevRS: filter([]string{"j~MARK", "mk~10~ffffffff~0~16", "p~n~tcp~0~0"})},
		{Stream: "witness", Abstract: true, TgtRS: filter([]string{"j~MARK", "mk~10~f0~0~0x10/0xf0", "p~n~tcp~0~0"}),
			DevRS: filter([]string{"j~MARK", "mk~10~f0~0~16", "p~n~tcp~0~0"})},
		{Stream: "witness", Abstract: true, TgtRS: filter([]string{"j~MARK", "mk~10~30~0~16/0x30", "p~n~tcp~0~0"}),
			DevRS: filter([]string{"j~MARK", "mk~10~f0~0~16", "p~n~tcp~0~0"})},
		// default mask in the target, another mask on the device; and the kernel's own spelling in the target
		{Stream: "witness", Abstract: true, TgtRS: filter([]string{"j~MARK", "mk~10~ffffffff~0~16", "p~n~tcp~0~0"}),
			DevRS: filter([]string{"j~MARK", "mk~10~30~0~16", "p~n~tcp~0~0"})},
		{Stream: "witness", Abstract: true, TgtRS: filter([]string{"j~MARK", "mk~10~f0~1~0x10/0xf0", "p~n~tcp~0~0"}),
			DevRS: filter([]string{"j~MARK", "mk~10~ffffffff~0~16", "p~n~tcp~0~0"})},
		// spellings that must compare equal
		{Stream: "witness", Abstract: true, Names: true,
			TgtRS: filter([]string{"j~MARK", "mk~f~ffffffff~1~0X0F/0XFFFFFFFF", "p~b~tcp~1~0"}, []string{"p~n~vrrp~1~1", "s~a~10.1.1.1~32~0", "j~c1"},
				[]string{"p~n~udp~1~0", "sp~r~0~1023~2~1", "dp~r~1024~65535~0~1", "m~UDP", "g~c2"}),
			DevRS: filter([]string{"j~MARK", "mk~f~ffffffff~0~15", "p~b~tcp~0~0"}, []string{"p~n~vrrp~0~0", "s~b~10.1.1.1~32~1", "j~c1"},
				[]string{"p~n~udp~0~0", "sp~r~0~1023~0~0", "dp~r~1024~65535~0~0", "g~c2"})},
	}
}
