package main

// Oracle for the clause "a message naming the offending input" and input-derived attributes of
// the two recorded panics. Nothing here looks at the code under test.
//
// What "naming the offending input" minimally means (docs/C20.md, section "Message clause"):
// the ERROR part of the output of a rejecting run (exit status 1, no usage text) must contain
//   file     a path of an input file of the run (with a slash or a dot in it), or `file BASENAME`
//            for one of them (`While reading file router:`), or, for do-approve, the device name; or
//   fragment a delimited piece of text ('..', "..", >>..<<, a whole message line, the text behind the
//            last ": ") that occurs verbatim (white space collapsed) in one of the input files; or
//   word     an identifier-like word (with a capital, digit, '-', '_', '/', '.'; not a plain number) that
//            occurs as a word in one of the input files (object names: `Address-group g0 of vsys1`).
// JSON/XML decoder messages carry no fragment of the input, so for NSX and PAN-OS syntax errors this
// amounts to "the file is named"; for the line oriented kinds the quoted line or command suffices.

import (
	"encoding/json"
	"regexp"
	"strconv"
	"strings"
	"unicode/utf8"
)

var (
	quoted1Re   = regexp.MustCompile(`'([^']*)'`)
	quoted2Re   = regexp.MustCompile(`"((?:[^"\\]|\\.)*)"`)
	quoted3Re   = regexp.MustCompile(`>>(.*?)<<`)
	devAnswerRe = regexp.MustCompile(`/policy/api/|/api/|While reading device|Devices unreachable|Wrong device name`)
	pathRe      = regexp.MustCompile(`[\w.\-]+(?:/[\w.\-]+)+`)
	drcSufRe    = regexp.MustCompile(`-DRC-\d+`)
	wordSepRe   = regexp.MustCompile(`[\s'"<>(),:;=\[\]{}]+`)
	specialRe   = regexp.MustCompile(`[0-9A-Z_\-/.]`)
	letterRe    = regexp.MustCompile(`[A-Za-z]`)
	msgPrefix   = []string{"ERROR>>> ", "WARNING>>> ", "Error: ", "ERROR>>>", "WARNING>>>"}
	noNameElem  = regexp.MustCompile(`<entry\s*/?>|name=""`)
)

// validUTF8: every invalid byte becomes U+FFFD, as encoding/json does when the case travels to the worker.
func validUTF8(s string) string {
	if utf8.ValidString(s) {
		return s
	}
	var b strings.Builder
	for _, r := range s { // ranging yields U+FFFD per invalid byte
		b.WriteRune(r)
	}
	return b.String()
}

func collapse(s string) string { return strings.Join(strings.Fields(s), " ") }

// errorPart: the lines from the first error line on (warnings in front of it name other things).
func errorPart(text string) string {
	lines := strings.Split(text, "\n")
	for i, l := range lines {
		if strings.HasPrefix(l, "ERROR>>>") || strings.HasPrefix(l, "Error:") {
			return strings.Join(lines[i:], "\n")
		}
	}
	return text
}

// namesInput returns how the message names the input: "usage", "file", "fragment", "word" or "".
func namesInput(c *c20Case, text string) string {
	if strings.Contains(text, "Usage:") {
		return "usage"
	}
	m := validUTF8(errorPart(text))
	m = drcSufRe.ReplaceAllString(m, "") // the program's own suffix of names taken from the device
	var names []string
	for n := range c.Files {
		names = append(names, n)
	}
	for n := range c.Links {
		names = append(names, n)
	}
	names = append(names, c.Dirs...)
	for _, a := range c.Args {
		if !strings.HasPrefix(a, "-") {
			names = append(names, a)
		}
	}
	// a path in the message that is an input file or lies directly in a directory of the input ("no such file")
	known := map[string]bool{}
	for _, n := range names {
		known[n] = true
		for i := strings.LastIndex(n, "/"); i > 0; i = strings.LastIndex(n[:i], "/") {
			known[n[:i]] = true
		}
	}
	for _, p := range pathRe.FindAllString(m, -1) {
		if known[p] || known[p[:strings.LastIndex(p, "/")]] {
			return "file"
		}
	}
	for _, n := range names {
		if strings.ContainsAny(n, "/.") && strings.Contains(m, n) {
			return "file"
		}
		b := n[strings.LastIndex(n, "/")+1:]
		if regexp.MustCompile(`\bfile ` + regexp.QuoteMeta(b) + `(\W|$)`).MatchString(m) {
			return "file"
		}
	}
	if c.Prog == "do-approve" && len(c.Args) > 0 {
		dev := c.Args[len(c.Args)-1]
		if regexp.MustCompile(`(^|\W)` + regexp.QuoteMeta(dev) + `(\W|$)`).MatchString(m) {
			return "file"
		}
	}
	// answers of a simulated device: the request (URL path), the device or "device" as the source names the input
	if len(c.HTTP) > 0 && devAnswerRe.MatchString(m) {
		return "file"
	}
	var all strings.Builder
	lineSet := map[string]bool{}
	texts := []string{}
	for _, v := range c.Files {
		texts = append(texts, v)
	}
	for _, v := range c.HTTP {
		texts = append(texts, strings.TrimPrefix(v, "STATUS:"))
	}
	for _, v := range texts {
		v = validUTF8(v) // as the worker gets it (JSON transport)
		all.WriteString(v)
		all.WriteString("\n")
		for _, l := range strings.Split(v, "\n") {
			lineSet[collapse(l)] = true
		}
	}
	text1 := collapse(all.String())
	var frags []string
	for _, l := range strings.Split(m, "\n") {
		for _, p := range msgPrefix {
			l = strings.TrimPrefix(l, p)
		}
		for _, mm := range quoted1Re.FindAllStringSubmatch(l, -1) {
			frags = append(frags, mm[1])
		}
		for _, mm := range quoted2Re.FindAllStringSubmatch(l, -1) {
			frags = append(frags, mm[1])
			if u, err := strconv.Unquote(`"` + mm[1] + `"`); err == nil {
				frags = append(frags, u)
			}
		}
		for _, mm := range quoted3Re.FindAllStringSubmatch(l, -1) {
			frags = append(frags, mm[1])
		}
		frags = append(frags, l)
		if i := strings.LastIndex(l, ": "); i >= 0 {
			tail := l[i+2:]
			frags = append(frags, tail)
			// the program may put its own command words in front of a line it quotes ("ip route add " + line):
			// the rest must then be a WHOLE line of the input
			w := strings.Fields(tail)
			for k := 1; k <= 3 && k < len(w); k++ {
				if lineSet[strings.Join(w[k:], " ")] {
					return "fragment"
				}
			}
		}
	}
	inWords := map[string]bool{}
	for _, w := range strings.Fields(all.String()) {
		inWords[w] = true
	}
	for _, w := range wordSepRe.Split(all.String(), -1) {
		inWords[w] = true
	}
	for _, f := range frags {
		f = collapse(f)
		if f == "" {
			continue
		}
		if len(f) >= 2 && strings.Contains(text1, f) || lineSet[f] || inWords[f] {
			return "fragment"
		}
	}
	// a name that is the empty string: accepted if the input has an element without a name
	if (strings.Contains(m, "''") || strings.Contains(m, `""`)) && noNameElem.MatchString(all.String()) {
		return "fragment"
	}
	for _, w := range wordSepRe.Split(m, -1) {
		if len(w) >= 2 && specialRe.MatchString(w) && letterRe.MatchString(w) && inWords[w] {
			return "word"
		}
	}
	return ""
}

// infoBad: input-derived prediction for F-C20n: some info file of the case is not a regular file with
// one JSON value that decodes into the info record.
func infoBad(c *c20Case) bool {
	for _, d := range c.Dirs {
		if strings.HasSuffix(d, ".info") {
			return true
		}
	}
	for n := range c.Links {
		if strings.HasSuffix(n, ".info") {
			return true
		}
	}
	for n, v := range c.Files {
		if !strings.HasSuffix(n, ".info") {
			continue
		}
		var rec struct {
			GeneratedBy string   `json:"generated_by"`
			Model       string   `json:"model"`
			IPList      []string `json:"ip_list"`
			NameList    []string `json:"name_list"`
			PDP         string   `json:"policy_distribution_point"`
		}
		if err := json.NewDecoder(strings.NewReader(v)).Decode(&rec); err != nil {
			return true
		}
	}
	return false
}

// unclosedQuote: input-derived prediction for F-C20m: some line has a word that starts with a double
// quote and no later word of the line ends with one.
func unclosedQuote(c *c20Case) bool {
	for n, v := range c.Files {
		if strings.HasSuffix(n, ".info") {
			continue
		}
		for _, l := range strings.Split(v, "\n") {
			w := strings.Fields(l)
			for i, x := range w {
				if !strings.HasPrefix(x, `"`) {
					continue
				}
				closed := false
				for _, y := range w[i:] {
					if strings.HasSuffix(y, `"`) && !strings.HasSuffix(y, `\"`) {
						closed = true
					}
				}
				if !closed {
					return true
				}
			}
		}
	}
	return false
}
