package main

// A small HTTPS device for the NSX and PAN-OS backends (after the simulators of harness/c16/session.go
// and harness/c09, reduced to what LoadDevice asks for): every answer can be replaced by a malformed one.
// The server runs in the worker process, one per case; SIMULATE_ROUTER is its URL.

import (
	"crypto/tls"
	"fmt"
	"io"
	"net/http"
	"net/http/httptest"
	"strconv"
	"strings"
)

const nsxPol = "/policy/api/v1/infra/domains/default/gateway-policies"

var httpDefault = map[string]string{
	"session":  "",
	"policies": `{"results":[{"id":"Netspoc-v1"}]}`,
	"policy":   `{"id":"Netspoc-v1","resource_type":"GatewayPolicy","rules":[]}`,
	"services": `{"results":[]}`,
	"groups":   `{"results":[]}`,
	"keygen":   "<response status = 'success'><result><key>LUFRPT=</key></result></response>",
	"op":       "<response status = 'success'><result><enabled>yes</enabled><group><mode>Active-Passive</mode><local-info><state>active</state></local-info></group></result></response>",
	"config":   `<response status = 'success'><result><devices><entry name="localhost.localdomain"><deviceconfig><system><hostname>router</hostname></system></deviceconfig><vsys><entry name="vsys1"></entry></vsys></entry></devices></result></response>`,
}

func httpKey(r *http.Request) string {
	p, q := r.URL.Path, r.URL.Query()
	switch {
	case strings.HasSuffix(p, "/api/session/create"):
		return "session"
	case p == nsxPol:
		return "policies"
	case strings.HasPrefix(p, nsxPol+"/"):
		return "policy"
	case p == "/policy/api/v1/infra/services":
		return "services"
	case p == "/policy/api/v1/infra/domains/default/groups":
		return "groups"
	case q.Get("type") == "keygen":
		return "keygen"
	case q.Get("type") == "op":
		return "op"
	case q.Get("type") == "config" && q.Get("action") == "get":
		return "config"
	}
	return ""
}

// An answer may start with "STATUS:nnn\n"; the answer "CLOSE" closes the connection without a response.
func startHTTPSim(c *c20Case) *httptest.Server {
	var srv *httptest.Server
	srv = httptest.NewUnstartedServer(http.HandlerFunc(func(w http.ResponseWriter, r *http.Request) {
		io.ReadAll(r.Body)
		k := httpKey(r)
		body, ok := c.HTTP[k]
		if !ok {
			body, ok = httpDefault[k]
		}
		if !ok {
			if c.Type == "PAN-OS" {
				body = "<response status = 'success'></response>"
			} else {
				body = "{}"
			}
		}
		if body == "CLOSE" {
			srv.CloseClientConnections()
			return
		}
		if k == "session" {
			w.Header().Set("x-xsrf-token", "secret")
		}
		if rest, found := strings.CutPrefix(body, "STATUS:"); found {
			code, b, _ := strings.Cut(rest, "\n")
			n, _ := strconv.Atoi(code)
			w.WriteHeader(n)
			body = b
		}
		io.WriteString(w, body)
	}))
	srv.TLS = &tls.Config{}
	srv.StartTLS()
	return srv
}

var httpMalformedJSON = []string{
	"", "{", "[", "null", "[]", "7", `"x"`, `{"results":null}`, `{"results":[null]}`, `{"results":"x"}`, `{"results":{}}`,
	`{"results":[{"id":7}]}`, `{"results":[{"id":["a"]}]}`, `{"results":[{"id":"Netspoc-v1"}],"cursor":99999999999999999999999}`,
	`{"results":[{"id":"a","sequence_number":1e999}]}`, `{"results":[{"id":"Netspoc-v1"}`, "\xff\xfe{}", "<html><body>502</body></html>",
	"STATUS:500\ninternal error", "STATUS:401\n{\"error_message\":\"x\"}", "STATUS:200\n", "CLOSE",
	strings.Repeat("[", 100000), `{"results":[` + strings.Repeat(`{"a":`, 20000) + "1" + strings.Repeat("}", 20000) + `]}`,
	// well-formed list, malformed members
	`{"id":"Netspoc-v1","rules":[null]}`, `{"id":"Netspoc-v1","rules":{}}`, `{"id":"Netspoc-v1","rules":[{"id":"r1","sequence_number":"x"}]}`,
	`{"id":"Netspoc-v1","rules":[{"id":"r1","source_groups":null,"destination_groups":[7],"services":"ANY","scope":[]}]}`,
	`{"results":[{"id":"Netspoc-g1","expression":[null]}]}`, `{"results":[{"id":"Netspoc-g1","expression":[{"ip_addresses":[]}]}]}`,
	`{"results":[{"id":"Netspoc-g1","expression":[]},{"id":"Netspoc-g1","expression":[{"ip_addresses":[""]}]}]}`,
	`{"results":[{"id":"Netspoc-tcp_80","service_entries":[null]}]}`, `{"results":[{"id":"Netspoc-tcp_80","service_entries":[{"l4_protocol":7,"destination_ports":"80"}]}]}`,
}

var httpMalformedXML = []string{
	"", "<", "<response", "<response status = 'success'>", "<response status = 'success'><result>", "<response status = 'error'><msg>x</msg></response>",
	"<response status = 'success'><result></result></response>", "<response status = 'success'><result><devices></devices></result></response>",
	"<response status = 'success'><result><devices><entry></entry></devices></result></response>",
	`<response status = 'success'><result><devices><entry name="d"><vsys><entry></entry><entry name=""></entry></vsys></entry></devices></result></response>`,
	`<response status = 'success'><result><devices><entry name="d"><vsys><entry name="vsys1"><rulebase><security><rules><entry name="r1"></entry><entry></entry></rules></security></rulebase><address-group><entry name="g0"><static><member>g0</member></static></entry></address-group></entry></vsys></entry></devices></result></response>`,
	`<response status = 'success'><result><key></key></result></response>`, `<response status = 'success'><result><enabled>yes</enabled></result></response>`,
	`<response status = 'success'><result><enabled>yes</enabled><group><local-info><state>passive</state></local-info></group></result></response>`,
	"{\"results\":[]}", "\xff\xfe<response/>", "STATUS:500\ninternal error", "STATUS:403\n<response status = 'error' code = '403'><result><msg>Invalid credentials.</msg></result></response>", "CLOSE",
	strings.Repeat("<a>", 50000) + strings.Repeat("</a>", 50000), "<response status = 'success'><result>" + strings.Repeat("<devices>", 20000),
	"<response status = 'success'><result><devices><entry name=\"d\"><vsys><entry name=\"vsys1\"><service><entry name=\"tcp 80\"><protocol><tcp><port>99999999999999999999</port></tcp></protocol></entry></service></entry></vsys></entry></devices></result></response>",
}

func httpCases(emit func(*c20Case)) {
	conf := "basedir = .\ncheckbanner = NetSPoC\nsystemuser = admin\ntimeout = 3\n"
	code := map[string]string{
		"NSX":    `{"groups":[],"policies":[],"services":[]}`,
		"PAN-OS": `<config><devices><entry name="localhost.localdomain"><vsys><entry name="vsys1"></entry></vsys></entry></devices></config>`,
	}
	keys := map[string][]string{"NSX": {"session", "policies", "policy", "services", "groups"}, "PAN-OS": {"keygen", "op", "config"}}
	for _, typ := range []string{"NSX", "PAN-OS"} {
		bad := httpMalformedJSON
		if typ == "PAN-OS" {
			bad = httpMalformedXML
		}
		// the unchanged answers once
		bad = append([]string{"\x00default"}, bad...)
		for _, k := range keys[typ] {
			for bi, b := range bad {
				if b == "\x00default" && k != keys[typ][0] {
					continue
				}
				h := map[string]string{"\x00type": typ}
				delete(h, "\x00type")
				if b != "\x00default" {
					h[k] = b
				} else {
					h["none"] = ""
				}
				mut := fmt.Sprintf("answer to %s := malformed#%d", k, bi)
				for _, action := range []string{"compare", "approve"} {
					if action == "approve" && bi%4 != 0 {
						continue
					}
					emit(&c20Case{Prog: "do-approve", Args: []string{action, "router"},
						Files: map[string]string{".netspoc-approve": conf, "credentials": "* admin secret\n",
							"policies/p1/code/router": code[typ], "policies/p1/code/router.info": infoJSON(typ)},
						Links: map[string]string{"policies/current": "p1"}, Dirs: []string{"lock", "status", "history", "policies/p1/log"},
						Env: map[string]string{"TEST_TIME": "2024-Sep-29 16:19:50"}, HTTP: h,
						Type: typ, Test: "do-approve with simulated " + typ, Mut: action + ", " + mut, Class: "do-approve-http"})
				}
				emit(&c20Case{Prog: "drc", Args: []string{"-q", "-C", "code/router"},
					Files: map[string]string{".netspoc-approve": conf, "credentials": "* admin secret\n",
						"code/router": code[typ], "code/router.info": infoJSON(typ)},
					HTTP: h, Type: typ, Test: "drc -C with simulated " + typ, Mut: mut, Class: "drc-http"})
			}
		}
	}
}
