package main

// Deterministic enumeration of the property's own family (properties.jsonl, C20):
// every configuration line of go/testdata/*.t, under word-prefix truncation, single-token
// deletion, duplication, swap, indentation change, line deletion/duplication; empty and garbage
// files; structural mutations of the JSON (NSX) and XML (PAN-OS) documents; all five device
// types (each test under its own type plus every test's unmutated files under the four other
// types); both argument positions of `drc FILE1 FILE2`; do-approve / missing-approve with
// garbage info and status files.

import (
	"bytes"
	"encoding/json"
	"encoding/xml"
	"fmt"
	"path"
	"path/filepath"
	"regexp"
	"sort"
	"strings"

	"github.com/hknutzen/testtxt"
)

type tDescr struct {
	Title     string
	Device    string
	Scenario  string
	Netspoc   string
	Options   string
	Params    string
	Setup     string
	Output    string
	Warning   string
	Error     string
	DoApprove bool
	Todo      bool
}

type baseCase struct {
	test  string
	typ   string
	files map[string]string // device, code/router, code/router.raw, code/ipv6/router, ...; info files included
}

var allTypes = []string{"ASA", "IOS", "Linux", "NSX", "PAN-OS"}

func typeOfFile(base string) string {
	prefix, _, _ := strings.Cut(strings.TrimSuffix(base, ".t"), "_")
	prefix = strings.ToUpper(prefix)
	if prefix == "LINUX" {
		prefix = "Linux"
	}
	return prefix
}

var digitRe = regexp.MustCompile(`[0-9]+`)

var markerRe = regexp.MustCompile(`(?ms)^-+[ ]*\S+[ ]*\n`)

// splitFiles is testtxt.PrepareInDir without the file system.
func splitFiles(inDir, single, input string) map[string]string {
	if input == "NONE" {
		input = ""
	}
	res := map[string]string{}
	il := markerRe.FindAllStringIndex(input, -1)
	if il == nil || il[0][0] != 0 {
		res[path.Join(inDir, single)] = input
		return res
	}
	for i, p := range il {
		marker := input[p[0] : p[1]-1]
		pName := strings.Trim(marker, "- ")
		end := len(input)
		if i+1 < len(il) {
			end = il[i+1][0]
		}
		res[path.Join(inDir, pName)] = input[p[1]:end]
	}
	return res
}

func infoJSON(model string) string {
	return fmt.Sprintf("{\n \"model\": \"%s\",\n \"name_list\": [ \"router\" ],\n \"ip_list\": [ \"10.1.13.33\" ]\n}\n", model)
}

// loadBases reads all tests of the repository's test data.
func loadBases(repo string, note func(string)) []baseCase {
	files, _ := filepath.Glob(filepath.Join(repo, "go", "testdata", "*.t"))
	sort.Strings(files)
	var bases []baseCase
	for _, f := range files {
		base := filepath.Base(f)
		typ := typeOfFile(base)
		ok := false
		for _, t := range allTypes {
			ok = ok || t == typ
		}
		var l []tDescr
		if err := testtxt.ParseFile(f, &l); err != nil {
			note("cannot parse " + base + ": " + err.Error())
			continue
		}
		for _, d := range l {
			t := typ
			if !ok {
				t = "IOS" // drc.t, do-approve.t: generic tests, run with the suite's default info
			}
			files := splitFiles("code", "router", d.Netspoc)
			hasInfo := false
			for n := range files {
				if strings.HasSuffix(n, ".info") {
					hasInfo = true
				}
			}
			if !hasInfo {
				files["code/router.info"] = infoJSON(t)
			}
			dev := d.Device
			if dev == "NONE" {
				dev = ""
			}
			files["device"] = dev
			bases = append(bases, baseCase{test: base + ":" + d.Title, typ: t, files: files})
		}
	}
	return bases
}

func isConfigFile(name string) bool {
	return !strings.HasSuffix(name, ".info")
}

// ---------------------------------------------------------------- mutations of one line

type lineMut struct {
	class, descr, text string
	drop, dup          bool
}

func splitIndent(line string) (string, []string) {
	i := 0
	for i < len(line) && (line[i] == ' ' || line[i] == '\t') {
		i++
	}
	return line[:i], strings.Fields(line[i:])
}

func lineMutations(line string) []lineMut {
	ind, w := splitIndent(line)
	var out []lineMut
	n := len(w)
	join := func(l []string) string { return ind + strings.Join(l, " ") }
	for k := 1; k < n; k++ {
		out = append(out, lineMut{class: "trunc", descr: fmt.Sprintf("trunc@%d", k), text: join(w[:k])})
	}
	for i := 0; i < n; i++ {
		l := append(append([]string{}, w[:i]...), w[i+1:]...)
		out = append(out, lineMut{class: "delete", descr: fmt.Sprintf("del@%d", i), text: join(l)})
	}
	for i := 0; i < n; i++ {
		l := append(append(append([]string{}, w[:i+1]...), w[i]), w[i+1:]...)
		out = append(out, lineMut{class: "dup", descr: fmt.Sprintf("dup@%d", i), text: join(l)})
	}
	for i := 0; i+1 < n; i++ {
		l := append([]string{}, w...)
		l[i], l[i+1] = l[i+1], l[i]
		out = append(out, lineMut{class: "swap", descr: fmt.Sprintf("swap@%d", i), text: join(l)})
	}
	if n > 0 {
		body := strings.Join(w, " ")
		out = append(out, lineMut{class: "indent", descr: "indent+1", text: ind + " " + body})
		out = append(out, lineMut{class: "indent", descr: "indent+3", text: ind + "   " + body})
		if len(ind) > 0 {
			out = append(out, lineMut{class: "indent", descr: "indent-1", text: ind[1:] + body})
			out = append(out, lineMut{class: "indent", descr: "indent=0", text: body})
		}
		out = append(out, lineMut{class: "indent", descr: "indent=tab", text: "\t" + body})
		out = append(out, lineMut{class: "indent", descr: "wordsep=2", text: ind + strings.Join(w, "  ")})
		out = append(out, lineMut{class: "linedel", descr: "linedel", drop: true})
		out = append(out, lineMut{class: "linedup", descr: "linedup", dup: true})
	}
	return out
}

var garbageFiles = []string{
	"", "\n", "NO_JSON\n", "{", "[", "{}", "[]", "null", "<", "<config>", "<config></config>", "<a></a>",
	"\x00\x01\x02\xff\xfe", " x\n", "  \n x\n", "\"\n", "*\n", ":\n", "-A\n", "-\n", "!\n", "[APPEND]\n",
	"[APPEND]\n x\n", "#\n", "http", "http\n<response status=\"success\"></response>",
	"http\n<response status=\"success\"><result></result></response>",
	"{\"groups\":[null],\"policies\":[null],\"services\":[null]}",
	"{\"groups\":[{\"id\":\"Netspoc-g1\",\"expression\":[null]}]}",
	"{\"policies\":[{\"id\":\"Netspoc-v1\",\"rules\":[null]}]}",
	"<config><devices></devices></config>", "<config><devices><entry></entry></devices></config>",
	"*filter\n", "*filter\n:INPUT\n-A INPUT\n", "*filter\n:INPUT DROP\n-A INPUT !\n", "ip route add\n", "ip route\n",
}

// ---------------------------------------------------------------- structural mutations

// jsonMutations: delete each object key / array element, null / empty each value, duplicate
// each array element.
func jsonMutations(text string) []lineMut {
	var hdr string
	body := text
	for strings.HasPrefix(body, "#") {
		i := strings.IndexByte(body, '\n')
		if i < 0 {
			return nil
		}
		hdr += body[:i+1]
		body = body[i+1:]
	}
	var root any
	dec := json.NewDecoder(strings.NewReader(body))
	dec.UseNumber()
	if err := dec.Decode(&root); err != nil {
		return nil
	}
	var out []lineMut
	emit := func(class, descr string) {
		b, _ := json.MarshalIndent(root, "", " ")
		out = append(out, lineMut{class: class, descr: descr, text: hdr + string(b) + "\n"})
	}
	var walk func(v any, p string, set func(any), del func() func())
	walk = func(v any, p string, set func(any), del func() func()) {
		if del != nil {
			undo := del()
			emit("json-del", "del "+p)
			undo()
		}
		repl := []any{nil}
		switch v.(type) {
		case map[string]any:
			repl = append(repl, map[string]any{}, []any{})
		case []any:
			repl = append(repl, []any{}, []any{nil}, "x")
		case string:
			repl = append(repl, "", []any{}, json.Number("0"))
		default:
			repl = append(repl, "", json.Number("-1"))
		}
		for i, r := range repl {
			set(r)
			emit("json-repl", fmt.Sprintf("repl%d %s", i, p))
		}
		set(v)
		switch x := v.(type) {
		case map[string]any:
			keys := make([]string, 0, len(x))
			for k := range x {
				keys = append(keys, k)
			}
			sort.Strings(keys)
			for _, k := range keys {
				k := k
				walk(x[k], p+"."+k, func(n any) { x[k] = n }, func() func() {
					old := x[k]
					delete(x, k)
					return func() { x[k] = old }
				})
			}
		case []any:
			for i := range x {
				i := i
				// deletion / duplication of element i need a new slice: handled through set of the parent
				without := append(append([]any{}, x[:i]...), x[i+1:]...)
				set(without)
				emit("json-del", fmt.Sprintf("del %s[%d]", p, i))
				dupl := append(append(append([]any{}, x[:i+1]...), x[i]), x[i+1:]...)
				set(dupl)
				emit("json-dup", fmt.Sprintf("dup %s[%d]", p, i))
				set(x)
				walk(x[i], fmt.Sprintf("%s[%d]", p, i), func(n any) { x[i] = n }, nil)
			}
		}
	}
	walk(root, "$", func(n any) { root = n }, nil)
	return out
}

type xnode struct {
	start    xml.StartElement
	children []*xnode
	text     string
}

func parseXML(text string) (*xnode, bool) {
	d := xml.NewDecoder(strings.NewReader(text))
	root := &xnode{}
	stack := []*xnode{root}
	for {
		tok, err := d.Token()
		if err != nil {
			break
		}
		switch t := tok.(type) {
		case xml.StartElement:
			n := &xnode{start: t.Copy()}
			top := stack[len(stack)-1]
			top.children = append(top.children, n)
			stack = append(stack, n)
		case xml.EndElement:
			if len(stack) < 2 {
				return nil, false
			}
			stack = stack[:len(stack)-1]
		case xml.CharData:
			if s := strings.TrimSpace(string(t)); s != "" {
				stack[len(stack)-1].text += s
			}
		}
	}
	if len(stack) != 1 || len(root.children) == 0 {
		return nil, false
	}
	return root, true
}

func (n *xnode) render(b *bytes.Buffer, depth int) {
	ind := strings.Repeat(" ", depth)
	b.WriteString(ind + "<" + n.start.Name.Local)
	for _, a := range n.start.Attr {
		fmt.Fprintf(b, " %s=%q", a.Name.Local, a.Value)
	}
	b.WriteString(">")
	if len(n.children) == 0 {
		xml.EscapeText(b, []byte(n.text))
		b.WriteString("</" + n.start.Name.Local + ">\n")
		return
	}
	b.WriteString("\n")
	for _, c := range n.children {
		c.render(b, depth+1)
	}
	b.WriteString(ind + "</" + n.start.Name.Local + ">\n")
}

// xmlMutations: delete, empty, duplicate each element; drop each attribute; empty each text.
func xmlMutations(text string) []lineMut {
	hdr := ""
	body := text
	if strings.HasPrefix(body, "http") {
		i := strings.IndexByte(body, '\n')
		if i < 0 {
			return nil
		}
		hdr, body = body[:i+1], body[i+1:]
	}
	root, ok := parseXML(body)
	if !ok {
		return nil
	}
	var out []lineMut
	emit := func(class, descr string) {
		var b bytes.Buffer
		for _, c := range root.children {
			c.render(&b, 0)
		}
		out = append(out, lineMut{class: class, descr: descr, text: hdr + b.String()})
	}
	var walk func(parent *xnode, p string)
	walk = func(parent *xnode, p string) {
		for i := 0; i < len(parent.children); i++ {
			c := parent.children[i]
			cp := fmt.Sprintf("%s/%s[%d]", p, c.start.Name.Local, i)
			orig := parent.children
			parent.children = append(append([]*xnode{}, orig[:i]...), orig[i+1:]...)
			emit("xml-del", "del "+cp)
			parent.children = append(append(append([]*xnode{}, orig[:i+1]...), c), orig[i+1:]...)
			emit("xml-dup", "dup "+cp)
			parent.children = orig
			if len(c.children) > 0 || c.text != "" {
				oc, ot := c.children, c.text
				c.children, c.text = nil, ""
				emit("xml-empty", "empty "+cp)
				c.children, c.text = oc, ot
			}
			if len(c.start.Attr) > 0 {
				oa := c.start.Attr
				c.start.Attr = nil
				emit("xml-noattr", "noattr "+cp)
				c.start.Attr = oa
			}
			walk(c, cp)
		}
	}
	walk(root, "")
	// address-groups (PAN-OS) that are members of themselves: 1-cycles and 2-cycles of
	// single-member groups
	member := func(name string) []*xnode {
		return []*xnode{{start: xml.StartElement{Name: xml.Name{Local: "static"}},
			children: []*xnode{{start: xml.StartElement{Name: xml.Name{Local: "member"}}, text: name}}}}
	}
	nameOf := func(n *xnode) string {
		for _, a := range n.start.Attr {
			if a.Name.Local == "name" {
				return a.Value
			}
		}
		return ""
	}
	var cyc func(n *xnode)
	cyc = func(n *xnode) {
		for _, c := range n.children {
			if c.start.Name.Local == "address-group" {
				es := c.children
				for i, e := range es {
					if nameOf(e) == "" {
						continue
					}
					old := e.children
					e.children = member(nameOf(e))
					emit("xml-groupcycle", "1-cycle "+nameOf(e))
					e.children = old
					if i+1 < len(es) && nameOf(es[i+1]) != "" {
						f := es[i+1]
						oe, of := e.children, f.children
						e.children, f.children = member(nameOf(f)), member(nameOf(e))
						emit("xml-groupcycle", "2-cycle "+nameOf(e)+","+nameOf(f))
						e.children, f.children = oe, of
					}
				}
			}
			cyc(c)
		}
	}
	cyc(root)
	return out
}

// ---------------------------------------------------------------- derived companion files

type companion struct{ descr, main, comp string }

// keepLines filters the lines of a file.
func keepLines(text string, keep func(trimmed, line string) bool) string {
	var out []string
	for _, l := range strings.Split(text, "\n") {
		if keep(strings.TrimSpace(l), l) {
			out = append(out, l)
		}
	}
	return strings.Join(out, "\n")
}

// companionVariants: (main, companion) pairs derived from the Netspoc code of a test.
func companionVariants(typ, orig string) []companion {
	res := []companion{{"copy", orig, orig}}
	switch typ {
	case "Linux":
		isRule := func(t string) bool { return strings.HasPrefix(t, "-A ") }
		noRules := keepLines(orig, func(t, _ string) bool { return !isRule(t) })
		onlyDrop := keepLines(orig, func(t, _ string) bool { return !isRule(t) || strings.HasSuffix(t, "-j DROP") })
		// [APPEND] behind the chain declarations of every table
		var app []string
		lines := strings.Split(orig, "\n")
		for i, l := range lines {
			app = append(app, l)
			t := strings.TrimSpace(l)
			if strings.HasPrefix(t, ":") && (i+1 == len(lines) || !strings.HasPrefix(strings.TrimSpace(lines[i+1]), ":")) {
				app = append(app, "[APPEND]")
			}
		}
		appended := strings.Join(app, "\n")
		res = append(res,
			companion{"main without rules, companion = original", noRules, orig},
			companion{"main only DROP rules, companion = original", onlyDrop, orig},
			companion{"main without rules, companion = original with [APPEND]", noRules, appended},
			companion{"main only DROP rules, companion = original with [APPEND]", onlyDrop, appended},
			companion{"companion without rules", orig, noRules},
			companion{"companion only DROP rules", orig, onlyDrop},
			companion{"companion = original with [APPEND]", orig, appended})
	case "ASA", "IOS":
		noSub := keepLines(orig, func(_, l string) bool { return !strings.HasPrefix(l, " ") })
		res = append(res,
			companion{"companion with [APPEND]", orig, "[APPEND]\n" + orig},
			companion{"main without sub commands, companion = original", noSub, orig},
			companion{"companion without sub commands", orig, noSub})
	}
	return res
}

// ---------------------------------------------------------------- the family

func cloneFiles(m map[string]string) map[string]string {
	r := make(map[string]string, len(m))
	for k, v := range m {
		r[k] = v
	}
	return r
}

type emitFn func(class string, build func() *c20Case)

// drcCases turns a file set (built lazily by mk) into the two `drc FILE1 FILE2` cases.
func drcCases(b *baseCase, mk func() map[string]string, class, mut string, emit emitFn) {
	typ, test := b.typ, b.test
	emit(class, func() *c20Case {
		return &c20Case{Prog: "drc", Args: []string{"-q", "device", "code/router"}, Files: mk(), Type: typ, Test: test, Mut: mut + " pos=A", Class: class}
	})
	emit(class, func() *c20Case {
		files := mk()
		f2 := cloneFiles(files)
		// type of FILE2 comes from FILE2.info (device.info or ipv6/device.info)
		for n, v := range files {
			switch n {
			case "code/router.info":
				f2["device.info"] = v
			case "code/ipv6/router.info":
				f2["ipv6/device.info"] = v
			}
		}
		return &c20Case{Prog: "drc", Args: []string{"-q", "code/router", "device"}, Files: f2, Type: typ, Test: test, Mut: mut + " pos=B", Class: class}
	})
}

var keywordRe = regexp.MustCompile(`^[a-z][a-z-]*$`)

// lineShape: the words of a line, everything that is not a plain lower-case keyword blanked; at most six words.
func lineShape(w []string) string {
	var out []string
	for i, x := range w {
		if i == 6 {
			out = append(out, "…")
			break
		}
		if keywordRe.MatchString(x) {
			out = append(out, x)
		} else {
			out = append(out, "#")
		}
	}
	return strings.Join(out, " ")
}

// remarkFirst puts a remark line in front of the first line of every ACL (ASA: `access-list NAME remark …`
// before the first `access-list NAME …`; IOS: ` remark …` as first sub command of `ip access-list extended NAME`).
func remarkFirst(typ, text string) string {
	var out []string
	seen := map[string]bool{}
	for _, l := range strings.Split(text, "\n") {
		w := strings.Fields(l)
		if typ == "ASA" && len(w) >= 3 && w[0] == "access-list" && l[0] != ' ' && !seen[w[1]] {
			seen[w[1]] = true
			if w[2] != "remark" {
				out = append(out, "access-list "+w[1]+" remark first line")
			}
		}
		out = append(out, l)
		if typ == "IOS" && len(w) == 4 && w[0] == "ip" && w[1] == "access-list" && w[2] == "extended" && l[0] != ' ' {
			out = append(out, " remark first line")
		}
	}
	return strings.Join(out, "\n")
}

// enumerate calls emit for every member of the family, in a fixed order.
func enumerate(bases []baseCase, emit emitFn) {
	seenLine := map[uint64]bool{}
	for bi := range bases {
		b := &bases[bi]
		// the unmutated test, and under the four other device types
		drcCases(b, func() map[string]string { return cloneFiles(b.files) }, "unmutated", "none", emit)
		for _, t := range allTypes {
			if t == b.typ {
				continue
			}
			t := t
			ob := &baseCase{test: b.test, typ: t}
			drcCases(ob, func() map[string]string {
				f := cloneFiles(b.files)
				for n := range f {
					if strings.HasSuffix(n, ".info") {
						f[n] = infoJSON(t)
					}
				}
				return f
			}, "crosstype", "as "+t, emit)
		}
		// legal reshaping: every ACL starts with a remark line (the first command of an ACL is then of another
		// command type than its extended lines); in all files, and in one file with the other ones emptied, so that
		// it is the first ACL the process sees whatever the argument order
		if b.typ == "ASA" || b.typ == "IOS" {
			var cfgNames []string
			for n := range b.files {
				if isConfigFile(n) && remarkFirst(b.typ, b.files[n]) != b.files[n] {
					cfgNames = append(cfgNames, n)
				}
			}
			sort.Strings(cfgNames)
			if len(cfgNames) > 0 {
				drcCases(b, func() map[string]string {
					f := cloneFiles(b.files)
					for _, n := range cfgNames {
						f[n] = remarkFirst(b.typ, f[n])
					}
					return f
				}, "aclhead", "remark line first in every ACL of every file", emit)
			}
			for _, only := range cfgNames {
				only := only
				drcCases(b, func() map[string]string {
					f := cloneFiles(b.files)
					for n := range f {
						if isConfigFile(n) {
							if n == only {
								f[n] = remarkFirst(b.typ, f[n])
							} else {
								f[n] = ""
							}
						}
					}
					return f
				}, "aclhead", "remark line first in every ACL of "+only+", other files empty", emit)
			}
		}
		names := make([]string, 0, len(b.files))
		for n := range b.files {
			names = append(names, n)
		}
		sort.Strings(names)
		for _, name := range names {
			text := b.files[name]
			if !isConfigFile(name) {
				continue
			}
			// garbage / empty files in this slot (once per type and slot kind is enough, but the
			// other files of the test matter for merging: keep per test, cheap)
			for gi, g := range garbageFiles {
				if g == text || gi%6 != bi%6 {
					continue
				}
				key := fmt.Sprintf("G|%s|%s|%d|%s", b.typ, name, gi, b.files["device"]+"\x00"+b.files["code/router"])
				if seenLine[hash64(key)] {
					continue
				}
				seenLine[hash64(key)] = true
				g, name := g, name
				drcCases(b, func() map[string]string {
					f := cloneFiles(b.files)
					f[name] = g
					return f
				}, "garbage", fmt.Sprintf("%s := garbage#%d", name, gi), emit)
			}
			lines := strings.Split(text, "\n")
			for li, line := range lines {
				if strings.TrimSpace(line) == "" {
					continue
				}
				// context: same type, same file slot, same line and same two neighbours => same case class
				ctx := ""
				if li > 0 {
					ctx = lines[li-1]
				}
				nxt := ""
				if li+1 < len(lines) {
					nxt = lines[li+1]
				}
				// systematic word-boundary truncation: every (line kind, k) pair once, always run (class trunc-kind);
				// line kind = device type, file kind, indentation, and the words of the line with everything
				// that is not a plain keyword (names, numbers, addresses, parenthesised words) blanked
				if b.typ == "ASA" || b.typ == "IOS" || b.typ == "Linux" {
					ind, w := splitIndent(line)
					shape := lineShape(w)
					for k := 1; k < len(w); k++ {
						kk := fmt.Sprintf("K|%s|%s|%d|%s|%d", b.typ, path.Ext(name), len(ind), shape, k)
						if seenLine[hash64(kk)] {
							continue
						}
						seenLine[hash64(kk)] = true
						k, li, name := k, li, name
						text := ind + strings.Join(w[:k], " ")
						drcCases(b, func() map[string]string {
							nl := append([]string{}, lines...)
							nl[li] = text
							f := cloneFiles(b.files)
							f[name] = strings.Join(nl, "\n")
							return f
						}, "trunc-kind", fmt.Sprintf("%s:%d cut behind word %d of kind %q", name, li+1, k, shape), emit)
					}
				}
				key := b.typ + "|" + path.Ext(name) + "|" + ctx + "|" + line + "|" + nxt
				if len(lines) > 300 {
					// machine-generated long ACLs (ios_long-acl.t): lines that differ only in numbers
					// are one shape; the context is dropped as well
					key = b.typ + "|" + path.Ext(name) + "|shape|" + digitRe.ReplaceAllString(line, "0")
				}
				if seenLine[hash64(key)] {
					continue
				}
				seenLine[hash64(key)] = true
				for _, m := range lineMutations(line) {
					m, li, line, name := m, li, line, name
					drcCases(b, func() map[string]string {
						var nl []string
						nl = append(nl, lines[:li]...)
						switch {
						case m.drop:
						case m.dup:
							nl = append(nl, line, line)
						default:
							nl = append(nl, m.text)
						}
						nl = append(nl, lines[li+1:]...)
						f := cloneFiles(b.files)
						f[name] = strings.Join(nl, "\n")
						return f
					}, m.class, fmt.Sprintf("%s:%d %s", name, li+1, m.descr), emit)
				}
				// a line of white space only behind this line (and in front of the first line); trailing white space
				{
					li, name, line := li, name, line
					wsv := []string{" ", "   ", "\t", " \t ", "\r", "  \r"}
					w := wsv[int(hash64(line)%uint64(len(wsv)))]
					drcCases(b, func() map[string]string {
						var nl []string
						nl = append(nl, lines[:li+1]...)
						nl = append(nl, w)
						nl = append(nl, lines[li+1:]...)
						f := cloneFiles(b.files)
						f[name] = strings.Join(nl, "\n")
						return f
					}, "blankline", fmt.Sprintf("%s:%d white-space line %q behind", name, li+1, w), emit)
					if li == 0 {
						drcCases(b, func() map[string]string {
							f := cloneFiles(b.files)
							f[name] = w + "\n" + strings.Join(lines, "\n")
							return f
						}, "blankline", fmt.Sprintf("%s white-space line %q in front", name, w), emit)
					}
					drcCases(b, func() map[string]string {
						nl := append([]string{}, lines...)
						nl[li] = line + w
						f := cloneFiles(b.files)
						f[name] = strings.Join(nl, "\n")
						return f
					}, "blankline", fmt.Sprintf("%s:%d trailing white space %q", name, li+1, w), emit)
				}
				// file truncated after this line (prefix of the file)
				if li+1 < len(lines) && strings.TrimSpace(strings.Join(lines[li+1:], "")) != "" {
					li, name := li, name
					drcCases(b, func() map[string]string {
						f := cloneFiles(b.files)
						f[name] = strings.Join(lines[:li+1], "\n") + "\n"
						return f
					}, "filetrunc", fmt.Sprintf("%s cut after line %d", name, li+1), emit)
				}
			}
			// structural mutations of JSON / XML documents
			var sm []lineMut
			switch b.typ {
			case "NSX":
				sm = jsonMutations(text)
			case "PAN-OS":
				sm = xmlMutations(text)
			}
			for _, m := range sm {
				key := "S|" + b.typ + "|" + path.Ext(name) + "|" + m.text
				if seenLine[hash64(key)] {
					continue
				}
				seenLine[hash64(key)] = true
				m, name := m, name
				drcCases(b, func() map[string]string {
					f := cloneFiles(b.files)
					f[name] = m.text
					return f
				}, m.class, name+" "+m.descr, emit)
			}
		}
		// derived companions: raw file and IPv6 file built from the test's own Netspoc code, and
		// the main file reduced while the companion keeps the original
		if main, ok := b.files["code/router"]; ok && strings.TrimSpace(main) != "" {
			for _, cv := range companionVariants(b.typ, main) {
				for _, slot := range []string{"code/router.raw", "code/ipv6/router"} {
					cv, slot := cv, slot
					drcCases(b, func() map[string]string {
						f := cloneFiles(b.files)
						f["code/router"] = cv.main
						f[slot] = cv.comp
						return f
					}, "companion", fmt.Sprintf("%s := %s", slot, cv.descr), emit)
				}
			}
		}
		// garbage info files for this test's file set (few)
		if bi%40 == 0 {
			for gi, g := range []string{"NO_JSON\n", "", "{", "[]", "null", "{\"model\": 7}", "{\"model\": \"IOS\", \"ip_list\": 1}", "{\"model\":\"" + b.typ + "\"}x", "\x00"} {
				g := g
				drcCases(b, func() map[string]string {
					f := cloneFiles(b.files)
					for n := range f {
						if strings.HasSuffix(n, ".info") {
							f[n] = g
						}
					}
					return f
				}, "garbage-info", fmt.Sprintf("info := garbage#%d", gi), emit)
			}
		}
	}
}

// wrapperCases: do-approve and missing-approve with garbage info and status files.
func wrapperCases(emit func(*c20Case)) {
	conf := "basedir = .\ncheckbanner = NetSPoC\nsystemuser = admin\ntimeout = 1\n"
	statusGarbage := []string{"", "NO_JSON", "{", "[]", "null", "{\"approve\": 7}", "{\"approve\":{\"result\":[],\"policy\":{},\"time\":\"x\"}}",
		"{\"approve\":{\"result\":\"OK\",\"policy\":\"p0\",\"time\":99999999999999999999}}", "\x00\xff",
		"{\"approve\":{\"result\":\"OK\",\"policy\":\"../../etc\",\"time\":5},\"compare\":null}",
		"{\"approve\":{\"result\":\"OK\",\"policy\":\"p1\",\"time\":5}}x"}
	infoGarbage := []string{"NO_JSON\n", "", "{", "[]", "null", "{\"model\": 7}", "{\"model\":\"IOS\"}", "{\"model\":\"Linux\",\"ip_list\":[]}",
		"{\"model\":\"NSX\",\"ip_list\":null}", "{\"model\":\"PAN-OS\"}", "{\"model\":\"ASA\",\"ip_list\":[\"\"]}x", "\x00"}
	for _, action := range []string{"compare", "approve"} {
		for ii, info := range infoGarbage {
			for si, st := range statusGarbage {
				if ii > 0 && si > 0 && (ii+si)%3 != 0 {
					continue
				}
				files := map[string]string{
					".netspoc-approve":             conf,
					"credentials":                  "* admin secret\n",
					"policies/p1/code/router":      "ip route 10.0.0.0 255.0.0.0 10.11.22.33\n",
					"policies/p1/code/router.info": info,
					"status/router":                st,
				}
				emit(&c20Case{Prog: "do-approve", Args: []string{action, "router"}, Files: files,
					Links: map[string]string{"policies/current": "p1"}, Dirs: []string{"lock", "status", "history", "policies/p1/log"},
					Type: "wrapper", Test: "do-approve", Mut: fmt.Sprintf("%s info#%d status#%d", action, ii, si), Class: "do-approve"})
			}
		}
	}
	for si, st := range statusGarbage {
		for _, pol := range []string{"p1", "p0"} {
			files := map[string]string{
				".netspoc-approve":             conf,
				"policies/p1/code/router":      "ip route 10.0.0.0 255.0.0.0 10.11.22.33\n",
				"policies/p0/code/router":      "ip route 10.0.0.0 255.0.0.0 10.11.22.34\n",
				"policies/p1/code/router.info": "NO_JSON",
				"status/router":                strings.ReplaceAll(st, "p0", pol),
			}
			emit(&c20Case{Prog: "missing-approve", Args: nil, Files: files,
				Links: map[string]string{"policies/current": "p1"}, Dirs: []string{"status"},
				Type: "wrapper", Test: "missing-approve", Mut: fmt.Sprintf("status#%d %s", si, pol), Class: "missing-approve"})
		}
	}
}
